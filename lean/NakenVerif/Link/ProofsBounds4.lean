import NakenVerif.Link.ProofsBounds3
import NakenVerif.Link.ProofsTermination
/-
Part 4: the archive walk, the linker's search and the whole protocol never fault: for every byte string
given as .o / .a file the readers stay inside the file.
-/
namespace NakenVerif.Link

theorem View.ofBytes_valid (a : Bytes) : (View.ofBytes a).Valid := by simp [View.Valid, View.ofBytes]

theorem View.sub_valid {v : View} (hv : v.Valid) {off size : Nat} (h : off + size ≤ v.size) : (v.sub off size).Valid := by
  unfold View.Valid at *
  simp only [View.sub]
  omega

namespace Ar

theorem sigLoop_some {v : View} (hv : v.Valid) : ∀ (l : List Nat) (i : Nat), i + l.length ≤ v.size →
    ∃ b, sigLoop v i l = some b
  | [], i, _ => ⟨true, rfl⟩
  | x :: xs, i, h => by
    obtain ⟨c, hc⟩ := View.u8_some hv (show i < v.size by simp at h; omega)
    obtain ⟨r, hr⟩ := sigLoop_some hv xs (i + 1) (by simp at h; omega)
    rw [sigLoop]
    simp only [hc, Option.bind_eq_bind, Option.bind_some, Option.pure_def, hr]
    split <;> exact ⟨_, rfl⟩

theorem readSignature_some {v : View} (hv : v.Valid) : ∃ b, readSignature v = some b := by
  unfold readSignature
  split
  · exact ⟨_, rfl⟩
  · exact sigLoop_some hv _ 0 (by simp [signature]; omega)

theorem sizeDigits_some {v : View} (hv : v.Valid) (field : Nat) : ∀ (k i size : Nat), field + i + k ≤ v.size →
    ∃ r, sizeDigits v field k i size = some r
  | 0, i, size, _ => ⟨_, rfl⟩
  | k + 1, i, size, h => by
    obtain ⟨c, hc⟩ := View.u8_some hv (show field + i < v.size by omega)
    obtain ⟨r, hr⟩ := sizeDigits_some hv field k (i + 1) (size * 10 + (c - 0x30)) (by omega)
    rw [sizeDigits]
    simp only [hc, Option.bind_eq_bind, Option.bind_some, Option.pure_def, hr]
    split
    · exact ⟨_, rfl⟩
    · split
      · exact ⟨_, rfl⟩
      · split <;> exact ⟨_, rfl⟩

/-- `imports_ar_member_size` never faults, and a member it accepts lies inside the archive -/
theorem memberSize_some {v : View} (hv : v.Valid) (ptr : Nat) :
    ∃ r, memberSize v ptr = some r ∧ ∀ size, r = some size → ptr + 60 + size ≤ v.size := by
  unfold memberSize
  split
  · exact ⟨none, rfl, fun s e => by cases e⟩
  · rename_i h
    obtain ⟨r, hr⟩ := sizeDigits_some hv (ptr + 48) 10 0 0 (by omega)
    simp only [hr, Option.bind_eq_bind, Option.bind_some, Option.pure_def]
    cases r with
    | none => exact ⟨none, rfl, fun s e => by cases e⟩
    | some size =>
      simp only
      split
      · exact ⟨none, rfl, fun s e => by cases e⟩
      · refine ⟨_, rfl, ?_⟩
        intro s e; cases e; omega

theorem verifyLoop_some {v : View} (hv : v.Valid) : ∀ (k ptr : Nat), ∃ b, verifyLoop v k ptr = some b
  | 0, ptr => ⟨_, rfl⟩
  | k + 1, ptr => by
    rw [verifyLoop]
    split
    · obtain ⟨r, hr, _⟩ := memberSize_some hv ptr
      simp only [hr, Option.bind_eq_bind, Option.bind_some, Option.pure_def]
      cases r with
      | none => exact ⟨_, rfl⟩
      | some size => exact verifyLoop_some hv k _
    · exact ⟨_, rfl⟩

theorem verify_some {v : View} (hv : v.Valid) : ∃ b, verify v = some b := by
  unfold verify
  obtain ⟨s, hs⟩ := readSignature_some hv
  simp only [hs, Option.bind_eq_bind, Option.bind_some, Option.pure_def]
  cases s with
  | false => exact ⟨_, rfl⟩
  | true => exact verifyLoop_some hv _ _

theorem identDiffers_some {v : View} (hv : v.Valid) (ptr : Nat) : ∀ (l : List Nat) (i : Nat),
    ptr + i + l.length ≤ v.size → ∃ b, identDiffers v ptr i l = some b
  | [], i, _ => ⟨false, rfl⟩
  | x :: xs, i, h => by
    obtain ⟨c, hc⟩ := View.u8_some hv (show ptr + i < v.size by simp at h; omega)
    obtain ⟨r, hr⟩ := identDiffers_some hv ptr xs (i + 1) (by simp at h; omega)
    rw [identDiffers]
    simp only [hc, Option.bind_eq_bind, Option.bind_some, Option.pure_def, hr]
    split <;> exact ⟨_, rfl⟩

theorem isElfMagic_some {v : View} (hv : v.Valid) (ptr : Nat) (h : ptr + 64 ≤ v.size) : ∃ b, isElfMagic v ptr = some b := by
  obtain ⟨a, ha⟩ := View.u8_some hv (show ptr + 60 < v.size by omega)
  obtain ⟨b, hb⟩ := View.u8_some hv (show ptr + 61 < v.size by omega)
  obtain ⟨c, hc⟩ := View.u8_some hv (show ptr + 62 < v.size by omega)
  obtain ⟨d, hd⟩ := View.u8_some hv (show ptr + 63 < v.size by omega)
  unfold isElfMagic
  simp only [ha, hb, hc, hd, Option.bind_eq_bind, Option.bind_some, Option.pure_def]
  repeat (first | exact ⟨_, rfl⟩ | split)

/-- the member walk of `imports_ar_find_code_from_symbol` never faults; what it reports lies in the archive -/
theorem findLoop_some {v : View} (hv : v.Valid) (sym : Name) : ∀ (k ptr : Nat),
    ∃ r, findLoop v sym k ptr = some r ∧
      ∀ m, r = some m → m.code.fileOffset + m.code.functionSize ≤ v.size ∧ m.objOff + m.objSize ≤ v.size
  | 0, ptr => ⟨none, rfl, fun m e => by cases e⟩
  | k + 1, ptr => by
    rw [findLoop]
    split
    · obtain ⟨r, hr, hin⟩ := memberSize_some hv ptr
      simp only [hr, Option.bind_eq_bind, Option.bind_some, Option.pure_def]
      cases r with
      | none => exact ⟨none, rfl, fun m e => by cases e⟩
      | some size =>
        have hsz := hin size rfl
        simp only
        obtain ⟨d, hd⟩ := identDiffers_some hv ptr lookupIdent 0 (by simp [lookupIdent]; omega)
        simp only [hd, Option.bind_some]
        obtain ⟨mg, hmg⟩ : ∃ b, elfMagicIf v (d && decide (size ≥ 4)) ptr = some b := by
          unfold elfMagicIf
          split
          · rename_i hc
            simp only [Bool.and_eq_true, decide_eq_true_eq] at hc
            exact isElfMagic_some hv ptr (by omega)
          · exact ⟨_, rfl⟩
        simp only [hmg, Option.bind_some]
        have hsub : (v.sub (ptr + 60) size).Valid := View.sub_valid hv (by omega)
        obtain ⟨hit, hhit⟩ : ∃ r, findCodeIf (v.sub (ptr + 60) size) mg sym = some r ∧
            ∀ c, r = some c → c.fileOffset + c.functionSize ≤ size := by
          unfold findCodeIf
          split
          · obtain ⟨r, hr, hc⟩ := Elf.findCode_some hsub sym
            exact ⟨r, hr, fun c e => by simpa [View.sub] using hc c e⟩
          · exact ⟨none, rfl, fun c e => by cases e⟩
        simp only [hhit.1, Option.bind_some]
        cases hit with
        | none => exact findLoop_some hv sym k _
        | some c =>
          refine ⟨_, rfl, ?_⟩
          intro m e
          cases e
          have := hhit.2 c rfl
          simp only
          omega
    · exact ⟨none, rfl, fun m e => by cases e⟩

theorem findCode_some {v : View} (hv : v.Valid) (sym : Name) :
    ∃ r, findCode v sym = some r ∧
      ∀ m, r = some m → m.code.fileOffset + m.code.functionSize ≤ v.size ∧ m.objOff + m.objSize ≤ v.size := by
  unfold findCode
  obtain ⟨s, hs⟩ := readSignature_some hv
  simp only [hs, Option.bind_eq_bind, Option.bind_some, Option.pure_def]
  cases s with
  | false => exact ⟨none, rfl, fun m e => by cases e⟩
  | true => exact findLoop_some hv sym _ _

end Ar

/-- `Linker::verify_import` never faults -/
theorem Import.verify_some (imp : Import) : ∃ b, imp.verify = some b := by
  unfold Import.verify
  split
  · exact Ar.verify_some (View.ofBytes_valid _)
  · exact Elf.verify_some (View.ofBytes_valid _)

/-- the search of one import never faults; the object it reports is a valid view -/
theorem Import.find_some (imp : Import) (sym : Name) :
    ∃ r, imp.find sym = some r ∧ ∀ f, r = some f → f.obj.Valid := by
  have hv := View.ofBytes_valid imp.data
  unfold Import.find
  simp only
  split
  · obtain ⟨r, hr, hin⟩ := Ar.findCode_some hv sym
    simp only [hr, Option.bind_eq_bind, Option.bind_some, Option.pure_def]
    cases r with
    | none => exact ⟨none, rfl, fun f e => by cases e⟩
    | some m =>
      have ⟨h1, h2⟩ := hin m rfl
      obtain ⟨l, hl, _⟩ := View.slice_some hv m.code.functionSize m.code.fileOffset h1
      simp only [hl, Option.bind_some]
      refine ⟨_, rfl, ?_⟩
      intro f e; cases e
      exact View.sub_valid hv h2
  · obtain ⟨r, hr, hin⟩ := Elf.findCode_some hv sym
    simp only [hr, Option.bind_eq_bind, Option.bind_some, Option.pure_def]
    cases r with
    | none => exact ⟨none, rfl, fun f e => by cases e⟩
    | some c =>
      obtain ⟨l, hl, _⟩ := View.slice_some hv c.functionSize c.fileOffset (hin c rfl)
      simp only [hl, Option.bind_some]
      refine ⟨_, rfl, ?_⟩
      intro f e; cases e
      exact hv

theorem findAll_some : ∀ (imports : List Import) (sym : Name),
    ∃ r, findAll imports sym = some r ∧ ∀ f, r = some f → f.obj.Valid
  | [], sym => ⟨none, rfl, fun f e => by cases e⟩
  | imp :: rest, sym => by
    obtain ⟨r, hr, hv⟩ := imp.find_some sym
    rw [findAll]
    simp only [hr, Option.bind_eq_bind, Option.bind_some, Option.pure_def]
    cases r with
    | none => exact findAll_some rest sym
    | some f => exact ⟨_, rfl, fun g e => by cases e; exact hv f rfl⟩

/-- main()'s loop over the file arguments never faults -/
theorem addFiles_ne_fault : ∀ (files : List (Name × Bytes)) (acc : List Import), (match addFiles files acc with | .fault => False | _ => True)
  | [], acc => by simp [addFiles]
  | (fileName, data) :: rest, acc => by
    rw [addFiles]
    cases importKind fileName with
    | none => simp
    | some isAr =>
      simp only
      obtain ⟨b, hb⟩ := (Import.mk isAr data).verify_some
      rw [hb]
      cases b with
      | false => simp
      | true => exact addFiles_ne_fault rest _

/-- an environment whose readers do not fault (on the objects the search itself reports) -/
structure NoFault (env : Env) : Prop where
  find : ∀ n, env.find n ≠ .fault
  nameAt : ∀ n f, env.find n = .found f → ∀ o l, env.nameAt f.obj o l ≠ .fault

/-- the readers of concrete files never fault, whatever the bytes -/
theorem envOf_noFault (imports : List Import) : NoFault (envOf imports) where
  find := by
    intro n
    obtain ⟨r, hr, _⟩ := findAll_some imports n
    simp only [envOf, hr]
    cases r <;> simp [Look.ofOpt]
  nameAt := by
    intro n f hf o l
    obtain ⟨r, hr, hv⟩ := findAll_some imports n
    have hfv : f.obj.Valid := by
      simp only [envOf, hr] at hf
      cases r with
      | none => simp [Look.ofOpt] at hf
      | some f' => simp [Look.ofOpt] at hf; subst hf; exact hv f' rfl
    obtain ⟨q, hq⟩ := Elf.nameAt_some hfv o l
    simp only [envOf, hq]
    cases q <;> simp [Look.ofOpt]

end NakenVerif.Link
