import NakenVerif.Link.ProofsTermination
/-
The names the readers can return for concrete files are C strings lying in those files: a finite universe,
so the closure computation of `linkAll (envOf imports)` terminates with fuel linear in the input size.
-/
namespace NakenVerif.Link

theorem View.u8_lift {v : View} {i c : Nat} (h : v.u8 i = some c) :
    v.base + i < v.a.size ∧ (View.ofBytes v.a).u8 (v.base + i) = some c := by
  unfold View.u8 at h
  split at h
  · cases hx : v.a[v.base + i]? with
    | none => simp [hx] at h
    | some x =>
      have hlt : v.base + i < v.a.size := by
        rcases Nat.lt_or_ge (v.base + i) v.a.size with h' | h'
        · exact h'
        · rw [Array.getElem?_eq_none h'] at hx; cases hx
      refine ⟨hlt, ?_⟩
      simp only [View.u8, View.ofBytes, hlt, ↓reduceIte, Nat.zero_add, hx]
      simpa [hx] using h
  · cases h

/-- a C string read inside a view is the C string at the same place of the whole file -/
theorem View.cstr_lift (v : View) : ∀ (fuel off : Nat) (g : Name), v.cstr fuel off = some g →
    v.base + off + g.length < v.a.size ∧
    ∀ extra, (View.ofBytes v.a).cstr (g.length + 1 + extra) (v.base + off) = some g
  | 0, off, g, h => by simp [View.cstr] at h
  | fuel + 1, off, g, h => by
    rw [View.cstr] at h
    cases hc : v.u8 off with
    | none => simp [hc] at h
    | some c =>
      have ⟨hlt, hu⟩ := View.u8_lift hc
      simp only [hc, Option.bind_eq_bind, Option.bind_some] at h
      split at h
      · rename_i hz
        simp at h; subst h
        refine ⟨by simpa using hlt, ?_⟩
        intro extra
        have hc0 : c = 0 := by simpa using hz
        rw [show ([] : Name).length + 1 + extra = extra + 1 by simp; omega, View.cstr]
        simp [hu, hc0]
      · rename_i hz
        cases hr : v.cstr fuel (off + 1) with
        | none => simp [hr] at h
        | some rest =>
          simp [hr] at h; subst h
          have ⟨ih1, ih2⟩ := View.cstr_lift v fuel (off + 1) rest hr
          refine ⟨by simp only [List.length_cons]; omega, ?_⟩
          intro extra
          rw [show (UInt8.ofNat c :: rest).length + 1 + extra = (rest.length + 1 + extra) + 1 by
            simp only [List.length_cons]; omega, View.cstr]
          have := ih2 extra
          rw [show v.base + (off + 1) = v.base + off + 1 by omega] at this
          have hc0 : ¬ c = 0 := by simpa using hz
          simp [hu, hc0, this]

/-- every C string that starts somewhere in the file -/
def allCStr (a : Bytes) : List Name :=
  (List.range a.size).filterMap (fun i => (View.ofBytes a).cstr a.size i)

theorem allCStr_length (a : Bytes) : (allCStr a).length ≤ a.size := by
  unfold allCStr
  exact Nat.le_trans (List.length_filterMap_le _ _) (by simp)

theorem mem_allCStr_of_cstr {v : View} {fuel off : Nat} {g : Name} (h : v.cstr fuel off = some g) :
    g ∈ allCStr v.a := by
  have ⟨hlt, hall⟩ := View.cstr_lift v fuel off g h
  unfold allCStr
  rw [List.mem_filterMap]
  refine ⟨v.base + off, List.mem_range.mpr (by omega), ?_⟩
  have := hall (v.a.size - (g.length + 1))
  rwa [show g.length + 1 + (v.a.size - (g.length + 1)) = v.a.size by omega] at this

theorem lookupByLocalOffset_cstr (v : View) (symtab strtab : Elf.Tab) (offset : Nat) :
    ∀ (k ptr : Nat) (g : Name), Elf.lookupByLocalOffset v symtab strtab offset k ptr = some (some g) →
      ∃ o, v.cstr v.size o = some g
  | 0, ptr, g, h => by simp [Elf.lookupByLocalOffset] at h
  | k + 1, ptr, g, h => by
    rw [Elf.lookupByLocalOffset] at h
    split at h
    · simp only [Option.bind_eq_bind, Option.bind_eq_some_iff] at h
      obtain ⟨_, _, _, _, _, _, h⟩ := h
      split at h
      · simp only [Option.bind_eq_some_iff] at h
        obtain ⟨nm, hnm, h⟩ := h
        simp at h; subst h
        exact ⟨_, hnm⟩
      · exact lookupByLocalOffset_cstr v symtab strtab offset k _ g h
    · simp at h

theorem lookupByOffset_cstr (v : View) (symtab strtab reltab : Elf.Tab) (fo lo : Nat) :
    ∀ (k ptr : Nat) (g : Name), Elf.lookupByOffset v symtab strtab reltab fo lo k ptr = some (some g) →
      ∃ o, v.cstr v.size o = some g
  | 0, ptr, g, h => by simp [Elf.lookupByOffset] at h
  | k + 1, ptr, g, h => by
    rw [Elf.lookupByOffset] at h
    split at h
    · simp only [Option.bind_eq_bind, Option.bind_eq_some_iff] at h
      obtain ⟨_, _, _, _, h⟩ := h
      split at h
      · split at h
        · simp only [Option.bind_eq_some_iff] at h
          obtain ⟨_, _, h⟩ := h
          split at h
          · simp only [Option.bind_eq_some_iff] at h
            obtain ⟨_, _, h⟩ := h
            split at h
            · simp only [Option.bind_eq_some_iff] at h
              obtain ⟨nm, hnm, h⟩ := h
              simp at h; subst h
              exact ⟨_, hnm⟩
            · exact lookupByLocalOffset_cstr v symtab strtab lo _ _ g h
          · exact lookupByOffset_cstr v symtab strtab reltab fo lo k _ g h
        · exact lookupByOffset_cstr v symtab strtab reltab fo lo k _ g h
      · exact lookupByOffset_cstr v symtab strtab reltab fo lo k _ g h
    · simp at h

/-- a name returned by `imports_obj_find_name_from_offset` is a C string of the object's file -/
theorem nameAt_mem (v : View) (fo lo : Nat) (g : Name) (h : Elf.nameAt v fo lo = some (some g)) :
    g ∈ allCStr v.a := by
  unfold Elf.nameAt at h
  simp only [Option.bind_eq_bind, Option.bind_eq_some_iff] at h
  obtain ⟨ok, _, h⟩ := h
  split at h
  · simp at h
  · simp only [Option.bind_eq_some_iff] at h
    obtain ⟨_, _, _, _, secs, _, h⟩ := h
    split at h
    · simp at h
    · split at h
      · obtain ⟨o, ho⟩ := lookupByOffset_cstr _ _ _ _ _ _ _ _ g h
        exact mem_allCStr_of_cstr ho
      · simp at h

theorem Import.find_obj {imp : Import} {sym : Name} {f : Found} (h : imp.find sym = some (some f)) :
    f.obj.a = imp.data := by
  unfold Import.find at h
  simp only at h
  split at h
  · simp only [Option.bind_eq_bind, Option.bind_eq_some_iff] at h
    obtain ⟨r, _, h⟩ := h
    split at h
    · simp at h
    · simp only [Option.bind_eq_some_iff] at h
      obtain ⟨_, _, h⟩ := h
      simp at h; subst h; rfl
  · simp only [Option.bind_eq_bind, Option.bind_eq_some_iff] at h
    obtain ⟨r, _, h⟩ := h
    split at h
    · simp at h
    · simp only [Option.bind_eq_some_iff] at h
      obtain ⟨_, _, h⟩ := h
      simp at h; subst h; rfl

theorem findAll_obj : ∀ (imports : List Import) (sym : Name) (f : Found),
    findAll imports sym = some (some f) → ∃ imp ∈ imports, f.obj.a = imp.data
  | [], sym, f, h => by simp [findAll] at h
  | imp :: rest, sym, f, h => by
    rw [findAll] at h
    simp only [Option.bind_eq_bind, Option.bind_eq_some_iff] at h
    obtain ⟨r, hr, h⟩ := h
    split at h
    · simp at h; subst h
      exact ⟨imp, List.mem_cons_self, Import.find_obj hr⟩
    · obtain ⟨i, hi, hf⟩ := findAll_obj rest sym f h
      exact ⟨i, List.mem_cons_of_mem _ hi, hf⟩

/-- the universe of names of a set of imports and a source -/
def nameUniverse (imports : List Import) (idents : List Name) : List Name :=
  idents ++ imports.flatMap (fun imp => allCStr imp.data)

theorem nameUniverse_length (imports : List Import) (idents : List Name) :
    (nameUniverse imports idents).length ≤ idents.length + (imports.map (·.data.size)).sum := by
  unfold nameUniverse
  rw [List.length_append]
  have : ∀ l : List Import, (l.flatMap (fun imp => allCStr imp.data)).length ≤ (l.map (·.data.size)).sum := by
    intro l
    induction l with
    | nil => simp
    | cons x xs ih =>
      simp only [List.flatMap_cons, List.length_append, List.map_cons, List.sum_cons]
      have := allCStr_length x.data
      omega
  have := this imports
  omega

/-- fuel that always suffices: the total size of the imported files plus the number of tokens plus one -/
def fuelBound (imports : List Import) (idents : List Name) : Nat :=
  idents.length + (imports.map (·.data.size)).sum + 1

theorem linkAll_envOf_ne_fuel (imports : List Import) (cfg : Cfg) (p : Prog) (fuel : Nat)
    (hf : fuelBound imports p.idents ≤ fuel) : linkAll (envOf imports) cfg p fuel ≠ .fuel := by
  apply linkAll_ne_fuel (nameUniverse imports p.idents)
  · intro n f hfind o l g hname
    have hfa : findAll imports n = some (some f) := by
      simp only [envOf] at hfind
      cases hx : findAll imports n with
      | none => simp [hx, Look.ofOpt] at hfind
      | some y => cases y with
        | none => simp [hx, Look.ofOpt] at hfind
        | some f' => simp [hx, Look.ofOpt] at hfind; subst hfind; rfl
    obtain ⟨imp, himp, ha⟩ := findAll_obj imports n f hfa
    have hna : Elf.nameAt f.obj o l = some (some g) := by
      simp only [envOf] at hname
      cases hx : Elf.nameAt f.obj o l with
      | none => simp [hx, Look.ofOpt] at hname
      | some y => cases y with
        | none => simp [hx, Look.ofOpt] at hname
        | some g' => simp [hx, Look.ofOpt] at hname; subst hname; rfl
    have := nameAt_mem f.obj o l g hna
    unfold nameUniverse
    apply List.mem_append_right
    rw [List.mem_flatMap]
    exact ⟨imp, himp, ha ▸ this⟩
  · intro t ht
    exact List.mem_append_left _ ht
  · have := nameUniverse_length imports p.idents
    unfold fuelBound at hf
    omega

end NakenVerif.Link
