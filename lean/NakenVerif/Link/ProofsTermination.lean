import NakenVerif.Link.ProofsScan
/-
Termination of the transitive closure: `link1` (the only loop of the protocol that is not structural) never
runs out of fuel when the fuel exceeds the number of names that can ever enter the needed-symbol list.
-/
namespace NakenVerif.Link

/-- pigeonhole: a duplicate-free list inside `u` is not longer than `u` -/
theorem nodup_length_le {α : Type} [DecidableEq α] : ∀ (l u : List α), l.Nodup → (∀ x ∈ l, x ∈ u) →
    l.length ≤ u.length
  | [], u, _, _ => Nat.zero_le _
  | x :: xs, u, hn, hs => by
    rw [List.nodup_cons] at hn
    have hx : x ∈ u := hs x List.mem_cons_self
    have ih := nodup_length_le xs (u.erase x) hn.2 (by
      intro y hy
      have hne : y ≠ x := fun h => hn.1 (h ▸ hy)
      exact (List.mem_erase_of_ne hne).mpr (hs y (List.mem_cons_of_mem _ hy)))
    rw [List.length_erase_of_mem hx] at ih
    have : 0 < u.length := List.length_pos_of_mem hx
    simp only [List.length_cons]; omega

theorem search_ne_fuel (env : Env) (list : List Name) (g : Name) : search env list g ≠ .fuel := by
  unfold search; split
  · simp
  · split <;> simp

theorem scan1_ne_fuel (env : Env) (cfg : Cfg) (f : Found) : ∀ (k n : Nat) (list : List Name),
    scan1 env cfg f k n list ≠ .fuel
  | 0, n, list => by simp [scan1]
  | k + 1, n, list => by
    unfold scan1
    simp only
    split
    · split
      · simp
      · simp
      · rename_i g _
        split
        · exact scan1_ne_fuel env cfg f k (n + 4) _
        · simp
        · simp
        · simp
        · rename_i h; exact absurd h (search_ne_fuel env list g)
    · exact scan1_ne_fuel env cfg f k (n + 4) _

theorem discover_ne_fuel (env : Env) : ∀ (ts list : List Name), discover env ts list ≠ .fuel
  | [], list => by simp [discover]
  | t :: ts, list => by
    unfold discover
    split
    · exact discover_ne_fuel env ts _
    · simp
    · simp
    · rename_i h; exact absurd h (search_ne_fuel env list t)

theorem scan2_ne_fuel (env : Env) (cfg : Cfg) (syms : Syms) (f : Found) : ∀ (k n : Nat),
    scan2 env cfg syms f k n ≠ .fuel
  | 0, n => by simp [scan2]
  | k + 1, n => by
    have ih := scan2_ne_fuel env cfg syms f k (n + 4)
    unfold scan2
    simp only
    split
    · split
      · simp
      · simp
      · split
        · simp
        · split <;> simp_all
    · split <;> simp_all

theorem link2_ne_fuel (env : Env) (cfg : Cfg) (syms : Syms) : ∀ (names : List Name) (a : Addr),
    link2 env cfg syms names a ≠ .fuel
  | [], a => by simp [link2]
  | n :: ns, a => by
    unfold link2
    split
    · simp
    · simp only
      split
      · simp
      · split
        · simp
        · split
          · exact link2_ne_fuel env cfg syms ns a
          · simp
        · split
          · simp
          · rename_i f _ _
            split
            · rename_i bytes _
              have ih := link2_ne_fuel env cfg syms ns (a + BitVec.ofNat 32 bytes.length)
              split <;> simp_all
            · simp
            · simp
            · rename_i h; exact absurd h (scan2_ne_fuel env cfg syms f _ _)

/-- a call relocation of `callsFrom` is a name the reader returned for the function's object -/
theorem callsFrom_nameAt (env : Env) (big : Bool) (f : Found) : ∀ (k n off : Nat) (g : Name),
    (off, g) ∈ callsFrom env big f k n → ∃ o l, env.nameAt f.obj o l = .found g
  | 0, n, off, g, h => by rw [callsFrom] at h; cases h
  | k + 1, n, off, g, h => by
    rw [callsFrom] at h
    split at h
    · split at h
      · rename_i g' hg'
        rcases List.mem_cons.mp h with h | h
        · cases h; exact ⟨_, _, hg'⟩
        · exact callsFrom_nameAt env big f k (n + 4) off g h
      · exact callsFrom_nameAt env big f k (n + 4) off g h
    · exact callsFrom_nameAt env big f k (n + 4) off g h

/-- `link1` does not run out of fuel when every name the readers can return lies in a finite universe `U`
and `fuel + index > |U|` -/
theorem link1_ne_fuel {env : Env} {cfg : Cfg} (U : List Name)
    (hN : ∀ n f, env.find n = .found f → ∀ o l g, env.nameAt f.obj o l = .found g → g ∈ U) :
    ∀ (fuel index : Nat) (st : St1), st.list.Nodup → (∀ n ∈ st.list, n ∈ U) → index ≤ st.list.length →
      U.length + 1 ≤ fuel + index → link1 env cfg fuel index st ≠ .fuel
  | 0, index, st, hn, hu, hle, hf => by
    have := nodup_length_le st.list U hn hu
    omega
  | fuel + 1, index, st, hn, hu, hle, hf => by
    unfold link1
    split
    · simp
    · rename_i sym hsym
      have hlt : index < st.list.length := by
        rcases Nat.lt_or_ge index st.list.length with h | h
        · exact h
        · rw [List.getElem?_eq_none h] at hsym; cases hsym
      split
      · simp
      · simp only
        split
        · simp
        · rename_i syms' _
          split
          · simp
          · split
            · exact link1_ne_fuel U hN fuel (index + 1) _ hn hu hlt (by omega)
            · simp
          · rename_i f hfound
            split
            · simp
            · split
              · rename_i list' hscan
                have ⟨ext, _⟩ := scan1_ok _ _ _ _ hscan
                obtain ⟨added, hl', hadd, hnd⟩ := ext
                refine link1_ne_fuel U hN fuel (index + 1) _ (hnd hn) ?_ ?_ (by omega)
                · intro n hn'
                  simp only at hn'
                  rw [hl'] at hn'
                  rcases List.mem_append.mp hn' with h | h
                  · exact hu n h
                  · obtain ⟨_, off, hoff⟩ := hadd n h
                    obtain ⟨o, l, hnm⟩ := callsFrom_nameAt env cfg.bigEndian f _ _ off n hoff
                    exact hN sym f hfound o l n hnm
                · simp only
                  rw [hl', List.length_append]; omega
              · simp
              · simp
              · rename_i h; exact absurd h (scan1_ne_fuel env cfg f _ _ _)

/-- the whole protocol does not run out of fuel under the same condition -/
theorem linkAll_ne_fuel {env : Env} {cfg : Cfg} {p : Prog} (U : List Name)
    (hN : ∀ n f, env.find n = .found f → ∀ o l g, env.nameAt f.obj o l = .found g → g ∈ U)
    (hI : ∀ t ∈ p.idents, t ∈ U) (fuel : Nat) (hf : U.length + 1 ≤ fuel) :
    linkAll env cfg p fuel ≠ .fuel := by
  unfold linkAll
  split
  · simp
  · simp
  · rename_i h; exact absurd h (discover_ne_fuel env _ _)
  · rename_i l0 hd
    have ⟨ext0, _⟩ := discover_ok _ _ _ hd
    obtain ⟨added, hl0, hadd, hnd⟩ := ext0
    simp only [List.nil_append] at hl0
    split
    · simp
    · simp
    · rename_i h
      refine absurd h (link1_ne_fuel U hN fuel 0 _ (hnd List.nodup_nil) ?_ (Nat.zero_le _) (by omega))
      intro n hn
      exact hI n (hadd n (hl0 ▸ hn)).2
    · split
      · simp
      · split
        · simp
        · simp
        · rename_i h; exact absurd h (link2_ne_fuel env cfg _ _ _)
        · simp

end NakenVerif.Link
