import NakenVerif.Link.LinkImpl
import NakenVerif.Link.Spec
/-
Abstraction from what the implementation's readers return (`Env`) to the object view of the specification:
a function is what `get_code_from_symbol` finds under its name; its call relocations are the relocations
the reader resolves to a name at the offsets of its `jal` words.
-/
namespace NakenVerif.Link

/-- the call relocations of a found function, words `n, n+4, ...` (`k` of them) -/
def callsFrom (env : Env) (big : Bool) (f : Found) : Nat → Nat → List (Nat × Name)
  | 0, _ => []
  | k + 1, n =>
    let op := opcodeOf big (wordBytes f.code n)
    if isJal op then
      match env.nameAt f.obj (f.functionOffset + n) (op &&& 0x03000000).toNat with
      | .found g => (n, g) :: callsFrom env big f k (n + 4)
      | _ => callsFrom env big f k (n + 4)
    else callsFrom env big f k (n + 4)

def fnOf (env : Env) (big : Bool) (f : Found) : Spec.Fn :=
  { code := f.code, calls := callsFrom env big f (wordCount f.code.length) 0 }

def objsOf (env : Env) (big : Bool) : Spec.Objs := fun n =>
  match env.find n with
  | .found f => some (fnOf env big f)
  | _ => none

def Findable (env : Env) (n : Name) : Prop := ∃ f, env.find n = .found f

/-- `function_size` of a name (0 when nothing is found) -/
def sizeOf (env : Env) (n : Name) : Nat :=
  match env.find n with
  | .found f => f.code.length
  | _ => 0

theorem objsOf_isSome {env : Env} {big : Bool} {n : Name} : (objsOf env big n).isSome ↔ Findable env n := by
  unfold objsOf Findable
  cases h : env.find n <;> simp

theorem objsOf_found {env : Env} {big : Bool} {n : Name} {f : Found} (h : env.find n = .found f) :
    objsOf env big n = some (fnOf env big f) := by
  simp [objsOf, h]

end NakenVerif.Link
