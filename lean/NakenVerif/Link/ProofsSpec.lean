import Std.Tactic.BVDecide
import NakenVerif.Link.ProofsMain
/-
Consequences of the specification function `Spec.relocated` (what "bytes preserved" and "bound to the final
address" mean byte by byte), and the error theorems.
-/
namespace NakenVerif.Link

/-- R_MIPS_26 keeps the six opcode bits -/
theorem setTarget_opcode (w a : BitVec 32) : (Spec.setTarget w a).extractLsb' 26 6 = w.extractLsb' 26 6 := by
  simp only [Spec.setTarget]; bv_decide

/-- R_MIPS_26 stores bits 27..2 of the target -/
theorem setTarget_field (w a : BitVec 32) : (Spec.setTarget w a).extractLsb' 0 26 = a.extractLsb' 2 26 := by
  simp only [Spec.setTarget]; bv_decide

/-- a patched jump executed in the 256 MiB region of a word-aligned target reaches exactly that target -/
theorem setTarget_reaches (w a : BitVec 32) (h : a &&& 3 = 0) : Spec.targetOf (Spec.setTarget w a) a = a := by
  simp only [Spec.targetOf, Spec.setTarget]; bv_decide

theorem getWord_putWord (big : Bool) (w : BitVec 32) :
    ∃ c0 c1 c2 c3, Spec.putWord big w = [c0, c1, c2, c3] ∧ Spec.getWord big c0 c1 c2 c3 = w := by
  cases big
  · refine ⟨_, _, _, _, rfl, ?_⟩; simp only [Spec.getWord]; simp; bv_decide
  · refine ⟨_, _, _, _, rfl, ?_⟩; simp only [Spec.getWord]; simp; bv_decide

theorem putWord_getWord (big : Bool) (c0 c1 c2 c3 : UInt8) :
    Spec.putWord big (Spec.getWord big c0 c1 c2 c3) = [c0, c1, c2, c3] := by
  cases big <;> simp only [Spec.putWord, Spec.getWord] <;> simp <;>
    (refine ⟨?_, ?_, ?_, ?_⟩ <;> (apply UInt8.toBitVec_inj.mp; simp; bv_decide))

/-- the expected bytes of the word at byte offset `o` of a function -/
def Spec.wordAt (big : Bool) (addrOf : Name → Option Spec.Addr) (fn : Spec.Fn) (o : Nat) : List UInt8 :=
  let w := Spec.getWord big (fn.code.getD (o + 0) 0) (fn.code.getD (o + 1) 0) (fn.code.getD (o + 2) 0)
    (fn.code.getD (o + 3) 0)
  match fn.calls.find? (fun e => e.1 == o) with
  | some (_, g) => (match addrOf g with | some a => Spec.putWord big (Spec.setTarget w a) | none => [])
  | none => Spec.putWord big w

theorem putWord_length (big : Bool) (w : BitVec 32) : (Spec.putWord big w).length = 4 := by
  cases big <;> simp [Spec.putWord]

/-- word `j` (counted from `off`) of the specified bytes -/
theorem relocated_word (big : Bool) (addrOf : Name → Option Spec.Addr) (fn : Spec.Fn) :
    ∀ (k off : Nat) (bytes : List UInt8), Spec.relocated big addrOf fn k off = some bytes →
    ∀ j, j < k → (bytes.drop (4 * j)).take 4 = Spec.wordAt big addrOf fn (off + 4 * j)
  | 0, off, bytes, _, j, hj => absurd hj (Nat.not_lt_zero _)
  | k + 1, off, bytes, h, j, hj => by
    rw [Spec.relocated] at h
    simp only at h
    split at h
    · rename_i w' rest hw hr
      cases h
      have hp := putWord_length big w'
      cases j with
      | zero =>
        simp only [Nat.mul_zero, Nat.add_zero, List.drop_zero]
        rw [List.take_append_of_le_length (by omega), List.take_of_length_le (by omega)]
        unfold Spec.wordAt
        simp only
        split at hw
        · rename_i g hfind
          simp only [hfind]
          cases ha : addrOf g with
          | none => simp [ha] at hw
          | some a => simp [ha] at hw; subst hw; rfl
        · rename_i hfind
          simp only [hfind]
          cases hw; rfl
      | succ j =>
        have hj' : j < k := Nat.lt_of_succ_lt_succ hj
        have ih := relocated_word big addrOf fn k (off + 4) rest hr j hj'
        have e2 : off + 4 * (j + 1) = off + 4 + 4 * j := by omega
        have e3 : List.drop (4 * (j + 1)) (Spec.putWord big w' ++ rest) = List.drop (4 * j) rest := by
          rw [List.drop_append, List.drop_of_length_le (by omega)]
          simp only [List.nil_append]
          congr 1; omega
        rw [e2, e3]
        exact ih
    · cases h

end NakenVerif.Link
