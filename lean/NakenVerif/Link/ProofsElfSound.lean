import NakenVerif.Link.ProofsBounds3
/-
What a hit of `imports_obj_find_code_from_symbol` means in terms of the file's ELF structures (gABI reading):
the reported function is an entry of a SHT_SYMTAB section whose name (in the SHT_STRTAB section called
`.strtab`) is the requested one, whose size is not 0 and whose `st_shndx` is the index of a section called
`.text`; the reported file offset is that section's `sh_offset + st_value` and the function lies inside it.
(Soundness only: which of several matching entries / sections is taken is the implementation's choice.)
-/
namespace NakenVerif.Link.Elf
open NakenVerif.Link

/-- section `j` of the header table has these fields -/
def SecIs (v : View) (h : Hdr) (no : Nat) (j : Nat) (ty off sz : Nat) (name : Option Name) : Prop :=
  j < h.shnum ∧ v.u32le (h.shoff + j * h.shentsize + 4) = some ty ∧
  v.u32le (h.shoff + j * h.shentsize + 16) = some off ∧ v.u32le (h.shoff + j * h.shentsize + 20) = some sz ∧
  ∀ nm, name = some nm → ∃ shName, v.u32le (h.shoff + j * h.shentsize) = some shName ∧ v.cstrEq (no + shName) nm = some true

/-- provenance of what a section loop collected -/
structure Prov (v : View) (h : Hdr) (no : Nat) (s : Secs) : Prop where
  symtab : ∀ t, s.symtab = some t → ∃ j, SecIs v h no j SHT_SYMTAB t.off t.size none
  strtab : ∀ t, s.strtab = some t → ∃ j, SecIs v h no j SHT_STRTAB t.off t.size (some dotStrtab)
  text : ∀ idx, s.textIndex = some idx → ∃ ty, ty ≠ SHT_NOBITS ∧ SecIs v h no idx ty s.textOff s.textSize (some dotText)

theorem Prov.init (v : View) (h : Hdr) (no : Nat) : Prov v h no {} where
  symtab := fun t e => by cases e
  strtab := fun t e => by cases e
  text := fun i e => by cases e

theorem guardedEq_true' {v : View} {c : Bool} {off : Nat} {lit : Name} (h : guardedEq v c off lit = some true) :
    c = true ∧ v.cstrEq off lit = some true := by
  unfold guardedEq at h
  cases c <;> simp_all

theorem codeSections_prov {v : View} {h : Hdr} {no : Nat} : ∀ (k i : Nat) (s s' : Secs), i + k = h.shnum →
    codeSections v h no k i s = some (some s') → Prov v h no s → Prov v h no s'
  | 0, i, s, s', _, hc, hp => by simp [codeSections] at hc; subst hc; exact hp
  | k + 1, i, s, s', hik, hc, hp => by
    rw [codeSections] at hc
    simp only [Option.bind_eq_bind, Option.bind_eq_some_iff, Option.pure_def] at hc
    obtain ⟨nm, hnm, ty, hty, sz, hsz, off, hoff, hc⟩ := hc
    have hi : i < h.shnum := by omega
    split at hc
    · rename_i hsym
      refine codeSections_prov k (i + 1) _ s' (by omega) hc ⟨?_, hp.strtab, hp.text⟩
      intro t ht
      simp only [Option.some.injEq] at ht
      subst ht
      exact ⟨i, hi, hsym ▸ hty, hoff, hsz, fun _ e => by cases e⟩
    · simp only [Option.bind_eq_some_iff] at hc
      obtain ⟨b1, hb1, hc⟩ := hc
      cases b1 with
      | true =>
        simp only [↓reduceIte] at hc
        obtain ⟨hst, hcmp⟩ := guardedEq_true' hb1
        have hst : ty = SHT_STRTAB := by simpa using hst
        split at hc
        · simp at hc
        · simp only [Option.bind_eq_some_iff] at hc
          obtain ⟨l, _, hc⟩ := hc
          split at hc
          · simp at hc
          · refine codeSections_prov k (i + 1) _ s' (by omega) hc ⟨hp.symtab, ?_, hp.text⟩
            intro t ht
            simp only [Option.some.injEq] at ht
            subst ht
            exact ⟨i, hi, hst ▸ hty, hoff, hsz, fun n e => by cases e; exact ⟨nm, hnm, hcmp⟩⟩
      | false =>
        simp only [Bool.false_eq_true, ↓reduceIte, Option.bind_eq_some_iff] at hc
        obtain ⟨b2, hb2, hc⟩ := hc
        cases b2 with
        | true =>
          simp only [↓reduceIte] at hc
          obtain ⟨hne, hcmp⟩ := guardedEq_true' hb2
          have hne : ty ≠ SHT_NOBITS := by simpa using hne
          refine codeSections_prov k (i + 1) _ s' (by omega) hc ⟨hp.symtab, hp.strtab, ?_⟩
          intro idx hidx
          simp only [Option.some.injEq] at hidx
          subst hidx
          exact ⟨ty, hne, hi, hty, hoff, hsz, fun n e => by cases e; exact ⟨nm, hnm, hcmp⟩⟩
        | false =>
          simp only [Bool.false_eq_true, ↓reduceIte] at hc
          exact codeSections_prov k (i + 1) s s' (by omega) hc hp

/-- the symbol table entry at byte offset `q` of the table -/
structure EntryIs (v : View) (symtab strtab : Tab) (q : Nat) (sym : Name) (value size shndx : Nat) : Prop where
  aligned : q % 16 = 0
  inside : q + 16 ≤ symtab.size
  value : v.u32le (symtab.off + q + 4) = some value
  size : v.u32le (symtab.off + q + 8) = some size
  shndx : v.u16le (symtab.off + q + 14) = some shndx
  name : ∃ stName, v.u32le (symtab.off + q) = some stName ∧
    v.cstrEq (strtab.off + (if stName ≥ strtab.size then 0 else stName)) sym = some true

theorem lookupByName_sound {v : View} {symtab strtab : Tab} {sym : Name} {ti : Option Nat} :
    ∀ (k ptr : Nat) (value size : Nat), ptr % 16 = 0 →
      lookupByName v symtab strtab sym ti k ptr = some (some (value, size)) →
      ∃ q shndx, EntryIs v symtab strtab q sym value size shndx ∧ size ≠ 0 ∧ some shndx = ti
  | 0, ptr, value, size, _, h => by simp [lookupByName] at h
  | k + 1, ptr, value, size, hal, h => by
    rw [lookupByName] at h
    split at h
    · rename_i hin
      simp only [Option.bind_eq_bind, Option.bind_eq_some_iff, Option.pure_def] at h
      obtain ⟨nm0, hnm0, sz, hsz, shndx, hshndx, h⟩ := h
      split at h
      · rename_i hcond
        simp only [Option.bind_eq_some_iff] at h
        obtain ⟨eq, heq, h⟩ := h
        cases eq with
        | true =>
          simp only [↓reduceIte, Option.bind_eq_some_iff] at h
          obtain ⟨val, hval, h⟩ := h
          simp only [Option.some.injEq, Prod.mk.injEq] at h
          obtain ⟨rfl, rfl⟩ := h
          exact ⟨ptr, shndx, ⟨hal, hin, hval, hsz, hshndx, nm0, hnm0, heq⟩, hcond.1, hcond.2⟩
        | false =>
          simp only [Bool.false_eq_true, ↓reduceIte] at h
          exact lookupByName_sound k (ptr + 16) value size (by omega) h
      · exact lookupByName_sound k (ptr + 16) value size (by omega) h
    · simp at h

/-- a hit of `findCode`, read back in terms of the file's structures -/
theorem findCode_sound {v : View} {sym : Name} {c : Code} (hfc : findCode v sym = some (some c)) :
    ∃ (h : Hdr) (no ns : Nat) (symtab strtab : Tab) (textIdx textTy textOff textSize q : Nat),
      WF v h no ns ∧
      (∃ j, SecIs v h no j SHT_SYMTAB symtab.off symtab.size none) ∧
      (∃ j, SecIs v h no j SHT_STRTAB strtab.off strtab.size (some dotStrtab)) ∧
      textTy ≠ SHT_NOBITS ∧ SecIs v h no textIdx textTy textOff textSize (some dotText) ∧
      EntryIs v symtab strtab q sym c.functionOffset c.functionSize textIdx ∧
      c.functionSize ≠ 0 ∧ c.functionOffset + c.functionSize ≤ textSize ∧ c.fileOffset = textOff + c.functionOffset := by
  unfold findCode at hfc
  simp only [Option.bind_eq_bind, Option.bind_eq_some_iff, Option.pure_def] at hfc
  obtain ⟨ok, hok, hfc⟩ := hfc
  cases ok with
  | false => simp at hfc
  | true =>
    obtain ⟨h, no, ns, wf⟩ := verify_true hok
    simp only [Bool.not_true, Bool.false_eq_true, ↓reduceIte, wf.hdr, Option.bind_eq_some_iff, Option.some.injEq] at hfc
    obtain ⟨h', rfl, no', hno', secs, hsecs, hfc⟩ := hfc
    have : no' = no := by rw [wf.namesOff] at hno'; cases hno'; rfl
    subst this
    cases secs with
    | none => simp at hfc
    | some s =>
      have prov := codeSections_prov _ _ _ _ (by omega) hsecs (Prov.init v h no')
      simp only at hfc
      cases hsym : s.symtab with
      | none => simp [hsym] at hfc
      | some symtab =>
        cases hstr : s.strtab with
        | none => simp [hsym, hstr] at hfc
        | some strtab =>
          simp only [hsym, hstr, Option.bind_eq_some_iff] at hfc
          obtain ⟨r, hr, hfc⟩ := hfc
          cases r with
          | none => simp at hfc
          | some pr =>
            obtain ⟨offset, size⟩ := pr
            simp only at hfc
            split at hfc
            · simp at hfc
            · rename_i hin
              simp only [Option.some.injEq] at hfc
              subst hfc
              obtain ⟨q, shndx, hent, hnz, hti⟩ := lookupByName_sound _ 0 offset size (by omega) hr
              obtain ⟨ty, hty, hsec⟩ := prov.text shndx hti.symm
              exact ⟨h, no', ns, symtab, strtab, shndx, ty, s.textOff, s.textSize, q, wf,
                prov.symtab _ hsym, prov.strtab _ hstr, hty, hsec, hent, hnz, by simp only; omega, rfl⟩

end NakenVerif.Link.Elf

namespace NakenVerif.Link.Elf
open NakenVerif.Link

/-- provenance of the tables of the relocation lookup -/
structure ProvN (v : View) (h : Hdr) (no : Nat) (s : Secs) : Prop where
  symtab : ∀ t, s.symtab = some t → ∃ j, SecIs v h no j SHT_SYMTAB t.off t.size none
  strtab : ∀ t, s.strtab = some t → ∃ j, SecIs v h no j SHT_STRTAB t.off t.size (some dotStrtab)
  reltab : s.reltab.size = 0 ∨ ∃ j, SecIs v h no j SHT_REL s.reltab.off s.reltab.size (some dotRelText)

theorem ProvN.init (v : View) (h : Hdr) (no : Nat) : ProvN v h no {} where
  symtab := fun t e => by cases e
  strtab := fun t e => by cases e
  reltab := Or.inl rfl

theorem nameSections_prov {v : View} {h : Hdr} {no : Nat} : ∀ (k i : Nat) (s s' : Secs), i + k = h.shnum →
    nameSections v h no k i s = some (some s') → ProvN v h no s → ProvN v h no s'
  | 0, i, s, s', _, hc, hp => by simp [nameSections] at hc; subst hc; exact hp
  | k + 1, i, s, s', hik, hc, hp => by
    rw [nameSections] at hc
    simp only [Option.bind_eq_bind, Option.bind_eq_some_iff, Option.pure_def] at hc
    obtain ⟨nm, hnm, ty, hty, sz, hsz, off, hoff, hc⟩ := hc
    have hi : i < h.shnum := by omega
    split at hc
    · rename_i hsym
      refine nameSections_prov k (i + 1) _ s' (by omega) hc ⟨?_, hp.strtab, hp.reltab⟩
      intro t ht
      simp only [Option.some.injEq] at ht
      subst ht
      exact ⟨i, hi, hsym ▸ hty, hoff, hsz, fun _ e => by cases e⟩
    · simp only [Option.bind_eq_some_iff] at hc
      obtain ⟨b1, hb1, hc⟩ := hc
      cases b1 with
      | true =>
        simp only [↓reduceIte] at hc
        obtain ⟨hst, hcmp⟩ := guardedEq_true' hb1
        have hst : ty = SHT_STRTAB := by simpa using hst
        split at hc
        · simp at hc
        · simp only [Option.bind_eq_some_iff] at hc
          obtain ⟨l, _, hc⟩ := hc
          split at hc
          · simp at hc
          · refine nameSections_prov k (i + 1) _ s' (by omega) hc ⟨hp.symtab, ?_, hp.reltab⟩
            intro t ht
            simp only [Option.some.injEq] at ht
            subst ht
            exact ⟨i, hi, hst ▸ hty, hoff, hsz, fun n e => by cases e; exact ⟨nm, hnm, hcmp⟩⟩
      | false =>
        simp only [Bool.false_eq_true, ↓reduceIte, Option.bind_eq_some_iff] at hc
        obtain ⟨b2, hb2, hc⟩ := hc
        cases b2 with
        | true =>
          simp only [↓reduceIte] at hc
          obtain ⟨hrel, hcmp⟩ := guardedEq_true' hb2
          have hrel : ty = SHT_REL := by simpa using hrel
          refine nameSections_prov k (i + 1) _ s' (by omega) hc ⟨hp.symtab, hp.strtab, ?_⟩
          exact Or.inr ⟨i, hi, hrel ▸ hty, hoff, hsz, fun n e => by cases e; exact ⟨nm, hnm, hcmp⟩⟩
        | false =>
          simp only [Bool.false_eq_true, ↓reduceIte] at hc
          exact nameSections_prov k (i + 1) s s' (by omega) hc hp

/-- the relocation entry at byte offset `q` of `.rel.text` that produced a name -/
structure RelIs (v : View) (symtab strtab reltab : Tab) (q fo lo : Nat) (g : Name) : Prop where
  aligned : q % 8 = 0
  inside : q + 8 ≤ reltab.size
  offset : v.u32le (reltab.off + q) = some fo
  symbol : ∃ rInfo stName, v.u32le (reltab.off + q + 4) = some rInfo ∧ rInfo / 256 * 16 + 16 ≤ symtab.size ∧
    v.u32le (symtab.off + rInfo / 256 * 16) = some stName ∧ stName < strtab.size ∧
    ((∃ c, c ≠ 0 ∧ v.u8 (strtab.off + stName) = some c ∧ v.cstr v.size (strtab.off + stName) = some g) ∨
     (v.u8 (strtab.off + stName) = some 0 ∧
       lookupByLocalOffset v symtab strtab lo (symtab.size / 16 + 1) 0 = some (some g)))

theorem lookupByOffset_sound {v : View} {symtab strtab reltab : Tab} {fo lo : Nat} {g : Name} :
    ∀ (k ptr : Nat), ptr % 8 = 0 → lookupByOffset v symtab strtab reltab fo lo k ptr = some (some g) →
      ∃ q, RelIs v symtab strtab reltab q fo lo g
  | 0, ptr, _, h => by simp [lookupByOffset] at h
  | k + 1, ptr, hal, h => by
    rw [lookupByOffset] at h
    split at h
    · rename_i hin
      simp only [Option.bind_eq_bind, Option.bind_eq_some_iff, Option.pure_def] at h
      obtain ⟨ro, hro, ri, hri, h⟩ := h
      split at h
      · rename_i heq
        split at h
        · rename_i hsym
          simp only [Option.bind_eq_some_iff] at h
          obtain ⟨stName, hst, h⟩ := h
          split at h
          · rename_i hlt
            simp only [Option.bind_eq_some_iff] at h
            obtain ⟨c, hc, h⟩ := h
            split at h
            · rename_i hne
              simp only [Option.bind_eq_some_iff] at h
              obtain ⟨nm, hnm, h⟩ := h
              simp only [Option.some.injEq] at h
              subst h
              exact ⟨ptr, hal, hin, heq ▸ hro, ri, stName, hri, hsym, hst, hlt, Or.inl ⟨c, hne, hc, hnm⟩⟩
            · rename_i hz
              have : c = 0 := by omega
              subst this
              exact ⟨ptr, hal, hin, heq ▸ hro, ri, stName, hri, hsym, hst, hlt, Or.inr ⟨hc, h⟩⟩
          · exact lookupByOffset_sound k (ptr + 8) (by omega) h
        · exact lookupByOffset_sound k (ptr + 8) (by omega) h
      · exact lookupByOffset_sound k (ptr + 8) (by omega) h
    · simp at h

/-- a name returned by `nameAt`, read back in terms of the file's structures: it is the name of the symbol of a
relocation entry of the SHT_REL section called `.rel.text` whose `r_offset` is the requested offset (or, for an
unnamed symbol, what the "local offset" lookup returns) -/
theorem nameAt_sound {v : View} {fo lo : Nat} {g : Name} (hn : nameAt v fo lo = some (some g)) :
    ∃ (h : Hdr) (no ns : Nat) (symtab strtab reltab : Tab) (q : Nat),
      WF v h no ns ∧
      (∃ j, SecIs v h no j SHT_SYMTAB symtab.off symtab.size none) ∧
      (∃ j, SecIs v h no j SHT_STRTAB strtab.off strtab.size (some dotStrtab)) ∧
      (∃ j, SecIs v h no j SHT_REL reltab.off reltab.size (some dotRelText)) ∧
      RelIs v symtab strtab reltab q fo lo g := by
  unfold nameAt at hn
  simp only [Option.bind_eq_bind, Option.bind_eq_some_iff, Option.pure_def] at hn
  obtain ⟨ok, hok, hn⟩ := hn
  cases ok with
  | false => simp at hn
  | true =>
    obtain ⟨h, no, ns, wf⟩ := verify_true hok
    simp only [Bool.not_true, Bool.false_eq_true, ↓reduceIte, wf.hdr, Option.bind_eq_some_iff, Option.some.injEq] at hn
    obtain ⟨h', rfl, no', hno', secs, hsecs, hn⟩ := hn
    have : no' = no := by rw [wf.namesOff] at hno'; cases hno'; rfl
    subst this
    cases secs with
    | none => simp at hn
    | some s =>
      have prov := nameSections_prov _ _ _ _ (by omega) hsecs (ProvN.init v h no')
      simp only at hn
      cases hsym : s.symtab with
      | none => simp [hsym] at hn
      | some symtab =>
        cases hstr : s.strtab with
        | none => simp [hsym, hstr] at hn
        | some strtab =>
          simp only [hsym, hstr] at hn
          obtain ⟨q, hq⟩ := lookupByOffset_sound _ 0 (by omega) hn
          have hrel : ∃ j, SecIs v h no' j SHT_REL s.reltab.off s.reltab.size (some dotRelText) := by
            rcases prov.reltab with h0 | hj
            · have := hq.inside; omega
            · exact hj
          exact ⟨h, no', ns, symtab, strtab, s.reltab, q, wf, prov.symtab _ hsym, prov.strtab _ hstr, hrel, hq⟩

end NakenVerif.Link.Elf
