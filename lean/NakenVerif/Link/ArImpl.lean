import NakenVerif.Link.ElfImpl
/-
Transcription of the live part of /repo/core/imports_ar.cpp (`ar` archive walk) and of /repo/core/Linker.cpp
(import list, needed-symbol list, symbol search), as they are after the `fix:` commits of C20.
Not transcribed because nothing calls them: imports_ar_read, imports_ar_find_lookup_table,
imports_ar_find_symbol_section_offset, imports_ar_find_name_from_offset, Linker::find_name_from_offset.
-/
namespace NakenVerif.Link.Ar
open NakenVerif.Link

/-- "!<arch>\n" -/
def signature : List Nat := [0x21, 0x3c, 0x61, 0x72, 0x63, 0x68, 0x3e, 0x0a]

def sigLoop (v : View) : Nat → List Nat → Option Bool
  | _, [] => some true
  | i, x :: xs => do
    let c ← v.u8 i
    if c ≠ x then pure false else sigLoop v (i + 1) xs

/-- `imports_ar_read_signature(buffer, file_size) == 0` -/
def readSignature (v : View) : Option Bool :=
  if v.size < 8 then some false else sigLoop v 0 signature

/-- digit loop of `imports_ar_member_size`; inner `none` = `return -1` -/
def sizeDigits (v : View) (field : Nat) : Nat → Nat → Nat → Option (Option Nat)
  | 0, _, size => some (some size)
  | k + 1, i, size => do
    let c ← v.u8 (field + i)
    if c = 0x20 then pure (some size)
    else if c < 0x30 ∨ c > 0x39 then pure none
    else
      let size' := size * 10 + (c - 0x30)
      if size' > v.size then pure none else sizeDigits v field k (i + 1) size'

/-- `imports_ar_member_size(buffer, file_size, ptr)`; inner `none` = -1 -/
def memberSize (v : View) (ptr : Nat) : Option (Option Nat) :=
  if v.size < ptr + 60 then some none else do
    let r ← sizeDigits v (ptr + 48) 10 0 0
    match r with
    | none => pure none
    | some size => if size > v.size - ptr - 60 then pure none else pure (some size)

/-- member walk of `imports_ar_verify` -/
def verifyLoop (v : View) : Nat → Nat → Option Bool
  | 0, _ => some true
  | k + 1, ptr =>
    if ptr < v.size then do
      let r ← memberSize v ptr
      match r with
      | none => pure false
      | some size => verifyLoop v k (ptr + 60 + size + size % 2)
    else some true

/-- `imports_ar_verify(buffer, file_size) == 0` -/
def verify (v : View) : Option Bool := do
  let s ← readSignature v
  if !s then pure false else verifyLoop v (v.size / 60 + 1) 8

/-- "/               " -/
def lookupIdent : List Nat := 0x2f :: List.replicate 15 0x20

/-- `strncmp(header->file_identifier, "/               ", 16) != 0` (the literal has no NUL in 16 bytes) -/
def identDiffers (v : View) (ptr : Nat) : Nat → List Nat → Option Bool
  | _, [] => some false
  | i, x :: xs => do
    let c ← v.u8 (ptr + i)
    if c ≠ x then pure true else identDiffers v ptr (i + 1) xs

/-- result of `imports_ar_find_code_from_symbol` when it returns 0: the code triple (file_offset already
relative to the archive), `obj_file - buffer` and `obj_size` -/
structure Member where
  code : Elf.Code
  objOff : Nat
  objSize : Nat
  deriving Repr, DecidableEq

def isElfMagic (v : View) (ptr : Nat) : Option Bool := do
  let b0 ← v.u8 (ptr + 60)
  if b0 ≠ 0x7f then pure false else
  let b1 ← v.u8 (ptr + 61)
  if b1 ≠ 0x45 then pure false else
  let b2 ← v.u8 (ptr + 62)
  if b2 ≠ 0x4c then pure false else
  let b3 ← v.u8 (ptr + 63)
  pure (b3 = 0x46)

/-- `cond && buffer[ptr + 60..63] == "\x7fELF"` (the bytes are only read when `cond` holds) -/
def elfMagicIf (v : View) (cond : Bool) (ptr : Nat) : Option Bool :=
  if cond then isElfMagic v ptr else some false

/-- the call of `imports_obj_find_code_from_symbol` on a member, made only for ELF members -/
def findCodeIf (v : View) (cond : Bool) (sym : Name) : Option (Option Elf.Code) :=
  if cond then Elf.findCode v sym else some none

/-- member walk of `imports_ar_find_code_from_symbol` -/
def findLoop (v : View) (sym : Name) : Nat → Nat → Option (Option Member)
  | 0, _ => some none
  | k + 1, ptr =>
    if ptr < v.size then do
      let r ← memberSize v ptr
      match r with
      | none => pure none
      | some size => do
        let differs ← identDiffers v ptr 0 lookupIdent
        let magic ← elfMagicIf v (differs && decide (size ≥ 4)) ptr
        let hit ← findCodeIf (v.sub (ptr + 60) size) magic sym
        match hit with
        | some c =>
          pure (some { code := { c with fileOffset := c.fileOffset + ptr + 60 }, objOff := ptr + 60, objSize := size })
        | none => findLoop v sym k (ptr + 60 + size + size % 2)
    else some none

/-- `imports_ar_find_code_from_symbol(buffer, file_size, symbol, ...)` -/
def findCode (v : View) (sym : Name) : Option (Option Member) := do
  let s ← readSignature v
  if !s then pure none else findLoop v sym (v.size / 60 + 1) 8

end NakenVerif.Link.Ar

namespace NakenVerif.Link
/-! ### Linker.cpp -/

/-- one `Imports` node: `type`, `code[size]` -/
structure Import where
  isAr : Bool
  data : Bytes

/-- `Linker::verify_import` -/
def Import.verify (imp : Import) : Option Bool :=
  if imp.isAr then Ar.verify (View.ofBytes imp.data) else Elf.verify (View.ofBytes imp.data)

/-- what `Linker::get_code_from_symbol` hands to the link function: the function's bytes
(`code[0 .. function_size)`), its offset inside its object's `.text`, and `(obj_file, obj_size)` -/
structure Found where
  code : List UInt8
  functionOffset : Nat
  obj : View

/-- the search of one import (the body of the `while (imports != nullptr)` loops) -/
def Import.find (imp : Import) (sym : Name) : Option (Option Found) :=
  let v := View.ofBytes imp.data
  if imp.isAr then do
    let r ← Ar.findCode v sym
    match r with
    | none => pure none
    | some m => do
      let code ← v.slice m.code.fileOffset m.code.functionSize
      pure (some { code, functionOffset := m.code.functionOffset, obj := v.sub m.objOff m.objSize })
  else do
    let r ← Elf.findCode v sym
    match r with
    | none => pure none
    | some c => do
      let code ← v.slice c.fileOffset c.functionSize
      pure (some { code, functionOffset := c.functionOffset, obj := v })

/-- `Linker::get_code_from_symbol` / the search of `Linker::search_code_from_symbol`: imports in list
order (the list is built by prepending, see `addFiles`), first hit wins -/
def findAll : List Import → Name → Option (Option Found)
  | [], _ => some none
  | imp :: rest, sym => do
    let r ← imp.find sym
    match r with
    | some f => pure (some f)
    | none => findAll rest sym

/-- file type by extension, as `Linker::add_file` / `AsmContext::link_file` decide it from the text after
the last '.' (`none`: not an import, main() takes the argument as the source file) -/
def importKind (fileName : Name) : Option Bool :=
  let rec lastDot : List UInt8 → Option (List UInt8) → Option (List UInt8)
    | [], acc => acc
    | c :: cs, acc => if c = 0x2e then lastDot cs (some (c :: cs)) else lastDot cs acc
  match lastDot fileName none with
  | some ext => if ext = nameOfString ".a" then some true else if ext = nameOfString ".o" then some false else none
  | none => none

inductive AddResult
  | ok (imports : List Import)
  | notImport          -- link_file returned -1
  | unsupported        -- link_file returned -2 ("Not a supported file")
  | fault

/-- main(): `link_file` on every argument in order; each accepted file is put in front of the list -/
def addFiles : List (Name × Bytes) → List Import → AddResult
  | [], acc => .ok acc
  | (fileName, data) :: rest, acc =>
    match importKind fileName with
    | none => .notImport
    | some isAr =>
      let imp : Import := { isAr, data }
      match imp.verify with
      | none => .fault
      | some false => .unsupported
      | some true => addFiles rest (imp :: acc)

end NakenVerif.Link
