/-
Addresses and ranges: `get_address` on a numeral or a symbol name (value × bytes_per_address), `get_token` /
`get_range` on `a`, `a-`, `a-b`, and what `print` / `disasm` / `write` do with them.
-/
import NakenVerif.Util.ProofsCmd

namespace NakenVerif.Util
open NakenVerif.Memory NakenVerif.Util.Spec

/-- a word of a range: not empty, no blank, no dash (a non-negative numeral or a symbol name) -/
def IsWord (w : CStr) : Prop := w ≠ [] ∧ ∀ c ∈ w, c ≠ ' ' ∧ c ≠ '-'

/-- what may follow a word inside a range -/
def RangeSep (rest : CStr) : Prop := rest = [] ∨ ∃ c t, rest = c :: t ∧ (c = ' ' ∨ c = '-')

/-! ### `get_token` -/

theorem getTokenLoop_word (w : CStr) (hw : ∀ c ∈ w, c ≠ ' ' ∧ c ≠ '-') (rest : CStr) (hrest : RangeSep rest) :
    ∀ acc : CStr, acc ++ w ≠ [] → getTokenLoop (w ++ rest) acc = (acc ++ w, rest) := by
  induction w with
  | nil =>
    intro acc hacc
    simp only [List.append_nil] at hacc
    rcases hrest with h | ⟨c, t, h, hc⟩
    · subst h; simp [getTokenLoop]
    · subst h
      rcases hc with hc | hc <;> subst hc <;> simp [getTokenLoop, hacc]
  | cons x w ih =>
    intro acc _
    obtain ⟨h1, h2⟩ := hw x (by simp)
    simp only [List.cons_append, getTokenLoop, h1, h2, if_false, false_and]
    rw [ih (fun c hc => hw c (List.mem_cons_of_mem _ hc)) (acc ++ [x]) (by simp)]
    simp

theorem skipSpaces_word (w : CStr) (hw : IsWord w) (rest : CStr) : skipSpaces (w ++ rest) = w ++ rest := by
  obtain ⟨hne, hc⟩ := hw
  cases w with
  | nil => exact absurd rfl hne
  | cons x w => exact skipSpaces_cons_ne _ _ (hc x (by simp)).1

theorem getToken_word (w : CStr) (hw : IsWord w) (rest : CStr) (hrest : RangeSep rest) :
    getToken (w ++ rest) = some (w, rest) := by
  unfold getToken
  rw [skipSpaces_word w hw rest, getTokenLoop_word w hw.2 rest hrest [] (by simpa using hw.1)]
  simp [hw.1]

theorem getToken_dash (t : CStr) : getToken ('-' :: t) = some (['-'], t) := by
  simp [getToken, skipSpaces, getTokenLoop]

theorem getToken_nil : getToken [] = none := by
  simp [getToken, skipSpaces, getTokenLoop]

theorem word_ne_dash (w : CStr) (hw : IsWord w) : w ≠ ['-'] := by
  intro e
  have := (hw.2 '-' (by simp [e])).2
  exact this rfl

/-! ### `get_range` -/

theorem getRange_single (cx : Ctx) (w1 : CStr) (hw1 : IsWord w1) (A : BitVec 32) (r1 : CStr)
    (h1 : getAddress cx w1 = .ok A r1) : getRange cx w1 = (some (A, A), false) := by
  have ht := getToken_word w1 hw1 [] (Or.inl rfl)
  simp only [List.append_nil] at ht
  unfold getRange
  simp only [ht, word_ne_dash w1 hw1, ne_eq, not_false_eq_true, if_true, h1, getToken_nil]

theorem getRange_open (cx : Ctx) (w1 : CStr) (hw1 : IsWord w1) (A : BitVec 32) (r1 : CStr)
    (h1 : getAddress cx w1 = .ok A r1) : getRange cx (w1 ++ ['-']) = (some (A, cx.mem.highAddress), false) := by
  have ht := getToken_word w1 hw1 ['-'] (Or.inr ⟨'-', [], rfl, Or.inr rfl⟩)
  unfold getRange
  simp only [ht, word_ne_dash w1 hw1, ne_eq, not_false_eq_true, if_true, h1, getToken_dash, not_true, if_false,
    getToken_nil]

theorem getRange_pair (cx : Ctx) (w1 w2 : CStr) (hw1 : IsWord w1) (hw2 : IsWord w2) (A B : BitVec 32)
    (r1 r2 : CStr) (h1 : getAddress cx w1 = .ok A r1) (h2 : getAddress cx w2 = .ok B r2) :
    getRange cx (w1 ++ '-' :: w2) = (some (A, B), false) := by
  have ht := getToken_word w1 hw1 ('-' :: w2) (Or.inr ⟨'-', w2, rfl, Or.inr rfl⟩)
  have ht2 := getToken_word w2 hw2 [] (Or.inl rfl)
  simp only [List.append_nil] at ht2
  unfold getRange
  simp only [ht, word_ne_dash w1 hw1, ne_eq, not_false_eq_true, if_true, h1, getToken_dash, not_true, if_false,
    ht2, h2, getToken_nil, Option.isSome_none, Bool.false_eq_true]

/-! ### `get_address` -/

theorem splitWord_word (w : CStr) (hw : ∀ c ∈ w, c ≠ ' ') (rest : CStr) (hrest : Sep rest) :
    splitWord (w ++ rest) = (w, rest) := by
  induction w with
  | nil =>
    rcases hrest with h | ⟨t, h⟩ <;> subst h <;> simp [splitWord]
  | cons x w ih =>
    simp only [List.cons_append, splitWord, hw x (by simp), if_false]
    rw [ih (fun c hc => hw c (List.mem_cons_of_mem _ hc))]

theorem text_no_space (n : Numeral) : ∀ c ∈ n.text, c ≠ ' ' := by
  intro c hc
  cases n with
  | dec ds => exact mem_map_decChar_ne ds c hc
  | neg ds =>
    rcases List.mem_cons.mp hc with h | h
    · subst h; decide
    · exact mem_map_decChar_ne ds c h
  | hex0x ds =>
    rcases List.mem_cons.mp hc with h | h
    · subst h; decide
    · rcases List.mem_cons.mp h with h | h
      · subst h; decide
      · exact mem_map_hexChar_ne ds c h
  | hexh ds =>
    rcases List.mem_append.mp hc with h | h
    · exact mem_map_hexChar_ne ds c h
    · simp at h; subst h; decide

theorem text_ne_nil (n : Numeral) (hwf : n.wellFormed) : n.text ≠ [] := by
  cases n <;> simp [Numeral.text, Numeral.wellFormed] at *
  all_goals assumption

/-- a typed number as an address: its value times bytes_per_address (no symbol of that spelling) -/
theorem getAddress_numeral (cx : Ctx) (n : Numeral) (hwf : n.wellFormed) (rest : CStr) (hrest : Sep rest)
    (hsym : cx.lookup n.text = none) :
    getAddress cx (n.text ++ rest) =
      .ok (n.value32 * cx.bpa) (if n.swallowsBlank then rest.drop 1 else rest) := by
  have hsk : skipSpaces (n.text ++ rest) = n.text ++ rest := by
    have hne := text_ne_nil n hwf
    cases ht : n.text with
    | nil => exact absurd ht hne
    | cons x w =>
      have : x ≠ ' ' := text_no_space n x (by simp [ht])
      simp only [List.cons_append]
      exact skipSpaces_cons_ne _ _ this
  have hnum := getNum_numeral 0 n hwf rest hrest
  simp only [List.replicate, List.nil_append] at hnum
  unfold getAddress
  simp only [hsk, splitWord_word n.text (text_no_space n) rest hrest, hsym, hnum]

/-- a symbol name as an address: the symbol's value times bytes_per_address, like a typed address -/
theorem getAddress_symbol (cx : Ctx) (name : CStr) (hne : name ≠ []) (hname : ∀ c ∈ name, c ≠ ' ')
    (rest : CStr) (hrest : Sep rest) (v : BitVec 32) (hsym : cx.lookup name = some v) :
    getAddress cx (name ++ rest) = .ok (v * cx.bpa) rest := by
  have hsk : skipSpaces (name ++ rest) = name ++ rest := by
    cases name with
    | nil => exact absurd rfl hne
    | cons x w => exact skipSpaces_cons_ne _ _ (hname x (by simp))
  unfold getAddress
  simp only [hsk, splitWord_word name hname rest hrest, hsym]

/-- a non-negative numeral is a word of a range -/
theorem isWord_text (n : Numeral) (hwf : n.wellFormed) (hplain : ∀ ds, n ≠ .neg ds) : IsWord n.text := by
  refine ⟨text_ne_nil n hwf, ?_⟩
  intro c hc
  refine ⟨text_no_space n c hc, ?_⟩
  cases n with
  | dec ds =>
    obtain ⟨d, _, rfl⟩ := List.mem_map.mp hc
    exact (decChar_ne d).2.1
  | neg ds => exact absurd rfl (hplain ds)
  | hex0x ds =>
    rcases List.mem_cons.mp hc with h | h
    · subst h; decide
    · rcases List.mem_cons.mp h with h | h
      · subst h; decide
      · obtain ⟨d, _, rfl⟩ := List.mem_map.mp h
        exact (hexChar_ne' d).2.1
  | hexh ds =>
    rcases List.mem_append.mp hc with h | h
    · obtain ⟨d, _, rfl⟩ := List.mem_map.mp h
      exact (hexChar_ne' d).2.1
    · simp at h; subst h; decide

end NakenVerif.Util
