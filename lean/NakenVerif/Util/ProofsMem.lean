/-
Byte-level meaning of the write commands over the paged image: a write of 8/16/32-bit data is the store of their
byte sequence in the CPU's byte order (`writeVals_eq_loadBin`), which changes exactly those addresses
(`read8_loadBin_frame`, `read8_loadBin_at`), and a listing of the same range shows the data again
(`vals_listing_writeVals`).
-/
import NakenVerif.Util.Impl
import NakenVerif.Util.Spec
import NakenVerif.Memory.Proofs

namespace NakenVerif.Util
open NakenVerif.Memory NakenVerif.Util.Spec

/-- the data stored by the loop of `write8/16/32`, one after the other -/
def writeVals (w : Width) (m : Memory) (a : BitVec 32) : List (BitVec 32) → Memory
  | [] => m
  | v :: vs => writeVals w (storeVal w m a v) (a + w.bytes) vs

/-! ### `loadBin`: a byte sequence stored from an address on -/

@[simp] theorem loadBin_endian (m : Memory) (a : BitVec 32) (bs : List (BitVec 8)) :
    (loadBin m a bs).bigEndian = m.bigEndian := by
  induction bs generalizing m a with
  | nil => rfl
  | cons b bs ih => simp [loadBin, ih]

theorem loadBin_append (m : Memory) (a : BitVec 32) (xs ys : List (BitVec 8)) :
    loadBin m a (xs ++ ys) = loadBin (loadBin m a xs) (a + BitVec.ofNat 32 xs.length) ys := by
  induction xs generalizing m a with
  | nil => simp [loadBin]
  | cons x xs ih =>
    simp only [List.cons_append, loadBin, List.length_cons, ih]
    congr 1
    apply BitVec.eq_of_toNat_eq
    simp [BitVec.toNat_add]
    omega

/-- frame: an address outside `a, a+1, …, a+len-1` keeps its byte -/
theorem read8_loadBin_frame (m : Memory) (a : BitVec 32) (bs : List (BitVec 8)) (x : BitVec 32)
    (h : ∀ i, i < bs.length → x ≠ a + BitVec.ofNat 32 i) : read8 (loadBin m a bs) x = read8 m x := by
  induction bs generalizing m a with
  | nil => rfl
  | cons b bs ih =>
    have h0 : x ≠ a := by simpa using h 0 (by simp)
    have hs : ∀ i, i < bs.length → x ≠ a + 1 + BitVec.ofNat 32 i := by
      intro i hi
      have := h (i + 1) (by simp; omega)
      intro e; apply this; rw [e]
      apply BitVec.eq_of_toNat_eq
      simp [BitVec.toNat_add]
      omega
    simp only [loadBin]
    rw [ih _ _ hs, read8_write8]
    simp [h0]

/-- the `i`-th address of the range holds the `i`-th byte (the sequence fits into the address space) -/
theorem read8_loadBin_at (m : Memory) (a : BitVec 32) (bs : List (BitVec 8)) (i : Nat) (hi : i < bs.length)
    (hfit : bs.length ≤ 4294967296) : read8 (loadBin m a bs) (a + BitVec.ofNat 32 i) = bs[i] := by
  induction bs generalizing m a i with
  | nil => simp at hi
  | cons b bs ih =>
    simp only [loadBin]
    cases i with
    | zero =>
      have hfr : ∀ j, j < bs.length → a + BitVec.ofNat 32 0 ≠ a + 1 + BitVec.ofNat 32 j := by
        intro j hj e
        have := congrArg BitVec.toNat e
        simp [BitVec.toNat_add] at this
        simp only [List.length_cons] at hfit
        omega
      rw [read8_loadBin_frame _ _ _ _ hfr, read8_write8]
      simp
    | succ i =>
      have e : a + BitVec.ofNat 32 (i + 1) = a + 1 + BitVec.ofNat 32 i := by
        apply BitVec.eq_of_toNat_eq
        simp [BitVec.toNat_add]
        omega
      rw [e]
      simp only [List.length_cons] at hi hfit
      rw [ih _ _ i (by omega) (by omega)]
      simp

/-! ### one datum = its bytes in the CPU's byte order -/

theorem storeVal_eq_loadBin (w : Width) (m : Memory) (a v : BitVec 32) :
    storeVal w m a v = loadBin m a (bytesOf m.bigEndian w v) := by
  have e2 : a + 1 + 1 = a + 2 := by bv_decide
  have e3 : a + 2 + 1 = a + 3 := by bv_decide
  cases w with
  | w8 =>
    simp only [storeVal, bytesOf, nbytes, List.range_succ, List.range_zero, List.nil_append, List.map_cons,
      List.map_nil, loadBin, byteOf]
    cases m.bigEndian <;> simp
  | w16 =>
    simp only [storeVal, write16, bytesOf, nbytes, List.range_succ, List.range_zero, List.nil_append,
      List.map_cons, List.map_nil, List.cons_append, loadBin, byteOf, add_zero']
    cases m.bigEndian
    · simp only [Bool.not_false, if_true, Bool.false_eq_true, if_false]
      congr 1
      · congr 1; bv_decide
      · bv_decide
    · simp only [Bool.not_true, Bool.false_eq_true, if_false, if_true]
      congr 1
      · congr 1; bv_decide
      · bv_decide
  | w32 =>
    simp only [storeVal, write32, bytesOf, nbytes, List.range_succ, List.range_zero, List.nil_append,
      List.map_cons, List.map_nil, List.cons_append, loadBin, byteOf, add_zero', e2, e3]
    cases m.bigEndian
    · simp only [Bool.not_false, if_true, Bool.false_eq_true, if_false]
      congr 1
      · congr 1
        · congr 1
          · congr 1; bv_decide
          · bv_decide
        · bv_decide
      · bv_decide
    · simp only [Bool.not_true, Bool.false_eq_true, if_false, if_true]
      congr 1
      · congr 1
        · congr 1
          · congr 1; bv_decide
          · bv_decide
        · bv_decide
      · bv_decide

theorem bytesOf_length (big : Bool) (w : Width) (v : BitVec 32) : (bytesOf big w v).length = nbytes w := by
  simp [bytesOf]

theorem bytes_eq_nbytes (w : Width) : w.bytes = BitVec.ofNat 32 (nbytes w) := by
  cases w <;> rfl

@[simp] theorem storeVal_endian (w : Width) (m : Memory) (a v : BitVec 32) :
    (storeVal w m a v).bigEndian = m.bigEndian := by
  rw [storeVal_eq_loadBin]; simp

/-- the loop of a write command stores the byte sequence of its data -/
theorem writeVals_eq_loadBin (w : Width) (m : Memory) (a : BitVec 32) (vs : List (BitVec 32)) :
    writeVals w m a vs = loadBin m a (flatBytes m.bigEndian w vs) := by
  induction vs generalizing m a with
  | nil => rfl
  | cons v vs ih =>
    simp only [writeVals, flatBytes, List.flatMap_cons]
    rw [loadBin_append, ← storeVal_eq_loadBin, bytesOf_length, ← bytes_eq_nbytes, ih]
    simp [flatBytes]

theorem flatBytes_length (big : Bool) (w : Width) (vs : List (BitVec 32)) :
    (flatBytes big w vs).length = nbytes w * vs.length := by
  induction vs with
  | nil => simp [flatBytes]
  | cons v vs ih =>
    simp only [flatBytes, List.flatMap_cons, List.length_append, bytesOf_length, List.length_cons] at ih ⊢
    rw [ih, Nat.mul_succ]; omega

@[simp] theorem writeVals_endian (w : Width) (m : Memory) (a : BitVec 32) (vs : List (BitVec 32)) :
    (writeVals w m a vs).bigEndian = m.bigEndian := by
  rw [writeVals_eq_loadBin]; simp

/-- frame of a write command: every address outside the `nbytes * count` bytes from `a` on keeps its byte -/
theorem read8_writeVals_frame (w : Width) (m : Memory) (a : BitVec 32) (vs : List (BitVec 32)) (x : BitVec 32)
    (h : ∀ i, i < nbytes w * vs.length → x ≠ a + BitVec.ofNat 32 i) :
    read8 (writeVals w m a vs) x = read8 m x := by
  rw [writeVals_eq_loadBin]
  apply read8_loadBin_frame
  intro i hi
  rw [flatBytes_length] at hi
  exact h i hi

/-! ### reading a datum back -/

theorem loadVal_congr (w : Width) (m1 m2 : Memory) (x : BitVec 32) (he : m1.bigEndian = m2.bigEndian)
    (h : ∀ i, i < nbytes w → read8 m1 (x + BitVec.ofNat 32 i) = read8 m2 (x + BitVec.ofNat 32 i)) :
    loadVal w m1 x = loadVal w m2 x := by
  have h0 := h 0
  have x0 : x + BitVec.ofNat 32 0 = x := by simp
  cases w with
  | w8 =>
    simp only [loadVal]
    rw [← x0, h0 (by simp [nbytes])]
  | w16 =>
    have h1 : read8 m1 (x + 1) = read8 m2 (x + 1) := h 1 (by simp [nbytes])
    simp only [nbytes] at h0
    rw [x0] at h0
    simp only [loadVal, read16, he, h0 (by omega), h1]
  | w32 =>
    have h1 : read8 m1 (x + 1) = read8 m2 (x + 1) := h 1 (by simp [nbytes])
    have h2 : read8 m1 (x + 2) = read8 m2 (x + 2) := h 2 (by simp [nbytes])
    have h3 : read8 m1 (x + 3) = read8 m2 (x + 3) := h 3 (by simp [nbytes])
    simp only [nbytes] at h0
    rw [x0] at h0
    simp only [loadVal, read32, he, h0 (by omega), h1, h2, h3]

/-- a datum read back where it was just stored -/
theorem loadVal_storeVal (w : Width) (m : Memory) (a v : BitVec 32) :
    loadVal w (storeVal w m a v) a = datum w v := by
  cases w with
  | w8 =>
    simp only [loadVal, storeVal, datum, read8_write8, if_true]
    bv_decide
  | w16 =>
    simp only [loadVal, storeVal, datum, read16_write16]
    bv_decide
  | w32 => simp only [loadVal, storeVal, datum, read32_write32]

/-- what a listing of the written range shows: the data, in order (the range fits into the address space) -/
theorem vals_listing_writeVals (w : Width) (bpa : BitVec 32) (vs : List (BitVec 32)) :
    ∀ (m : Memory) (a : BitVec 32) (k : Nat), a.toNat + nbytes w * vs.length ≤ 4294967296 →
      vals (listing w (writeVals w m a vs) bpa a vs.length k) = vs.map (datum w) := by
  induction vs with
  | nil => intro m a k _; simp [listing, vals]
  | cons v vs ih =>
    intro m a k hfit
    simp only [List.length_cons, Nat.mul_succ] at hfit
    have hnb : 1 ≤ nbytes w ∧ nbytes w ≤ 4 := by cases w <;> simp [nbytes]
    simp only [writeVals, List.length_cons, listing, List.map_cons]
    have hv : ∀ l : List Event, vals ((if k % perRow w = 0 then [Event.row (a / bpa)] else []) ++ l) = vals l := by
      intro l; split <;> simp [vals]
    rw [hv]
    simp only [vals]
    -- the first value is untouched by the later stores
    have hfirst : loadVal w (writeVals w (storeVal w m a v) (a + w.bytes) vs) a = datum w v := by
      rw [← loadVal_storeVal w m a v]
      apply loadVal_congr
      · simp
      · intro i hi
        apply read8_writeVals_frame
        intro j hj e
        have := congrArg BitVec.toNat e
        rw [bytes_eq_nbytes] at this
        simp only [BitVec.toNat_add, BitVec.toNat_ofNat] at this
        have ha := a.isLt
        omega
    rw [hfirst, ← bytes_eq_nbytes]
    congr 1
    cases vs with
    | nil => simp [listing, vals]
    | cons v2 vs2 =>
      apply ih
      simp only [List.length_cons, Nat.mul_succ] at hfit ⊢
      rw [bytes_eq_nbytes]
      simp only [BitVec.toNat_add, BitVec.toNat_ofNat]
      have ha := a.isLt
      omega

end NakenVerif.Util
