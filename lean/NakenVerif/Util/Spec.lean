/-
Specification side of C19, written from the property statement and the help text of naken_util
("print <start>-<end>", "write <address> <data>..", numbers decimal, `0x…` or `…h`), not from UtilContext.cpp:

* numerals and the value they denote (positional notation; "0x1f" and "1fh" denote 31, "-2" denotes -2), reduced to the
  32 bits of an address or datum;
* the bytes a 8/16/32-bit datum occupies in the CPU's byte order;
* what a listing of a range shows: every value of the range in order, a new row every 16 bytes, every row labelled
  with the address (in the CPU's address units) of its first byte.
-/
import NakenVerif.Util.Impl

namespace NakenVerif.Util.Spec
open NakenVerif.Memory NakenVerif.Util

/-- a hexadecimal digit as typed: value and, for a..f, the case -/
structure HexDig where
  val : Fin 16
  upper : Bool
  deriving DecidableEq, Repr

def decChar (d : Fin 10) : Char := Char.ofNat (48 + d.val)

def HexDig.char (h : HexDig) : Char :=
  if h.val.val < 10 then Char.ofNat (48 + h.val.val)
  else if h.upper then Char.ofNat (55 + h.val.val) else Char.ofNat (87 + h.val.val)

/-- positional value of a digit string, most significant digit first -/
def positional (base : Nat) (ds : List Nat) : Nat := ds.foldl (fun acc d => acc * base + d) 0

/-- the number spellings naken_util documents -/
inductive Numeral where
  /-- `1234` -/
  | dec (ds : List (Fin 10))
  /-- `-1234` -/
  | neg (ds : List (Fin 10))
  /-- `0x12ab` -/
  | hex0x (ds : List HexDig)
  /-- `12abh` -/
  | hexh (ds : List HexDig)
  deriving Repr

def Numeral.text : Numeral → List Char
  | .dec ds => ds.map decChar
  | .neg ds => '-' :: ds.map decChar
  | .hex0x ds => '0' :: 'x' :: ds.map HexDig.char
  | .hexh ds => ds.map HexDig.char ++ ['h']

/-- at least one digit -/
def Numeral.wellFormed : Numeral → Prop
  | .dec ds => ds ≠ []
  | .neg ds => ds ≠ []
  | .hex0x ds => ds ≠ []
  | .hexh ds => ds ≠ []

/-- the integer a numeral denotes -/
def Numeral.value : Numeral → Int
  | .dec ds => positional 10 (ds.map (·.val))
  | .neg ds => - (positional 10 (ds.map (·.val)) : Int)
  | .hex0x ds => positional 16 (ds.map (·.val.val))
  | .hexh ds => positional 16 (ds.map (·.val.val))

/-- … as the 32 bits of an address or datum -/
def Numeral.value32 (n : Numeral) : BitVec 32 := BitVec.ofInt 32 n.value

/-- is the numeral one that leaves the pointer on the separator (decimal) or behind it (`0x…` swallows one blank) -/
def Numeral.swallowsBlank : Numeral → Bool
  | .hex0x _ => true
  | _ => false

/-- number of bytes of a datum -/
def nbytes : Width → Nat
  | .w8 => 1
  | .w16 => 2
  | .w32 => 4

/-- the datum a command of this width stores for a typed value: its low 8/16/32 bits -/
def datum (w : Width) (v : BitVec 32) : BitVec 32 :=
  match w with
  | .w8 => v &&& 0xff
  | .w16 => v &&& 0xffff
  | .w32 => v

/-- byte `i` (in address order) of a datum of `n` bytes: most significant first on a big endian CPU, least
significant first on a little endian one -/
def byteOf (big : Bool) (n : Nat) (v : BitVec 32) (i : Nat) : BitVec 8 :=
  if big then (v >>> (8 * (n - 1 - i))).setWidth 8 else (v >>> (8 * i)).setWidth 8

def bytesOf (big : Bool) (w : Width) (v : BitVec 32) : List (BitVec 8) :=
  (List.range (nbytes w)).map (byteOf big (nbytes w) v)

/-- the byte sequence of a list of data -/
def flatBytes (big : Bool) (w : Width) (vs : List (BitVec 32)) : List (BitVec 8) :=
  vs.flatMap (bytesOf big w)

/-- values per row of a listing: 16 bytes -/
def perRow : Width → Nat
  | .w8 => 16
  | .w16 => 8
  | .w32 => 4

/-- a listing of `count` values from byte address `start`: the values are the data at `start`, `start + nbytes`, …
in order; value number `k` (counted from 0 at the start of the listing) starts a row when `k` is a multiple of
`perRow`, and the row is labelled with the address of that value in address units -/
def listing (w : Width) (m : Memory) (bpa : BitVec 32) : BitVec 32 → Nat → Nat → List Event
  | _, 0, _ => []
  | start, count + 1, k =>
    (if k % perRow w = 0 then [Event.row (start / bpa)] else []) ++
      Event.val (loadVal w m start) :: listing w m bpa (start + BitVec.ofNat 32 (nbytes w)) count (k + 1)

/-- the values a transcript shows -/
def vals : List Event → List (BitVec 32)
  | [] => []
  | .val v :: es => v :: vals es
  | _ :: es => vals es

end NakenVerif.Util.Spec
