/-
The command loop of `main()` in main/naken_util.cpp over the command model of `Util.Impl`:
command table (`is_command_valid`), dispatch, interactive `asm` mode, and the simulator commands
`set <reg>=<value>`, `step`, `reset`, `registers` for the MSP430 (`SimulateMsp430` = `Msp430.Sim`).

The simulator shares the image with the commands (`UtilContext::memory`): a step runs `Msp430.Sim.step` on the
function `fun a => Memory.read8 mem a` and replays the bytes it wrote (`StepOut.writes`) into the paged image.
The assembler is not modelled: `asm` consumes the next prepared assembler result (`AsmResult`, the image the real
assembler produced for that block) and models what `assemble_code` does with it.
-/
import NakenVerif.Util.Impl
import NakenVerif.Msp430.SimImpl

namespace NakenVerif.Util
open NakenVerif.Memory

/-- what `assemble_code` gets from the two assembler passes -/
inductive AsmResult where
  /-- "Error assembling in pass …" -/
  | err
  /-- the assembler's `memory` (with its low/high) and `bytes_per_address` -/
  | ok (src : Memory) (asmBpa : BitVec 32)

/-- transcript of the session: `Event`s of the memory commands plus the messages of the command loop -/
inductive Out where
  | ev (e : Event)
  /-- "Unknown command: …" -/
  | unknown
  /-- "Syntax error: … requires argument(s)" -/
  | needsArg
  /-- "Error: … doesn't take an argument." -/
  | takesNoArg
  /-- "Error: missing =." -/
  | missingEq
  /-- "Register … set to 0x…." -/
  | regSet (num : BitVec 32)
  /-- "Syntax error." of `set` -/
  | syntaxError
  /-- "Error assembling in pass …" -/
  | asmError
  /-- the registers shown by `registers` -/
  | regs (r : List (BitVec 16))
  /-- "Start address" / "End address" of `info` -/
  | info (start end_ : BitVec 32)
  /-- a command the model does not cover -/
  | notModelled
  deriving Repr

structure Session where
  cx : Ctx
  /-- `uint32_t org` of `main()` -/
  org : BitVec 32
  inCode : Bool
  /-- `code.len() > 0` -/
  codeNonEmpty : Bool
  wasPcSet : Bool
  /-- the CPU has the MSP430 simulator -/
  msp430 : Bool
  regs : BitVec 256
  cycleCount : Int
  nestedCallCount : Int
  /-- results of the assembler for the blocks still to come -/
  asmResults : List AsmResult

/-- `command_names[]`: name, has_arg, is_optional (checked against the table of main/naken_util.cpp by the
translator: `Generated.UtilCommands`) -/
def commandTable : List (String × Bool × Bool) := [
  ("asm", true, true), ("break", true, true), ("call", true, false), ("clear", true, false),
  ("disasm", true, true), ("display", false, false), ("dumpram", true, false), ("dump_ram", true, false),
  ("exit", false, false), ("help", false, false), ("info", false, false), ("no_clear", false, false),
  ("print", true, false), ("print16", true, false), ("print32", true, false), ("push", true, false),
  ("quit", false, false), ("registers", false, false), ("reg", false, false), ("reset", false, false),
  ("run", false, false), ("set", true, false), ("speed", true, true), ("step", false, false),
  ("stop", false, false), ("symbols", false, false), ("write", true, false), ("write16", true, false),
  ("write32", true, false)]

/-- `is_command_valid`: `none` = valid -/
def commandValid (table : List (String × Bool × Bool)) (command : String) (hasArg : Bool) : Option Out :=
  match table.find? (fun e => e.1 == command) with
  | some (_, takesArg, optional) =>
    if ¬ takesArg then (if hasArg then some .takesNoArg else none)
    else if ¬ optional ∧ ¬ hasArg then some .needsArg else none
  | none => if command == "" then none else some .unknown

/-! ### `String::as_int` = `strtol(text, nullptr, 0)` truncated to `int` -/

def isCSpace (c : Char) : Bool := c = ' ' ∨ c = '\t' ∨ c = '\n' ∨ c = '\x0b' ∨ c = '\x0c' ∨ c = '\r'

def digitIn (base : Nat) (c : Char) : Option Nat :=
  let v := if '0'.toNat ≤ c.toNat ∧ c.toNat ≤ '9'.toNat then some (c.toNat - '0'.toNat)
    else if 'a'.toNat ≤ c.toNat ∧ c.toNat ≤ 'z'.toNat then some (c.toNat - 'a'.toNat + 10)
    else if 'A'.toNat ≤ c.toNat ∧ c.toNat ≤ 'Z'.toNat then some (c.toNat - 'A'.toNat + 10)
    else none
  match v with
  | some d => if d < base then some d else none
  | none => none

def strtolDigits (base : Nat) : CStr → Nat → Nat
  | [], acc => acc
  | c :: t, acc => match digitIn base c with
    | some d => strtolDigits base t (acc * base + d)
    | none => acc

/-- value of `strtol(text, nullptr, 0)` as a C `long` -/
def strtol0 (text : CStr) : Int :=
  let rec skip : CStr → CStr
    | [] => []
    | c :: t => if isCSpace c then skip t else c :: t
  let s := skip text
  let (neg, s) := match s with
    | '-' :: t => (true, t)
    | '+' :: t => (false, t)
    | _ => (false, s)
  let mag : Nat := match s with
    | '0' :: x :: d :: t =>
      if (x = 'x' ∨ x = 'X') ∧ (digitIn 16 d).isSome then strtolDigits 16 (d :: t) 0
      else strtolDigits 8 (x :: d :: t) 0
    | '0' :: t => strtolDigits 8 t 0
    | _ => strtolDigits 10 s 0
  if neg then (if mag > 9223372036854775808 then -9223372036854775808 else -(mag : Int))
  else (if mag > 9223372036854775807 then 9223372036854775807 else (mag : Int))

/-- `String::as_int()` -/
def asInt (text : CStr) : BitVec 32 := BitVec.ofInt 32 (strtol0 text)

/-! ### MSP430 simulator glue -/

def lower (c : Char) : Char := if 'A'.toNat ≤ c.toNat ∧ c.toNat ≤ 'Z'.toNat then Char.ofNat (c.toNat + 32) else c

/-- `get_register_msp430` for names that lie inside the string (the C code reads `token[2]` of a one-character
name, i.e. past its NUL; such names are not generated) -/
def getRegisterMsp430 (token : CStr) : Option (BitVec 4) :=
  let digit (c : Char) : Option Nat :=
    if '0'.toNat ≤ c.toNat ∧ c.toNat ≤ '9'.toNat then some (c.toNat - '0'.toNat) else none
  let viaR : Option (BitVec 4) :=
    match token with
    | [r, d] => if r = 'r' ∨ r = 'R' then (digit d).map (BitVec.ofNat 4) else none
    | [r, '1', d] =>
      if r = 'r' ∨ r = 'R' then (match digit d with | some v => if v ≤ 5 then some (BitVec.ofNat 4 (10 + v)) else none | none => none)
      else none
    | _ => none
  match viaR with
  | some i => some i
  | none =>
    let t := token.map lower
    if t = ['p', 'c'] then some 0 else if t = ['s', 'p'] then some 1
    else if t = ['s', 'r'] then some 2 else if t = ['c', 'g'] then some 3 else none

/-- flag names of `SimulateMsp430::set_reg` (bit n of SR) -/
def msp430Flags : List String := ["C", "Z", "N", "GIE", "CPUOFF", "OSCOFF", "SCG0", "SCG1", "V"]

/-- `SimulateMsp430::set_reg`; `none` = -1 -/
def setRegMsp430 (regs : BitVec 256) (name : CStr) (value : BitVec 32) : Option (BitVec 256) :=
  let name := skipSpaces name
  match getRegisterMsp430 name with
  | some i => some (Msp430.Sim.setReg regs i (value.setWidth 16))
  | none =>
    match msp430Flags.findIdx? (fun f => f.toList.map lower == name.map lower) with
    | some n =>
      let sr := Msp430.Sim.getReg regs 2
      let bit : BitVec 16 := 1#16 <<< n
      some (Msp430.Sim.setReg regs 2 (if value = 1 then sr ||| bit else sr &&& (0xffff#16 ^^^ bit)))
    | none => none

/-- `SimulateMsp430::reset` -/
def resetMsp430 (m : Memory) : BitVec 256 :=
  Msp430.Sim.setReg (Msp430.Sim.setReg 0 0 (Memory.read16 m 0xfffe)) 1 0x800

/-- replay of the simulator's byte writes into the shared image -/
def applyWrites (m : Memory) : List (BitVec 32 × BitVec 8) → Memory
  | [] => m
  | (a, v) :: ws => applyWrites (Memory.write8 m a v) ws

/-- the view the simulator has of the shared image: `Memory::read8` of every address -/
def simView (m : Memory) : Msp430.Sim.Mem := fun a => Memory.read8 m a

/-- `step`: `enable_step_mode(); run(-1, 1)` -/
def stepMsp430 (s : Session) : Session :=
  let st : Msp430.Sim.SimState :=
    { regs := s.regs, mem := simView s.cx.mem, cycleCount := s.cycleCount, nestedCallCount := s.nestedCallCount,
      breakIo := 0xffffffff }
  match Msp430.Sim.step st with
  | .ok o =>
    { s with regs := o.state.regs, cycleCount := o.state.cycleCount, nestedCallCount := o.state.nestedCallCount,
             cx := { s.cx with mem := applyWrites s.cx.mem o.writes } }
  | _ => s

/-! ### one line of input -/

def str (s : CStr) : String := String.ofList s

def regList (r : BitVec 256) : List (BitVec 16) := (List.range 16).map fun i => Msp430.Sim.getReg r (BitVec.ofNat 4 i)

/-- one pass of the `while (true)` loop of `main()` for the line `line` (as `fgets` delivered it) -/
def runLine (s : Session) (line : CStr) : Session × List Out :=
  let command := trim line
  if s.inCode then
    if command = [] then
      if s.codeNonEmpty then
        let pcSet := ¬ s.wasPcSet ∧ s.org ≠ 0
        let regs := if pcSet ∧ s.msp430 then Msp430.Sim.setReg s.regs 0 (s.org.setWidth 16) else s.regs
        let s := { s with regs := regs, wasPcSet := true, inCode := false, codeNonEmpty := false }
        match s.asmResults with
        | [] => (s, [.ev (.assembling s.org), .notModelled])
        | .err :: rest => ({ s with asmResults := rest }, [.ev (.assembling s.org), .asmError])
        | .ok src asmBpa :: rest =>
          let (cx, org) := afterAssemble s.cx src asmBpa s.org
          ({ s with cx := cx, org := org, asmResults := rest }, [.ev (.assembling s.org)])
      else ({ s with inCode := false }, [])
    else ({ s with codeNonEmpty := true }, [])
  else
    let (cmd, arg) := splitCommand line
    let hasArg := arg ≠ []
    match commandValid commandTable (str cmd) hasArg with
    | some o => (s, [o])
    | none =>
      let evs (l : List Event) : List Out := l.map .ev
      match str cmd with
      | "" => (s, [])
      | "print" => (s, evs (cmdPrint .w8 s.cx arg))
      | "print16" => (s, evs (cmdPrint .w16 s.cx arg))
      | "print32" => (s, evs (cmdPrint .w32 s.cx arg))
      | "write" => let (cx, e) := cmdWrite .w8 s.cx arg; ({ s with cx := cx }, evs e)
      | "write16" => let (cx, e) := cmdWrite .w16 s.cx arg; ({ s with cx := cx }, evs e)
      | "write32" => let (cx, e) := cmdWrite .w32 s.cx arg; ({ s with cx := cx }, evs e)
      | "disasm" => (s, evs (if hasArg then cmdDisasm s.cx arg else cmdDisasmAll s.cx))
      | "asm" => ({ s with org := if hasArg then asInt arg else s.org, inCode := true }, [])
      | "info" => (s, [.info (s.cx.mem.lowAddress / s.cx.bpa) (s.cx.mem.highAddress / s.cx.bpa)])
      | "set" =>
        if ¬ s.msp430 then (s, [.notModelled])
        else match arg.idxOf? '=' with
          | none => (s, [.missingEq])
          | some off =>
            let value := trim (arg.drop (off + 1))
            let name := arg.take off
            let num := asInt value
            match setRegMsp430 s.regs name num with
            | some r => ({ s with regs := r }, [.regSet num])
            | none => (s, [.syntaxError])
      | "step" => if s.msp430 then (stepMsp430 s, []) else (s, [.notModelled])
      | "reset" =>
        if s.msp430 then ({ s with regs := resetMsp430 s.cx.mem, cycleCount := 0, nestedCallCount := 0 }, [])
        else (s, [.notModelled])
      | "registers" => if s.msp430 then (s, [.regs (regList s.regs)]) else (s, [.notModelled])
      | "reg" => if s.msp430 then (s, [.regs (regList s.regs)]) else (s, [.notModelled])
      | _ => (s, [.notModelled])

/-- a whole script -/
def runLines (s : Session) : List CStr → Session × List (List Out)
  | [] => (s, [])
  | l :: ls =>
    let (s1, o) := runLine s l
    let (s2, os) := runLines s1 ls
    (s2, o :: os)

end NakenVerif.Util
