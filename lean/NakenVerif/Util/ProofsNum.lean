/-
`get_num` / `get_hex` on numerals of every length: the parsed value is the value the numeral denotes (mod 2^32),
the returned pointer is where the numeral ends.  No bound on the number of digits.
-/
import NakenVerif.Util.Impl
import NakenVerif.Util.Spec

namespace NakenVerif.Util
open NakenVerif.Util.Spec

/-- what may follow a number on a command line: the end of the line or a blank -/
def Sep (rest : CStr) : Prop := rest = [] ∨ ∃ t, rest = ' ' :: t

/-! ### digits -/

theorem hexDigit_char : ∀ v : Fin 16, ∀ u : Bool, hexDigit (HexDig.char ⟨v, u⟩) = some (BitVec.ofNat 32 v.val) := by
  decide
theorem hexChar_ne : ∀ v : Fin 16, ∀ u : Bool,
    HexDig.char ⟨v, u⟩ ≠ ' ' ∧ HexDig.char ⟨v, u⟩ ≠ '-' ∧ HexDig.char ⟨v, u⟩ ≠ 'h' ∧ HexDig.char ⟨v, u⟩ ≠ 'x' := by
  decide
theorem decDigit_char : ∀ v : Fin 10, decDigit (decChar v) = some (BitVec.ofNat 32 v.val) := by decide
theorem decChar_ne : ∀ v : Fin 10,
    decChar v ≠ ' ' ∧ decChar v ≠ '-' ∧ decChar v ≠ 'h' ∧ decChar v ≠ 'x' := by decide

theorem hexDigit_char' (h : HexDig) : hexDigit h.char = some (BitVec.ofNat 32 h.val.val) := by
  cases h with | mk v u => exact hexDigit_char v u
theorem hexChar_ne' (h : HexDig) : h.char ≠ ' ' ∧ h.char ≠ '-' ∧ h.char ≠ 'h' ∧ h.char ≠ 'x' := by
  cases h with | mk v u => exact hexChar_ne v u

/-! ### blanks -/

theorem skipSpaces_replicate (k : Nat) (s : CStr) : skipSpaces (List.replicate k ' ' ++ s) = skipSpaces s := by
  induction k with
  | zero => simp
  | succ k ih => simp [List.replicate_succ, skipSpaces, ih]

theorem skipSpaces_cons_ne (c : Char) (s : CStr) (h : c ≠ ' ') : skipSpaces (c :: s) = c :: s := by
  simp [skipSpaces, h]

/-! ### the accumulation loops -/

theorem ofNat_step (a d b : Nat) :
    BitVec.ofNat 32 a * BitVec.ofNat 32 b + BitVec.ofNat 32 d = BitVec.ofNat 32 (a * b + d) := by
  apply BitVec.eq_of_toNat_eq
  simp [BitVec.toNat_add, BitVec.toNat_mul, Nat.add_mod, Nat.mul_mod]

/-- `get_hex`'s loop over hex digits followed by a stop character or the end -/
theorem getHexLoop_digits (ds : List HexDig) (rest : CStr) (a s : Nat)
    (hrest : rest = [] ∨ ∃ c t, rest = c :: t ∧ (c = ' ' ∨ c = '-' ∨ c = 'h')) :
    getHexLoop (ds.map HexDig.char ++ rest) (BitVec.ofNat 32 a) s =
      some (BitVec.ofNat 32 ((ds.map (·.val.val)).foldl (fun acc d => acc * 16 + d) a), s + ds.length, rest) := by
  induction ds generalizing a s with
  | nil =>
    rcases hrest with h | ⟨c, t, h, hc⟩
    · subst h; simp [getHexLoop]
    · subst h; simp [getHexLoop, hc]
  | cons d ds ih =>
    obtain ⟨h1, h2, h3, _⟩ := hexChar_ne' d
    have := ih (a * 16 + d.val.val) (s + 1)
    simp only [List.map_cons, List.cons_append, getHexLoop, h1, h2, h3, or_self, if_false, hexDigit_char' d,
      List.foldl_cons, List.length_cons]
    have e : BitVec.ofNat 32 a * 16 + BitVec.ofNat 32 d.val.val = BitVec.ofNat 32 (a * 16 + d.val.val) :=
      ofNat_step a d.val.val 16
    rw [e, this]
    have hl : s + 1 + ds.length = s + (ds.length + 1) := by omega
    rw [hl]

/-- `get_num`'s decimal loop over digits followed by a blank, a dash or the end -/
theorem getDecLoop_digits (ds : List (Fin 10)) (rest : CStr) (a : Nat)
    (hrest : rest = [] ∨ ∃ c t, rest = c :: t ∧ (c = ' ' ∨ c = '-')) :
    getDecLoop (ds.map decChar ++ rest) (BitVec.ofNat 32 a) =
      some (BitVec.ofNat 32 ((ds.map (·.val)).foldl (fun acc d => acc * 10 + d) a), rest) := by
  induction ds generalizing a with
  | nil =>
    rcases hrest with h | ⟨c, t, h, hc⟩
    · subst h; simp [getDecLoop]
    · subst h
      rcases hc with hc | hc
      · subst hc; simp [getDecLoop, decDigit]
      · subst hc; simp [getDecLoop]
  | cons d ds ih =>
    obtain ⟨_, h2, _, _⟩ := decChar_ne d
    have := ih (a * 10 + d.val)
    simp only [List.map_cons, List.cons_append, getDecLoop, h2, if_false, decDigit_char d, List.foldl_cons]
    have e : BitVec.ofNat 32 a * 10 + BitVec.ofNat 32 d.val = BitVec.ofNat 32 (a * 10 + d.val) :=
      ofNat_step a d.val 10
    rw [e, this]

/-! ### the last character of the number -/

theorem lastOfWord_cons_cons (x d : Char) (t : CStr) (hd : d ≠ ' ') :
    lastOfWord (x :: d :: t) = lastOfWord (d :: t) := by
  rw [lastOfWord]
  simp only [hd, if_false]

theorem lastOfWord_end (c : Char) (rest : CStr) (hrest : Sep rest) : lastOfWord (c :: rest) = some c := by
  rcases hrest with h | ⟨t, h⟩ <;> subst h <;> simp [lastOfWord]

theorem lastOfWord_append (w : CStr) (c : Char) (rest : CStr) (hw : ∀ x ∈ w, x ≠ ' ') (hc : c ≠ ' ')
    (hrest : Sep rest) : lastOfWord (w ++ c :: rest) = some c := by
  induction w with
  | nil => exact lastOfWord_end c rest hrest
  | cons x w ih =>
    have hx : ∀ y ∈ w, y ≠ ' ' := fun y hy => hw y (List.mem_cons_of_mem _ hy)
    have ih := ih hx
    cases w with
    | nil =>
      simp only [List.cons_append, List.nil_append] at ih ⊢
      rw [lastOfWord_cons_cons x c rest hc]; exact ih
    | cons y w =>
      have hy : y ≠ ' ' := hw y (by simp)
      simp only [List.cons_append] at ih ⊢
      rw [lastOfWord_cons_cons x y _ hy]; exact ih

/-! ### `get_hex` and `get_num` on numerals -/

theorem getHex_digits (ds : List HexDig) (hne : ds ≠ []) (rest : CStr) (hrest : Sep rest) :
    getHex (ds.map HexDig.char ++ rest) =
      .ok (BitVec.ofNat 32 (positional 16 (ds.map (·.val.val)))) (rest.drop 1) := by
  have hl := getHexLoop_digits ds rest 0 0 (by
    rcases hrest with h | ⟨t, h⟩
    · exact Or.inl h
    · exact Or.inr ⟨' ', t, h, Or.inl rfl⟩)
  have h0 : (0 : BitVec 32) = BitVec.ofNat 32 0 := rfl
  have hlen : 0 + ds.length ≠ 0 := by
    cases ds with
    | nil => exact absurd rfl hne
    | cons _ _ => simp
  unfold getHex
  rw [h0, hl]
  simp only [hlen, if_false, positional]
  rcases hrest with h | ⟨t, h⟩ <;> subst h <;> simp

theorem getHex_digits_h (ds : List HexDig) (hne : ds ≠ []) (rest : CStr) :
    getHex (ds.map HexDig.char ++ 'h' :: rest) =
      .ok (BitVec.ofNat 32 (positional 16 (ds.map (·.val.val)))) rest := by
  have hl := getHexLoop_digits ds ('h' :: rest) 0 0 (Or.inr ⟨'h', rest, rfl, Or.inr (Or.inr rfl)⟩)
  have h0 : (0 : BitVec 32) = BitVec.ofNat 32 0 := rfl
  have hlen : 0 + ds.length ≠ 0 := by
    cases ds with
    | nil => exact absurd rfl hne
    | cons _ _ => simp
  unfold getHex
  rw [h0, hl]
  simp [positional, hne]

theorem neg_value (p : Nat) : BitVec.ofNat 32 p * (-1) = BitVec.ofInt 32 (-(p : Int)) := by
  rw [BitVec.ofInt_neg, BitVec.ofInt_natCast]
  bv_decide

theorem mem_map_decChar_ne (ds : List (Fin 10)) : ∀ x ∈ ds.map decChar, x ≠ ' ' := by
  intro x hx
  obtain ⟨d, _, rfl⟩ := List.mem_map.mp hx
  exact (decChar_ne d).1

theorem mem_map_hexChar_ne (ds : List HexDig) : ∀ x ∈ ds.map HexDig.char, x ≠ ' ' := by
  intro x hx
  obtain ⟨d, _, rfl⟩ := List.mem_map.mp hx
  exact (hexChar_ne' d).1

/-- a decimal numeral of any length, after any number of blanks -/
theorem getNum_dec (k : Nat) (ds : List (Fin 10)) (hne : ds ≠ []) (rest : CStr) (hrest : Sep rest) :
    getNum (List.replicate k ' ' ++ ((Numeral.dec ds).text ++ rest)) =
      .ok (Numeral.dec ds).value32 rest := by
  have hsplit : ds = ds.dropLast ++ [ds.getLast hne] := (List.dropLast_concat_getLast hne).symm
  generalize ds.getLast hne = l at hsplit
  generalize ds.dropLast = ini at hsplit
  have hlast : lastOfWord (ds.map decChar ++ rest) = some (decChar l) := by
    rw [hsplit, List.map_append, List.append_assoc]
    exact lastOfWord_append _ _ _ (mem_map_decChar_ne ini) (decChar_ne l).1 hrest
  have hdec := getDecLoop_digits ds rest 0 (by
    rcases hrest with h | ⟨t, h⟩
    · exact Or.inl h
    · exact Or.inr ⟨' ', t, h, Or.inl rfl⟩)
  cases ds with
  | nil => exact absurd rfl hne
  | cons d ds' =>
    obtain ⟨n1, n2, n3, n4⟩ := decChar_ne d
    have hx : (ds'.map decChar ++ rest).head? ≠ some 'x' := by
      cases ds' with
      | nil => rcases hrest with h | ⟨t, h⟩ <;> subst h <;> simp
      | cons e _ => simp [(decChar_ne e).2.2.2]
    have h0 : (0 : BitVec 32) = BitVec.ofNat 32 0 := rfl
    simp only [Numeral.text, List.map_cons, List.cons_append] at hlast hdec ⊢
    unfold getNum
    rw [skipSpaces_replicate, skipSpaces_cons_ne _ _ n1]
    have hh : decChar l ≠ 'h' := (decChar_ne l).2.2.1
    simp only [hx, and_false, if_false, hlast, Option.some.injEq, hh, n2, h0, hdec]
    simp [Numeral.value32, Numeral.value, positional, BitVec.ofInt_natCast]

/-- a negative decimal numeral -/
theorem getNum_neg (k : Nat) (ds : List (Fin 10)) (hne : ds ≠ []) (rest : CStr) (hrest : Sep rest) :
    getNum (List.replicate k ' ' ++ ((Numeral.neg ds).text ++ rest)) =
      .ok (Numeral.neg ds).value32 rest := by
  have hsplit : ds = ds.dropLast ++ [ds.getLast hne] := (List.dropLast_concat_getLast hne).symm
  generalize ds.getLast hne = l at hsplit
  generalize ds.dropLast = ini at hsplit
  have hlast : lastOfWord ('-' :: (ds.map decChar ++ rest)) = some (decChar l) := by
    rw [hsplit, List.map_append, List.append_assoc, ← List.cons_append]
    refine lastOfWord_append _ _ _ ?_ (decChar_ne l).1 hrest
    intro x hx
    rcases List.mem_cons.mp hx with h | h
    · subst h; decide
    · exact mem_map_decChar_ne ini x h
  have hdec := getDecLoop_digits ds rest 0 (by
    rcases hrest with h | ⟨t, h⟩
    · exact Or.inl h
    · exact Or.inr ⟨' ', t, h, Or.inl rfl⟩)
  have h0 : (0 : BitVec 32) = BitVec.ofNat 32 0 := rfl
  have hm : ('-' : Char) ≠ ' ' := by decide
  have hz : ('-' : Char) ≠ '0' := by decide
  simp only [Numeral.text, List.cons_append] at hlast ⊢
  unfold getNum
  rw [skipSpaces_replicate, skipSpaces_cons_ne _ _ hm]
  have hh : decChar l ≠ 'h' := (decChar_ne l).2.2.1
  simp only [hz, false_and, if_false, hlast, Option.some.injEq, hh, if_true, h0, hdec]
  simp only [Numeral.value32, Numeral.value, positional]
  exact congrArg (fun v => Parsed.ok v rest) (neg_value _)

/-- a `0x` numeral; the returned pointer is behind the blank that follows it -/
theorem getNum_hex0x (k : Nat) (ds : List HexDig) (hne : ds ≠ []) (rest : CStr) (hrest : Sep rest) :
    getNum (List.replicate k ' ' ++ ((Numeral.hex0x ds).text ++ rest)) =
      .ok (Numeral.hex0x ds).value32 (rest.drop 1) := by
  have hz : ('0' : Char) ≠ ' ' := by decide
  simp only [Numeral.text, List.cons_append]
  unfold getNum
  rw [skipSpaces_replicate, skipSpaces_cons_ne _ _ hz]
  simp only [List.head?_cons, and_self, if_true, List.drop_succ_cons, List.drop_zero]
  rw [getHex_digits ds hne rest hrest]
  simp [Numeral.value32, Numeral.value, BitVec.ofInt_natCast]

/-- a `…h` numeral -/
theorem getNum_hexh (k : Nat) (ds : List HexDig) (hne : ds ≠ []) (rest : CStr) (hrest : Sep rest) :
    getNum (List.replicate k ' ' ++ ((Numeral.hexh ds).text ++ rest)) =
      .ok (Numeral.hexh ds).value32 rest := by
  have hlast : lastOfWord (ds.map HexDig.char ++ 'h' :: rest) = some 'h' :=
    lastOfWord_append _ _ _ (mem_map_hexChar_ne ds) (by decide) hrest
  have hhex := getHex_digits_h ds hne rest
  cases ds with
  | nil => exact absurd rfl hne
  | cons d ds' =>
    obtain ⟨n1, n2, n3, n4⟩ := hexChar_ne' d
    have hx : (ds'.map HexDig.char ++ 'h' :: rest).head? ≠ some 'x' := by
      cases ds' with
      | nil => simp
      | cons e _ => simp [(hexChar_ne' e).2.2.2]
    simp only [Numeral.text, List.map_cons, List.cons_append, List.append_assoc, List.nil_append] at hlast hhex ⊢
    unfold getNum
    rw [skipSpaces_replicate, skipSpaces_cons_ne _ _ n1]
    simp only [hx, and_false, if_false, hlast, if_true, hhex]
    simp [Numeral.value32, Numeral.value, BitVec.ofInt_natCast]

/-- all four spellings in one statement -/
theorem getNum_numeral (k : Nat) (n : Numeral) (hwf : n.wellFormed) (rest : CStr) (hrest : Sep rest) :
    getNum (List.replicate k ' ' ++ (n.text ++ rest)) =
      .ok n.value32 (if n.swallowsBlank then rest.drop 1 else rest) := by
  cases n with
  | dec ds => exact getNum_dec k ds hwf rest hrest
  | neg ds => exact getNum_neg k ds hwf rest hrest
  | hex0x ds => exact getNum_hex0x k ds hwf rest hrest
  | hexh ds => exact getNum_hexh k ds hwf rest hrest

/-! ### junk is rejected -/

theorem getDecLoop_junk (ds : List (Fin 10)) (c : Char) (tail : CStr) (a : BitVec 32)
    (hc : decDigit c = none) (h1 : c ≠ ' ') (h2 : c ≠ '-') :
    getDecLoop (ds.map decChar ++ c :: tail) a = none := by
  induction ds generalizing a with
  | nil => simp [getDecLoop, hc, h1, h2]
  | cons d ds ih =>
    simp only [List.map_cons, List.cons_append, getDecLoop, (decChar_ne d).2.1, if_false, decDigit_char d]
    exact ih _

theorem getHexLoop_junk (ds : List HexDig) (c : Char) (tail : CStr) (a : BitVec 32) (s : Nat)
    (hc : hexDigit c = none) (h1 : c ≠ ' ') (h2 : c ≠ '-') (h3 : c ≠ 'h') :
    getHexLoop (ds.map HexDig.char ++ c :: tail) a s = none := by
  induction ds generalizing a s with
  | nil => simp [getHexLoop, hc, h1, h2, h3]
  | cons d ds ih =>
    obtain ⟨n1, n2, n3, _⟩ := hexChar_ne' d
    simp only [List.map_cons, List.cons_append, getHexLoop, n1, n2, n3, or_self, if_false, hexDigit_char' d]
    exact ih _ _

/-- decimal digits followed by a character that is neither a digit nor a separator: "Illegal number"
(unless the word as a whole is of the `…h` form or starts with `0x`) -/
theorem getNum_dec_junk (ds : List (Fin 10)) (hne : ds ≠ []) (c : Char) (tail : CStr)
    (hc : decDigit c = none) (h1 : c ≠ ' ') (h2 : c ≠ '-')
    (hh : lastOfWord (ds.map decChar ++ c :: tail) ≠ some 'h') (hx : c ≠ 'x') :
    getNum (ds.map decChar ++ c :: tail) = .illegal := by
  have hj := getDecLoop_junk ds c tail 0 hc h1 h2
  cases ds with
  | nil => exact absurd rfl hne
  | cons d ds' =>
    obtain ⟨n1, n2, n3, n4⟩ := decChar_ne d
    have hx' : (ds'.map decChar ++ c :: tail).head? ≠ some 'x' := by
      cases ds' with
      | nil => simp [hx]
      | cons e _ => simp [(decChar_ne e).2.2.2]
    simp only [List.map_cons, List.cons_append] at hh hj ⊢
    unfold getNum
    rw [skipSpaces_cons_ne _ _ n1]
    simp only [hx', and_false, if_false, hh, n2, hj]

/-- `0x`, hex digits, then a character that is neither a hex digit nor a separator: "Illegal number" -/
theorem getNum_hex_junk (ds : List HexDig) (c : Char) (tail : CStr)
    (hc : hexDigit c = none) (h1 : c ≠ ' ') (h2 : c ≠ '-') (h3 : c ≠ 'h') :
    getNum ('0' :: 'x' :: (ds.map HexDig.char ++ c :: tail)) = .illegal := by
  have hz : ('0' : Char) ≠ ' ' := by decide
  unfold getNum
  rw [skipSpaces_cons_ne _ _ hz]
  simp only [List.head?_cons, and_self, if_true, List.drop_succ_cons, List.drop_zero]
  unfold getHex
  rw [getHexLoop_junk ds c tail 0 0 hc h1 h2 h3]

end NakenVerif.Util
