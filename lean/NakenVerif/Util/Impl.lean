/-
Implementation model of the memory commands of naken_util: core/UtilContext.cpp
(`get_num`, `get_hex`, `get_token`, `get_address`, `get_range`, `print8/16/32`, `write8/16/32`,
`disasm(token)`, `disasm(start, end)`), the copy loop and the `org` bookkeeping of `assemble_code` in
main/naken_util.cpp, `read_bin` (fileio/read_bin.cpp, what `-bin -address` does) and the line splitting of the
command loop of `main()`.  The code modelled is the tree WITH the `fix:` commits C19-1 … C19-9 and C17's
`get_hex` / `print16` / `print32` / `disasm` commits.

Representation.
* A C string is the `List Char` of the characters before its terminating NUL; a `const char *` into it is the
  suffix it points to; `nullptr` is a separate outcome (`Parsed.eol` / `Parsed.illegal`, the latter when
  "Illegal number" was printed).
* `uint32_t` / `int` values are `BitVec 32`; `bytes_per_address` and `alignment` are the C `int`s of UtilContext
  (1, 2, 4, 8 resp. 1, 2, 4 in cpu_list; the arithmetic below is the C arithmetic for any value).
* The symbol table is the function `lookup` (name ↦ address, as `Symbols::lookup` answers).
* What a command prints is a list of `Event`s: the addresses and values of the transcript, in order.  The ASCII
  column of `print*` and the fixed words of the messages are not part of it.
* `Memory` is the paged image of `NakenVerif.Memory.Impl`.
* A C loop that would not terminate is the outcome `hang` (`writeLoop`): `write_never_hangs` (Props/C19) shows
  that it is unreachable.
-/
import NakenVerif.Memory.Impl
import Std.Tactic.BVDecide

namespace NakenVerif.Util
open NakenVerif.Memory

abbrev CStr := List Char

/-- `while (*token == ' ' && *token != 0) { token++; }` -/
def skipSpaces : CStr → CStr
  | [] => []
  | c :: t => if c = ' ' then skipSpaces t else c :: t

/-- the three digit branches of `get_hex` -/
def hexDigit (c : Char) : Option (BitVec 32) :=
  if '0'.toNat ≤ c.toNat ∧ c.toNat ≤ '9'.toNat then some (BitVec.ofNat 32 (c.toNat - '0'.toNat))
  else if 'a'.toNat ≤ c.toNat ∧ c.toNat ≤ 'f'.toNat then some (BitVec.ofNat 32 (c.toNat - 'a'.toNat + 10))
  else if 'A'.toNat ≤ c.toNat ∧ c.toNat ≤ 'F'.toNat then some (BitVec.ofNat 32 (c.toNat - 'A'.toNat + 10))
  else none

/-- `token[s] >= '0' && token[s] <= '9'` of `get_num` -/
def decDigit (c : Char) : Option (BitVec 32) :=
  if '0'.toNat ≤ c.toNat ∧ c.toNat ≤ '9'.toNat then some (BitVec.ofNat 32 (c.toNat - '0'.toNat)) else none

/-- result of `get_num` / `get_hex` / `get_address` -/
inductive Parsed where
  /-- `*num = v`, returned pointer = `rest` -/
  | ok (v : BitVec 32) (rest : CStr)
  /-- `nullptr`, nothing printed (end of the line) -/
  | eol
  /-- `nullptr` after "Illegal number" -/
  | illegal
  deriving Repr, DecidableEq

/-- the `while` loop of `get_hex`: `n` accumulated in `uint32_t`, `s` = number of characters consumed.
`none` = "Illegal number". -/
def getHexLoop : CStr → BitVec 32 → Nat → Option (BitVec 32 × Nat × CStr)
  | [], n, s => some (n, s, [])
  | c :: t, n, s =>
    if c = ' ' ∨ c = '-' ∨ c = 'h' then some (n, s, c :: t)
    else match hexDigit c with
      | some d => getHexLoop t (n * 16 + d) (s + 1)
      | none => none

/-- `UtilContext::get_hex` -/
def getHex (token : CStr) : Parsed :=
  match getHexLoop token 0 0 with
  | none => .illegal
  | some (n, s, rest) =>
    if s = 0 then .illegal                       -- a hex number needs at least one digit
    else match rest with
      | [] => .ok n []
      | c :: t => if c = '-' then .ok n (c :: t) else .ok n t     -- `if (token[s] != '-' && token[s] != 0) s++;`

/-- the decimal `while` loop of `get_num` (`token[s] != 0 && token[s] != '-'`, break at a blank) -/
def getDecLoop : CStr → BitVec 32 → Option (BitVec 32 × CStr)
  | [], n => some (n, [])
  | c :: t, n =>
    if c = '-' then some (n, c :: t)
    else match decDigit c with
      | some d => getDecLoop t (n * 10 + d)
      | none => if c = ' ' then some (n, c :: t) else none

/-- last character of the number that starts here: `token[s-1]` with `s` = index of the first blank or the end -/
def lastOfWord : CStr → Option Char
  | [] => none
  | c :: t =>
    match t with
    | [] => some c
    | d :: _ => if d = ' ' then some c else lastOfWord t

/-- `UtilContext::get_num` -/
def getNum (token : CStr) : Parsed :=
  let token := skipSpaces token
  match token with
  | [] => .eol
  | c0 :: t0 =>
    if c0 = '0' ∧ t0.head? = some 'x' then getHex (t0.drop 1)
    else if lastOfWord token = some 'h' then getHex token
    else
      let (body, neg) := if c0 = '-' then (t0, true) else (token, false)
      match getDecLoop body 0 with
      | none => .illegal
      | some (n, rest) => .ok (if neg then n * (-1) else n) rest

/-- `UtilContext::get_token`; `none` = `nullptr` (no characters left).  Returns (value, rest). -/
def getTokenLoop : CStr → CStr → CStr × CStr
  | [], acc => (acc, [])
  | c :: t, acc =>
    if c = ' ' then (acc, c :: t)
    else if c = '-' ∧ acc ≠ [] then (acc, c :: t)
    else if c = '-' then (acc ++ [c], t)          -- `if (value.char_at(-1) == '-') break;`
    else getTokenLoop t (acc ++ [c])

def getToken (source : CStr) : Option (CStr × CStr) :=
  let (v, rest) := getTokenLoop (skipSpaces source) []
  if v = [] then none else some (v, rest)

/-- the part of UtilContext the memory commands use -/
structure Ctx where
  mem : Memory
  /-- `int bytes_per_address` -/
  bpa : BitVec 32
  /-- `int alignment` -/
  alignment : BitVec 32
  /-- `symbols.lookup(name, &address) == 0 ? address : not found` -/
  lookup : CStr → Option (BitVec 32)

/-- the first word: `while (*end != ' ' && *end != 0) { name.append(*end); end++; }` -/
def splitWord : CStr → CStr × CStr
  | [] => ([], [])
  | c :: t => if c = ' ' then ([], c :: t) else let (w, r) := splitWord t; (c :: w, r)

/-- `UtilContext::get_address` -/
def getAddress (cx : Ctx) (token : CStr) : Parsed :=
  let token := skipSpaces token
  let (name, rest) := splitWord token
  match cx.lookup name with
  | some a => .ok (a * cx.bpa) rest
  | none =>
    match getNum token with
    | .ok v rest => .ok (v * cx.bpa) rest
    | r => r

/-- `UtilContext::get_range(const char *, uint32_t *start, uint32_t *end)`;
`none` = -1, the flag tells whether "Illegal number" was printed on the way. -/
def getRange (cx : Ctx) (text : CStr) : Option (BitVec 32 × BitVec 32) × Bool :=
  match getToken text with
  | none => (none, false)
  | some (data, text) =>
    -- first token: an address, or "-"
    let first : Option (BitVec 32 × Option (CStr × CStr)) × Bool :=
      if data ≠ ['-'] then
        match getAddress cx data with
        | .ok start _ => (some (start, getToken text), false)
        | .illegal => (none, true)
        | .eol => (none, false)
      else (some (0, some (data, text)), false)
    match first with
    | (none, ill) => (none, ill)
    | (some (start, none), _) => (some (start, start), false)          -- no more tokens: end = start
    | (some (start, some (data, text)), _) =>
      if data ≠ ['-'] then (none, false)
      else match getToken text with
        | none => (some (start, cx.mem.highAddress), false)             -- "a-": end of the image
        | some (data, text) =>
          match getAddress cx data with
          | .ok e _ => if (getToken text).isSome then (none, false) else (some (start, e), false)
          | .illegal => (none, true)
          | .eol => (none, false)

/-- what the transcript of a command consists of -/
inductive Event where
  /-- "Illegal number '…'" -/
  | illegal
  /-- "Syntax error: bad address" -/
  | badAddress
  /-- "Error: writeNN address is not NN bit aligned" / "Address range … must start on a N byte boundary." -/
  | unaligned
  /-- "Wrote <count> … starting at address 0x<addr>" -/
  | wrote (count : Nat) (addr : BitVec 32)
  /-- "0x<addr>:" at the start of a row of `print*` -/
  | row (addr : BitVec 32)
  /-- one value of `print*` (" %02x" / " %04x" / " %08x") -/
  | val (v : BitVec 32)
  /-- `disasm_range(&memory, flags, start, end)` was called with these byte addresses -/
  | disasmRange (start end_ : BitVec 32)
  /-- "Internal Error" of Memory::get_page_address_min/max -/
  | internalError
  /-- "Assembling to 0x<org>" -/
  | assembling (org : BitVec 32)
  /-- a loop of the C code that never ends -/
  | hang
  deriving Repr, DecidableEq

/-- width of the three write / print commands -/
inductive Width where
  | w8 | w16 | w32
  deriving Repr, DecidableEq

def Width.bytes : Width → BitVec 32
  | .w8 => 1
  | .w16 => 2
  | .w32 => 4

/-- `memory.write8(address, num)` / `write16` / `write32` with the C conversion of `uint32_t num` -/
def storeVal (w : Width) (m : Memory) (a : BitVec 32) (num : BitVec 32) : Memory :=
  match w with
  | .w8 => Memory.write8 m a (num.setWidth 8)
  | .w16 => Memory.write16 m a (num.setWidth 16)
  | .w32 => Memory.write32 m a num

/-- `memory.read8/16/32(start)` widened to the printed value -/
def loadVal (w : Width) (m : Memory) (a : BitVec 32) : BitVec 32 :=
  match w with
  | .w8 => (Memory.read8 m a).setWidth 32
  | .w16 => (Memory.read16 m a).setWidth 32
  | .w32 => Memory.read32 m a

/-- the `while (true)` loop of `write8/16/32`: numbers until `get_num` answers `nullptr`.
Returns the memory, the count, whether "Illegal number" ended the loop, and whether the loop hangs (a number that
consumed no character: cannot happen, `getNum_consumes`). -/
def writeLoop (w : Width) (m : Memory) (address : BitVec 32) (count : Nat) (token : CStr) :
    Memory × Nat × Bool × Bool :=
  match h : getNum token with
  | .eol => (m, count, false, false)
  | .illegal => (m, count, true, false)
  | .ok num rest =>
    if hlt : rest.length < token.length then
      writeLoop w (storeVal w m address num) (address + w.bytes) (count + 1) rest
    else (m, count, false, true)
termination_by token.length

/-- the alignment tests: `(address & ((alignment - 1) & 1)) != 0` for 16 bit,
`(address & ((alignment - 1) & 3)) != 0` for 32 bit (fix C19-9), none for 8 bit -/
def misaligned (w : Width) (alignment address : BitVec 32) : Bool :=
  match w with
  | .w8 => false
  | .w16 => address &&& ((alignment - 1) &&& 1) ≠ 0
  | .w32 => address &&& ((alignment - 1) &&& 3) ≠ 0

/-- `UtilContext::write8 / write16 / write32` -/
def cmdWrite (w : Width) (cx : Ctx) (token : CStr) : Ctx × List Event :=
  match getAddress cx token with
  | .eol => (cx, [.badAddress])
  | .illegal => (cx, [.illegal, .badAddress])
  | .ok address rest =>
    if misaligned w cx.alignment address then (cx, [.unaligned])
    else
      let (m, count, ill, hang) := writeLoop w cx.mem address 0 rest
      if hang then ({ cx with mem := m }, [.hang])
      else ({ cx with mem := m }, (if ill then [.illegal] else []) ++ [.wrote count (address / cx.bpa)])

/-- the adjustment of `end` after `get_range` in `print8/16/32` (fix C19-7): without an end 128 bytes, with an
end the loop bound is one past the last byte of the end address — except that 0xffffffff stays the bound -/
def printBound (bpa start end_ : BitVec 32) : BitVec 32 :=
  if start ≥ end_ then start + 128
  else
    let e := (end_ / bpa) * bpa + (bpa - 1)
    if e ≠ 0xffffffff then e + 1 else e

/-- the `while (start < end)` loop of `print8/16/32`: a row label whenever `ptr` reaches a multiple of the row
size, then the value; `ptr` counts 1 per byte (print8) resp. 2 per value (print16, print32).
print16/print32 leave the loop instead of wrapping around (`if (end - start <= 2/4) break;`). -/
def printLoop (w : Width) (m : Memory) (bpa : BitVec 32) (start end_ : BitVec 32) (ptr : Nat) : List Event :=
  if h : start < end_ then
    let rowMask := match w with | .w8 => 16 | .w16 => 16 | .w32 => 8
    let label := if ptr % rowMask = 0 then [Event.row (start / bpa)] else []
    let ptr := if ptr % rowMask = 0 then 0 else ptr
    let ptr' := match w with | .w8 => ptr + 1 | _ => ptr + 2
    let v := Event.val (loadVal w m start)
    if w ≠ .w8 ∧ end_ - start ≤ w.bytes then label ++ [v]
    else label ++ v :: printLoop w m bpa (start + w.bytes) end_ ptr'
  else []
termination_by (end_ - start).toNat
decreasing_by
  all_goals
    simp only [BitVec.lt_def, BitVec.le_def, Width.bytes] at *
    cases w <;> simp_all <;> omega

/-- `UtilContext::print8 / print16 / print32` -/
def cmdPrint (w : Width) (cx : Ctx) (token : CStr) : List Event :=
  match getRange cx token with
  | (none, ill) => if ill then [.illegal] else []
  | (some (start, end_), _) =>
    let end_ := printBound cx.bpa start end_
    if misaligned w cx.alignment start then [.unaligned]
    else printLoop w cx.mem cx.bpa start end_ 0

/-- `UtilContext::disasm(const char *token)` -/
def cmdDisasm (cx : Ctx) (token : CStr) : List Event :=
  match getRange cx token with
  | (none, ill) => if ill then [.illegal] else []
  | (some (start, end_), _) => [.disasmRange start end_]

/-- `Memory::in_use` -/
def inUse (m : Memory) (a : BitVec 32) : Bool := (findPage a m.pages).isSome

/-- `Memory::get_page_address_min`; `none` = internal error (returns 0) -/
def pageAddressMin (m : Memory) (a : BitVec 32) : Option (BitVec 32) :=
  (findPage a m.pages).map fun p => p.address + p.offsetMin

/-- `Memory::get_page_address_max` -/
def pageAddressMax (m : Memory) (a : BitVec 32) : Option (BitVec 32) :=
  (findPage a m.pages).map fun p => p.address + p.offsetMax

/-- the two look-ups and the call of `disasm_range` in `UtilContext::disasm(start, end)` -/
def flushRun (m : Memory) (currStart currEnd : BitVec 32) : List Event :=
  let lo := pageAddressMin m currStart
  let hi := pageAddressMax m currEnd
  (if lo.isNone then [Event.internalError] else []) ++ (if hi.isNone then [Event.internalError] else []) ++
    [.disasmRange (lo.getD 0) (hi.getD 0)]

/-- one step of the page walk moves forward unless it wraps -/
theorem walk_step_lt (n : BitVec 32) (hw : ¬ n + (pageSize32 - (n &&& (pageSize32 - 1))) < n) :
    n < n + (pageSize32 - (n &&& (pageSize32 - 1))) := by
  have hp : pageSize32 = 65536#32 := rfl
  simp only [hp] at hw ⊢
  bv_decide

/-- the page walk of `UtilContext::disasm(uint32_t start, uint32_t end)` -/
def disasmWalk (m : Memory) (end_ : BitVec 32) (n currStart currEnd : BitVec 32) (valid : Bool) : List Event :=
  if h : n ≤ end_ then
    let pageMask : BitVec 32 := pageSize32 - 1
    let dataSize := pageSize32 - (n &&& pageMask)
    let used := inUse m n
    let currStart' := if used ∧ ¬ valid then n &&& ~~~pageMask else currStart
    let currEnd' := if used then n ||| pageMask else currEnd
    let out := if ¬ used ∧ valid then flushRun m currStart currEnd else []
    let valid' := if used then true else false
    if hw : n + dataSize < n then
      out ++ (if valid' then flushRun m currStart' currEnd' else [])
    else out ++ disasmWalk m end_ (n + dataSize) currStart' currEnd' valid'
  else (if valid then flushRun m currStart currEnd else [])
termination_by (4294967296 - n.toNat)
decreasing_by
  have hlt : n < n + (pageSize32 - (n &&& (pageSize32 - 1))) := walk_step_lt n hw
  have h2 := (n + (pageSize32 - (n &&& (pageSize32 - 1)))).isLt
  simp only [BitVec.lt_def] at hlt
  omega

/-- `UtilContext::disasm(uint32_t start, uint32_t end)` as called for `disasm` without an argument:
`start = low_address`, `end = high_address` (the caller skips it when `low_address == 0xffffffff`) -/
def cmdDisasmAll (cx : Ctx) : List Event :=
  if cx.mem.lowAddress = 0xffffffff then []
  else
    let start := cx.mem.lowAddress
    let pageMask : BitVec 32 := pageSize32 - 1
    disasmWalk cx.mem cx.mem.highAddress start start (start ||| pageMask) true

/-- the copy loop of `assemble_code`:
`for (address = low; address <= high; address++) util.memory.write8(address, asm.memory.read8(address))`.
`fuel` bounds the model's recursion only (`high - low + 1` iterations are needed; with `high = 0xffffffff` the
C loop itself never ends — C16/C17 — and the model stops after the iteration at `high`). -/
def copyLoop (src : Memory) (dst : Memory) (address high : BitVec 32) : Nat → Memory
  | 0 => dst
  | fuel + 1 =>
    if address ≤ high then
      copyLoop src (Memory.write8 dst address (Memory.read8 src address)) (address + 1) high fuel
    else dst

/-- the end of `assemble_code` after a successful assembly into `src` (the assembler's image):
copy, then `org` for the next block (fix C19-6) -/
def afterAssemble (cx : Ctx) (src : Memory) (asmBpa : BitVec 32) (org : BitVec 32) : Ctx × BitVec 32 :=
  let dst := copyLoop src cx.mem src.lowAddress src.highAddress
    (src.highAddress.toNat - src.lowAddress.toNat + 1)
  let org' := if src.lowAddress ≤ src.highAddress then (src.highAddress + 1) / asmBpa else org
  ({ cx with mem := dst }, org')

/-- `read_bin`: the bytes of the file from `start_address` on (a BYTE address: `-address` is not scaled) -/
def loadBin (m : Memory) (start : BitVec 32) : List (BitVec 8) → Memory
  | [] => m
  | b :: bs => loadBin (Memory.write8 m start b) (start + 1) bs

/-- `read_bin` sets low/high itself afterwards -/
def readBin (m : Memory) (start : BitVec 32) (bytes : List (BitVec 8)) : Memory :=
  let m' := loadBin m start bytes
  { m' with lowAddress := start, highAddress := start + BitVec.ofNat 32 bytes.length - 1 }

/-! ### the command loop of `main()` -/

/-- `String::is_whitespace` -/
def isWhitespace (c : Char) : Bool := c = '\r' ∨ c = '\n' ∨ c = '\t' ∨ c = ' '

/-- `String::ltrim` -/
def ltrim : CStr → CStr
  | [] => []
  | c :: t => if isWhitespace c then ltrim t else c :: t

/-- `String::rtrim` -/
def rtrim (s : CStr) : CStr := (ltrim s.reverse).reverse

/-- `String::trim` -/
def trim (s : CStr) : CStr := rtrim (ltrim s)

/-- `command.find(' ')`, `arg = command.value() + space; arg.trim(); command.replace_at(space, 0); command.rtrim()` -/
def splitCommand (line : CStr) : CStr × CStr :=
  let line := trim line
  let (cmd, rest) := splitWord line
  match rest with
  | [] => (line, [])
  | _ => (cmd, trim rest)     -- (`command.rtrim()` works on the old length and changes nothing)

end NakenVerif.Util
