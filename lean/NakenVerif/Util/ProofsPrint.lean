/-
The loop of `print8/16/32` prints the listing of the specification: for every range `start ≤ end` the values at
`start, start + n, …` below `end` in order (`⌈(end - start) / n⌉` of them, never wrapping around), a row label
every 16 bytes, each label the byte address divided by bytes_per_address.
-/
import NakenVerif.Util.Impl
import NakenVerif.Util.Spec

namespace NakenVerif.Util
open NakenVerif.Memory NakenVerif.Util.Spec

/-- the constant in `(ptr & 0x0f) == 0` / `(ptr & 0x07) == 0` -/
def rowMask : Width → Nat
  | .w8 => 16
  | .w16 => 16
  | .w32 => 8

/-- what `ptr` grows by per value -/
def ptrInc : Width → Nat
  | .w8 => 1
  | _ => 2

theorem bytes_eq_nbytes' (w : Width) : w.bytes = BitVec.ofNat 32 (nbytes w) := by
  cases w <;> rfl

/-- the label the loop prints in front of a value -/
def labelOf (w : Width) (bpa s : BitVec 32) (ptr : Nat) : List Event :=
  if ptr % rowMask w = 0 then [Event.row (s / bpa)] else []

/-- `ptr` after a value -/
def ptrNext (w : Width) (ptr : Nat) : Nat := (if ptr % rowMask w = 0 then 0 else ptr) + ptrInc w

theorem printLoop_stop (w : Width) (m : Memory) (bpa s e : BitVec 32) (ptr : Nat) (h : ¬ s < e) :
    printLoop w m bpa s e ptr = [] := by
  unfold printLoop; simp [h]

theorem printLoop_last (w : Width) (m : Memory) (bpa s e : BitVec 32) (ptr : Nat) (h : s < e)
    (hw : w ≠ .w8) (hb : e - s ≤ w.bytes) :
    printLoop w m bpa s e ptr = labelOf w bpa s ptr ++ [Event.val (loadVal w m s)] := by
  unfold printLoop
  cases w with
  | w8 => exact absurd rfl hw
  | w16 => simp only [h, dite_true, labelOf, rowMask]; rw [if_pos ⟨hw, hb⟩]; rfl
  | w32 => simp only [h, dite_true, labelOf, rowMask]; rw [if_pos ⟨hw, hb⟩]; rfl

theorem printLoop_step (w : Width) (m : Memory) (bpa s e : BitVec 32) (ptr : Nat) (h : s < e)
    (hb : ¬ (w ≠ .w8 ∧ e - s ≤ w.bytes)) :
    printLoop w m bpa s e ptr =
      labelOf w bpa s ptr ++ Event.val (loadVal w m s) :: printLoop w m bpa (s + w.bytes) e (ptrNext w ptr) := by
  conv => lhs; unfold printLoop
  cases w with
  | w8 => simp only [h, dite_true, labelOf, rowMask, ptrNext, ptrInc]; rw [if_neg hb]; rfl
  | w16 => simp only [h, dite_true, labelOf, rowMask, ptrNext, ptrInc]; rw [if_neg hb]; rfl
  | w32 => simp only [h, dite_true, labelOf, rowMask, ptrNext, ptrInc]; rw [if_neg hb]; rfl

theorem nbytes_pos (w : Width) : 1 ≤ nbytes w ∧ nbytes w ≤ 4 := by cases w <;> simp [nbytes]

theorem bytes_toNat (w : Width) : w.bytes.toNat = nbytes w := by cases w <;> rfl

/-- label condition: `ptr` and the index of the value agree on where rows start -/
theorem label_iff (w : Width) (ptr k : Nat) (h : ptr % rowMask w = (k * ptrInc w) % rowMask w) :
    ptr % rowMask w = 0 ↔ k % perRow w = 0 := by
  cases w <;> simp only [rowMask, ptrInc, perRow] at * <;> omega

theorem ptrNext_inv (w : Width) (ptr k : Nat) (h : ptr % rowMask w = (k * ptrInc w) % rowMask w) :
    ptrNext w ptr % rowMask w = ((k + 1) * ptrInc w) % rowMask w := by
  unfold ptrNext
  by_cases hp : ptr % rowMask w = 0
  · rw [if_pos hp]; cases w <;> simp only [rowMask, ptrInc] at * <;> omega
  · rw [if_neg hp]; cases w <;> simp only [rowMask, ptrInc] at * <;> omega

theorem printLoop_listing (w : Width) (m : Memory) (bpa : BitVec 32) :
    ∀ (d : Nat) (s e : BitVec 32) (ptr k : Nat), e.toNat - s.toNat = d → s ≤ e →
      ptr % rowMask w = (k * ptrInc w) % rowMask w →
      printLoop w m bpa s e ptr = listing w m bpa s ((d + nbytes w - 1) / nbytes w) k := by
  intro d
  induction d using Nat.strongRecOn with
  | _ d ih =>
    intro s e ptr k hd hle hptr
    have hs := s.isLt
    have he := e.isLt
    have ⟨hn1, hn4⟩ := nbytes_pos w
    simp only [BitVec.le_def] at hle
    have hlabel : labelOf w bpa s ptr = if k % perRow w = 0 then [Event.row (s / bpa)] else [] := by
      simp only [labelOf, label_iff w ptr k hptr]
    by_cases hlt : s < e
    · have hlt' : s.toNat < e.toNat := by simpa [BitVec.lt_def] using hlt
      have hsub : (e - s).toNat = e.toNat - s.toNat := by
        simp only [BitVec.toNat_sub]; omega
      by_cases hb : w ≠ .w8 ∧ e - s ≤ w.bytes
      · -- the last value of print16 / print32
        have hbn : e.toNat - s.toNat ≤ nbytes w := by
          have := hb.2
          simp only [BitVec.le_def, hsub, bytes_toNat] at this
          exact this
        have hc : (d + nbytes w - 1) / nbytes w = 1 := by
          have h1 : nbytes w ≤ d + nbytes w - 1 := by omega
          have h2 : d + nbytes w - 1 < 2 * nbytes w := by omega
          exact Nat.div_eq_of_lt_le (by omega) (by omega)
        rw [printLoop_last w m bpa s e ptr hlt hb.1 hb.2, hc, listing, listing, hlabel]
      · -- one value, then the rest
        have hdn : nbytes w ≤ d := by
          by_cases h8 : w = .w8
          · subst h8; simp only [nbytes]; omega
          · have : ¬ e - s ≤ w.bytes := fun h => hb ⟨h8, h⟩
            simp only [BitVec.le_def, hsub, bytes_toNat] at this
            omega
        have hst : (s + w.bytes).toNat = s.toNat + nbytes w := by
          simp only [BitVec.toNat_add, bytes_toNat]; omega
        have hcnt : (d + nbytes w - 1) / nbytes w = (d - nbytes w + nbytes w - 1) / nbytes w + 1 := by
          have : d + nbytes w - 1 = (d - nbytes w + nbytes w - 1) + nbytes w := by omega
          rw [this, Nat.add_div_right _ (by omega)]
        rw [printLoop_step w m bpa s e ptr hlt hb, hcnt, listing, hlabel]
        rw [ih (d - nbytes w) (by omega) (s + w.bytes) e (ptrNext w ptr) (k + 1) (by omega)
          (by simp only [BitVec.le_def]; omega) (ptrNext_inv w ptr k hptr)]
        rw [bytes_eq_nbytes']
    · have : ¬ s.toNat < e.toNat := by simpa [BitVec.lt_def] using hlt
      have hd0 : d = 0 := by omega
      subst hd0
      have hc : (0 + nbytes w - 1) / nbytes w = 0 := by cases w <;> simp [nbytes]
      rw [printLoop_stop w m bpa s e ptr hlt, hc, listing]

end NakenVerif.Util
