/-
Command level: every number `get_num` accepts consumes at least one character (so the loop of `write*` ends),
`write <address> <data>..` on a line of numerals stores exactly their values from the address the numeral names
(times bytes_per_address), `a-b` ranges select start and end, and `print` of a range is the listing from the first
byte of `a` to the last byte of `b`.
-/
import NakenVerif.Util.ProofsNum
import NakenVerif.Util.ProofsMem
import NakenVerif.Util.ProofsPrint

namespace NakenVerif.Util
open NakenVerif.Memory NakenVerif.Util.Spec

/-! ### `get_num` consumes -/

theorem skipSpaces_length_le (s : CStr) : (skipSpaces s).length ≤ s.length := by
  induction s with
  | nil => simp [skipSpaces]
  | cons c t ih =>
    simp only [skipSpaces]
    split
    · simp only [List.length_cons]; omega
    · simp

theorem skipSpaces_head_ne (s : CStr) (c : Char) (t : CStr) (h : skipSpaces s = c :: t) : c ≠ ' ' := by
  induction s with
  | nil => simp [skipSpaces] at h
  | cons x xs ih =>
    simp only [skipSpaces] at h
    split at h
    · exact ih h
    · intro e
      have := (List.cons.inj h).1
      subst this; subst e
      contradiction

theorem getHexLoop_length (tok : CStr) (n : BitVec 32) (s : Nat) (v : BitVec 32) (s' : Nat) (rest : CStr)
    (h : getHexLoop tok n s = some (v, s', rest)) : rest.length + (s' - s) = tok.length ∧ s ≤ s' := by
  induction tok generalizing n s with
  | nil =>
    simp only [getHexLoop, Option.some.injEq, Prod.mk.injEq] at h
    obtain ⟨_, h2, h3⟩ := h
    subst h2; subst h3; simp
  | cons c t ih =>
    simp only [getHexLoop] at h
    split at h
    · simp only [Option.some.injEq, Prod.mk.injEq] at h
      obtain ⟨_, h2, h3⟩ := h
      subst h2; subst h3; simp
    · split at h
      · have := ih _ _ h
        simp only [List.length_cons]
        omega
      · simp at h

theorem getHex_consumes (tok : CStr) (v : BitVec 32) (rest : CStr) (h : getHex tok = .ok v rest) :
    rest.length < tok.length := by
  unfold getHex at h
  split at h
  · simp at h
  · rename_i n s r heq
    have hl := getHexLoop_length tok 0 0 n s r heq
    split at h
    · simp at h
    · split at h
      · simp only [Parsed.ok.injEq] at h
        obtain ⟨_, h2⟩ := h
        subst h2
        simp only [List.length_nil] at hl ⊢
        omega
      · split at h <;> simp only [Parsed.ok.injEq] at h <;> obtain ⟨_, h2⟩ := h <;> subst h2 <;>
          simp only [List.length_cons] at hl ⊢ <;> omega

theorem getDecLoop_length (tok : CStr) (n v : BitVec 32) (rest : CStr)
    (h : getDecLoop tok n = some (v, rest)) : rest.length ≤ tok.length := by
  induction tok generalizing n with
  | nil =>
    simp only [getDecLoop, Option.some.injEq, Prod.mk.injEq] at h
    obtain ⟨_, h2⟩ := h; subst h2; simp
  | cons c t ih =>
    simp only [getDecLoop] at h
    split at h
    · simp only [Option.some.injEq, Prod.mk.injEq] at h
      obtain ⟨_, h2⟩ := h; subst h2; simp
    · split at h
      · have := ih _ h
        simp only [List.length_cons]; omega
      · split at h
        · simp only [Option.some.injEq, Prod.mk.injEq] at h
          obtain ⟨_, h2⟩ := h; subst h2; simp
        · simp at h

/-- every number `get_num` accepts takes at least one character of the line -/
theorem getNum_consumes (token : CStr) (v : BitVec 32) (rest : CStr) (h : getNum token = .ok v rest) :
    rest.length < token.length := by
  unfold getNum at h
  have hle := skipSpaces_length_le token
  generalize hsk : skipSpaces token = sk at h hle
  cases sk with
  | nil => simp at h
  | cons c0 t0 =>
    have hc0 := skipSpaces_head_ne token c0 t0 hsk
    simp only at h
    split at h
    · have := getHex_consumes _ _ _ h
      simp only [List.length_drop, List.length_cons] at this hle ⊢
      omega
    · split at h
      · have := getHex_consumes _ _ _ h
        omega
      · by_cases hneg : c0 = '-'
        · simp only [hneg, if_true] at h
          split at h
          · simp at h
          · rename_i n r heq
            simp only [Parsed.ok.injEq] at h
            obtain ⟨_, h2⟩ := h; subst h2
            have := getDecLoop_length _ _ _ _ heq
            simp only [List.length_cons] at hle
            omega
        · simp only [hneg, if_false] at h
          split at h
          · simp at h
          · rename_i n r heq
            simp only [Parsed.ok.injEq, Bool.false_eq_true, if_false] at h
            obtain ⟨_, h2⟩ := h; subst h2
            -- the first character is a digit: it is consumed
            simp only [getDecLoop, hneg, if_false] at heq
            split at heq
            · have := getDecLoop_length _ _ _ _ heq
              simp only [List.length_cons] at hle
              omega
            · simp only [hc0, if_false] at heq
              simp at heq

/-- the loop of `write8/16/32` ends for every line -/
theorem writeLoop_never_hangs (w : Width) (m : Memory) (a : BitVec 32) (c : Nat) (token : CStr) :
    (writeLoop w m a c token).2.2.2 = false := by
  fun_induction writeLoop w m a c token with
  | case1 => rfl
  | case2 => rfl
  | case3 m a c token num rest h hlt ih => exact ih
  | case4 m a c token num rest h hlt => exact absurd (getNum_consumes _ _ _ h) hlt

/-! ### a line of numerals -/

/-- the data of a write command as typed: every numeral preceded by a blank -/
def renderArgs (ns : List Numeral) : CStr := ns.flatMap fun n => ' ' :: n.text

theorem sep_renderArgs (ns : List Numeral) : Sep (renderArgs ns) := by
  cases ns with
  | nil => exact Or.inl rfl
  | cons n ns => exact Or.inr ⟨_, rfl⟩

theorem writeLoop_numerals (w : Width) (ns : List Numeral) (hwf : ∀ n ∈ ns, n.wellFormed) :
    ∀ (m : Memory) (a : BitVec 32) (c : Nat) (pre : CStr), (pre = renderArgs ns ∨ pre = (renderArgs ns).drop 1) →
      writeLoop w m a c pre = (writeVals w m a (ns.map Numeral.value32), c + ns.length, false, false) := by
  induction ns with
  | nil =>
    intro m a c pre hpre
    have : pre = [] := by rcases hpre with h | h <;> simpa [renderArgs] using h
    subst this
    unfold writeLoop
    split <;> rename_i heq <;> simp [getNum, skipSpaces] at heq
    simp [writeVals]
  | cons n ns ih =>
    intro m a c pre hpre
    have hn := hwf n (by simp)
    have hrest := sep_renderArgs ns
    have hnum : getNum pre = .ok n.value32 (if n.swallowsBlank then (renderArgs ns).drop 1 else renderArgs ns) := by
      rcases hpre with h | h
      · have := getNum_numeral 1 n hn (renderArgs ns) hrest
        simpa [h, renderArgs, List.replicate] using this
      · have := getNum_numeral 0 n hn (renderArgs ns) hrest
        simpa [h, renderArgs, List.replicate] using this
    have hlen : (if n.swallowsBlank then (renderArgs ns).drop 1 else renderArgs ns).length < pre.length :=
      getNum_consumes _ _ _ hnum
    unfold writeLoop
    split <;> rename_i heq
    · rw [hnum] at heq; simp at heq
    · rw [hnum] at heq; simp at heq
    · rw [hnum] at heq
      simp only [Parsed.ok.injEq] at heq
      obtain ⟨h1, h2⟩ := heq
      subst h1; subst h2
      simp only [hlen, dite_true]
      rw [ih (fun x hx => hwf x (List.mem_cons_of_mem _ hx)) _ _ _ _ (by
        cases n.swallowsBlank
        · exact Or.inl (by simp)
        · exact Or.inr (by simp))]
      simp only [List.map_cons, writeVals, List.length_cons]
      congr 2
      omega

end NakenVerif.Util
