/-
Whole commands and the other users of the shared image: `write … ` on a typed line, `print a-b`, the bound of the
print loop, the simulator's fetch, the copy loop of `asm`, `read_bin`.
-/
import NakenVerif.Util.ProofsRange
import NakenVerif.Util.Session

namespace NakenVerif.Util
open NakenVerif.Memory NakenVerif.Util.Spec

theorem read8_init (x : BitVec 32) : read8 Memory.init x = 0 := rfl

/-! ### write commands on a typed line -/

theorem cmdWrite_at (w : Width) (cx : Ctx) (line : CStr) (A : BitVec 32) (ns : List Numeral)
    (hwf : ∀ n ∈ ns, n.wellFormed) (pre : CStr) (hpre : pre = renderArgs ns ∨ pre = (renderArgs ns).drop 1)
    (haddr : getAddress cx line = .ok A pre) (hal : misaligned w cx.alignment A = false) :
    cmdWrite w cx line =
      ({ cx with mem := writeVals w cx.mem A (ns.map Numeral.value32) }, [.wrote ns.length (A / cx.bpa)]) := by
  unfold cmdWrite
  simp only [haddr, hal, Bool.false_eq_true, if_false]
  rw [writeLoop_numerals w ns hwf cx.mem A 0 pre hpre]
  simp

/-- `write <number> <data>..` -/
theorem cmdWrite_numerals (w : Width) (cx : Ctx) (a : Numeral) (ha : a.wellFormed) (ns : List Numeral)
    (hwf : ∀ n ∈ ns, n.wellFormed) (hsym : cx.lookup a.text = none)
    (hal : misaligned w cx.alignment (a.value32 * cx.bpa) = false) :
    cmdWrite w cx (a.text ++ renderArgs ns) =
      ({ cx with mem := writeVals w cx.mem (a.value32 * cx.bpa) (ns.map Numeral.value32) },
       [.wrote ns.length (a.value32 * cx.bpa / cx.bpa)]) := by
  apply cmdWrite_at w cx _ _ ns hwf _ _ (getAddress_numeral cx a ha _ (sep_renderArgs ns) hsym) hal
  cases a.swallowsBlank
  · exact Or.inl (by simp)
  · exact Or.inr (by simp)

/-- `write <symbol> <data>..` -/
theorem cmdWrite_symbol (w : Width) (cx : Ctx) (name : CStr) (hne : name ≠ []) (hname : ∀ c ∈ name, c ≠ ' ')
    (v : BitVec 32) (hsym : cx.lookup name = some v) (ns : List Numeral) (hwf : ∀ n ∈ ns, n.wellFormed)
    (hal : misaligned w cx.alignment (v * cx.bpa) = false) :
    cmdWrite w cx (name ++ renderArgs ns) =
      ({ cx with mem := writeVals w cx.mem (v * cx.bpa) (ns.map Numeral.value32) },
       [.wrote ns.length (v * cx.bpa / cx.bpa)]) :=
  cmdWrite_at w cx _ _ ns hwf _ (Or.inl rfl)
    (getAddress_symbol cx name hne hname _ (sep_renderArgs ns) v hsym) hal

/-! ### print / disasm of a range -/

theorem cmdPrint_pair (w : Width) (cx : Ctx) (w1 w2 : CStr) (hw1 : IsWord w1) (hw2 : IsWord w2) (A B : BitVec 32)
    (r1 r2 : CStr) (h1 : getAddress cx w1 = .ok A r1) (h2 : getAddress cx w2 = .ok B r2) :
    cmdPrint w cx (w1 ++ '-' :: w2) =
      if misaligned w cx.alignment A then [.unaligned]
      else printLoop w cx.mem cx.bpa A (printBound cx.bpa A B) 0 := by
  unfold cmdPrint
  rw [getRange_pair cx w1 w2 hw1 hw2 A B r1 r2 h1 h2]

theorem cmdDisasm_pair (cx : Ctx) (w1 w2 : CStr) (hw1 : IsWord w1) (hw2 : IsWord w2) (A B : BitVec 32)
    (r1 r2 : CStr) (h1 : getAddress cx w1 = .ok A r1) (h2 : getAddress cx w2 = .ok B r2) :
    cmdDisasm cx (w1 ++ '-' :: w2) = [.disasmRange A B] := by
  unfold cmdDisasm
  rw [getRange_pair cx w1 w2 hw1 hw2 A B r1 r2 h1 h2]

/-- with an end address the loop bound is the first byte behind the end address -/
theorem printBound_range (bpa A B : BitVec 32) (hlt : A < B) (hbpa : 0 < bpa.toNat)
    (hmul : B.toNat % bpa.toNat = 0) (hfit : B.toNat + bpa.toNat < 4294967296) :
    printBound bpa A B = B + bpa := by
  have hnot : ¬ A ≥ B := by
    simp only [ge_iff_le, BitVec.le_def, BitVec.lt_def] at *; omega
  have hdm : B.toNat / bpa.toNat * bpa.toNat = B.toNat := Nat.div_mul_cancel (Nat.dvd_of_mod_eq_zero hmul)
  have hB := B.isLt
  have hb := bpa.isLt
  have e1 : (B / bpa * bpa).toNat = B.toNat := by
    simp only [BitVec.toNat_mul, BitVec.toNat_udiv, hdm]; omega
  have e2 : (B / bpa * bpa + (bpa - 1)).toNat = B.toNat + bpa.toNat - 1 := by
    simp only [BitVec.toNat_add, e1, BitVec.toNat_sub]
    simp; omega
  have hne : B / bpa * bpa + (bpa - 1) ≠ (0xffffffff : BitVec 32) := by
    intro e
    have := congrArg BitVec.toNat e
    rw [e2] at this
    simp at this; omega
  unfold printBound
  rw [if_neg hnot]
  show (if B / bpa * bpa + (bpa - 1) ≠ (0xffffffff : BitVec 32) then B / bpa * bpa + (bpa - 1) + 1
    else B / bpa * bpa + (bpa - 1)) = B + bpa
  rw [if_pos hne]
  apply BitVec.eq_of_toNat_eq
  rw [BitVec.toNat_add, e2, BitVec.toNat_add]
  simp; omega

/-- without an end (or with an end that is not above the start) 128 bytes are listed -/
theorem printBound_default (bpa A B : BitVec 32) (h : A ≥ B) : printBound bpa A B = A + 128 := by
  unfold printBound; simp [h]

/-! ### pointwise round trip -/

theorem loadVal_writeVals (w : Width) (vs : List (BitVec 32)) :
    ∀ (m : Memory) (a : BitVec 32) (k : Nat) (hk : k < vs.length),
      a.toNat + nbytes w * vs.length ≤ 4294967296 →
      loadVal w (writeVals w m a vs) (a + BitVec.ofNat 32 (k * nbytes w)) = datum w vs[k] := by
  induction vs with
  | nil => intro m a k hk; simp at hk
  | cons v vs ih =>
    intro m a k hk hfit
    simp only [List.length_cons, Nat.mul_succ] at hfit hk
    have hnb := nbytes_pos w
    have ha := a.isLt
    cases k with
    | zero =>
      simp only [Nat.zero_mul, writeVals, List.getElem_cons_zero]
      have x0 : a + BitVec.ofNat 32 0 = a := by simp
      rw [x0, ← loadVal_storeVal w m a v]
      apply loadVal_congr
      · simp
      · intro i hi
        apply read8_writeVals_frame
        intro j hj e
        have := congrArg BitVec.toNat e
        rw [bytes_eq_nbytes] at this
        simp only [BitVec.toNat_add, BitVec.toNat_ofNat] at this
        omega
    | succ k =>
      simp only [writeVals, List.getElem_cons_succ]
      have e : a + BitVec.ofNat 32 ((k + 1) * nbytes w) = a + w.bytes + BitVec.ofNat 32 (k * nbytes w) := by
        rw [bytes_eq_nbytes]
        apply BitVec.eq_of_toNat_eq
        simp only [BitVec.toNat_add, BitVec.toNat_ofNat, Nat.succ_mul]
        omega
      rw [e]
      apply ih
      rw [bytes_eq_nbytes]
      simp only [BitVec.toNat_add, BitVec.toNat_ofNat]
      have : 0 < vs.length := by omega
      have : nbytes w ≤ nbytes w * vs.length := Nat.le_mul_of_pos_right _ this
      omega

/-! ### the simulator reads the shared image -/

/-- `Memory::read16` through the simulator's view, on a little endian CPU -/
theorem sim_read16_view (m : Memory) (hle : m.bigEndian = false) (x : BitVec 32) :
    Msp430.Sim.read16 (simView m) x = Memory.read16 m x := by
  simp [Msp430.Sim.read16, simView, Memory.read16, hle]

/-- what `SimulateMsp430::run` fetches at PC after `write16` stored data there -/
theorem sim_fetch_writeVals (m : Memory) (hle : m.bigEndian = false) (A : BitVec 32) (vs : List (BitVec 32))
    (k : Nat) (hk : k < vs.length) (hfit : A.toNat + 2 * vs.length ≤ 4294967296)
    (s : Msp430.Sim.SimState) (hmem : s.mem = simView (writeVals .w16 m A vs))
    (hpc : (Msp430.Sim.getReg s.regs 0).zeroExtend 32 = A + BitVec.ofNat 32 (k * 2)) :
    Msp430.Sim.fetch s = (vs[k]).setWidth 16 := by
  have h := loadVal_writeVals .w16 vs m A k hk (by simpa [nbytes] using hfit)
  simp only [nbytes, loadVal, datum] at h
  unfold Msp430.Sim.fetch
  rw [hmem, hpc, sim_read16_view _ (by simp [hle])]
  generalize Memory.read16 (writeVals Width.w16 m A vs) (A + BitVec.ofNat 32 (k * 2)) = r at h ⊢
  generalize vs[k] = v at h ⊢
  bv_decide

/-! ### the copy loop of `asm` -/

theorem copyLoop_spec (src : Memory) (high x : BitVec 32) :
    ∀ (n : Nat) (a : BitVec 32) (dst : Memory), a ≤ high → high.toNat - a.toNat = n →
      read8 (copyLoop src dst a high (n + 1)) x =
        if a ≤ x ∧ x ≤ high then read8 src x else read8 dst x := by
  intro n
  induction n with
  | zero =>
    intro a dst hle hn
    have hah : a = high := by
      apply BitVec.eq_of_toNat_eq
      simp only [BitVec.le_def] at hle; omega
    subst hah
    simp only [copyLoop, hle, if_true, read8_write8]
    by_cases hx : x = a
    · subst hx; simp
    · have : ¬ (a ≤ x ∧ x ≤ a) := by
        intro ⟨h1, h2⟩
        apply hx
        apply BitVec.eq_of_toNat_eq
        simp only [BitVec.le_def] at h1 h2; omega
      simp [hx, this]
  | succ n ih =>
    intro a dst hle hn
    simp only [BitVec.le_def] at hle
    have hh := high.isLt
    have ha1 : (a + 1).toNat = a.toNat + 1 := by
      simp only [BitVec.toNat_add]; simp; omega
    rw [copyLoop]
    simp only [BitVec.le_def, hle, if_true]
    rw [ih (a + 1) _ (by simp only [BitVec.le_def]; omega) (by omega), read8_write8]
    simp only [BitVec.le_def, ha1]
    by_cases hx : x = a
    · subst hx
      have : ¬ (x.toNat + 1 ≤ x.toNat ∧ x.toNat ≤ high.toNat) := by omega
      simp [this, hle]
    · have hxn : x.toNat ≠ a.toNat := fun e => hx (BitVec.eq_of_toNat_eq e)
      simp only [hx, if_false]
      by_cases hin : a.toNat + 1 ≤ x.toNat ∧ x.toNat ≤ high.toNat
      · have : a.toNat ≤ x.toNat ∧ x.toNat ≤ high.toNat := by omega
        simp [hin, this]
      · have : ¬ (a.toNat ≤ x.toNat ∧ x.toNat ≤ high.toNat) := by omega
        simp [hin, this]

/-- after `asm`: inside `low..high` of the assembled image the shared image holds the assembler's bytes, every
other address keeps its byte -/
theorem afterAssemble_spec (cx : Ctx) (src : Memory) (asmBpa org x : BitVec 32)
    (hle : src.lowAddress ≤ src.highAddress) :
    read8 (afterAssemble cx src asmBpa org).1.mem x =
      if src.lowAddress ≤ x ∧ x ≤ src.highAddress then read8 src x else read8 cx.mem x := by
  unfold afterAssemble
  exact copyLoop_spec src src.highAddress x _ src.lowAddress cx.mem hle rfl

/-! ### `read_bin` -/

/-- `-bin -address a`: byte `i` of the file is at BYTE address `a + i` -/
theorem readBin_places (m : Memory) (a : BitVec 32) (bs : List (BitVec 8)) (i : Nat) (hi : i < bs.length)
    (hfit : bs.length ≤ 4294967296) : read8 (readBin m a bs) (a + BitVec.ofNat 32 i) = bs[i] := by
  have : read8 (readBin m a bs) (a + BitVec.ofNat 32 i) = read8 (loadBin m a bs) (a + BitVec.ofNat 32 i) := rfl
  rw [this, read8_loadBin_at m a bs i hi hfit]

end NakenVerif.Util
