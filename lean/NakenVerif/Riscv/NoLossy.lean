/-
  The assembler model never emits the one word whose printed form is lossy (0x0000000f, FENCE with empty sets),
  so for emitted words the structured fixpoint of C01 (i) is exact.
-/
import NakenVerif.Riscv.RoundTrip
set_option linter.unusedSimpArgs false
set_option linter.unusedVariables false
namespace NakenVerif.Riscv
open NakenVerif.Generated.Riscv Arch Asm Spec

/-- whatever the table loop returns comes from one row named like the statement -/
theorem encodeRows_ok_row {ctx : Ctx} {s : Stmt} {w : BitVec 32} :
    ∀ (rows : List Row) (b : Bool), encodeRows ctx s rows b = .ok w →
      ∃ r ∈ rows, (r.instr == s.mnemonic) = true ∧ rowAction ctx r s = .done (.ok w) := by
  intro rows
  induction rows with
  | nil => intro b h; simp [encodeRows] at h
  | cons r rest ih =>
    intro b h
    rw [encodeRows] at h
    split at h
    · obtain ⟨r', hm, h1, h2⟩ := ih _ h
      exact ⟨r', List.mem_cons_of_mem _ hm, h1, h2⟩
    · rename_i hname
      have hname' : (r.instr == s.mnemonic) = true := by simpa [bne] using hname
      split at h
      · cases h
      · split at h
        · obtain ⟨r', hm, h1, h2⟩ := ih _ h
          exact ⟨r', List.mem_cons_of_mem _ hm, h1, h2⟩
        · split at h
          · rename_i res hres
            subst h
            exact ⟨r, List.mem_cons_self, hname', hres⟩
          · obtain ⟨r', hm, h1, h2⟩ := ih _ h
            exact ⟨r', List.mem_cons_of_mem _ hm, h1, h2⟩

/-- every operand field is placed above bit 6: the low seven bits of an emitted word are the row's -/
theorem rowAction_low7 {ctx : Ctx} {r : Row} {s : Stmt} {w : BitVec 32}
    (h : rowAction ctx r s = .done (.ok w)) : w &&& 0x7f = r.opcode &&& 0x7f := by
  unfold rowAction at h
  simp only at h
  repeat' split at h
  all_goals (first
    | (cases h; done)
    | (injection h with h; injection h with h; subst h
       try simp only [x32, permBranch, permJal]
       try (first | rfl | bv_decide)))

/-- rows whose major opcode is MISC-MEM and that are not `fence.i`-like are the two `fence` rows -/
theorem table_low7_fence : ∀ r ∈ table, modelled r.type = true → r.opcode &&& 0x7f = 0x0f →
    r.opcode &&& 0x7000 = 0 → (r.instr == "fence") = true := by decide +kernel

theorem rowAction_keeps_funct3_zero {ctx : Ctx} {r : Row} {s : Stmt}
    (h : rowAction ctx r s = .done (.ok 0x0000000f#32)) : r.opcode &&& 0x7000 = 0 ∧ r.opcode &&& 0x7f = 0x0f := by
  have h7 := rowAction_low7 h
  refine ⟨?_, by rw [← h7]; decide⟩
  unfold rowAction at h
  simp only at h
  repeat' split at h
  all_goals (first
    | (cases h; done)
    | (injection h with h; injection h with h
       try simp only [x32, permBranch, permJal] at h
       first | (subst h; decide) | bv_decide))

/-- **the assembler model never emits 0x0000000f** -/
theorem encode_ne_lossy (ctx : Ctx) (s : Stmt) : Asm.encode ctx s ≠ .ok 0x0000000f#32 := by
  intro h
  have h0 := h
  unfold Asm.encode at h
  split at h
  · cases h
  split at h
  · cases h
  obtain ⟨r, hmem, hname, hact⟩ := encodeRows_ok_row _ _ h
  have hmod : modelled r.type = true := by
    cases hm : modelled r.type
    · unfold rowAction at hact
      cases ht : r.type <;> simp [ht, modelled] at hm <;> simp [ht] at hact
    · rfl
  obtain ⟨hf3, h7⟩ := rowAction_keeps_funct3_zero hact
  have hfence := table_low7_fence r hmem hmod h7 hf3
  have hmn : s.mnemonic = "fence" := by
    have := (beq_iff_eq.mp hname).symm.trans (beq_iff_eq.mp hfence)
    exact this
  -- the statement is `fence` with no operands (both fence rows reject operands)
  have hops : s.operands = [] := by
    rcases table_fence_rows r hmem hfence with e | e <;> subst e <;>
      (unfold rowAction at hact; simp only [fenceNone, fenceFlags] at hact
       by_cases hl : s.operands.length = 0
       · exact List.length_eq_zero_iff.mp hl
       · simp [hl] at hact)
  have hs : s = ⟨"fence", [], s.fence⟩ := by cases s; simp_all
  rw [hs, fence_encode] at h0
  injection h0 with h0
  split at h0
  · exact absurd h0 (by decide)
  · rename_i hne
    have : s.fence = 0 := by
      have hx : (0x0000000f#32 ||| BitVec.zeroExtend 32 s.fence <<< 20) = 0x0000000f#32 := h0
      bv_decide
    exact hne this

/-- **C01 (i) on the structured level, exact**: for an accepted statement, re-assembling the decoder's reading of
    the emitted word (when the assembler accepts it) gives the same word. -/
theorem rv32i_fixpoint_exact (ctx : Ctx) (s s' : Stmt) (w w' : BitVec 32) (h : Asm.encode ctx s = .ok w)
    (hs : Disasm.toStmt w = some s') (he : Asm.encode ctx s' = .ok w') : w' = w := by
  rcases rv32i_fixpoint_structured ctx s s' w w' h hs he with e | ⟨e1, _⟩
  · exact e
  · subst e1; exact absurd h (encode_ne_lossy ctx s)

end NakenVerif.Riscv
