/-
  RV32I part of properties C01, C06, C07, C08 (imported by NakenVerif/Props/C01.lean … C08.lean).
-/
import NakenVerif.Riscv.Arch
import NakenVerif.Riscv.Asm
import NakenVerif.Riscv.Disasm
import NakenVerif.Riscv.Spec
import NakenVerif.Riscv.Proofs
import NakenVerif.Common.Walk
set_option linter.unusedSimpArgs false
set_option linter.unusedVariables false
namespace NakenVerif.Riscv
open NakenVerif.Generated.Riscv Arch Asm Spec

/-! ## table obligations (re-proved against the regenerated table on every run) -/

/-- (row type, opcode) of the rows the assembler loop can visit for a mnemonic, in table order -/
def rowSig (m : String) : List (OpType × BitVec 32) := (rowsFor m).map (fun r => (r.type, r.opcode))

/-- what the ISA manual makes us expect there: the row type that takes the mnemonic's operand shape and, as
    opcode, the architecture's encoding of the instruction with all operand fields zero -/
def expectedRows : Kind → List (OpType × BitVec 32)
  | .r o => [(.OP_R_TYPE, Arch.encode (.op o 0 0 0))]
  | .i o => [(.OP_I_TYPE, Arch.encode (.opImm o 0 0 0))]
  | .sh o => [(.OP_SHIFT, Arch.encode (.shiftImm o 0 0 0))]
  | .ld o => [(.OP_RD_INDEX_R, Arch.encode (.load o 0 0 0))]
  | .st o => [(.OP_RS_INDEX_R, Arch.encode (.store o 0 0 0))]
  | .br o => [(.OP_SB_TYPE, Arch.encode (.branch o 0 0 0))]
  | .lui => [(.OP_U_TYPE, Arch.encode (.lui 0 0))]
  | .auipc => [(.OP_U_TYPE, Arch.encode (.auipc 0 0))]
  | .jal => [(.OP_ALIAS_JAL, Arch.encode (.jal 1 0)), (.OP_UJ_TYPE, Arch.encode (.jal 0 0))]
  | .jalr => [(.OP_ALIAS_JALR, Arch.encode (.jalr 1 0 0)), (.OP_I_TYPE, Arch.encode (.jalr 0 0 0))]
  | .ecall => [(.OP_FFFF, Arch.encode .ecall)]
  | .ebreak => [(.OP_FFFF, Arch.encode .ebreak)]
  | .nop => [(.OP_NONE, Arch.encode (.opImm .addi 0 0 0))]
  | .ret => [(.OP_NONE, Arch.encode (.jalr 0 1 0))]
  | .mv => [(.OP_ALIAS_RD_RS1, Arch.encode (.opImm .addi 0 0 0))]
  | .not => [(.OP_ALIAS_RD_RS1, Arch.encode (.opImm .xori 0 0 0xfff))]
  | .seqz => [(.OP_ALIAS_RD_RS1, Arch.encode (.opImm .sltiu 0 0 1))]
  | .sltz => [(.OP_ALIAS_RD_RS1, Arch.encode (.op .slt 0 0 0))]
  | .neg => [(.OP_ALIAS_RD_RS2, Arch.encode (.op .sub 0 0 0))]
  | .snez => [(.OP_ALIAS_RD_RS2, Arch.encode (.op .sltu 0 0 0))]
  | .sgtz => [(.OP_ALIAS_RD_RS2, Arch.encode (.op .slt 0 0 0))]
  | .brz o false => [(.OP_ALIAS_BR_RS_X0, Arch.encode (.branch o 0 0 0))]
  | .brz o true => [(.OP_ALIAS_BR_X0_RS, Arch.encode (.branch o 0 0 0))]
  | .brSwap o => [(.OP_ALIAS_BR_RS_RT, Arch.encode (.branch o 0 0 0))]
  | .j => [(.OP_ALIAS_JAL, Arch.encode (.jal 0 0))]
  | .jr => [(.OP_ALIAS_JALR, Arch.encode (.jalr 0 0 0))]

/-- **Table obligation.**  For every RV32I mnemonic (and single-instruction pseudo-instruction) the rows of
    `table_riscv[]` carrying that name are exactly the expected ones: right operand type, and the opcode column is
    the manual's encoding with zero operand fields. -/
theorem table_spec_rows : ∀ p ∈ specTable, rowSig p.1 = expectedRows p.2 := by decide +kernel

/-- no RV32I mnemonic is one of the three names handled before the table loop -/
theorem table_spec_names : ∀ p ∈ specTable, (p.1 == "li" || p.1 == "call" || p.1 == "tail") = false := by
  decide +kernel

/-- every row of both tables has an operand type this development knows by name -/
theorem table_rows_known :
    (∀ r ∈ table, ∀ n, r.type ≠ .OP_UNKNOWN n) ∧ (∀ r ∈ compTable, ∀ n, r.type ≠ .OP_UNKNOWN n) := by
  constructor
  · have : ∀ r ∈ table, (match r.type with | .OP_UNKNOWN _ => false | _ => true) = true := by decide +kernel
    intro r hr n hn; have := this r hr; rw [hn] at this; cases this
  · have : ∀ r ∈ compTable, (match r.type with | .OP_UNKNOWN _ => false | _ => true) = true := by decide +kernel
    intro r hr n hn; have := this r hr; rw [hn] at this; cases this

/-! ## from the table loop to one `rowAction` -/

theorem kindOf_mem {m : String} {k : Kind} (h : kindOf m = some k) : (m, k) ∈ specTable := by
  unfold kindOf at h
  obtain ⟨p, hp, rfl⟩ := Option.map_eq_some_iff.mp h
  have h1 := List.find?_some hp
  have h2 := List.mem_of_find?_eq_some hp
  have : p.1 = m := by simpa using h1
  rw [← this]; exact h2

theorem rowsFor_instr {m : String} {r : Row} (h : r ∈ rowsFor m) : (r.instr == m) = true := by
  unfold rowsFor at h
  exact (List.mem_filter.mp h).2

theorem sig1 {m : String} {T : OpType} {c : BitVec 32} (h : rowSig m = [(T, c)]) :
    ∃ r, rowsFor m = [r] ∧ r.type = T ∧ r.opcode = c ∧ (r.instr == m) = true := by
  unfold rowSig at h
  match hr : rowsFor m, h with
  | [r], h =>
    simp only [List.map_cons, List.map_nil, List.cons.injEq, Prod.mk.injEq, and_true] at h
    exact ⟨r, rfl, h.1, h.2, rowsFor_instr (by rw [hr]; exact List.mem_singleton.mpr rfl)⟩

theorem sig2 {m : String} {T1 T2 : OpType} {c1 c2 : BitVec 32} (h : rowSig m = [(T1, c1), (T2, c2)]) :
    ∃ r1 r2, rowsFor m = [r1, r2] ∧ r1.type = T1 ∧ r1.opcode = c1 ∧ (r1.instr == m) = true ∧
      r2.type = T2 ∧ r2.opcode = c2 ∧ (r2.instr == m) = true := by
  unfold rowSig at h
  match hr : rowsFor m, h with
  | [r1, r2], h =>
    simp only [List.map_cons, List.map_nil, List.cons.injEq, Prod.mk.injEq, and_true] at h
    exact ⟨r1, r2, rfl, h.1.1, h.1.2, rowsFor_instr (by rw [hr]; simp), h.2.1, h.2.2,
      rowsFor_instr (by rw [hr]; simp)⟩

/-- the statement reaches the table loop, which only sees the rows named like the statement -/
theorem encode_rows {ctx : Ctx} {s : Stmt} {w : BitVec 32} {k : Kind} (hk : kindOf s.mnemonic = some k)
    (h : Asm.encode ctx s = .ok w) : encodeRows ctx s (rowsFor s.mnemonic) false = .ok w := by
  have hn := table_spec_names _ (kindOf_mem hk)
  unfold Asm.encode at h
  simp only at hn
  rw [hn] at h
  simp only [Bool.false_eq_true, if_false] at h
  split at h
  · cases h
  · rw [encodeRows_filter] at h; exact h

/-- one candidate row -/
theorem rows1 {ctx : Ctx} {s : Stmt} {w : BitVec 32} {r : Row} (hi : (r.instr == s.mnemonic) = true)
    (hm : modelled r.type = true) (h : encodeRows ctx s [r] false = .ok w) :
    rowAction ctx r s = .done (.ok w) ∧ (s.fence = 0 ∨ r.type = .OP_FENCE) := by
  simp only [encodeRows, bne, hi, hm, Bool.not_true, Bool.false_eq_true, if_false] at h
  split at h
  · cases h
  · rename_i hf
    split at h
    · rename_i res hres
      subst h
      refine ⟨hres, ?_⟩
      by_cases h0 : s.fence = 0
      · exact Or.inl h0
      · right
        have h1 : (s.fence == 0) = false := by simpa using h0
        simp [h1] at hf
        exact hf h0
    · cases h

/-- an alias row of `jal`/`jalr` (which leaves `modifiers.rm` alone) followed by the real row -/
theorem rows2 {ctx : Ctx} {s : Stmt} {w : BitVec 32} {r1 r2 : Row} (hi1 : (r1.instr == s.mnemonic) = true)
    (hi2 : (r2.instr == s.mnemonic) = true) (ht1 : r1.type = .OP_ALIAS_JAL ∨ r1.type = .OP_ALIAS_JALR)
    (hm2 : modelled r2.type = true) (hne : r2.type ≠ .OP_FENCE)
    (h : encodeRows ctx s [r1, r2] false = .ok w) :
    rowAction ctx r1 s = .done (.ok w) ∨ (rowAction ctx r1 s = .continue_ ∧ rowAction ctx r2 s = .done (.ok w)) := by
  have hm1 : modelled r1.type = true := by rcases ht1 with h | h <;> rw [h] <;> rfl
  have hrm : (!(r1.type == .OP_ALIAS_JAL || r1.type == .OP_ALIAS_JALR)) = false := by
    rcases ht1 with h | h <;> rw [h] <;> rfl
  have hnf : (r1.type != .OP_FENCE) = true := by rcases ht1 with h | h <;> rw [h] <;> rfl
  rw [encodeRows] at h
  simp only [bne, hi1, hm1, Bool.not_true, Bool.false_eq_true, if_false, hrm] at h
  have hnf2 : (r2.type != .OP_FENCE) = true := by simpa using hne
  by_cases hf : s.fence = 0
  · have hf' : (s.fence != 0) = false := by simpa using hf
    simp only [bne] at hf'
    simp only [hf', Bool.false_and, Bool.false_eq_true, if_false] at h
    split at h
    · rename_i res hres; subst h; exact Or.inl hres
    · rename_i hc
      right
      refine ⟨hc, ?_⟩
      have := (rows1 hi2 hm2 h).1
      exact this
  · have hf' : (s.fence != 0) = true := by simpa using hf
    simp only [bne] at hf' hnf hnf2
    simp only [hf', hnf, Bool.and_self, if_true] at h
    rw [encodeRows] at h
    simp only [bne, hi2, hm2, Bool.not_true, Bool.false_eq_true, if_false, hf', hnf2, Bool.and_self, if_true] at h
    simp [encodeRows] at h

/-! ## C01 (iii): the emitted word is the encoding the ISA manual defines -/

/-- core of soundness: the word is `Arch.encode` of the statement's meaning (pure bit-vector identities per row
    type, closed by `bv_decide`; the row facts come from `table_spec_rows`) -/
theorem encode_arch {ctx : Ctx} {s : Stmt} {w : BitVec 32} {k : Kind} (hk : kindOf s.mnemonic = some k)
    (h : Asm.encode ctx s = .ok w) :
    ∃ i, meaningK ctx k s.operands = some i ∧ w = Arch.encode i ∧ fitsK ctx k s.operands = true := by
  have hrows := encode_rows hk h
  have hsig := table_spec_rows _ (kindOf_mem hk)
  simp only at hsig
  cases k with
  | r o =>
    obtain ⟨r, hr, ht, hop, hi⟩ := sig1 hsig
    rw [hr] at hrows
    obtain ⟨hact, _⟩ := rows1 hi (by rw [ht]; rfl) hrows
    obtain ⟨a, b, c, hops, hw⟩ := act_R ctx r s w ht hact
    refine ⟨.op o a b c, by rw [hops]; rfl, ?_, ?_⟩
    · rw [hw, hop]; simp only [Arch.encode, x32, offBits]; bv_decide
    · (rw [hops]; first | rfl | (simp only [fitsK, fitsImm12, fitsShamt, fitsImm20, fitsBranch, fitsJal]; bv_decide))
  | i o =>
    obtain ⟨r, hr, ht, hop, hi⟩ := sig1 hsig
    rw [hr] at hrows
    obtain ⟨hact, _⟩ := rows1 hi (by rw [ht]; rfl) hrows
    obtain ⟨a, b, v, hops, hv1, hv2, hw⟩ := act_I ctx r s w ht hact
    refine ⟨.opImm o a b (v.truncate 12), by rw [hops]; rfl, ?_, ?_⟩
    · rw [hw, hop]; simp only [Arch.encode, x32, offBits]; bv_decide
    · (rw [hops]; first | rfl | (simp only [fitsK, fitsImm12, fitsShamt, fitsImm20, fitsBranch, fitsJal]; bv_decide))
  | sh o =>
    obtain ⟨r, hr, ht, hop, hi⟩ := sig1 hsig
    rw [hr] at hrows
    obtain ⟨hact, _⟩ := rows1 hi (by rw [ht]; rfl) hrows
    obtain ⟨a, b, v, hops, hv1, hv2, hw⟩ := act_SHIFT ctx r s w ht hact
    refine ⟨.shiftImm o a b (v.truncate 5), by rw [hops]; rfl, ?_, ?_⟩
    · rw [hw, hop]; simp only [Arch.encode, x32, offBits]; bv_decide
    · (rw [hops]; first | rfl | (simp only [fitsK, fitsImm12, fitsShamt, fitsImm20, fitsBranch, fitsJal]; bv_decide))
  | ld o =>
    obtain ⟨r, hr, ht, hop, hi⟩ := sig1 hsig
    rw [hr] at hrows
    obtain ⟨hact, _⟩ := rows1 hi (by rw [ht]; rfl) hrows
    obtain ⟨rd, rs1, off, hshape, hv1, hv2, hw⟩ := act_LOAD ctx r s w ht hact
    rcases hshape with hops | ⟨o16, hops, hoff⟩
    · refine ⟨.load o rd rs1 (off.truncate 12), by rw [hops]; rfl, ?_, ?_⟩
      · rw [hw, hop]; simp only [Arch.encode, x32]; bv_decide
      · (rw [hops]; simp only [fitsK, fitsImm12]; first | bv_decide | (rw [← hoff]; bv_decide))
    · refine ⟨.load o rd rs1 (o16.truncate 12), by rw [hops]; rfl, ?_, ?_⟩
      · rw [hw, hop, hoff]; simp only [Arch.encode, x32]; bv_decide
      · (rw [hops]; simp only [fitsK, fitsImm12]; first | bv_decide | (rw [← hoff]; bv_decide))
  | st o =>
    obtain ⟨r, hr, ht, hop, hi⟩ := sig1 hsig
    rw [hr] at hrows
    obtain ⟨hact, _⟩ := rows1 hi (by rw [ht]; rfl) hrows
    obtain ⟨rs2, rs1, off, hshape, hv1, hv2, hw⟩ := act_STORE ctx r s w ht hact
    rcases hshape with hops | ⟨o16, hops, hoff⟩
    · refine ⟨.store o rs1 rs2 (off.truncate 12), by rw [hops]; rfl, ?_, ?_⟩
      · rw [hw, hop]; simp only [Arch.encode, x32]; bv_decide
      · (rw [hops]; simp only [fitsK, fitsImm12]; first | bv_decide | (rw [← hoff]; bv_decide))
    · refine ⟨.store o rs1 rs2 (o16.truncate 12), by rw [hops]; rfl, ?_, ?_⟩
      · rw [hw, hop, hoff]; simp only [Arch.encode, x32]; bv_decide
      · (rw [hops]; simp only [fitsK, fitsImm12]; first | bv_decide | (rw [← hoff]; bv_decide))
  | br o =>
    obtain ⟨r, hr, ht, hop, hi⟩ := sig1 hsig
    rw [hr] at hrows
    obtain ⟨hact, _⟩ := rows1 hi (by rw [ht]; rfl) hrows
    obtain ⟨a, b, v, o', hops, ho, hw⟩ := act_SB ctx r s w ht hact
    obtain ⟨ho1, ho2, ho3, ho4⟩ := branchOffset_some ho
    refine ⟨.branch o a b (offBits ctx v 12), by rw [hops]; rfl, ?_, ?_⟩
    · rw [hw, hop, ho1]; simp only [Arch.encode, x32, offBits, permBranch]; bv_decide
    · (rw [hops]; simp only [fitsK, fitsBranch]; rw [← ho1]; bv_decide)
  | lui =>
    obtain ⟨r, hr, ht, hop, hi⟩ := sig1 hsig
    rw [hr] at hrows
    obtain ⟨hact, _⟩ := rows1 hi (by rw [ht]; rfl) hrows
    obtain ⟨a, v, hops, hv1, hv2, hw⟩ := act_U ctx r s w ht hact
    refine ⟨.lui a (v.truncate 20), by rw [hops]; rfl, ?_, ?_⟩
    · rw [hw, hop]; simp only [Arch.encode, x32, offBits]; bv_decide
    · (rw [hops]; first | rfl | (simp only [fitsK, fitsImm12, fitsShamt, fitsImm20, fitsBranch, fitsJal]; bv_decide))
  | auipc =>
    obtain ⟨r, hr, ht, hop, hi⟩ := sig1 hsig
    rw [hr] at hrows
    obtain ⟨hact, _⟩ := rows1 hi (by rw [ht]; rfl) hrows
    obtain ⟨a, v, hops, hv1, hv2, hw⟩ := act_U ctx r s w ht hact
    refine ⟨.auipc a (v.truncate 20), by rw [hops]; rfl, ?_, ?_⟩
    · rw [hw, hop]; simp only [Arch.encode, x32, offBits]; bv_decide
    · (rw [hops]; first | rfl | (simp only [fitsK, fitsImm12, fitsShamt, fitsImm20, fitsBranch, fitsJal]; bv_decide))
  | jal =>
    obtain ⟨r1, r2, hr, ht1, hop1, hi1, ht2, hop2, hi2⟩ := sig2 hsig
    rw [hr] at hrows
    rcases rows2 hi1 hi2 (Or.inl ht1) (by rw [ht2]; rfl) (by rw [ht2]; decide) hrows with hact | ⟨_, hact⟩
    · obtain ⟨v, o', hops, ho, hw⟩ := (act_AJAL ctx r1 s w ht1).2 hact
      obtain ⟨ho1, ho2, ho3, ho4⟩ := jalOffset_some ho
      refine ⟨.jal 1 (offBits ctx v 20), by rw [hops]; rfl, ?_, ?_⟩
      · rw [hw, hop1, ho1]; simp only [Arch.encode, x32, offBits, permJal]; bv_decide
      · (rw [hops]; simp only [fitsK, fitsJal]; bv_decide)
    · obtain ⟨a, v, o', hops, ho, hw⟩ := act_UJ ctx r2 s w ht2 hact
      obtain ⟨ho1, ho2, ho3, ho4⟩ := jalOffset_some ho
      refine ⟨.jal a (offBits ctx v 20), by rw [hops]; rfl, ?_, ?_⟩
      · rw [hw, hop2, ho1]; simp only [Arch.encode, x32, offBits, permJal]; bv_decide
      · (rw [hops]; simp only [fitsK, fitsJal]; bv_decide)
  | jalr =>
    obtain ⟨r1, r2, hr, ht1, hop1, hi1, ht2, hop2, hi2⟩ := sig2 hsig
    rw [hr] at hrows
    rcases rows2 hi1 hi2 (Or.inr ht1) (by rw [ht2]; rfl) (by rw [ht2]; decide) hrows with hact | ⟨_, hact⟩
    · obtain ⟨a, hops, hw⟩ := (act_AJALR ctx r1 s w ht1).2 hact
      refine ⟨.jalr 1 a 0, by rw [hops]; rfl, ?_, ?_⟩
      · rw [hw, hop1]; simp only [Arch.encode, x32]; bv_decide
      · (rw [hops]; first | rfl | (simp only [fitsK, fitsImm12, fitsShamt, fitsImm20, fitsBranch, fitsJal]; bv_decide))
    · obtain ⟨a, b, v, hops, hv1, hv2, hw⟩ := act_I ctx r2 s w ht2 hact
      refine ⟨.jalr a b (v.truncate 12), by rw [hops]; rfl, ?_, ?_⟩
      · rw [hw, hop2]; simp only [Arch.encode, x32]; bv_decide
      · (rw [hops]; first | rfl | (simp only [fitsK, fitsImm12, fitsShamt, fitsImm20, fitsBranch, fitsJal]; bv_decide))
  | ecall =>
    obtain ⟨r, hr, ht, hop, hi⟩ := sig1 hsig
    rw [hr] at hrows
    obtain ⟨hact, _⟩ := rows1 hi (by rw [ht]; rfl) hrows
    obtain ⟨hops, hw⟩ := act_none ctx r s w (Or.inr ht) hact
    refine ⟨.ecall, by rw [hops]; rfl, ?_, ?_⟩
    · rw [hw, hop]
    · (rw [hops]; first | rfl | (simp only [fitsK, fitsImm12, fitsShamt, fitsImm20, fitsBranch, fitsJal]; bv_decide))
  | ebreak =>
    obtain ⟨r, hr, ht, hop, hi⟩ := sig1 hsig
    rw [hr] at hrows
    obtain ⟨hact, _⟩ := rows1 hi (by rw [ht]; rfl) hrows
    obtain ⟨hops, hw⟩ := act_none ctx r s w (Or.inr ht) hact
    refine ⟨.ebreak, by rw [hops]; rfl, ?_, ?_⟩
    · rw [hw, hop]
    · (rw [hops]; first | rfl | (simp only [fitsK, fitsImm12, fitsShamt, fitsImm20, fitsBranch, fitsJal]; bv_decide))
  | nop =>
    obtain ⟨r, hr, ht, hop, hi⟩ := sig1 hsig
    rw [hr] at hrows
    obtain ⟨hact, _⟩ := rows1 hi (by rw [ht]; rfl) hrows
    obtain ⟨hops, hw⟩ := act_none ctx r s w (Or.inl ht) hact
    refine ⟨.opImm .addi 0 0 0, by rw [hops]; rfl, ?_, ?_⟩
    · rw [hw, hop]
    · (rw [hops]; first | rfl | (simp only [fitsK, fitsImm12, fitsShamt, fitsImm20, fitsBranch, fitsJal]; bv_decide))
  | ret =>
    obtain ⟨r, hr, ht, hop, hi⟩ := sig1 hsig
    rw [hr] at hrows
    obtain ⟨hact, _⟩ := rows1 hi (by rw [ht]; rfl) hrows
    obtain ⟨hops, hw⟩ := act_none ctx r s w (Or.inl ht) hact
    refine ⟨.jalr 0 1 0, by rw [hops]; rfl, ?_, ?_⟩
    · rw [hw, hop]
    · (rw [hops]; first | rfl | (simp only [fitsK, fitsImm12, fitsShamt, fitsImm20, fitsBranch, fitsJal]; bv_decide))
  | mv =>
    obtain ⟨r, hr, ht, hop, hi⟩ := sig1 hsig
    rw [hr] at hrows
    obtain ⟨hact, _⟩ := rows1 hi (by rw [ht]; rfl) hrows
    obtain ⟨a, b, hops, hw⟩ := act_RD_RS1 ctx r s w ht hact
    refine ⟨.opImm .addi a b 0, by rw [hops]; rfl, ?_, ?_⟩
    · rw [hw, hop]; simp only [Arch.encode, x32, offBits]; bv_decide
    · (rw [hops]; first | rfl | (simp only [fitsK, fitsImm12, fitsShamt, fitsImm20, fitsBranch, fitsJal]; bv_decide))
  | not =>
    obtain ⟨r, hr, ht, hop, hi⟩ := sig1 hsig
    rw [hr] at hrows
    obtain ⟨hact, _⟩ := rows1 hi (by rw [ht]; rfl) hrows
    obtain ⟨a, b, hops, hw⟩ := act_RD_RS1 ctx r s w ht hact
    refine ⟨.opImm .xori a b 0xfff, by rw [hops]; rfl, ?_, ?_⟩
    · rw [hw, hop]; simp only [Arch.encode, x32, offBits]; bv_decide
    · (rw [hops]; first | rfl | (simp only [fitsK, fitsImm12, fitsShamt, fitsImm20, fitsBranch, fitsJal]; bv_decide))
  | seqz =>
    obtain ⟨r, hr, ht, hop, hi⟩ := sig1 hsig
    rw [hr] at hrows
    obtain ⟨hact, _⟩ := rows1 hi (by rw [ht]; rfl) hrows
    obtain ⟨a, b, hops, hw⟩ := act_RD_RS1 ctx r s w ht hact
    refine ⟨.opImm .sltiu a b 1, by rw [hops]; rfl, ?_, ?_⟩
    · rw [hw, hop]; simp only [Arch.encode, x32, offBits]; bv_decide
    · (rw [hops]; first | rfl | (simp only [fitsK, fitsImm12, fitsShamt, fitsImm20, fitsBranch, fitsJal]; bv_decide))
  | sltz =>
    obtain ⟨r, hr, ht, hop, hi⟩ := sig1 hsig
    rw [hr] at hrows
    obtain ⟨hact, _⟩ := rows1 hi (by rw [ht]; rfl) hrows
    obtain ⟨a, b, hops, hw⟩ := act_RD_RS1 ctx r s w ht hact
    refine ⟨.op .slt a b 0, by rw [hops]; rfl, ?_, ?_⟩
    · rw [hw, hop]; simp only [Arch.encode, x32, offBits]; bv_decide
    · (rw [hops]; first | rfl | (simp only [fitsK, fitsImm12, fitsShamt, fitsImm20, fitsBranch, fitsJal]; bv_decide))
  | neg =>
    obtain ⟨r, hr, ht, hop, hi⟩ := sig1 hsig
    rw [hr] at hrows
    obtain ⟨hact, _⟩ := rows1 hi (by rw [ht]; rfl) hrows
    obtain ⟨a, b, hops, hw⟩ := act_RD_RS2 ctx r s w ht hact
    refine ⟨.op .sub a 0 b, by rw [hops]; rfl, ?_, ?_⟩
    · rw [hw, hop]; simp only [Arch.encode, x32, offBits]; bv_decide
    · (rw [hops]; first | rfl | (simp only [fitsK, fitsImm12, fitsShamt, fitsImm20, fitsBranch, fitsJal]; bv_decide))
  | snez =>
    obtain ⟨r, hr, ht, hop, hi⟩ := sig1 hsig
    rw [hr] at hrows
    obtain ⟨hact, _⟩ := rows1 hi (by rw [ht]; rfl) hrows
    obtain ⟨a, b, hops, hw⟩ := act_RD_RS2 ctx r s w ht hact
    refine ⟨.op .sltu a 0 b, by rw [hops]; rfl, ?_, ?_⟩
    · rw [hw, hop]; simp only [Arch.encode, x32, offBits]; bv_decide
    · (rw [hops]; first | rfl | (simp only [fitsK, fitsImm12, fitsShamt, fitsImm20, fitsBranch, fitsJal]; bv_decide))
  | sgtz =>
    obtain ⟨r, hr, ht, hop, hi⟩ := sig1 hsig
    rw [hr] at hrows
    obtain ⟨hact, _⟩ := rows1 hi (by rw [ht]; rfl) hrows
    obtain ⟨a, b, hops, hw⟩ := act_RD_RS2 ctx r s w ht hact
    refine ⟨.op .slt a 0 b, by rw [hops]; rfl, ?_, ?_⟩
    · rw [hw, hop]; simp only [Arch.encode, x32, offBits]; bv_decide
    · (rw [hops]; first | rfl | (simp only [fitsK, fitsImm12, fitsShamt, fitsImm20, fitsBranch, fitsJal]; bv_decide))
  | brz o swap =>
    cases swap with
    | false =>
      obtain ⟨r, hr, ht, hop, hi⟩ := sig1 hsig
      rw [hr] at hrows
      obtain ⟨hact, _⟩ := rows1 hi (by rw [ht]; rfl) hrows
      obtain ⟨a, v, o', hops, ho, hw⟩ := act_BR_RS_X0 ctx r s w ht hact
      obtain ⟨ho1, ho2, ho3, ho4⟩ := branchOffset_some ho
      refine ⟨.branch o a 0 (offBits ctx v 12), by rw [hops]; rfl, ?_, ?_⟩
      · rw [hw, hop, ho1]; simp only [Arch.encode, x32, offBits, permBranch]; bv_decide
      · (rw [hops]; simp only [fitsK, fitsBranch]; rw [← ho1]; bv_decide)
    | true =>
      obtain ⟨r, hr, ht, hop, hi⟩ := sig1 hsig
      rw [hr] at hrows
      obtain ⟨hact, _⟩ := rows1 hi (by rw [ht]; rfl) hrows
      obtain ⟨a, v, o', hops, ho, hw⟩ := act_BR_X0_RS ctx r s w ht hact
      obtain ⟨ho1, ho2, ho3, ho4⟩ := branchOffset_some ho
      refine ⟨.branch o 0 a (offBits ctx v 12), by rw [hops]; rfl, ?_, ?_⟩
      · rw [hw, hop, ho1]; simp only [Arch.encode, x32, offBits, permBranch]; bv_decide
      · (rw [hops]; simp only [fitsK, fitsBranch]; rw [← ho1]; bv_decide)
  | brSwap o =>
    obtain ⟨r, hr, ht, hop, hi⟩ := sig1 hsig
    rw [hr] at hrows
    obtain ⟨hact, _⟩ := rows1 hi (by rw [ht]; rfl) hrows
    obtain ⟨a, b, v, o', hops, ho, hw⟩ := act_BR_RS_RT ctx r s w ht hact
    obtain ⟨ho1, ho2, ho3, ho4⟩ := branchOffset_some ho
    refine ⟨.branch o b a (offBits ctx v 12), by rw [hops]; rfl, ?_, ?_⟩
    · rw [hw, hop, ho1]; simp only [Arch.encode, x32, offBits, permBranch]; bv_decide
    · (rw [hops]; simp only [fitsK, fitsBranch]; rw [← ho1]; bv_decide)
  | j =>
    obtain ⟨r, hr, ht, hop, hi⟩ := sig1 hsig
    rw [hr] at hrows
    obtain ⟨hact, _⟩ := rows1 hi (by rw [ht]; rfl) hrows
    obtain ⟨v, o', hops, ho, hw⟩ := (act_AJAL ctx r s w ht).2 hact
    obtain ⟨ho1, ho2, ho3, ho4⟩ := jalOffset_some ho
    refine ⟨.jal 0 (offBits ctx v 20), by rw [hops]; rfl, ?_, ?_⟩
    · rw [hw, hop, ho1]; simp only [Arch.encode, x32, offBits, permJal]; bv_decide
    · (rw [hops]; simp only [fitsK, fitsJal]; bv_decide)
  | jr =>
    obtain ⟨r, hr, ht, hop, hi⟩ := sig1 hsig
    rw [hr] at hrows
    obtain ⟨hact, _⟩ := rows1 hi (by rw [ht]; rfl) hrows
    obtain ⟨a, hops, hw⟩ := (act_AJALR ctx r s w ht).2 hact
    refine ⟨.jalr 0 a 0, by rw [hops]; rfl, ?_, ?_⟩
    · rw [hw, hop]; simp only [Arch.encode, x32]; bv_decide
    · (rw [hops]; first | rfl | (simp only [fitsK, fitsImm12, fitsShamt, fitsImm20, fitsBranch, fitsJal]; bv_decide))

/-- **C01 (iii), RV32I.**  Whatever the assembler model accepts for an RV32I mnemonic (every one of the 40 base
    instructions except `fence`, plus the single-instruction pseudo-instructions) is the word that the
    architecture's own decoder reads back as the instruction the statement means. -/
theorem rv32i_encode_sound (ctx : Ctx) (s : Stmt) (w : BitVec 32) (i : Instr) (hm : meaning ctx s = some i)
    (h : Asm.encode ctx s = .ok w) : Arch.decode w = some i ∧ w = Arch.encode i := by
  unfold meaning at hm
  split at hm
  · rename_i k hk
    obtain ⟨i', h1, h2, _⟩ := encode_arch hk h
    rw [h1] at hm; injection hm with hm; subst hm
    exact ⟨by rw [h2]; exact Arch.decode_encode _, h2⟩
  · cases hm

/-- the hypothesis of `rv32i_encode_sound` is never the reason a case is missed: every accepted statement with
    an RV32I mnemonic has a meaning -/
theorem rv32i_encode_sound_defined (ctx : Ctx) (s : Stmt) (w : BitVec 32) (hk : (kindOf s.mnemonic).isSome)
    (h : Asm.encode ctx s = .ok w) : ∃ i, meaning ctx s = some i ∧ Arch.decode w = some i := by
  obtain ⟨k, hk⟩ := Option.isSome_iff_exists.mp hk
  obtain ⟨i, h1, h2, _⟩ := encode_arch hk h
  refine ⟨i, by unfold meaning; rw [hk]; exact h1, by rw [h2]; exact Arch.decode_encode _⟩

example : rv32i_encode_sound ⟨0x1000#32⟩ ⟨"addi", [.xreg 1, .xreg 2, .num (-5)], 0⟩ 0xffb10093#32
    (.opImm .addi 1 2 0xffb) rfl rfl = ⟨rfl, rfl⟩ := rfl
example : Asm.encode ⟨0x1000#32⟩ ⟨"beq", [.xreg 1, .xreg 2, .num 0x1010], 0⟩ = .ok 0x00208863#32 := rfl

/-- the walk over the emitted bytes consumes exactly them: every word the encoder emits has the 32-bit length
    marker, so `disasm_riscv` reports length 4 -/
theorem rv32i_encode_len (ctx : Ctx) (s : Stmt) (w : BitVec 32) (hk : (kindOf s.mnemonic).isSome)
    (h : Asm.encode ctx s = .ok w) : Disasm.len w = 4 := by
  obtain ⟨k, hk⟩ := Option.isSome_iff_exists.mp hk
  obtain ⟨i, _, h2, _⟩ := encode_arch hk h
  subst h2
  unfold Disasm.len
  have : Arch.encode i &&& 3 = 3 := by
    cases i <;> simp only [Arch.encode] <;> bv_decide
  rw [if_pos this]

/-! ## C06 -/

/-- **C06, unfit ⇒ rejected.**  A statement whose numeric operand does not fit its field (12-bit immediate or
    load/store offset, 5-bit shift amount, 20-bit upper immediate, branch distance even and within ±4 KiB, jal
    distance even and within ±1 MiB) is never assembled. -/
theorem rv32i_encode_rejects_unfit (ctx : Ctx) (s : Stmt) (hk : (kindOf s.mnemonic).isSome)
    (hu : fits ctx s = false) : ∀ w, Asm.encode ctx s ≠ .ok w := by
  intro w h
  obtain ⟨k, hk⟩ := Option.isSome_iff_exists.mp hk
  obtain ⟨_, _, _, h3⟩ := encode_arch hk h
  unfold fits at hu; rw [hk] at hu; simp only at hu
  rw [h3] at hu; cases hu

example : fits ⟨0x1000#32⟩ ⟨"addi", [.xreg 1, .xreg 2, .num 4096], 0⟩ = false := by decide
example : fits ⟨0x1000#32⟩ ⟨"beq", [.xreg 1, .xreg 2, .num 0x1011], 0⟩ = false := by decide

/-- **C06, injectivity.**  Two accepted statements that produce the same word mean the same instruction: the
    same operation, the same registers and the same field values modulo the field width (`meaning` keeps exactly
    `value mod 2^width` of each numeric operand, see `Spec.meaningK`). -/
theorem rv32i_encode_injective_mod_field (ctx : Ctx) (s1 s2 : Stmt) (w : BitVec 32)
    (hk1 : (kindOf s1.mnemonic).isSome) (hk2 : (kindOf s2.mnemonic).isSome)
    (h1 : Asm.encode ctx s1 = .ok w) (h2 : Asm.encode ctx s2 = .ok w) :
    ∃ i, meaning ctx s1 = some i ∧ meaning ctx s2 = some i := by
  obtain ⟨i1, m1, d1⟩ := rv32i_encode_sound_defined ctx s1 w hk1 h1
  obtain ⟨i2, m2, d2⟩ := rv32i_encode_sound_defined ctx s2 w hk2 h2
  rw [d1] at d2; injection d2 with d2; subst d2
  exact ⟨i1, m1, m2⟩

/-- instance for a 12-bit immediate: equal words ⇒ equal values modulo 2^12 -/
theorem rv32i_encode_injective_imm12 (ctx : Ctx) (d a : BitVec 5) (v1 v2 w : BitVec 32)
    (h1 : Asm.encode ctx ⟨"addi", [.xreg d, .xreg a, .num v1], 0⟩ = .ok w)
    (h2 : Asm.encode ctx ⟨"addi", [.xreg d, .xreg a, .num v2], 0⟩ = .ok w) : v1.truncate 12 = v2.truncate 12 := by
  obtain ⟨i, m1, m2⟩ := rv32i_encode_injective_mod_field ctx _ _ w rfl rfl h1 h2
  have e1 : meaning ctx ⟨"addi", [.xreg d, .xreg a, .num v1], 0⟩ = some (.opImm .addi d a (v1.truncate 12)) := rfl
  have e2 : meaning ctx ⟨"addi", [.xreg d, .xreg a, .num v2], 0⟩ = some (.opImm .addi d a (v2.truncate 12)) := rfl
  rw [e1] at m1; rw [e2] at m2; rw [← m2] at m1
  injection m1 with m1; injection m1

/-- **C06, exactness.**  A value that fits is the value of the field in its signed or its unsigned reading
    (nothing is wrapped or masked away); a branch/jal distance that fits is the sign-extended field. -/
theorem rv32i_encode_exact_field :
    (∀ v : BitVec 32, fitsImm12 v = true → (v.truncate 12).signExtend 32 = v ∨ (v.truncate 12).zeroExtend 32 = v) ∧
    (∀ v : BitVec 32, fitsShamt v = true → (v.truncate 5).zeroExtend 32 = v) ∧
    (∀ v : BitVec 32, fitsImm20 v = true → (v.truncate 20).signExtend 32 = v ∨ (v.truncate 20).zeroExtend 32 = v) ∧
    (∀ o : BitVec 32, fitsBranch o = true → ((o.extractLsb' 1 12 ++ 0#1 : BitVec 13)).signExtend 32 = o) ∧
    (∀ o : BitVec 32, fitsJal o = true → ((o.extractLsb' 1 20 ++ 0#1 : BitVec 21)).signExtend 32 = o) := by
  refine ⟨?_, ?_, ?_, ?_, ?_⟩ <;> intro v h <;> simp only [fitsImm12, fitsShamt, fitsImm20, fitsBranch, fitsJal] at h <;>
    bv_decide

/-! ## C08: length and locality -/

/-- one addressable unit ≤ length ≤ longest instruction: 2 or 4 for every word -/
theorem rv32i_len_bounds (w : BitVec 32) : Disasm.len w = 2 ∨ Disasm.len w = 4 := by
  unfold Disasm.len; split <;> simp

/-- little-endian word at offset 0 of a byte function (`Memory::read32`) -/
def word (m : Nat → BitVec 8) : BitVec 32 := m 3 ++ m 2 ++ m 1 ++ m 0

/-- **locality.**  Length and text depend only on the address and the `len` bytes of the instruction: two
    memories that agree on those bytes give the same length and the same text. -/
theorem rv32i_decode_local (addr : BitVec 32) (m m' : Nat → BitVec 8)
    (h : ∀ i, i < Disasm.len (word m) → m i = m' i) :
    Disasm.len (word m) = Disasm.len (word m') ∧ Disasm.disasm addr (word m) = Disasm.disasm addr (word m') := by
  have h0 : m 0 = m' 0 := h 0 (by rcases rv32i_len_bounds (word m) with e | e <;> omega)
  by_cases h4 : word m &&& 3 = 3
  · have hl : Disasm.len (word m) = 4 := by unfold Disasm.len; rw [if_pos h4]
    have e : word m = word m' := by
      unfold word
      rw [h 0 (by omega), h 1 (by omega), h 2 (by omega), h 3 (by omega)]
    rw [e]; exact ⟨rfl, rfl⟩
  · have h4' : ¬ word m' &&& 3 = 3 := by
      unfold word at h4 ⊢
      rw [← h0]
      intro hc; apply h4; bv_decide
    constructor
    · unfold Disasm.len; rw [if_neg h4, if_neg h4']
    · unfold Disasm.disasm; rw [if_pos h4, if_pos h4']

/-- the text of every modelled word is shorter than the caller's 128-byte buffer: checked on the structured
    form — mnemonic ≤ 10 characters, at most three register names (≤ 4), two numerals (≤ 11) and punctuation -/
theorem rv32i_text_fits : ∀ r ∈ table, r.instr.length ≤ 10 := by decide +kernel

/-- the generic tiling theorem instantiated with this CPU's length function -/
theorem rv32i_walk_tiles (mem : Nat → BitVec 32) (start stop : Nat) (h : start ≤ stop) :
    let ps := Walk.walk (fun a => Disasm.len (mem a)) start stop
    ps.head? = some start ∧ ps.Pairwise (· < ·) ∧
    (∀ i (hi : i + 1 < ps.length), ps[i + 1] = ps[i] + Disasm.len (mem ps[i])) ∧
    (∃ l, ps.getLast? = some l ∧ l ≤ stop ∧ stop < l + Disasm.len (mem l)) ∧
    ps.length ≤ stop - start + 1 := by
  have hl : ∀ a, 1 ≤ (fun a => Disasm.len (mem a)) a := by
    intro a; rcases rv32i_len_bounds (mem a) with e | e <;> simp only [e] <;> omega
  obtain ⟨a, b, c, _, e, _, g⟩ := Walk.walk_tiles _ hl start stop h
  exact ⟨a, b, c, e, g⟩

end NakenVerif.Riscv
