/-
  RV32I base integer instruction set, written from "The RISC-V Instruction Set Manual, Volume I: Unprivileged
  ISA" (chapter RV32I: base instruction formats R/I/S/B/U/J, immediate encoding variants, and the RV32I rows of
  the instruction listing).  Nothing in this file is taken from naken_asm.

    R:  funct7[31:25] rs2[24:20] rs1[19:15] funct3[14:12] rd[11:7] opcode[6:0]
    I:  imm[11:0][31:20]         rs1         funct3        rd       opcode
    S:  imm[11:5][31:25] rs2     rs1         funct3        imm[4:0] opcode
    B:  imm[12|10:5]     rs2     rs1         funct3        imm[4:1|11] opcode
    U:  imm[31:12][31:12]                                  rd       opcode
    J:  imm[20|10:1|11|19:12]                              rd       opcode

  Branch and jump offsets are multiples of two; `Instr` stores offset[12:1] / offset[20:1], so every value of
  `Instr` is a legal instruction and `encode`/`decode` are mutually inverse.
-/
import Std.Tactic.BVDecide
set_option linter.unusedSimpArgs false
namespace NakenVerif.Riscv.Arch

abbrev Reg := BitVec 5

inductive ROp | add | sub | sll | slt | sltu | xor | srl | sra | or | and
  deriving DecidableEq, Repr, Inhabited
inductive IOp | addi | slti | sltiu | xori | ori | andi
  deriving DecidableEq, Repr, Inhabited
inductive SOp | slli | srli | srai
  deriving DecidableEq, Repr, Inhabited
inductive LOp | lb | lh | lw | lbu | lhu
  deriving DecidableEq, Repr, Inhabited
inductive StOp | sb | sh | sw
  deriving DecidableEq, Repr, Inhabited
inductive BOp | beq | bne | blt | bge | bltu | bgeu
  deriving DecidableEq, Repr, Inhabited

/-- the 40 instructions of RV32I -/
inductive Instr
  | lui (rd : Reg) (imm : BitVec 20)
  | auipc (rd : Reg) (imm : BitVec 20)
  | jal (rd : Reg) (off : BitVec 20)                    -- offset[20:1]
  | jalr (rd rs1 : Reg) (imm : BitVec 12)
  | branch (op : BOp) (rs1 rs2 : Reg) (off : BitVec 12)  -- offset[12:1]
  | load (op : LOp) (rd rs1 : Reg) (imm : BitVec 12)
  | store (op : StOp) (rs1 rs2 : Reg) (imm : BitVec 12)
  | opImm (op : IOp) (rd rs1 : Reg) (imm : BitVec 12)
  | shiftImm (op : SOp) (rd rs1 : Reg) (shamt : BitVec 5)
  | op (op : ROp) (rd rs1 rs2 : Reg)
  | fence (fm pred succ : BitVec 4) (rs1 rd : Reg)
  | ecall
  | ebreak
  deriving DecidableEq, Repr, Inhabited

def ROp.f3 : ROp → BitVec 3
  | .add => 0 | .sub => 0 | .sll => 1 | .slt => 2 | .sltu => 3 | .xor => 4 | .srl => 5 | .sra => 5 | .or => 6 | .and => 7
def ROp.f7 : ROp → BitVec 7
  | .sub => 0x20 | .sra => 0x20 | _ => 0
def IOp.f3 : IOp → BitVec 3
  | .addi => 0 | .slti => 2 | .sltiu => 3 | .xori => 4 | .ori => 6 | .andi => 7
def SOp.f3 : SOp → BitVec 3
  | .slli => 1 | .srli => 5 | .srai => 5
def SOp.f7 : SOp → BitVec 7
  | .srai => 0x20 | _ => 0
def LOp.f3 : LOp → BitVec 3
  | .lb => 0 | .lh => 1 | .lw => 2 | .lbu => 4 | .lhu => 5
def StOp.f3 : StOp → BitVec 3
  | .sb => 0 | .sh => 1 | .sw => 2
def BOp.f3 : BOp → BitVec 3
  | .beq => 0 | .bne => 1 | .blt => 4 | .bge => 5 | .bltu => 6 | .bgeu => 7

def ROp.all : List ROp := [.add, .sub, .sll, .slt, .sltu, .xor, .srl, .sra, .or, .and]
def IOp.all : List IOp := [.addi, .slti, .sltiu, .xori, .ori, .andi]
def SOp.all : List SOp := [.slli, .srli, .srai]
def LOp.all : List LOp := [.lb, .lh, .lw, .lbu, .lhu]
def StOp.all : List StOp := [.sb, .sh, .sw]
def BOp.all : List BOp := [.beq, .bne, .blt, .bge, .bltu, .bgeu]

def ROp.find (a : BitVec 3) (b : BitVec 7) : Option ROp := ROp.all.find? (fun o => o.f3 == a && o.f7 == b)
def IOp.find (a : BitVec 3) : Option IOp := IOp.all.find? (fun o => o.f3 == a)
def SOp.find (a : BitVec 3) (b : BitVec 7) : Option SOp := SOp.all.find? (fun o => o.f3 == a && o.f7 == b)
def LOp.find (a : BitVec 3) : Option LOp := LOp.all.find? (fun o => o.f3 == a)
def StOp.find (a : BitVec 3) : Option StOp := StOp.all.find? (fun o => o.f3 == a)
def BOp.find (a : BitVec 3) : Option BOp := BOp.all.find? (fun o => o.f3 == a)

def encode : Instr → BitVec 32
  | .lui rd imm => imm ++ rd ++ 0x37#7
  | .auipc rd imm => imm ++ rd ++ 0x17#7
  | .jal rd off =>
      off.extractLsb' 19 1 ++ off.extractLsb' 0 10 ++ off.extractLsb' 10 1 ++ off.extractLsb' 11 8 ++ rd ++ 0x6f#7
  | .jalr rd rs1 imm => imm ++ rs1 ++ 0#3 ++ rd ++ 0x67#7
  | .branch op rs1 rs2 off =>
      off.extractLsb' 11 1 ++ off.extractLsb' 4 6 ++ rs2 ++ rs1 ++ op.f3 ++ off.extractLsb' 0 4 ++
        off.extractLsb' 10 1 ++ 0x63#7
  | .load op rd rs1 imm => imm ++ rs1 ++ op.f3 ++ rd ++ 0x03#7
  | .store op rs1 rs2 imm => imm.extractLsb' 5 7 ++ rs2 ++ rs1 ++ op.f3 ++ imm.extractLsb' 0 5 ++ 0x23#7
  | .opImm op rd rs1 imm => imm ++ rs1 ++ op.f3 ++ rd ++ 0x13#7
  | .shiftImm op rd rs1 sh => op.f7 ++ sh ++ rs1 ++ op.f3 ++ rd ++ 0x13#7
  | .op o rd rs1 rs2 => o.f7 ++ rs2 ++ rs1 ++ o.f3 ++ rd ++ 0x33#7
  | .fence fm pred succ rs1 rd => fm ++ pred ++ succ ++ rs1 ++ 0#3 ++ rd ++ 0x0f#7
  | .ecall => 0x00000073#32
  | .ebreak => 0x00100073#32

abbrev fOpc (w : BitVec 32) : BitVec 7 := w.extractLsb' 0 7
abbrev fRd (w : BitVec 32) : BitVec 5 := w.extractLsb' 7 5
abbrev fF3 (w : BitVec 32) : BitVec 3 := w.extractLsb' 12 3
abbrev fRs1 (w : BitVec 32) : BitVec 5 := w.extractLsb' 15 5
abbrev fRs2 (w : BitVec 32) : BitVec 5 := w.extractLsb' 20 5
abbrev fF7 (w : BitVec 32) : BitVec 7 := w.extractLsb' 25 7

def decode (w : BitVec 32) : Option Instr :=
  if fOpc w = 0x37#7 then some (.lui (fRd w) (w.extractLsb' 12 20))
  else if fOpc w = 0x17#7 then some (.auipc (fRd w) (w.extractLsb' 12 20))
  else if fOpc w = 0x6f#7 then
    some (.jal (fRd w) (w.extractLsb' 31 1 ++ w.extractLsb' 12 8 ++ w.extractLsb' 20 1 ++ w.extractLsb' 21 10))
  else if fOpc w = 0x67#7 then
    (if fF3 w = 0#3 then some (.jalr (fRd w) (fRs1 w) (w.extractLsb' 20 12)) else none)
  else if fOpc w = 0x63#7 then
    (BOp.find (fF3 w)).map fun o =>
      .branch o (fRs1 w) (fRs2 w)
        (w.extractLsb' 31 1 ++ w.extractLsb' 7 1 ++ w.extractLsb' 25 6 ++ w.extractLsb' 8 4)
  else if fOpc w = 0x03#7 then (LOp.find (fF3 w)).map fun o => .load o (fRd w) (fRs1 w) (w.extractLsb' 20 12)
  else if fOpc w = 0x23#7 then (StOp.find (fF3 w)).map fun o => .store o (fRs1 w) (fRs2 w) (fF7 w ++ fRd w)
  else if fOpc w = 0x13#7 then
    (if fF3 w = 1#3 ∨ fF3 w = 5#3 then (SOp.find (fF3 w) (fF7 w)).map fun o => .shiftImm o (fRd w) (fRs1 w) (fRs2 w)
     else (IOp.find (fF3 w)).map fun o => .opImm o (fRd w) (fRs1 w) (w.extractLsb' 20 12))
  else if fOpc w = 0x33#7 then (ROp.find (fF3 w) (fF7 w)).map fun o => .op o (fRd w) (fRs1 w) (fRs2 w)
  else if fOpc w = 0x0f#7 then
    (if fF3 w = 0#3 then
      some (.fence (w.extractLsb' 28 4) (w.extractLsb' 24 4) (w.extractLsb' 20 4) (fRs1 w) (fRd w)) else none)
  else if w = 0x00000073#32 then some .ecall
  else if w = 0x00100073#32 then some .ebreak
  else none

/-! ### `find` is the inverse of the funct tables -/
theorem ROp.find_f (o : ROp) : ROp.find o.f3 o.f7 = some o := by cases o <;> rfl
theorem IOp.find_f (o : IOp) : IOp.find o.f3 = some o := by cases o <;> rfl
theorem SOp.find_f (o : SOp) : SOp.find o.f3 o.f7 = some o := by cases o <;> rfl
theorem LOp.find_f (o : LOp) : LOp.find o.f3 = some o := by cases o <;> rfl
theorem StOp.find_f (o : StOp) : StOp.find o.f3 = some o := by cases o <;> rfl
theorem BOp.find_f (o : BOp) : BOp.find o.f3 = some o := by cases o <;> rfl

theorem ROp.f_of_find {a b o} (h : ROp.find a b = some o) : o.f3 = a ∧ o.f7 = b := by
  have := List.find?_some h; simpa using this
theorem IOp.f_of_find {a o} (h : IOp.find a = some o) : o.f3 = a := by
  have := List.find?_some h; simpa using this
theorem SOp.f_of_find {a b o} (h : SOp.find a b = some o) : o.f3 = a ∧ o.f7 = b := by
  have := List.find?_some h; simpa using this
theorem LOp.f_of_find {a o} (h : LOp.find a = some o) : o.f3 = a := by
  have := List.find?_some h; simpa using this
theorem StOp.f_of_find {a o} (h : StOp.find a = some o) : o.f3 = a := by
  have := List.find?_some h; simpa using this
theorem BOp.f_of_find {a o} (h : BOp.find a = some o) : o.f3 = a := by
  have := List.find?_some h; simpa using this

/-! ### field lemmas (pure bit-vector facts) -/
section fields
variable (a20 : BitVec 20) (a12 : BitVec 12) (a7 : BitVec 7) (r1 r2 r3 : BitVec 5) (c3 : BitVec 3) (o : BitVec 7)
  (p q s : BitVec 4)

theorem u_fields : (a20 ++ r1 ++ o).extractLsb' 0 7 = o ∧ (a20 ++ r1 ++ o).extractLsb' 7 5 = r1 ∧
    (a20 ++ r1 ++ o).extractLsb' 12 20 = a20 := by
  refine ⟨?_, ?_, ?_⟩ <;> bv_decide

theorem i_fields : let w := a12 ++ r1 ++ c3 ++ r2 ++ o
    w.extractLsb' 0 7 = o ∧ w.extractLsb' 7 5 = r2 ∧ w.extractLsb' 12 3 = c3 ∧ w.extractLsb' 15 5 = r1 ∧
    w.extractLsb' 20 12 = a12 := by
  refine ⟨?_, ?_, ?_, ?_, ?_⟩ <;> bv_decide

theorem r_fields : let w := a7 ++ r1 ++ r2 ++ c3 ++ r3 ++ o
    w.extractLsb' 0 7 = o ∧ w.extractLsb' 7 5 = r3 ∧ w.extractLsb' 12 3 = c3 ∧ w.extractLsb' 15 5 = r2 ∧
    w.extractLsb' 20 5 = r1 ∧ w.extractLsb' 25 7 = a7 := by
  refine ⟨?_, ?_, ?_, ?_, ?_, ?_⟩ <;> bv_decide

theorem s_fields : let w := a12.extractLsb' 5 7 ++ r1 ++ r2 ++ c3 ++ a12.extractLsb' 0 5 ++ o
    w.extractLsb' 0 7 = o ∧ w.extractLsb' 12 3 = c3 ∧ w.extractLsb' 15 5 = r2 ∧ w.extractLsb' 20 5 = r1 ∧
    w.extractLsb' 25 7 ++ w.extractLsb' 7 5 = a12 := by
  refine ⟨?_, ?_, ?_, ?_, ?_⟩ <;> bv_decide

theorem b_fields : let w := a12.extractLsb' 11 1 ++ a12.extractLsb' 4 6 ++ r1 ++ r2 ++ c3 ++ a12.extractLsb' 0 4 ++
      a12.extractLsb' 10 1 ++ o
    w.extractLsb' 0 7 = o ∧ w.extractLsb' 12 3 = c3 ∧ w.extractLsb' 15 5 = r2 ∧ w.extractLsb' 20 5 = r1 ∧
    w.extractLsb' 31 1 ++ w.extractLsb' 7 1 ++ w.extractLsb' 25 6 ++ w.extractLsb' 8 4 = a12 := by
  refine ⟨?_, ?_, ?_, ?_, ?_⟩ <;> bv_decide

theorem j_fields : let w := a20.extractLsb' 19 1 ++ a20.extractLsb' 0 10 ++ a20.extractLsb' 10 1 ++
      a20.extractLsb' 11 8 ++ r1 ++ o
    w.extractLsb' 0 7 = o ∧ w.extractLsb' 7 5 = r1 ∧
    w.extractLsb' 31 1 ++ w.extractLsb' 12 8 ++ w.extractLsb' 20 1 ++ w.extractLsb' 21 10 = a20 := by
  refine ⟨?_, ?_, ?_⟩ <;> bv_decide

theorem f_fields : let w := p ++ q ++ s ++ r1 ++ c3 ++ r2 ++ o
    w.extractLsb' 0 7 = o ∧ w.extractLsb' 7 5 = r2 ∧ w.extractLsb' 12 3 = c3 ∧ w.extractLsb' 15 5 = r1 ∧
    w.extractLsb' 20 4 = s ∧ w.extractLsb' 24 4 = q ∧ w.extractLsb' 28 4 = p := by
  refine ⟨?_, ?_, ?_, ?_, ?_, ?_, ?_⟩ <;> bv_decide
end fields

/-- decoding an encoded instruction gives the instruction back -/
theorem decode_encode (i : Instr) : decode (encode i) = some i := by
  cases i with
  | lui rd imm => simp [decode, encode, u_fields]
  | auipc rd imm => simp [decode, encode, u_fields]
  | jal rd off =>
    have h := j_fields off rd 0x6f#7
    simp only [decode, encode]
    simp [h.1, h.2.1, h.2.2]
  | jalr rd rs1 imm =>
    have h := i_fields imm rs1 rd 0#3 0x67#7
    simp only [decode, encode]
    simp [h.1, h.2.1, h.2.2.1, h.2.2.2.1, h.2.2.2.2]
  | branch op rs1 rs2 off =>
    have h := b_fields off rs2 rs1 op.f3 0x63#7
    simp only [decode, encode]
    simp [h.1, h.2.1, h.2.2.1, h.2.2.2.1, h.2.2.2.2, BOp.find_f]
  | load op rd rs1 imm =>
    have h := i_fields imm rs1 rd op.f3 0x03#7
    simp only [decode, encode]
    simp [h.1, h.2.1, h.2.2.1, h.2.2.2.1, h.2.2.2.2, LOp.find_f]
  | store op rs1 rs2 imm =>
    have h := s_fields imm rs2 rs1 op.f3 0x23#7
    simp only [decode, encode]
    simp [h.1, h.2.1, h.2.2.1, h.2.2.2.1, h.2.2.2.2, StOp.find_f]
  | opImm op rd rs1 imm =>
    have h := i_fields imm rs1 rd op.f3 0x13#7
    simp only [decode, encode]
    simp only [h.1, h.2.1, h.2.2.1, h.2.2.2.1, h.2.2.2.2]
    cases op <;> simp [IOp.f3, IOp.find, IOp.all]
  | shiftImm op rd rs1 sh =>
    have h := r_fields op.f7 sh rs1 rd op.f3 0x13#7
    simp only [decode, encode]
    simp only [h.1, h.2.1, h.2.2.1, h.2.2.2.1, h.2.2.2.2.1, h.2.2.2.2.2]
    cases op <;> simp [SOp.f3, SOp.f7, SOp.find, SOp.all]
  | op o rd rs1 rs2 =>
    have h := r_fields o.f7 rs2 rs1 rd o.f3 0x33#7
    simp only [decode, encode]
    simp [h.1, h.2.1, h.2.2.1, h.2.2.2.1, h.2.2.2.2.1, h.2.2.2.2.2, ROp.find_f]
  | fence fm pred succ rs1 rd =>
    have h := f_fields rs1 rd 0#3 0x0f#7 fm pred succ
    simp only [decode, encode]
    simp [h.1, h.2.1, h.2.2.1, h.2.2.2.1, h.2.2.2.2.1, h.2.2.2.2.2.1, h.2.2.2.2.2.2]
  | ecall => decide
  | ebreak => decide

/-- an instruction that `decode` reads from a word encodes to exactly that word -/
theorem encode_decode (w : BitVec 32) (i : Instr) (h : decode w = some i) : encode i = w := by
  unfold decode at h
  by_cases h1 : fOpc w = 0x37#7
  · rw [if_pos h1] at h; injection h with h; subst h; (simp only [encode, fOpc, fRd, fF3, fRs1, fRs2, fF7] at *; bv_decide)
  rw [if_neg h1] at h
  by_cases h2 : fOpc w = 0x17#7
  · rw [if_pos h2] at h; injection h with h; subst h; (simp only [encode, fOpc, fRd, fF3, fRs1, fRs2, fF7] at *; bv_decide)
  rw [if_neg h2] at h
  by_cases h3 : fOpc w = 0x6f#7
  · rw [if_pos h3] at h; injection h with h; subst h; (simp only [encode, fOpc, fRd, fF3, fRs1, fRs2, fF7] at *; bv_decide)
  rw [if_neg h3] at h
  by_cases h4 : fOpc w = 0x67#7
  · rw [if_pos h4] at h
    by_cases g4 : fF3 w = 0#3
    · rw [if_pos g4] at h; injection h with h; subst h; (simp only [encode, fOpc, fRd, fF3, fRs1, fRs2, fF7] at *; bv_decide)
    · rw [if_neg g4] at h; cases h
  rw [if_neg h4] at h
  by_cases h5 : fOpc w = 0x63#7
  · rw [if_pos h5] at h
    obtain ⟨o, ho, rfl⟩ := Option.map_eq_some_iff.mp h
    have := BOp.f_of_find ho
    (simp only [encode, fOpc, fRd, fF3, fRs1, fRs2, fF7] at *; bv_decide)
  rw [if_neg h5] at h
  by_cases h6 : fOpc w = 0x03#7
  · rw [if_pos h6] at h
    obtain ⟨o, ho, rfl⟩ := Option.map_eq_some_iff.mp h
    have := LOp.f_of_find ho
    (simp only [encode, fOpc, fRd, fF3, fRs1, fRs2, fF7] at *; bv_decide)
  rw [if_neg h6] at h
  by_cases h7 : fOpc w = 0x23#7
  · rw [if_pos h7] at h
    obtain ⟨o, ho, rfl⟩ := Option.map_eq_some_iff.mp h
    have := StOp.f_of_find ho
    (simp only [encode, fOpc, fRd, fF3, fRs1, fRs2, fF7] at *; bv_decide)
  rw [if_neg h7] at h
  by_cases h8 : fOpc w = 0x13#7
  · rw [if_pos h8] at h
    by_cases g8 : fF3 w = 1#3 ∨ fF3 w = 5#3
    · rw [if_pos g8] at h
      obtain ⟨o, ho, rfl⟩ := Option.map_eq_some_iff.mp h
      have := SOp.f_of_find ho
      (simp only [encode, fOpc, fRd, fF3, fRs1, fRs2, fF7] at *; bv_decide)
    · rw [if_neg g8] at h
      obtain ⟨o, ho, rfl⟩ := Option.map_eq_some_iff.mp h
      have := IOp.f_of_find ho
      (simp only [encode, fOpc, fRd, fF3, fRs1, fRs2, fF7] at *; bv_decide)
  rw [if_neg h8] at h
  by_cases h9 : fOpc w = 0x33#7
  · rw [if_pos h9] at h
    obtain ⟨o, ho, rfl⟩ := Option.map_eq_some_iff.mp h
    have := ROp.f_of_find ho
    (simp only [encode, fOpc, fRd, fF3, fRs1, fRs2, fF7] at *; bv_decide)
  rw [if_neg h9] at h
  by_cases h10 : fOpc w = 0x0f#7
  · rw [if_pos h10] at h
    by_cases g10 : fF3 w = 0#3
    · rw [if_pos g10] at h; injection h with h; subst h; (simp only [encode, fOpc, fRd, fF3, fRs1, fRs2, fF7] at *; bv_decide)
    · rw [if_neg g10] at h; cases h
  rw [if_neg h10] at h
  by_cases h11 : w = 0x00000073#32
  · rw [if_pos h11] at h; injection h with h; subst h; simp only [encode]; exact h11.symm
  rw [if_neg h11] at h
  by_cases h12 : w = 0x00100073#32
  · rw [if_pos h12] at h; injection h with h; subst h; simp only [encode]; exact h12.symm
  rw [if_neg h12] at h
  cases h

/-- `decode` is injective on the words it accepts -/
theorem decode_inj {w w' : BitVec 32} {i : Instr} (h : decode w = some i) (h' : decode w' = some i) : w = w' := by
  rw [← encode_decode w i h, ← encode_decode w' i h']

end NakenVerif.Riscv.Arch
