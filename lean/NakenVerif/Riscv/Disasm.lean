/-
  Implementation model of `disasm_riscv` (disasm/riscv.cpp): length for every word, and — for words whose
  first matching row of `table_riscv[]` has one of the RV32I row types — the structured operands and the exact
  text.  `len` also covers `disasm_riscv_comp` (always 2).
-/
import NakenVerif.Generated.RiscvTable
import NakenVerif.Riscv.Asm
namespace NakenVerif.Riscv.Disasm
open NakenVerif.Generated.Riscv

/-- `(opcode & 3) != 3` → `disasm_riscv_comp` (every path returns 2); otherwise every path returns 4 -/
def len (w : BitVec 32) : Nat := if w &&& 3 = 3 then 4 else 2

def fRd (w : BitVec 32) : BitVec 5 := (w >>> 7).truncate 5
def fRs1 (w : BitVec 32) : BitVec 5 := (w >>> 15).truncate 5
def fRs2 (w : BitVec 32) : BitVec 5 := (w >>> 20).truncate 5

/-- `(opcode & mask) == opcode` and, for OP_ALIAS_FP_FP, not skipped by `if (rs1 != rs2) continue;` -/
def rowMatches (w : BitVec 32) (r : Row) : Bool :=
  (w &&& r.mask == r.opcode) && (r.type != .OP_ALIAS_FP_FP || fRs1 w == fRs2 w)

def firstMatch (w : BitVec 32) : Option Row := table.find? (rowMatches w)

/-- `permutate_branch` of disasm/riscv.cpp (sign-extended 13-bit offset) -/
def branchImm (w : BitVec 32) : BitVec 32 :=
  let i := (((w >>> 31) &&& 1) <<< 12) ||| (((w >>> 8) &&& 0xf) <<< 1) ||| (((w >>> 7) &&& 1) <<< 11) |||
    (((w >>> 25) &&& 0x3f) <<< 5)
  if i &&& 0x1000 ≠ 0 then i ||| 0xffffe000 else i

/-- `permutate_jal` of disasm/riscv.cpp -/
def jalImm (w : BitVec 32) : BitVec 32 :=
  let o := (((w >>> 31) &&& 1) <<< 20) ||| (((w >>> 12) &&& 0xff) <<< 12) ||| (((w >>> 20) &&& 1) <<< 11) |||
    (((w >>> 21) &&& 0x3ff) <<< 1)
  if o &&& 0x100000 ≠ 0 then o ||| 0xfff00000 else o

/-- `simmediate`: 12-bit field sign-extended -/
def simm12 (w : BitVec 32) : BitVec 32 :=
  let i := w >>> 20
  if i &&& 0x800 ≠ 0 then i ||| 0xfffff000 else i

def storeImm (w : BitVec 32) : BitVec 32 :=
  let i := (((w >>> 25) &&& 0x7f) <<< 5) ||| ((w >>> 7) &&& 0x1f)
  if i &&& 0x800 ≠ 0 then i ||| 0xfffff000 else i

/-! ### text -/
def regNames : Array String := #["zero", "ra", "sp", "gp", "tp", "t0", "t1", "t2", "fp", "s1", "a0", "a1", "a2", "a3",
  "a4", "a5", "a6", "a7", "s2", "s3", "s4", "s5", "s6", "s7", "s8", "s9", "s10", "s11", "t3", "t4", "t5", "t6"]
def reg (r : BitVec 5) : String := regNames[r.toNat]!
def hexDigits (n : Nat) : String := String.ofList (Nat.toDigits 16 n)
/-- `%x` -/
def fmtX (v : BitVec 32) : String := hexDigits v.toNat
/-- `%06x` -/
def fmtX06 (v : BitVec 32) : String := let s := hexDigits v.toNat; "".pushn '0' (6 - s.length) ++ s
/-- `%d` of an int -/
def fmtD (v : BitVec 32) : String := toString v.toInt
def fenceNames : Array String := #["sw", "sr", "so", "si", "pw", "pr", "po", "pi"]

def fenceText (imm : BitVec 32) : String :=
  let names := (List.range 8).reverse.filter (fun i => imm &&& (1 <<< i) ≠ 0) |>.map (fun i => fenceNames[i]!)
  match names with
  | [] => ""
  | _ => " " ++ ", ".intercalate names

/-- text for the modelled row types; `none` = row type outside the model -/
def textOf (addr : BitVec 32) (w : BitVec 32) (r : Row) : Option String :=
  let i := r.instr
  let rd := reg (fRd w); let rs1 := reg (fRs1 w); let rs2 := reg (fRs2 w)
  match r.type with
  | .OP_NONE | .OP_FFFF => some i
  | .OP_R_TYPE => some s!"{i} {rd}, {rs1}, {rs2}"
  | .OP_I_TYPE => some s!"{i} {rd}, {rs1}, {fmtD (simm12 w)} (0x{fmtX06 (w >>> 20)})"
  | .OP_SB_TYPE => some s!"{i} {rs1}, {rs2}, 0x{fmtX (addr + branchImm w)} ({fmtD (branchImm w)})"
  | .OP_U_TYPE => some s!"{i} {rd}, 0x{fmtX06 (w >>> 12)}"
  | .OP_UJ_TYPE => some s!"{i} {rd}, 0x{fmtX (addr + jalImm w)} (offset={fmtD (jalImm w)})"
  | .OP_SHIFT => some s!"{i} {rd}, {rs1}, {fmtD ((w >>> 20) &&& 0x1f)}"
  | .OP_FENCE => some (i ++ fenceText ((w >>> 20) &&& 0xff))
  | .OP_RD_INDEX_R => some s!"{i} {rd}, {fmtD (simm12 w)}({rs1})"
  | .OP_RS_INDEX_R => some s!"{i} {rs2}, {fmtD (storeImm w)}({rs1})"
  | .OP_ALIAS_RD_RS1 => some s!"{i} {rd}, {rs1}"
  | .OP_ALIAS_RD_RS2 => some s!"{i} {rd}, {rs2}"
  | .OP_ALIAS_BR_RS_X0 => some s!"{i} {rs1}, 0x{fmtX (addr + branchImm w)} ({fmtD (branchImm w)})"
  | .OP_ALIAS_BR_X0_RS => some s!"{i} {rs2}, 0x{fmtX (addr + branchImm w)} ({fmtD (branchImm w)})"
  | .OP_ALIAS_BR_RS_RT => some s!"{i} {rs2}, {rs1}, 0x{fmtX (addr + branchImm w)} ({fmtD (branchImm w)})"
  | .OP_ALIAS_JAL => some s!"{i} 0x{fmtX (addr + jalImm w)} (offset={fmtD (jalImm w)})"
  | .OP_ALIAS_JALR => some s!"{i} {rs1}, {fmtD (simm12 w)} (0x{fmtX06 (w >>> 20)})"
  | _ => none

/-- `disasm_riscv` on a 32-bit word: (length, text); text `none` when not modelled -/
def disasm (addr : BitVec 32) (w : BitVec 32) : Nat × Option String :=
  if w &&& 3 ≠ 3 then (2, none)
  else match firstMatch w with
    | none => (4, some "???")
    | some r => (4, textOf addr w r)

/-! ### structured reading: the statement the printed text denotes to the assembler's operand parser -/
open Asm in
/-- What `get_operands` makes of the printed text, for the row types whose text it accepts.  Texts carrying a
    parenthesised comment (`-5 (0xfffffb)`, `0x1010 (16)`, `(offset=16)`) are taken for `offset(register)`
    syntax with a non-register inside and are rejected: `none`. -/
def toStmt (w : BitVec 32) : Option Asm.Stmt :=
  if w &&& 3 ≠ 3 then none
  else match firstMatch w with
    | none => none
    | some r =>
      let rd := fRd w; let rs1 := fRs1 w; let rs2 := fRs2 w
      match r.type with
      | .OP_NONE | .OP_FFFF => some { mnemonic := r.instr, operands := [] }
      | .OP_R_TYPE => some { mnemonic := r.instr, operands := [.xreg rd, .xreg rs1, .xreg rs2] }
      | .OP_U_TYPE => some { mnemonic := r.instr, operands := [.xreg rd, .num (w >>> 12)] }
      | .OP_SHIFT => some { mnemonic := r.instr, operands := [.xreg rd, .xreg rs1, .num ((w >>> 20) &&& 0x1f)] }
      | .OP_FENCE => some { mnemonic := r.instr, operands := [], fence := ((w >>> 20) &&& 0xff).truncate 8 }
      | .OP_RD_INDEX_R => some { mnemonic := r.instr, operands := [.xreg rd, .regOff ((simm12 w).truncate 16) rs1] }
      | .OP_RS_INDEX_R => some { mnemonic := r.instr, operands := [.xreg rs2, .regOff ((storeImm w).truncate 16) rs1] }
      | .OP_ALIAS_RD_RS1 => some { mnemonic := r.instr, operands := [.xreg rd, .xreg rs1] }
      | .OP_ALIAS_RD_RS2 => some { mnemonic := r.instr, operands := [.xreg rd, .xreg rs2] }
      | _ => none

/-- row types whose printed text carries a parenthesised comment and is therefore rejected by the assembler -/
def textRejected : OpType → Bool
  | .OP_I_TYPE | .OP_SB_TYPE | .OP_UJ_TYPE | .OP_ALIAS_BR_RS_X0 | .OP_ALIAS_BR_X0_RS | .OP_ALIAS_BR_RS_RT
  | .OP_ALIAS_JAL | .OP_ALIAS_JALR => true
  | _ => false

end NakenVerif.Riscv.Disasm
