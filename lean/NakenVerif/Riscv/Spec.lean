/-
  What an RV32I assembly statement means, written from the ISA manual (assembly operand order of each format,
  chapter RV32I, and the table of pseudo-instructions in the chapter "RISC-V Assembly Programmer's Handbook").
  Independent of naken_asm's table: mnemonics are mapped to the architecture's operations by name.
  The statement type is the one `get_operands` produces (`Asm.Stmt`); operand syntax that is naken_asm's own
  (`lw rd, rs1, imm` beside `lw rd, imm(rs1)`; `jalr rd, rs1, imm`; fence flags `pr, sw, …`) is read the obvious way.
-/
import NakenVerif.Riscv.Arch
import NakenVerif.Riscv.Asm
namespace NakenVerif.Riscv.Spec
open NakenVerif.Riscv.Arch NakenVerif.Riscv.Asm

inductive Kind
  | r (o : ROp) | i (o : IOp) | sh (o : SOp) | ld (o : LOp) | st (o : StOp) | br (o : BOp)
  | lui | auipc | jal | jalr | ecall | ebreak
  -- pseudo-instructions
  | nop | ret | mv | not | seqz | sltz | neg | snez | sgtz
  | brz (o : BOp) (swap : Bool)     -- beqz bnez bgez bltz: (rs, x0); blez bgtz: (x0, rs)
  | brSwap (o : BOp)                -- bgt ble bgtu bleu: operands exchanged
  | j | jr
  deriving DecidableEq, Repr

/-- every RV32I mnemonic except `fence` (see `fence_*` theorems), and the manual's pseudo-instructions that
    expand to one RV32I instruction -/
def specTable : List (String × Kind) := [
  ("lui", .lui), ("auipc", .auipc), ("jal", .jal), ("jalr", .jalr),
  ("beq", .br .beq), ("bne", .br .bne), ("blt", .br .blt), ("bge", .br .bge), ("bltu", .br .bltu), ("bgeu", .br .bgeu),
  ("lb", .ld .lb), ("lh", .ld .lh), ("lw", .ld .lw), ("lbu", .ld .lbu), ("lhu", .ld .lhu),
  ("sb", .st .sb), ("sh", .st .sh), ("sw", .st .sw),
  ("addi", .i .addi), ("slti", .i .slti), ("sltiu", .i .sltiu), ("xori", .i .xori), ("ori", .i .ori), ("andi", .i .andi),
  ("slli", .sh .slli), ("srli", .sh .srli), ("srai", .sh .srai),
  ("add", .r .add), ("sub", .r .sub), ("sll", .r .sll), ("slt", .r .slt), ("sltu", .r .sltu), ("xor", .r .xor),
  ("srl", .r .srl), ("sra", .r .sra), ("or", .r .or), ("and", .r .and),
  ("ecall", .ecall), ("ebreak", .ebreak),
  ("nop", .nop), ("ret", .ret), ("mv", .mv), ("not", .not), ("seqz", .seqz), ("sltz", .sltz), ("neg", .neg),
  ("snez", .snez), ("sgtz", .sgtz),
  ("beqz", .brz .beq false), ("bnez", .brz .bne false), ("bgez", .brz .bge false), ("bltz", .brz .blt false),
  ("blez", .brz .bge true), ("bgtz", .brz .blt true),
  ("bgt", .brSwap .blt), ("ble", .brSwap .bge), ("bgtu", .brSwap .bltu), ("bleu", .brSwap .bgeu),
  ("j", .j), ("jr", .jr)]

def kindOf (m : String) : Option Kind := (specTable.find? (fun p => p.1 == m)).map (·.2)

/-- branch / jump offset field: bits [n:1] of (target - address of the instruction) -/
def offBits (ctx : Ctx) (t : BitVec 32) (n : Nat) : BitVec n := (t - ctx.address).extractLsb' 1 n

def meaningK (ctx : Ctx) : Kind → List Operand → Option Instr
  | .r o, [.xreg d, .xreg a, .xreg b] => some (.op o d a b)
  | .i o, [.xreg d, .xreg a, .num v] => some (.opImm o d a (v.truncate 12))
  | .sh o, [.xreg d, .xreg a, .num v] => some (.shiftImm o d a (v.truncate 5))
  | .ld o, [.xreg d, .regOff off a] => some (.load o d a (off.truncate 12))
  | .ld o, [.xreg d, .xreg a, .num v] => some (.load o d a (v.truncate 12))
  | .st o, [.xreg s2, .regOff off a] => some (.store o a s2 (off.truncate 12))
  | .st o, [.xreg s2, .xreg a, .num v] => some (.store o a s2 (v.truncate 12))
  | .br o, [.xreg a, .xreg b, .num t] => some (.branch o a b (offBits ctx t 12))
  | .lui, [.xreg d, .num v] => some (.lui d (v.truncate 20))
  | .auipc, [.xreg d, .num v] => some (.auipc d (v.truncate 20))
  | .jal, [.xreg d, .num t] => some (.jal d (offBits ctx t 20))
  | .jal, [.num t] => some (.jal 1 (offBits ctx t 20))
  | .jalr, [.xreg d, .xreg a, .num v] => some (.jalr d a (v.truncate 12))
  | .jalr, [.xreg a] => some (.jalr 1 a 0)
  | .ecall, [] => some .ecall
  | .ebreak, [] => some .ebreak
  | .nop, [] => some (.opImm .addi 0 0 0)
  | .ret, [] => some (.jalr 0 1 0)
  | .mv, [.xreg d, .xreg a] => some (.opImm .addi d a 0)
  | .not, [.xreg d, .xreg a] => some (.opImm .xori d a 0xfff)
  | .seqz, [.xreg d, .xreg a] => some (.opImm .sltiu d a 1)
  | .sltz, [.xreg d, .xreg a] => some (.op .slt d a 0)
  | .neg, [.xreg d, .xreg b] => some (.op .sub d 0 b)
  | .snez, [.xreg d, .xreg b] => some (.op .sltu d 0 b)
  | .sgtz, [.xreg d, .xreg b] => some (.op .slt d 0 b)
  | .brz o false, [.xreg a, .num t] => some (.branch o a 0 (offBits ctx t 12))
  | .brz o true, [.xreg a, .num t] => some (.branch o 0 a (offBits ctx t 12))
  | .brSwap o, [.xreg a, .xreg b, .num t] => some (.branch o b a (offBits ctx t 12))
  | .j, [.num t] => some (.jal 0 (offBits ctx t 20))
  | .jr, [.xreg a] => some (.jalr 0 a 0)
  | _, _ => none

/-- the instruction a statement denotes; `none` when the mnemonic is not in `specTable` or the operands do not
    have the shape the manual gives that mnemonic -/
def meaning (ctx : Ctx) (s : Stmt) : Option Instr :=
  match kindOf s.mnemonic with
  | some k => meaningK ctx k s.operands
  | none => none

/-- `fence` with naken_asm's flag operands (`pi po pr pw si so sr sw` = bits 7..0 of `fence`); without flags it is the
    manual's pseudo-instruction `fence` = `fence iorw, iorw` -/
def meaningFence (fence : BitVec 8) : Instr :=
  if fence = 0 then .fence 0 0xf 0xf 0 0 else .fence 0 (fence.extractLsb' 4 4) (fence.extractLsb' 0 4) 0 0

/-! ### what fits a field: union of the signed and the unsigned range the architecture gives it -/
def fitsImm12 (v : BitVec 32) : Bool := (-2048 : BitVec 32).sle v && v.sle 4095
def fitsShamt (v : BitVec 32) : Bool := (0 : BitVec 32).sle v && v.sle 31
def fitsImm20 (v : BitVec 32) : Bool := (-(1 <<< 19) : BitVec 32).sle v && v.sle ((1 <<< 20) - 1)
/-- branch distance: even and within -4 KiB .. +4 KiB - 2 -/
def fitsBranch (o : BitVec 32) : Bool := o &&& 1 == 0 && (-4096 : BitVec 32).sle o && o.sle 4094
/-- jal distance: even and within -1 MiB .. +1 MiB - 2 -/
def fitsJal (o : BitVec 32) : Bool := o &&& 1 == 0 && (-(1 <<< 20) : BitVec 32).sle o && o.sle ((1 <<< 20) - 2)

/-- the numeric operand of the statement fits its field (statements without a numeric field: `true`) -/
def fitsK (ctx : Ctx) : Kind → List Operand → Bool
  | .i _, [_, _, .num v] => fitsImm12 v
  | .sh _, [_, _, .num v] => fitsShamt v
  | .ld _, [_, .regOff off _] => fitsImm12 (off.signExtend 32)
  | .ld _, [_, _, .num v] => fitsImm12 v
  | .st _, [_, .regOff off _] => fitsImm12 (off.signExtend 32)
  | .st _, [_, _, .num v] => fitsImm12 v
  | .br _, [_, _, .num t] => fitsBranch (t - ctx.address)
  | .lui, [_, .num v] => fitsImm20 v
  | .auipc, [_, .num v] => fitsImm20 v
  | .jal, [_, .num t] => fitsJal (t - ctx.address)
  | .jal, [.num t] => fitsJal (t - ctx.address)
  | .jalr, [_, _, .num v] => fitsImm12 v
  | .brz _ _, [_, .num t] => fitsBranch (t - ctx.address)
  | .brSwap _, [_, _, .num t] => fitsBranch (t - ctx.address)
  | .j, [.num t] => fitsJal (t - ctx.address)
  | _, _ => true

def fits (ctx : Ctx) (s : Stmt) : Bool :=
  match kindOf s.mnemonic with
  | some k => fitsK ctx k s.operands
  | none => true

end NakenVerif.Riscv.Spec
