/-
  Implementation model of the RISC-V encoder `parse_instruction_riscv` (asm/riscv.cpp) for the row types the
  RV32I base instructions and their pseudo-instructions use, on pass 2 (the pass whose bytes are the output).

  A statement is what `get_operands` leaves behind: lower-cased mnemonic, `operands[]` (type, value, offset),
  `modifiers.fence`.  Numbers are the `int` that `eval_expression(asm_context, &n)` delivers (the 64-bit
  expression value, rejected unless it lies in -2^31 .. 2^32-1, then its low 32 bits), so every range check
  below is the C comparison on `int`.
  Row selection, the persistent `modifiers.rm = 7`, the `continue`s and the order of the checks follow the C
  loop over `table_riscv[]` (regenerated as `Generated.Riscv.table`).
-/
import NakenVerif.Generated.RiscvTable
namespace NakenVerif.Riscv.Asm
open NakenVerif.Generated.Riscv

inductive Operand where
  | xreg (n : BitVec 5)                       -- OPERAND_X_REGISTER, value 0..31
  | num (v : BitVec 32)                       -- OPERAND_NUMBER, value as C int
  | regOff (off : BitVec 16) (n : BitVec 5)   -- OPERAND_REGISTER_OFFSET: int16_t offset, register
  | other                                     -- F/V register, rounding mode, iorw, vector config
  deriving DecidableEq, Repr, Inhabited

structure Stmt where
  mnemonic : String            -- instr_case
  operands : List Operand      -- operands[0 .. operand_count-1]
  fence : BitVec 8 := 0        -- modifiers.fence
  deriving DecidableEq, Repr, Inhabited

structure Ctx where
  address : BitVec 32          -- asm_context->address
  deriving Repr

inductive Result where
  | ok (w : BitVec 32)         -- add_bin32(opcode); return 4
  | err                        -- an error was printed, return -1
  | fault                      -- undefined behaviour in C: operands[-1] is read
  | unmodelled                 -- a row type outside this model would be visited
  deriving DecidableEq, Repr, Inhabited

/-- row types modelled here (all are below OP_COMP_RD_NZUIMM in the enum) -/
def modelled : OpType → Bool
  | .OP_NONE | .OP_R_TYPE | .OP_I_TYPE | .OP_SB_TYPE | .OP_U_TYPE | .OP_UJ_TYPE | .OP_SHIFT | .OP_FENCE | .OP_FFFF
  | .OP_RD_INDEX_R | .OP_RS_INDEX_R | .OP_ALIAS_RD_RS1 | .OP_ALIAS_RD_RS2 | .OP_ALIAS_BR_RS_X0
  | .OP_ALIAS_BR_X0_RS | .OP_ALIAS_BR_RS_RT | .OP_ALIAS_JAL | .OP_ALIAS_JALR => true
  | _ => false

def x32 (r : BitVec 5) : BitVec 32 := r.zeroExtend 32

/-- `permutate_branch` of asm/riscv.cpp -/
def permBranch (o : BitVec 32) : BitVec 32 :=
  (((o >>> 12) &&& 0x1) <<< 31) ||| (((o >>> 11) &&& 0x1) <<< 7) ||| (((o >>> 5) &&& 0x3f) <<< 25) |||
    (((o >>> 1) &&& 0xf) <<< 8)

/-- `permutate_jal` of asm/riscv.cpp -/
def permJal (o : BitVec 32) : BitVec 32 :=
  (((o >>> 20) &&& 0x1) <<< 31) ||| (((o >>> 12) &&& 0xff) <<< 12) ||| (((o >>> 11) &&& 0x1) <<< 20) |||
    (((o >>> 1) &&& 0x3ff) <<< 21)

/-- pass-2 branch distance with its checks: `(uint32_t)value - address`, odd → error, outside -4096..4094 → error -/
def branchOffset (ctx : Ctx) (v : BitVec 32) : Option (BitVec 32) :=
  let o := v - ctx.address
  if o &&& 1 ≠ 0 then none
  else if o.slt (-4096) || (4095 : BitVec 32).sle o then none
  else some o

def jalOffset (ctx : Ctx) (v : BitVec 32) : Option (BitVec 32) :=
  let o := v - ctx.address
  if o &&& 1 ≠ 0 then none
  else if o.slt (-(1 <<< 20)) || ((1 <<< 20) - 1 : BitVec 32).slt o then none
  else some (o &&& 0x1fffff)

inductive Action where
  | done (r : Result)
  | continue_
  deriving Repr

/-- one `case` of the switch -/
def rowAction (ctx : Ctx) (r : Row) (s : Stmt) : Action :=
  let ops := s.operands
  match r.type with
  | .OP_NONE | .OP_FFFF => if ops.length ≠ 0 then .done .err else .done (.ok r.opcode)
  | .OP_R_TYPE =>
    match ops with
    | [.xreg a, .xreg b, .xreg c] => .done (.ok (r.opcode ||| (x32 c <<< 20) ||| (x32 b <<< 15) ||| (x32 a <<< 7)))
    | _ => .done .err
  | .OP_I_TYPE =>
    match ops with
    | [.xreg a, .xreg b, .num v] =>
      if v.slt (-2048) || (0xfff : BitVec 32).slt v then .done .err
      else .done (.ok (r.opcode ||| (v <<< 20) ||| (x32 b <<< 15) ||| (x32 a <<< 7)))
    | _ => .done .err
  | .OP_SB_TYPE =>
    match ops with
    | [.xreg a, .xreg b, .num v] =>
      match branchOffset ctx v with
      | none => .done .err
      | some o => .done (.ok (r.opcode ||| (permBranch o ||| (x32 b <<< 20) ||| (x32 a <<< 15))))
    | _ => .done .err
  | .OP_U_TYPE =>
    match ops with
    | [.xreg a, .num v] =>
      if v.slt (-(1 <<< 19)) || ((1 <<< 20) : BitVec 32).sle v then .done .err
      else .done (.ok (r.opcode ||| (v <<< 12) ||| (x32 a <<< 7)))
    | _ => .done .err
  | .OP_UJ_TYPE =>
    match ops with
    | [.xreg a, .num v] =>
      match jalOffset ctx v with
      | none => .done .err
      | some o => .done (.ok (r.opcode ||| permJal o ||| (x32 a <<< 7)))
    | _ => .done .err
  | .OP_SHIFT =>
    match ops with
    | [.xreg a, .xreg b, .num v] =>
      if v.slt 0 || (31 : BitVec 32).slt v then .done .err
      else .done (.ok (r.opcode ||| (v <<< 20) ||| (x32 b <<< 15) ||| (x32 a <<< 7)))
    | _ => .done .err
  | .OP_FENCE => if ops.length ≠ 0 then .done .err else .done (.ok (r.opcode ||| (s.fence.zeroExtend 32 <<< 20)))
  | .OP_RD_INDEX_R =>
    let fin (rd rs1 : BitVec 5) (off : BitVec 32) : Action :=
      if off.slt (-2048) || (2047 : BitVec 32).slt off then .done .err
      else .done (.ok (r.opcode ||| ((off &&& 0xfff) <<< 20) ||| (x32 rs1 <<< 15) ||| (x32 rd <<< 7)))
    match ops with
    | [.xreg rd, .regOff off rs1] => fin rd rs1 (off.signExtend 32)
    | [.xreg rd, .xreg rs1, .num v] => fin rd rs1 v
    | _ => .done .err
  | .OP_RS_INDEX_R =>
    let fin (rs2 rs1 : BitVec 5) (off : BitVec 32) : Action :=
      if off.slt (-2048) || (2047 : BitVec 32).slt off then .done .err
      else
        let o := off &&& 0xfff
        .done (.ok (r.opcode ||| (((o >>> 5) &&& 0x7f) <<< 25) ||| (x32 rs2 <<< 20) ||| (x32 rs1 <<< 15) |||
          ((o &&& 0x1f) <<< 7)))
    match ops with
    | [.xreg rs2, .regOff off rs1] => fin rs2 rs1 (off.signExtend 32)
    | [.xreg rs2, .xreg rs1, .num v] => fin rs2 rs1 v
    | _ => .done .err
  | .OP_ALIAS_RD_RS1 =>
    match ops with
    | [.xreg a, .xreg b] => .done (.ok (r.opcode ||| (x32 a <<< 7) ||| (x32 b <<< 15)))
    | _ => .done .err
  | .OP_ALIAS_RD_RS2 =>
    match ops with
    | [.xreg a, .xreg b] => .done (.ok (r.opcode ||| (x32 a <<< 7) ||| (x32 b <<< 20)))
    | _ => .done .err
  | .OP_ALIAS_BR_RS_X0 =>
    match ops with
    | [.xreg a, .num v] =>
      match branchOffset ctx v with
      | none => .done .err
      | some o => .done (.ok (r.opcode ||| permBranch o ||| (x32 a <<< 15)))
    | _ => .done .err
  | .OP_ALIAS_BR_X0_RS =>
    match ops with
    | [.xreg a, .num v] =>
      match branchOffset ctx v with
      | none => .done .err
      | some o => .done (.ok (r.opcode ||| permBranch o ||| (x32 a <<< 20)))
    | _ => .done .err
  | .OP_ALIAS_BR_RS_RT =>
    match ops with
    | [.xreg a, .xreg b, .num v] =>
      match branchOffset ctx v with
      | none => .done .err
      | some o => .done (.ok (r.opcode ||| (permBranch o ||| (x32 a <<< 20) ||| (x32 b <<< 15))))
    | _ => .done .err
  | .OP_ALIAS_JAL =>
    if ops.length ≠ 1 then .continue_
    else match ops with
      | [.num v] =>
        match jalOffset ctx v with
        | none => .done .err
        | some o => .done (.ok (r.opcode ||| permJal o))
      | _ => .done .err
  | .OP_ALIAS_JALR =>
    if ops.length ≠ 1 then .continue_
    else match ops with
      | [.xreg a] => .done (.ok (r.opcode ||| (x32 a <<< 15)))
      | _ => .done .err
  | _ => .done .unmodelled

/-- the `for (n = 0; table_riscv[n].instr != NULL; n++)` loop; `rmSet` = `modifiers.rm != -1`.
    After it, `table_riscv_comp` holds only `c.*` names; falling through ends in
    print_error_unknown_operand_combo / print_error_unknown_instr: `err`. -/
def encodeRows (ctx : Ctx) (s : Stmt) : List Row → Bool → Result
  | [], _ => .err
  | r :: rest, rmSet =>
    if r.instr != s.mnemonic then encodeRows ctx s rest rmSet
    else if !modelled r.type then .unmodelled
    else
      -- `rm_given` (a rounding-mode operand was parsed) is false for every modelled statement: `Stmt` has no
      -- OPERAND_RM, so the `if (rm_given && ...)` block is skipped; `rmSet` only records `modifiers.rm == 7`
      let rmSet' := !(r.type == .OP_ALIAS_JAL || r.type == .OP_ALIAS_JALR)
      if s.fence != 0 && r.type != .OP_FENCE then encodeRows ctx s rest rmSet'
      else match rowAction ctx r s with
        | .done res => res
        | .continue_ => encodeRows ctx s rest rmSet'

/-- rows with the statement's mnemonic, in table order (what the loop can visit) -/
def rowsFor (m : String) : List Row := table.filter (fun r => r.instr == m)

/-- li / call / tail are handled before the table and are not modelled -/
def encode (ctx : Ctx) (s : Stmt) : Result :=
  if s.mnemonic == "li" || s.mnemonic == "call" || s.mnemonic == "tail" then .unmodelled
  else if s.operands.length > 6 then .err
  else encodeRows ctx s table false

end NakenVerif.Riscv.Asm
