/-
  Helper lemmas about the encoder model: the table loop only sees rows with the statement's mnemonic, and
  what an accepted statement looks like for each row type (inversion of `rowAction`).
-/
import NakenVerif.Riscv.Arch
import NakenVerif.Riscv.Asm
import NakenVerif.Riscv.Disasm
set_option linter.unusedSimpArgs false
set_option linter.unusedVariables false
namespace NakenVerif.Riscv.Asm
open NakenVerif.Generated.Riscv

theorem encodeRows_filter (ctx : Ctx) (s : Stmt) : ∀ (rows : List Row) (b : Bool),
    encodeRows ctx s rows b = encodeRows ctx s (rows.filter (fun r => r.instr == s.mnemonic)) b := by
  intro rows
  induction rows with
  | nil => intro b; rfl
  | cons r rest ih =>
    intro b
    by_cases h : (r.instr == s.mnemonic) = true
    · simp only [List.filter_cons, h, if_true]
      unfold encodeRows
      simp only [ih]
    · have h' : (r.instr == s.mnemonic) = false := by simpa using h
      simp only [List.filter_cons, h', Bool.false_eq_true, if_false]
      rw [encodeRows]
      simp only [bne, h', Bool.not_false, if_true]
      exact ih _

theorem branchOffset_some {ctx : Ctx} {v o : BitVec 32} (h : branchOffset ctx v = some o) :
    o = v - ctx.address ∧ o &&& 1 = 0 ∧ o.slt (-4096) = false ∧ (4095 : BitVec 32).sle o = false := by
  unfold branchOffset at h
  simp only at h
  split at h
  · cases h
  · rename_i h1
    split at h
    · cases h
    · rename_i h2
      injection h with h
      simp only [Bool.or_eq_true, not_or, Bool.not_eq_true] at h2
      simp only [ne_eq, Decidable.not_not] at h1
      subst h
      exact ⟨rfl, h1, h2.1, h2.2⟩

theorem jalOffset_some {ctx : Ctx} {v o : BitVec 32} (h : jalOffset ctx v = some o) :
    o = (v - ctx.address) &&& 0x1fffff ∧ (v - ctx.address) &&& 1 = 0 ∧
      (v - ctx.address).slt (-(1 <<< 20)) = false ∧ ((1 <<< 20) - 1 : BitVec 32).slt (v - ctx.address) = false := by
  unfold jalOffset at h
  simp only at h
  split at h
  · cases h
  · rename_i h1
    split at h
    · cases h
    · rename_i h2
      injection h with h
      simp only [Bool.or_eq_true, not_or, Bool.not_eq_true] at h2
      simp only [ne_eq, Decidable.not_not] at h1
      exact ⟨h.symm, h1, h2.1, h2.2⟩

/-! ### inversion of `rowAction` per row type -/
section inv
variable (ctx : Ctx) (r : Row) (s : Stmt) (w : BitVec 32)

theorem act_none (ht : r.type = .OP_NONE ∨ r.type = .OP_FFFF) (h : rowAction ctx r s = .done (.ok w)) :
    s.operands = [] ∧ w = r.opcode := by
  unfold rowAction at h
  rcases ht with ht | ht
  · rw [ht] at h; simp only at h
    split at h
    · cases h
    · rename_i hl; injection h with h; injection h with h
      exact ⟨List.length_eq_zero_iff.mp (by simpa using hl), h.symm⟩
  · rw [ht] at h; simp only at h
    split at h
    · cases h
    · rename_i hl; injection h with h; injection h with h
      exact ⟨List.length_eq_zero_iff.mp (by simpa using hl), h.symm⟩

theorem act_R (ht : r.type = .OP_R_TYPE) (h : rowAction ctx r s = .done (.ok w)) :
    ∃ a b c, s.operands = [.xreg a, .xreg b, .xreg c] ∧
      w = r.opcode ||| (x32 c <<< 20) ||| (x32 b <<< 15) ||| (x32 a <<< 7) := by
  unfold rowAction at h; rw [ht] at h; simp only at h
  split at h
  · rename_i a b c hops; injection h with h; injection h with h; exact ⟨a, b, c, hops, h.symm⟩
  · cases h

theorem act_I (ht : r.type = .OP_I_TYPE) (h : rowAction ctx r s = .done (.ok w)) :
    ∃ a b v, s.operands = [.xreg a, .xreg b, .num v] ∧ v.slt (-2048) = false ∧ (0xfff : BitVec 32).slt v = false ∧
      w = r.opcode ||| (v <<< 20) ||| (x32 b <<< 15) ||| (x32 a <<< 7) := by
  unfold rowAction at h; rw [ht] at h; simp only at h
  split at h
  · rename_i a b v hops
    split at h
    · cases h
    · rename_i hr
      injection h with h; injection h with h
      simp only [Bool.or_eq_true, not_or, Bool.not_eq_true] at hr
      exact ⟨a, b, v, hops, hr.1, hr.2, h.symm⟩
  · cases h

theorem act_SHIFT (ht : r.type = .OP_SHIFT) (h : rowAction ctx r s = .done (.ok w)) :
    ∃ a b v, s.operands = [.xreg a, .xreg b, .num v] ∧ v.slt 0 = false ∧ (31 : BitVec 32).slt v = false ∧
      w = r.opcode ||| (v <<< 20) ||| (x32 b <<< 15) ||| (x32 a <<< 7) := by
  unfold rowAction at h; rw [ht] at h; simp only at h
  split at h
  · rename_i a b v hops
    split at h
    · cases h
    · rename_i hr
      injection h with h; injection h with h
      simp only [Bool.or_eq_true, not_or, Bool.not_eq_true] at hr
      exact ⟨a, b, v, hops, hr.1, hr.2, h.symm⟩
  · cases h

theorem act_U (ht : r.type = .OP_U_TYPE) (h : rowAction ctx r s = .done (.ok w)) :
    ∃ a v, s.operands = [.xreg a, .num v] ∧ v.slt (-(1 <<< 19)) = false ∧ ((1 <<< 20) : BitVec 32).sle v = false ∧
      w = r.opcode ||| (v <<< 12) ||| (x32 a <<< 7) := by
  unfold rowAction at h; rw [ht] at h; simp only at h
  split at h
  · rename_i a v hops
    split at h
    · cases h
    · rename_i hr
      injection h with h; injection h with h
      simp only [Bool.or_eq_true, not_or, Bool.not_eq_true] at hr
      exact ⟨a, v, hops, hr.1, hr.2, h.symm⟩
  · cases h

theorem act_SB (ht : r.type = .OP_SB_TYPE) (h : rowAction ctx r s = .done (.ok w)) :
    ∃ a b v o, s.operands = [.xreg a, .xreg b, .num v] ∧ branchOffset ctx v = some o ∧
      w = r.opcode ||| (permBranch o ||| (x32 b <<< 20) ||| (x32 a <<< 15)) := by
  unfold rowAction at h; rw [ht] at h; simp only at h
  split at h
  · rename_i a b v hops
    split at h
    · cases h
    · rename_i o ho
      injection h with h; injection h with h
      exact ⟨a, b, v, o, hops, ho, h.symm⟩
  · cases h

theorem act_UJ (ht : r.type = .OP_UJ_TYPE) (h : rowAction ctx r s = .done (.ok w)) :
    ∃ a v o, s.operands = [.xreg a, .num v] ∧ jalOffset ctx v = some o ∧
      w = r.opcode ||| permJal o ||| (x32 a <<< 7) := by
  unfold rowAction at h; rw [ht] at h; simp only at h
  split at h
  · rename_i a v hops
    split at h
    · cases h
    · rename_i o ho
      injection h with h; injection h with h
      exact ⟨a, v, o, hops, ho, h.symm⟩
  · cases h

theorem act_FENCE (ht : r.type = .OP_FENCE) (h : rowAction ctx r s = .done (.ok w)) :
    s.operands = [] ∧ w = r.opcode ||| (s.fence.zeroExtend 32 <<< 20) := by
  unfold rowAction at h; rw [ht] at h; simp only at h
  split at h
  · cases h
  · rename_i hl; injection h with h; injection h with h
    exact ⟨List.length_eq_zero_iff.mp (by simpa using hl), h.symm⟩

theorem act_LOAD (ht : r.type = .OP_RD_INDEX_R) (h : rowAction ctx r s = .done (.ok w)) :
    ∃ rd rs1 off, (s.operands = [.xreg rd, .xreg rs1, .num off] ∨
        ∃ o16, s.operands = [.xreg rd, .regOff o16 rs1] ∧ off = o16.signExtend 32) ∧
      off.slt (-2048) = false ∧ (2047 : BitVec 32).slt off = false ∧
      w = r.opcode ||| ((off &&& 0xfff) <<< 20) ||| (x32 rs1 <<< 15) ||| (x32 rd <<< 7) := by
  unfold rowAction at h; rw [ht] at h; simp only at h
  split at h
  · rename_i rd o16 rs1 hops
    split at h
    · cases h
    · rename_i hr
      injection h with h; injection h with h
      simp only [Bool.or_eq_true, not_or, Bool.not_eq_true] at hr
      exact ⟨rd, rs1, _, Or.inr ⟨o16, hops, rfl⟩, hr.1, hr.2, h.symm⟩
  · rename_i rd rs1 v hops
    split at h
    · cases h
    · rename_i hr
      injection h with h; injection h with h
      simp only [Bool.or_eq_true, not_or, Bool.not_eq_true] at hr
      exact ⟨rd, rs1, v, Or.inl hops, hr.1, hr.2, h.symm⟩
  · cases h

theorem act_STORE (ht : r.type = .OP_RS_INDEX_R) (h : rowAction ctx r s = .done (.ok w)) :
    ∃ rs2 rs1 off, (s.operands = [.xreg rs2, .xreg rs1, .num off] ∨
        ∃ o16, s.operands = [.xreg rs2, .regOff o16 rs1] ∧ off = o16.signExtend 32) ∧
      off.slt (-2048) = false ∧ (2047 : BitVec 32).slt off = false ∧
      w = r.opcode ||| ((((off &&& 0xfff) >>> 5) &&& 0x7f) <<< 25) ||| (x32 rs2 <<< 20) ||| (x32 rs1 <<< 15) |||
        (((off &&& 0xfff) &&& 0x1f) <<< 7) := by
  unfold rowAction at h; rw [ht] at h; simp only at h
  split at h
  · rename_i rs2 o16 rs1 hops
    split at h
    · cases h
    · rename_i hr
      injection h with h; injection h with h
      simp only [Bool.or_eq_true, not_or, Bool.not_eq_true] at hr
      exact ⟨rs2, rs1, _, Or.inr ⟨o16, hops, rfl⟩, hr.1, hr.2, h.symm⟩
  · rename_i rs2 rs1 v hops
    split at h
    · cases h
    · rename_i hr
      injection h with h; injection h with h
      simp only [Bool.or_eq_true, not_or, Bool.not_eq_true] at hr
      exact ⟨rs2, rs1, v, Or.inl hops, hr.1, hr.2, h.symm⟩
  · cases h

theorem act_RD_RS1 (ht : r.type = .OP_ALIAS_RD_RS1) (h : rowAction ctx r s = .done (.ok w)) :
    ∃ a b, s.operands = [.xreg a, .xreg b] ∧ w = r.opcode ||| (x32 a <<< 7) ||| (x32 b <<< 15) := by
  unfold rowAction at h; rw [ht] at h; simp only at h
  split at h
  · rename_i a b hops; injection h with h; injection h with h; exact ⟨a, b, hops, h.symm⟩
  · cases h

theorem act_RD_RS2 (ht : r.type = .OP_ALIAS_RD_RS2) (h : rowAction ctx r s = .done (.ok w)) :
    ∃ a b, s.operands = [.xreg a, .xreg b] ∧ w = r.opcode ||| (x32 a <<< 7) ||| (x32 b <<< 20) := by
  unfold rowAction at h; rw [ht] at h; simp only at h
  split at h
  · rename_i a b hops; injection h with h; injection h with h; exact ⟨a, b, hops, h.symm⟩
  · cases h

theorem act_BR_RS_X0 (ht : r.type = .OP_ALIAS_BR_RS_X0) (h : rowAction ctx r s = .done (.ok w)) :
    ∃ a v o, s.operands = [.xreg a, .num v] ∧ branchOffset ctx v = some o ∧
      w = r.opcode ||| permBranch o ||| (x32 a <<< 15) := by
  unfold rowAction at h; rw [ht] at h; simp only at h
  split at h
  · rename_i a v hops
    split at h
    · cases h
    · rename_i o ho
      injection h with h; injection h with h
      exact ⟨a, v, o, hops, ho, h.symm⟩
  · cases h

theorem act_BR_X0_RS (ht : r.type = .OP_ALIAS_BR_X0_RS) (h : rowAction ctx r s = .done (.ok w)) :
    ∃ a v o, s.operands = [.xreg a, .num v] ∧ branchOffset ctx v = some o ∧
      w = r.opcode ||| permBranch o ||| (x32 a <<< 20) := by
  unfold rowAction at h; rw [ht] at h; simp only at h
  split at h
  · rename_i a v hops
    split at h
    · cases h
    · rename_i o ho
      injection h with h; injection h with h
      exact ⟨a, v, o, hops, ho, h.symm⟩
  · cases h

theorem act_BR_RS_RT (ht : r.type = .OP_ALIAS_BR_RS_RT) (h : rowAction ctx r s = .done (.ok w)) :
    ∃ a b v o, s.operands = [.xreg a, .xreg b, .num v] ∧ branchOffset ctx v = some o ∧
      w = r.opcode ||| (permBranch o ||| (x32 a <<< 20) ||| (x32 b <<< 15)) := by
  unfold rowAction at h; rw [ht] at h; simp only at h
  split at h
  · rename_i a b v hops
    split at h
    · cases h
    · rename_i o ho
      injection h with h; injection h with h
      exact ⟨a, b, v, o, hops, ho, h.symm⟩
  · cases h

theorem act_AJAL (ht : r.type = .OP_ALIAS_JAL) :
    (s.operands.length ≠ 1 → rowAction ctx r s = .continue_) ∧
    (rowAction ctx r s = .done (.ok w) →
      ∃ v o, s.operands = [.num v] ∧ jalOffset ctx v = some o ∧ w = r.opcode ||| permJal o) := by
  unfold rowAction; rw [ht]; simp only
  constructor
  · intro hl; rw [if_pos hl]
  · intro h
    split at h
    · cases h
    · split at h
      · rename_i v hops
        split at h
        · cases h
        · rename_i o ho
          injection h with h; injection h with h
          exact ⟨v, o, hops, ho, h.symm⟩
      · cases h

theorem act_AJALR (ht : r.type = .OP_ALIAS_JALR) :
    (s.operands.length ≠ 1 → rowAction ctx r s = .continue_) ∧
    (rowAction ctx r s = .done (.ok w) → ∃ a, s.operands = [.xreg a] ∧ w = r.opcode ||| (x32 a <<< 15)) := by
  unfold rowAction; rw [ht]; simp only
  constructor
  · intro hl; rw [if_pos hl]
  · intro h
    split at h
    · cases h
    · split at h
      · rename_i a hops
        injection h with h; injection h with h
        exact ⟨a, hops, h.symm⟩
      · cases h
end inv

end NakenVerif.Riscv.Asm
