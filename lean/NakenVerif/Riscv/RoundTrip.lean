/-
  C07 / C01(i) on the structured level: re-assembling the decoder's own reading of a word gives that word.
-/
import NakenVerif.Riscv.Props
set_option linter.unusedSimpArgs false
set_option linter.unusedVariables false
namespace NakenVerif.Riscv
open NakenVerif.Generated.Riscv Arch Asm Spec

/-- mask a row must have so that every bit of a matching word is either fixed by the row or printed as an operand -/
def expectedMask : OpType → BitVec 32
  | .OP_NONE | .OP_FFFF => 0xffffffff
  | .OP_R_TYPE | .OP_SHIFT => 0xfe00707f
  | .OP_U_TYPE => 0x0000007f
  | .OP_RD_INDEX_R | .OP_RS_INDEX_R => 0x0000707f
  | .OP_ALIAS_RD_RS1 => 0xfff0707f
  | .OP_ALIAS_RD_RS2 => 0xfe0ff07f
  | _ => 0

def acceptedText : OpType → Bool
  | .OP_NONE | .OP_FFFF | .OP_R_TYPE | .OP_U_TYPE | .OP_SHIFT | .OP_RD_INDEX_R | .OP_RS_INDEX_R
  | .OP_ALIAS_RD_RS1 | .OP_ALIAS_RD_RS2 => true
  | _ => false

/-- a row whose text the assembler accepts is, when it can match at all, the only row of its name, has the
    mask that prints every free bit, and is not one of the names intercepted before the table loop -/
def rtRowOK (r : Row) : Bool :=
  !(acceptedText r.type) || r.instr == "fence" || (r.opcode &&& r.mask != r.opcode) ||
    (rowsFor r.instr == [r] && r.mask == expectedMask r.type &&
      !(r.instr == "li" || r.instr == "call" || r.instr == "tail"))

/-- **Table obligation** (all 200+ rows, including the M/A/F/RV64 rows of the same operand types). -/
theorem table_rt_rows : ∀ r ∈ table, rtRowOK r = true := by decide +kernel

def fenceNone : Row := { instr := "fence", opcode := 0x0ff0000f#32, mask := 0xffffffff#32, type := .OP_NONE, flags := 0 }
def fenceFlags : Row := { instr := "fence", opcode := 0x0000000f#32, mask := 0xf00fffff#32, type := .OP_FENCE, flags := 0 }
theorem table_fence_rows : ∀ r ∈ table, (r.instr == "fence") = true → r = fenceNone ∨ r = fenceFlags := by
  decide +kernel

theorem table_fence_type : ∀ r ∈ table, r.type = .OP_FENCE → (r.instr == "fence") = true := by decide +kernel

/-- what the assembler model emits for `fence` with the flag set `f` (`f = 0`: no operands, the alias row
    `fence iorw, iorw`; otherwise the OP_FENCE row with the flags in bits 27..20) -/
theorem fence_encode (ctx : Ctx) (f : BitVec 8) :
    Asm.encode ctx ⟨"fence", [], f⟩ =
      .ok (if f = 0 then 0x0ff0000f#32 else 0x0000000f#32 ||| (f.zeroExtend 32 <<< 20)) := by
  rw [Asm.encode]
  simp only [show ("fence" == "li" || "fence" == "call" || "fence" == "tail") = false by decide, Bool.false_eq_true,
    if_false, List.length_nil, show ¬ (0 > 6) by decide]
  rw [encodeRows_filter]
  have : table.filter (fun r => r.instr == "fence") = [fenceNone, fenceFlags] := by decide +kernel
  simp only at this ⊢
  rw [this]
  by_cases hf : f = 0
  · subst hf; rfl
  · have hf' : (f == 0) = false := by simpa using hf
    simp [encodeRows, fenceNone, fenceFlags, modelled, hf', hf, rowAction]
    split <;> rfl

/-- **C01 (iii), `fence`.**  `fence` with naken_asm's flag operands (bits 7..0 = pi po pr pw si so sr sw), or
    without operands (the manual's pseudo-instruction `fence iorw, iorw`), is assembled to the word the
    architecture's decoder reads back as that FENCE.  (Both defects recorded earlier for `fence` are repaired in
    /repo: commits 9e8005a and c471bd0.) -/
theorem rv32i_fence_sound (ctx : Ctx) (f : BitVec 8) :
    ∃ w, Asm.encode ctx ⟨"fence", [], f⟩ = .ok w ∧ Arch.decode w = some (meaningFence f) ∧
      w = Arch.encode (meaningFence f) := by
  refine ⟨_, fence_encode ctx f, ?_⟩
  have h2 : (if f = 0 then 0x0ff0000f#32 else 0x0000000f#32 ||| (f.zeroExtend 32 <<< 20)) =
      Arch.encode (meaningFence f) := by
    unfold meaningFence
    split
    · decide
    · simp only [Arch.encode]; bv_decide
  rw [h2]
  exact ⟨Arch.decode_encode _, rfl⟩

example : Asm.encode ⟨0#32⟩ ⟨"fence", [], 0x21#8⟩ = .ok 0x0210000f#32 := by rw [fence_encode]; decide

theorem encode_rows' {ctx : Ctx} {s : Stmt} {w : BitVec 32}
    (hn : (s.mnemonic == "li" || s.mnemonic == "call" || s.mnemonic == "tail") = false)
    (h : Asm.encode ctx s = .ok w) : encodeRows ctx s (rowsFor s.mnemonic) false = .ok w := by
  unfold Asm.encode at h
  rw [hn] at h
  simp only [Bool.false_eq_true, if_false] at h
  split at h
  · cases h
  · rw [encodeRows_filter] at h; exact h

/-- the one word whose printed form loses information: `0x0000000f` is a FENCE with empty predecessor and
    successor sets; the OP_FENCE row prints it as `fence` with no flags, which the assembler reads as the
    pseudo-instruction `fence` = `fence iorw, iorw` (0x0ff0000f).  Both words decode to the same statement
    (mnemonic `fence`, no operands), which is the criterion of C07. -/
def lossyFence (w w' : BitVec 32) : Prop := w = 0x0000000f#32 ∧ w' = 0x0ff0000f#32

theorem toStmt_fence_iorw : Disasm.toStmt 0x0ff0000f#32 = some ⟨"fence", [], 0⟩ := by decide +kernel
theorem toStmt_fence_empty : Disasm.toStmt 0x0000000f#32 = some ⟨"fence", [], 0⟩ := by decide +kernel

/-- **C07 (and C01 i) on the structured level.**  For every 32-bit word `w`: if the assembler accepts the
    decoder's reading of `w` (`Disasm.toStmt`: mnemonic and operands of the printed text as `get_operands` takes
    them) at the same address, the bytes it produces decode to the same statement again; they are `w` itself
    except for the single word `0x0000000f` (`lossyFence`). -/
theorem rv32i_decode_encode_decode (ctx : Ctx) (w w' : BitVec 32) (s : Stmt)
    (hs : Disasm.toStmt w = some s) (he : Asm.encode ctx s = .ok w') :
    (w' = w ∨ lossyFence w w') ∧ Disasm.toStmt w' = some s := by
  suffices h : w' = w ∨ lossyFence w w' by
    rcases h with h | ⟨h1, h2⟩
    · subst h; exact ⟨Or.inl rfl, hs⟩
    · subst h1; subst h2
      rw [toStmt_fence_empty] at hs
      rw [← hs]; exact ⟨Or.inr ⟨rfl, rfl⟩, toStmt_fence_iorw⟩
  unfold Disasm.toStmt at hs
  split at hs
  · cases hs
  split at hs
  · cases hs
  rename_i r hfm
  have hmem : r ∈ table := List.mem_of_find?_eq_some hfm
  have hmatch : Disasm.rowMatches w r = true := List.find?_some hfm
  have hw : w &&& r.mask = r.opcode := by
    unfold Disasm.rowMatches at hmatch
    simp only [Bool.and_eq_true, beq_iff_eq] at hmatch
    exact hmatch.1
  have hself : r.opcode &&& r.mask = r.opcode := by rw [← hw, BitVec.and_assoc, BitVec.and_self]
  have hok := table_rt_rows r hmem
  by_cases hfence : (r.instr == "fence") = true
  · -- the two `fence` rows
    rcases table_fence_rows r hmem hfence with e | e
    · subst e
      simp only [fenceNone] at hs hw
      injection hs with hs; subst hs
      rw [fence_encode] at he; injection he with he; subst he
      simp only [if_true]
      left; bv_decide
    · subst e
      simp only [fenceFlags] at hs hw
      injection hs with hs; subst hs
      rw [fence_encode] at he; injection he with he; subst he
      split
      · rename_i hz
        right
        refine ⟨?_, rfl⟩
        bv_decide
      · left; bv_decide
  · left
    have hfence' : (r.instr == "fence") = false := by simpa using hfence
    have hne : (r.opcode &&& r.mask != r.opcode) = false := by simp [hself]
    -- facts about the row, once its type is known to be an accepted one
    have facts : acceptedText r.type = true → rowsFor r.instr = [r] ∧ r.mask = expectedMask r.type ∧
        (r.instr == "li" || r.instr == "call" || r.instr == "tail") = false := by
      intro ha
      unfold rtRowOK at hok
      simp only [ha, hfence', hne, Bool.not_true, Bool.false_or, Bool.and_eq_true, beq_iff_eq,
        Bool.not_eq_true'] at hok
      exact ⟨hok.1.1, hok.1.2, hok.2⟩
    cases ht : r.type
    all_goals (try (simp only [ht] at hs))
    all_goals (try (cases hs; done))
    case OP_FENCE =>
      have := table_fence_type r hmem ht
      rw [hfence'] at this; cases this
    all_goals (
      injection hs with hs; subst hs
      obtain ⟨hrows, hmask, hnames⟩ := facts (by rw [ht]; rfl)
      have hr := encode_rows' (s := ⟨r.instr, _, _⟩) hnames he
      simp only at hr
      rw [hrows] at hr
      obtain ⟨hact, _⟩ := rows1 (by simp) (by rw [ht]; rfl) hr
      rw [ht] at hmask
      simp only [expectedMask] at hmask
      rw [hmask] at hw)
    case OP_NONE =>
      obtain ⟨_, e⟩ := act_none ctx r _ w' (Or.inl ht) hact
      rw [e, ← hw]; bv_decide
    case OP_FFFF =>
      obtain ⟨_, e⟩ := act_none ctx r _ w' (Or.inr ht) hact
      rw [e, ← hw]; bv_decide
    case OP_R_TYPE =>
      obtain ⟨a, b, c, hops, e⟩ := act_R ctx r _ w' ht hact
      simp only [List.cons.injEq, Operand.xreg.injEq, and_true] at hops
      obtain ⟨h1, h2, h3⟩ := hops
      rw [e, ← h1, ← h2, ← h3, ← hw]; simp only [x32, Disasm.fRd, Disasm.fRs1, Disasm.fRs2]; bv_decide
    case OP_U_TYPE =>
      obtain ⟨a, v, hops, _, _, e⟩ := act_U ctx r _ w' ht hact
      simp only [List.cons.injEq, Operand.xreg.injEq, Operand.num.injEq, and_true] at hops
      obtain ⟨h1, h2⟩ := hops
      rw [e, ← h1, ← h2, ← hw]; simp only [x32, Disasm.fRd, Disasm.fRs1, Disasm.fRs2]; bv_decide
    case OP_SHIFT =>
      obtain ⟨a, b, v, hops, _, _, e⟩ := act_SHIFT ctx r _ w' ht hact
      simp only [List.cons.injEq, Operand.xreg.injEq, Operand.num.injEq, and_true] at hops
      obtain ⟨h1, h2, h3⟩ := hops
      rw [e, ← h1, ← h2, ← h3, ← hw]; simp only [x32, Disasm.fRd, Disasm.fRs1, Disasm.fRs2]; bv_decide
    case OP_RD_INDEX_R =>
      obtain ⟨rd, rs1, off, hshape, _, _, e⟩ := act_LOAD ctx r _ w' ht hact
      rcases hshape with hops | ⟨o16, hops, hoff⟩
      · simp at hops
      · simp only [List.cons.injEq, Operand.xreg.injEq, Operand.regOff.injEq, and_true] at hops
        obtain ⟨h1, h2, h3⟩ := hops
        rw [e, hoff, ← h1, ← h2, ← h3, ← hw]
        simp only [x32, Disasm.fRd, Disasm.fRs1, Disasm.fRs2, Disasm.simm12]; bv_decide
    case OP_RS_INDEX_R =>
      obtain ⟨rs2, rs1, off, hshape, _, _, e⟩ := act_STORE ctx r _ w' ht hact
      rcases hshape with hops | ⟨o16, hops, hoff⟩
      · simp at hops
      · simp only [List.cons.injEq, Operand.xreg.injEq, Operand.regOff.injEq, and_true] at hops
        obtain ⟨h1, h2, h3⟩ := hops
        rw [e, hoff, ← h1, ← h2, ← h3, ← hw]
        simp only [x32, Disasm.fRd, Disasm.fRs1, Disasm.fRs2, Disasm.storeImm]; bv_decide
    case OP_ALIAS_RD_RS1 =>
      obtain ⟨a, b, hops, e⟩ := act_RD_RS1 ctx r _ w' ht hact
      simp only [List.cons.injEq, Operand.xreg.injEq, and_true] at hops
      obtain ⟨h1, h2⟩ := hops
      rw [e, ← h1, ← h2, ← hw]; simp only [x32, Disasm.fRd, Disasm.fRs1, Disasm.fRs2]; bv_decide
    case OP_ALIAS_RD_RS2 =>
      obtain ⟨a, b, hops, e⟩ := act_RD_RS2 ctx r _ w' ht hact
      simp only [List.cons.injEq, Operand.xreg.injEq, and_true] at hops
      obtain ⟨h1, h2⟩ := hops
      rw [e, ← h1, ← h2, ← hw]; simp only [x32, Disasm.fRd, Disasm.fRs1, Disasm.fRs2]; bv_decide

/-- **C01 (i) on the structured level**: for an accepted statement, re-assembling the decoder's reading of the
    emitted word (when the assembler accepts it) gives the same word. -/
theorem rv32i_fixpoint_structured (ctx : Ctx) (s s' : Stmt) (w w' : BitVec 32) (_h : Asm.encode ctx s = .ok w)
    (hs : Disasm.toStmt w = some s') (he : Asm.encode ctx s' = .ok w') : w' = w ∨ lossyFence w w' :=
  (rv32i_decode_encode_decode ctx w w' s' hs he).1

example : Disasm.toStmt 0x00a12423#32 = some ⟨"sw", [.xreg 10, .regOff 8 2], 0⟩ := by decide +kernel
example : Asm.encode ⟨0#32⟩ ⟨"sw", [.xreg 10, .regOff 8 2], 0⟩ = .ok 0x00a12423#32 := rfl

/-- **Observation (outside C07's hypothesis, the text is rejected by the assembler).**  The masks of the alias
    rows `blez`/`bgez` and `bgtz`/`bltz` are exchanged in `table_riscv[]`: `bge t0, zero` (= `bgez t0`,
    0x0002d063) is matched by the `blez` row, which prints rs2 — "blez zero, …" — although the architecture
    decodes a comparison of t0 with zero. -/
theorem branch_zero_alias_counterexample :
    (Disasm.firstMatch 0x0002d063#32).map (fun r => (r.instr, r.type)) = some ("blez", .OP_ALIAS_BR_X0_RS) ∧
    Disasm.fRs2 0x0002d063#32 = 0 ∧
    Arch.decode 0x0002d063#32 = some (.branch .bge 5 0 0) := by
  refine ⟨by decide +kernel, by decide, by decide⟩

end NakenVerif.Riscv
