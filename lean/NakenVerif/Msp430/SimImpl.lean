/-
  Implementation model of simulate/msp430.cpp, simulate/msp430.h (flag helpers),
  the ram_read*/ram_write* functions of simulate/Simulate.cpp over core/Memory.cpp, and
  get_cycle_count of disasm/msp430.cpp.

  `step` is exactly one iteration of the loop in `SimulateMsp430::run`:
  fetch `ram_read16(pc)`, cycle count, `reg[0] += 2`, dispatch to
  `one_operand_exe` / `relative_jump_exe` / `two_operand_exe`.

  Representation.
  * `uint16_t reg[16]` is the 256-bit vector of its storage (`getReg`/`setReg` select a 16-bit
    lane), so that everything about the register file is a bit-vector statement.
    Every *computed* index (`reg_index`, `src_reg`, `dst_reg`: C `int`s) goes through `idx`,
    which yields `none` = fault when it is not below 16.
  * `Memory` is a function from 32-bit addresses to bytes (a byte never written reads 0);
    `Memory::read16/write16` are little endian and compute `address + 1` in `uint32_t`.
  * C `int`/`uint32_t` values are `BitVec 32`, `uint16_t` is `BitVec 16`.  `int ea = -1`
    is `0xffffffff`; `put_data` returns without writing for it, and word writes clear bit 0 of the address.
  * `Simulate::ram_write*` call `exit(data)` when the address equals `break_io`: every write
    is recorded in `writes` (address, byte) and `brk` keeps the exit status of the first hit.
-/
import Std.Tactic.BVDecide

namespace NakenVerif.Msp430.Sim

/-- `uint16_t reg[16]` -/
scoped notation "Regs" => BitVec 256
/-- Memory contents: `Memory::read8` of every 32-bit address. -/
abbrev Mem := BitVec 32 → BitVec 8

def lane (i : BitVec 4) : BitVec 8 := (i.zeroExtend 8) <<< 4

def getReg (r : Regs) (i : BitVec 4) : BitVec 16 := (r >>> lane i).truncate 16

def setReg (r : Regs) (i : BitVec 4) (v : BitVec 16) : Regs :=
  (r &&& ~~~((0xffff#256) <<< lane i)) ||| ((v.zeroExtend 256) <<< lane i)

/-- A computed C array index into `reg[16]`. -/
def idx (i : BitVec 32) : Option (BitVec 4) := if i < 16 then some (i.truncate 4) else none

/-! ### Memory (core/Memory.cpp, little endian) -/

def read8 (m : Mem) (a : BitVec 32) : BitVec 8 := m a

def read16 (m : Mem) (a : BitVec 32) : BitVec 16 :=
  (m a).zeroExtend 16 ||| ((m (a + 1)).zeroExtend 16 <<< 8)

def write8 (m : Mem) (a : BitVec 32) (v : BitVec 8) : Mem := fun x => if x = a then v else m x

def write16 (m : Mem) (a : BitVec 32) (v : BitVec 16) : Mem :=
  write8 (write8 m a (v.truncate 8)) (a + 1) ((v >>> 8).truncate 8)

/-! ### Machine state threaded through one instruction -/

/-- Registers, memory and the bookkeeping that `one_operand_exe` etc. can change. -/
structure Core where
  regs : Regs
  mem : Mem
  ncc : Int                                   -- nested_call_count
  writes : List (BitVec 32 × BitVec 8)        -- Memory::write8 calls, oldest first
  brk : Option (BitVec 8)                     -- exit status if a write hit break_io

def ramWrite8 (bio : BitVec 32) (c : Core) (a : BitVec 32) (v : BitVec 8) : Core :=
  { c with mem := write8 c.mem a v, writes := c.writes ++ [(a, v)],
           brk := if c.brk.isNone ∧ a = bio then some v else c.brk }

def ramWrite16 (bio : BitVec 32) (c : Core) (a : BitVec 32) (v : BitVec 16) : Core :=
  { c with mem := write16 c.mem a v,
           writes := c.writes ++ [(a, v.truncate 8), (a + 1, (v >>> 8).truncate 8)],
           brk := if c.brk.isNone ∧ a = bio then some (v.truncate 8) else c.brk }

/-! ### Flag helpers of simulate/msp430.h (all act on `reg[2]`) -/

def FLAG_C : BitVec 16 := 0x0001
def FLAG_Z : BitVec 16 := 0x0002
def FLAG_N : BitVec 16 := 0x0004
def FLAG_V : BitVec 16 := 0x0100

def setFlag (r : Regs) (f : BitVec 16) : Regs := setReg r 2 (getReg r 2 ||| f)
def clearFlag (r : Regs) (f : BitVec 16) : Regs := setReg r 2 (getReg r 2 &&& (0xffff ^^^ f))
def putFlag (r : Regs) (f : BitVec 16) (b : Bool) : Regs := if b then setFlag r f else clearFlag r f
/-- `get_c()` etc.: 0 or 1 as a C int -/
def getFlag (r : Regs) (f : BitVec 16) : BitVec 32 := if getReg r 2 &&& f = 0 then 0 else 1

/-- `update_nz(int value, int bw)` -/
def updateNZ (r : Regs) (value : BitVec 32) (bw : Bool) : Regs :=
  if bw then
    let r := putFlag r FLAG_N (value &&& 0x80 ≠ 0)
    putFlag r FLAG_Z (value &&& 0xff = 0)
  else
    let r := putFlag r FLAG_N (value &&& 0x8000 ≠ 0)
    putFlag r FLAG_Z (value &&& 0xffff = 0)

/-- `update_c(int value, int bw)` -/
def updateC (r : Regs) (value : BitVec 32) (bw : Bool) : Regs :=
  if bw then putFlag r FLAG_C (¬ (value &&& 0xffffff00 = 0))
  else putFlag r FLAG_C (¬ (value &&& 0xffff0000 = 0))

/-- `update_v(int dst, int src, int result, int bw)` -/
def updateV (r : Regs) (dst src result : BitVec 32) (bw : Bool) : Regs :=
  if bw then
    let d := dst.truncate 8 &&& 0x80#8
    let s := src.truncate 8 &&& 0x80#8
    let q := result.truncate 8 &&& 0x80#8
    putFlag r FLAG_V (d = s ∧ q ≠ d)
  else
    let d := dst.truncate 16 &&& 0x8000#16
    let s := src.truncate 16 &&& 0x8000#16
    let q := result.truncate 16 &&& 0x8000#16
    putFlag r FLAG_V (d = s ∧ q ≠ d)

/-! ### get_data / update_reg / put_data -/

structure GD where
  val : BitVec 16
  ea : BitVec 32        -- `int ea`; -1 when the operand has no address
  regs : Regs

def EA_NONE : BitVec 32 := 0xffffffff

/-- the tail shared by the memory modes: `if (do_mem_read) { word / byte read } return 0` -/
def memOperand (m : Mem) (ea : BitVec 32) (bw doRead : Bool) : BitVec 16 :=
  if doRead then (if bw then (read8 m ea).zeroExtend 16 else read16 m ea) else 0

/-- `uint16_t get_data(int reg_index, int As, int bw, int &ea, bool do_mem_read)` -/
def getData (regs : Regs) (m : Mem) (ri : BitVec 4) (as : BitVec 2) (bw doRead : Bool) : GD :=
  let pc : BitVec 32 := (getReg regs 0).zeroExtend 32           -- const int PC = reg[0]
  if ri = 3 then                                                 -- CG
    { val := if as = 0 then 0 else if as = 1 then 1 else if as = 2 then 2
             else (if bw then 0xff else 0xffff),
      ea := EA_NONE, regs := regs }
  else if as = 0 then                                            -- Rn
    { val := if bw then getReg regs ri &&& 0xff else getReg regs ri, ea := EA_NONE, regs := regs }
  else if ri = 2 then
    if as = 1 then                                               -- &LABEL
      let ea := (read16 m pc).zeroExtend 32
      { val := memOperand m ea bw doRead, ea := ea, regs := setReg regs 0 (getReg regs 0 + 2) }
    else
      { val := if as = 2 then 4 else 8, ea := EA_NONE, regs := regs }
  else if ri = 0 ∧ as = 3 then                                   -- #immediate
    let a := read16 m pc
    { val := if bw then a &&& 0xff else a, ea := EA_NONE, regs := setReg regs 0 (getReg regs 0 + 2) }
  else if as = 1 then                                            -- x(Rn)
    let a := read16 m pc
    let ea := ((getReg regs ri).zeroExtend 32 + a.signExtend 32) &&& 0xffff
    { val := memOperand m ea bw doRead, ea := ea, regs := setReg regs 0 (getReg regs 0 + 2) }
  else                                                           -- @Rn, @Rn+
    let ea := (getReg regs ri).zeroExtend 32
    { val := memOperand m ea bw doRead, ea := ea, regs := regs }

/-- `void update_reg(int reg_index, int mode, int bw)` -/
def updateReg (regs : Regs) (ri : BitVec 4) (mode : BitVec 2) (bw : Bool) : Regs :=
  if ri = 0 ∨ ri = 2 ∨ ri = 3 then regs
  else if mode = 3 then
    if ¬ bw ∨ ri = 1 then setReg regs ri (getReg regs ri + 2) else setReg regs ri (getReg regs ri + 1)
  else regs

/-- `int put_data(int ea, int reg_index, int mode, int bw, uint32_t data)`;
    `mode` is `As` (two bits) for single-operand and `Ad` (one bit) for two-operand instructions:
    only "is it 0" matters. -/
def putData (bio : BitVec 32) (c : Core) (ea : BitVec 32) (ri : BitVec 4) (modeIsReg : Bool) (bw : Bool)
    (data : BitVec 32) : Core :=
  if modeIsReg then
    { c with regs := setReg c.regs ri (if bw then data.truncate 16 &&& 0xff else data.truncate 16) }
  else if ea = EA_NONE then c                         -- `if (ea == -1) { return 0; }`
  else if bw then ramWrite8 bio c ea (data.truncate 8)
  else ramWrite16 bio c (ea &&& 0xfffe) (data.truncate 16)   -- `ram_write16(ea & 0xfffe, data)`

/-! ### one_operand_exe -/

/-- return value of the `*_exe` functions: `ret == -1` is all the caller looks at -/
structure Exe where
  core : Core
  illegal : Bool

/-- the `switch (o)` of one_operand_exe for o = 0..5, on the decoded fields -/
def oneOp (bio : BitVec 32) (c : Core) (o : BitVec 3) (ri : BitVec 4) (as : BitVec 2) (bw : Bool) : Core :=
  if o = 0 then                                              -- RRC
    let g := getData c.regs c.mem ri as bw true
    let src : BitVec 32 := g.val.zeroExtend 32
    let cf := getFlag g.regs FLAG_C
    let r := putFlag g.regs FLAG_C (src &&& 1 = 1)
    let result : BitVec 32 :=
      if bw then (cf <<< 7) ||| ((src.truncate 8 : BitVec 8) >>> 1).zeroExtend 32
      else (cf <<< 15) ||| ((src.truncate 16 : BitVec 16) >>> 1).zeroExtend 32
    let c := putData bio { c with regs := r } g.ea ri (as = 0) bw result
    let r := updateReg c.regs ri as bw
    let r := updateNZ r result bw
    { c with regs := clearFlag r FLAG_V }
  else if o = 1 then                                         -- SWPB
    let g := getData c.regs c.mem ri as bw true
    let src : BitVec 32 := g.val.zeroExtend 32
    let result := ((src &&& 0xff00) >>> 8) ||| ((src &&& 0xff) <<< 8)
    let c := putData bio { c with regs := g.regs } g.ea ri (as = 0) bw result
    { c with regs := updateReg c.regs ri as bw }
  else if o = 2 then                                         -- RRA
    let g := getData c.regs c.mem ri as bw true
    let src : BitVec 32 := g.val.zeroExtend 32
    let r := putFlag g.regs FLAG_C (src &&& 1 = 1)
    let result : BitVec 32 :=
      if bw then ((src.truncate 8 : BitVec 8).signExtend 32).sshiftRight 1
      else ((src.truncate 16 : BitVec 16).signExtend 32).sshiftRight 1
    let c := putData bio { c with regs := r } g.ea ri (as = 0) bw result
    let r := updateReg c.regs ri as bw
    let r := updateNZ r result bw
    { c with regs := clearFlag r FLAG_V }
  else if o = 3 then                                         -- SXT
    let g := getData c.regs c.mem ri as bw true
    let src : BitVec 32 := g.val.zeroExtend 32
    let result : BitVec 32 := (src.truncate 8 : BitVec 8).signExtend 32
    let c := putData bio { c with regs := g.regs } g.ea ri (as = 0) bw result
    let r := updateReg c.regs ri as bw
    let r := updateNZ r result bw
    let r := putFlag r FLAG_C (result &&& 0xffff ≠ 0)
    { c with regs := clearFlag r FLAG_V }
  else if o = 4 then                                         -- PUSH
    let r := setReg c.regs 1 (getReg c.regs 1 - 2)
    let g := getData r c.mem ri as bw true
    let r := updateReg g.regs ri as bw
    ramWrite16 bio { c with regs := r } ((getReg r 1).zeroExtend 32 &&& 0xfffe) g.val
  else                                                       -- o = 5: CALL
    let g := getData c.regs c.mem ri as bw true
    let r := updateReg g.regs ri as bw
    let r := setReg r 1 (getReg r 1 - 2)
    let c := ramWrite16 bio { c with regs := r } ((getReg r 1).zeroExtend 32 &&& 0xfffe) (getReg r 0)
    { c with regs := setReg c.regs 0 g.val, ncc := c.ncc + 1 }

/-- RETI: `reg[2] = ram_read16(reg[1]); reg[1] += 2; reg[0] = ram_read16(reg[1]); reg[1] += 2;` -/
def reti (c : Core) : Core :=
  let r := c.regs
  let r := setReg r 2 (read16 c.mem ((getReg r 1).zeroExtend 32))
  let r := setReg r 1 (getReg r 1 + 2)
  let r := setReg r 0 (read16 c.mem ((getReg r 1).zeroExtend 32))
  let r := setReg r 1 (getReg r 1 + 2)
  { c with regs := r }

def oneOperandExe (bio : BitVec 32) (c : Core) (opcode : BitVec 16) : Option Exe :=
  let o : BitVec 3 := opcode.extractLsb' 7 3
  if o = 7 then some ⟨c, false⟩                                  -- return 1
  else if o = 6 then some ⟨reti c, false⟩                        -- RETI
  else
    let as : BitVec 2 := opcode.extractLsb' 4 2
    let bw : Bool := opcode.extractLsb' 6 1 = 1
    match idx (opcode.zeroExtend 32 &&& 0x000f) with             -- reg_index
    | none => none
    | some ri => some ⟨oneOp bio c o ri as bw, false⟩

/-! ### relative_jump_exe -/

def jumpOffset (opcode : BitVec 16) : BitVec 32 :=
  let offset : BitVec 32 := opcode.zeroExtend 32 &&& 0x03ff
  let offset := if offset &&& 0x0200 ≠ 0 then -((offset ^^^ 0x03ff) + 1) else offset
  offset * 2

def relativeJumpExe (c : Core) (opcode : BitVec 16) : Exe :=
  let o : BitVec 3 := opcode.extractLsb' 10 3
  let r := c.regs
  let jump : Regs := setReg r 0 (getReg r 0 + (jumpOffset opcode).truncate 16)   -- reg[0] += offset
  let z := getFlag r FLAG_Z
  let cf := getFlag r FLAG_C
  let n := getFlag r FLAG_N
  let v := getFlag r FLAG_V
  let taken : Bool :=
    if o = 0 then z = 0 else if o = 1 then z = 1 else if o = 2 then cf = 0 else if o = 3 then cf = 1
    else if o = 4 then n = 1 else if o = 5 then (n ^^^ v) = 0 else if o = 6 then (n ^^^ v) = 1 else true
  ⟨{ c with regs := if taken then jump else r }, false⟩

/-! ### two_operand_exe -/

/-- the decimal adjust of DADD, word form (C `int` arithmetic; all values are non-negative) -/
def daddWord (src dst cf : BitVec 32) : BitVec 32 × Bool :=
  let a := (src &&& 0xf) + (dst &&& 0xf) + cf
  let a := ((((src >>> 4) &&& 0xf) + ((dst >>> 4) &&& 0xf) + (a / 10)) <<< 4) ||| (a % 10)
  let a := ((((src >>> 8) &&& 0xf) + ((dst >>> 8) &&& 0xf) + ((a >>> 4) / 10)) <<< 8) |||
           (((a >>> 4) % 10) <<< 4) ||| (a &&& 0xf)
  let a := ((((src >>> 12) &&& 0xf) + ((dst >>> 12) &&& 0xf) + ((a >>> 8) / 10)) <<< 12) |||
           (((a >>> 8) % 10) <<< 8) ||| (a &&& 0xff)
  if (a >>> 12) ≥ 10 then ((((a >>> 12) % 10) <<< 12) ||| (a &&& 0xfff), true) else (a, false)

def daddByte (src dst cf : BitVec 32) : BitVec 32 × Bool :=
  let a := (src &&& 0xf) + (dst &&& 0xf) + cf
  let a := ((((src >>> 4) &&& 0xf) + ((dst >>> 4) &&& 0xf) + (a / 10)) <<< 4) ||| (a % 10)
  if (a >>> 4) ≥ 10 then ((((a >>> 4) % 10) <<< 4) ||| (a &&& 0x0f), true) else (a, false)

/-- the common prologue `src = get_data(src_reg…); update_reg(src_reg…); dst = get_data(dst_reg…)` -/
structure Operands where
  src : BitVec 32
  dst : BitVec 32
  ea : BitVec 32
  regs : Regs

def operands (regs : Regs) (m : Mem) (sr dr : BitVec 4) (as : BitVec 2) (ad bw doRead : Bool) : Operands :=
  let g := getData regs m sr as bw true
  let r := updateReg g.regs sr as bw
  let h := getData r m dr (if ad then 1 else 0) bw doRead
  { src := g.val.zeroExtend 32, dst := h.val.zeroExtend 32, ea := h.ea, regs := h.regs }

/-- the `switch (o)` of two_operand_exe on the decoded fields -/
def twoOp (bio : BitVec 32) (c : Core) (o sr dr : BitVec 4) (as : BitVec 2) (ad bw : Bool) : Exe :=
  if o < 4 then ⟨c, true⟩                                  -- return -1
  else if o = 4 then                                           -- MOV
    let p := operands c.regs c.mem sr dr as ad bw false
    ⟨putData bio { c with regs := p.regs } p.ea dr (!ad) bw p.src, false⟩
  else if o = 5 ∨ o = 6 then                                   -- ADD, ADDC
    let p := operands c.regs c.mem sr dr as ad bw true
    let dst := if bw then p.dst &&& 0xff else p.dst
    let src := if bw then p.src &&& 0xff else p.src
    let result : BitVec 32 :=
      (dst.truncate 16 : BitVec 16).zeroExtend 32 + (src.truncate 16 : BitVec 16).zeroExtend 32 +
        (if o = 6 then getFlag p.regs FLAG_C else 0)
    let r := updateV p.regs dst src result bw
    let dst := result &&& 0xffff
    let c := putData bio { c with regs := r } p.ea dr (!ad) bw dst
    let r := updateNZ c.regs dst bw
    ⟨{ c with regs := updateC r result bw }, false⟩
  else if o = 7 ∨ o = 8 ∨ o = 9 then                           -- SUBC, SUB, CMP
    let p := operands c.regs c.mem sr dr as ad bw true
    let src : BitVec 32 := (~~~ ((p.src.truncate 16 : BitVec 16).zeroExtend 32)) &&& 0xffff
    let dst := if bw then p.dst &&& 0xff else p.dst
    let src := if bw then src &&& 0xff else src
    let result : BitVec 32 := dst + src + (if o = 7 then getFlag p.regs FLAG_C else 1)
    let r := updateV p.regs dst src result bw
    let dst := result &&& 0xffff
    let c := if o = 9 then { c with regs := r } else putData bio { c with regs := r } p.ea dr (!ad) bw dst
    let r := updateNZ c.regs dst bw
    ⟨{ c with regs := updateC r result bw }, false⟩
  else if o = 10 then                                          -- DADD
    let p := operands c.regs c.mem sr dr as ad bw true
    let cf := getFlag p.regs FLAG_C
    let q := if bw then daddByte p.src p.dst cf else daddWord p.src p.dst cf
    let result := q.1
    let r := putFlag p.regs FLAG_C q.2
    let c := putData bio { c with regs := r } p.ea dr (!ad) bw result
    ⟨{ c with regs := updateNZ c.regs result bw }, false⟩
  else if o = 11 then                                          -- BIT
    let p := operands c.regs c.mem sr dr as ad bw true
    let result := p.src &&& p.dst
    let r := updateNZ p.regs result bw
    let r := putFlag r FLAG_C (result ≠ 0)
    ⟨{ c with regs := clearFlag r FLAG_V }, false⟩
  else if o = 12 then                                          -- BIC
    let p := operands c.regs c.mem sr dr as ad bw true
    ⟨putData bio { c with regs := p.regs } p.ea dr (!ad) bw ((~~~ p.src) &&& p.dst), false⟩
  else if o = 13 then                                          -- BIS
    let p := operands c.regs c.mem sr dr as ad bw true
    ⟨putData bio { c with regs := p.regs } p.ea dr (!ad) bw (p.src ||| p.dst), false⟩
  else if o = 14 then                                          -- XOR
    let p := operands c.regs c.mem sr dr as ad bw true
    let result := p.src ^^^ p.dst
    let c := putData bio { c with regs := p.regs } p.ea dr (!ad) bw result
    let r := updateNZ c.regs result bw
    let r := putFlag r FLAG_C (result ≠ 0)
    let v : Bool := if bw then (p.src &&& 0x80 ≠ 0 ∧ p.dst &&& 0x80 ≠ 0)
                    else (p.src &&& 0x8000 ≠ 0 ∧ p.dst &&& 0x8000 ≠ 0)
    ⟨{ c with regs := putFlag r FLAG_V v }, false⟩
  else                                                         -- o = 15: AND
    let p := operands c.regs c.mem sr dr as ad bw true
    let result := p.src &&& p.dst
    let c := putData bio { c with regs := p.regs } p.ea dr (!ad) bw result
    let r := updateNZ c.regs result bw
    let r := putFlag r FLAG_C (result ≠ 0)
    ⟨{ c with regs := clearFlag r FLAG_V }, false⟩

def twoOperandExe (bio : BitVec 32) (c : Core) (opcode : BitVec 16) : Option Exe :=
  let o : BitVec 4 := opcode.extractLsb' 12 4
  let ad : Bool := opcode.extractLsb' 7 1 = 1
  let as : BitVec 2 := opcode.extractLsb' 4 2
  let bw : Bool := opcode.extractLsb' 6 1 = 1
  match idx ((opcode.zeroExtend 32 >>> 8) &&& 0x000f), idx (opcode.zeroExtend 32 &&& 0x000f) with   -- src_reg, dst_reg
  | some sr, some dr => some (twoOp bio c o sr dr as ad bw)
  | _, _ => none

/-! ### get_cycle_count (disasm/msp430.cpp) -/

def getCycleCount (opcode : BitVec 16) : Int :=
  let as0 : BitVec 2 := opcode.extractLsb' 4 2
  if opcode &&& 0xfc00 = 0x1000 then
    let o : BitVec 3 := opcode.extractLsb' 7 3
    let sr : BitVec 4 := opcode.extractLsb' 0 4
    if opcode &&& 0x0040 ≠ 0 ∧ (o = 1 ∨ o = 3 ∨ o = 5 ∨ o = 6) then -1
    else
      let as : BitVec 2 := if sr = 3 ∨ (sr = 2 ∧ as0 &&& 2 = 2) then 0 else as0
      if o = 6 then 5
      else if o = 7 then -1
      else if o = 5 then (if as = 1 then 5 else if as = 2 then 4 else if as = 3 then 5 else 4)
      else if o = 4 then
        (if as = 1 then 5 else if as = 2 then 4 else if as = 3 then (if sr = 0 then 4 else 5) else 3)
      else if as = 1 then 4 else if as = 2 then 3
      else if as = 3 then (if sr = 0 then -1 else 3) else 1
  else if opcode &&& 0xe000 = 0x2000 then 2
  else
    let sr : BitVec 4 := opcode.extractLsb' 8 4
    let dr : BitVec 4 := opcode.extractLsb' 0 4
    let as : BitVec 2 := if sr = 3 ∨ (sr = 2 ∧ as0 &&& 2 = 2) then 0 else as0
    let ad : Bool := if dr = 3 then false else opcode.extractLsb' 7 1 = 1
    if opcode >>> 12 < 4 then -1
    else if as = 1 then (if ad then 6 else 3)
    else if as = 3 then (if dr = 0 then 3 else if ¬ ad then 2 else 5)
    else if as = 2 then (if dr = 0 then 2 else if ¬ ad then 2 else 5)
    else (if dr = 0 then 2 else if ¬ ad then 1 else 4)

/-! ### One iteration of the loop of `SimulateMsp430::run` -/

structure SimState where
  regs : Regs
  mem : Mem
  cycleCount : Int
  nestedCallCount : Int
  breakIo : BitVec 32

structure StepOut where
  state : SimState
  illegal : Bool                                 -- `ret == -1`: "Illegal instruction"
  writes : List (BitVec 32 × BitVec 8)

inductive StepResult where
  | ok (o : StepOut)
  | exit (status : BitVec 8)                     -- Simulate::ram_write* called exit()
  | fault                                        -- a `reg[]` index outside 0..15

def fetch (s : SimState) : BitVec 16 := read16 s.mem ((getReg s.regs 0).zeroExtend 32)

/-- dispatch of one fetched opcode on a core whose PC was already advanced -/
def exec (bio : BitVec 32) (c : Core) (opcode : BitVec 16) : Option Exe :=
  if opcode &&& 0xfc00 = 0x1000 then oneOperandExe bio c opcode
  else if opcode &&& 0xe000 = 0x2000 then some (relativeJumpExe c opcode)
  else twoOperandExe bio { c with ncc := if opcode = 0x4130 then c.ncc - 1 else c.ncc } opcode

def step (s : SimState) : StepResult :=
  let opcode := fetch s
  let cyc := getCycleCount opcode
  let c : Core := { regs := setReg s.regs 0 (getReg s.regs 0 + 2), mem := s.mem, ncc := s.nestedCallCount,
                    writes := [], brk := none }
  match exec s.breakIo c opcode with
  | none => .fault
  | some e =>
    match e.core.brk with
    | some status => .exit status
    | none =>
      .ok { state := { regs := e.core.regs, mem := e.core.mem,
                       cycleCount := if cyc > 0 then s.cycleCount + cyc else s.cycleCount,
                       nestedCallCount := e.core.ncc, breakIo := s.breakIo },
            illegal := e.illegal, writes := e.core.writes }

/-! ### The `-run` loop (auto_run) -/

inductive RunEnd where
  | finalRet          -- `auto_run && nested_call_count < 0`
  | illegal           -- return -1
  | stopped           -- cycles > max_cycles
  | pcFFFF            -- "Function ended": PC reached 0xffff
  | exit (status : BitVec 8)
  | fault
  | fuel
  deriving DecidableEq, Repr

/-- `run(max_cycles, 0)` with `auto_run` set, no break point, delay > 0.  `cycles` is the local
    counter of the call.  Fuel bounds the number of iterations of the model only. -/
def run (fuel : Nat) (maxCycles : Option Int) (s : SimState) (cycles : Int := 0) : RunEnd × SimState :=
  match fuel with
  | 0 => (.fuel, s)
  | fuel + 1 =>
    let c := getCycleCount (fetch s)
    match step s with
    | .fault => (.fault, s)
    | .exit st => (.exit st, s)
    | .ok o =>
      let cycles := if c > 0 then cycles + c else cycles
      if o.state.nestedCallCount < 0 then (.finalRet, o.state)
      else if o.illegal then (.illegal, o.state)
      else if (match maxCycles with | some m => decide (cycles > m) | none => false) then (.stopped, o.state)
      else if getReg o.state.regs 0 = 0xffff then
        (.pcFFFF, { o.state with regs := setReg o.state.regs 0 (read16 o.state.mem 0xfffe) })
      else run fuel maxCycles o.state cycles

end NakenVerif.Msp430.Sim
