/-
  MSP430 part of property C06: a numeric operand that does not fit its field is rejected; accepted statements
  with the same words mean the same instruction (field values agree modulo the field width); jump distances.
-/
import NakenVerif.Msp430.AsmSound
set_option linter.unusedSimpArgs false
set_option linter.unusedVariables false
namespace NakenVerif.Msp430
open NakenVerif.Generated.Msp430Dis NakenVerif.Generated.Msp430Asm Arch Asm Spec

theorem src_fits (ctx : Ctx) (o : Operand) (size : Nat) (bw : Bool) (hb : bw = decide (size = 8)) (p : Param)
    (hp : processOperand ctx (operandToCg ctx o bw) size true false false = some p) : operandFits bw o = true := by
  cases o with
  | none => rfl
  | reg r => rfl
  | indirect r => rfl
  | indirectInc r => rfl
  | indexed v r => simp only [operandToCg, processOperand] at hp; exact (numeric_indexed hp).2.2
  | symbolic v => simp only [operandToCg, processOperand] at hp; exact (numeric_symbolic hp).2
  | abs v => simp only [operandToCg, processOperand] at hp; exact (numeric_abs hp).2
  | imm v =>
    rw [operandToCg_imm] at hp
    have plain : processOperand ctx (.plain (.imm v)) size true false false = some p → operandFits bw (.imm v) = true := by
      intro hp
      simp only [processOperand] at hp
      have := (numeric_imm hp).2.2
      simp only [operandFits]
      subst hb
      by_cases h8 : size = 8 <;> simp [h8] at this ⊢ <;> exact this
    split at hp
    · exact plain hp
    · split at hp
      · rename_i r m hc
        exact (cgOf_sound hc).2.2
      · exact plain hp

theorem dst_fits (ctx : Ctx) (o : Operand) (size : Nat) (bw prevExt : Bool) (p : Param)
    (hp : processOperand ctx (.plain o) size false true prevExt = some p) : operandFits bw o = true := by
  cases o with
  | none => rfl
  | reg r => rfl
  | indirect r => rfl
  | indirectInc r => rfl
  | indexed v r => simp only [processOperand] at hp; exact (numeric_indexed hp).2.2
  | symbolic v => simp only [processOperand] at hp; exact (numeric_symbolic hp).2
  | abs v => simp only [processOperand] at hp; exact (numeric_abs hp).2
  | imm v => simp only [processOperand] at hp; have := (numeric_imm hp).1; cases this

theorem one_core_fits (ctx : Ctx) (size : Nat) (ops : List Operand) (f : Param → Result) (ws : List (BitVec 16))
    (hl : ¬ ops.length ≠ 1)
    (h : (match processOperand ctx (operandToCg ctx (ops.getD 0 .none) (decide (size = 8))) size true false false with
          | none => Result.err
          | some p => f p) = .ok ws) : ops.all (operandFits (decide (size = 8))) = true := by
  match ops, hl with
  | [o], _ =>
    simp only [List.getD_cons_zero] at h
    split at h
    · cases h
    · rename_i p hp
      simp only [List.all_cons, List.all_nil, Bool.and_true]
      exact src_fits ctx o size _ rfl p hp
  | [], hl => simp at hl
  | _ :: _ :: _, hl => simp at hl

/-- a one- or two-operand row accepted the operands ⇒ each of them fits its field -/
theorem rowAction_fits (ctx : Ctx) (r : Row) (size : Nat) (ops : List Operand) (ws : List (BitVec 16))
    (ht : r.type = OP_ONE_OPERAND ∨ r.type = OP_ONE_OPERAND_W ∨ r.type = OP_ONE_OPERAND_X ∨ r.type = OP_TWO_OPERAND)
    (h : rowAction ctx r size ops = .ok ws) : ops.all (operandFits (decide (size = 8))) = true := by
  unfold rowAction at h
  rcases ht with ht | ht | ht | ht <;>
    simp only [ht, OP_TWO_OPERAND, OP_NONE, OP_ONE_OPERAND, OP_ONE_OPERAND_W, OP_ONE_OPERAND_X, OP_JUMP, reduceCtorEq,
      Nat.reduceEqDiff, if_false, if_true, or_self, or_true, true_or, or_false, false_or, true_and, false_and] at h
  · split at h
    · cases h
    · rename_i hl; exact one_core_fits ctx size ops _ ws hl h
  · split at h
    · cases h
    · rename_i hl
      split at h
      · cases h
      · exact one_core_fits ctx size ops _ ws hl h
  · split at h
    · cases h
    · rename_i hl
      split at h
      · cases h
      · exact one_core_fits ctx size ops _ ws hl h
  · split at h
    · cases h
    · rename_i hl
      match ops, hl with
      | [o0, o1], _ =>
        simp only [List.getD_cons_zero, List.getD_cons_succ] at h
        split at h
        · cases h
        · rename_i p0 hp0
          split at h
          · cases h
          · rename_i p1 hp1
            simp only [List.all_cons, List.all_nil, Bool.and_true, Bool.and_eq_true]
            exact ⟨src_fits ctx o0 size _ rfl p0 hp0, dst_fits ctx o1 size _ _ p1 hp1⟩
      | [], hl => simp at hl
      | [_], hl => simp at hl
      | _ :: _ :: _ :: _, hl => simp at hl

/-! ## table obligations for the range theorem -/

/-- an alias row with operands keeps every operand of the statement in the expansion and expands to a
    two-operand core instruction (or to a name that `.msp430` does not know) -/
def aliasRowOK (a : Alias) : Bool :=
  !isJumpName a.instr &&
  (a.operandCount == 0 ||
    (((a.operandCount == 1 && a.cmd != CMD_R3) || (a.operandCount == 2 && a.cmd == CMD_SRC_DST)) &&
      (match Asm.findRow a.alt with
       | none => true
       | some r => r.type == OP_TWO_OPERAND)))

theorem table_alias_rows : ∀ a ∈ aliases, aliasRowOK a = true := by decide +kernel

/-- the rows of type OP_JUMP are exactly the rows of the twelve jump mnemonics -/
theorem table_jump_rows : ∀ r ∈ table, r.version = VERSION_MSP430 → (r.type == OP_JUMP) = isJumpName r.instr := by
  decide +kernel

theorem findRow_instr {name : String} {r : Row} (h : Asm.findRow name = some r) :
    r ∈ table ∧ r.version = VERSION_MSP430 ∧ r.instr = name := by
  unfold Asm.findRow at h
  have h1 := List.find?_some h
  simp only [Bool.and_eq_true, beq_iff_eq] at h1
  exact ⟨List.mem_of_find?_eq_some h, h1.1, h1.2⟩

theorem aliasOf_mem {name : String} {a : Alias} (h : aliasOf name = some a) : a ∈ aliases ∧ a.instr = name := by
  unfold aliasOf at h
  have h1 := List.find?_some h
  simp only [beq_iff_eq] at h1
  exact ⟨List.mem_of_find?_eq_some h, h1⟩

theorem optimizeOps_fits (ctx : Ctx) (ops : List Operand) (b : Bool)
    (h : (optimizeOps ctx ops).all (operandFits b) = true) : ops.all (operandFits b) = true := by
  rcases optimizeOps_cases ctx ops with e | ⟨_, r, rest, _, e1, e2⟩
  · rw [e] at h; exact h
  · rw [e2] at h; rw [e1]
    simp only [List.all_cons, Bool.and_eq_true] at h ⊢
    exact ⟨by cases b <;> rfl, h.2⟩

/-- every accepted statement has all its numeric operands inside their fields -/
theorem encode_ok_fits (ctx : Ctx) (hp : ctx.pass1 = false) (ha : ctx.address &&& 1 = 0) (s : Stmt) (ws : List (BitVec 16))
    (h : encode ctx s = .ok ws) : fits ctx.address s = true := by
  have hl : (optimizeOps ctx s.ops).length ≤ 3 := by
    rw [optimizeOps_length]
    by_cases h3 : s.ops.length > 3
    · unfold encode at h; simp [h3] at h
    · omega
  rw [encode_eq ctx s hl] at h
  unfold aliasStep at h
  cases hal : aliasOf s.mnemonic with
  | none =>
    unfold aliasOf at hal
    simp only [hal] at h
    cases hr : Asm.findRow s.mnemonic with
    | none => simp [hr] at h
    | some r =>
      simp only [hr] at h
      obtain ⟨hmem, hv, hin⟩ := findRow_instr hr
      split at h
      · cases h
      · have hj := table_jump_rows r hmem hv
        rw [hin] at hj
        rcases table_core_types r hmem hv with ht | ht | ht | ht | ht | ht
        · -- OP_NONE: no operands
          have hnj : isJumpName s.mnemonic = false := by rw [← hj, ht]; decide
          unfold rowAction at h
          simp only [ht, if_true] at h
          split at h
          · cases h
          · rename_i h0
            have : s.ops = [] := by
              have hlen := optimizeOps_length ctx s.ops
              have h0' : (optimizeOps ctx s.ops).length = 0 := by simpa using h0
              rw [h0'] at hlen
              cases hs : s.ops with
              | nil => rfl
              | cons a b => rw [hs] at hlen; simp at hlen
            unfold fits; rw [hnj, this]; rfl
        all_goals first
          | (-- one / two operand rows
             have hnj : isJumpName s.mnemonic = false := by rw [← hj, ht]; decide
             have := rowAction_fits ctx r s.size _ ws (by simp [ht]) h
             unfold fits; rw [hnj]
             simpa using optimizeOps_fits ctx s.ops _ this)
          | skip
        -- OP_JUMP
        have hjn : isJumpName s.mnemonic = true := by rw [← hj, ht]; decide
        unfold rowAction at h
        simp only [ht, OP_TWO_OPERAND, OP_NONE, OP_ONE_OPERAND, OP_ONE_OPERAND_W, OP_ONE_OPERAND_X, OP_JUMP, reduceCtorEq,
          Nat.reduceEqDiff, if_false, or_self, if_true, jumpWord, hp, Bool.false_eq_true] at h
        split at h
        · cases h
        · split at h
          · cases h
          · split at h
            · cases h
            · rename_i t ht'
              split at ht'
              · rename_i v hops
                simp only [Option.some.injEq] at ht'; subst ht'
                have hs : s.ops = [.symbolic v] := by
                  rcases optimizeOps_cases ctx s.ops with e | ⟨_, r', rest, _, _, e2⟩
                  · rw [← e]; exact hops
                  · rw [e2] at hops; cases hops
                split at h
                · cases h
                · rename_i h1
                  split at h
                  · cases h
                  · rename_i h2
                    unfold fits; rw [hjn, hs]
                    simp only [if_true, fitsJump, Bool.and_eq_true, decide_eq_true_eq]
                    simp only [Bool.or_eq_true, not_or, Bool.not_eq_true] at h2
                    obtain ⟨a, b⟩ := h2
                    generalize ctx.address = addr at *
                    refine ⟨⟨?_, ?_⟩, ?_⟩ <;> bv_decide
              · cases ht'
  | some a =>
    obtain ⟨hmem, hin⟩ := aliasOf_mem hal
    have hok := table_alias_rows a hmem
    unfold aliasRowOK at hok
    simp only [Bool.and_eq_true, Bool.not_eq_true', Bool.or_eq_true, beq_iff_eq, bne_iff_ne, ne_eq] at hok
    obtain ⟨hnj, hrest⟩ := hok
    rw [hin] at hnj
    unfold aliasOf at hal
    rw [hal] at h
    simp only [] at h
    by_cases hc : a.operandCount = (optimizeOps ctx s.ops).length
    · have hc' : a.operandCount = s.ops.length := by rw [hc, optimizeOps_length]
      by_cases h0 : a.operandCount = 0
      · have : s.ops = [] := by
          cases hs : s.ops with
          | nil => rfl
          | cons x y => rw [hs] at hc'; simp at hc'; omega
        unfold fits; rw [hnj, this]; rfl
      · rw [if_neg (fun hn => hn hc), if_neg h0] at h
        rcases hrest with h00 | ⟨hkeep, halt⟩
        · exact absurd h00 h0
        · cases hr : Asm.findRow a.alt with
          | none => simp [hr] at h
          | some r =>
            simp only [hr] at h halt
            have ht : r.type = OP_TWO_OPERAND := by simpa using halt
            split at h
            · cases h
            · have hf := rowAction_fits ctx r s.size _ ws (Or.inr (Or.inr (Or.inr ht))) h
              unfold fits; rw [hnj]
              simp only [Bool.false_eq_true, if_false]
              apply optimizeOps_fits ctx
              generalize optimizeOps ctx s.ops = ops at *
              rcases hkeep with ⟨h1, hcmd⟩ | ⟨h2, hcmd⟩
              · -- one operand: every expansion but CMD_R3 contains it
                have : ∃ o, ops = [o] := by
                  match ops, hc with
                  | [o], _ => exact ⟨o, rfl⟩
                  | [], hc => simp [h1] at hc
                  | _ :: _ :: _, hc => simp [h1] at hc
                obtain ⟨o, rfl⟩ := this
                simp only [List.getD_cons_zero, hcmd, if_false] at hf
                repeat' split at hf
                all_goals (simp only [List.all_cons, List.all_nil, Bool.and_true, Bool.and_eq_true] at hf ⊢
                           first | exact hf.1 | exact hf.2 | exact hf)
              · have : ∃ o p, ops = [o, p] := by
                  match ops, hc with
                  | [o, p], _ => exact ⟨o, p, rfl⟩
                  | [], hc => simp [h2] at hc
                  | [_], hc => simp [h2] at hc
                  | _ :: _ :: _ :: _, hc => simp [h2] at hc
                obtain ⟨o, p, rfl⟩ := this
                have e : ¬ (a.cmd = CMD_SP_INC) ∧ ¬ (a.cmd = CMD_PC) ∧ ¬ (a.cmd = CMD_R3) ∧ ¬ (a.cmd = CMD_DST_DST) := by
                  rw [hcmd]; decide
                simp only [e.1, e.2.1, e.2.2.1, e.2.2.2, if_false, hcmd, if_true, List.getD_cons_zero,
                  List.getD_cons_succ] at hf
                exact hf
    · rw [if_pos hc] at h
      cases h

/-- **C06, unfit ⇒ rejected (every mnemonic of the 16-bit core, every alias).**  A statement with a numeric operand
    outside its field — immediate (−32768 … 65535, byte instructions −128 … 255), index word, absolute or
    symbolic address (16 bit), jump distance (even, −1024 … +1022 bytes) — is never assembled. -/
theorem msp430_encode_rejects_unfit (ctx : Ctx) (hp : ctx.pass1 = false) (ha : ctx.address &&& 1 = 0) (s : Stmt)
    (hu : fits ctx.address s = false) : ∀ ws, encode ctx s ≠ .ok ws := by
  intro ws h
  rw [encode_ok_fits ctx hp ha s ws h] at hu
  cases hu

example : fits 0x1000 ⟨"mov", 16, [.imm 65536, .reg 5]⟩ = false := by decide
example : fits 0x1000 ⟨"jeq", 0, [.symbolic 0x1402]⟩ = false := by decide
example : fits 0x1000 ⟨"inc", 8, [.indexed (-32769) 5]⟩ = false := by decide

/-- **C06, injectivity.**  Two accepted statements that produce the same words mean the same instruction: the same
    operation and size, the same registers and addressing modes, and the same field values — `meaning` keeps
    exactly `value mod 2^16` of an immediate, index or address (`mod 2^8` of a byte immediate, see
    `Spec.srcMeaning`), and the target of a jump modulo 2^16. -/
theorem msp430_encode_injective_mod_field (ctx : Ctx) (hp : ctx.pass1 = false) (ha : ctx.address &&& 1 = 0)
    (s1 s2 : Stmt) (ws : List (BitVec 16)) (i1 i2 : Instr)
    (m1 : meaning (optimized ctx s1) = some i1) (m2 : meaning (optimized ctx s2) = some i2)
    (h1 : encode ctx s1 = .ok ws) (h2 : encode ctx s2 = .ok ws) : i1 = i2 := by
  have d1 := msp430_encode_sound ctx hp ha s1 ws i1 m1 h1
  have d2 := msp430_encode_sound ctx hp ha s2 ws i2 m2 h2
  rw [d1] at d2
  simp only [Option.some.injEq, Prod.mk.injEq, and_true] at d2
  exact d2

/-- instance for a 16-bit immediate: equal words ⇒ equal values modulo 2^16 -/
theorem msp430_encode_injective_imm16 (ctx : Ctx) (hp : ctx.pass1 = false) (ha : ctx.address &&& 1 = 0)
    (d : BitVec 4) (v1 v2 : BitVec 32) (ws : List (BitVec 16))
    (h1 : encode ctx ⟨"mov", 16, [.imm v1, .reg d]⟩ = .ok ws) (h2 : encode ctx ⟨"mov", 16, [.imm v2, .reg d]⟩ = .ok ws) :
    v1.truncate 16 = v2.truncate 16 := by
  have e : ∀ v, meaning (optimized ctx ⟨"mov", 16, [.imm v, .reg d]⟩) =
      some (.two .mov false (.imm (v.truncate 16)) (.reg d)) := by intro v; rfl
  have := msp430_encode_injective_mod_field ctx hp ha _ _ ws _ _ (e v1) (e v2) h1 h2
  injection this with _ _ hs _
  injection hs

/-- **C06, exactness.**  A value that fits is the field's signed or unsigned reading (nothing is wrapped or masked
    away), and a jump distance that fits is the sign-extended offset field times two. -/
theorem msp430_encode_exact_field :
    (∀ v : BitVec 32, fits16 v = true → (v.truncate 16).signExtend 32 = v ∨ (v.truncate 16).zeroExtend 32 = v) ∧
    (∀ v : BitVec 32, fits8 v = true →
      (((v.truncate 16) &&& 0xff).truncate 8 : BitVec 8).signExtend 32 = v ∨ ((v.truncate 16) &&& 0xff).zeroExtend 32 = v) ∧
    (∀ addr t : BitVec 32, fitsJump addr t = true →
      addr + 2 + (((((t - (addr + 2)).sshiftRight 1).truncate 16 &&& 0x3ff).truncate 10 : BitVec 10).signExtend 32 <<< 1) = t) := by
  refine ⟨?_, ?_, ?_⟩
  · intro v h; simp only [fits16, Bool.and_eq_true] at h; obtain ⟨a, b⟩ := h; bv_decide
  · intro v h; simp only [fits8, Bool.and_eq_true] at h; obtain ⟨a, b⟩ := h; bv_decide
  · intro addr t h
    simp only [fitsJump, Bool.and_eq_true, decide_eq_true_eq] at h
    obtain ⟨⟨a, b⟩, c⟩ := h
    bv_decide

/-- **C06, jump distance.**  An accepted jump has an even distance between −1024 and +1022 bytes, and the
    architecture computes the written target from the emitted word (modulo 2^16). -/
theorem msp430_jump_range (ctx : Ctx) (hp : ctx.pass1 = false) (ha : ctx.address &&& 1 = 0) (name : String) (c : Cond)
    (hk : kindOf name = some (.jump c)) (t : BitVec 32) (ws : List (BitVec 16))
    (h : encode ctx ⟨name, 0, [.symbolic t]⟩ = .ok ws) :
    fitsJump ctx.address t = true ∧ Arch.decode (ctx.address.truncate 16) ws = some (.jump c (t.truncate 16), 1) := by
  have hf := encode_ok_fits ctx hp ha _ ws h
  have hj : isJumpName name = true := by unfold isJumpName; rw [hk]
  unfold fits at hf
  simp only [hj, if_true] at hf
  have hm : meaning (optimized ctx ⟨name, 0, [.symbolic t]⟩) = some (.jump c (t.truncate 16)) := by
    simp [meaning, optimized, optimizeOps, hk, meaningK, sizeBw]
  have := msp430_encode_sound ctx hp ha _ ws _ hm h
  have hl : ws.length = 1 := by
    unfold Arch.decode at this
    match ws, this with
    | [w], _ => rfl
    | [], h' => simp at h'
    | w :: w2 :: rest, h' =>
      simp only [] at h'
      repeat' split at h'
      all_goals first | cases h'; done | (simp only [Option.some.injEq, Prod.mk.injEq] at h'; obtain ⟨e1, e2⟩ := h'; first | cases e1 | (simp at e2))
  rw [hl] at this
  exact ⟨hf, this⟩
