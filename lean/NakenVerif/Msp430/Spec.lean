/-
  What an MSP430 assembly statement means, written from the family user's guide (chapter 3: the addressing-mode
  table with its assembler syntax `Rn  X(Rn)  ADDR  &ADDR  @Rn  @Rn+  #N`, the instruction-set overview, and the
  table of emulated instructions).  Independent of naken_asm's tables: mnemonics are mapped to the
  architecture's operations by name.  The statement type is the one the operand loop produces (`Asm.Stmt`).

  Readings that are naken_asm's own and not the manual's:
  * `@Rn` as a DESTINATION is `0(Rn)` (the manual has no such destination mode);
  * `X(SR)` is the absolute mode `&X` (SR reads as 0 in indexed mode).
  Operand spellings the manual gives no meaning to have NO meaning here (`none`): `@R2 @R3 @R2+ @R3+` (these
  encodings are constants), `@PC+` (that encoding is the immediate mode: the next word belongs to the
  instruction), `X(R3)` as a source (that encoding is the constant 1), `X(PC)` with an explicit index (the
  symbolic form `ADDR` is the manual's syntax).  The soundness theorems speak about statements with a meaning.
-/
import NakenVerif.Msp430.Arch
import NakenVerif.Msp430.Asm
namespace NakenVerif.Msp430.Spec
open NakenVerif.Msp430.Arch NakenVerif.Msp430.Asm

inductive Kind
  | two (op : Op2) | one (op : Op1) | jump (c : Cond) | reti
  -- emulated instructions
  | emuSrc (op : Op2) (n : BitVec 16)               -- OP #n, dst
  | emuDD (op : Op2)                                -- OP dst, dst
  | br                                              -- MOV dst, PC
  | pop                                             -- MOV @SP+, dst
  | emu0 (op : Op2) (n : BitVec 16) (r : BitVec 4)  -- OP #n, Rr   (no operand)
  | ret                                             -- MOV @SP+, PC
  deriving DecidableEq, Repr

/-- the 27 core instructions with the alternative jump mnemonics, `sbb` (= SUBC) and the 24 emulated instructions -/
def specTable : List (String × Kind) := [
  ("mov", .two .mov), ("add", .two .add), ("addc", .two .addc), ("subc", .two .subc), ("sub", .two .sub),
  ("cmp", .two .cmp), ("dadd", .two .dadd), ("bit", .two .bit), ("bic", .two .bic), ("bis", .two .bis),
  ("xor", .two .xor), ("and", .two .and), ("sbb", .two .subc),
  ("rrc", .one .rrc), ("swpb", .one .swpb), ("rra", .one .rra), ("sxt", .one .sxt), ("push", .one .push),
  ("call", .one .call), ("reti", .reti),
  ("jne", .jump .jne), ("jnz", .jump .jne), ("jeq", .jump .jeq), ("jz", .jump .jeq), ("jnc", .jump .jnc),
  ("jlo", .jump .jnc), ("jc", .jump .jc), ("jhs", .jump .jc), ("jn", .jump .jn), ("jge", .jump .jge),
  ("jl", .jump .jl), ("jmp", .jump .jmp),
  ("adc", .emuSrc .addc 0), ("dadc", .emuSrc .dadd 0), ("dec", .emuSrc .sub 1), ("decd", .emuSrc .sub 2),
  ("inc", .emuSrc .add 1), ("incd", .emuSrc .add 2), ("inv", .emuSrc .xor 0xffff), ("sbc", .emuSrc .subc 0),
  ("tst", .emuSrc .cmp 0), ("clr", .emuSrc .mov 0),
  ("rla", .emuDD .add), ("rlc", .emuDD .addc), ("br", .br), ("pop", .pop),
  ("clrc", .emu0 .bic 1 2), ("clrn", .emu0 .bic 4 2), ("clrz", .emu0 .bic 2 2), ("dint", .emu0 .bic 8 2),
  ("eint", .emu0 .bis 8 2), ("setc", .emu0 .bis 1 2), ("setn", .emu0 .bis 4 2), ("setz", .emu0 .bis 2 2),
  ("nop", .emu0 .mov 0 3), ("ret", .ret)]

def kindOf (m : String) : Option Kind := (specTable.find? (fun p => p.1 == m)).map (·.2)

/-- source operand by the addressing-mode table -/
def srcMeaning (bw : Bool) : Operand → Option Src
  | .reg r => some (if r = 3 then .imm 0 else .reg r)
  | .indexed v r =>
    if r = 0 ∨ r = 3 then none
    else if r = 2 then some (.absolute (v.truncate 16)) else some (.indexed r (v.truncate 16))
  | .indirect r => if r = 2 ∨ r = 3 then none else some (.indirect r)
  | .indirectInc r => if r = 0 ∨ r = 2 ∨ r = 3 then none else some (.indirectInc r)
  | .symbolic v => some (.symbolic (v.truncate 16))
  | .imm v => some (.imm (immOf bw (v.truncate 16)))
  | .abs v => some (.absolute (v.truncate 16))
  | .none => none

def dstOfIndex (r : BitVec 4) (x : BitVec 16) : Option Dst :=
  if r = 0 then none else if r = 2 then some (.absolute x) else some (.indexed r x)

def dstMeaning : Operand → Option Dst
  | .reg r => some (.reg r)
  | .indexed v r => dstOfIndex r (v.truncate 16)
  | .indirect r => dstOfIndex r 0
  | .symbolic v => some (.symbolic (v.truncate 16))
  | .abs v => some (.absolute (v.truncate 16))
  | _ => none

/-- `.b` = byte, no suffix or `.w` = word; `.a` is not a size of the 16-bit core -/
def sizeBw (size : Nat) : Option Bool := if size = 8 then some true else if size = 0 ∨ size = 16 then some false else none

def meaningK (k : Kind) (size : Nat) (ops : List Operand) : Option Instr :=
  match sizeBw size with
  | none => none
  | some bw =>
    match k, ops with
    | .two op, [a, b] =>
      (match srcMeaning bw a, dstMeaning b with
       | some s, some d => some (.two op bw s d)
       | _, _ => none)
    | .one op, [a] =>
      if op.wordOnly && bw then none
      else (match srcMeaning bw a with | some s => some (.one op bw s) | none => none)
    | .jump c, [.symbolic t] => if size = 0 then some (.jump c (t.truncate 16)) else none
    | .reti, [] => if size = 0 then some .reti else none
    | .emuSrc op n, [a] => (match dstMeaning a with | some d => some (.two op bw (.imm (immOf bw n)) d) | none => none)
    | .emuDD op, [a] =>
      (match srcMeaning bw a, dstMeaning a with
       | some s, some d => some (.two op bw s d)
       | _, _ => none)
    | .br, [a] => (match srcMeaning bw a with | some s => some (.two .mov bw s (.reg 0)) | none => none)
    | .pop, [a] => (match dstMeaning a with | some d => some (.two .mov bw (.indirectInc 1) d) | none => none)
    | .emu0 op n r, [] => if size = 0 then some (.two op false (.imm n) (.reg r)) else none
    | .ret, [] => if size = 0 then some (.two .mov false (.indirectInc 1) (.reg 0)) else none
    | _, _ => none

/-- the instruction a statement means, by the manual -/
def meaning (s : Stmt) : Option Instr :=
  match kindOf s.mnemonic with
  | some k => meaningK k s.size s.ops
  | none => none

/-! ### field ranges (C06): the union of the signed and the unsigned reading of each field -/

def fits16 (v : BitVec 32) : Bool := (-32768 : BitVec 32).sle v && v.sle 65535
def fits8 (v : BitVec 32) : Bool := (-128 : BitVec 32).sle v && v.sle 255
/-- jump distance: even, −1024 … +1022 bytes from the address after the jump (offset field −512 … +511 words) -/
def fitsJump (addr t : BitVec 32) : Bool :=
  let d := t - (addr + 2)
  d &&& 1 = 0 && (-1024 : BitVec 32).sle d && d.sle 1022

def operandFits (byte : Bool) : Operand → Bool
  | .imm v => if byte then fits8 v else fits16 v
  | .indexed v _ => fits16 v
  | .symbolic v => fits16 v
  | .abs v => fits16 v
  | _ => true

/-- the mnemonic is one of the twelve jump mnemonics -/
def isJumpName (m : String) : Bool :=
  match kindOf m with
  | some (.jump _) => true
  | _ => false

/-- every numeric operand of the statement fits its field: the target of a jump its distance field, every other
    operand the 16-bit (byte immediate: 8-bit) field -/
def fits (addr : BitVec 32) (s : Stmt) : Bool :=
  if isJumpName s.mnemonic then
    (match s.ops with
     | [.symbolic t] => fitsJump addr t
     | ops => ops.all (operandFits (decide (s.size = 8))))
  else s.ops.all (operandFits (decide (s.size = 8)))

example : meaning ⟨"mov", 16, [.imm 0x1234, .reg 5]⟩ = some (.two .mov false (.imm 0x1234) (.reg 5)) := by decide
example : meaning ⟨"inc", 8, [.abs 0x200]⟩ = some (.two .add true (.imm 1) (.absolute 0x200)) := by decide
example : meaning ⟨"mov", 0, [.indirectInc 0, .reg 5]⟩ = none := by decide
example : fits 0x1000 ⟨"jmp", 0, [.symbolic 0x1402]⟩ = false := by decide
example : fits 0x1000 ⟨"mov", 8, [.imm 256, .reg 5]⟩ = false := by decide

end NakenVerif.Msp430.Spec
