/-
  Model of the instruction LENGTH (and `cycles_min`) that `disasm_msp430` (disasm/msp430.cpp)
  computes -- not of the text.  The table walked is the regenerated `table_msp430`.
  `w0` is the word at the address, `w1` the following word (it is the opcode when `w0` is a
  0x18xx extension-word prefix).
-/
import NakenVerif.Generated.Msp430DisTable
import NakenVerif.Msp430.SimImpl

namespace NakenVerif.Msp430.Sim
open NakenVerif.Generated.Msp430Dis

/-- `count` contribution of `get_source_reg` -/
def srcCount (reg : BitVec 4) (as : BitVec 2) : Nat :=
  if reg = 0 then (if as = 1 ∨ as = 3 then 2 else 0)
  else if reg = 2 then (if as = 1 then 2 else 0)
  else if reg = 3 then 0
  else (if as = 1 then 2 else 0)

/-- `count` contribution of `get_dest_reg` -/
def dstCount (_reg : BitVec 4) (ad : Bool) : Nat :=
  if ad then 2 else 0

/-- first row of the table (VERSION_MSP430X_EXT rows are skipped) whose masked opcode matches -/
def findRow (opcode : BitVec 16) : Option Row :=
  table.find? fun r => r.version ≠ VERSION_MSP430X_EXT ∧ opcode &&& r.mask = r.opcode

/-- what the matched row adds to `count` -/
def rowCount (r : Row) (opcode : BitVec 16) : Nat :=
  let as : BitVec 2 := opcode.extractLsb' 4 2
  if r.type = OP_NONE then 2
  else if r.type = OP_ONE_OPERAND ∨ r.type = OP_ONE_OPERAND_W ∨ r.type = OP_ONE_OPERAND_X then
    2 + srcCount (opcode.extractLsb' 0 4) as
  else if r.type = OP_JUMP then 2
  else if r.type = OP_TWO_OPERAND then
    srcCount (opcode.extractLsb' 8 4) as + dstCount (opcode.extractLsb' 0 4) (opcode.extractLsb' 7 1 = 1) + 2
  else if r.type = OP_MOVA_AT_REG_REG ∨ r.type = OP_MOVA_AT_REG_PLUS_REG ∨ r.type = OP_SHIFT20 ∨
          r.type = OP_REG_REG ∨ r.type = OP_PUSH ∨ r.type = OP_POP then 2
  else if r.type = OP_MOVA_ABS20_REG ∨ r.type = OP_MOVA_INDEXED_REG ∨ r.type = OP_MOVA_REG_ABS ∨
          r.type = OP_MOVA_REG_INDEXED ∨ r.type = OP_IMMEDIATE_REG ∨ r.type = OP_CALLA_ABS20 ∨
          r.type = OP_CALLA_INDIRECT_PC ∨ r.type = OP_CALLA_IMMEDIATE then 4
  else if r.type = OP_CALLA_SOURCE then (if as = 1 then 4 else 2)
  else 0

/-- return value of `disasm_msp430` -/
def disLen (w0 w1 : BitVec 16) : Nat :=
  if w0 = 0x0110 then 2
  else
    let hasPrefix := w0 &&& 0xf830 = 0x1800
    let opcode := if hasPrefix then w1 else w0
    let count := if hasPrefix then 2 else 0
    match findRow opcode with
    | none => count + 2            -- "???": the word that matched nothing belongs to the length
    | some r => count + rowCount r opcode

/-- `*cycles_min` after `disasm_msp430` -/
def disCycles (w0 w1 : BitVec 16) : Int :=
  if w0 = 0x0110 then getCycleCount w0
  else
    let hasPrefix := w0 &&& 0xf830 = 0x1800
    let opcode := if hasPrefix then w1 else w0
    match findRow opcode with
    | none => if hasPrefix then -1 else getCycleCount w0
    | some r =>
      let resets := r.type = OP_ONE_OPERAND ∨ r.type = OP_ONE_OPERAND_W ∨ r.type = OP_ONE_OPERAND_X ∨
                    r.type = OP_TWO_OPERAND                       -- these set prefix = 0xffff again
      let as : BitVec 2 := opcode.extractLsb' 4 2
      let c : Int :=
        if r.type = OP_SHIFT20 then ((opcode >>> 10) &&& 3).toNat + 1
        else if r.type = OP_CALLA_SOURCE then
          (if as = 0 then 4 else if as = 1 then (if opcode &&& 0xf = 1 then 7 else 6) else 5)
        else if r.type = OP_CALLA_ABS20 ∨ r.type = OP_CALLA_INDIRECT_PC then 6
        else if r.type = OP_CALLA_IMMEDIATE then 4
        else if r.type = OP_PUSH ∨ r.type = OP_POP then
          2 + (((opcode >>> 4) &&& 0xf).toNat + 1) * (((opcode >>> 8) &&& 1).toNat + 1)
        else getCycleCount w0
      if hasPrefix ∧ ¬ resets then -1 else c

end NakenVerif.Msp430.Sim
