/-
  Lemmas about the MSP430 encoder model: what `process_operand` produces is what the architecture's
  addressing-mode table reads back.
-/
import Std.Tactic.BVDecide
import NakenVerif.Msp430.Spec
set_option linter.unusedSimpArgs false
set_option linter.unusedVariables false
namespace NakenVerif.Msp430
open Arch Asm Spec

/-- what `Arch.decode` makes of a source parameter at an instruction whose first word is at `a16` -/
def srcOK (bw : Bool) (a16 : BitVec 16) (p : Param) (m : Src) : Prop :=
  p.ext.isSome = srcHasExt p.reg p.mode ∧
  srcOperand bw p.reg p.mode (p.ext.getD 0) (if p.ext.isSome then a16 + 2 else 0) = m

@[simp] theorem immOf_zero (bw : Bool) : immOf bw 0#16 = 0#16 := by cases bw <;> rfl

theorem src_reg (ctx : Ctx) (r : BitVec 4) (size : Nat) (bw : Bool) (p : Param) (m : Src)
    (hp : processOperand ctx (operandToCg ctx (.reg r) bw) size true false false = some p)
    (hm : srcMeaning bw (.reg r) = some m) : srcOK bw (ctx.address.truncate 16) p m := by
  simp only [operandToCg, processOperand, Option.some.injEq] at hp
  simp only [srcMeaning, Option.some.injEq] at hm
  subst hp; subst hm
  refine ⟨by simp [srcHasExt], ?_⟩
  simp only [srcOperand, Option.isSome_none, Option.getD_none]
  by_cases h : r = 3#4
  · simp [h]
  · simp [h]

/-! ### the numeric branch of `process_operand`, kind by kind -/

theorem numeric_indexed {ctx : Ctx} {v : BitVec 32} {r : BitVec 4} {size : Nat} {isSrc second prevExt : Bool} {p : Param}
    (h : numeric ctx .indexed v r size isSrc second prevExt = some p) :
    p = ⟨r, 1, some (v.truncate 16)⟩ ∧ ¬ (isSrc = true ∧ r = 3#4) ∧ fits16 v = true := by
  unfold numeric at h
  simp only [reduceCtorEq, false_and, if_false, true_and] at h
  split at h
  · cases h
  · rename_i h1
    split at h
    · cases h
    · rename_i h2
      simp only [decide_false, Bool.and_false, Bool.false_eq_true, if_false, Option.some.injEq] at h
      refine ⟨h.symm, h1, ?_⟩
      simp only [fits16]
      simp only [Bool.or_eq_true, not_or, Bool.not_eq_true] at h2
      obtain ⟨a, b⟩ := h2
      bv_decide

theorem numeric_abs {ctx : Ctx} {v : BitVec 32} {r : BitVec 4} {size : Nat} {isSrc second prevExt : Bool} {p : Param}
    (h : numeric ctx .abs v r size isSrc second prevExt = some p) :
    p = ⟨2, 1, some (v.truncate 16)⟩ ∧ fits16 v = true := by
  unfold numeric at h
  simp only [reduceCtorEq, false_and, if_false, true_and] at h
  split at h
  · cases h
  · rename_i h2
    simp only [decide_false, Bool.and_false, Bool.false_eq_true, if_false, Option.some.injEq] at h
    refine ⟨h.symm, ?_⟩
    simp only [fits16]
    simp only [Bool.or_eq_true, not_or, Bool.not_eq_true] at h2
    obtain ⟨a, b⟩ := h2
    bv_decide

theorem numeric_symbolic {ctx : Ctx} {v : BitVec 32} {r : BitVec 4} {size : Nat} {isSrc second prevExt : Bool} {p : Param}
    (h : numeric ctx .symbolic v r size isSrc second prevExt = some p) :
    p = ⟨0, 1, some ((v - (ctx.address + (if second && prevExt then 4 else 2))).truncate 16)⟩ ∧ fits16 v = true := by
  unfold numeric at h
  simp only [reduceCtorEq, false_and, if_false, true_and] at h
  split at h
  · cases h
  · rename_i h2
    simp only [decide_false, Bool.and_false, Bool.false_eq_true, if_false, if_true, Option.some.injEq] at h
    refine ⟨?_, ?_⟩
    · rw [← h]; cases second <;> cases prevExt <;> simp
    · simp only [fits16]
      simp only [Bool.or_eq_true, not_or, Bool.not_eq_true] at h2
      obtain ⟨a, b⟩ := h2
      bv_decide

theorem numeric_imm {ctx : Ctx} {v : BitVec 32} {r : BitVec 4} {size : Nat} {isSrc second prevExt : Bool} {p : Param}
    (h : numeric ctx .imm v r size isSrc second prevExt = some p) :
    isSrc = true ∧ p = ⟨0, 3, some (v.truncate 16)⟩ ∧ (if size = 8 then fits8 v else fits16 v) = true := by
  unfold numeric at h
  by_cases hs : size = 8
  all_goals (
    simp only [reduceCtorEq, false_and, if_false, true_and, if_true, hs] at h
    split at h
    · cases h
    · rename_i h2
      simp only [decide_true, Bool.and_true] at h
      split at h
      · cases h
      · rename_i h3
        simp only [Option.some.injEq] at h
        refine ⟨by simpa using h3, h.symm, ?_⟩
        simp only [Bool.or_eq_true, not_or, Bool.not_eq_true] at h2
        obtain ⟨a, b⟩ := h2
        simp only [hs, if_true, if_false, fits8, fits16]
        bv_decide)

/-! ### `operand_to_cg` -/

/-- the register/As pair `operand_to_cg` picks for a value (word and byte instructions) -/
def cgOf (bw : Bool) (v : BitVec 32) : Option (BitVec 4 × BitVec 2) :=
  if v = 0xffffffff ∨ (bw = true ∧ v = 0xff) ∨ (bw = false ∧ v = 0xffff) then some (3, 3)
  else if v = 0 then some (3, 0) else if v = 1 then some (3, 1) else if v = 2 then some (3, 2)
  else if v = 4 then some (2, 2) else if v = 8 then some (2, 3) else none

theorem operandToCg_imm (ctx : Ctx) (v : BitVec 32) (bw : Bool) :
    operandToCg ctx (.imm v) bw =
      if ctx.flag = 1 then .plain (.imm v)
      else match cgOf bw v with
        | some (r, m) => .cg r m
        | none => .plain (.imm v) := by
  unfold operandToCg cgOf
  by_cases hf : ctx.flag = 1
  · simp [hf]
  · simp only [hf, if_false]
    cases bw
    · simp only [Bool.false_and, Bool.false_eq_true, if_false, Bool.not_false, Bool.true_and, false_and, or_false,
        true_and, false_or]
      by_cases h1 : v = 0xffff
      · subst h1; simp
      · simp only [h1, decide_false, Bool.false_eq_true, if_false, or_false]
        repeat' split
        all_goals first | rfl | simp_all
    · simp only [Bool.true_and, Bool.not_true, Bool.false_and, Bool.false_eq_true, if_false, true_and, false_and,
        or_false]
      by_cases h1 : v = 0xff
      · subst h1; simp
      · simp only [h1, decide_false, Bool.false_eq_true, if_false, or_false]
        repeat' split
        all_goals first | rfl | simp_all

theorem cgOf_sound {bw : Bool} {v : BitVec 32} {r : BitVec 4} {m : BitVec 2} (h : cgOf bw v = some (r, m)) :
    srcHasExt r m = false ∧ (∀ e ea, srcOperand bw r m e ea = .imm (immOf bw (v.truncate 16))) ∧
      (if bw then fits8 v else fits16 v) = true := by
  unfold cgOf at h
  split at h
  · rename_i hc
    simp only [Option.some.injEq, Prod.mk.injEq] at h
    obtain ⟨rfl, rfl⟩ := h
    refine ⟨by decide, ?_, ?_⟩
    · intro e ea
      rcases hc with hc | ⟨hb, hc⟩ | ⟨hb, hc⟩ <;> subst hc
      · cases bw <;> rfl
      · subst hb; rfl
      · subst hb; rfl
    · rcases hc with hc | ⟨hb, hc⟩ | ⟨hb, hc⟩ <;> subst hc
      · cases bw <;> decide
      · subst hb; decide
      · subst hb; decide
  · repeat' split at h
    all_goals first
      | cases h; done
      | (simp only [Option.some.injEq, Prod.mk.injEq] at h
         obtain ⟨rfl, rfl⟩ := h
         subst_vars
         refine ⟨by decide, ?_, ?_⟩
         · intro e ea; cases bw <;> rfl
         · cases bw <;> decide)

/-! ### source operand: what `process_operand(…, is_src = 1)` gives is what the addressing-mode table reads back -/

theorem src_sound (ctx : Ctx) (o : Operand) (size : Nat) (bw : Bool) (hb : bw = decide (size = 8)) (p : Param) (m : Src)
    (hp : processOperand ctx (operandToCg ctx o bw) size true false false = some p)
    (hm : srcMeaning bw o = some m) : srcOK bw (ctx.address.truncate 16) p m := by
  cases o with
  | none => simp [srcMeaning] at hm
  | reg r => exact src_reg ctx r size bw p m hp hm
  | indexed v r =>
    simp only [operandToCg, processOperand] at hp
    obtain ⟨rfl, h1, _⟩ := numeric_indexed hp
    simp only [srcMeaning] at hm
    split at hm
    · cases hm
    · rename_i h03
      simp only [not_or] at h03
      have h3 : r ≠ 3#4 := by simpa using h03.2
      have h0 : r ≠ 0#4 := by simpa using h03.1
      refine ⟨by simp [srcHasExt, h3], ?_⟩
      by_cases h2 : r = 2#4
      · simp [h2] at hm; simp [srcOperand, h2]; exact hm
      · simp [h2] at hm; simp [srcOperand, h2, h3, h0]; exact hm
  | indirect r =>
    simp only [operandToCg, processOperand, if_true, Option.some.injEq] at hp
    subst hp
    simp only [srcMeaning] at hm
    split at hm
    · cases hm
    · rename_i h23
      simp only [not_or] at h23
      have h2 : r ≠ 2#4 := by simpa using h23.1
      have h3 : r ≠ 3#4 := by simpa using h23.2
      simp only [Option.some.injEq] at hm; subst hm
      refine ⟨by simp [srcHasExt], ?_⟩
      simp [srcOperand, h2, h3]
  | indirectInc r =>
    simp only [operandToCg, processOperand, if_true, Option.some.injEq] at hp
    subst hp
    simp only [srcMeaning] at hm
    split at hm
    · cases hm
    · rename_i h023
      simp only [not_or] at h023
      have h0 : r ≠ 0#4 := by simpa using h023.1
      have h2 : r ≠ 2#4 := by simpa using h023.2.1
      have h3 : r ≠ 3#4 := by simpa using h023.2.2
      simp only [Option.some.injEq] at hm; subst hm
      refine ⟨by simp [srcHasExt, h0], ?_⟩
      simp [srcOperand, h0, h2, h3]
  | symbolic v =>
    simp only [operandToCg, processOperand] at hp
    obtain ⟨rfl, _⟩ := numeric_symbolic hp
    simp only [srcMeaning, Option.some.injEq] at hm; subst hm
    refine ⟨by simp [srcHasExt], ?_⟩
    simp only [srcOperand, Option.isSome_some, Option.getD_some, if_true, Bool.false_and, Bool.false_eq_true, if_false]
    simp
    bv_decide
  | abs v =>
    simp only [operandToCg, processOperand] at hp
    obtain ⟨rfl, _⟩ := numeric_abs hp
    simp only [srcMeaning, Option.some.injEq] at hm; subst hm
    refine ⟨by simp [srcHasExt], ?_⟩
    simp [srcOperand]
  | imm v =>
    simp only [srcMeaning, Option.some.injEq] at hm; subst hm
    rw [operandToCg_imm] at hp
    have plain : processOperand ctx (.plain (.imm v)) size true false false = some p →
        srcOK bw (ctx.address.truncate 16) p (.imm (immOf bw (v.truncate 16))) := by
      intro hp
      simp only [processOperand] at hp
      obtain ⟨_, rfl, _⟩ := numeric_imm hp
      refine ⟨by simp [srcHasExt], ?_⟩
      simp [srcOperand]
    split at hp
    · exact plain hp
    · split at hp
      · rename_i r m hc
        simp only [processOperand, Option.some.injEq] at hp
        subst hp
        obtain ⟨h1, h2, _⟩ := cgOf_sound hc
        exact ⟨by simp [h1], h2 _ _⟩
      · exact plain hp

/-! ### destination operand -/

def dstOK (a16 : BitVec 16) (prevExt : Bool) (p : Param) (d : Dst) : Prop :=
  (p.mode = 0 ∧ p.ext = none ∧ d = .reg p.reg) ∨
  (p.mode = 1 ∧ ∃ e, p.ext = some e ∧ dstOperand p.reg true e (a16 + (if prevExt then 4 else 2)) = d)

theorem dstOfIndex_sound {r : BitVec 4} {x ea : BitVec 16} {d : Dst} (h : dstOfIndex r x = some d) :
    dstOperand r true x ea = d := by
  unfold dstOfIndex at h
  split at h
  · cases h
  · rename_i h0
    have h0' : r ≠ 0#4 := by simpa using h0
    split at h
    · rename_i h2
      simp only [Option.some.injEq] at h; subst h
      have h2' : r = 2#4 := by simpa using h2
      simp [dstOperand, h2']
    · rename_i h2
      simp only [Option.some.injEq] at h; subst h
      have h2' : r ≠ 2#4 := by simpa using h2
      simp [dstOperand, h0', h2']

theorem dst_sound (ctx : Ctx) (o : Operand) (size : Nat) (prevExt : Bool) (p : Param) (d : Dst)
    (hp : processOperand ctx (.plain o) size false true prevExt = some p)
    (hm : dstMeaning o = some d) : dstOK (ctx.address.truncate 16) prevExt p d := by
  cases o with
  | none => simp [dstMeaning] at hm
  | reg r =>
    simp only [processOperand, Option.some.injEq] at hp; subst hp
    simp only [dstMeaning, Option.some.injEq] at hm; subst hm
    exact Or.inl ⟨rfl, rfl, rfl⟩
  | indexed v r =>
    simp only [processOperand] at hp
    obtain ⟨rfl, _, _⟩ := numeric_indexed hp
    simp only [dstMeaning] at hm
    exact Or.inr ⟨rfl, _, rfl, dstOfIndex_sound hm⟩
  | indirect r =>
    simp only [processOperand, Bool.false_eq_true, if_false] at hp
    obtain ⟨rfl, _, _⟩ := numeric_indexed hp
    simp only [dstMeaning] at hm
    exact Or.inr ⟨rfl, _, rfl, by simpa using dstOfIndex_sound hm⟩
  | indirectInc r => simp [dstMeaning] at hm
  | imm v => simp [dstMeaning] at hm
  | symbolic v =>
    simp only [processOperand] at hp
    obtain ⟨rfl, _⟩ := numeric_symbolic hp
    simp only [dstMeaning, Option.some.injEq] at hm; subst hm
    refine Or.inr ⟨rfl, _, rfl, ?_⟩
    simp only [dstOperand, if_true, Bool.true_and]
    cases prevExt <;> simp <;> bv_decide
  | abs v =>
    simp only [processOperand] at hp
    obtain ⟨rfl, _⟩ := numeric_abs hp
    simp only [dstMeaning, Option.some.injEq] at hm; subst hm
    exact Or.inr ⟨rfl, _, rfl, by simp [dstOperand]⟩

/-! ### the opcode word: every field is read back -/

theorem op2OfNibble_nibble (op : Op2) : op2OfNibble op.nibble = some op := by cases op <;> rfl
theorem op1OfField_field (op : Op1) : op1OfField op.field = some op := by cases op <;> rfl
theorem condOfField_field (c : Cond) : condOfField c.field = c := by cases c <;> rfl
theorem nibble_ge (op : Op2) : (4 : BitVec 4) ≤ op.nibble := by cases op <;> decide
theorem field_le (op : Op1) : op.field ≤ (5 : BitVec 3) := by cases op <;> decide

def twoWord (n : BitVec 4) (bw : Bool) (m0 m1 : BitVec 2) (r0 r1 : BitVec 4) : BitVec 16 :=
  (z16 n <<< 12) ||| bwBit bw ||| (z16 m0 <<< 4) ||| (z16 m1 <<< 7) ||| (z16 r0 <<< 8) ||| z16 r1

def bit1 (b : Bool) : BitVec 1 := if b then 1 else 0
@[simp] theorem bit1_eq_one (b : Bool) : decide (bit1 b = 1) = b := by cases b <;> rfl

theorem two_fields (n r0 r1 : BitVec 4) (m0 m1 : BitVec 2) (bw : Bool) (hm : m1 = 0 ∨ m1 = 1) (hn : (4 : BitVec 4) ≤ n) :
    ¬ (twoWord n bw m0 m1 r0 r1 &&& 0xe000 = 0x2000) ∧ ¬ (twoWord n bw m0 m1 r0 r1 &&& 0xfc00 = 0x1000) ∧
    (twoWord n bw m0 m1 r0 r1).extractLsb' 12 4 = n ∧ (twoWord n bw m0 m1 r0 r1).extractLsb' 8 4 = r0 ∧
    (twoWord n bw m0 m1 r0 r1).extractLsb' 7 1 = m1.extractLsb' 0 1 ∧
    (twoWord n bw m0 m1 r0 r1).extractLsb' 6 1 = bit1 bw ∧
    (twoWord n bw m0 m1 r0 r1).extractLsb' 4 2 = m0 ∧ (twoWord n bw m0 m1 r0 r1).extractLsb' 0 4 = r1 := by
  unfold twoWord z16 bwBit bit1
  refine ⟨?_, ?_, ?_, ?_, ?_, ?_, ?_, ?_⟩ <;> (rcases hm with rfl | rfl <;> bv_decide)

theorem decode_two (a16 : BitVec 16) (op : Op2) (bw : Bool) (p0 p1 : Param) (s : Src) (d : Dst)
    (h0 : srcOK bw a16 p0 s) (h1 : dstOK a16 p0.ext.isSome p1 d) :
    Arch.decode a16 (twoWord op.nibble bw p0.mode p1.mode p0.reg p1.reg :: (p0.ext.toList ++ p1.ext.toList)) =
      some (.two op bw s d, 1 + (p0.ext.toList ++ p1.ext.toList).length) := by
  have hm : p1.mode = 0 ∨ p1.mode = 1 := by rcases h1 with ⟨h, _⟩ | ⟨h, _⟩ <;> simp [h]
  obtain ⟨f1, f2, f3, f4, f5, f6, f7, f8⟩ := two_fields op.nibble p0.reg p1.reg p0.mode p1.mode bw hm (nibble_ge op)
  unfold Arch.decode
  simp only [f1, f2, if_false, f3, op2OfNibble_nibble, f4, f5, f6, f7, f8, bit1_eq_one]
  obtain ⟨e0, e1⟩ := h0
  rw [← e0]
  rcases h1 with ⟨m, x, rfl⟩ | ⟨m, e, x, rfl⟩
  · rw [m, x]
    cases hx : p0.ext with
    | none => simp [hx] at e1 ⊢; exact e1
    | some e => simp [hx] at e1 ⊢; exact e1
  · rw [m, x]
    cases hx : p0.ext with
    | none => simp [hx] at e1 ⊢; exact e1
    | some e' => simp [hx] at e1 ⊢; exact e1

def oneWord (f : BitVec 3) (bw : Bool) (m : BitVec 2) (r : BitVec 4) : BitVec 16 :=
  (0x1000 ||| (z16 f <<< 7)) ||| bwBit bw ||| (z16 m <<< 4) ||| z16 r

theorem one_fields (f : BitVec 3) (m : BitVec 2) (r : BitVec 4) (bw : Bool) (hf : f ≤ (5 : BitVec 3)) :
    ¬ (oneWord f bw m r &&& 0xe000 = 0x2000) ∧ oneWord f bw m r &&& 0xfc00 = 0x1000 ∧ ¬ (oneWord f bw m r = 0x1300) ∧
    (oneWord f bw m r).extractLsb' 7 3 = f ∧ (oneWord f bw m r).extractLsb' 6 1 = bit1 bw ∧
    (oneWord f bw m r).extractLsb' 4 2 = m ∧ (oneWord f bw m r).extractLsb' 0 4 = r := by
  unfold oneWord z16 bwBit bit1
  refine ⟨?_, ?_, ?_, ?_, ?_, ?_, ?_⟩ <;> bv_decide

theorem decode_one (a16 : BitVec 16) (op : Op1) (bw : Bool) (p : Param) (s : Src)
    (hw : (op.wordOnly && bw) = false) (h0 : srcOK bw a16 p s) :
    Arch.decode a16 (oneWord op.field bw p.mode p.reg :: p.ext.toList) = some (.one op bw s, 1 + p.ext.toList.length) := by
  obtain ⟨f1, f2, f3, f4, f5, f6, f7⟩ := one_fields op.field p.mode p.reg bw (field_le op)
  unfold Arch.decode
  simp only [f1, f2, f3, if_false, if_true, f4, op1OfField_field, f5, f6, f7, bit1_eq_one, hw, Bool.false_eq_true]
  obtain ⟨e0, e1⟩ := h0
  rw [← e0]
  cases hx : p.ext with
  | none => simp [hx] at e1 ⊢; exact e1
  | some e => simp [hx] at e1 ⊢; exact e1

def jumpWord16 (c : BitVec 3) (off : BitVec 32) : BitVec 16 :=
  (0x2000 ||| (z16 c <<< 10)) ||| ((off.sshiftRight 1).truncate 16 &&& 0x03ff)

/-- a distance that passed the range check is read back as the target -/
theorem decode_jump (addr t : BitVec 32) (c : Cond) (ha : addr &&& 1 = 0)
    (h1 : ¬ (t &&& 1 = 1)) (h2 : ((t - (addr + 2)).slt (-1024) || (1023 : BitVec 32).slt (t - (addr + 2))) = false) :
    Arch.decode (addr.truncate 16) [jumpWord16 c.field (t - (addr + 2))] = some (.jump c (t.truncate 16), 1) := by
  unfold Arch.decode
  have g1 : jumpWord16 c.field (t - (addr + 2)) &&& 0xe000 = 0x2000 := by
    unfold jumpWord16 z16; generalize c.field = f; bv_decide
  have g2 : (jumpWord16 c.field (t - (addr + 2))).extractLsb' 10 3 = c.field := by
    unfold jumpWord16 z16; generalize c.field = f; bv_decide
  simp only [g1, if_true, g2, condOfField_field, Option.some.injEq, Prod.mk.injEq, and_true, Instr.jump.injEq, true_and]
  unfold jumpTarget jumpWord16 z16
  generalize c.field = f
  simp only [Bool.or_eq_false_iff] at h2
  obtain ⟨h2a, h2b⟩ := h2
  bv_decide
