/-
  MSP430 part of C01 (ii) and of C07 / C01 (i) on the structured level: the decoder consumes exactly the emitted
  words; re-assembling the decoder's own reading of a word sequence gives words that decode to the same statement.
-/
import NakenVerif.Msp430.AsmRange
import NakenVerif.Msp430.DisSound
set_option linter.unusedSimpArgs false
set_option linter.unusedVariables false
namespace NakenVerif.Msp430
open NakenVerif.Generated.Msp430Dis NakenVerif.Generated.Msp430Asm Arch Asm Spec Disasm

/-! ## C01 (ii): the walk over the emitted bytes consumes exactly them -/

/-- **the decoder uses exactly the emitted words.**  For an accepted statement with a meaning, `disasm_msp430` at
    the first emitted word returns `2·|ws|` — whatever bytes follow the emitted ones. -/
theorem msp430_encode_len (ctx : Ctx) (hp : ctx.pass1 = false) (ha : ctx.address &&& 1 = 0) (s : Stmt)
    (ws : List (BitVec 16)) (i : Instr) (hm : meaning (optimized ctx s) = some i) (h : encode ctx s = .ok ws)
    (addr : BitVec 32) (x y z : BitVec 16) :
    ∃ w0 rest, ws = w0 :: rest ∧ (disasm addr w0 x y z).len = 2 * ws.length := by
  have hd := msp430_encode_sound ctx hp ha s ws i hm h
  match ws, hd with
  | [], hd => simp [Arch.decode] at hd
  | w0 :: rest, hd => exact ⟨w0, rest, rfl, arch_len _ addr w0 rest i _ hd x y z⟩

/-- **walk exact.**  `disasm_range_msp430` over the emitted bytes `a … a + 2·|ws| − 1` prints one instruction line
    at `a` and one continuation line per further emitted word, and nothing else (outside the vector area, where
    the loop prints vectors instead of instructions). -/
theorem msp430_walk_exact (lenAt : Nat → Nat) (a n : Nat) (hn : 1 ≤ n) (hlen : lenAt a = 2 * n)
    (hv : ¬ (0xffe0 ≤ a ∧ a ≤ 0xffff)) :
    rangeLines lenAt a (a + 2 * n - 1) = (a, false) :: Walk.contLines (a + 2) (n - 1) := by
  unfold rangeLines
  simp only [show a ≤ a + 2 * n - 1 by omega, if_true, hv, if_false, hlen]
  have h2 : 2 * n / 2 = n := by omega
  rw [h2, show max 1 n = n by omega]
  unfold rangeLines
  simp [show ¬ (a + 2 * n ≤ a + 2 * n - 1) by omega]

/-- **Finding (left in the code).**  `mov @PC+, r5` is accepted and emits the single word 0x4035, but As = 11 on
    R0 is the immediate mode: the decoder (like the CPU) takes the next word as part of the instruction, so the
    walk consumes 4 bytes where 2 were emitted.  The statement has no meaning in `Spec` (`@PC+` is not a syntax of
    the manual's addressing-mode table), which is why `msp430_encode_len` does not speak about it. -/
theorem msp430_pcinc_counterexample :
    encode { address := 0x1000 } ⟨"mov", 0, [.indirectInc 0, .reg 5]⟩ = .ok [0x4035] ∧
    (disasm 0x1000 0x4035 0 0 0).len = 4 ∧
    meaning ⟨"mov", 0, [.indirectInc 0, .reg 5]⟩ = none := by
  refine ⟨by decide, by decide +kernel, by decide⟩

/-! ## C07: decode → encode → decode -/

/-- the decoder's rows of the core row types carry the manual's mnemonics -/
def disRowKindOK (r : Row) : Bool :=
  r.version == VERSION_MSP430X_EXT ||
  (if r.type = OP_NONE then kindOf r.instr == some .reti
   else if r.type = OP_ONE_OPERAND ∨ r.type = OP_ONE_OPERAND_W ∨ r.type = OP_ONE_OPERAND_X then
     (match kindOf r.instr with
      | some (.one op) => r.type == op1Type op
      | _ => false)
   else if r.type = OP_TWO_OPERAND then
     (match kindOf r.instr with
      | some (.two _) => true
      | _ => false)
   else true)

theorem table_dis_kinds : ∀ r ∈ table, disRowKindOK r = true := by decide +kernel

theorem decode_append (a : BitVec 16) (ws t : List (BitVec 16)) (r : Instr × Nat) (h : Arch.decode a ws = some r) :
    Arch.decode a (ws ++ t) = some r := by
  match ws, h with
  | [], h => simp [Arch.decode] at h
  | [w], h =>
    simp only [Arch.decode, List.cons_append, List.nil_append] at h ⊢
    repeat' split at h
    all_goals first | (cases h; done) | skip
    all_goals (cases t <;> simp_all)
  | [w, e], h =>
    simp only [Arch.decode, List.cons_append, List.nil_append] at h ⊢
    repeat' split at h
    all_goals first | (cases h; done) | skip
    all_goals (cases t <;> simp_all)
  | w :: e :: f :: rest, h =>
    simp only [Arch.decode, List.cons_append] at h ⊢
    repeat' split at h
    all_goals first | (cases h; done) | skip
    all_goals simp_all

theorem encode_wordOnly_byte (ctx : Ctx) (name : String) (op : Op1) (hk : kindOf name = some (.one op))
    (hw : op.wordOnly = true) (o : Operand) : encode ctx ⟨name, 8, [o]⟩ = .err := by
  have hrow := table_spec_rows _ (kindOf_mem hk)
  simp only [specRowOK, Bool.and_eq_true, Option.isNone_iff_eq_none] at hrow
  obtain ⟨hal, hr⟩ := hrow
  obtain ⟨r, hr, ho, ht⟩ := rowIs_spec hr
  rw [encode_eq ctx _ (by rw [optimizeOps_length]; simp)]
  simp only [aliasStep_none _ hal, hr, show ¬ (8 = 20) by decide, if_false]
  unfold rowAction
  rw [optimizeOps_length]
  cases op <;> simp [op1Type, Op1.wordOnly] at hw ht <;>
    simp [ht, OP_NONE, OP_ONE_OPERAND, OP_ONE_OPERAND_W, OP_ONE_OPERAND_X, OP_JUMP, OP_TWO_OPERAND]

theorem dstOperandOf_some (addr : BitVec 32) (reg : BitVec 4) (ad : Bool) (e : BitVec 16) (count : Nat)
    (hc : count = 0 ∨ count = 2) : ∃ d, dstMeaning (dstOperandOf addr reg ad count e) = some d := by
  cases ad
  · exact ⟨_, dstOperandOf_reg addr reg e count⟩
  · exact ⟨_, dstOperandOf_meaning addr reg e count hc⟩

/-- the decoder's reading of any word either has a meaning (which is not a jump) or is a byte form of SWPB, SXT or
    CALL, which the assembler rejects -/
theorem reading_meaning (addr : BitVec 32) (w0 w1 w2 : BitVec 16) (s : Stmt) (hs : reading addr w0 w1 w2 = some s) :
    (∃ i, meaning s = some i ∧ ∀ c t, i ≠ .jump c t) ∨ (∀ ctx, encode ctx s = .err) := by
  unfold reading at hs
  cases hf : Disasm.findRow w0 with
  | none => rw [hf] at hs; cases hs
  | some r =>
    rw [hf] at hs
    obtain ⟨hmem, hv⟩ := findRow_mem hf
    have hk := table_dis_kinds r hmem
    unfold disRowKindOK at hk
    have hv' : (r.version == VERSION_MSP430X_EXT) = false := by simpa using hv
    simp only [hv', Bool.false_or] at hk
    simp only [] at hs
    by_cases t0 : r.type = OP_NONE
    · rw [if_pos t0] at hs hk
      simp only [Option.some.injEq] at hs
      subst hs
      left
      have : kindOf r.instr = some .reti := by simpa using hk
      exact ⟨.reti, by simp [meaning, this, meaningK, sizeBw], by intro c t h; cases h⟩
    · by_cases t1 : r.type = OP_ONE_OPERAND ∨ r.type = OP_ONE_OPERAND_W ∨ r.type = OP_ONE_OPERAND_X
      · rw [if_neg t0, if_pos t1] at hs hk
        simp only [Option.some.injEq] at hs
        subst hs
        split at hk
        · rename_i op hkind
          obtain ⟨sm, hsm⟩ : ∃ sm, srcMeaning (decide (w0 &&& 0x40 ≠ 0))
              (srcOperandOf addr (w0.extractLsb' 0 4) (w0.extractLsb' 4 2) w1) = some sm := ⟨_, srcOperandOf_meaning _ _ _ _ _⟩
          cases hbw : decide (w0 &&& 0x40 ≠ 0)
          · left
            refine ⟨.one op false sm, ?_, by intro c t h; cases h⟩
            have hsz : sizeBw (if decide (w0.extractLsb' 7 3 &&& 1 = 1) = true then 0 else 16) = some false := by
              split <;> simp [sizeBw]
            rw [hbw] at hsm
            simp only [meaning, hkind, Bool.false_eq_true, if_false, meaningK, hsz, Bool.and_false, hsm]
          · by_cases hw : op.wordOnly = true
            · right
              intro ctx
              simp only [if_true]
              exact encode_wordOnly_byte ctx r.instr op hkind hw _
            · left
              refine ⟨.one op true sm, ?_, by intro c t h; cases h⟩
              rw [hbw] at hsm
              simp only [meaning, hkind, if_true, meaningK, show sizeBw 8 = some true from rfl,
                show (op.wordOnly && true) = false by simpa using hw, Bool.false_eq_true, if_false, hsm]
        · cases hk
      · by_cases t2 : r.type = OP_TWO_OPERAND
        · rw [if_neg t0, if_neg t1, if_pos t2] at hs hk
          simp only [Option.some.injEq] at hs
          subst hs
          split at hk
          · rename_i op hkind
            left
            obtain ⟨sm, hsm⟩ : ∃ sm, srcMeaning (decide (w0 &&& 0x40 ≠ 0))
                (srcOperandOf addr (w0.extractLsb' 8 4) (w0.extractLsb' 4 2) w1) = some sm := ⟨_, srcOperandOf_meaning _ _ _ _ _⟩
            have hsz : sizeBw (if decide (w0 &&& 0x40 ≠ 0) = true then 8 else 16) = some (decide (w0 &&& 0x40 ≠ 0)) := by
              cases decide (w0 &&& 0x40 ≠ 0) <;> simp [sizeBw]
            have hc := srcText_count addr (w0.extractLsb' 8 4) (w0.extractLsb' 4 2) (decide (w0 &&& 0x40 ≠ 0)) none false w1
            obtain ⟨dm, hdm⟩ := dstOperandOf_some addr (w0.extractLsb' 0 4) (decide (w0.extractLsb' 7 1 = 1))
              (if (srcText addr (w0.extractLsb' 8 4) (w0.extractLsb' 4 2) (decide (w0 &&& 0x40 ≠ 0)) none false w1).2 = 0
               then w1 else w2) _ hc
            refine ⟨.two op (decide (w0 &&& 0x40 ≠ 0)) sm dm, ?_, by intro c t h; cases h⟩
            simp only [meaning, hkind, meaningK, hsz, hsm, hdm]
          · cases hk
        · rw [if_neg t0, if_neg t1, if_neg t2] at hs
          cases hs

theorem pad3 (ws : List (BitVec 16)) (h : ws ≠ []) :
    ∃ rest, ws ++ [0, 0, 0] = ws.getD 0 0 :: ws.getD 1 0 :: ws.getD 2 0 :: rest := by
  match ws, h with
  | [w], _ => exact ⟨[0], rfl⟩
  | [w, e], _ => exact ⟨[0, 0], rfl⟩
  | w :: e :: f :: r, _ => exact ⟨r ++ [0, 0, 0], rfl⟩

theorem optimized_off (ctx : Ctx) (ho : ctx.optimize = false) (s : Stmt) : optimized ctx s = s := by
  rcases msp430_optimize_only_rewrites_index0 ctx s with h | ⟨h, _⟩
  · exact h
  · rw [ho] at h; cases h

/-- every statement `toStmt` yields has a meaning, which is not a jump, unless the assembler rejects it -/
theorem toStmt_meaning (addr : BitVec 32) (w0 w1 w2 : BitVec 16) (s : Stmt) (hs : toStmt addr w0 w1 w2 = some s) :
    (∃ i, meaning s = some i ∧ ∀ c t, i ≠ .jump c t) ∨ (∀ ctx, encode ctx s = .err) := by
  unfold toStmt at hs
  split at hs
  · cases hs
  · split at hs
    · split at hs
      · rename_i r hf
        split at hs
        · rename_i hc
          simp only [Option.some.injEq] at hs; subst hs
          obtain ⟨hmem, hv⟩ := findRow_mem hf
          have hk := table_dis_kinds r hmem
          unfold disRowKindOK at hk
          have hv' : (r.version == VERSION_MSP430X_EXT) = false := by simpa using hv
          simp only [hv', Bool.false_or] at hk
          rw [if_pos hc.1] at hk
          left
          have : kindOf r.instr = some .reti := by simpa using hk
          exact ⟨.reti, by simp [meaning, this, meaningK, sizeBw], by intro c t h; cases h⟩
        · cases hs
      · cases hs
    · split at hs
      · cases hs
      · exact reading_meaning addr w0 w1 w2 s hs

/-- **C07 on the structured level, `-optimize` off.**  For every word sequence `w0 w1 w2 …` at any (even) address:
    if the assembler model accepts the decoder's reading of it (`Disasm.toStmt`: mnemonic, size suffix and
    operands of the printed text as the operand loop takes them), then the reading has a meaning `i` by the
    user's guide, the words the assembler produces are decoded by the architecture as `i`, consuming exactly
    them, and the disassembler shows for them a statement that again means `i`: decode → encode → decode does
    not change the instruction.  (The new text may differ in spelling only: `#0x0001` becomes `#1`, `#0xffff`
    becomes `#-1`, an alias comment `eint  --  ` may appear in front.) -/
theorem msp430_decode_encode_decode (ctx : Ctx) (hp : ctx.pass1 = false) (ha : ctx.address &&& 1 = 0)
    (ho : ctx.optimize = false) (w0 w1 w2 : BitVec 16) (s : Stmt) (hs : toStmt ctx.address w0 w1 w2 = some s)
    (ws' : List (BitVec 16)) (he : encode ctx s = .ok ws') :
    ∃ i s', meaning s = some i ∧ Arch.decode (ctx.address.truncate 16) ws' = some (i, ws'.length) ∧
      reading ctx.address (ws'.getD 0 0) (ws'.getD 1 0) (ws'.getD 2 0) = some s' ∧ meaning s' = some i := by
  rcases toStmt_meaning ctx.address w0 w1 w2 s hs with ⟨i, hm, hnj⟩ | herr
  · have hm' : meaning (optimized ctx s) = some i := by rw [optimized_off ctx ho]; exact hm
    have hd := msp430_encode_sound ctx hp ha s ws' i hm' he
    have hne : ws' ≠ [] := by intro e; rw [e] at hd; simp [Arch.decode] at hd
    obtain ⟨rest, hpad⟩ := pad3 ws' hne
    have hd' := decode_append _ ws' [0, 0, 0] _ hd
    rw [hpad] at hd'
    obtain ⟨s', hr, hms⟩ := arch_reading ctx.address _ _ _ rest i _ hd' hnj
    exact ⟨i, s', hm, hd, hr, hms⟩
  · rw [herr ctx] at he; cases he

/-- **The rejected classes of disassembly texts** (`toStmt = none`): `reta`, every text behind an extension word
    except a bare `reti`, texts with an alias comment, jumps (`(offset: n)` suffix), `???` and MSP430X row types. -/
theorem msp430_text_rejected_classes (addr : BitVec 32) (w0 w1 w2 : BitVec 16) :
    toStmt addr w0 w1 w2 = none ↔
      (w0 = 0x0110 ∨
       (w0 ≠ 0x0110 ∧ isPrefix w0 = true ∧ ¬ ∃ r, Disasm.findRow w1 = some r ∧ r.type = OP_NONE ∧
          ¬ (w0 &&& 0xfeb0 = 0x1800 ∨ w0 &&& 0xfeb0 = 0x1880)) ∨
       (w0 ≠ 0x0110 ∧ isPrefix w0 = false ∧ (commented w0 w1 = true ∨ reading addr w0 w1 w2 = none))) := by
  unfold toStmt
  by_cases h1 : w0 = 0x0110
  · simp [h1]
  · by_cases h2 : isPrefix w0 = true
    · simp only [h1, if_false, h2, if_true, false_or, ne_eq, not_false_eq_true, true_and, Bool.true_eq_false,
        false_and, or_false]
      cases hf : Disasm.findRow w1 with
      | none => simp
      | some r =>
        simp only [Option.some.injEq, exists_eq_left']
        split <;> simp_all
    · have h2' : isPrefix w0 = false := by simpa using h2
      have h1' : ¬ w0 = 272#16 := by simpa using h1
      by_cases hc : commented w0 w1 = true
      · simp [h1, h1', h2', hc]
      · simp [h1, h1', h2', hc]

/-- **C01 (i) on the structured level, partial.**  For an accepted statement with a meaning `i` (not a jump: the
    disassembly of a jump is rejected) and `-optimize` off: the decoder shows for the emitted words a statement that
    means `i`; if that text is not rejected (`toStmt`) and the assembler accepts it again, the new words are
    decoded by the architecture as `i` and shown as a statement meaning `i` again.
    *Not proved here*: that the new words are bytewise EQUAL to the emitted ones.  (They can differ from words with
    the same meaning only in the encoding freedom the assembler itself never uses when it emits — an immediate
    word holding a constant-generator value; the real encode → decode → encode chain is checked byte for byte
    by the oracle of C01 on every accepted statement of every run, and by the `rt` correspondence stream.) -/
theorem msp430_fixpoint_structured_partial (ctx : Ctx) (hp : ctx.pass1 = false) (ha : ctx.address &&& 1 = 0)
    (ho : ctx.optimize = false) (s0 : Stmt) (ws : List (BitVec 16)) (i : Instr) (hm : meaning s0 = some i)
    (hnj : ∀ c t, i ≠ .jump c t) (h0 : encode ctx s0 = .ok ws) :
    (∃ s1, reading ctx.address (ws.getD 0 0) (ws.getD 1 0) (ws.getD 2 0) = some s1 ∧ meaning s1 = some i) ∧
    ∀ s1 ws1, toStmt ctx.address (ws.getD 0 0) (ws.getD 1 0) (ws.getD 2 0) = some s1 → encode ctx s1 = .ok ws1 →
      meaning s1 = some i ∧ Arch.decode (ctx.address.truncate 16) ws1 = some (i, ws1.length) ∧
      ∃ s2, reading ctx.address (ws1.getD 0 0) (ws1.getD 1 0) (ws1.getD 2 0) = some s2 ∧ meaning s2 = some i := by
  have hd := msp430_encode_sound ctx hp ha s0 ws i (by rw [optimized_off ctx ho]; exact hm) h0
  have hne : ws ≠ [] := by intro e; rw [e] at hd; simp [Arch.decode] at hd
  obtain ⟨rest, hpad⟩ := pad3 ws hne
  have hd' := decode_append _ ws [0, 0, 0] _ hd
  rw [hpad] at hd'
  obtain ⟨s1, hr, hms⟩ := arch_reading ctx.address _ _ _ rest i _ hd' hnj
  refine ⟨⟨s1, hr, hms⟩, ?_⟩
  intro s1' ws1 ht he
  obtain ⟨i', s2, hm1, hdec, hr2, hm2⟩ := msp430_decode_encode_decode ctx hp ha ho _ _ _ s1' ht ws1 he
  -- the statement `toStmt` gives is the reading
  have hs1 : s1' = s1 := by
    unfold toStmt at ht
    split at ht
    · cases ht
    · split at ht
      · rename_i hpre
        -- an extension word is not an instruction of the core
        exfalso
        simp only [Arch.decode] at hd'
        unfold isPrefix at hpre
        simp only [decide_eq_true_eq] at hpre
        generalize ws.getD 0 0 = w at *
        have hn : op2OfNibble (w.extractLsb' 12 4) = none := by
          have : w.extractLsb' 12 4 = 1 := by bv_decide
          rw [this]; rfl
        have h1 : ¬ (w &&& 0xe000 = 0x2000) := by bv_decide
        have h2 : ¬ (w &&& 0xfc00 = 0x1000) := by bv_decide
        rw [if_neg h1, if_neg h2, hn] at hd'
        cases hd'
      · split at ht
        · cases ht
        · rw [hr] at ht; exact (Option.some.inj ht).symm
  subst hs1
  rw [hms] at hm1
  cases hm1
  exact ⟨hms, hdec, s2, hr2, hm2⟩

/-! non-vacuity -/
example : toStmt 0x1000 0x4035 0x0001 0 = some ⟨"mov", 16, [.imm 1, .reg 5]⟩ := by decide +kernel
example : encode { address := 0x1000 } ⟨"mov", 16, [.imm 1, .reg 5]⟩ = .ok [0x4315] := by decide
example : reading 0x1000 0x4315 0 0 = some ⟨"mov", 16, [.imm 1, .reg 5]⟩ := by decide +kernel
example : toStmt 0x1000 0xd232 0 0 = none ∧ reading 0x1000 0xd232 0 0 = some ⟨"bis", 16, [.imm 8, .reg 2]⟩ := by
  constructor <;> decide +kernel
example : toStmt 0x1000 0x3c01 0 0 = none := by decide +kernel
example : (disasm 0x1000 0x4035 0x1234 0 0).text = "mov.w #0x1234, r5".toList ∧ (disasm 0x1000 0x4035 0x1234 0 0).len = 4 := by
  constructor <;> decide +kernel

end NakenVerif.Msp430
