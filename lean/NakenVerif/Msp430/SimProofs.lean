/-
  Lemmas relating the simulator model (SimImpl) to the architecture (SimArch), used by Props/C14
  and Props/C15.  Memory reads are opaque atoms for `bv_decide`; the lemmas are arranged so that both
  sides mention the same atoms.
-/
import NakenVerif.Msp430.SimArch
import NakenVerif.Msp430.SimDisLen

namespace NakenVerif.Msp430.SimProofs
open NakenVerif.Msp430.Sim NakenVerif.Msp430.SimArch
open NakenVerif.Generated.Msp430Dis
set_option linter.unusedSimpArgs false

theorem getReg_setReg (r : Regs) (i j : BitVec 4) (v : BitVec 16) :
    getReg (setReg r i v) j = if j = i then v else getReg r j := by
  unfold getReg setReg lane
  bv_decide

theorem idx_lo (w : BitVec 16) : idx (w.zeroExtend 32 &&& 0x000f) = some (w.extractLsb' 0 4) := by
  unfold idx
  have h : (w.zeroExtend 32 &&& 0x000f) < 16 := by bv_decide
  have h2 : (w.zeroExtend 32 &&& 0x000f).truncate 4 = w.extractLsb' 0 4 := by bv_decide
  rw [if_pos h, h2]

theorem idx_hi (w : BitVec 16) : idx ((w.zeroExtend 32 >>> 8) &&& 0x000f) = some (w.extractLsb' 8 4) := by
  unfold idx
  have h : ((w.zeroExtend 32 >>> 8) &&& 0x000f) < 16 := by bv_decide
  have h2 : ((w.zeroExtend 32 >>> 8) &&& 0x000f).truncate 4 = w.extractLsb' 8 4 := by bv_decide
  rw [if_pos h, h2]

/-- `ea = (reg + (int16_t)a) & 0xffff` is the 16-bit sum -/
theorem ea_norm (r x : BitVec 16) :
    (r.zeroExtend 32 + x.signExtend 32) &&& 0xffff = (r + x).zeroExtend 32 := by
  bv_decide

/-! ### get_data / update_reg against the addressing modes -/

theorem getData_val (regs : Regs) (m : Mem) (r : BitVec 4) (as : BitVec 2) (bw : Bool) :
    (getData regs m r as bw true).val = (source regs m r as bw).val := by
  unfold getData source memOperand rd rd16 rd8 sized PC SR CG SP
  simp only [ea_norm, apply_ite GD.val, apply_ite Operand.val]
  bv_decide

theorem getData_ea (regs : Regs) (m : Mem) (r : BitVec 4) (as : BitVec 2) (bw : Bool) :
    (getData regs m r as bw true).ea =
      if (source regs m r as bw).isMem then (source regs m r as bw).ea.zeroExtend 32 else EA_NONE := by
  unfold getData source memOperand rd rd16 rd8 sized PC SR CG SP EA_NONE
  simp only [ea_norm, apply_ite GD.ea, apply_ite Operand.ea, apply_ite Operand.isMem]
  bv_decide

theorem getData_updateReg (regs : Regs) (m : Mem) (r : BitVec 4) (as : BitVec 2) (bw : Bool) :
    updateReg (getData regs m r as bw true).regs r as bw = (source regs m r as bw).regs := by
  unfold updateReg getData source memOperand rd rd16 rd8 sized PC SR CG SP
  simp only [ea_norm, apply_ite GD.regs, apply_ite Operand.regs]
  unfold getReg setReg lane
  bv_decide


theorem getData_dest_regs (regs : Regs) (m : Mem) (r : BitVec 4) (ad bw doRead : Bool)
    (h : ¬ (ad = true ∧ r = 3)) :
    (getData regs m r (if ad then 1 else 0) bw doRead).regs = (dest regs m r ad).regs := by
  unfold getData dest memOperand rd16 PC SR
  simp only [ea_norm, apply_ite GD.regs, apply_ite Operand.regs]
  unfold getReg setReg lane
  bv_decide

theorem getData_dest_ea (regs : Regs) (m : Mem) (r : BitVec 4) (ad bw doRead : Bool)
    (h : ¬ (ad = true ∧ r = 3)) :
    (getData regs m r (if ad then 1 else 0) bw doRead).ea =
      if ad then (dest regs m r ad).ea.zeroExtend 32 else EA_NONE := by
  unfold getData dest memOperand rd16 PC SR EA_NONE
  simp only [ea_norm, apply_ite GD.ea, apply_ite Operand.ea]
  bv_decide

theorem getData_dest_val (regs : Regs) (m : Mem) (r : BitVec 4) (ad bw : Bool)
    (h : ¬ (ad = true ∧ r = 3)) :
    (getData regs m r (if ad then 1 else 0) bw true).val = destValue (dest regs m r ad) m r bw := by
  cases ad
  · unfold getData dest destValue memOperand rd rd16 rd8 sized PC SR CG
    simp only [ea_norm, apply_ite GD.val, Bool.false_eq_true, if_false, not_false_eq_true, if_true]
    all_goals bv_decide
  · have h3 : r ≠ 3 := fun h' => h ⟨rfl, h'⟩
    by_cases hr : r = 2
    · subst hr
      unfold getData dest destValue memOperand rd rd16 rd8 sized PC SR CG
      simp (config := { decide := true }) only [ea_norm, apply_ite GD.val, if_true, if_false, not_true_eq_false]
      all_goals bv_decide
    · unfold getData dest destValue memOperand rd rd16 rd8 sized PC SR CG
      simp (config := { decide := true }) only [hr, h3, ea_norm, apply_ite GD.val, if_true, if_false, not_true_eq_false,
        false_and, and_false]
      all_goals bv_decide

theorem dest_isReg (regs : Regs) (m : Mem) (r : BitVec 4) (ad : Bool) : (dest regs m r ad).isReg = !ad := by
  unfold dest; cases ad <;> simp <;> split <;> rfl

theorem dest_isMem (regs : Regs) (m : Mem) (r : BitVec 4) (ad : Bool) : (dest regs m r ad).isMem = ad := by
  unfold dest; cases ad <;> simp <;> split <;> rfl

/-- a zero-extended 16-bit address is never the `ea = -1` marker -/
theorem zext_ne_none (x : BitVec 16) : (x.zeroExtend 32 = (0xffffffff : BitVec 32)) = False := by
  apply eq_false
  bv_decide

theorem putData_regs (bio : BitVec 32) (c : Core) (ea : BitVec 32) (ri : BitVec 4) (isReg bw : Bool) (data : BitVec 32) :
    (putData bio c ea ri isReg bw data).regs =
      if isReg then setReg c.regs ri (if bw then data.truncate 16 &&& 0xff else data.truncate 16) else c.regs := by
  unfold putData ramWrite8 ramWrite16
  cases isReg <;> cases bw <;> simp only [if_true, if_false, Bool.false_eq_true] <;> split <;> rfl

theorem putData_mem (bio : BitVec 32) (c : Core) (ea : BitVec 32) (ri : BitVec 4) (isReg bw : Bool) (data : BitVec 32) :
    (putData bio c ea ri isReg bw data).mem =
      if isReg then c.mem else if ea = EA_NONE then c.mem
      else if bw then write8 c.mem ea (data.truncate 8) else write16 c.mem (ea &&& 0xfffe) (data.truncate 16) := by
  unfold putData ramWrite8 ramWrite16
  cases isReg <;> cases bw <;> simp only [if_true, if_false, Bool.false_eq_true] <;> split <;> rfl

/-- the operand prologue of two_operand_exe in terms of the addressing modes -/
theorem operands_eq (regs : Regs) (m : Mem) (sr dr : BitVec 4) (as : BitVec 2) (ad bw : Bool)
    (h : ¬ (ad = true ∧ dr = 3)) :
    let S := source regs m sr as bw
    let D := dest S.regs m dr ad
    (operands regs m sr dr as ad bw true).src = S.val.zeroExtend 32 ∧
    (operands regs m sr dr as ad bw true).dst = (destValue D m dr bw).zeroExtend 32 ∧
    (∀ doRead, (operands regs m sr dr as ad bw doRead).src = S.val.zeroExtend 32 ∧
      (operands regs m sr dr as ad bw doRead).ea = (if ad then D.ea.zeroExtend 32 else EA_NONE) ∧
      (operands regs m sr dr as ad bw doRead).regs = D.regs) := by
  intro S D
  unfold operands
  simp only [getData_updateReg, getData_val, getData_dest_regs _ _ _ _ _ _ h, getData_dest_ea _ _ _ _ _ _ h,
    getData_dest_val _ _ _ _ _ h]
  exact ⟨rfl, rfl, fun _ => ⟨rfl, rfl, rfl⟩⟩

/-! ### Double-operand instructions -/

theorem source_val_byte (regs : Regs) (m : Mem) (r : BitVec 4) (as : BitVec 2) (bw : Bool) :
    bw = true → (source regs m r as bw).val &&& 0xff00 = 0 := by
  intro h; subst h
  unfold source rd sized
  simp only [apply_ite Operand.val, if_true]
  bv_decide

theorem destValue_byte (d : Operand) (m : Mem) (r : BitVec 4) (bw : Bool) :
    bw = true → destValue d m r bw &&& 0xff00 = 0 := by
  intro h; subst h
  unfold destValue rd sized
  simp only [if_true]
  bv_decide


set_option hygiene false in
macro "two_op_case" : tactic => `(tactic| (
  simp (config := { decide := true }) only [if_true, if_false, true_or, or_true, or_false, false_or]
  refine ⟨trivial, ?_, ?_⟩
  · try simp only [putData_regs]
    all_goals (try simp (config := { decide := true }) only [updateC, updateNZ, updateV, putFlag, setFlag, clearFlag, getFlag,
      FLAG_C, FLAG_Z, FLAG_N, FLAG_V, alu, addSized, daddWord, daddByte, bcdAdd16, bcdAdd8, bcdDigit, bcdOk, bcdOk8,
      writeBack, withNZCV, withNZC, bit, neg, sized, setsFlags, flagC, SR, CG, oddWord, EA_NONE,
      if_true, if_false, hir, apply_ite ArchState.regs, apply_ite Prod.fst, apply_ite Prod.snd,
      apply_ite Core.regs] at *)
    all_goals (try simp only [getReg, setReg, lane] at *)
    all_goals bv_decide
  · try simp only [putData_mem]
    all_goals (try simp (config := { decide := true }) only [alu, addSized, bcdAdd16, bcdAdd8, bcdDigit, bcdOk, bcdOk8,
      daddWord, daddByte, writeBack, wr, setsFlags, SR, CG, EA_NONE, oddWord,
      if_true, if_false, hir, apply_ite ArchState.mem, apply_ite Prod.fst, apply_ite Prod.snd, apply_ite Core.mem] at *)
    all_goals (cases ad <;> cases bw <;>
      (try simp (config := { decide := true }) only [if_true, if_false, Bool.not_true, Bool.not_false,
        Bool.false_eq_true, putData_mem, zext_ne_none] at *))
    all_goals (
      congr 1
      all_goals (try simp (config := { decide := true }) only [getFlag, flagC, FLAG_C, sized, if_true, if_false,
        Bool.false_eq_true] at *)
      all_goals (try simp only [getReg, setReg, lane] at *)
      all_goals bv_decide)))

theorem putFlag_eq (r : Regs) (f : BitVec 16) (b : Bool) :
    putFlag r f b = setReg r 2 (if b then getReg r 2 ||| f else getReg r 2 &&& (0xffff ^^^ f)) := by
  unfold putFlag setFlag clearFlag
  cases b <;> rfl

theorem updateNZ_eq (r : Regs) (value : BitVec 32) (bw : Bool) :
    updateNZ r value bw =
      putFlag (putFlag r FLAG_N (if bw then decide (value &&& 0x80 ≠ 0) else decide (value &&& 0x8000 ≠ 0)))
        FLAG_Z (if bw then decide (value &&& 0xff = 0) else decide (value &&& 0xffff = 0)) := by
  unfold updateNZ
  cases bw <;> rfl

/-! DADD -/

theorem daddByte_eq (s d : BitVec 16) (c : Bool) (hs : bcdOk true s = true) (hd : bcdOk true d = true)
    (hs8 : s &&& 0xff00 = 0) (hd8 : d &&& 0xff00 = 0) :
    (daddByte (s.zeroExtend 32) (d.zeroExtend 32) (if c then 1 else 0)).1 = (bcdAdd8 s d c).zeroExtend 32 ∧
    (daddByte (s.zeroExtend 32) (d.zeroExtend 32) (if c then 1 else 0)).2 = bcdCarryIn s d c 2 := by
  simp only [daddByte, bcdAdd8, bcdCarryIn, bcdCarry, bcdDigit, bcdSum, nib, bcdOk, bcdOk8, apply_ite Prod.fst,
    apply_ite Prod.snd, Bool.true_or] at *
  constructor <;> bv_decide

theorem daddWord_eq (s d : BitVec 16) (c : Bool) (hs : bcdOk false s = true) (hd : bcdOk false d = true) :
    (daddWord (s.zeroExtend 32) (d.zeroExtend 32) (if c then 1 else 0)).1 = (bcdAdd16 s d c).zeroExtend 32 ∧
    (daddWord (s.zeroExtend 32) (d.zeroExtend 32) (if c then 1 else 0)).2 = bcdCarryIn s d c 4 := by
  simp only [daddWord, bcdAdd16, bcdCarryIn, bcdCarry, bcdDigit, bcdSum, nib, bcdOk, bcdOk8, apply_ite Prod.fst,
    apply_ite Prod.snd, Bool.false_or] at *
  constructor <;> bv_decide

theorem getFlagC_eq (r : Regs) : getFlag r FLAG_C = if flagC (getReg r SR) then 1 else 0 := by
  unfold getFlag flagC FLAG_C SR
  by_cases h : getReg r 2 &&& 1 = 0 <;> simp [h]

theorem bcdAdd8_byte (s d : BitVec 16) (c : Bool) : bcdAdd8 s d c &&& 0xff00 = 0 := by
  unfold bcdAdd8
  generalize bcdDigit (nib s 1) (nib d 1) (bcdCarryIn s d c 1) = x
  generalize bcdDigit (nib s 0) (nib d 0) (bcdCarryIn s d c 0) = y
  bv_decide

set_option hygiene false in
macro "dadd_finish" : tactic => `(tactic| (
  refine ⟨trivial, ?_, ?_⟩
  · simp only [putData_regs, updateNZ_eq, putFlag_eq, FLAG_C, FLAG_Z, FLAG_N, writeBack, withNZC, bit, neg, sized,
      SR, CG, hir, apply_ite ArchState.regs, decide_not, decide_false, Bool.not_false, if_true, Bool.false_eq_true,
      if_false, not_false_eq_true, decide_true]
    simp only [getReg, setReg, lane]
    bv_decide
  · simp only [putData_mem, writeBack, wr, hir, apply_ite ArchState.mem, decide_not, decide_false, Bool.not_false,
      if_true, not_false_eq_true, decide_true]
    cases ad <;> simp only [Bool.not_true, Bool.not_false, if_true, if_false, Bool.false_eq_true, EA_NONE, zext_ne_none]
    all_goals (
      simp only [oddWord] at hoD
      congr 1
      all_goals (simp only [getReg, lane] at *; bv_decide))))

set_option maxHeartbeats 2000000 in
theorem twoOp_dadd (bio : BitVec 32) (c : Core) (sr dr : BitVec 4) (as : BitVec 2) (ad bw : Bool)
    (hd : definedIx c.regs c.mem 10 sr dr as ad bw = true) :
    (twoOp bio c 10 sr dr as ad bw).illegal = false ∧
      (twoOp bio c 10 sr dr as ad bw).core.regs = (execI c.regs c.mem 10 sr dr as ad bw).regs ∧
      (twoOp bio c 10 sr dr as ad bw).core.mem = (execI c.regs c.mem 10 sr dr as ad bw).mem := by
  have hcg : ¬ (ad = true ∧ dr = 3) := by
    intro ⟨ha, hr⟩; subst ha hr; simp [definedIx, CG] at hd
  have hop := operands_eq c.regs c.mem sr dr as ad bw hcg
  simp only [] at hop
  obtain ⟨h1, h2, h3⟩ := hop
  have hsb := source_val_byte c.regs c.mem sr as bw
  have hdb := destValue_byte (dest (source c.regs c.mem sr as bw).regs c.mem dr ad) c.mem dr bw
  have hir := dest_isReg (source c.regs c.mem sr as bw).regs c.mem dr ad
  have hdm := dest_isMem (source c.regs c.mem sr as bw).regs c.mem dr ad
  unfold definedIx at hd
  unfold twoOp execI
  simp only [h1, h2, (h3 true).2.1, (h3 true).2.2]
  simp only [] at hd
  generalize source c.regs c.mem sr as bw = S at *
  generalize dest S.regs c.mem dr ad = D at *
  generalize destValue D c.mem dr bw = dv at *
  clear h1 h2 h3
  simp only [BitVec.reduceEq, BitVec.reduceLT, reduceIte, false_or, or_false, getFlagC_eq, alu, setsFlags] at hd ⊢
  simp only [Bool.decide_and, Bool.and_eq_true, decide_eq_true_eq, Bool.not_eq_true', decide_eq_false_iff_not,
    forall_const, true_implies] at hd
  obtain ⟨-, hoS, hoD, -, hsr, hbS, hbD⟩ := hd
  simp only [SR] at hsr
  cases bw
  · have hw := daddWord_eq S.val dv (flagC (getReg D.regs SR)) hbS hbD
    simp only [Bool.false_eq_true, if_false, hw.1, hw.2]
    generalize bcdAdd16 S.val dv (flagC (getReg D.regs SR)) = R
    generalize bcdCarryIn S.val dv (flagC (getReg D.regs SR)) 4 = K
    clear hw
    dadd_finish
  · have hw := daddByte_eq S.val dv (flagC (getReg D.regs SR)) hbS hbD (hsb rfl) (hdb rfl)
    have hr8 := bcdAdd8_byte S.val dv (flagC (getReg D.regs SR))
    simp only [if_true, hw.1, hw.2]
    generalize bcdAdd8 S.val dv (flagC (getReg D.regs SR)) = R at *
    generalize bcdCarryIn S.val dv (flagC (getReg D.regs SR)) 2 = K
    clear hw
    dadd_finish

set_option maxHeartbeats 4000000 in
theorem twoOp_refines (bio : BitVec 32) (c : Core) (o sr dr : BitVec 4) (as : BitVec 2) (ad bw : Bool)
    (hd : definedIx c.regs c.mem o sr dr as ad bw = true) :
    (twoOp bio c o sr dr as ad bw).illegal = false ∧
      (twoOp bio c o sr dr as ad bw).core.regs = (execI c.regs c.mem o sr dr as ad bw).regs ∧
      (twoOp bio c o sr dr as ad bw).core.mem = (execI c.regs c.mem o sr dr as ad bw).mem := by
  by_cases hnd : o = 10
  · subst hnd
    exact twoOp_dadd bio c sr dr as ad bw hd
  have hcg : ¬ (ad = true ∧ dr = 3) := by
    intro ⟨ha, hr⟩; subst ha hr; simp [definedIx, CG] at hd
  have ho : o = 4 ∨ o = 5 ∨ o = 6 ∨ o = 7 ∨ o = 8 ∨ o = 9 ∨ o = 10 ∨ o = 11 ∨ o = 12 ∨ o = 13 ∨ o = 14 ∨ o = 15 := by
    have : o ≥ 4 := by
      unfold definedIx at hd
      simp only [Bool.decide_and, Bool.and_eq_true, decide_eq_true_eq] at hd
      exact hd.1
    bv_decide
  have hop := operands_eq c.regs c.mem sr dr as ad bw hcg
  simp only [] at hop
  obtain ⟨h1, h2, h3⟩ := hop
  have hsb := source_val_byte c.regs c.mem sr as bw
  have hdb := destValue_byte (dest (source c.regs c.mem sr as bw).regs c.mem dr ad) c.mem dr bw
  have hir := dest_isReg (source c.regs c.mem sr as bw).regs c.mem dr ad
  have hdm := dest_isMem (source c.regs c.mem sr as bw).regs c.mem dr ad
  unfold definedIx at hd
  unfold twoOp execI
  simp only [h1, h2, (h3 true).2.1, (h3 true).2.2, (h3 false).2.1, (h3 false).2.2, (h3 false).1]
  simp only [] at hd
  generalize source c.regs c.mem sr as bw = S at *
  generalize dest S.regs c.mem dr ad = D at *
  generalize destValue D c.mem dr bw = dv at *
  clear h1 h2 h3
  rcases ho with rfl | rfl | rfl | rfl | rfl | rfl | rfl | rfl | rfl | rfl | rfl | rfl
  · two_op_case
  · two_op_case
  · two_op_case
  · two_op_case
  · two_op_case
  · two_op_case
  · exact absurd rfl hnd
  · two_op_case
  · two_op_case
  · two_op_case
  · two_op_case
  · two_op_case
/-! ### Single-operand instructions -/

theorem source_isReg (regs : Regs) (m : Mem) (r : BitVec 4) (as : BitVec 2) (bw : Bool) :
    (source regs m r as bw).isReg = decide (as = 0) := by
  unfold source SR CG PC
  simp only [apply_ite Operand.isReg]
  bv_decide

theorem ramWrite16_regs (bio : BitVec 32) (c : Core) (a : BitVec 32) (v : BitVec 16) :
    (ramWrite16 bio c a v).regs = c.regs := rfl
theorem ramWrite16_mem (bio : BitVec 32) (c : Core) (a : BitVec 32) (v : BitVec 16) :
    (ramWrite16 bio c a v).mem = write16 c.mem a v := rfl

theorem even_mask (x : BitVec 16) (h : x &&& 1 = 0) : x.zeroExtend 32 &&& 0xfffe = x.zeroExtend 32 := by
  bv_decide

theorem even_mask_sub (x : BitVec 16) (h : x &&& 1 = 0) : (x - 2).zeroExtend 32 &&& 0xfffe = (x - 2).zeroExtend 32 := by
  bv_decide

theorem oneOp_push (bio : BitVec 32) (c : Core) (ri : BitVec 4) (as : BitVec 2) (bw : Bool)
    (hev : getReg (source (setReg c.regs 1 (getReg c.regs 1 - 2)) c.mem ri as bw).regs 1 &&& 1 = 0) :
    (oneOp bio c 4 ri as bw).regs = (execII c.regs c.mem 4 ri as bw).regs ∧
    (oneOp bio c 4 ri as bw).mem = (execII c.regs c.mem 4 ri as bw).mem := by
  unfold oneOp execII
  simp (config := { decide := true }) only [if_true, if_false, ramWrite16_regs, ramWrite16_mem,
    getData_updateReg, getData_val, wr, SP, Bool.false_eq_true, even_mask _ hev, and_self]

theorem oneOp_call (bio : BitVec 32) (c : Core) (ri : BitVec 4) (as : BitVec 2)
    (hev : getReg (source c.regs c.mem ri as false).regs 1 &&& 1 = 0) :
    (oneOp bio c 5 ri as false).regs = (execII c.regs c.mem 5 ri as false).regs ∧
    (oneOp bio c 5 ri as false).mem = (execII c.regs c.mem 5 ri as false).mem := by
  unfold oneOp execII
  simp (config := { decide := true }) only [if_true, if_false, ramWrite16_regs, ramWrite16_mem,
    getData_updateReg, getData_val, wr, SP, PC, Bool.false_eq_true, getReg_setReg, even_mask_sub _ hev, and_self]

theorem reti_refines (c : Core) (bw : Bool) (as : BitVec 2) (r : BitVec 4) :
    (reti c).regs = (execII c.regs c.mem 6 r as bw).regs ∧ (reti c).mem = (execII c.regs c.mem 6 r as bw).mem := by
  unfold reti execII
  simp (config := { decide := true }) only [if_true, if_false, getReg_setReg, SP, PC, SR, rd16]
  refine ⟨?_, trivial⟩
  have h : (getReg c.regs 1 + 2).zeroExtend 32 = (getReg c.regs 1 + 2).zeroExtend 32 := rfl
  generalize read16 c.mem ((getReg c.regs 1).zeroExtend 32) = a
  generalize read16 c.mem ((getReg c.regs 1 + 2).zeroExtend 32) = b
  simp only [getReg, setReg, lane]
  bv_decide


theorem source_isMem_of (regs : Regs) (m : Mem) (r : BitVec 4) (as : BitVec 2) (bw : Bool)
    (h : (source regs m r as bw).isReg = true ∨ (source regs m r as bw).isMem = true) (has : as ≠ 0) :
    (source regs m r as bw).isMem = true := by
  rw [source_isReg] at h
  simp only [decide_eq_true_eq, has, false_or] at h
  exact h

set_option hygiene false in
macro "rmw_regs" : tactic => `(tactic| (
  have hv := getData_val c.regs c.mem ri as bw
  have hu := getData_updateReg c.regs c.mem ri as bw
  have hir := source_isReg c.regs c.mem ri as bw
  have hsb := source_val_byte c.regs c.mem ri as bw
  unfold definedIIx at hd
  unfold oneOp execII
  simp only [BitVec.reduceEq, reduceIte] at hd
  simp only [BitVec.reduceEq, reduceIte]
  simp only [hv]
  simp only [putData_regs]
  generalize (getData c.regs c.mem ri as bw true).regs = G at *
  generalize source c.regs c.mem ri as bw = S at *
  have hcf : getFlag G FLAG_C = (if getReg G 2 &&& 1 = 0 then 0 else 1) := rfl
  generalize getFlag G FLAG_C = cf at hcf ⊢
  try simp only [clearFlag]
  try simp only [updateNZ_eq]
  try simp only [putFlag_eq, FLAG_C, FLAG_Z, FLAG_N, FLAG_V]
  simp only [writeBack, withNZCV, bit, neg, sized, flagC, SR, CG, apply_ite ArchState.regs, hir]
  simp only [oddWord, SR, CG, hir] at hd
  simp only [updateReg] at hu ⊢
  simp only [getReg, setReg, lane] at hu hd hcf ⊢
  bv_decide))

set_option hygiene false in
macro "rmw_mem" : tactic => `(tactic| (
  have hv := getData_val c.regs c.mem ri as bw
  have he := getData_ea c.regs c.mem ri as bw
  have hu := getData_updateReg c.regs c.mem ri as bw
  have hir := source_isReg c.regs c.mem ri as bw
  have hsb := source_val_byte c.regs c.mem ri as bw
  unfold definedIIx at hd
  unfold oneOp execII
  simp only [BitVec.reduceEq, reduceIte] at hd
  simp only [BitVec.reduceEq, reduceIte]
  simp only [hv, he]
  simp only [putData_mem, writeBack, wr, apply_ite ArchState.mem]
  have him : as ≠ 0 → (source c.regs c.mem ri as bw).isMem = true := by
    intro has
    apply source_isMem_of _ _ _ _ _ _ has
    simp only [Bool.decide_and, Bool.and_eq_true, decide_eq_true_eq, Bool.or_eq_true, Bool.decide_or] at hd
    exact hd.2.1
  generalize (getData c.regs c.mem ri as bw true).regs = G at *
  generalize source c.regs c.mem ri as bw = S at *
  have hcf : getFlag G FLAG_C = (if getReg G 2 &&& 1 = 0 then 0 else 1) := rfl
  generalize getFlag G FLAG_C = cf at hcf ⊢
  by_cases has : as = 0
  · simp only [has, hir, decide_true, if_true]
  · have hm := him has
    simp only [has, hir, hm, decide_false, if_true, if_false, Bool.false_eq_true, EA_NONE, zext_ne_none]
    simp only [oddWord, hm] at hd
    cases bw <;> simp only [if_true, if_false, Bool.false_eq_true] <;> congr 1 <;>
      (simp only [flagC, sized, SR, updateReg, getReg, setReg, lane] at hd hcf hsb hu ⊢; bv_decide)))

set_option maxHeartbeats 1000000 in
theorem oneOp_rrc (bio : BitVec 32) (c : Core) (ri : BitVec 4) (as : BitVec 2) (bw : Bool)
    (hd : definedIIx c.regs c.mem 0 ri as bw = true) :
    (oneOp bio c 0 ri as bw).regs = (execII c.regs c.mem 0 ri as bw).regs ∧
    (oneOp bio c 0 ri as bw).mem = (execII c.regs c.mem 0 ri as bw).mem := by
  constructor
  · rmw_regs
  · rmw_mem

set_option maxHeartbeats 1000000 in
theorem oneOp_swpb (bio : BitVec 32) (c : Core) (ri : BitVec 4) (as : BitVec 2) (bw : Bool)
    (hd : definedIIx c.regs c.mem 1 ri as bw = true) :
    (oneOp bio c 1 ri as bw).regs = (execII c.regs c.mem 1 ri as bw).regs ∧
    (oneOp bio c 1 ri as bw).mem = (execII c.regs c.mem 1 ri as bw).mem := by
  constructor
  · rmw_regs
  · rmw_mem

set_option maxHeartbeats 1000000 in
theorem oneOp_rra (bio : BitVec 32) (c : Core) (ri : BitVec 4) (as : BitVec 2) (bw : Bool)
    (hd : definedIIx c.regs c.mem 2 ri as bw = true) :
    (oneOp bio c 2 ri as bw).regs = (execII c.regs c.mem 2 ri as bw).regs ∧
    (oneOp bio c 2 ri as bw).mem = (execII c.regs c.mem 2 ri as bw).mem := by
  constructor
  · rmw_regs
  · rmw_mem

set_option maxHeartbeats 1000000 in
theorem oneOp_sxt (bio : BitVec 32) (c : Core) (ri : BitVec 4) (as : BitVec 2) (bw : Bool)
    (hd : definedIIx c.regs c.mem 3 ri as bw = true) :
    (oneOp bio c 3 ri as bw).regs = (execII c.regs c.mem 3 ri as bw).regs ∧
    (oneOp bio c 3 ri as bw).mem = (execII c.regs c.mem 3 ri as bw).mem := by
  constructor
  · rmw_regs
  · rmw_mem

/-! ### Jumps -/

theorem jump_regs (c : Core) (w : BitVec 16) :
    (relativeJumpExe c w).core.regs = jump c.regs w := by
  unfold relativeJumpExe jump jumpOffset getFlag flagZ flagC flagN flagV FLAG_Z FLAG_C FLAG_N FLAG_V SR PC
  simp only []
  unfold getReg setReg lane
  bv_decide

/-! ### Instruction length: disassembler model vs. the guide's formats; PC advance of the architecture -/

/-- does the operand `As`/`reg` occupy an extension word (Table 3-3: indexed, symbolic, absolute, immediate)? -/
def srcExt (reg : BitVec 4) (as : BitVec 2) : Bool :=
  (as = 1 ∧ reg ≠ 3) ∨ (as = 3 ∧ reg = 0)

/-- length in bytes of the core instruction with first word `w`, from the guide's formats -/
def coreLen (w : BitVec 16) : BitVec 16 :=
  if w.extractLsb' 13 3 = (1 : BitVec 3) then 2
  else if w.extractLsb' 10 6 = (0b000100 : BitVec 6) then
    (if (w.extractLsb' 7 3 : BitVec 3) = 6 then 2 else 2 + (if srcExt (w.extractLsb' 0 4) (w.extractLsb' 4 2) then 2 else 0))
  else
    2 + (if srcExt (w.extractLsb' 8 4) (w.extractLsb' 4 2) then 2 else 0) +
      (if w.extractLsb' 7 1 = (1 : BitVec 1) then 2 else 0)

/-- first words of 16-bit core instructions the disassembler table knows (RETI only as 0x1300) -/
def isCore (w : BitVec 16) : Bool :=
  w.extractLsb' 13 3 = (1 : BitVec 3) ∨
  (w.extractLsb' 10 6 = (0b000100 : BitVec 6) ∧ (w.extractLsb' 7 3 : BitVec 3) ≤ 5 ∧
     ¬ (w.extractLsb' 6 1 = (1 : BitVec 1) ∧ ((w.extractLsb' 7 3 : BitVec 3) = 1 ∨ (w.extractLsb' 7 3 : BitVec 3) = 3 ∨ (w.extractLsb' 7 3 : BitVec 3) = 5))) ∨
  (w.extractLsb' 13 3 ≠ (1 : BitVec 3) ∧ w.extractLsb' 10 6 ≠ (0b000100 : BitVec 6) ∧ (w.extractLsb' 12 4 : BitVec 4) ≥ 4)

def rowPred (w : BitVec 16) (r : Row) : Bool := r.version ≠ VERSION_MSP430X_EXT ∧ w &&& r.mask = r.opcode

def rowLen (rows : List Row) (w : BitVec 16) : Nat :=
  match rows.find? (rowPred w) with
  | none => 2
  | some r => rowCount r w

theorem rowLen_nil (w : BitVec 16) : rowLen [] w = 2 := rfl
theorem rowLen_cons (r : Row) (rs : List Row) (w : BitVec 16) :
    rowLen (r :: rs) w = if rowPred w r then rowCount r w else rowLen rs w := by
  unfold rowLen
  simp only [List.find?]
  cases rowPred w r <;> rfl

theorem disLen_rowLen (w w1 : BitVec 16) (hp : ¬ (w = 0x0110)) (hq : ¬ (w &&& 0xf830 = 0x1800)) :
    disLen w w1 = rowLen table w := by
  unfold disLen rowLen findRow
  simp only [hp, hq, if_false]
  have : (fun r : Row => decide (r.version ≠ VERSION_MSP430X_EXT ∧ w &&& r.mask = r.opcode)) = rowPred w := by
    funext r; rfl
  rw [this]
  cases List.find? (rowPred w) table <;> simp

theorem srcCount_bv (reg : BitVec 4) (as : BitVec 2) :
    BitVec.ofNat 16 (srcCount reg as) = if srcExt reg as then 2 else 0 := by
  unfold srcCount srcExt
  by_cases h0 : reg = 0 <;> by_cases h2 : reg = 2 <;> by_cases h3 : reg = 3 <;>
    by_cases a1 : as = 1 <;> by_cases a3 : as = 3 <;> simp_all

theorem dstCount_bv (reg : BitVec 4) (ad : Bool) :
    BitVec.ofNat 16 (dstCount reg ad) = if ad then 2 else 0 := by
  unfold dstCount
  cases ad <;> simp

set_option maxRecDepth 8000 in
set_option maxHeartbeats 4000000 in
theorem disLen_core (w w1 : BitVec 16) (h : isCore w = true) : BitVec.ofNat 16 (disLen w w1) = coreLen w := by
  have hp : ¬ (w = 0x0110) := by unfold isCore at h; bv_decide
  have hq : ¬ (w &&& 0xf830 = 0x1800) := by unfold isCore at h; bv_decide
  rw [disLen_rowLen w w1 hp hq]
  unfold table
  simp only [rowLen_cons, rowLen_nil, rowPred, rowCount, VERSION_MSP430X_EXT, VERSION_MSP430, VERSION_MSP430X,
    OP_NONE, OP_ONE_OPERAND, OP_ONE_OPERAND_W, OP_ONE_OPERAND_X, OP_JUMP, OP_TWO_OPERAND, OP_MOVA_AT_REG_REG,
    OP_MOVA_AT_REG_PLUS_REG, OP_MOVA_ABS20_REG, OP_MOVA_INDEXED_REG, OP_SHIFT20, OP_MOVA_REG_ABS, OP_MOVA_REG_INDEXED,
    OP_IMMEDIATE_REG, OP_REG_REG, OP_CALLA_SOURCE, OP_CALLA_ABS20, OP_CALLA_INDIRECT_PC, OP_CALLA_IMMEDIATE, OP_PUSH, OP_POP,
    Nat.reduceEqDiff, ne_eq, not_true_eq_false, not_false_eq_true, true_and, false_and, decide_false, decide_true,
    if_true, if_false, or_false, false_or, or_true, true_or, Nat.reduceEqDiff, reduceIte,
    Bool.false_eq_true, decide_eq_true_eq]
  simp only [apply_ite (BitVec.ofNat 16), BitVec.ofNat_add, srcCount_bv, dstCount_bv]
  unfold coreLen
  simp only [srcExt, isCore] at h ⊢
  bv_decide

/-- the instruction cannot change the PC other than by being fetched: no jump, CALL, RETI, and the
    PC is not the register-mode destination -/
def nonBranching (w : BitVec 16) : Bool :=
  w.extractLsb' 13 3 ≠ (1 : BitVec 3) ∧
  ((w.extractLsb' 10 6 = (0b000100 : BitVec 6) ∧
     (w.extractLsb' 7 3 : BitVec 3) ≤ 4 ∧
       ¬ ((w.extractLsb' 7 3 : BitVec 3) ≤ 3 ∧ w.extractLsb' 4 2 = (0 : BitVec 2) ∧ w.extractLsb' 0 4 = (0 : BitVec 4))) ∨
   (w.extractLsb' 10 6 ≠ (0b000100 : BitVec 6) ∧ ¬ (w.extractLsb' 7 1 = (0 : BitVec 1) ∧ w.extractLsb' 0 4 = (0 : BitVec 4))))

set_option maxHeartbeats 2000000 in
theorem execI_pc (regs : Regs) (m : Mem) (op sreg dreg : BitVec 4) (as : BitVec 2) (ad bw : Bool)
    (hnb : ¬ (ad = false ∧ dreg = 0)) :
    getReg (execI regs m op sreg dreg as ad bw).regs 0 =
      getReg regs 0 + (if srcExt sreg as then 2 else 0) + (if ad then 2 else 0) ∨ (ad = true ∧ dreg = 3) := by
  unfold execI source dest writeBack setsFlags srcExt PC SP SR CG
  simp only []
  generalize alu op bw _ _ _ = A
  simp only [apply_ite ArchState.regs, apply_ite Operand.regs, apply_ite Operand.isReg]
  simp only [getReg, setReg, lane]
  bv_decide

set_option maxHeartbeats 2000000 in
theorem execII_pc (regs : Regs) (m : Mem) (op : BitVec 3) (r : BitVec 4) (as : BitVec 2) (bw : Bool)
    (h4 : op ≤ 4) (hnb : ¬ (op ≤ 3 ∧ as = 0 ∧ r = 0)) :
    getReg (execII regs m op r as bw).regs 0 = getReg regs 0 + (if srcExt r as then 2 else 0) := by
  unfold execII source writeBack srcExt PC SP SR CG
  simp only [apply_ite ArchState.regs, apply_ite Operand.regs, apply_ite Operand.isReg]
  simp only [getReg, setReg, lane]
  bv_decide

end NakenVerif.Msp430.SimProofs
