/-
  MSP430 part of C01 (i), bytewise: assembling the decoder's reading of the words an accepted statement emitted
  gives exactly those words again.  The operand round trips (`src_roundtrip`, `dst_roundtrip`) show that
  `process_operand` reproduces register, As/Ad and extension word from what the disassembler prints for them.
-/
import NakenVerif.Msp430.RoundTrip
set_option linter.unusedSimpArgs false
set_option linter.unusedVariables false
namespace NakenVerif.Msp430
open NakenVerif.Generated.Msp430Dis NakenVerif.Generated.Msp430Asm Arch Asm Spec Disasm

theorem cgOf_none_iff (bw : Bool) (v : BitVec 32) :
    cgOf bw v = none ↔
      (v ≠ 0xffffffff ∧ ¬ (bw = true ∧ v = 0xff) ∧ ¬ (bw = false ∧ v = 0xffff) ∧ v ≠ 0 ∧ v ≠ 1 ∧ v ≠ 2 ∧ v ≠ 4 ∧ v ≠ 8) := by
  unfold cgOf
  constructor
  · intro h
    repeat' split at h
    all_goals first | (cases h; done) | skip
    simp_all
  · intro ⟨a, b, c, d, e, f, g, i⟩
    rw [if_neg (fun h => h.elim a (fun h => h.elim b c)), if_neg d, if_neg e, if_neg f, if_neg g, if_neg i]

/-- the value an immediate word holds is not one the constant generator provides, when the written value was not -/
theorem cgOf_ext_none (bw : Bool) (v : BitVec 32) (hc : cgOf bw v = none)
    (hf : (if bw then fits8 v else fits16 v) = true) : cgOf bw (u16 (v.truncate 16)) = none := by
  rw [cgOf_none_iff] at hc ⊢
  obtain ⟨a, b, c, d, e, f, g, i⟩ := hc
  cases bw
  · simp only [Bool.false_eq_true, if_false, fits16, Bool.and_eq_true, false_and, not_false_eq_true, true_and,
      not_and, ne_eq, u16] at *
    obtain ⟨h1, h2⟩ := hf
    refine ⟨?_, ?_, ?_, ?_, ?_, ?_, ?_⟩ <;> (try intro hh) <;> bv_decide
  · simp only [if_true, fits8, Bool.and_eq_true, true_and, Bool.true_eq_false, false_and, not_false_eq_true, ne_eq, u16] at *
    obtain ⟨h1, h2⟩ := hf
    refine ⟨?_, ?_, ?_, ?_, ?_, ?_, ?_⟩ <;> (try intro hh) <;> bv_decide

theorem cgOf_consts (bw : Bool) : cgOf bw 0 = some (3, 0) ∧ cgOf bw 1 = some (3, 1) ∧ cgOf bw 2 = some (3, 2) ∧
    cgOf bw 0xffffffff = some (3, 3) ∧ cgOf bw 4 = some (2, 2) ∧ cgOf bw 8 = some (2, 3) := by
  cases bw <;> decide

theorem process_imm_cg (ctx : Ctx) (hf1 : ctx.flag ≠ 1) (v : BitVec 32) (bw : Bool) (size : Nat) (r : BitVec 4) (m : BitVec 2)
    (hc : cgOf bw v = some (r, m)) :
    processOperand ctx (operandToCg ctx (.imm v) bw) size true false false = some ⟨r, m, none⟩ := by
  rw [operandToCg_imm, if_neg hf1, hc]; rfl

theorem src_roundtrip_reg (ctx : Ctx) (hf1 : ctx.flag ≠ 1) (r : BitVec 4) (size : Nat) (bw : Bool) (e : BitVec 16) (q : Param)
    (hq : processOperand ctx (operandToCg ctx (srcOperandOf ctx.address r 0 e) bw) size true false false = some q) :
    q = ⟨r, 0, none⟩ := by
  unfold srcOperandOf at hq
  by_cases h0 : r = 0
  · subst h0; simp [operandToCg, processOperand] at hq; exact hq.symm
  · by_cases h2 : r = 2
    · subst h2; simp [operandToCg, processOperand] at hq; exact hq.symm
    · by_cases h3 : r = 3
      · subst h3
        simp only [show ¬ ((3 : BitVec 4) = 0) by decide, show ¬ ((3 : BitVec 4) = 2) by decide, if_false, if_true] at hq
        rw [process_imm_cg ctx hf1 0 bw size 3 0 (cgOf_consts bw).1] at hq
        exact (Option.some.inj hq).symm
      · rw [if_neg h0, if_neg h2, if_neg h3] at hq
        simp [operandToCg, processOperand] at hq; exact hq.symm

theorem cgOf_some_cases {bw : Bool} {v : BitVec 32} {r : BitVec 4} {m : BitVec 2} (h : cgOf bw v = some (r, m)) :
    (r = 3 ∧ m = 3) ∨ (r = 3 ∧ m = 0) ∨ (r = 3 ∧ m = 1) ∨ (r = 3 ∧ m = 2) ∨ (r = 2 ∧ m = 2) ∨ (r = 2 ∧ m = 3) := by
  unfold cgOf at h
  repeat' split at h
  all_goals first | (cases h; done) | (simp only [Option.some.injEq, Prod.mk.injEq] at h; obtain ⟨rfl, rfl⟩ := h; simp)

theorem src_roundtrip_cg (ctx : Ctx) (hf1 : ctx.flag ≠ 1) (r : BitVec 4) (m : BitVec 2) (size : Nat) (bw : Bool) (e : BitVec 16)
    (q : Param) (hrm : (r = 3 ∧ m = 3) ∨ (r = 3 ∧ m = 0) ∨ (r = 3 ∧ m = 1) ∨ (r = 3 ∧ m = 2) ∨ (r = 2 ∧ m = 2) ∨ (r = 2 ∧ m = 3))
    (hq : processOperand ctx (operandToCg ctx (srcOperandOf ctx.address r m e) bw) size true false false = some q) :
    q = ⟨r, m, none⟩ := by
  obtain ⟨c0, c1, c2, c3, c4, c8⟩ := cgOf_consts bw
  rcases hrm with ⟨rfl, rfl⟩ | ⟨rfl, rfl⟩ | ⟨rfl, rfl⟩ | ⟨rfl, rfl⟩ | ⟨rfl, rfl⟩ | ⟨rfl, rfl⟩
  · have : srcOperandOf ctx.address 3 3 e = .imm 0xffffffff := by rfl
    rw [this, process_imm_cg ctx hf1 _ bw size 3 3 c3] at hq; exact (Option.some.inj hq).symm
  · have : srcOperandOf ctx.address 3 0 e = .imm 0 := by rfl
    rw [this, process_imm_cg ctx hf1 _ bw size 3 0 c0] at hq; exact (Option.some.inj hq).symm
  · have : srcOperandOf ctx.address 3 1 e = .imm 1 := by rfl
    rw [this, process_imm_cg ctx hf1 _ bw size 3 1 c1] at hq; exact (Option.some.inj hq).symm
  · have : srcOperandOf ctx.address 3 2 e = .imm 2 := by rfl
    rw [this, process_imm_cg ctx hf1 _ bw size 3 2 c2] at hq; exact (Option.some.inj hq).symm
  · have : srcOperandOf ctx.address 2 2 e = .imm 4 := by rfl
    rw [this, process_imm_cg ctx hf1 _ bw size 2 2 c4] at hq; exact (Option.some.inj hq).symm
  · have : srcOperandOf ctx.address 2 3 e = .imm 8 := by rfl
    rw [this, process_imm_cg ctx hf1 _ bw size 2 3 c8] at hq; exact (Option.some.inj hq).symm

/-- **source operand round trip.**  What `process_operand` made of a source operand with a meaning is made again of
    the operand the disassembler prints for it (no forward-reference flag: `flag ≠ 1`). -/
theorem src_roundtrip (ctx : Ctx) (hf1 : ctx.flag ≠ 1) (o : Operand) (size : Nat) (bw : Bool) (hb : bw = decide (size = 8))
    (p q : Param) (m : Src) (e : BitVec 16) (he : ∀ x, p.ext = some x → e = x)
    (hm : srcMeaning bw o = some m)
    (hp : processOperand ctx (operandToCg ctx o bw) size true false false = some p)
    (hq : processOperand ctx (operandToCg ctx (srcOperandOf ctx.address p.reg p.mode e) bw) size true false false = some q) :
    q = p := by
  cases o with
  | none => simp [srcMeaning] at hm
  | reg r =>
    simp only [operandToCg, processOperand, Option.some.injEq] at hp
    subst hp
    exact src_roundtrip_reg ctx hf1 r size bw e q hq
  | indexed v r =>
    simp only [operandToCg, processOperand] at hp
    obtain ⟨rfl, _, _⟩ := numeric_indexed hp
    have he' : e = v.truncate 16 := he _ rfl
    subst he'
    simp only [srcMeaning] at hm
    split at hm
    · cases hm
    · rename_i h03
      simp only [not_or] at h03
      unfold srcOperandOf at hq
      rw [if_neg h03.1] at hq
      by_cases h2 : r = 2
      · subst h2
        simp only [if_true, show ¬ ((1 : BitVec 2) = 0) by decide, if_false, operandToCg, processOperand] at hq
        obtain ⟨rfl, _⟩ := numeric_abs hq
        simp [u16]
      · rw [if_neg h2, if_neg h03.2] at hq
        simp only [show ¬ ((1 : BitVec 2) = 0) by decide, if_false, if_true, operandToCg, processOperand] at hq
        obtain ⟨rfl, _, _⟩ := numeric_indexed hq
        simp [s16]; bv_decide
  | abs v =>
    simp only [operandToCg, processOperand] at hp
    obtain ⟨rfl, _⟩ := numeric_abs hp
    have he' : e = v.truncate 16 := he _ rfl
    subst he'
    unfold srcOperandOf at hq
    simp only [show ¬ ((2 : BitVec 4) = 0) by decide, if_false, if_true, show ¬ ((1 : BitVec 2) = 0) by decide,
      operandToCg, processOperand] at hq
    obtain ⟨rfl, _⟩ := numeric_abs hq
    simp [u16]
  | symbolic v =>
    simp only [operandToCg, processOperand] at hp
    obtain ⟨rfl, _⟩ := numeric_symbolic hp
    have he' := he _ rfl
    subst he'
    unfold srcOperandOf at hq
    simp only [if_true, show ¬ ((1 : BitVec 2) = 0) by decide, if_false, operandToCg, processOperand] at hq
    obtain ⟨rfl, hfit⟩ := numeric_symbolic hq
    simp only [Bool.false_and, Bool.false_eq_true, if_false, Param.mk.injEq, true_and, Option.some.injEq]
    simp only [fits16, Bool.and_eq_true, s16] at hfit
    obtain ⟨f1, f2⟩ := hfit
    generalize ctx.address = addr at *
    simp only [s16]
    bv_decide
  | indirect r =>
    simp only [operandToCg, processOperand, if_true, Option.some.injEq] at hp
    subst hp
    simp only [srcMeaning] at hm
    split at hm
    · cases hm
    · rename_i h23
      simp only [not_or] at h23
      unfold srcOperandOf at hq
      by_cases h0 : r = 0
      · subst h0
        simp [operandToCg, processOperand] at hq; exact hq.symm
      · rw [if_neg h0, if_neg h23.1, if_neg h23.2] at hq
        simp [operandToCg, processOperand] at hq; exact hq.symm
  | indirectInc r =>
    simp only [operandToCg, processOperand, if_true, Option.some.injEq] at hp
    subst hp
    simp only [srcMeaning] at hm
    split at hm
    · cases hm
    · rename_i h023
      simp only [not_or] at h023
      unfold srcOperandOf at hq
      rw [if_neg h023.1, if_neg h023.2.1, if_neg h023.2.2] at hq
      simp [operandToCg, processOperand] at hq; exact hq.symm
  | imm v =>
    rw [operandToCg_imm, if_neg hf1] at hp
    cases hc : cgOf bw v with
    | some rm =>
      obtain ⟨r, m'⟩ := rm
      rw [hc] at hp
      simp only [processOperand, Option.some.injEq] at hp
      subst hp
      exact src_roundtrip_cg ctx hf1 r m' size bw e q (cgOf_some_cases hc) hq
    | none =>
      rw [hc] at hp
      simp only [processOperand] at hp
      obtain ⟨_, rfl, hfit⟩ := numeric_imm hp
      have he' := he _ rfl
      subst he'
      unfold srcOperandOf at hq
      simp only [if_true, show ¬ ((3 : BitVec 2) = 0) by decide, show ¬ ((3 : BitVec 2) = 1) by decide,
        show ¬ ((3 : BitVec 2) = 2) by decide, if_false] at hq
      have hfit' : (if bw = true then fits8 v else fits16 v) = true := by
        subst hb; by_cases h8 : size = 8 <;> simp [h8] at hfit ⊢ <;> exact hfit
      rw [operandToCg_imm, if_neg hf1, cgOf_ext_none bw v hc hfit'] at hq
      simp only [processOperand] at hq
      obtain ⟨_, rfl, _⟩ := numeric_imm hq
      simp [u16]

theorem dst_index_roundtrip (ctx : Ctx) (r : BitVec 4) (x : BitVec 16) (h0 : r ≠ 0) (size : Nat) (prevExt : Bool) (count : Nat)
    (q : Param)
    (hq : processOperand ctx (.plain (dstOperandOf ctx.address r true count x)) size false true prevExt = some q) :
    q = ⟨r, 1, some x⟩ := by
  unfold dstOperandOf at hq
  simp only [Bool.not_true, Bool.false_eq_true, if_false] at hq
  rw [if_neg h0] at hq
  by_cases h2 : r = 2
  · subst h2
    simp only [if_true, processOperand] at hq
    obtain ⟨rfl, _⟩ := numeric_abs hq
    simp [u16]
  · rw [if_neg h2] at hq
    simp only [processOperand] at hq
    obtain ⟨rfl, _, _⟩ := numeric_indexed hq
    simp [s16]; bv_decide

/-- **destination operand round trip** -/
theorem dst_roundtrip (ctx : Ctx) (o : Operand) (size : Nat) (prevExt : Bool) (p q : Param) (d : Dst) (e : BitVec 16)
    (he : ∀ x, p.ext = some x → e = x) (count : Nat) (hcount : count = if prevExt then 2 else 0)
    (hm : dstMeaning o = some d)
    (hp : processOperand ctx (.plain o) size false true prevExt = some p)
    (hq : processOperand ctx (.plain (dstOperandOf ctx.address p.reg (decide (p.mode = 1)) count e)) size false true prevExt = some q) :
    q = p := by
  cases o with
  | none => simp [dstMeaning] at hm
  | indirectInc r => simp [dstMeaning] at hm
  | imm v => simp [dstMeaning] at hm
  | reg r =>
    simp only [processOperand, Option.some.injEq] at hp; subst hp
    simp [dstOperandOf, processOperand] at hq; exact hq.symm
  | indexed v r =>
    simp only [processOperand] at hp
    obtain ⟨rfl, _, _⟩ := numeric_indexed hp
    have he' := he _ rfl; subst he'
    have h0 : r ≠ 0 := by
      intro h; subst h; simp [dstMeaning, dstOfIndex] at hm
    exact dst_index_roundtrip ctx r _ h0 size prevExt count q (by simpa using hq)
  | indirect r =>
    simp only [processOperand, Bool.false_eq_true, if_false] at hp
    obtain ⟨rfl, _, _⟩ := numeric_indexed hp
    have he' := he _ rfl; subst he'
    have h0 : r ≠ 0 := by
      intro h; subst h; simp [dstMeaning, dstOfIndex] at hm
    exact dst_index_roundtrip ctx r _ h0 size prevExt count q (by simpa using hq)
  | abs v =>
    simp only [processOperand] at hp
    obtain ⟨rfl, _⟩ := numeric_abs hp
    have he' := he _ rfl; subst he'
    exact dst_index_roundtrip ctx 2 _ (by decide) size prevExt count q (by simpa using hq)
  | symbolic v =>
    simp only [processOperand] at hp
    obtain ⟨rfl, _⟩ := numeric_symbolic hp
    have he' := he _ rfl; subst he'
    unfold dstOperandOf at hq
    simp only [decide_true, Bool.not_true, Bool.false_eq_true, if_false, if_true, processOperand] at hq
    obtain ⟨rfl, hfit⟩ := numeric_symbolic hq
    simp only [Bool.true_and, Param.mk.injEq, true_and, Option.some.injEq]
    simp only [fits16, Bool.and_eq_true, s16] at hfit
    obtain ⟨f1, f2⟩ := hfit
    generalize ctx.address = addr at *
    subst hcount
    cases prevExt <;> simp only [Bool.false_eq_true, if_false, if_true, s16] at * <;> bv_decide

/-! ## the words of the two-operand case and what the decoder reads from them -/

theorem table_no_sbb_row : ∀ r ∈ table, (r.instr == "sbb") = false := by decide +kernel

/-- the Asm-side facts about the name of a Disasm core row of a two-operand instruction -/
theorem two_row_names (w0 : BitVec 16) (op : Op2) (h : w0.extractLsb' 12 4 = op.nibble) :
    ∃ rd, Disasm.findRow w0 = some rd ∧ rd.type = OP_TWO_OPERAND ∧ aliasOf rd.instr = none ∧
      ∃ r', Asm.findRow rd.instr = some r' ∧ r'.opcode = twoWord op.nibble false 0 0 0 0 ∧ r'.type = OP_TWO_OPERAND := by
  obtain ⟨rd, hr, hk, ht⟩ := findRow_two w0 op h
  have hkind := table_get_kind hk (table_core_names.1 op)
  have hrow := table_spec_rows _ (kindOf_mem hkind)
  have hns := table_no_sbb_row rd (findRow_mem hr).1
  simp only [specRowOK, hns, Bool.false_eq_true, if_false, Bool.and_eq_true, Option.isNone_iff_eq_none, beq_iff_eq] at hrow
  obtain ⟨⟨hal, hname⟩, hrow⟩ := hrow
  obtain ⟨r', hr', ho, ht'⟩ := rowIs_spec hrow
  exact ⟨rd, hr, ht, hal, r', by rw [hname]; exact hr', ho, ht'⟩

theorem optimizeOps_off (ctx : Ctx) (ho : ctx.optimize = false) (ops : List Operand) : optimizeOps ctx ops = ops := by
  rcases optimizeOps_cases ctx ops with h | ⟨h, _⟩
  · exact h
  · rw [ho] at h; cases h

theorem numeric_size (ctx : Ctx) (k : NumKind) (v : BitVec 32) (r : BitVec 4) (size size' : Nat) (a b c : Bool)
    (h : (size = 8) ↔ (size' = 8)) : numeric ctx k v r size a b c = numeric ctx k v r size' a b c := by
  unfold numeric
  by_cases h8 : size = 8
  · have h8' := h.mp h8; simp [h8, h8']
  · have h8' : ¬ size' = 8 := fun x => h8 (h.mpr x); simp [h8, h8']

theorem processOperand_size (ctx : Ctx) (c : COperand) (size size' : Nat) (a b d : Bool)
    (h : (size = 8) ↔ (size' = 8)) : processOperand ctx c size a b d = processOperand ctx c size' a b d := by
  cases c with
  | cg r m => rfl
  | plain o => cases o <;> simp only [processOperand] <;> (try rw [numeric_size ctx _ _ _ size size' _ _ _ h]) <;>
      (try (split <;> first | rfl | rw [numeric_size ctx _ _ _ size size' _ _ _ h]))

/-- bytewise round trip of the two-operand case -/
theorem two_roundtrip (ctx : Ctx) (ho : ctx.optimize = false) (hf1 : ctx.flag ≠ 1) (op : Op2) (size : Nat) (bw : Bool)
    (hbw : sizeBw size = some bw) (o0 o1 : Operand) (r : Row) (ht : r.type = OP_TWO_OPERAND)
    (hopc : r.opcode = twoWord op.nibble false 0 0 0 0) (ws : List (BitVec 16)) (sm : Src) (dm : Dst)
    (hs : srcMeaning bw o0 = some sm) (hd : dstMeaning o1 = some dm) (hrow : rowAction ctx r size [o0, o1] = .ok ws)
    (s1 : Stmt) (hst : reading ctx.address (ws.getD 0 0) (ws.getD 1 0) (ws.getD 2 0) = some s1)
    (ws1 : List (BitVec 16)) (h1 : encode ctx s1 = .ok ws1) : ws1 = ws := by
  obtain ⟨hb, _⟩ := sizeBw_bw hbw
  -- the emitted words
  unfold rowAction at hrow
  simp only [ht, OP_TWO_OPERAND, OP_NONE, OP_ONE_OPERAND, OP_ONE_OPERAND_W, OP_ONE_OPERAND_X, OP_JUMP, reduceCtorEq,
    Nat.reduceEqDiff, if_false, or_self, List.length_cons, List.length_nil, ne_eq, not_true_eq_false, if_true,
    List.getD_cons_zero, List.getD_cons_succ, ← hb] at hrow
  split at hrow
  · cases hrow
  rename_i p0 hp0
  split at hrow
  · cases hrow
  rename_i p1 hp1
  simp only [Result.ok.injEq] at hrow
  have e0 := src_sound ctx o0 size bw hb p0 sm hp0 hs
  have e1 := dst_sound ctx o1 size p0.ext.isSome p1 dm hp1 hd
  have hmode : p1.mode = 0 ∨ p1.mode = 1 := by rcases e1 with ⟨h, _⟩ | ⟨h, _⟩ <;> simp [h]
  have hw : r.opcode ||| bwBit bw ||| z16 p0.mode <<< 4 ||| z16 p1.mode <<< 7 ||| z16 p0.reg <<< 8 ||| z16 p1.reg =
      twoWord op.nibble bw p0.mode p1.mode p0.reg p1.reg := by
    rw [hopc]; unfold twoWord z16 bwBit; generalize op.nibble = n; bv_decide
  rw [hw] at hrow
  obtain ⟨f1, f2, f3, f4, f5, f6, f7, f8⟩ := two_fields op.nibble p0.reg p1.reg p0.mode p1.mode bw hmode (nibble_ge op)
  generalize hW : twoWord op.nibble bw p0.mode p1.mode p0.reg p1.reg = w0 at *
  obtain ⟨rd, hrd, htd, hal, r', hr', ho', ht'⟩ := two_row_names w0 op f3
  -- what the decoder reads
  have hbw' : decide (w0 &&& 0x40 ≠ 0) = bw := by
    have : (w0 &&& 0x40 ≠ 0) ↔ (w0.extractLsb' 6 1 = 1) := by constructor <;> intro hh <;> bv_decide
    have h2 : decide (w0 &&& 0x40 ≠ 0) = decide (w0.extractLsb' 6 1 = 1) := decide_eq_decide.mpr this
    rw [h2]; simp only [f6, bit1_eq_one]
  have had : decide (w0.extractLsb' 7 1 = 1) = decide (p1.mode = 1) := by
    simp only [f5]; rcases hmode with h | h <;> simp only [h] <;> decide
  have hn : (srcText ctx.address p0.reg p0.mode bw none false (ws.getD 1 0)).2 = if p0.ext.isSome then 2 else 0 := by
    rw [srcText_count_eq, ← e0.1]
  subst hrow
  unfold reading at hst
  rw [List.getD_cons_zero, hrd] at hst
  simp only [htd, OP_TWO_OPERAND, OP_NONE, OP_ONE_OPERAND, OP_ONE_OPERAND_W, OP_ONE_OPERAND_X, Nat.reduceEqDiff, if_false,
    or_self, if_true, Option.some.injEq, f4, f7, f8, hbw', had, hn] at hst
  subst hst
  -- assembling the reading
  rw [encode_eq ctx _ (by rw [optimizeOps_length]; simp), optimizeOps_off ctx ho, aliasStep_none _ hal] at h1
  simp only [hr'] at h1
  have hsz : (if bw = true then 8 else 16 : Nat) ≠ 20 := by cases bw <;> decide
  have hsz8 : decide ((if bw = true then 8 else 16 : Nat) = 8) = bw := by cases bw <;> decide
  rw [if_neg hsz] at h1
  unfold rowAction at h1
  simp only [ht', OP_TWO_OPERAND, OP_NONE, OP_ONE_OPERAND, OP_ONE_OPERAND_W, OP_ONE_OPERAND_X, OP_JUMP, reduceCtorEq,
    Nat.reduceEqDiff, if_false, or_self, List.length_cons, List.length_nil, ne_eq, not_true_eq_false, if_true,
    List.getD_cons_zero, List.getD_cons_succ, hsz8] at h1
  split at h1
  · cases h1
  rename_i q0 hq0
  split at h1
  · cases h1
  rename_i q1 hq1
  simp only [Result.ok.injEq] at h1
  subst h1
  have hsize : ((if bw = true then 8 else 16 : Nat) = 8) ↔ (size = 8) := by
    subst hb; by_cases h8 : size = 8 <;> simp [h8]
  rw [processOperand_size ctx _ _ size _ _ _ hsize] at hq0 hq1
  have hq0p : q0 = p0 := by
    refine src_roundtrip ctx hf1 o0 size bw hb p0 q0 sm _ ?_ hs hp0 hq0
    intro x hx; simp [hx]
  subst hq0p
  have hq1p : q1 = p1 := by
    refine dst_roundtrip ctx o1 size q0.ext.isSome p1 q1 dm _ ?_ (if q0.ext.isSome = true then 2 else 0) rfl hd hp1 hq1
    intro x hx
    cases hq : q0.ext <;> simp [hq, hx]
  subst hq1p
  rw [ho']
  have : twoWord op.nibble false 0 0 0 0 ||| bwBit bw ||| z16 q0.mode <<< 4 ||| z16 q1.mode <<< 7 ||| z16 q0.reg <<< 8 ||| z16 q1.reg =
      twoWord op.nibble bw q0.mode q1.mode q0.reg q1.reg := by
    unfold twoWord z16 bwBit; generalize op.nibble = n; bv_decide
  rw [this, hW]

/-- the Asm-side facts about the name of the Disasm row of a single-operand instruction -/
theorem one_row_names (w0 : BitVec 16) (op : Op1) (h1 : w0 &&& 0xfc00 = 0x1000) (h : w0.extractLsb' 7 3 = op.field)
    (hb : (op.wordOnly && decide (w0.extractLsb' 6 1 = 1)) = false) :
    ∃ rd, Disasm.findRow w0 = some rd ∧
      (rd.type = OP_ONE_OPERAND ∨ rd.type = OP_ONE_OPERAND_W ∨ rd.type = OP_ONE_OPERAND_X) ∧ aliasOf rd.instr = none ∧
      ∃ r', Asm.findRow rd.instr = some r' ∧ r'.opcode = oneWord op.field false 0 0 ∧ r'.type = op1Type op := by
  obtain ⟨rd, hr, hk, ht⟩ := findRow_one w0 op h1 h hb
  have hkind := table_get_kind hk (table_core_names.2.1 op)
  have hrow := table_spec_rows _ (kindOf_mem hkind)
  simp only [specRowOK, Bool.and_eq_true, Option.isNone_iff_eq_none] at hrow
  obtain ⟨hal, hrow⟩ := hrow
  obtain ⟨r', hr', ho, ht'⟩ := rowIs_spec hrow
  exact ⟨rd, hr, ht, hal, r', hr', ho, ht'⟩

/-- bytewise round trip of the single-operand case -/
theorem one_roundtrip (ctx : Ctx) (ho : ctx.optimize = false) (hf1 : ctx.flag ≠ 1) (op : Op1) (size : Nat) (bw : Bool)
    (hbw : sizeBw size = some bw) (hwo : (op.wordOnly && bw) = false) (o0 : Operand) (r : Row) (ht : r.type = op1Type op)
    (hopc : r.opcode = oneWord op.field false 0 0) (ws : List (BitVec 16)) (sm : Src)
    (hs : srcMeaning bw o0 = some sm) (hrow : rowAction ctx r size [o0] = .ok ws)
    (s1 : Stmt) (hst : reading ctx.address (ws.getD 0 0) (ws.getD 1 0) (ws.getD 2 0) = some s1)
    (ws1 : List (BitVec 16)) (h1 : encode ctx s1 = .ok ws1) : ws1 = ws := by
  obtain ⟨hb, _⟩ := sizeBw_bw hbw
  -- the emitted words
  have key : ∃ p0, processOperand ctx (operandToCg ctx o0 bw) size true false false = some p0 ∧
      ws = oneWord op.field bw p0.mode p0.reg :: p0.ext.toList := by
    unfold rowAction at hrow
    cases op <;>
      simp only [ht, op1Type, OP_TWO_OPERAND, OP_NONE, OP_ONE_OPERAND, OP_ONE_OPERAND_W, OP_ONE_OPERAND_X, OP_JUMP,
        reduceCtorEq, Nat.reduceEqDiff, if_false, or_self, or_true, true_or, or_false, false_or, List.length_cons,
        List.length_nil, ne_eq, not_true_eq_false, if_true, List.getD_cons_zero, true_and, false_and, ← hb] at hrow <;>
      (repeat' split at hrow) <;> first
        | (cases hrow; done)
        | (rename_i p0 hp0
           simp only [Result.ok.injEq] at hrow
           refine ⟨p0, hp0, ?_⟩
           rw [← hrow, hopc]
           first | rfl | (congr 1; done) | (congr 1; unfold oneWord z16 bwBit; simp only [Op1.field]; bv_decide))
  obtain ⟨p0, hp0, rfl⟩ := key
  have e0 := src_sound ctx o0 size bw hb p0 sm hp0 hs
  obtain ⟨f1, f2, f3, f4, f5, f6, f7⟩ := one_fields op.field p0.mode p0.reg bw (field_le op)
  generalize hW : oneWord op.field bw p0.mode p0.reg = w0 at *
  have hbit : decide (w0.extractLsb' 6 1 = 1) = bw := by simp only [f5, bit1_eq_one]
  obtain ⟨rd, hrd, htd, hal, r', hr', ho', ht'⟩ := one_row_names w0 op f2 f4 (by rw [hbit]; exact hwo)
  have hbw' : decide (w0 &&& 0x40 ≠ 0) = bw := by
    have : (w0 &&& 0x40 ≠ 0) ↔ (w0.extractLsb' 6 1 = 1) := by constructor <;> intro hh <;> bv_decide
    have h2 : decide (w0 &&& 0x40 ≠ 0) = decide (w0.extractLsb' 6 1 = 1) := decide_eq_decide.mpr this
    rw [h2]; exact hbit
  unfold reading at hst
  rw [List.getD_cons_zero, hrd] at hst
  have hnone : rd.type ≠ OP_NONE := by rcases htd with h | h | h <;> rw [h] <;> decide
  simp only [hnone, if_false, htd, if_true, Option.some.injEq, f4, f6, f7, hbw'] at hst
  subst hst
  -- assembling the reading
  rw [encode_eq ctx _ (by rw [optimizeOps_length]; simp), optimizeOps_off ctx ho, aliasStep_none _ hal] at h1
  simp only [hr'] at h1
  generalize hsz : (if bw = true then 8 else if decide (op.field &&& 1 = 1) = true then 0 else 16 : Nat) = size1 at h1
  have hs20 : size1 ≠ 20 := by rw [← hsz]; cases bw <;> simp <;> split <;> decide
  have hsize : (size1 = 8) ↔ (size = 8) := by
    subst hb; rw [← hsz]
    by_cases h8 : size = 8
    · simp [h8]
    · simp [h8]; split <;> decide
  rw [if_neg hs20] at h1
  -- the size checks of the W and X rows pass: these instructions are word-only and the reading has no suffix
  have hchk : ¬ (r'.type = OP_ONE_OPERAND_W ∧ size1 ≠ 0 ∧ size1 ≠ 16) ∧ ¬ (r'.type = OP_ONE_OPERAND_X ∧ size1 ≠ 0) := by
    rw [ht', ← hsz]
    cases op <;> cases bw <;> simp [op1Type, Op1.wordOnly, Op1.field, OP_ONE_OPERAND, OP_ONE_OPERAND_W, OP_ONE_OPERAND_X] at hwo ⊢
  unfold rowAction at h1
  have hty : r'.type = OP_ONE_OPERAND ∨ r'.type = OP_ONE_OPERAND_W ∨ r'.type = OP_ONE_OPERAND_X := by
    rw [ht']; cases op <;> simp [op1Type]
  have hnn : r'.type ≠ OP_NONE := by rcases hty with h | h | h <;> rw [h] <;> decide
  simp only [hnn, if_false, hty, if_true, List.length_cons, List.length_nil, ne_eq, not_true_eq_false, hchk.1, hchk.2,
    List.getD_cons_zero] at h1
  split at h1
  · cases h1
  rename_i q0 hq0
  simp only [Result.ok.injEq] at h1
  subst h1
  have hdec : decide (size1 = 8) = bw := by
    subst hb; exact decide_eq_decide.mpr hsize
  rw [hdec, processOperand_size ctx _ _ size _ _ _ hsize] at hq0
  have hq0p : q0 = p0 := by
    refine src_roundtrip ctx hf1 o0 size bw hb p0 q0 sm _ ?_ hs hp0 hq0
    intro x hx; simp [hx]
  subst hq0p
  rw [ho', hdec]
  have : oneWord op.field false 0 0 ||| bwBit bw ||| z16 q0.mode <<< 4 ||| z16 q0.reg = oneWord op.field bw q0.mode q0.reg := by
    unfold oneWord z16 bwBit; generalize op.field = n; bv_decide
  rw [this, hW]

/-! ## C01 (i): encode → decode → encode gives the same words -/

theorem aliasComment_isSome (op : BitVec 16) (bw : Bool) (e : BitVec 16) :
    (aliasComment op bw e).isSome = (aliasComment op bw 0).isSome := by
  unfold aliasComment
  simp only []
  split <;> rfl

theorem commented_indep (w0 w1 : BitVec 16) : commented w0 w1 = commented w0 0 := by
  unfold commented
  split
  · rw [aliasComment_isSome]
  · rfl

/-- **Table obligation.**  The text of the fixed word of every no-operand alias (`clrc … nop`, `ret`) carries an
    alias comment, so it is never re-assembled (`reta`, an MSP430X alias, is 0x0110, whose text is rejected too). -/
theorem table_alias_zero_commented : ∀ a ∈ aliases, a.operandCount = 0 →
    commented a.opcode 0 = true ∨ a.opcode = 0x0110 := by
  decide +kernel

theorem toStmt_reading {addr : BitVec 32} {w0 w1 w2 : BitVec 16} {s : Stmt} (hp : isPrefix w0 = false)
    (h : toStmt addr w0 w1 w2 = some s) : reading addr w0 w1 w2 = some s ∧ commented w0 w1 = false := by
  unfold toStmt at h
  split at h
  · cases h
  · rw [hp] at h
    simp only [Bool.false_eq_true, if_false] at h
    split at h
    · cases h
    · rename_i hc; exact ⟨h, by simpa using hc⟩

theorem decode_not_prefix {a : BitVec 16} {w0 : BitVec 16} {rest : List (BitVec 16)} {r : Instr × Nat}
    (h : Arch.decode a (w0 :: rest) = some r) : isPrefix w0 = false := by
  simp only [Arch.decode] at h
  unfold isPrefix
  by_cases hp : w0 &&& 0xf830 = 0x1800
  · exfalso
    have hn : op2OfNibble (w0.extractLsb' 12 4) = none := by
      have : w0.extractLsb' 12 4 = 1 := by bv_decide
      rw [this]; rfl
    have h1 : ¬ (w0 &&& 0xe000 = 0x2000) := by bv_decide
    have h2 : ¬ (w0 &&& 0xfc00 = 0x1000) := by bv_decide
    rw [if_neg h1, if_neg h2, hn] at h
    cases h
  · simpa using hp

/-- **C01 (i) on the structured level, bytewise.**  `-optimize` off, no forward-reference flag (`flag ≠ 1`), any
    even address.  If the assembler model accepts a statement that has a meaning and emits `ws`, and it accepts the
    decoder's reading of `ws` (`toStmt`: the printed text as the operand loop takes it), then it emits exactly `ws`
    again.  (Jumps and the no-operand emulated instructions never get that far: their texts are rejected.) -/
theorem msp430_fixpoint_structured (ctx : Ctx) (hp : ctx.pass1 = false) (ha : ctx.address &&& 1 = 0)
    (ho : ctx.optimize = false) (hf1 : ctx.flag ≠ 1) (s0 : Stmt) (ws : List (BitVec 16)) (i : Instr)
    (hm : meaning s0 = some i) (h0 : encode ctx s0 = .ok ws) (s1 : Stmt)
    (ht : toStmt ctx.address (ws.getD 0 0) (ws.getD 1 0) (ws.getD 2 0) = some s1) (ws1 : List (BitVec 16))
    (h1 : encode ctx s1 = .ok ws1) : ws1 = ws := by
  have hm' : meaning (optimized ctx s0) = some i := by rw [optimized_off ctx ho]; exact hm
  have hform := encode_core_form ctx hp ha s0 ws i hm' h0
  have hd := coreForm_decode hform
  have hne : ws ≠ [] := by intro e; rw [e] at hd; simp [Arch.decode] at hd
  obtain ⟨w0, rest, rfl⟩ : ∃ w0 rest, ws = w0 :: rest := by
    cases ws with
    | nil => exact absurd rfl hne
    | cons a b => exact ⟨a, b, rfl⟩
  have hnp := decode_not_prefix hd
  obtain ⟨hread, hnc⟩ := toStmt_reading (by simpa using hnp) ht
  rcases hform with ⟨op, size, bw, o0, o1, r, sm, dm, hbw, htt, hopc, hr, hs, hdd, rfl⟩ |
    ⟨op, size, bw, o0, r, sm, hbw, hw, htt, hopc, hr, hs, rfl⟩ | ⟨hws, rfl⟩ | ⟨c, t, rfl, _⟩ | ⟨a, hmem, hc, hws, _⟩
  · exact two_roundtrip ctx ho hf1 op size bw hbw o0 o1 r htt hopc _ sm dm hs hdd hr s1 hread ws1 h1
  · exact one_roundtrip ctx ho hf1 op size bw hbw hw o0 r htt hopc _ sm hs hr s1 hread ws1 h1
  · -- reti
    obtain ⟨i', s2, hm1, hdec, _, _⟩ := msp430_decode_encode_decode ctx hp ha ho _ _ _ s1 ht ws1 h1
    have : meaning s1 = some .reti := by
      obtain ⟨s1', hr', hm'⟩ := arch_reading ctx.address w0 (List.getD (w0 :: rest) 1 0) (List.getD (w0 :: rest) 2 0) []
        .reti 1 (by
          simp only [List.cons.injEq] at hws
          obtain ⟨rfl, _⟩ := hws
          simp [Arch.decode]) (by intro c t h; cases h)
      simp only [List.getD_cons_zero] at hread
      rw [hread] at hr'; cases hr'; exact hm'
    rw [this] at hm1; cases hm1
    -- the only word the architecture reads as RETI is 0x1300
    rw [hws]
    match ws1, hdec with
    | [], h => simp [Arch.decode] at h
    | [w], h =>
      simp only [Arch.decode] at h
      repeat' split at h
      all_goals first
        | (cases h; done)
        | (simp only [Option.some.injEq, Prod.mk.injEq] at h; obtain ⟨e1, _⟩ := h; cases e1; done)
        | (rename_i hw; rw [hw])
    | w :: w2 :: r2, h =>
      simp only [Arch.decode] at h
      repeat' split at h
      all_goals first
        | (cases h; done)
        | (simp only [Option.some.injEq, Prod.mk.injEq] at h; obtain ⟨e1, e2⟩ := h; first | (cases e1; done) | (simp at e2))
  · -- jumps: the text is rejected
    exfalso
    simp only [Arch.decode] at hd
    by_cases hj : w0 &&& 0xe000 = 0x2000
    · obtain ⟨rd, hrd, _, htd⟩ := findRow_jump w0 (condOfField (w0.extractLsb' 10 3)) hj (cond_field _).symm
      unfold reading at hread
      simp only [List.getD_cons_zero, hrd, htd, OP_JUMP, OP_NONE, OP_ONE_OPERAND, OP_ONE_OPERAND_W, OP_ONE_OPERAND_X,
        OP_TWO_OPERAND, Nat.reduceEqDiff, if_false, or_self] at hread
      cases hread
    · rw [if_neg hj] at hd
      repeat' split at hd
      all_goals first
        | (cases hd; done)
        | (simp only [Option.some.injEq, Prod.mk.injEq] at hd; obtain ⟨e1, _⟩ := hd; cases e1)
  · -- no-operand aliases: the text has an alias comment
    exfalso
    simp only [List.cons.injEq] at hws
    obtain ⟨rfl, _⟩ := hws
    simp only [List.getD_cons_zero] at hnc ht
    rcases table_alias_zero_commented a hmem hc with h | h
    · rw [commented_indep, h] at hnc
      cases hnc
    · -- `reta` (an MSP430X alias that `.msp430` also expands): its text is rejected
      rw [h] at ht
      simp [toStmt] at ht
