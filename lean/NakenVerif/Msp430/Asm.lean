/-
  Implementation model of the MSP430 encoder `parse_instruction_msp430` (asm/msp430.cpp) for CPU type `.msp430`
  (the 16-bit core: only `VERSION_MSP430` rows of `table_msp430[]` are visited).

  A statement is what the operand loop leaves behind: lower-cased mnemonic, the size suffix (0 = none, 8, 16,
  20) and `operands[0 .. operand_count-1]`.  Numbers are the C `int` that `eval_expression(asm_context, &num)`
  delivers (the 64-bit expression value, rejected unless it lies in -2^31 .. 2^32-1, then its low 32 bits), so
  every range check below is the C comparison on `int`.  Register numbers come from `get_register_msp430`
  (0..15) and are kept in four bits.

  Followed in the order of the C function: the -optimize rewrite of `operands[0]` (0(Rn) → @Rn, pass-1 flag
  byte 2), the `aliases[]` expansion (regenerated as `Generated.Msp430Asm.aliases`), the row search over the
  regenerated table, `operand_to_cg` (pass-1 flag byte 1 disables it), `process_operand`, the jump range check.
  The pad byte before an instruction at an odd address is in `assemble`.
-/
import NakenVerif.Generated.Msp430DisTable
import NakenVerif.Generated.Msp430AsmTable
namespace NakenVerif.Msp430.Asm
open NakenVerif.Generated.Msp430Dis NakenVerif.Generated.Msp430Asm

/-- `struct _operand` after the operand loop (`value`, `reg`, `type`; `mode` is 0 and `error` is only read on
    MSP430X paths) -/
inductive Operand where
  | none                                      -- memset(0): OPTYPE_ERROR
  | reg (r : BitVec 4)                        -- OPTYPE_REGISTER
  | indexed (v : BitVec 32) (r : BitVec 4)    -- OPTYPE_INDEXED       v(Rn)
  | indirect (r : BitVec 4)                   -- OPTYPE_REGISTER_INDIRECT      @Rn   (value 0)
  | indirectInc (r : BitVec 4)                -- OPTYPE_REGISTER_INDIRECT_INC  @Rn+
  | symbolic (v : BitVec 32)                  -- OPTYPE_SYMBOLIC      v
  | imm (v : BitVec 32)                       -- OPTYPE_IMMEDIATE     #v
  | abs (v : BitVec 32)                       -- OPTYPE_ABSOLUTE      &v
  deriving DecidableEq, Repr, Inhabited

structure Stmt where
  mnemonic : String            -- instr_case
  size : Nat := 0              -- 0, 8 (.b), 16 (.w), 20 (.a)
  ops : List Operand           -- operands[0 .. operand_count-1]
  deriving DecidableEq, Repr, Inhabited

structure Ctx where
  address : BitVec 32          -- asm_context->address at the first opcode word (after the pad byte)
  optimize : Bool := false     -- asm_context->optimize
  flag : BitVec 8 := 0         -- asm_context->memory_read(address): what pass 1 left in the image there
  pass1 : Bool := false        -- asm_context->pass == 1
  deriving Repr

inductive Result where
  | ok (ws : List (BitVec 16)) -- the words given to add_bin16, in order
  | err                        -- an error was printed / -1 returned
  | unmodelled                 -- a row type outside the 16-bit core would be visited
  deriving DecidableEq, Repr, Inhabited

/-! ### -optimize: `0(Rn)` as `operands[0]` becomes `@Rn` (n > 3) -/

def optimizeOps (ctx : Ctx) (ops : List Operand) : List Operand :=
  match ops with
  | .indexed v r :: rest =>
    if ctx.optimize && (3 : BitVec 4) < r then
      if ctx.pass1 then (if v = 0 then .indirect r :: rest else ops)
      else (if v = 0 && ctx.flag = 2 then .indirect r :: rest else ops)
    else ops
  | _ => ops

/-- the flag byte that pass 1 leaves at the instruction's address (numeric operands: `eval_expression` never
    fails, so the value 1 is never written) -/
def pass1Flag (ctx : Ctx) (ops : List Operand) : BitVec 8 :=
  match ops with
  | .indexed v r :: _ => if ctx.optimize && (3 : BitVec 4) < r && v = 0 then 2 else ctx.flag
  | _ => ctx.flag

/-! ### aliases -/

inductive AliasResult where
  | done (r : Result)
  | cont (name : String) (ops : List Operand)
  deriving Repr

def aliasStep (name : String) (ops : List Operand) : AliasResult :=
  match aliases.find? (fun a => a.instr == name) with
  | none => .cont name ops
  | some a =>
    if a.operandCount ≠ ops.length then .done .err
    else if a.operandCount = 0 then .done (.ok [a.opcode])
    else
      let o0 := ops.getD 0 .none
      let o1 := ops.getD 1 .none
      let ops' : List Operand :=
        if a.cmd = CMD_SP_INC then [.indirectInc 1, o0]
        else if a.cmd = CMD_PC then [o0, .reg 0]
        else if a.cmd = CMD_R3 then [.imm 0, .reg 3]
        else if a.cmd = CMD_DST_DST then [o0, o0]
        else if a.cmd = CMD_SRC_DST then [o0, o1]
        else [.imm (BitVec.ofInt 32 a.cmd), o0]
      .cont a.alt ops'

/-! ### `operand_to_cg` and `process_operand` -/

/-- an operand after `operand_to_cg`: untouched, or a register with `.mode` set by the constant generator -/
inductive COperand where
  | plain (o : Operand)
  | cg (r : BitVec 4) (m : BitVec 2)
  deriving DecidableEq, Repr

def operandToCg (ctx : Ctx) (o : Operand) (bw : Bool) : COperand :=
  match o with
  | .imm v =>
    if ctx.flag = 1 then .plain o
    else
      let v := if bw && v = 0xff then 0xffffffff else v
      let v := if !bw && v = 0xffff then 0xffffffff else v
      if v = 0xffffffff then .cg 3 3
      else if v = 0 then .cg 3 0
      else if v = 1 then .cg 3 1
      else if v = 2 then .cg 3 2
      else if v = 4 then .cg 2 2
      else if v = 8 then .cg 2 3
      else .plain (.imm v)
  | _ => .plain o

/-- `data.params[n]`: register field, As/Ad, and the word to add when `add_value == 1` -/
structure Param where
  reg : BitVec 4
  mode : BitVec 2
  ext : Option (BitVec 16)
  deriving DecidableEq, Repr

inductive NumKind | imm | indexed | abs | symbolic
  deriving DecidableEq, Repr

/-- the IMMEDIATE / ABSOLUTE / SYMBOLIC / INDEXED branch of `process_operand` (`is_extended == 0`).
    `second`: this is `data->params[1]`; `prevExt`: `data->params[0].add_value == 1`. -/
def numeric (ctx : Ctx) (kind : NumKind) (value : BitVec 32) (r : BitVec 4) (size : Nat) (isSrc second prevExt : Bool) :
    Option Param :=
  let low : BitVec 32 :=
    match kind with
    | .imm => if size = 8 then (-128) else (-32768)
    | .indexed => (-32768)
    | _ => 0
  let high : BitVec 32 := if kind = .imm ∧ size = 8 then 0xff else 0xffff
  let mode : BitVec 2 := if kind = .imm then 3 else 1
  let reg : BitVec 4 := match kind with | .indexed => r | .abs => 2 | _ => 0
  if kind = .indexed ∧ isSrc ∧ r = 3 then none
  else if value.slt low || high.slt value then none
  else
    let value :=
      if kind = .symbolic then
        (if second && prevExt then value - (ctx.address + 4) else value - (ctx.address + 2))
      else value
    if !isSrc && kind = .imm then none
    else some ⟨reg, mode, some (value.truncate 16)⟩

def processOperand (ctx : Ctx) (o : COperand) (size : Nat) (isSrc second prevExt : Bool) : Option Param :=
  match o with
  | .cg r m => some ⟨r, m, none⟩
  | .plain .none => none
  | .plain (.reg r) => some ⟨r, 0, none⟩
  | .plain (.indirect r) =>
    if isSrc then some ⟨r, 2, none⟩
    else numeric ctx .indexed 0 r size isSrc second prevExt     -- a destination @Rn is 0(Rn)
  | .plain (.indirectInc r) => if isSrc then some ⟨r, 3, none⟩ else none
  | .plain (.imm v) => numeric ctx .imm v 0 size isSrc second prevExt
  | .plain (.abs v) => numeric ctx .abs v 0 size isSrc second prevExt
  | .plain (.symbolic v) => numeric ctx .symbolic v 0 size isSrc second prevExt
  | .plain (.indexed v r) => numeric ctx .indexed v r size isSrc second prevExt

def z16 {n : Nat} (x : BitVec n) : BitVec 16 := x.zeroExtend 16
def bwBit (bw : Bool) : BitVec 16 := if bw then 0x40 else 0

/-! ### the `switch` over the row type -/

def jumpWord (ctx : Ctx) (opcode : BitVec 16) (ops : List Operand) : Result :=
  let target : Option (BitVec 32) :=
    if ctx.pass1 then some ctx.address
    else match ops with
      | [.symbolic v] => some v
      | _ => none
  match target with
  | none => .err
  | some t =>
    if t &&& 1 = 1 then .err
    else
      let off := t - (ctx.address + 2)
      if off.slt (-1024) || (1023 : BitVec 32).slt off then .err
      else .ok [opcode ||| ((off.sshiftRight 1).truncate 16 &&& 0x03ff)]

def rowAction (ctx : Ctx) (r : Row) (size : Nat) (ops : List Operand) : Result :=
  let bw : Bool := size = 8
  let o0 := ops.getD 0 .none
  let o1 := ops.getD 1 .none
  if r.type = OP_NONE then (if ops.length ≠ 0 then .err else .ok [r.opcode])
  else if r.type = OP_ONE_OPERAND ∨ r.type = OP_ONE_OPERAND_W ∨ r.type = OP_ONE_OPERAND_X then
    if ops.length ≠ 1 then .err
    else if r.type = OP_ONE_OPERAND_W ∧ size ≠ 0 ∧ size ≠ 16 then .err
    else if r.type = OP_ONE_OPERAND_X ∧ size ≠ 0 then .err
    else
      match processOperand ctx (operandToCg ctx o0 bw) size true false false with
      | none => .err
      | some p => .ok ((r.opcode ||| bwBit bw ||| (z16 p.mode <<< 4) ||| z16 p.reg) :: p.ext.toList)
  else if r.type = OP_JUMP then
    if ops.length ≠ 1 then .err
    else if size ≠ 0 then .err
    else jumpWord ctx r.opcode ops
  else if r.type = OP_TWO_OPERAND then
    if ops.length ≠ 2 then .err
    else
      match processOperand ctx (operandToCg ctx o0 bw) size true false false with
      | none => .err
      | some p0 =>
        match processOperand ctx (.plain o1) size false true p0.ext.isSome with
        | none => .err
        | some p1 =>
          .ok ((r.opcode ||| bwBit bw ||| (z16 p0.mode <<< 4) ||| (z16 p1.mode <<< 7) ||| (z16 p0.reg <<< 8) |||
                z16 p1.reg) :: (p0.ext.toList ++ p1.ext.toList))
  else .unmodelled

/-- the rows the `.msp430` loop can stop at for a name: the first `VERSION_MSP430` row called `name` -/
def findRow (name : String) : Option Row :=
  table.find? (fun r => r.version == VERSION_MSP430 && r.instr == name)

/-- `parse_instruction_msp430` from the -optimize step on (the address is even here) -/
def encode (ctx : Ctx) (s : Stmt) : Result :=
  if s.ops.length > 3 then .err
  else
    match aliasStep s.mnemonic (optimizeOps ctx s.ops) with
    | .done r => r
    | .cont name ops =>
      match findRow name with
      | none => .err                      -- "Unknown instruction"
      | some r =>
        if s.size = 20 then .err          -- VERSION_MSP430 rows: "Instruction doesn't support .a"
        else rowAction ctx r s.size ops

/-- both passes of one statement at `addr` on an empty image: `(pad, words)`; `pad` = a zero byte is written at
    the odd address first -/
def assemble (addr : BitVec 32) (optimize : Bool) (s : Stmt) : Option (Bool × List (BitVec 16)) :=
  let pad : Bool := addr &&& 1 = 1
  let a := if pad then addr + 1 else addr
  let ctx1 : Ctx := { address := a, optimize := optimize, flag := 0, pass1 := true }
  match encode ctx1 s with
  | .ok _ =>
    (match encode { address := a, optimize := optimize, flag := pass1Flag ctx1 s.ops, pass1 := false } s with
     | .ok ws => some (pad, ws)
     | _ => none)
  | _ => none

example : encode { address := 0x1000 } ⟨"mov", 16, [.imm 0x1234, .reg 5]⟩ = .ok [0x4035, 0x1234] := by decide
example : encode { address := 0x1000 } ⟨"mov", 8, [.imm 0xff, .abs 0x200]⟩ = .ok [0x43f2, 0x0200] := by decide
example : encode { address := 0x1000 } ⟨"inc", 0, [.reg 5]⟩ = .ok [0x5315] := by decide
example : encode { address := 0x1000 } ⟨"jmp", 0, [.symbolic 0x1000]⟩ = .ok [0x3fff] := by decide
example : encode { address := 0x1000 } ⟨"jmp", 0, [.symbolic 0x1402]⟩ = .err := by decide
example : encode { address := 0x1000 } ⟨"ret", 0, []⟩ = .ok [0x4130] := by decide

end NakenVerif.Msp430.Asm
