/-
  Which row of the regenerated `table_msp430[]` the decoder stops at for a word of the 16-bit core: no core row is
  shadowed by an earlier row (table obligation `table_no_shadow`), so the first match is the row of the
  architecture's instruction.  Consequence: the length `disasm_msp430` returns for a core instruction is the
  architecture's length.
-/
import Std.Tactic.BVDecide
import NakenVerif.Msp430.DisLocal
import NakenVerif.Msp430.AsmProps
set_option linter.unusedSimpArgs false
set_option linter.unusedVariables false
namespace NakenVerif.Msp430
open NakenVerif.Generated.Msp430Dis Disasm

/-- two rows cannot match the same word: they disagree on a bit that both masks fix -/
def conflicts (a r : Row) : Bool := ((a.opcode ^^^ r.opcode) &&& a.mask &&& r.mask) != 0

/-- row `k` is not shadowed: every row before it that the decoder looks at conflicts with it -/
def firstAt (k : Nat) : Bool :=
  match table[k]? with
  | some r => r.version != VERSION_MSP430X_EXT &&
      (table.take k).all (fun a => a.version == VERSION_MSP430X_EXT || conflicts a r)
  | none => false

/-- indices of the rows of the 27 core instructions (the second name of a jump, `jnz jz jnc jc`, is shadowed by
    the first by design and is not in the list) -/
def coreIdx : List Nat := [0, 1, 2, 3, 4, 5, 6, 7, 9, 11, 13, 15, 16, 17, 18, 19, 20, 21, 22, 23, 24, 25, 26, 27, 28, 29, 30]

/-- **Table obligation: no shadowing.**  None of the 27 core rows is hidden by an earlier row. -/
theorem table_no_shadow : ∀ k ∈ coreIdx, firstAt k = true := by decide +kernel

theorem conflict_no_match (ao am ro rm w : BitVec 16) (hc : ((ao ^^^ ro) &&& am &&& rm) ≠ 0) (hr : w &&& rm = ro) :
    ¬ (w &&& am = ao) := by
  intro h; apply hc; bv_decide

theorem find?_at {α : Type} {p : α → Bool} : ∀ {l : List α} {k : Nat} {x : α}, l[k]? = some x → p x = true →
    (∀ y ∈ l.take k, p y = false) → l.find? p = some x
  | [], k, x, hk, _, _ => by simp at hk
  | y :: ys, 0, x, hk, hp, _ => by
    simp only [List.getElem?_cons_zero, Option.some.injEq] at hk
    subst hk; simp [List.find?, hp]
  | y :: ys, k + 1, x, hk, hp, hb => by
    have hy : p y = false := hb y (by simp)
    simp only [List.getElem?_cons_succ] at hk
    simp only [List.find?, hy]
    exact find?_at hk hp (fun z hz => hb z (by simp [hz]))

theorem findRow_first (k : Nat) (r : Row) (hk : table[k]? = some r) (hf : firstAt k = true) (w : BitVec 16)
    (hm : w &&& r.mask = r.opcode) : findRow w = some r := by
  unfold firstAt at hf
  rw [hk] at hf
  simp only [Bool.and_eq_true, bne_iff_ne, ne_eq, List.all_eq_true, Bool.or_eq_true, beq_iff_eq] at hf
  unfold findRow
  refine find?_at hk (by simp [hf.1, hm]) ?_
  intro y hy
  rcases hf.2 y hy with hv | hc
  · simp [hv]
  · have : ¬ (w &&& y.mask = y.opcode) := by
      refine conflict_no_match y.opcode y.mask r.opcode r.mask w ?_ hm
      unfold conflicts at hc
      simpa using hc
    simp [this]

/-! ## the row of each core instruction -/
open Arch in
def idx2 (op : Op2) : Nat := 15 + op.nibble.toNat
open Arch in
def idx1 (op : Op1) : Nat := op.field.toNat
open Arch in
def idxJ : Cond → Nat
  | .jne => 7 | .jeq => 9 | .jnc => 11 | .jc => 13 | .jn => 15 | .jge => 16 | .jl => 17 | .jmp => 18

def z16' {n : Nat} (x : BitVec n) : BitVec 16 := x.zeroExtend 16

/-- (opcode, mask, type, version) of a row -/
def rowSig (k : Nat) : Option (BitVec 16 × BitVec 16 × Nat × Nat) :=
  (table[k]?).map (fun r => (r.opcode, r.mask, r.type, r.version))

/-- **Table obligation.**  The rows of the core instructions are where the architecture's opcode fields say, with
    masks that fix exactly the opcode field (and the B/W bit for SWPB, SXT, CALL, which have no byte form). -/
theorem table_core_rows :
    (∀ op : Arch.Op2, rowSig (idx2 op) = some (z16' op.nibble <<< 12, 0xf000, OP_TWO_OPERAND, VERSION_MSP430)) ∧
    (∀ op : Arch.Op1, rowSig (idx1 op) = some (0x1000 ||| (z16' op.field <<< 7), if op.wordOnly then 0xffc0 else 0xff80,
      (match op with | .rrc | .rra | .push => OP_ONE_OPERAND | .swpb | .sxt => OP_ONE_OPERAND_W | .call => OP_ONE_OPERAND_X),
      VERSION_MSP430)) ∧
    (∀ c : Arch.Cond, rowSig (idxJ c) = some (0x2000 ||| (z16' c.field <<< 10), 0xfc00, OP_JUMP, VERSION_MSP430)) ∧
    rowSig 6 = some (0x1300, 0xffff, OP_NONE, VERSION_MSP430) := by
  refine ⟨fun op => by cases op <;> decide, fun op => by cases op <;> decide, fun c => by cases c <;> decide, by decide⟩

theorem idx_core : (∀ op, idx2 op ∈ coreIdx) ∧ (∀ op, idx1 op ∈ coreIdx) ∧ (∀ c, idxJ c ∈ coreIdx) ∧ 6 ∈ coreIdx := by
  refine ⟨fun op => by cases op <;> decide, fun op => by cases op <;> decide, fun c => by cases c <;> decide, by decide⟩

theorem rowSig_some {k : Nat} {o m : BitVec 16} {t v : Nat} (h : rowSig k = some (o, m, t, v)) :
    ∃ r, table[k]? = some r ∧ r.opcode = o ∧ r.mask = m ∧ r.type = t ∧ r.version = v := by
  unfold rowSig at h
  cases hr : table[k]? with
  | none => rw [hr] at h; cases h
  | some r =>
    rw [hr] at h
    simp only [Option.map_some, Option.some.injEq, Prod.mk.injEq] at h
    exact ⟨r, rfl, h.1, h.2.1, h.2.2.1, h.2.2.2⟩

theorem findRow_two (w : BitVec 16) (op : Arch.Op2) (h : w.extractLsb' 12 4 = op.nibble) :
    ∃ r, findRow w = some r ∧ table[idx2 op]? = some r ∧ r.type = OP_TWO_OPERAND := by
  obtain ⟨r, hk, ho, hm, ht, _⟩ := rowSig_some (table_core_rows.1 op)
  refine ⟨r, findRow_first _ r hk (table_no_shadow _ (idx_core.1 op)) w ?_, hk, ht⟩
  rw [ho, hm, ← h]; unfold z16'; bv_decide

theorem findRow_one (w : BitVec 16) (op : Arch.Op1) (h1 : w &&& 0xfc00 = 0x1000) (h : w.extractLsb' 7 3 = op.field)
    (hb : (op.wordOnly && decide (w.extractLsb' 6 1 = 1)) = false) :
    ∃ r, findRow w = some r ∧ table[idx1 op]? = some r ∧
      (r.type = OP_ONE_OPERAND ∨ r.type = OP_ONE_OPERAND_W ∨ r.type = OP_ONE_OPERAND_X) := by
  obtain ⟨r, hk, ho, hm, ht, _⟩ := rowSig_some (table_core_rows.2.1 op)
  refine ⟨r, findRow_first _ r hk (table_no_shadow _ (idx_core.2.1 op)) w ?_, hk, ?_⟩
  · rw [ho, hm, ← h]; unfold z16'
    cases hwo : op.wordOnly
    · simp only [Bool.false_eq_true, if_false]; bv_decide
    · simp only [hwo, Bool.true_and, decide_eq_false_iff_not] at hb
      simp only [if_true]; bv_decide
  · rw [ht]; cases op <;> simp

theorem findRow_jump (w : BitVec 16) (c : Arch.Cond) (h1 : w &&& 0xe000 = 0x2000) (h : w.extractLsb' 10 3 = c.field) :
    ∃ r, findRow w = some r ∧ table[idxJ c]? = some r ∧ r.type = OP_JUMP := by
  obtain ⟨r, hk, ho, hm, ht, _⟩ := rowSig_some (table_core_rows.2.2.1 c)
  refine ⟨r, findRow_first _ r hk (table_no_shadow _ (idx_core.2.2.1 c)) w ?_, hk, ht⟩
  rw [ho, hm, ← h]; unfold z16'; bv_decide

theorem findRow_reti : ∃ r, findRow 0x1300 = some r ∧ table[6]? = some r ∧ r.type = OP_NONE := by
  obtain ⟨r, hk, ho, hm, ht, _⟩ := rowSig_some table_core_rows.2.2.2
  exact ⟨r, findRow_first _ r hk (table_no_shadow _ idx_core.2.2.2) _ (by rw [ho, hm]; decide), hk, ht⟩

/-! ## the decoder's length is the architecture's length -/

theorem srcText_count_eq (addr : BitVec 32) (reg : BitVec 4) (as : BitVec 2) (bw : Bool) (pfx : Option (BitVec 16))
    (me : Bool) (e : BitVec 16) :
    (srcText addr reg as bw pfx me e).2 = if Arch.srcHasExt reg as then 2 else 0 := by
  have h3 : as = 0 ∨ as = 1 ∨ as = 2 ∨ as = 3 := by bv_decide
  unfold srcText Arch.srcHasExt
  simp only []
  rcases h3 with rfl | rfl | rfl | rfl <;> (repeat' split) <;> simp_all

theorem op1_field {f : BitVec 3} {op : Arch.Op1} (h : Arch.op1OfField f = some op) : op.field = f := by
  unfold Arch.op1OfField at h
  repeat' split at h
  all_goals first | cases h; done | (simp only [Option.some.injEq] at h; subst h; subst_vars; rfl)

theorem op2_nibble {n : BitVec 4} {op : Arch.Op2} (h : Arch.op2OfNibble n = some op) : op.nibble = n := by
  have hn : n = 0 ∨ n = 1 ∨ n = 2 ∨ n = 3 ∨ n = 4 ∨ n = 5 ∨ n = 6 ∨ n = 7 ∨ n = 8 ∨ n = 9 ∨ n = 10 ∨ n = 11 ∨ n = 12 ∨
      n = 13 ∨ n = 14 ∨ n = 15 := by bv_decide
  rcases hn with rfl | rfl | rfl | rfl | rfl | rfl | rfl | rfl | rfl | rfl | rfl | rfl | rfl | rfl | rfl | rfl
  all_goals first
    | (simp [Arch.op2OfNibble] at h; done)
    | (simp [Arch.op2OfNibble] at h; subst h; rfl)

theorem cond_field (f : BitVec 3) : (Arch.condOfField f).field = f := by
  have h : f = 0 ∨ f = 1 ∨ f = 2 ∨ f = 3 ∨ f = 4 ∨ f = 5 ∨ f = 6 ∨ f = 7 := by bv_decide
  rcases h with rfl | rfl | rfl | rfl | rfl | rfl | rfl | rfl <;> rfl

theorem nibble_ge' (op : Arch.Op2) : (4 : BitVec 4) ≤ op.nibble := by cases op <;> decide

theorem disasm_plain (addr : BitVec 32) (w0 x y z : BitVec 16) (h1 : w0 ≠ 0x0110) (h2 : isPrefix w0 = false) :
    disasm addr w0 x y z = decodeAt addr none w0 x y := by
  unfold disasm; rw [if_neg h1]; simp [h2]

theorem decodeAt_row (addr : BitVec 32) (w0 x y : BitVec 16) (r : Row) (h : findRow w0 = some r) :
    decodeAt addr none w0 x y = ⟨(rowText addr r w0 none x y).1, (rowText addr r w0 none x y).2.1⟩ := by
  unfold decodeAt; rw [h]

/-- **the decoder's length is the architecture's length.**  For every word sequence that the architecture reads
    as an instruction of the 16-bit core occupying `n` words, `disasm_msp430` returns `2·n` — whatever follows. -/
theorem arch_len (a : BitVec 16) (addr : BitVec 32) (w0 : BitVec 16) (rest : List (BitVec 16)) (i : Arch.Instr) (n : Nat)
    (h : Arch.decode a (w0 :: rest) = some (i, n)) (x y z : BitVec 16) : (disasm addr w0 x y z).len = 2 * n := by
  simp only [Arch.decode] at h
  split at h
  · -- jump
    rename_i hj
    simp only [Option.some.injEq, Prod.mk.injEq] at h
    obtain ⟨r, hr, _, ht⟩ := findRow_jump w0 (Arch.condOfField (w0.extractLsb' 10 3)) hj (cond_field _).symm
    rw [disasm_plain addr w0 x y z (by intro e; subst e; revert hj; decide) (by unfold isPrefix; simp; bv_decide),
      decodeAt_row addr w0 x y r hr, ← h.2]
    simp [rowText, ht, OP_JUMP, OP_NONE, OP_ONE_OPERAND, OP_ONE_OPERAND_W, OP_ONE_OPERAND_X, relativeJump]
  · rename_i hj
    split at h
    · rename_i h2
      have hnp : isPrefix w0 = false := by unfold isPrefix; simp; bv_decide
      have hne : w0 ≠ 0x0110 := by intro e; subst e; revert h2; decide
      split at h
      · -- reti
        rename_i hr
        simp only [Option.some.injEq, Prod.mk.injEq] at h
        subst hr
        obtain ⟨r, hr, _, ht⟩ := findRow_reti
        rw [disasm_plain addr _ x y z hne hnp, decodeAt_row addr _ x y r hr, ← h.2]
        simp [rowText, ht]
      · split at h
        · cases h
        · rename_i op hop
          split at h
          · cases h
          · rename_i hwo
            obtain ⟨r, hr, _, ht⟩ := findRow_one w0 op h2 (op1_field hop).symm (by simpa using hwo)
            rw [disasm_plain addr w0 x y z hne hnp, decodeAt_row addr w0 x y r hr]
            have hlen : (rowText addr r w0 none x y).2.1 = (oneOperand addr r.instr.toList w0 none x).2 := by
              rcases ht with ht | ht | ht <;>
                simp [rowText, ht, OP_NONE, OP_ONE_OPERAND, OP_ONE_OPERAND_W, OP_ONE_OPERAND_X]
            simp only [hlen, oneOperand, srcText_count_eq]
            split at h
            · rename_i he
              split at h
              · simp only [Option.some.injEq, Prod.mk.injEq] at h; rw [← h.2]; simp [he]
              · cases h
            · rename_i he
              simp only [Option.some.injEq, Prod.mk.injEq] at h; rw [← h.2]; simp [he]
    · -- two operands
      rename_i h2
      split at h
      · cases h
      · rename_i op hop
        have hn := op2_nibble hop
        have hnp : isPrefix w0 = false := by
          unfold isPrefix; have := nibble_ge' op; rw [hn] at this; simp; bv_decide
        have hne : w0 ≠ 0x0110 := by
          intro e; subst e; have := nibble_ge' op; rw [hn] at this; revert this; decide
        obtain ⟨r, hr, _, ht⟩ := findRow_two w0 op hn.symm
        rw [disasm_plain addr w0 x y z hne hnp, decodeAt_row addr w0 x y r hr]
        have hlen : (rowText addr r w0 none x y).2.1 = (twoOperand addr r.instr.toList w0 none x y).2 := by
          simp [rowText, ht, OP_NONE, OP_ONE_OPERAND, OP_ONE_OPERAND_W, OP_ONE_OPERAND_X, OP_JUMP, OP_TWO_OPERAND]
        simp only [hlen, twoOperand, srcText_count_eq, dstText_count_ad]
        split at h
        all_goals first
          | (cases h; done)
          | (simp only [Option.some.injEq, Prod.mk.injEq] at h; obtain ⟨_, hn2⟩ := h; subst hn2; simp_all)
