/-
  Implementation model of `disasm_msp430` (disasm/msp430.cpp): the exact text and the returned length for every
  word sequence, MSP430X decode paths included (the function decodes them whatever the CPU type is).
  `w0` is the word at the address, `w1 w2 w3` the three words after it.  Text is a `List Char` (the driver
  turns it into a string), numerals are rendered by `hex`/`dec` below (`%x`, `%04x`, `%02x`, `%d`).
-/
import NakenVerif.Generated.Msp430DisTable
import NakenVerif.Msp430.Asm
import NakenVerif.Common.Walk
namespace NakenVerif.Msp430.Disasm
open NakenVerif.Generated.Msp430Dis

/-- `t!"abc"` is the character list `['a', 'b', 'c']` (expanded when the file is elaborated, so that no proof has
    to evaluate a string literal) -/
macro:max "t!" s:str : term => do
  let elems ← s.getString.toList.toArray.mapM (fun c => `($(Lean.Syntax.mkCharLit c)))
  `([$elems,*])

/-! ### numerals -/

def hexDigit (n : Nat) : Char := if n % 16 < 10 then Char.ofNat (48 + n % 16) else Char.ofNat (87 + n % 16)
def decDigit (n : Nat) : Char := Char.ofNat (48 + n % 10)

/-- `k` digits of `n` in base 16 / 10, most significant first -/
def hexFix : Nat → Nat → List Char
  | 0, _ => []
  | k + 1, n => hexFix k (n / 16) ++ [hexDigit n]
def decFix : Nat → Nat → List Char
  | 0, _ => []
  | k + 1, n => decFix k (n / 10) ++ [decDigit n]

/-- drop leading zeros while more than `keep` characters remain -/
def trimZeros (keep : Nat) : List Char → List Char
  | [] => []
  | c :: cs => if c = '0' ∧ keep < (c :: cs).length then trimZeros keep cs else c :: cs

/-- `%0<min>x` of a 32-bit value (`%x` is `min = 1`) -/
def hex (min : Nat) (v : BitVec 32) : List Char := trimZeros min (hexFix 8 v.toNat)
/-- `%d` of an `int` -/
def dec (v : BitVec 32) : List Char :=
  if v.msb then '-' :: trimZeros 1 (decFix 10 (2 ^ 32 - v.toNat)) else trimZeros 1 (decFix 10 v.toNat)

def s16 (w : BitVec 16) : BitVec 32 := w.signExtend 32
def u16 (w : BitVec 16) : BitVec 32 := w.zeroExtend 32

/-! ### operands -/

def regNames : Array String :=
  #["PC", "SP", "SR", "CG", "r4", "r5", "r6", "r7", "r8", "r9", "r10", "r11", "r12", "r13", "r14", "r15"]
def regName (r : BitVec 4) : List Char := (regNames[r.toNat]!).toList

/-- the index word as `get_source_reg` / `get_dest_reg` widen it: 16-bit sign extension without an extension
    word, else `extra` or-ed in and bit 19 extended -/
def widen (pfx : Option (BitVec 16)) (extra : BitVec 32) (e : BitVec 16) : BitVec 32 :=
  match pfx with
  | none => s16 e
  | some _ =>
    let a := u16 e ||| extra
    if a &&& 0x80000 ≠ 0 then a ||| 0xfff00000 else a

/-- `get_source_reg`: text and the bytes it adds to `count`.  `addr` is the address of the opcode word. -/
def srcText (addr : BitVec 32) (reg : BitVec 4) (as : BitVec 2) (bw : Bool) (pfx : Option (BitVec 16))
    (memExt : Bool) (e : BitVec 16) : List Char × Nat :=
  let extra : BitVec 32 :=
    match pfx with
    | some p => if memExt then (u16 p &&& 0x0780) <<< 9 else 0
    | none => 0
  if reg = 0 then
    if as = 0 then (regName reg, 0)
    else if as = 1 then
      let a := widen pfx extra e + (addr + 2)
      (t!"0x" ++ hex 4 ((a &&& 0xffff) ||| (addr &&& 0xf0000)), 2)
    else if as = 2 then (t!"@PC", 0)
    else (if bw then t!"#0x" ++ hex 2 (u16 e ||| extra) else t!"#0x" ++ hex 4 (u16 e ||| extra), 2)
  else if reg = 2 then
    if as = 0 then (regName reg, 0)
    else if as = 1 then (t!"&0x" ++ hex 4 (u16 e ||| extra), 2)
    else if as = 2 then (t!"#4", 0)
    else (t!"#8", 0)
  else if reg = 3 then
    if as = 0 then (t!"#0", 0) else if as = 1 then (t!"#1", 0) else if as = 2 then (t!"#2", 0) else (t!"#-1", 0)
  else
    if as = 0 then (regName reg, 0)
    else if as = 1 then (dec (widen pfx extra e) ++ t!"(" ++ regName reg ++ t!")", 2)
    else if as = 2 then (t!"@" ++ regName reg, 0)
    else (t!"@" ++ regName reg ++ t!"+", 0)

/-- `get_dest_reg`: text and bytes added; `count` is what the source added -/
def dstText (addr : BitVec 32) (reg : BitVec 4) (ad : Bool) (count : Nat) (pfx : Option (BitVec 16))
    (memExt : Bool) (e : BitVec 16) : List Char × Nat :=
  let extra : BitVec 32 :=
    match pfx with
    | some p => if memExt then (u16 p &&& 0x000f) <<< 16 else 0
    | none => 0
  if !ad then (regName reg, 0)
  else if reg = 0 then
    let a := widen pfx extra e + (addr + BitVec.ofNat 32 (count + 2))
    (t!"0x" ++ hex 4 ((a &&& 0xffff) ||| (addr &&& 0xf0000)), 2)
  else if reg = 2 then (t!"&0x" ++ hex 4 (u16 e ||| extra), 2)
  else (dec (widen pfx extra e) ++ t!"(" ++ regName reg ++ t!")", 2)

/-- size suffix of the MSP430X forms: `al = ((prefix >> 5) & 2) | bw` -/
def alExt (p : BitVec 16) (bw : Bool) (odd : Bool) : List Char :=
  let a : Bool := p &&& 0x40 ≠ 0
  if odd then
    (if !a && !bw then t!".a" else if !a && bw then t!".?" else if a && !bw then t!".w" else t!".?")
  else
    (if !a && !bw then t!".?" else if !a && bw then t!".a" else if a && !bw then t!".w" else t!".b")

/-- `one_operand`: (text after the mnemonic is appended to `instr`, bytes) -/
def oneOperand (addr : BitVec 32) (instr : List Char) (opcode : BitVec 16) (pfx : Option (BitVec 16))
    (e : BitVec 16) : List Char × Nat :=
  let as : BitVec 2 := opcode.extractLsb' 4 2
  let reg : BitVec 4 := opcode.extractLsb' 0 4
  let o : BitVec 3 := opcode.extractLsb' 7 3
  let odd : Bool := o &&& 1 = 1
  let bw : Bool := opcode &&& 0x40 ≠ 0
  let memExt : Bool := pfx.isSome && as ≠ 0
  let ext0 : List Char := if bw then t!".b" else if odd then [] else t!".w"
  let ext : List Char :=
    match pfx with
    | some p => if o ≤ 5 then alExt p bw odd else ext0
    | none => ext0
  let x : List Char := if pfx.isSome then t!"x" else []
  let (st, n) := srcText addr reg as bw pfx memExt e
  (instr ++ x ++ ext ++ t!" " ++ st, 2 + n)

/-- `relative_jump` -/
def relativeJump (addr : BitVec 32) (instr : List Char) (opcode : BitVec 16) (pfx : Option (BitVec 16)) :
    List Char × Nat :=
  let off : BitVec 32 := ((opcode.extractLsb' 0 10).signExtend 32) <<< 1
  let x : List Char := if pfx.isSome then t!"x" else []
  (instr ++ x ++ t!" 0x" ++ hex 4 ((addr + 2 + off) &&& 0xffff) ++ t!"  (offset: " ++ dec off ++ t!")", 2)

/-- which of the `if … else if …` alias tests of `two_operand` is the first to hold (0 = none) -/
def aliasKind (opcode : BitVec 16) : Nat :=
  if opcode &&& 0x00ff = 0x0003 then 1
  else if opcode = 0x4130 then 2
  else if opcode &&& 0xffb0 = 0x4130 then 3
  else if opcode &&& 0xffb0 = 0x41b0 then 4
  else if opcode = 0xc312 then 5
  else if opcode = 0xc222 then 6
  else if opcode = 0xc322 then 7
  else if opcode = 0xc232 then 8
  else if opcode = 0xd312 then 9
  else if opcode = 0xd222 then 10
  else if opcode = 0xd322 then 11
  else if opcode = 0xd232 then 12
  else 0

/-- the alias comment `two_operand` puts before the mnemonic when there is no extension word -/
def aliasComment (opcode : BitVec 16) (bw : Bool) (e : BitVec 16) : Option (List Char) :=
  let bc : List Char := if bw then t!"b" else t!"w"
  let rn : List Char := dec (u16 (opcode &&& 0xf))
  match aliasKind opcode with
  | 1 => some t!"nop   --  "
  | 2 => some t!"ret   --  "
  | 3 => some (t!"pop." ++ bc ++ t!" r" ++ rn ++ t!"   --  ")
  | 4 => some (t!"pop." ++ bc ++ t!" " ++ dec (s16 e) ++ t!"(r" ++ rn ++ t!")   --  ")
  | 5 => some t!"clrc  --  "
  | 6 => some t!"clrn  --  "
  | 7 => some t!"clrz  --  "
  | 8 => some t!"dint  --  "
  | 9 => some t!"setc  --  "
  | 10 => some t!"setn  --  "
  | 11 => some t!"setz  --  "
  | 12 => some t!"eint  --  "
  | _ => none

/-- `two_operand`; `e1 e2` are the two words after the opcode word -/
def twoOperand (addr : BitVec 32) (instr : List Char) (opcode : BitVec 16) (pfx : Option (BitVec 16))
    (e1 e2 : BitVec 16) : List Char × Nat :=
  let ad : Bool := opcode.extractLsb' 7 1 = 1
  let as : BitVec 2 := opcode.extractLsb' 4 2
  let src : BitVec 4 := opcode.extractLsb' 8 4
  let dst : BitVec 4 := opcode.extractLsb' 0 4
  let bw : Bool := opcode &&& 0x40 ≠ 0
  let memExt : Bool := pfx.isSome && !(!ad && (as = 0 || src = 3 || (src = 2 && as ≠ 1)))
  let head : List Char :=
    match pfx with
    | some p => instr ++ t!"x" ++ alExt p bw false
    | none =>
      (match aliasComment opcode bw e1 with
       | some c => c ++ instr
       | none => instr) ++ (if bw then t!".b" else t!".w")
  let (st, n) := srcText addr src as bw pfx memExt e1
  let (dt, m) := dstText addr dst ad n pfx memExt (if n = 0 then e1 else e2)
  (head ++ t!" " ++ st ++ t!", " ++ dt, n + m + 2)

/-- first row (VERSION_MSP430X_EXT rows are skipped) whose masked opcode matches -/
def findRow (opcode : BitVec 16) : Option Row :=
  table.find? fun r => r.version ≠ VERSION_MSP430X_EXT ∧ opcode &&& r.mask = r.opcode

/-- one `case` of the switch: (text, bytes added to `count`, `prefix = 0xffff` was executed) -/
def rowText (addr : BitVec 32) (r : Row) (opcode : BitVec 16) (pfx : Option (BitVec 16)) (e1 e2 : BitVec 16) :
    List Char × Nat × Bool :=
  let i := r.instr.toList
  let src : BitVec 4 := opcode.extractLsb' 8 4
  let dst : BitVec 4 := opcode.extractLsb' 0 4
  let num20hi : BitVec 32 := (u16 opcode &&& 0x0f00) <<< 8 ||| u16 e1
  let num20lo : BitVec 32 := (u16 opcode &&& 0xf) <<< 16 ||| u16 e1
  let aw (b : Bool) : List Char := if b then t!"w" else t!"a"
  if r.type = OP_NONE then (i, 2, false)
  else if r.type = OP_ONE_OPERAND ∨ r.type = OP_ONE_OPERAND_W ∨ r.type = OP_ONE_OPERAND_X then
    let (t, n) := oneOperand addr i opcode pfx e1; (t, n, true)
  else if r.type = OP_JUMP then
    let (t, n) := relativeJump addr i opcode pfx; (t, n, false)
  else if r.type = OP_TWO_OPERAND then
    let (t, n) := twoOperand addr i opcode pfx e1 e2; (t, n, true)
  else if r.type = OP_MOVA_AT_REG_REG then (t!"mova @" ++ regName src ++ t!", " ++ regName dst, 2, false)
  else if r.type = OP_MOVA_AT_REG_PLUS_REG then (t!"mova @" ++ regName src ++ t!"+, " ++ regName dst, 2, false)
  else if r.type = OP_MOVA_ABS20_REG then (t!"mova &0x" ++ hex 1 num20hi ++ t!", " ++ regName dst, 4, false)
  else if r.type = OP_MOVA_INDEXED_REG then
    (if src ≠ 0 then t!"mova " ++ dec (s16 e1) ++ t!"(" ++ regName src ++ t!"), " ++ regName dst
     else t!"mova 0x" ++ hex 4 (addr + 2 + s16 e1) ++ t!", " ++ regName dst, 4, false)
  else if r.type = OP_SHIFT20 then
    (i ++ t!"." ++ aw (opcode &&& 0x10 ≠ 0) ++ t!" #" ++ dec (((u16 opcode >>> 10) &&& 3) + 1) ++ t!", " ++ regName dst,
     2, false)
  else if r.type = OP_MOVA_REG_ABS then (t!"mova " ++ regName src ++ t!", &0x" ++ hex 1 num20lo, 4, false)
  else if r.type = OP_MOVA_REG_INDEXED then
    (t!"mova " ++ regName src ++ t!", " ++ dec (s16 e1) ++ t!"(" ++ regName dst ++ t!")", 4, false)
  else if r.type = OP_IMMEDIATE_REG then (i ++ t!" #0x" ++ hex 1 num20hi ++ t!", " ++ regName dst, 4, false)
  else if r.type = OP_REG_REG then (i ++ t!" " ++ regName src ++ t!", " ++ regName dst, 2, false)
  else if r.type = OP_CALLA_SOURCE then
    let as : BitVec 2 := opcode.extractLsb' 4 2
    if as = 0 then (i ++ t!" " ++ regName dst, 2, false)
    else if as = 1 then
      (if dst = 0 then
         i ++ t!" " ++ dec (s16 e1) ++ t!"(" ++ regName dst ++ t!") -- 0x" ++ hex 1 (addr + 4 + s16 e1)
       else i ++ t!" " ++ dec (s16 e1) ++ t!"(" ++ regName dst ++ t!")", 4, false)
    else if as = 2 then (i ++ t!" @" ++ regName dst, 2, false)
    else (i ++ t!" @" ++ regName dst ++ t!"+", 2, false)
  else if r.type = OP_CALLA_ABS20 then (i ++ t!" &0x" ++ hex 1 num20lo, 4, false)
  else if r.type = OP_CALLA_INDIRECT_PC then
    let num : BitVec 32 := if num20lo &&& 0x80000 ≠ 0 then num20lo ||| 0xfff0000 else num20lo
    (i ++ t!" 0x" ++ hex 1 (addr + 4 + num) ++ t!"(" ++ dec num ++ t!")", 4, false)
  else if r.type = OP_CALLA_IMMEDIATE then (i ++ t!" #0x" ++ hex 1 num20lo, 4, false)
  else if r.type = OP_PUSH then
    (t!"pushm." ++ aw (opcode &&& 0x100 ≠ 0) ++ t!" #" ++ dec (((u16 opcode >>> 4) &&& 0xf) + 1) ++ t!", " ++
      regName dst, 2, false)
  else if r.type = OP_POP then
    (t!"popm." ++ aw (opcode &&& 0x100 ≠ 0) ++ t!" #" ++ dec (((u16 opcode >>> 4) &&& 0xf) + 1) ++ t!", " ++
      regName dst, 2, false)
  else (i ++ t!" << wtf", 0, false)

/-- the `rpt` text put in front when an extension word is still pending at the end -/
def rptText (p : BitVec 16) (text : List Char) : List Char :=
  let zc : List Char := if p &&& 0x100 ≠ 0 then t!"z" else t!"c"
  let n : BitVec 32 := u16 p &&& 0xf
  if p &&& 0xfeb0 = 0x1800 then t!"rpt" ++ zc ++ t!" #" ++ dec (n + 1) ++ t!", " ++ text
  else if p &&& 0xfeb0 = 0x1880 then t!"rpt" ++ zc ++ t!" r" ++ dec n ++ t!", " ++ text
  else text

structure Dec where
  text : List Char
  len : Nat
  deriving DecidableEq, Repr

/-- decode from the opcode word on (`addr` = address of the opcode word, `pfx` = the extension word before it) -/
def decodeAt (addr : BitVec 32) (pfx : Option (BitVec 16)) (opcode e1 e2 : BitVec 16) : Dec :=
  let (text, n, reset) : List Char × Nat × Bool :=
    match findRow opcode with
    | none => (t!"???", 2, false)
    | some r => rowText addr r opcode pfx e1 e2
  match pfx with
  | some p => ⟨if reset then text else rptText p text, n⟩
  | none => ⟨text, n⟩

def isPrefix (w : BitVec 16) : Bool := w &&& 0xf830 = 0x1800

/-- `disasm_msp430(memory, addr, …)` where the four words at `addr` are `w0 w1 w2 w3` -/
def disasm (addr : BitVec 32) (w0 w1 w2 w3 : BitVec 16) : Dec :=
  if w0 = 0x0110 then ⟨t!"reta  --  mova @SP+, PC", 2⟩
  else if isPrefix w0 then
    let d := decodeAt (addr + 2) (some w0) w1 w2 w3
    ⟨d.text, d.len + 2⟩
  else decodeAt addr none w0 w1 w2

/-- length only -/
def len (w0 w1 : BitVec 16) : Nat := (disasm 0 w0 w1 0 0).len

/-! ### structured reading: the statement the printed text denotes to the assembler's operand loop -/
open Asm in
/-- what the operand loop makes of `srcText` (no extension word) -/
def srcOperandOf (addr : BitVec 32) (reg : BitVec 4) (as : BitVec 2) (e : BitVec 16) : Asm.Operand :=
  if reg = 0 then
    if as = 0 then .reg 0
    else if as = 1 then .symbolic (((s16 e + (addr + 2)) &&& 0xffff) ||| (addr &&& 0xf0000))
    else if as = 2 then .indirect 0
    else .imm (u16 e)
  else if reg = 2 then
    if as = 0 then .reg 2 else if as = 1 then .abs (u16 e) else if as = 2 then .imm 4 else .imm 8
  else if reg = 3 then
    if as = 0 then .imm 0 else if as = 1 then .imm 1 else if as = 2 then .imm 2 else .imm 0xffffffff
  else
    if as = 0 then .reg reg else if as = 1 then .indexed (s16 e) reg else if as = 2 then .indirect reg
    else .indirectInc reg

open Asm in
def dstOperandOf (addr : BitVec 32) (reg : BitVec 4) (ad : Bool) (count : Nat) (e : BitVec 16) : Asm.Operand :=
  if !ad then .reg reg
  else if reg = 0 then .symbolic (((s16 e + (addr + BitVec.ofNat 32 (count + 2))) &&& 0xffff) ||| (addr &&& 0xf0000))
  else if reg = 2 then .abs (u16 e)
  else .indexed (s16 e) reg

/-- The instruction the text of `disasm addr w0 w1 w2 _` shows for a word that is not an extension word — after
    the `--` of an alias comment if there is one — as a statement of the 16-bit core; `none` for jumps (their
    text carries an `(offset: n)` suffix), for `???` and for the MSP430X row types. -/
def reading (addr : BitVec 32) (w0 w1 w2 : BitVec 16) : Option Asm.Stmt :=
  match findRow w0 with
  | none => none
  | some r =>
    let bw : Bool := w0 &&& 0x40 ≠ 0
    let as : BitVec 2 := w0.extractLsb' 4 2
    if r.type = OP_NONE then some ⟨r.instr, 0, []⟩
    else if r.type = OP_ONE_OPERAND ∨ r.type = OP_ONE_OPERAND_W ∨ r.type = OP_ONE_OPERAND_X then
      let odd : Bool := w0.extractLsb' 7 3 &&& 1 = 1
      some ⟨r.instr, if bw then 8 else if odd then 0 else 16, [srcOperandOf addr (w0.extractLsb' 0 4) as w1]⟩
    else if r.type = OP_TWO_OPERAND then
      let src : BitVec 4 := w0.extractLsb' 8 4
      let n := (srcText addr src as bw none false w1).2
      some ⟨r.instr, if bw then 8 else 16,
        [srcOperandOf addr src as w1,
         dstOperandOf addr (w0.extractLsb' 0 4) (w0.extractLsb' 7 1 = 1) n (if n = 0 then w1 else w2)]⟩
    else none

/-- the text has an alias comment in front (`nop   --  mov.w #0, CG`): only two-operand texts without an
    extension word get one -/
def commented (w0 w1 : BitVec 16) : Bool :=
  match findRow w0 with
  | some r => r.type = OP_TWO_OPERAND && (aliasComment w0 (w0 &&& 0x40 ≠ 0) w1).isSome
  | none => false

/-- The statement that the text of `disasm addr w0 w1 w2 _` is to `parse_instruction_msp430` under `.msp430`,
    or `none` when that text is rejected: texts with a `--` comment or an `(offset: n)` suffix, `???`, `reta`,
    every MSP430X mnemonic (`mova`, `calla`, `pushm`, …, the `…x` forms and `rpt` prefixes: unknown
    instructions for the 16-bit core). -/
def toStmt (addr : BitVec 32) (w0 w1 w2 : BitVec 16) : Option Asm.Stmt :=
  if w0 = 0x0110 then none
  else if isPrefix w0 then
    match findRow w1 with
    | some r =>
      if r.type = OP_NONE ∧ ¬ (w0 &&& 0xfeb0 = 0x1800 ∨ w0 &&& 0xfeb0 = 0x1880) then some ⟨r.instr, 0, []⟩ else none
    | none => none
  else if commented w0 w1 then none
  else reading addr w0 w1 w2

/-! ### the range loop `disasm_range_msp430_both` -/

/-- lines (address, is a continuation line) printed for `start .. stop`; `lenAt a` = bytes `disasm_msp430`
    returns at `a`.  Addresses 0xffe0 … 0xffff are printed as interrupt vectors, one word per line. -/
def rangeLines (lenAt : Nat → Nat) (start stop : Nat) : List (Nat × Bool) :=
  if start ≤ stop then
    if 0xffe0 ≤ start ∧ start ≤ 0xffff then (start, false) :: rangeLines lenAt (start + 2) stop
    else
      let words := lenAt start / 2
      (start, false) :: Walk.contLines (start + 2) (words - 1) ++ rangeLines lenAt (start + 2 * max 1 words) stop
  else []
termination_by stop + 1 - start
decreasing_by all_goals omega

end NakenVerif.Msp430.Disasm
