/-
  C01 (iii) for the MSP430 16-bit core: whatever the assembler model accepts for a core mnemonic, an alternative
  jump mnemonic or an emulated instruction is read back by the architecture's decoder as the instruction the
  user's guide says the statement means, and the decoder uses exactly the emitted words.
-/
import NakenVerif.Msp430.AsmProps
set_option linter.unusedSimpArgs false
set_option linter.unusedVariables false
namespace NakenVerif.Msp430
open NakenVerif.Generated.Msp430Dis NakenVerif.Generated.Msp430Asm Arch Asm Spec

/-- What an accepted statement with a meaning `i` comes down to: one `case` of the switch on operands that mean
    the operands of `i` (every alias expansion ends in the two-operand case), or a single fixed word. -/
def CoreForm (ctx : Ctx) (ws : List (BitVec 16)) (i : Instr) : Prop :=
  (∃ (op : Op2) (size : Nat) (bw : Bool) (o0 o1 : Operand) (r : Row) (sm : Src) (dm : Dst),
      sizeBw size = some bw ∧ r.type = OP_TWO_OPERAND ∧ r.opcode = twoWord op.nibble false 0 0 0 0 ∧
      rowAction ctx r size [o0, o1] = .ok ws ∧ srcMeaning bw o0 = some sm ∧ dstMeaning o1 = some dm ∧
      i = .two op bw sm dm) ∨
  (∃ (op : Op1) (size : Nat) (bw : Bool) (o0 : Operand) (r : Row) (sm : Src),
      sizeBw size = some bw ∧ (op.wordOnly && bw) = false ∧ r.type = op1Type op ∧ r.opcode = oneWord op.field false 0 0 ∧
      rowAction ctx r size [o0] = .ok ws ∧ srcMeaning bw o0 = some sm ∧ i = .one op bw sm) ∨
  (ws = [0x1300] ∧ i = .reti) ∨
  (∃ c t, i = .jump c t ∧ Arch.decode (ctx.address.truncate 16) ws = some (i, ws.length)) ∨
  (∃ a ∈ aliases, a.operandCount = 0 ∧ ws = [a.opcode] ∧ Arch.decode (ctx.address.truncate 16) ws = some (i, ws.length))

theorem coreForm_decode {ctx : Ctx} {ws : List (BitVec 16)} {i : Instr} (h : CoreForm ctx ws i) :
    Arch.decode (ctx.address.truncate 16) ws = some (i, ws.length) := by
  rcases h with ⟨op, size, bw, o0, o1, r, sm, dm, hbw, ht, ho, hr, hs, hd, rfl⟩ |
    ⟨op, size, bw, o0, r, sm, hbw, hw, ht, ho, hr, hs, rfl⟩ | ⟨rfl, rfl⟩ | ⟨_, _, _, h⟩ | ⟨_, _, _, _, h⟩
  · exact rowAction_two ctx r op ht ho size bw hbw o0 o1 ws sm dm hr hs hd
  · exact rowAction_one ctx r op ht ho size bw hbw hw o0 ws sm hr hs
  · rfl
  · exact h
  · exact h

/-- a table row of type TWO_OPERAND reached with the operands `[a, b]` -/
theorem two_form (ctx : Ctx) (name : String) (op : Op2) (size : Nat) (bw : Bool) (hbw : sizeBw size = some bw)
    (hrow : rowIs name (twoWord op.nibble false 0 0 0 0) OP_TWO_OPERAND = true) (a b : Operand) (ws : List (BitVec 16))
    (s : Src) (d : Dst) (hs : srcMeaning bw a = some s) (hd : dstMeaning b = some d)
    (h : (match Asm.findRow name with
          | none => Result.err
          | some r => if size = 20 then Result.err else rowAction ctx r size [a, b]) = .ok ws) :
    CoreForm ctx ws (.two op bw s d) := by
  obtain ⟨r, hr, ho, ht⟩ := rowIs_spec hrow
  rw [hr] at h
  simp only [(sizeBw_bw hbw).2, if_false] at h
  exact Or.inl ⟨op, size, bw, a, b, r, s, d, hbw, ht, ho, h, hs, hd, rfl⟩

theorem encode_sound_two (ctx : Ctx) (s : Stmt) (op : Op2) (ws : List (BitVec 16)) (i : Instr)
    (hrow : specRowOK (s.mnemonic, .two op) = true)
    (hm : meaningK (.two op) s.size (optimizeOps ctx s.ops) = some i) (h : encode ctx s = .ok ws) :
    CoreForm ctx ws i := by
  obtain ⟨bw, a, b, sm, dm, hbw, hops, hs, hd, rfl⟩ := meaningK_two hm
  rw [encode_eq ctx s (by rw [hops]; simp)] at h
  simp only [specRowOK, Bool.and_eq_true] at hrow
  obtain ⟨hal, hr⟩ := hrow
  by_cases hsbb : (s.mnemonic == "sbb") = true
  · simp only [hsbb, if_true] at hal
    obtain ⟨al, ha, hc, halt, hcmd, _⟩ := aliasIs_spec hal
    rw [aliasStep_expand _ ha (by rw [hc, hops]; rfl) (by rw [hc]; decide)] at h
    have e : ¬ (al.cmd = CMD_SP_INC) ∧ ¬ (al.cmd = CMD_PC) ∧ ¬ (al.cmd = CMD_R3) ∧ ¬ (al.cmd = CMD_DST_DST) := by
      rw [hcmd]; decide
    simp only [e.1, e.2.1, e.2.2.1, e.2.2.2, if_false, hcmd, if_true, hops, List.getD_cons_zero, List.getD_cons_succ,
      halt] at h
    exact two_form ctx _ op s.size bw hbw hr a b ws sm dm hs hd h
  · simp only [hsbb, Bool.false_eq_true, if_false, Bool.and_eq_true, Option.isNone_iff_eq_none, beq_iff_eq] at hal
    rw [aliasStep_none _ hal.1, hops] at h
    simp only [] at h
    rw [hal.2] at h
    exact two_form ctx _ op s.size bw hbw hr a b ws sm dm hs hd h

theorem encode_sound_one (ctx : Ctx) (s : Stmt) (op : Op1) (ws : List (BitVec 16)) (i : Instr)
    (hrow : specRowOK (s.mnemonic, .one op) = true)
    (hm : meaningK (.one op) s.size (optimizeOps ctx s.ops) = some i) (h : encode ctx s = .ok ws) :
    CoreForm ctx ws i := by
  obtain ⟨bw, a, sm, hbw, hops, hw, hs, rfl⟩ := meaningK_one hm
  rw [encode_eq ctx s (by rw [hops]; simp)] at h
  simp only [specRowOK, Bool.and_eq_true, Option.isNone_iff_eq_none] at hrow
  obtain ⟨hal, hr⟩ := hrow
  rw [aliasStep_none _ hal, hops] at h
  obtain ⟨r, hr, ho, ht⟩ := rowIs_spec hr
  simp only [hr, (sizeBw_bw hbw).2, if_false] at h
  exact Or.inr (Or.inl ⟨op, s.size, bw, a, r, sm, hbw, hw, ht, ho, h, hs, rfl⟩)

theorem encode_sound_jump (ctx : Ctx) (hp : ctx.pass1 = false) (ha : ctx.address &&& 1 = 0) (s : Stmt) (c : Cond)
    (ws : List (BitVec 16)) (i : Instr) (hrow : specRowOK (s.mnemonic, .jump c) = true)
    (hm : meaningK (.jump c) s.size (optimizeOps ctx s.ops) = some i) (h : encode ctx s = .ok ws) :
    CoreForm ctx ws i := by
  obtain ⟨t, h0, hops, rfl⟩ := meaningK_jump hm
  rw [encode_eq ctx s (by rw [hops]; simp)] at h
  simp only [specRowOK, Bool.and_eq_true, Option.isNone_iff_eq_none] at hrow
  obtain ⟨hal, hr⟩ := hrow
  rw [aliasStep_none _ hal, hops] at h
  obtain ⟨r, hr, ho, ht⟩ := rowIs_spec hr
  simp only [hr, h0, show ¬ (0 = 20) by decide, if_false] at h
  exact Or.inr (Or.inr (Or.inr (Or.inl ⟨c, _, rfl, (rowAction_jump ctx hp ha r c ht ho t ws h).1⟩)))

theorem encode_sound_reti (ctx : Ctx) (s : Stmt) (ws : List (BitVec 16)) (i : Instr)
    (hrow : specRowOK (s.mnemonic, .reti) = true)
    (hm : meaningK .reti s.size (optimizeOps ctx s.ops) = some i) (h : encode ctx s = .ok ws) :
    CoreForm ctx ws i := by
  obtain ⟨h0, hops, rfl⟩ := meaningK_reti hm
  rw [encode_eq ctx s (by rw [hops]; simp)] at h
  simp only [specRowOK, Bool.and_eq_true, Option.isNone_iff_eq_none] at hrow
  obtain ⟨hal, hr⟩ := hrow
  rw [aliasStep_none _ hal, hops] at h
  obtain ⟨r, hr, ho, ht⟩ := rowIs_spec hr
  simp only [hr, h0, show ¬ (0 = 20) by decide, if_false] at h
  rw [rowAction_none ctx r ht 0 ws h, ho]
  exact Or.inr (Or.inr (Or.inl ⟨rfl, rfl⟩))

theorem cmd_distinct : CMD_SP_INC ≠ CMD_PC ∧ CMD_SP_INC ≠ CMD_R3 ∧ CMD_SP_INC ≠ CMD_DST_DST ∧ CMD_PC ≠ CMD_SP_INC ∧
    CMD_PC ≠ CMD_R3 ∧ CMD_DST_DST ≠ CMD_SP_INC ∧ CMD_DST_DST ≠ CMD_PC ∧ CMD_DST_DST ≠ CMD_R3 := by decide

theorem encode_sound_emuSrc (ctx : Ctx) (s : Stmt) (op : Op2) (n : BitVec 16) (ws : List (BitVec 16)) (i : Instr)
    (hrow : specRowOK (s.mnemonic, .emuSrc op n) = true)
    (hm : meaningK (.emuSrc op n) s.size (optimizeOps ctx s.ops) = some i) (h : encode ctx s = .ok ws) :
    CoreForm ctx ws i := by
  obtain ⟨bw, a, hbw, hops⟩ := meaningK_emu1 (Or.inl ⟨op, n, rfl⟩) hm
  simp only [meaningK, hbw, hops] at hm
  split at hm
  · rename_i d hd
    simp only [Option.some.injEq] at hm; subst hm
    rw [encode_eq ctx s (by rw [hops]; simp)] at h
    simp only [specRowOK, Bool.and_eq_true] at hrow
    obtain ⟨hal, hr⟩ := hrow
    split at hal
    · rename_i al hal'
      simp only [Bool.and_eq_true, beq_iff_eq, bne_iff_ne, ne_eq] at hal
      obtain ⟨⟨⟨⟨⟨⟨⟨hc, halt⟩, hn⟩, c1⟩, c2⟩, c3⟩, c4⟩, c5⟩ := hal
      rw [aliasStep_expand _ hal' (by rw [hc, hops]; rfl) (by rw [hc]; decide)] at h
      simp only [c1, c2, c3, c4, c5, if_false, hops, List.getD_cons_zero, halt] at h
      have hs : srcMeaning bw (.imm (BitVec.ofInt 32 al.cmd)) = some (.imm (immOf bw n)) := by
        simp only [srcMeaning, hn]
      exact two_form ctx _ op s.size bw hbw hr _ a ws _ d hs hd h
    · cases hal
  · cases hm

theorem encode_sound_emuDD (ctx : Ctx) (s : Stmt) (op : Op2) (ws : List (BitVec 16)) (i : Instr)
    (hrow : specRowOK (s.mnemonic, .emuDD op) = true)
    (hm : meaningK (.emuDD op) s.size (optimizeOps ctx s.ops) = some i) (h : encode ctx s = .ok ws) :
    CoreForm ctx ws i := by
  obtain ⟨bw, a, hbw, hops⟩ := meaningK_emu1 (Or.inr (Or.inl ⟨op, rfl⟩)) hm
  simp only [meaningK, hbw, hops] at hm
  split at hm
  · rename_i sm d hs hd
    simp only [Option.some.injEq] at hm; subst hm
    rw [encode_eq ctx s (by rw [hops]; simp)] at h
    simp only [specRowOK, Bool.and_eq_true] at hrow
    obtain ⟨hal, hr⟩ := hrow
    obtain ⟨al, ha, hc, halt, hcmd, _⟩ := aliasIs_spec hal
    rw [aliasStep_expand _ ha (by rw [hc, hops]; rfl) (by rw [hc]; decide)] at h
    simp only [hcmd, cmd_distinct.2.2.2.2.2.1, cmd_distinct.2.2.2.2.2.2.1, cmd_distinct.2.2.2.2.2.2.2, if_false, if_true,
      hops, List.getD_cons_zero, halt] at h
    exact two_form ctx _ op s.size bw hbw hr a a ws sm d hs hd h
  · cases hm

theorem encode_sound_br (ctx : Ctx) (s : Stmt) (ws : List (BitVec 16)) (i : Instr)
    (hrow : specRowOK (s.mnemonic, .br) = true)
    (hm : meaningK .br s.size (optimizeOps ctx s.ops) = some i) (h : encode ctx s = .ok ws) :
    CoreForm ctx ws i := by
  obtain ⟨bw, a, hbw, hops⟩ := meaningK_emu1 (Or.inr (Or.inr (Or.inl rfl))) hm
  simp only [meaningK, hbw, hops] at hm
  split at hm
  · rename_i sm hs
    simp only [Option.some.injEq] at hm; subst hm
    rw [encode_eq ctx s (by rw [hops]; simp)] at h
    simp only [specRowOK, Bool.and_eq_true] at hrow
    obtain ⟨hal, hr⟩ := hrow
    obtain ⟨al, ha, hc, halt, hcmd, _⟩ := aliasIs_spec hal
    rw [aliasStep_expand _ ha (by rw [hc, hops]; rfl) (by rw [hc]; decide)] at h
    simp only [hcmd, cmd_distinct.2.2.2.1, if_false, if_true, hops, List.getD_cons_zero, halt] at h
    exact two_form ctx _ .mov s.size bw hbw hr a (.reg 0) ws sm (.reg 0) hs rfl h
  · cases hm

theorem encode_sound_pop (ctx : Ctx) (s : Stmt) (ws : List (BitVec 16)) (i : Instr)
    (hrow : specRowOK (s.mnemonic, .pop) = true)
    (hm : meaningK .pop s.size (optimizeOps ctx s.ops) = some i) (h : encode ctx s = .ok ws) :
    CoreForm ctx ws i := by
  obtain ⟨bw, a, hbw, hops⟩ := meaningK_emu1 (Or.inr (Or.inr (Or.inr rfl))) hm
  simp only [meaningK, hbw, hops] at hm
  split at hm
  · rename_i d hd
    simp only [Option.some.injEq] at hm; subst hm
    rw [encode_eq ctx s (by rw [hops]; simp)] at h
    simp only [specRowOK, Bool.and_eq_true] at hrow
    obtain ⟨hal, hr⟩ := hrow
    obtain ⟨al, ha, hc, halt, hcmd, _⟩ := aliasIs_spec hal
    rw [aliasStep_expand _ ha (by rw [hc, hops]; rfl) (by rw [hc]; decide)] at h
    simp only [hcmd, if_true, hops, List.getD_cons_zero, halt] at h
    exact two_form ctx _ .mov s.size bw hbw hr (.indirectInc 1) a ws (.indirectInc 1) d (by simp [srcMeaning]) hd h
  · cases hm

theorem aliasOf_mem' {name : String} {a : Alias} (h : aliasOf name = some a) : a ∈ aliases ∧ a.instr = name := by
  unfold aliasOf at h
  have h1 := List.find?_some h
  simp only [beq_iff_eq] at h1
  exact ⟨List.mem_of_find?_eq_some h, h1⟩

/-- no-operand emulated instructions (`clrc … nop`, `ret`): the fixed opcode of the alias row -/
theorem encode_sound_emu0 (ctx : Ctx) (s : Stmt) (k : Kind) (hk : (∃ op n r, k = .emu0 op n r) ∨ k = .ret)
    (ws : List (BitVec 16)) (i : Instr) (hrow : specRowOK (s.mnemonic, k) = true)
    (hm : meaningK k s.size (optimizeOps ctx s.ops) = some i) (h : encode ctx s = .ok ws) :
    CoreForm ctx ws i := by
  have hshape : s.size = 0 ∧ optimizeOps ctx s.ops = [] := by
    cases hbw : sizeBw s.size with
    | none => rcases hk with ⟨_, _, _, rfl⟩ | rfl <;> simp [meaningK, hbw] at hm
    | some bw =>
      match hops : optimizeOps ctx s.ops, hm with
      | _ :: _, hm => rcases hk with ⟨_, _, _, rfl⟩ | rfl <;> simp [meaningK, hbw] at hm
      | [], hm =>
        refine ⟨?_, rfl⟩
        rcases hk with ⟨_, _, _, rfl⟩ | rfl <;> simp only [meaningK, hbw] at hm <;>
          (split at hm <;> first | assumption | cases hm)
  obtain ⟨h0, hops⟩ := hshape
  rw [encode_eq ctx s (by rw [hops]; simp)] at h
  have hal : ∃ al, aliasOf s.mnemonic = some al ∧ al.operandCount = 0 ∧
      Arch.decode 0 [al.opcode] = (meaningK k 0 []).map (·, 1) := by
    rcases hk with ⟨_, _, _, rfl⟩ | rfl <;> simp only [specRowOK] at hrow <;>
      (split at hrow
       · rename_i al hal'
         simp only [Bool.and_eq_true, beq_iff_eq] at hrow
         exact ⟨al, hal', hrow.1, hrow.2⟩
       · cases hrow)
  obtain ⟨al, hal', hc, hd⟩ := hal
  have hstep : aliasStep s.mnemonic (optimizeOps ctx s.ops) = .done (.ok [al.opcode]) := by
    unfold aliasStep; unfold aliasOf at hal'; rw [hal', hops]
    simp [hc]
  rw [hstep] at h
  simp only [Result.ok.injEq] at h
  subst h
  rw [h0, hops] at hm
  rw [hm] at hd
  have hj : ¬ (al.opcode &&& 0xe000 = 0x2000) := by
    intro hj
    unfold Arch.decode at hd
    simp only [hj, if_true, Option.map_some, Option.some.injEq, Prod.mk.injEq, and_true] at hd
    rcases hk with ⟨_, _, _, rfl⟩ | rfl <;> simp only [meaningK, sizeBw] at hm <;> simp at hm <;> rw [← hm] at hd <;> cases hd
  refine Or.inr (Or.inr (Or.inr (Or.inr ⟨al, (aliasOf_mem' hal').1, hc, rfl, ?_⟩)))
  rw [decode_addr_indep _ _ hj, hd]
  rfl

/-- every accepted statement with a meaning is one of the core forms -/
theorem encode_core_form (ctx : Ctx) (hp : ctx.pass1 = false) (ha : ctx.address &&& 1 = 0) (s : Stmt)
    (ws : List (BitVec 16)) (i : Instr) (hm : meaning (optimized ctx s) = some i) (h : encode ctx s = .ok ws) :
    CoreForm ctx ws i := by
  unfold meaning at hm
  simp only [optimized] at hm
  split at hm
  · rename_i k hk
    have hrow := table_spec_rows _ (kindOf_mem hk)
    cases k with
    | two op => exact encode_sound_two ctx s op ws i hrow hm h
    | one op => exact encode_sound_one ctx s op ws i hrow hm h
    | jump c => exact encode_sound_jump ctx hp ha s c ws i hrow hm h
    | reti => exact encode_sound_reti ctx s ws i hrow hm h
    | emuSrc op n => exact encode_sound_emuSrc ctx s op n ws i hrow hm h
    | emuDD op => exact encode_sound_emuDD ctx s op ws i hrow hm h
    | br => exact encode_sound_br ctx s ws i hrow hm h
    | pop => exact encode_sound_pop ctx s ws i hrow hm h
    | emu0 op n r => exact encode_sound_emu0 ctx s _ (Or.inl ⟨op, n, r, rfl⟩) ws i hrow hm h
    | ret => exact encode_sound_emu0 ctx s _ (Or.inr rfl) ws i hrow hm h
  · cases hm

/-- **C01 (iii), MSP430 16-bit core.**  `ctx` is the state of pass 2 at the (even) address of the instruction,
    with any pass-1 flag byte and `-optimize` on or off.  If the assembler model accepts the statement and the
    user's guide gives the statement (after the `-optimize` rewrite of its first operand, see
    `msp430_optimize_only_rewrites_index0`) a meaning, then the architecture's decoder reads the emitted words back
    as exactly that instruction — operation, byte/word, source and destination operands with the constant
    generators applied, symbolic operands and jump targets as addresses — and it uses all emitted words and no
    more. -/
theorem msp430_encode_sound (ctx : Ctx) (hp : ctx.pass1 = false) (ha : ctx.address &&& 1 = 0) (s : Stmt)
    (ws : List (BitVec 16)) (i : Instr) (hm : meaning (optimized ctx s) = some i) (h : encode ctx s = .ok ws) :
    Arch.decode (ctx.address.truncate 16) ws = some (i, ws.length) :=
  coreForm_decode (encode_core_form ctx hp ha s ws i hm h)

theorem optimizeOps_cases (ctx : Ctx) (ops : List Operand) :
    optimizeOps ctx ops = ops ∨
    (ctx.optimize = true ∧ ∃ r rest, (3 : BitVec 4) < r ∧ ops = .indexed 0 r :: rest ∧
      optimizeOps ctx ops = .indirect r :: rest) := by
  unfold optimizeOps
  split
  · rename_i v r rest
    split
    · rename_i ho
      simp only [Bool.and_eq_true, decide_eq_true_eq] at ho
      split
      · split
        · rename_i hv; subst hv; exact Or.inr ⟨ho.1, r, rest, ho.2, rfl, rfl⟩
        · exact Or.inl rfl
      · split
        · rename_i hv
          simp only [Bool.and_eq_true, decide_eq_true_eq] at hv
          obtain ⟨hv, _⟩ := hv
          subst hv; exact Or.inr ⟨ho.1, r, rest, ho.2, rfl, rfl⟩
        · exact Or.inl rfl
    · exact Or.inl rfl
  · exact Or.inl rfl

/-- `-optimize` changes a statement in one way only: `0(Rn)` with n > 3 as the FIRST operand becomes `@Rn`
    (pass 2: when pass 1 left the flag byte 2 there).  Without the option nothing is rewritten. -/
theorem msp430_optimize_only_rewrites_index0 (ctx : Ctx) (s : Stmt) :
    optimized ctx s = s ∨
    (ctx.optimize = true ∧ ∃ r rest, (3 : BitVec 4) < r ∧ s.ops = .indexed 0 r :: rest ∧
      optimized ctx s = { s with ops := .indirect r :: rest }) := by
  rcases optimizeOps_cases ctx s.ops with h | ⟨ho, r, rest, hr, hops, h⟩
  · left; unfold optimized; rw [h]
  · right; exact ⟨ho, r, rest, hr, hops, by unfold optimized; rw [h]⟩

example : Arch.decode 0x1000 [0x43f2, 0x0200] = some (.two .mov true (.imm 0xff) (.absolute 0x200), 2) :=
  msp430_encode_sound { address := 0x1000 } rfl rfl ⟨"mov", 8, [.imm 0xff, .abs 0x200]⟩ [0x43f2, 0x0200] _ (by decide)
    (by decide)
example : encode { address := 0x1000, optimize := true, flag := 2 } ⟨"mov", 0, [.indexed 0 5, .reg 6]⟩ = .ok [0x4526] := by
  decide
