/-
  The disassembler's reading of a core instruction means what the architecture decodes: for every word sequence
  that `Arch.decode` accepts, the statement shown by `disasm_msp430` (mnemonic, size suffix, operands as the
  assembler's operand loop takes them) has exactly that instruction as its `Spec.meaning`.
-/
import NakenVerif.Msp430.DisRows
set_option linter.unusedSimpArgs false
set_option linter.unusedVariables false
namespace NakenVerif.Msp430
open NakenVerif.Generated.Msp430Dis Arch Asm Spec Disasm

/-- **Table obligation.**  The mnemonic column of each core row is the manual's name of the instruction. -/
theorem table_core_names :
    (∀ op : Op2, (table[idx2 op]?).map (fun r => kindOf r.instr) = some (some (.two op))) ∧
    (∀ op : Op1, (table[idx1 op]?).map (fun r => kindOf r.instr) = some (some (.one op))) ∧
    (table[6]?).map (fun r => kindOf r.instr) = some (some .reti) := by
  refine ⟨fun op => by cases op <;> decide, fun op => by cases op <;> decide, by decide⟩

theorem srcOperandOf_meaning (addr : BitVec 32) (bw : Bool) (reg : BitVec 4) (as : BitVec 2) (e : BitVec 16) :
    srcMeaning bw (srcOperandOf addr reg as e) =
      some (srcOperand bw reg as (if srcHasExt reg as then e else 0) (if srcHasExt reg as then addr.truncate 16 + 2 else 0)) := by
  have h3 : as = 0 ∨ as = 1 ∨ as = 2 ∨ as = 3 := by bv_decide
  unfold srcOperandOf srcOperand srcHasExt
  by_cases h0 : reg = 0
  · subst h0
    rcases h3 with rfl | rfl | rfl | rfl <;> simp [srcMeaning, s16, u16] <;> (try (cases bw <;> simp [immOf])) <;> bv_decide
  · by_cases h2 : reg = 2
    · subst h2
      rcases h3 with rfl | rfl | rfl | rfl <;> simp [srcMeaning, s16, u16, immOf] <;> (try (cases bw <;> simp))
    · by_cases h3' : reg = 3
      · subst h3'
        rcases h3 with rfl | rfl | rfl | rfl <;> simp [srcMeaning, immOf] <;> (try (cases bw <;> simp))
      · have a0 : ¬ reg = 0#4 := by simpa using h0
        have a2 : ¬ reg = 2#4 := by simpa using h2
        have a3 : ¬ reg = 3#4 := by simpa using h3'
        rcases h3 with rfl | rfl | rfl | rfl <;> simp [srcMeaning, s16, a0, a2, a3, h0, h2, h3'] <;> bv_decide

theorem dstOperandOf_meaning (addr : BitVec 32) (reg : BitVec 4) (e : BitVec 16) (count : Nat) (hc : count = 0 ∨ count = 2) :
    dstMeaning (dstOperandOf addr reg true count e) =
      some (dstOperand reg true e (addr.truncate 16 + (if count = 0 then 2 else 4))) := by
  unfold dstOperandOf dstOperand
  by_cases h0 : reg = 0
  · subst h0
    rcases hc with rfl | rfl <;> simp [dstMeaning, s16] <;> bv_decide
  · by_cases h2 : reg = 2
    · subst h2; simp [dstMeaning, u16]
    · have a0 : ¬ reg = 0#4 := by simpa using h0
      have a2 : ¬ reg = 2#4 := by simpa using h2
      simp [dstMeaning, dstOfIndex, s16, a0, a2, h0, h2]; bv_decide

theorem dstOperandOf_reg (addr : BitVec 32) (reg : BitVec 4) (e : BitVec 16) (count : Nat) :
    dstMeaning (dstOperandOf addr reg false count e) = some (.reg reg) := by
  simp [dstOperandOf, dstMeaning]

theorem table_get_kind {k : Nat} {r : Row} {K : Kind} (hk : table[k]? = some r)
    (h : (table[k]?).map (fun r => kindOf r.instr) = some (some K)) : kindOf r.instr = some K := by
  rw [hk] at h; simpa using h

/-- **the disassembler's reading is sound.**  If the architecture decodes the words at `addr` as the instruction
    `i` (not a jump: the text of a jump carries an `(offset: n)` suffix and is no statement), then `disasm_msp430`
    shows a statement whose meaning (by the user's guide) is `i`. -/
theorem arch_reading (addr : BitVec 32) (w0 e1 e2 : BitVec 16) (rest : List (BitVec 16)) (i : Instr) (n : Nat)
    (h : Arch.decode (addr.truncate 16) (w0 :: e1 :: e2 :: rest) = some (i, n)) (hnj : ∀ c t, i ≠ .jump c t) :
    ∃ s, reading addr w0 e1 e2 = some s ∧ meaning s = some i := by
  simp only [Arch.decode] at h
  split at h
  · simp only [Option.some.injEq, Prod.mk.injEq] at h
    exact absurd h.1.symm (hnj _ _)
  · rename_i hj
    split at h
    · rename_i h2
      split at h
      · -- reti
        rename_i hr
        simp only [Option.some.injEq, Prod.mk.injEq] at h
        subst hr
        obtain ⟨r, hr, hk, ht⟩ := findRow_reti
        have hkind := table_get_kind hk table_core_names.2.2
        refine ⟨⟨r.instr, 0, []⟩, ?_, ?_⟩
        · unfold reading; rw [hr]; simp [ht]
        · unfold meaning; simp only [hkind]; rw [← h.1]; rfl
      · split at h
        · cases h
        · rename_i op hop
          split at h
          · cases h
          · rename_i hwo
            obtain ⟨r, hr, hk, ht⟩ := findRow_one w0 op h2 (op1_field hop).symm (by simpa using hwo)
            have hkind := table_get_kind hk (table_core_names.2.1 op)
            have hbw : (decide (w0 &&& 0x40 ≠ 0)) = decide (w0.extractLsb' 6 1 = 1) := by
              have : (w0 &&& 0x40 ≠ 0) ↔ (w0.extractLsb' 6 1 = 1) := by constructor <;> intro hh <;> bv_decide
              exact decide_eq_decide.mpr this
            refine ⟨⟨r.instr, (if decide (w0 &&& 0x40 ≠ 0) = true then 8 else
                if decide (w0.extractLsb' 7 3 &&& 1 = 1) = true then 0 else 16),
              [srcOperandOf addr (w0.extractLsb' 0 4) (w0.extractLsb' 4 2) e1]⟩, ?_, ?_⟩
            · unfold reading; rw [hr]
              have hnone : r.type ≠ OP_NONE := by rcases ht with ht | ht | ht <;> rw [ht] <;> decide
              simp only [hnone, if_false, ht, if_true]
            · unfold meaning
              simp only [hkind]
              have hsm := srcOperandOf_meaning addr (decide (w0.extractLsb' 6 1 = 1)) (w0.extractLsb' 0 4) (w0.extractLsb' 4 2) e1
              have hsz : sizeBw (if decide (w0 &&& 0x40 ≠ 0) = true then 8 else if decide (w0.extractLsb' 7 3 &&& 1 = 1) = true then 0 else 16) =
                  some (decide (w0.extractLsb' 6 1 = 1)) := by
                rw [hbw]; cases decide (w0.extractLsb' 6 1 = 1) <;> simp [sizeBw] <;> split <;> simp
              simp only [meaningK, hsz, hwo, Bool.false_eq_true, if_false, hsm]
              split at h
              · rename_i he
                simp only [Option.some.injEq, Prod.mk.injEq] at h
                rw [← h.1]; simp [he]
              · rename_i he
                simp only [Option.some.injEq, Prod.mk.injEq] at h
                rw [← h.1]; simp [he]
    · -- two operands
      rename_i h2
      split at h
      · cases h
      · rename_i op hop
        have hn := op2_nibble hop
        obtain ⟨r, hr, hk, ht⟩ := findRow_two w0 op hn.symm
        have hkind := table_get_kind hk (table_core_names.1 op)
        have hbw : (decide (w0 &&& 0x40 ≠ 0)) = decide (w0.extractLsb' 6 1 = 1) := by
          have : (w0 &&& 0x40 ≠ 0) ↔ (w0.extractLsb' 6 1 = 1) := by constructor <;> intro hh <;> bv_decide
          exact decide_eq_decide.mpr this
        refine ⟨⟨r.instr, (if decide (w0 &&& 0x40 ≠ 0) = true then 8 else 16),
          [srcOperandOf addr (w0.extractLsb' 8 4) (w0.extractLsb' 4 2) e1,
           dstOperandOf addr (w0.extractLsb' 0 4) (decide (w0.extractLsb' 7 1 = 1))
             (srcText addr (w0.extractLsb' 8 4) (w0.extractLsb' 4 2) (decide (w0 &&& 0x40 ≠ 0)) none false e1).2
             (if (srcText addr (w0.extractLsb' 8 4) (w0.extractLsb' 4 2) (decide (w0 &&& 0x40 ≠ 0)) none false e1).2 = 0
              then e1 else e2)]⟩, ?_, ?_⟩
        · unfold reading; rw [hr]
          simp [ht, OP_NONE, OP_ONE_OPERAND, OP_ONE_OPERAND_W, OP_ONE_OPERAND_X, OP_TWO_OPERAND]
        · unfold meaning
          simp only [hkind]
          have hsm := srcOperandOf_meaning addr (decide (w0.extractLsb' 6 1 = 1)) (w0.extractLsb' 8 4) (w0.extractLsb' 4 2) e1
          have hsz : sizeBw (if decide (w0 &&& 0x40 ≠ 0) = true then 8 else 16) = some (decide (w0.extractLsb' 6 1 = 1)) := by
            rw [hbw]; cases decide (w0.extractLsb' 6 1 = 1) <;> simp [sizeBw]
          have hcount := srcText_count_eq addr (w0.extractLsb' 8 4) (w0.extractLsb' 4 2) (decide (w0 &&& 0x40 ≠ 0)) none false e1
          cases he : srcHasExt (w0.extractLsb' 8 4) (w0.extractLsb' 4 2) <;>
            cases had : decide (w0.extractLsb' 7 1 = 1) <;>
            simp only [he, had, Option.some.injEq, Prod.mk.injEq, Bool.false_eq_true, if_false, if_true] at h hsm hcount <;>
            obtain ⟨hi, _⟩ := h <;> subst hi <;>
            simp only [meaningK, hsz, hsm, hcount, if_true, if_false, Nat.reduceEqDiff]
          · rw [dstOperandOf_reg]
          · have := dstOperandOf_meaning addr (w0.extractLsb' 0 4) e1 0 (Or.inl rfl)
            simp only [if_true] at this
            rw [this]
          · rw [dstOperandOf_reg]
          · have := dstOperandOf_meaning addr (w0.extractLsb' 0 4) e2 2 (Or.inr rfl)
            simp only [Nat.reduceEqDiff, if_false] at this
            rw [this]
