/-
  MSP430 (16-bit core) part of properties C01 and C06: table obligations over the regenerated `table_msp430[]`
  and `aliases[]`, and the soundness of the encoder model against the architecture's decoder.
-/
import NakenVerif.Msp430.AsmProofs
set_option linter.unusedSimpArgs false
set_option linter.unusedVariables false
namespace NakenVerif.Msp430
open NakenVerif.Generated.Msp430Dis NakenVerif.Generated.Msp430Asm Arch Asm Spec

/-! ## table obligations (re-proved against the regenerated tables on every run) -/

def aliasOf (name : String) : Option Alias := aliases.find? (fun a => a.instr == name)

def op2Name : Op2 → String
  | .mov => "mov" | .add => "add" | .addc => "addc" | .subc => "subc" | .sub => "sub" | .cmp => "cmp"
  | .dadd => "dadd" | .bit => "bit" | .bic => "bic" | .bis => "bis" | .xor => "xor" | .and => "and"

/-- row type the C switch must see for a single-operand instruction -/
def op1Type : Op1 → Nat
  | .rrc | .rra | .push => OP_ONE_OPERAND
  | .swpb | .sxt => OP_ONE_OPERAND_W
  | .call => OP_ONE_OPERAND_X

/-- the alias row of `name` expands to `count` operands of `alt` with command `cmd` -/
def aliasIs (name : String) (count : Nat) (alt : String) (cmd : Int) : Bool :=
  match aliasOf name with
  | some a => a.operandCount == count && a.alt == alt && a.cmd == cmd && count != 0
  | none => false

/-- the first `VERSION_MSP430` row called `name` has this opcode column and row type -/
def rowIs (name : String) (opc : BitVec 16) (ty : Nat) : Bool :=
  match Asm.findRow name with
  | some r => r.opcode == opc && r.type == ty
  | none => false

/-- what the manual makes us expect of the tables for a mnemonic: whether it is expanded by `aliases[]` (and
    how), and the opcode column = the manual's encoding with all operand fields zero -/
def specRowOK (p : String × Kind) : Bool :=
  match p.2 with
  | .two op =>
    (if p.1 == "sbb" then aliasIs p.1 2 (op2Name op) CMD_SRC_DST else (aliasOf p.1).isNone && p.1 == op2Name op) &&
      rowIs (op2Name op) (twoWord op.nibble false 0 0 0 0) OP_TWO_OPERAND
  | .one op => (aliasOf p.1).isNone && rowIs p.1 (oneWord op.field false 0 0) (op1Type op)
  | .jump c => (aliasOf p.1).isNone && rowIs p.1 (jumpWord16 c.field 0) OP_JUMP
  | .reti => (aliasOf p.1).isNone && rowIs p.1 0x1300 OP_NONE
  | .emuSrc op n =>
    (match aliasOf p.1 with
     | some a => a.operandCount == 1 && a.alt == op2Name op && (BitVec.ofInt 32 a.cmd).truncate 16 == n &&
        a.cmd != CMD_SP_INC && a.cmd != CMD_PC && a.cmd != CMD_R3 && a.cmd != CMD_DST_DST && a.cmd != CMD_SRC_DST
     | none => false) && rowIs (op2Name op) (twoWord op.nibble false 0 0 0 0) OP_TWO_OPERAND
  | .emuDD op => aliasIs p.1 1 (op2Name op) CMD_DST_DST && rowIs (op2Name op) (twoWord op.nibble false 0 0 0 0) OP_TWO_OPERAND
  | .br => aliasIs p.1 1 "mov" CMD_PC && rowIs "mov" (twoWord Op2.mov.nibble false 0 0 0 0) OP_TWO_OPERAND
  | .pop => aliasIs p.1 1 "mov" CMD_SP_INC && rowIs "mov" (twoWord Op2.mov.nibble false 0 0 0 0) OP_TWO_OPERAND
  | .emu0 _ _ _ | .ret =>
    (match aliasOf p.1 with
     | some a => a.operandCount == 0 && Arch.decode 0 [a.opcode] == (meaningK p.2 0 []).map (·, 1)
     | none => false)

/-- **Table obligation.**  For every core mnemonic, alternative jump mnemonic and emulated instruction of the
    user's guide: `aliases[]` expands exactly the emulated ones, to the core instruction and constant the guide's
    table of emulated instructions gives; the `table_msp430[]` row that the `.msp430` loop stops at has the right
    row type and, as opcode column, the manual's encoding with all operand fields zero; the fixed opcode of a
    no-operand emulated instruction is decoded by the architecture as the instruction the guide defines. -/
theorem table_spec_rows : ∀ p ∈ specTable, specRowOK p = true := by decide +kernel

/-- the distinct `CMD_*` codes are distinct and none of them is a small constant -/
theorem table_cmd_codes : [CMD_SP_INC, CMD_PC, CMD_R3, CMD_DST_DST, CMD_SRC_DST].Nodup ∧
    ∀ c ∈ [CMD_SP_INC, CMD_PC, CMD_R3, CMD_DST_DST, CMD_SRC_DST], c > 2 := by decide

/-- every `VERSION_MSP430` row has one of the six row types the model's `rowAction` handles -/
theorem table_core_types : ∀ r ∈ table, r.version = VERSION_MSP430 →
    r.type = OP_NONE ∨ r.type = OP_ONE_OPERAND ∨ r.type = OP_ONE_OPERAND_W ∨ r.type = OP_ONE_OPERAND_X ∨
    r.type = OP_JUMP ∨ r.type = OP_TWO_OPERAND := by decide +kernel

/-! ## one `case` of the switch is sound -/

theorem sizeBw_bw {size : Nat} {bw : Bool} (h : sizeBw size = some bw) : bw = decide (size = 8) ∧ size ≠ 20 := by
  unfold sizeBw at h
  split at h
  · rename_i h8; simp only [Option.some.injEq] at h; subst h; subst h8; exact ⟨by decide, by decide⟩
  · rename_i h8
    split at h
    · rename_i h0; simp only [Option.some.injEq] at h; subst h
      exact ⟨by simp [h8], by omega⟩
    · cases h

theorem rowAction_two (ctx : Ctx) (r : Row) (op : Op2) (hr : r.type = OP_TWO_OPERAND)
    (ho : r.opcode = twoWord op.nibble false 0 0 0 0) (size : Nat) (bw : Bool) (hbw : sizeBw size = some bw)
    (o0 o1 : Operand) (ws : List (BitVec 16)) (s : Src) (d : Dst)
    (h : rowAction ctx r size [o0, o1] = .ok ws) (hs : srcMeaning bw o0 = some s) (hd : dstMeaning o1 = some d) :
    Arch.decode (ctx.address.truncate 16) ws = some (.two op bw s d, ws.length) := by
  obtain ⟨hb, _⟩ := sizeBw_bw hbw
  unfold rowAction at h
  simp only [hr, OP_TWO_OPERAND, OP_NONE, OP_ONE_OPERAND, OP_ONE_OPERAND_W, OP_ONE_OPERAND_X, OP_JUMP, reduceCtorEq,
    Nat.reduceEqDiff, if_false, or_self, List.length_cons, List.length_nil, ne_eq, not_true_eq_false, if_true,
    List.getD_cons_zero, List.getD_cons_succ, ← hb] at h
  split at h
  · cases h
  · rename_i p0 hp0
    split at h
    · cases h
    · rename_i p1 hp1
      simp only [Result.ok.injEq] at h
      subst h
      have e0 := src_sound ctx o0 size bw hb p0 s hp0 hs
      have e1 := dst_sound ctx o1 size p0.ext.isSome p1 d hp1 hd
      have := decode_two (ctx.address.truncate 16) op bw p0 p1 s d e0 e1
      have hw : r.opcode ||| bwBit bw ||| z16 p0.mode <<< 4 ||| z16 p1.mode <<< 7 ||| z16 p0.reg <<< 8 ||| z16 p1.reg =
          twoWord op.nibble bw p0.mode p1.mode p0.reg p1.reg := by
        rw [ho]; unfold twoWord z16 bwBit; generalize op.nibble = n; bv_decide
      rw [hw, this]
      simp only [List.length_cons, List.length_append]
      congr 2; omega

theorem rowAction_one (ctx : Ctx) (r : Row) (op : Op1) (hr : r.type = op1Type op)
    (ho : r.opcode = oneWord op.field false 0 0) (size : Nat) (bw : Bool) (hbw : sizeBw size = some bw)
    (hw : (op.wordOnly && bw) = false)
    (o0 : Operand) (ws : List (BitVec 16)) (s : Src)
    (h : rowAction ctx r size [o0] = .ok ws) (hs : srcMeaning bw o0 = some s) :
    Arch.decode (ctx.address.truncate 16) ws = some (.one op bw s, ws.length) := by
  obtain ⟨hb, _⟩ := sizeBw_bw hbw
  unfold rowAction at h
  have key : ∀ p0, processOperand ctx (operandToCg ctx o0 bw) size true false false = some p0 →
      ws = (r.opcode ||| bwBit bw ||| z16 p0.mode <<< 4 ||| z16 p0.reg) :: p0.ext.toList →
      Arch.decode (ctx.address.truncate 16) ws = some (.one op bw s, ws.length) := by
    intro p0 hp0 hws
    subst hws
    have e0 := src_sound ctx o0 size bw hb p0 s hp0 hs
    have := decode_one (ctx.address.truncate 16) op bw p0 s hw e0
    have hw' : r.opcode ||| bwBit bw ||| z16 p0.mode <<< 4 ||| z16 p0.reg = oneWord op.field bw p0.mode p0.reg := by
      rw [ho]; unfold oneWord z16 bwBit; generalize op.field = n; bv_decide
    rw [hw', this]
    simp only [List.length_cons]
    congr 2; omega
  cases op <;>
    simp only [hr, op1Type, OP_TWO_OPERAND, OP_NONE, OP_ONE_OPERAND, OP_ONE_OPERAND_W, OP_ONE_OPERAND_X, OP_JUMP,
      reduceCtorEq, Nat.reduceEqDiff, if_false, or_self, or_true, true_or, or_false, false_or, List.length_cons,
      List.length_nil, ne_eq, not_true_eq_false, if_true, List.getD_cons_zero, true_and, false_and, ← hb] at h <;>
    (repeat' split at h) <;> first | cases h; done | (simp only [Result.ok.injEq] at h; exact key _ (by assumption) h.symm)

theorem rowAction_jump (ctx : Ctx) (hp : ctx.pass1 = false) (ha : ctx.address &&& 1 = 0) (r : Row) (c : Cond)
    (hr : r.type = OP_JUMP) (ho : r.opcode = jumpWord16 c.field 0) (t : BitVec 32) (ws : List (BitVec 16))
    (h : rowAction ctx r 0 [.symbolic t] = .ok ws) :
    Arch.decode (ctx.address.truncate 16) ws = some (.jump c (t.truncate 16), ws.length) ∧
      fitsJump ctx.address t = true := by
  unfold rowAction at h
  simp only [hr, OP_TWO_OPERAND, OP_NONE, OP_ONE_OPERAND, OP_ONE_OPERAND_W, OP_ONE_OPERAND_X, OP_JUMP, reduceCtorEq,
    Nat.reduceEqDiff, if_false, or_self, List.length_cons, List.length_nil, ne_eq, not_true_eq_false, if_true,
    jumpWord, hp, Bool.false_eq_true] at h
  split at h
  · cases h
  · rename_i h1
    split at h
    · cases h
    · rename_i h2
      simp only [Result.ok.injEq] at h
      subst h
      have h2' : ((t - (ctx.address + 2)).slt (-1024) || (1023 : BitVec 32).slt (t - (ctx.address + 2))) = false := by
        simpa using h2
      have := decode_jump ctx.address t c ha h1 h2'
      have hw : r.opcode ||| BitVec.truncate 16 ((t - (ctx.address + 2)).sshiftRight 1) &&& 0x03ff =
          jumpWord16 c.field (t - (ctx.address + 2)) := by
        rw [ho]; unfold jumpWord16 z16; generalize c.field = f; bv_decide
      rw [hw, this]
      refine ⟨rfl, ?_⟩
      unfold fitsJump
      simp only [Bool.or_eq_false_iff] at h2'
      obtain ⟨a, b⟩ := h2'
      generalize ctx.address = addr at *
      simp only [Bool.and_eq_true, decide_eq_true_eq]
      refine ⟨⟨?_, ?_⟩, ?_⟩ <;> bv_decide

theorem rowAction_none (ctx : Ctx) (r : Row) (hr : r.type = OP_NONE) (size : Nat) (ws : List (BitVec 16))
    (h : rowAction ctx r size [] = .ok ws) : ws = [r.opcode] := by
  unfold rowAction at h
  simp only [hr, if_true, List.length_nil, ne_eq, not_true_eq_false, if_false, Result.ok.injEq] at h
  exact h.symm

/-! ## from the statement to the row -/

theorem kindOf_mem {m : String} {k : Kind} (h : kindOf m = some k) : (m, k) ∈ specTable := by
  unfold kindOf at h
  obtain ⟨p, hp, rfl⟩ := Option.map_eq_some_iff.mp h
  have h1 := List.find?_some hp
  have h2 := List.mem_of_find?_eq_some hp
  have : p.1 = m := by simpa using h1
  rw [← this]; exact h2

theorem rowIs_spec {name : String} {opc : BitVec 16} {ty : Nat} (h : rowIs name opc ty = true) :
    ∃ r, Asm.findRow name = some r ∧ r.opcode = opc ∧ r.type = ty := by
  unfold rowIs at h
  split at h
  · rename_i r hr
    simp only [Bool.and_eq_true, beq_iff_eq] at h
    exact ⟨r, hr, h.1, h.2⟩
  · cases h

theorem aliasIs_spec {name : String} {c : Nat} {alt : String} {cmd : Int} (h : aliasIs name c alt cmd = true) :
    ∃ a, aliasOf name = some a ∧ a.operandCount = c ∧ a.alt = alt ∧ a.cmd = cmd ∧ c ≠ 0 := by
  unfold aliasIs at h
  split at h
  · rename_i a ha
    simp only [Bool.and_eq_true, beq_iff_eq, bne_iff_ne, ne_eq] at h
    exact ⟨a, ha, h.1.1.1, h.1.1.2, h.1.2, h.2⟩
  · cases h

/-- the statement after the `-optimize` rewrite of `operands[0]` -/
def optimized (ctx : Ctx) (s : Stmt) : Stmt := { s with ops := optimizeOps ctx s.ops }

theorem optimizeOps_length (ctx : Ctx) (ops : List Operand) : (optimizeOps ctx ops).length = ops.length := by
  unfold optimizeOps
  split
  · repeat' split
    all_goals simp
  · rfl

theorem encode_eq (ctx : Ctx) (s : Stmt) (hl : (optimizeOps ctx s.ops).length ≤ 3) :
    encode ctx s =
      match aliasStep s.mnemonic (optimizeOps ctx s.ops) with
      | .done r => r
      | .cont name ops =>
        match Asm.findRow name with
        | none => .err
        | some r => if s.size = 20 then .err else rowAction ctx r s.size ops := by
  unfold encode
  rw [optimizeOps_length] at hl
  simp only [show ¬ s.ops.length > 3 by omega, if_false]
  rfl

theorem aliasStep_none {name : String} (ops : List Operand) (h : aliasOf name = none) :
    aliasStep name ops = .cont name ops := by
  unfold aliasStep; unfold aliasOf at h; rw [h]

/-! inversion of `meaningK` -/

theorem meaningK_two {op : Op2} {size : Nat} {ops : List Operand} {i : Instr} (h : meaningK (.two op) size ops = some i) :
    ∃ bw a b s d, sizeBw size = some bw ∧ ops = [a, b] ∧ srcMeaning bw a = some s ∧ dstMeaning b = some d ∧
      i = .two op bw s d := by
  cases hbw : sizeBw size with
  | none => simp [meaningK, hbw] at h
  | some bw =>
    match ops, h with
    | [], h => simp [meaningK, hbw] at h
    | [_], h => simp [meaningK, hbw] at h
    | _ :: _ :: _ :: _, h => simp [meaningK, hbw] at h
    | [a, b], h =>
      simp only [meaningK, hbw] at h
      split at h
      · rename_i s d hs hd
        simp only [Option.some.injEq] at h
        exact ⟨bw, a, b, s, d, rfl, rfl, hs, hd, h.symm⟩
      · cases h

theorem meaningK_one {op : Op1} {size : Nat} {ops : List Operand} {i : Instr} (h : meaningK (.one op) size ops = some i) :
    ∃ bw a s, sizeBw size = some bw ∧ ops = [a] ∧ (op.wordOnly && bw) = false ∧ srcMeaning bw a = some s ∧
      i = .one op bw s := by
  cases hbw : sizeBw size with
  | none => simp [meaningK, hbw] at h
  | some bw =>
    match ops, h with
    | [], h => simp [meaningK, hbw] at h
    | _ :: _ :: _, h => simp [meaningK, hbw] at h
    | [a], h =>
      simp only [meaningK, hbw] at h
      split at h
      · cases h
      · rename_i hw
        split at h
        · rename_i s hs
          simp only [Option.some.injEq] at h
          exact ⟨bw, a, s, rfl, rfl, by simpa using hw, hs, h.symm⟩
        · cases h

theorem meaningK_jump {c : Cond} {size : Nat} {ops : List Operand} {i : Instr} (h : meaningK (.jump c) size ops = some i) :
    ∃ t, size = 0 ∧ ops = [.symbolic t] ∧ i = .jump c (t.truncate 16) := by
  cases hbw : sizeBw size with
  | none => simp [meaningK, hbw] at h
  | some bw =>
    match ops, h with
    | [], h => simp [meaningK, hbw] at h
    | _ :: _ :: _, h => simp [meaningK, hbw] at h
    | [a], h =>
      cases a <;> simp only [meaningK, hbw] at h <;> try (cases h; done)
      rename_i t
      split at h
      · rename_i h0; simp only [Option.some.injEq] at h; exact ⟨t, h0, rfl, h.symm⟩
      · cases h

theorem meaningK_reti {size : Nat} {ops : List Operand} {i : Instr} (h : meaningK .reti size ops = some i) :
    size = 0 ∧ ops = [] ∧ i = .reti := by
  cases hbw : sizeBw size with
  | none => simp [meaningK, hbw] at h
  | some bw =>
    match ops, h with
    | _ :: _, h => simp [meaningK, hbw] at h
    | [], h =>
      simp only [meaningK, hbw] at h
      split at h
      · rename_i h0; simp only [Option.some.injEq] at h; exact ⟨h0, rfl, h.symm⟩
      · cases h

/-- the four one-operand emulated kinds: what the expansion `ops'` means -/
theorem meaningK_emu1 {k : Kind} {size : Nat} {ops : List Operand} {i : Instr}
    (hk : (∃ op n, k = .emuSrc op n) ∨ (∃ op, k = .emuDD op) ∨ k = .br ∨ k = .pop)
    (h : meaningK k size ops = some i) : ∃ bw a, sizeBw size = some bw ∧ ops = [a] := by
  cases hbw : sizeBw size with
  | none => simp [meaningK, hbw] at h
  | some bw =>
    match ops, h with
    | [], h => rcases hk with ⟨_, _, rfl⟩ | ⟨_, rfl⟩ | rfl | rfl <;> simp [meaningK, hbw] at h
    | _ :: _ :: _, h => rcases hk with ⟨_, _, rfl⟩ | ⟨_, rfl⟩ | rfl | rfl <;> simp [meaningK, hbw] at h
    | [a], h => exact ⟨bw, a, rfl, rfl⟩

/-! ## C01 (iii): the emitted words are the encoding the user's guide defines -/

/-- a table row of type TWO_OPERAND reached with the operands `[a, b]` -/
theorem two_via_row (ctx : Ctx) (name : String) (op : Op2) (size : Nat) (bw : Bool) (hbw : sizeBw size = some bw)
    (hrow : rowIs name (twoWord op.nibble false 0 0 0 0) OP_TWO_OPERAND = true) (a b : Operand) (ws : List (BitVec 16))
    (s : Src) (d : Dst) (hs : srcMeaning bw a = some s) (hd : dstMeaning b = some d)
    (h : (match Asm.findRow name with
          | none => Result.err
          | some r => if size = 20 then Result.err else rowAction ctx r size [a, b]) = .ok ws) :
    Arch.decode (ctx.address.truncate 16) ws = some (.two op bw s d, ws.length) := by
  obtain ⟨r, hr, ho, ht⟩ := rowIs_spec hrow
  rw [hr] at h
  simp only [(sizeBw_bw hbw).2, if_false] at h
  exact rowAction_two ctx r op ht ho size bw hbw a b ws s d h hs hd

theorem decode_addr_indep (a : BitVec 16) (w : BitVec 16) (h : ¬ (w &&& 0xe000 = 0x2000)) :
    Arch.decode a [w] = Arch.decode 0 [w] := by
  unfold Arch.decode
  simp only [h, if_false]
  repeat' split
  all_goals first | rfl | simp_all

theorem aliasStep_expand {name : String} {a : Alias} (ops : List Operand) (h : aliasOf name = some a)
    (hc : a.operandCount = ops.length) (h0 : a.operandCount ≠ 0) :
    aliasStep name ops = .cont a.alt
      (if a.cmd = CMD_SP_INC then [.indirectInc 1, ops.getD 0 .none]
       else if a.cmd = CMD_PC then [ops.getD 0 .none, .reg 0]
       else if a.cmd = CMD_R3 then [.imm 0, .reg 3]
       else if a.cmd = CMD_DST_DST then [ops.getD 0 .none, ops.getD 0 .none]
       else if a.cmd = CMD_SRC_DST then [ops.getD 0 .none, ops.getD 1 .none]
       else [.imm (BitVec.ofInt 32 a.cmd), ops.getD 0 .none]) := by
  unfold aliasStep; unfold aliasOf at h; rw [h]
  have h0' : ops.length ≠ 0 := hc ▸ h0
  simp only [hc, ne_eq, not_true_eq_false, if_false, h0']
