/-
  The MSP430 16-bit core instruction formats, written from the family user's guides (SLAU049 / SLAU144,
  chapter 3 "RISC 16-Bit CPU": figure "Double-Operand Instruction Format" (format I), "Single-Operand Instruction
  Format" (format II), "Jump Instruction Format" (format III), table "Source/Destination Operand Addressing
  Modes" and table "Values of Constant Generators CG1, CG2").  Nothing here is derived from /repo.

  `decode` is the architecture's own reading of a word sequence: which operation, byte/word, which source and
  destination operand (after the constant generators have been applied), and how many words the instruction
  occupies.  Two encodings that the CPU cannot tell apart (`#1` through R3/As=01 or through @PC+ with the word
  0x0001) decode to the same `Instr`, so encoding freedom is invisible here.
-/
namespace NakenVerif.Msp430.Arch

/-- double-operand operations: opcode nibble 4 … 15 -/
inductive Op2 | mov | add | addc | subc | sub | cmp | dadd | bit | bic | bis | xor | and
  deriving DecidableEq, Repr, Inhabited

/-- single-operand operations: bits 9..7 = 0 … 5 (6 is RETI, 7 is not an instruction) -/
inductive Op1 | rrc | swpb | rra | sxt | push | call
  deriving DecidableEq, Repr, Inhabited

/-- jump conditions: bits 12..10 -/
inductive Cond | jne | jeq | jnc | jc | jn | jge | jl | jmp
  deriving DecidableEq, Repr, Inhabited

/-- a source operand as the CPU sees it -/
inductive Src
  | reg (r : BitVec 4)                      -- Rn (register mode); R3 never appears here: it reads as the constant 0
  | indexed (r : BitVec 4) (x : BitVec 16)  -- X(Rn), n ∉ {0, 2, 3}: the operand is at Rn + X
  | symbolic (target : BitVec 16)           -- ADDR = X(PC): the operand is at (address of the word X) + X
  | absolute (a : BitVec 16)                -- &ADDR = X(SR) with SR read as 0
  | indirect (r : BitVec 4)                 -- @Rn
  | indirectInc (r : BitVec 4)              -- @Rn+
  | imm (v : BitVec 16)                     -- #N: @PC+ followed by the word N, or a constant generator
                                            -- (for a byte instruction only the low byte is the operand)
  deriving DecidableEq, Repr, Inhabited

inductive Dst
  | reg (r : BitVec 4)                      -- Rm
  | indexed (r : BitVec 4) (x : BitVec 16)  -- X(Rm)
  | symbolic (target : BitVec 16)           -- ADDR
  | absolute (a : BitVec 16)                -- &ADDR
  deriving DecidableEq, Repr, Inhabited

inductive Instr
  | two (op : Op2) (bw : Bool) (s : Src) (d : Dst)
  | one (op : Op1) (bw : Bool) (s : Src)
  | reti
  | jump (c : Cond) (target : BitVec 16)    -- PC ← target = address of the jump + 2 + 2·sext(offset field)
  deriving DecidableEq, Repr, Inhabited

def op2OfNibble (n : BitVec 4) : Option Op2 :=
  if n = 4 then some .mov else if n = 5 then some .add else if n = 6 then some .addc else if n = 7 then some .subc
  else if n = 8 then some .sub else if n = 9 then some .cmp else if n = 10 then some .dadd
  else if n = 11 then some .bit else if n = 12 then some .bic else if n = 13 then some .bis
  else if n = 14 then some .xor else if n = 15 then some .and else none

def Op2.nibble : Op2 → BitVec 4
  | .mov => 4 | .add => 5 | .addc => 6 | .subc => 7 | .sub => 8 | .cmp => 9 | .dadd => 10 | .bit => 11
  | .bic => 12 | .bis => 13 | .xor => 14 | .and => 15

def op1OfField (n : BitVec 3) : Option Op1 :=
  if n = 0 then some .rrc else if n = 1 then some .swpb else if n = 2 then some .rra else if n = 3 then some .sxt
  else if n = 4 then some .push else if n = 5 then some .call else none

def Op1.field : Op1 → BitVec 3
  | .rrc => 0 | .swpb => 1 | .rra => 2 | .sxt => 3 | .push => 4 | .call => 5

/-- SWPB, SXT and CALL have no byte form (bit 6 must be 0) -/
def Op1.wordOnly : Op1 → Bool
  | .swpb | .sxt | .call => true
  | _ => false

def condOfField (n : BitVec 3) : Cond :=
  if n = 0 then .jne else if n = 1 then .jeq else if n = 2 then .jnc else if n = 3 then .jc
  else if n = 4 then .jn else if n = 5 then .jge else if n = 6 then .jl else .jmp

def Cond.field : Cond → BitVec 3
  | .jne => 0 | .jeq => 1 | .jnc => 2 | .jc => 3 | .jn => 4 | .jge => 5 | .jl => 6 | .jmp => 7

/-- a source operand is followed by an extension word in indexed/symbolic/absolute mode (As = 01, except on R3
    where As = 01 is the constant 1) and in immediate mode (As = 11 on PC) -/
def srcHasExt (reg : BitVec 4) (as : BitVec 2) : Bool :=
  (as = 1 && reg ≠ 3) || (as = 3 && reg = 0)

/-- a byte instruction uses the low byte of an immediate / generated constant -/
def immOf (bw : Bool) (v : BitVec 16) : BitVec 16 := if bw then v &&& 0xff else v

/-- addressing-mode table with the constant generators CG1 (R2) and CG2 (R3) applied; `ea` is the address of the
    extension word `ext` -/
def srcOperand (bw : Bool) (reg : BitVec 4) (as : BitVec 2) (ext ea : BitVec 16) : Src :=
  if reg = 3 then
    .imm (immOf bw (if as = 0 then 0 else if as = 1 then 1 else if as = 2 then 2 else 0xffff))
  else if reg = 2 ∧ as = 2 then .imm (immOf bw 4)
  else if reg = 2 ∧ as = 3 then .imm (immOf bw 8)
  else if as = 0 then .reg reg
  else if as = 1 then (if reg = 0 then .symbolic (ea + ext) else if reg = 2 then .absolute ext else .indexed reg ext)
  else if as = 2 then .indirect reg
  else if reg = 0 then .imm (immOf bw ext)
  else .indirectInc reg

/-- destination: Ad = 0 register mode, Ad = 1 indexed / symbolic / absolute, always with an extension word -/
def dstOperand (reg : BitVec 4) (ad : Bool) (ext ea : BitVec 16) : Dst :=
  if ad then (if reg = 0 then .symbolic (ea + ext) else if reg = 2 then .absolute ext else .indexed reg ext)
  else .reg reg

/-- the jump target of format III: address of the jump + 2 + 2·sext(offset), modulo 2^16 -/
def jumpTarget (addr : BitVec 16) (off : BitVec 10) : BitVec 16 :=
  addr + 2 + ((off.signExtend 16) <<< 1)

/-- The architecture's decoder: the instruction at the head of `ws` (which lies at address `addr`) and the
    number of words it occupies; `none` when the head is not an instruction of the 16-bit core or extension words
    are missing. -/
def decode (addr : BitVec 16) (ws : List (BitVec 16)) : Option (Instr × Nat) :=
  match ws with
  | [] => none
  | w :: rest =>
    if w &&& 0xe000 = 0x2000 then
      -- format III: 001 C C C offset(10)
      some (.jump (condOfField (w.extractLsb' 10 3)) (jumpTarget addr (w.extractLsb' 0 10)), 1)
    else if w &&& 0xfc00 = 0x1000 then
      -- format II: 000100 opcode(3) B/W As(2) reg(4)
      if w = 0x1300 then some (.reti, 1)
      else
        match op1OfField (w.extractLsb' 7 3) with
        | none => none
        | some op =>
          let bw : Bool := w.extractLsb' 6 1 = 1
          let as : BitVec 2 := w.extractLsb' 4 2
          let reg : BitVec 4 := w.extractLsb' 0 4
          if op.wordOnly && bw then none
          else if srcHasExt reg as then
            match rest with
            | e :: _ => some (.one op bw (srcOperand bw reg as e (addr + 2)), 2)
            | [] => none
          else some (.one op bw (srcOperand bw reg as 0 0), 1)
    else
      -- format I: opcode(4) S-reg(4) Ad B/W As(2) D-reg(4)
      match op2OfNibble (w.extractLsb' 12 4) with
      | none => none
      | some op =>
        let sreg : BitVec 4 := w.extractLsb' 8 4
        let ad : Bool := w.extractLsb' 7 1 = 1
        let bw : Bool := w.extractLsb' 6 1 = 1
        let as : BitVec 2 := w.extractLsb' 4 2
        let dreg : BitVec 4 := w.extractLsb' 0 4
        match srcHasExt sreg as, ad, rest with
        | false, false, _ => some (.two op bw (srcOperand bw sreg as 0 0) (.reg dreg), 1)
        | true, false, e :: _ => some (.two op bw (srcOperand bw sreg as e (addr + 2)) (.reg dreg), 2)
        | false, true, e :: _ => some (.two op bw (srcOperand bw sreg as 0 0) (dstOperand dreg true e (addr + 2)), 2)
        | true, true, e1 :: e2 :: _ =>
          some (.two op bw (srcOperand bw sreg as e1 (addr + 2)) (dstOperand dreg true e2 (addr + 4)), 3)
        | _, _, _ => none

/-- number of words of the instruction that starts with `w` (depends on the first word only) -/
def words (w : BitVec 16) : Nat :=
  if w &&& 0xe000 = 0x2000 then 1
  else if w &&& 0xfc00 = 0x1000 then
    (if w.extractLsb' 7 3 = 6 ∨ w.extractLsb' 7 3 = 7 then 1
     else if srcHasExt (w.extractLsb' 0 4) (w.extractLsb' 4 2) then 2 else 1)
  else 1 + (if srcHasExt (w.extractLsb' 8 4) (w.extractLsb' 4 2) then 1 else 0) +
    (if w.extractLsb' 7 1 = 1 then 1 else 0)

example : decode 0x1000 [0x4035, 0x1234] = some (.two .mov false (.imm 0x1234) (.reg 5), 2) := by decide
example : decode 0x1000 [0x4315] = some (.two .mov false (.imm 1) (.reg 5), 1) := by decide
example : decode 0x1000 [0x4035, 0x0001] = some (.two .mov false (.imm 1) (.reg 5), 2) := by decide
example : decode 0x1000 [0x43f2, 0x0200] = some (.two .mov true (.imm 0xff) (.absolute 0x0200), 2) := by decide
example : decode 0x1000 [0x1300] = some (.reti, 1) := by decide
example : decode 0x1000 [0x3fff] = some (.jump .jmp 0x1000, 1) := by decide
example : decode 0x1000 [0x4090, 0x0232, 0x0232] = some (.two .mov false (.symbolic 0x1234) (.symbolic 0x1236), 3) := by decide

end NakenVerif.Msp430.Arch
