/-
  The MSP430 (16-bit core) instruction step as the architecture defines it, written from the
  family user's guides (MSP430x1xx SLAU049 / MSP430x2xx SLAU144, chapter 3 "CPU"; transcription
  notes DESIGN.md A.3) -- NOT from the simulator.

  State.  Sixteen 16-bit registers (the same 256-bit vector the simulator model uses, lane i =
  Ri) and the 64 KiB byte-addressed memory.  The memory is embedded in the simulator's 32-bit
  address space by zero extension of the 16-bit address; a word lives at an even address a in the
  bytes a (low) and a+1 (high), and for even a the successor does not wrap, so `read16`/`write16`
  of the memory model are used at `zext a`.

  R3 (constant generator 2) has no architecturally visible content: every read of R3 yields the
  constant selected by As (Table 3-2).  The state keeps a storage lane for it that no instruction
  can read, and a register-mode write to R3 goes there; this is unobservable.

  `Defined` lists what the guides leave undefined; outside it `step` is an arbitrary total function.
-/
import NakenVerif.Msp430.SimImpl

namespace NakenVerif.Msp430.SimArch
open NakenVerif.Msp430.Sim

structure ArchState where
  regs : Regs
  mem : Mem

def PC : BitVec 4 := 0
def SP : BitVec 4 := 1
def SR : BitVec 4 := 2
def CG : BitVec 4 := 3

/-- byte at a 16-bit address -/
def rd8 (m : Mem) (a : BitVec 16) : BitVec 8 := read8 m (a.zeroExtend 32)
/-- word at an (even) 16-bit address, little endian -/
def rd16 (m : Mem) (a : BitVec 16) : BitVec 16 := read16 m (a.zeroExtend 32)
/-- operand of the instruction's size; a byte is zero extended -/
def rd (m : Mem) (a : BitVec 16) (bw : Bool) : BitVec 16 :=
  if bw then (rd8 m a).zeroExtend 16 else rd16 m a
def wr (m : Mem) (a : BitVec 16) (bw : Bool) (v : BitVec 16) : Mem :=
  if bw then write8 m (a.zeroExtend 32) (v.truncate 8) else write16 m (a.zeroExtend 32) v

/-- low byte for byte instructions -/
def sized (bw : Bool) (v : BitVec 16) : BitVec 16 := if bw then v &&& 0x00ff else v
/-- sign bit of an operand of the instruction's size -/
def neg (bw : Bool) (v : BitVec 16) : Bool := if bw then v &&& 0x0080 ≠ 0 else v &&& 0x8000 ≠ 0

/-! ### Addressing modes (SLAU144 3.3, Tables 3-2 and 3-3) -/

/-- An evaluated operand: its value, where it lives, and the register file after the extension
    word was fetched and the auto-increment was applied. -/
structure Operand where
  val : BitVec 16
  isReg : Bool          -- register mode
  isMem : Bool          -- indexed, symbolic, absolute, indirect, indirect auto-increment
  ea : BitVec 16        -- address when `isMem`
  regs : Regs

/-- Source operand `As`/`Rsrc` (seven modes + the constant generators R2/R3). -/
def source (regs : Regs) (m : Mem) (r : BitVec 4) (as : BitVec 2) (bw : Bool) : Operand :=
  let pc := getReg regs PC
  if r = CG then          -- R3: constants 0, +1, +2, -1
    { val := sized bw (if as = 0 then 0 else if as = 1 then 1 else if as = 2 then 2 else 0xffff),
      isReg := as = 0, isMem := false, ea := 0, regs := regs }
  else if r = SR ∧ as = 2 then { val := 4, isReg := false, isMem := false, ea := 0, regs := regs }
  else if r = SR ∧ as = 3 then { val := 8, isReg := false, isMem := false, ea := 0, regs := regs }
  else if as = 0 then     -- register mode
    { val := sized bw (getReg regs r), isReg := true, isMem := false, ea := 0, regs := regs }
  else if r = SR then     -- (as = 1) absolute &ADDR: the extension word is the address (R2 reads as 0)
    let ea := rd16 m pc
    { val := rd m ea bw, isReg := false, isMem := true, ea := ea, regs := setReg regs PC (pc + 2) }
  else if as = 1 then     -- indexed X(Rn); symbolic ADDR is X(PC) with PC = address of the extension word
    let ea := getReg regs r + rd16 m pc
    { val := rd m ea bw, isReg := false, isMem := true, ea := ea, regs := setReg regs PC (pc + 2) }
  else if as = 2 then     -- indirect register @Rn
    let ea := getReg regs r
    { val := rd m ea bw, isReg := false, isMem := true, ea := ea, regs := regs }
  else if r = PC then     -- immediate #N = @PC+ : the word after the instruction word
    { val := sized bw (rd16 m pc), isReg := false, isMem := false, ea := pc, regs := setReg regs PC (pc + 2) }
  else                    -- indirect auto-increment @Rn+: +1 for .B, +2 for .W, always +2 for SP
    let ea := getReg regs r
    { val := rd m ea bw, isReg := false, isMem := true, ea := ea,
      regs := setReg regs r (ea + (if bw ∧ r ≠ SP then 1 else 2)) }

/-- Destination `Ad`/`Rdst` (four modes): register, or indexed / symbolic / absolute. -/
def dest (regs : Regs) (m : Mem) (r : BitVec 4) (ad : Bool) : Operand :=
  let pc := getReg regs PC
  if ¬ ad then { val := 0, isReg := true, isMem := false, ea := 0, regs := regs }
  else if r = SR then     -- absolute &ADDR
    { val := 0, isReg := false, isMem := true, ea := rd16 m pc, regs := setReg regs PC (pc + 2) }
  else                    -- indexed X(Rn) / symbolic
    { val := 0, isReg := false, isMem := true, ea := getReg regs r + rd16 m pc, regs := setReg regs PC (pc + 2) }

/-- current content of a destination (R3 reads as the constant 0) -/
def destValue (d : Operand) (m : Mem) (r : BitVec 4) (bw : Bool) : BitVec 16 :=
  if d.isReg then (if r = CG then 0 else sized bw (getReg d.regs r)) else rd m d.ea bw

/-- write-back; a byte written to a register clears the register's high byte -/
def writeBack (d : Operand) (m : Mem) (r : BitVec 4) (bw : Bool) (v : BitVec 16) : ArchState :=
  if d.isReg then { regs := setReg d.regs r (sized bw v), mem := m }
  else { regs := d.regs, mem := wr m d.ea bw v }

/-! ### Status bits (SR: C = bit 0, Z = bit 1, N = bit 2, V = bit 8) -/

def flagC (sr : BitVec 16) : Bool := sr &&& 0x0001 ≠ 0
def flagZ (sr : BitVec 16) : Bool := sr &&& 0x0002 ≠ 0
def flagN (sr : BitVec 16) : Bool := sr &&& 0x0004 ≠ 0
def flagV (sr : BitVec 16) : Bool := sr &&& 0x0100 ≠ 0

def bit (b : Bool) (k : Nat) : BitVec 16 := if b then (1#16) <<< k else 0

def withNZC (sr : BitVec 16) (n z c : Bool) : BitVec 16 :=
  (sr &&& 0xfff8) ||| bit c 0 ||| bit z 1 ||| bit n 2
def withNZCV (sr : BitVec 16) (n z c v : Bool) : BitVec 16 :=
  (sr &&& 0xfef8) ||| bit c 0 ||| bit z 1 ||| bit n 2 ||| bit v 8

/-! ### Double-operand instructions (format I) -/

/-- binary sum of one BCD digit pair and the carry in (0..19) -/
def bcdSum (a b : BitVec 4) (c : Bool) : BitVec 5 := a.zeroExtend 5 + b.zeroExtend 5 + (if c then 1 else 0)
/-- decimal carry out of a digit position -/
def bcdCarry (a b : BitVec 4) (c : Bool) : Bool := bcdSum a b c ≥ 10
/-- decimal digit of a digit position -/
def bcdDigit (a b : BitVec 4) (c : Bool) : BitVec 4 :=
  if bcdSum a b c ≥ 10 then (bcdSum a b c - 10).truncate 4 else (bcdSum a b c).truncate 4

def nib (v : BitVec 16) (k : Nat) : BitVec 4 := v.extractLsb' (4 * k) 4

/-- carry into digit position k (k = 0: the C bit) of the decimal sum a + b + c -/
def bcdCarryIn (a b : BitVec 16) (c : Bool) : Nat → Bool
  | 0 => c
  | k + 1 => bcdCarry (nib a k) (nib b k) (bcdCarryIn a b c k)

/-- decimal sum of two 4-digit BCD numbers and a carry -/
def bcdAdd16 (a b : BitVec 16) (c : Bool) : BitVec 16 :=
  bcdDigit (nib a 3) (nib b 3) (bcdCarryIn a b c 3) ++ bcdDigit (nib a 2) (nib b 2) (bcdCarryIn a b c 2) ++
  bcdDigit (nib a 1) (nib b 1) (bcdCarryIn a b c 1) ++ bcdDigit (nib a 0) (nib b 0) (bcdCarryIn a b c 0)

/-- decimal sum of two 2-digit BCD numbers (low bytes) and a carry, zero extended -/
def bcdAdd8 (a b : BitVec 16) (c : Bool) : BitVec 16 :=
  (bcdDigit (nib a 1) (nib b 1) (bcdCarryIn a b c 1) ++ bcdDigit (nib a 0) (nib b 0) (bcdCarryIn a b c 0)).zeroExtend 16

structure Alu where
  res : BitVec 16       -- result of the instruction's size (zero extended)
  sr : BitVec 16        -- status register afterwards
  store : Bool          -- the result is written to the destination

/-- carry out and result of `dst + src + c` at the instruction's size -/
def addSized (bw : Bool) (dst src : BitVec 16) (c : Bool) : BitVec 16 × Bool :=
  let full : BitVec 17 := dst.zeroExtend 17 + src.zeroExtend 17 + (if c then 1 else 0)
  if bw then (full.truncate 16 &&& 0x00ff, full &&& 0x100 ≠ 0) else (full.truncate 16, full &&& 0x10000 ≠ 0)

/-- The twelve double-operand operations, opcode field 4..15 (SLAU144 3.4.6, Table 3-11).
    `src`, `dst` are operands of the instruction's size, zero extended. -/
def alu (op : BitVec 4) (bw : Bool) (src dst sr : BitVec 16) : Alu :=
  let z (r : BitVec 16) : Bool := r = 0
  if op = 4 then { res := src, sr := sr, store := true }                                  -- MOV
  else if op = 5 ∨ op = 6 then                                                            -- ADD, ADDC
    let q := addSized bw dst src (op = 6 ∧ flagC sr)
    let r := q.1
    let c := q.2
    -- V: operands of equal sign, result of the other sign
    let v := (neg bw dst = neg bw src) ∧ (neg bw r ≠ neg bw dst)
    { res := r, sr := withNZCV sr (neg bw r) (z r) c v, store := true }
  else if op = 7 ∨ op = 8 ∨ op = 9 then                                                   -- SUBC, SUB, CMP
    -- dst + .not.src + 1 (SUBC: + C); C = carry of that sum
    let q := addSized bw dst (sized bw (~~~ src)) (if op = 7 then flagC sr else true)
    let r := q.1
    let c := q.2
    -- V: positive - negative = negative, or negative - positive = positive
    let v := (¬ neg bw dst ∧ neg bw src ∧ neg bw r) ∨ (neg bw dst ∧ ¬ neg bw src ∧ ¬ neg bw r)
    { res := r, sr := withNZCV sr (neg bw r) (z r) c v, store := op ≠ 9 }
  else if op = 10 then                                                                    -- DADD
    let r : BitVec 16 := if bw then bcdAdd8 src dst (flagC sr) else bcdAdd16 src dst (flagC sr)
    -- C: decimal carry out of the most significant digit (result > 99 / > 9999)
    let c : Bool := if bw then bcdCarryIn src dst (flagC sr) 2 else bcdCarryIn src dst (flagC sr) 4
    -- V is undefined after DADD (SLAU144 DADD "V: Undefined"); it is left as it was
    { res := r, sr := withNZC sr (neg bw r) (z r) c, store := true }
  else if op = 11 ∨ op = 15 then                                                          -- BIT, AND
    let r := src &&& dst
    { res := r, sr := withNZCV sr (neg bw r) (z r) (¬ z r) false, store := op = 15 }
  else if op = 12 then { res := dst &&& sized bw (~~~ src), sr := sr, store := true }      -- BIC
  else if op = 13 then { res := dst ||| src, sr := sr, store := true }                     -- BIS
  else                                                                                    -- XOR
    let r := src ^^^ dst
    { res := r, sr := withNZCV sr (neg bw r) (z r) (¬ z r) (neg bw src ∧ neg bw dst), store := true }

/-- does the operation write the status bits? -/
def setsFlags (op : BitVec 4) : Bool := ¬ (op = 4 ∨ op = 12 ∨ op = 13)

/-- A double-operand instruction with decoded fields: evaluate the source, then the destination
    address, compute, write back, set the status bits. -/
def execI (regs : Regs) (m : Mem) (op sreg dreg : BitVec 4) (as : BitVec 2) (ad bw : Bool) : ArchState :=
  let s := source regs m sreg as bw
  let d := dest s.regs m dreg ad
  let dv := if op = 4 then 0 else destValue d m dreg bw
  let a := alu op bw s.val dv (getReg d.regs SR)
  let st := if a.store then writeBack d m dreg bw a.res else { regs := d.regs, mem := m }
  if setsFlags op then { st with regs := setReg st.regs SR a.sr } else st

/-- Format I word: opcode 15..12, S-reg 11..8, Ad 7, B/W 6, As 5..4, D-reg 3..0 (Figure 3-9) -/
def formatI (regs : Regs) (m : Mem) (w : BitVec 16) : ArchState :=
  execI regs m (w.extractLsb' 12 4) (w.extractLsb' 8 4) (w.extractLsb' 0 4) (w.extractLsb' 4 2)
    (w.extractLsb' 7 1 = 1) (w.extractLsb' 6 1 = 1)

/-! ### Single-operand instructions (format II) and RETI -/

def execII (regs : Regs) (m : Mem) (op : BitVec 3) (r : BitVec 4) (as : BitVec 2) (bw : Bool) : ArchState :=
  let sp := getReg regs SP
  if op = 6 then          -- RETI: TOS -> SR, SP + 2 -> SP, TOS -> PC, SP + 2 -> SP
    let regs := setReg regs SR (rd16 m sp)
    let regs := setReg regs PC (rd16 m (sp + 2))
    { regs := setReg regs SP (sp + 4), mem := m }
  else if op = 4 then     -- PUSH: SP - 2 -> SP, src -> @SP
    let regs := setReg regs SP (sp - 2)
    let s := source regs m r as bw
    { regs := s.regs, mem := wr m (getReg s.regs SP) false s.val }
  else if op = 5 then     -- CALL: dst -> tmp, SP - 2 -> SP, PC -> @SP, tmp -> PC
    let s := source regs m r as false
    let sp' := getReg s.regs SP - 2
    { regs := setReg (setReg s.regs SP sp') PC s.val, mem := wr m sp' false (getReg s.regs PC) }
  else                    -- RRC, SWPB, RRA, SXT: read, modify, write the same location
    let s := source regs m r as bw
    let sr := getReg s.regs SR
    let v := s.val
    let z (x : BitVec 16) : Bool := x = 0
    let d := s            -- the operand's location is the destination
    if op = 0 then        -- RRC: C -> MSB -> ... -> LSB -> C
      let res := (v >>> 1) ||| (if flagC sr then (if bw then 0x0080 else 0x8000) else 0)
      let st := writeBack d m r bw res
      { st with regs := setReg st.regs SR (withNZCV (getReg st.regs SR) (neg bw res) (z res) (v &&& 1 ≠ 0) false) }
    else if op = 2 then   -- RRA: MSB -> MSB -> ... -> LSB -> C
      let res := (v >>> 1) ||| (v &&& (if bw then 0x0080 else 0x8000))
      let st := writeBack d m r bw res
      { st with regs := setReg st.regs SR (withNZCV (getReg st.regs SR) (neg bw res) (z res) (v &&& 1 ≠ 0) false) }
    else if op = 1 then   -- SWPB: bits 15..8 <-> bits 7..0, status bits not affected
      writeBack d m r bw ((v >>> 8) ||| (v <<< 8))
    else                  -- SXT: bit 7 -> bits 15..8; N, Z, C = not Z, V = 0
      let res := (v &&& 0x00ff) ||| (if v &&& 0x0080 ≠ 0 then 0xff00 else 0)
      let st := writeBack d m r bw res
      { st with regs := setReg st.regs SR (withNZCV (getReg st.regs SR) (res &&& 0x8000 ≠ 0) (z res) (¬ z res) false) }

/-- Format II word: opcode 15..7 (000100 + 3 bits), B/W 6, Ad/As 5..4, D/S-reg 3..0 (Figure 3-10) -/
def formatII (regs : Regs) (m : Mem) (w : BitVec 16) : ArchState :=
  execII regs m (w.extractLsb' 7 3) (w.extractLsb' 0 4) (w.extractLsb' 4 2) (w.extractLsb' 6 1 = 1)

/-! ### Jumps -/

def jump (regs : Regs) (w : BitVec 16) : Regs :=
  let cond : BitVec 3 := w.extractLsb' 10 3
  let off : BitVec 16 := (w.extractLsb' 0 10 : BitVec 10).signExtend 16
  let sr := getReg regs SR
  let taken : Bool :=
    if cond = 0 then ¬ flagZ sr            -- JNE/JNZ
    else if cond = 1 then flagZ sr         -- JEQ/JZ
    else if cond = 2 then ¬ flagC sr       -- JNC/JLO
    else if cond = 3 then flagC sr         -- JC/JHS
    else if cond = 4 then flagN sr         -- JN
    else if cond = 5 then flagN sr = flagV sr      -- JGE: N xor V = 0
    else if cond = 6 then flagN sr ≠ flagV sr      -- JL:  N xor V = 1
    else true                              -- JMP
  -- PC + 2 + 2 * offset, with PC already advanced past the instruction word
  if taken then setReg regs PC (getReg regs PC + 2 * off) else regs

/-- execute the fetched instruction word `w` (PC already points behind it) -/
def execW (regs : Regs) (m : Mem) (w : BitVec 16) : ArchState :=
  if w.extractLsb' 13 3 = (1 : BitVec 3) then { regs := jump regs w, mem := m }
  else if w.extractLsb' 10 6 = (0b000100 : BitVec 6) then formatII regs m w
  else formatI regs m w

/-- One instruction: fetch the word at PC, PC + 2 -> PC, execute. -/
def step (regs : Regs) (m : Mem) : ArchState :=
  let pc := getReg regs PC
  execW (setReg regs PC (pc + 2)) m (rd16 m pc)

/-! ### What the guides leave undefined -/

/-- word access (`¬ bw`) at an odd address -/
def oddWord (bw : Bool) (o : Operand) : Bool := o.isMem ∧ ¬ bw ∧ o.ea &&& 1 ≠ 0

def bcdOk8 (v : BitVec 16) : Bool := v &&& 0xf < 10 ∧ (v >>> 4) &&& 0xf < 10
def bcdOk (bw : Bool) (v : BitVec 16) : Bool :=
  bcdOk8 v ∧ (bw ∨ bcdOk8 (v >>> 8))

def definedIx (regs : Regs) (m : Mem) (op sreg dreg : BitVec 4) (as : BitVec 2) (ad bw : Bool) : Bool :=
  let s := source regs m sreg as bw
  let d := dest s.regs m dreg ad
  -- U2: opcode field 0..3 is not a double-operand instruction
  op ≥ 4
  -- U4: word operands live at even addresses
  ∧ ¬ oddWord bw s ∧ ¬ oddWord bw d
  -- U5: R3 with Ad = 1 is not a destination addressing mode (Table 3-2 defines R3 as a source only)
  ∧ ¬ (ad ∧ dreg = CG)
  -- U7: the guide does not order "result -> SR" against "status bits -> SR"
  ∧ ¬ (setsFlags op ∧ ¬ ad ∧ dreg = SR)
  -- U10: DADD is defined on BCD digits only
  ∧ (op = 10 → bcdOk bw s.val ∧ bcdOk bw (destValue d m dreg bw))

def definedI (regs : Regs) (m : Mem) (w : BitVec 16) : Bool :=
  definedIx regs m (w.extractLsb' 12 4) (w.extractLsb' 8 4) (w.extractLsb' 0 4) (w.extractLsb' 4 2)
    (w.extractLsb' 7 1 = 1) (w.extractLsb' 6 1 = 1)

/-- `lowSix` = bits 5..0 of the word (all zero in RETI = 0x1300) -/
def definedIIx (regs : Regs) (m : Mem) (op : BitVec 3) (r : BitVec 4) (as : BitVec 2) (bw : Bool) : Bool :=
  let sp := getReg regs SP
  if op = 7 then false                         -- U2: 0x1380..0x13ff is not an instruction
  else if op = 6 then ¬ bw ∧ as = 0 ∧ r = 0 ∧ sp &&& 1 = 0    -- U2: RETI is the single word 0x1300; U4: stack aligned
  else if op = 4 then
    -- U9: PUSH.B high byte.  (U8, "PUSH with SP as operand register", is no longer excluded: the operation text
    -- "SP - 2 -> SP, src -> @SP" is taken as the definition for SP, x(SP), @SP and @SP+ as for every other register:
    -- the source is evaluated with the decremented SP.)
    let s := source (setReg regs SP (sp - 2)) m r as bw
    ¬ bw ∧ getReg s.regs SP &&& 1 = 0 ∧ ¬ oddWord bw s
  else if op = 5 then
    let s := source regs m r as false
    ¬ bw ∧ getReg s.regs SP &&& 1 = 0 ∧ ¬ oddWord false s          -- U3: no CALL.B
  else
    let s := source regs m r as bw
    -- U3: SWPB and SXT have no byte form
    ¬ (bw ∧ (op = 1 ∨ op = 3))
    -- U6: a constant or an immediate cannot be written back
    ∧ (s.isReg ∨ s.isMem) ∧ ¬ oddWord bw s
    -- U7
    ∧ ¬ (op ≠ 1 ∧ s.isReg ∧ r = SR)

def definedII (regs : Regs) (m : Mem) (w : BitVec 16) : Bool :=
  definedIIx regs m (w.extractLsb' 7 3) (w.extractLsb' 0 4) (w.extractLsb' 4 2) (w.extractLsb' 6 1 = 1)

/-- `Defined regs m`: the guides define the effect of the instruction at PC.
    Excluded (each with its reason):
    U1 odd PC -- the PC is word aligned (bit 0 is always 0);
    U2 words that are no 16-bit-core instruction (0x0000-0x0fff, 0x1380-0x1fff, 0x1301-0x137f);
    U3 byte forms of SWPB, SXT, CALL -- the B/W bit is specified as 0 for them;
    U4 word access at an odd address (operand, stack, extension word) -- bit 0 of a word address is not defined to be used;
    U5 destination R3 with Ad = 1; U6 single-operand write-back to a constant / immediate;
    U7 flag-setting instruction with destination SR in register mode;
    (U8, PUSH with SP as the operand register, was excluded until the C14 stream was strengthened: the operation text
    "SP - 2 -> SP, src -> @SP" defines it -- the source is read after the decrement); U9 PUSH.B (high byte of the stack word);
    U10 DADD on non-BCD digits.  (V after DADD is undefined: `step` leaves it unchanged.) -/
def definedDoc : Unit := ()

def definedW (regs : Regs) (m : Mem) (w : BitVec 16) : Bool :=
  if w.extractLsb' 13 3 = (1 : BitVec 3) then true
  else if w.extractLsb' 10 6 = (0b000100 : BitVec 6) then definedII regs m w
  else definedI regs m w

def defined (regs : Regs) (m : Mem) : Bool :=
  let pc := getReg regs PC
  pc &&& 1 = 0 ∧ definedW (setReg regs PC (pc + 2)) m (rd16 m pc)

def Defined (regs : Regs) (m : Mem) : Prop := defined regs m = true

end NakenVerif.Msp430.SimArch
