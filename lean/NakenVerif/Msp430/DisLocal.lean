/-
  MSP430 part of property C08, locality: the text and the length `disasm_msp430` produces depend only on the
  address and on the bytes inside the returned length.
-/
import NakenVerif.Msp430.DisProps
set_option linter.unusedSimpArgs false
set_option linter.unusedVariables false
namespace NakenVerif.Msp430
open NakenVerif.Generated.Msp430Dis Disasm

theorem srcText_local (addr : BitVec 32) (reg : BitVec 4) (as : BitVec 2) (bw : Bool) (pfx : Option (BitVec 16))
    (me : Bool) (e e' : BitVec 16) :
    (srcText addr reg as bw pfx me e).2 = (srcText addr reg as bw pfx me e').2 ∧
    ((srcText addr reg as bw pfx me e).2 = 0 → srcText addr reg as bw pfx me e = srcText addr reg as bw pfx me e') := by
  unfold srcText
  simp only []
  repeat' split
  all_goals simp

theorem dstText_local (addr : BitVec 32) (reg : BitVec 4) (ad : Bool) (count : Nat) (pfx : Option (BitVec 16))
    (me : Bool) (e e' : BitVec 16) :
    (dstText addr reg ad count pfx me e).2 = (dstText addr reg ad count pfx me e').2 ∧
    ((dstText addr reg ad count pfx me e).2 = 0 →
      dstText addr reg ad count pfx me e = dstText addr reg ad count pfx me e') := by
  unfold dstText
  simp only []
  repeat' split
  all_goals simp

theorem oneOperand_local (addr : BitVec 32) (i : List Char) (op : BitVec 16) (pfx : Option (BitVec 16)) (e e' : BitVec 16) :
    (oneOperand addr i op pfx e).2 = (oneOperand addr i op pfx e').2 ∧
    ((oneOperand addr i op pfx e).2 = 2 → oneOperand addr i op pfx e = oneOperand addr i op pfx e') := by
  unfold oneOperand
  simp only []
  generalize hm : (pfx.isSome && decide (op.extractLsb' 4 2 ≠ 0)) = me
  obtain ⟨h1, h2⟩ := srcText_local addr (op.extractLsb' 0 4) (op.extractLsb' 4 2) (decide (op &&& 0x40 ≠ 0)) pfx me e e'
  refine ⟨by rw [h1], ?_⟩
  intro h
  have h0 : (srcText addr (op.extractLsb' 0 4) (op.extractLsb' 4 2) (decide (op &&& 0x40 ≠ 0)) pfx me e).2 = 0 := by omega
  rw [h2 h0]

theorem aliasKind_four {op : BitVec 16} (h : aliasKind op = 4) : op.extractLsb' 7 1 = 1 := by
  unfold aliasKind at h
  split at h; · cases h
  split at h; · cases h
  split at h; · cases h
  split at h
  · rename_i h4; bv_decide
  · repeat' split at h
    all_goals cases h

theorem aliasComment_indep {op : BitVec 16} (bw : Bool) (e e' : BitVec 16) (h : aliasKind op ≠ 4) :
    aliasComment op bw e = aliasComment op bw e' := by
  unfold aliasComment
  simp only []
  split <;> first | rfl | (rename_i h4; exact absurd h4 h)

theorem dstText_count_ad (addr : BitVec 32) (reg : BitVec 4) (ad : Bool) (count : Nat) (pfx : Option (BitVec 16))
    (me : Bool) (e : BitVec 16) : (dstText addr reg ad count pfx me e).2 = if ad then 2 else 0 := by
  unfold dstText
  simp only []
  cases ad <;> simp <;> (repeat' split) <;> rfl

theorem twoOperand_local (addr : BitVec 32) (i : List Char) (op : BitVec 16) (pfx : Option (BitVec 16))
    (e1 e2 e1' e2' : BitVec 16) :
    (twoOperand addr i op pfx e1 e2).2 = (twoOperand addr i op pfx e1' e2').2 ∧
    ((twoOperand addr i op pfx e1 e2).2 = 2 → twoOperand addr i op pfx e1 e2 = twoOperand addr i op pfx e1' e2') ∧
    ((twoOperand addr i op pfx e1 e2).2 = 4 → twoOperand addr i op pfx e1 e2 = twoOperand addr i op pfx e1 e2') := by
  unfold twoOperand
  simp only []
  generalize hme : (pfx.isSome && !(!decide (op.extractLsb' 7 1 = 1) && (decide (op.extractLsb' 4 2 = 0) ||
    decide (op.extractLsb' 8 4 = 3) || (decide (op.extractLsb' 8 4 = 2) && decide (op.extractLsb' 4 2 ≠ 1))))) = me
  generalize hbw : decide (op &&& 0x40 ≠ 0) = bw
  generalize had : decide (op.extractLsb' 7 1 = 1) = ad
  have s1 := srcText_local addr (op.extractLsb' 8 4) (op.extractLsb' 4 2) bw pfx me e1 e1'
  have hd := fun c e => dstText_count_ad addr (op.extractLsb' 0 4) ad c pfx me e
  have dl := fun c e e' => dstText_local addr (op.extractLsb' 0 4) ad c pfx me e e'
  refine ⟨?_, ?_, ?_⟩
  · rw [hd, hd, s1.1]
  · intro h
    rw [hd] at h
    have hadf : ad = false := by
      cases ad with
      | false => rfl
      | true => simp at h
    have hn : (srcText addr (op.extractLsb' 8 4) (op.extractLsb' 4 2) bw pfx me e1).2 = 0 := by
      rw [hadf] at h; simp at h; exact h
    have hk : aliasKind op ≠ 4 := by
      intro hk
      have h7 := aliasKind_four hk
      have : ad = true := by rw [← had]; exact decide_eq_true h7
      rw [hadf] at this; cases this
    rw [← s1.2 hn, aliasComment_indep bw e1 e1' hk, hn]
    simp only [if_true]
    have := (dl 0 e1 e1').2 (by rw [hd, hadf]; rfl)
    rw [this]
  · intro h
    rw [hd] at h
    by_cases hn : (srcText addr (op.extractLsb' 8 4) (op.extractLsb' 4 2) bw pfx me e1).2 = 0
    · simp only [hn, if_true]
    · have hadf : ad = false := by
        rcases srcText_count addr (op.extractLsb' 8 4) (op.extractLsb' 4 2) bw pfx me e1 with h0 | h2
        · exact absurd h0 hn
        · cases ad with
          | false => rfl
          | true => rw [h2] at h; simp at h
      simp only [hn, if_false]
      have := (dl (srcText addr (op.extractLsb' 8 4) (op.extractLsb' 4 2) bw pfx me e1).2 e2 e2').2
        (by rw [hd, hadf]; rfl)
      rw [this]

theorem rowText_local (addr : BitVec 32) (r : Row) (ht : r.type ≤ 20) (op : BitVec 16) (pfx : Option (BitVec 16))
    (e1 e2 e1' e2' : BitVec 16) :
    (rowText addr r op pfx e1 e2).2 = (rowText addr r op pfx e1' e2').2 ∧
    ((rowText addr r op pfx e1 e2).2.1 = 2 → rowText addr r op pfx e1 e2 = rowText addr r op pfx e1' e2') ∧
    ((rowText addr r op pfx e1 e2).2.1 = 4 → rowText addr r op pfx e1 e2 = rowText addr r op pfx e1 e2') := by
  have h1 := oneOperand_local addr r.instr.toList op pfx e1 e1'
  have h2 := twoOperand_local addr r.instr.toList op pfx e1 e2 e1' e2'
  unfold rowText
  simp only [OP_NONE, OP_ONE_OPERAND, OP_ONE_OPERAND_W, OP_ONE_OPERAND_X, OP_JUMP, OP_TWO_OPERAND, OP_MOVA_AT_REG_REG,
    OP_MOVA_AT_REG_PLUS_REG, OP_MOVA_ABS20_REG, OP_MOVA_INDEXED_REG, OP_SHIFT20, OP_MOVA_REG_ABS, OP_MOVA_REG_INDEXED,
    OP_IMMEDIATE_REG, OP_REG_REG, OP_CALLA_SOURCE, OP_CALLA_ABS20, OP_CALLA_INDIRECT_PC, OP_CALLA_IMMEDIATE, OP_PUSH, OP_POP]
  generalize r.type = t at ht
  have : t = 0 ∨ t = 1 ∨ t = 2 ∨ t = 3 ∨ t = 4 ∨ t = 5 ∨ t = 6 ∨ t = 7 ∨ t = 8 ∨ t = 9 ∨ t = 10 ∨ t = 11 ∨ t = 12 ∨
      t = 13 ∨ t = 14 ∨ t = 15 ∨ t = 16 ∨ t = 17 ∨ t = 18 ∨ t = 19 ∨ t = 20 := by omega
  rcases this with rfl | rfl | rfl | rfl | rfl | rfl | rfl | rfl | rfl | rfl | rfl | rfl | rfl | rfl | rfl | rfl | rfl | rfl |
    rfl | rfl | rfl
  all_goals simp only [Nat.reduceEqDiff, if_true, if_false, or_self, or_true, true_or, or_false, false_or]
  all_goals first
    | (simp; done)
    | (obtain ⟨a, b⟩ := h1; exact ⟨by rw [a], fun h => by rw [b h], fun _ => trivial⟩)
    | (obtain ⟨a, b, c⟩ := h2; exact ⟨by rw [a], fun h => by rw [b h], fun h => by rw [c h]⟩)
    | ((repeat' split) <;> (simp; done))

theorem decodeAt_local (addr : BitVec 32) (pfx : Option (BitVec 16)) (op e1 e2 e1' e2' : BitVec 16) :
    (decodeAt addr pfx op e1 e2).len = (decodeAt addr pfx op e1' e2').len ∧
    ((decodeAt addr pfx op e1 e2).len = 2 → decodeAt addr pfx op e1 e2 = decodeAt addr pfx op e1' e2') ∧
    ((decodeAt addr pfx op e1 e2).len = 4 → decodeAt addr pfx op e1 e2 = decodeAt addr pfx op e1 e2') := by
  unfold decodeAt
  cases hf : findRow op with
  | none => cases pfx <;> simp
  | some r =>
    obtain ⟨a, b, c⟩ := rowText_local addr r (table_dis_types r (findRow_mem hf).1 (findRow_mem hf).2) op pfx e1 e2 e1' e2'
    cases pfx with
    | none =>
      simp only []
      refine ⟨congrArg Prod.fst a, fun h => by rw [b h], fun h => by rw [c h]⟩
    | some p =>
      simp only []
      refine ⟨congrArg Prod.fst a, fun h => by rw [b h], fun h => by rw [c h]⟩

/-- the four 16-bit words at offsets 0, 2, 4, 6 of a byte function (`READ_RAM16`, little endian) -/
def wordAt (m : Nat → BitVec 8) (k : Nat) : BitVec 16 := m (k + 1) ++ m k

def disasmMem (addr : BitVec 32) (m : Nat → BitVec 8) : Dec :=
  disasm addr (wordAt m 0) (wordAt m 2) (wordAt m 4) (wordAt m 6)

theorem disasm_len_eq (addr : BitVec 32) (w0 w1 w2 w3 : BitVec 16) :
    (disasm addr w0 w1 w2 w3).len =
      if w0 = 0x0110 then 2
      else if isPrefix w0 then (decodeAt (addr + 2) (some w0) w1 w2 w3).len + 2 else (decodeAt addr none w0 w1 w2).len := by
  unfold disasm
  split
  · rfl
  · split <;> rfl

/-- **C08, locality.**  Text and length depend only on the address and on the bytes of the instruction itself:
    two memories that agree on the `len` bytes from the address on give the same text and the same length. -/
theorem msp430_decode_local (addr : BitVec 32) (m m' : Nat → BitVec 8)
    (h : ∀ i, i < (disasmMem addr m).len → m i = m' i) : disasmMem addr m = disasmMem addr m' := by
  have hw : ∀ k, k + 1 < (disasmMem addr m).len → wordAt m k = wordAt m' k := by
    intro k hk; unfold wordAt; rw [h k (by omega), h (k + 1) hk]
  have hlen := disasm_len_eq addr (wordAt m 0) (wordAt m 2) (wordAt m 4) (wordAt m 6)
  have hb := msp430_len_bounds addr (wordAt m 0) (wordAt m 2) (wordAt m 4) (wordAt m 6)
  unfold disasmMem at hw ⊢
  generalize hL : (disasm addr (wordAt m 0) (wordAt m 2) (wordAt m 4) (wordAt m 6)).len = L at hw hlen hb
  have h0 : wordAt m 0 = wordAt m' 0 := hw 0 (by omega)
  rw [← h0]
  generalize wordAt m 0 = w0 at *
  by_cases hne : w0 = 0x0110
  · unfold disasm; simp only [hne, if_true]
  · simp only [hne, if_false] at hlen
    by_cases hp : isPrefix w0 = true
    · simp only [hp, if_true] at hlen
      have hd := decodeAt_len (addr + 2) (some w0) (wordAt m 2) (wordAt m 4) (wordAt m 6)
      have h1 : wordAt m 2 = wordAt m' 2 := hw 2 (by omega)
      rw [← h1]
      obtain ⟨a, b, c⟩ := decodeAt_local (addr + 2) (some w0) (wordAt m 2) (wordAt m 4) (wordAt m 6) (wordAt m' 4) (wordAt m' 6)
      unfold disasm
      simp only [hne, if_false, hp, if_true]
      rcases hd with l | l | l
      · rw [b l]
      · have h2 : wordAt m 4 = wordAt m' 4 := hw 4 (by omega)
        rw [c l, h2]
      · have h2 : wordAt m 4 = wordAt m' 4 := hw 4 (by omega)
        have h3 : wordAt m 6 = wordAt m' 6 := hw 6 (by omega)
        rw [h2, h3]
    · simp only [hp, Bool.false_eq_true, if_false] at hlen
      have hd := decodeAt_len addr none w0 (wordAt m 2) (wordAt m 4)
      obtain ⟨a, b, c⟩ := decodeAt_local addr none w0 (wordAt m 2) (wordAt m 4) (wordAt m' 2) (wordAt m' 4)
      unfold disasm
      simp only [hne, if_false, hp, Bool.false_eq_true]
      rcases hd with l | l | l
      · rw [b l]
      · have h1 : wordAt m 2 = wordAt m' 2 := hw 2 (by omega)
        rw [c l, h1]
      · have h1 : wordAt m 2 = wordAt m' 2 := hw 2 (by omega)
        have h2 : wordAt m 4 = wordAt m' 4 := hw 4 (by omega)
        rw [h1, h2]
