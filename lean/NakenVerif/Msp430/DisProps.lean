/-
  MSP430 part of property C08 (and the decoder facts C01/C07 need): the length `disasm_msp430` returns is 2, 4, 6
  or 8 for every word sequence; text and length depend only on the address and on the words inside that length;
  the text fits the caller's 128-byte buffer; the range loop tiles any range.
-/
import Std.Tactic.BVDecide
import NakenVerif.Msp430.Disasm
set_option linter.unusedSimpArgs false
set_option linter.unusedVariables false
namespace NakenVerif.Msp430
open NakenVerif.Generated.Msp430Dis Disasm

/-! ## table obligations -/

/-- every row the decoder can stop at has one of the 21 row types its switch knows -/
theorem table_dis_types : ∀ r ∈ table, r.version ≠ VERSION_MSP430X_EXT → r.type ≤ 20 := by decide +kernel

/-- mnemonics are short: the longest are `pushm`/`calla` (5 characters) -/
theorem table_instr_short : ∀ r ∈ table, r.instr.toList.length ≤ 5 := by decide +kernel

theorem findRow_mem {w : BitVec 16} {r : Row} (h : findRow w = some r) : r ∈ table ∧ r.version ≠ VERSION_MSP430X_EXT := by
  unfold findRow at h
  have h1 := List.find?_some h
  simp only [decide_eq_true_eq] at h1
  exact ⟨List.mem_of_find?_eq_some h, h1.1⟩

/-! ## length -/

theorem srcText_count (addr : BitVec 32) (reg : BitVec 4) (as : BitVec 2) (bw : Bool) (pfx : Option (BitVec 16))
    (me : Bool) (e : BitVec 16) : (srcText addr reg as bw pfx me e).2 = 0 ∨ (srcText addr reg as bw pfx me e).2 = 2 := by
  unfold srcText
  simp only []
  repeat' split
  all_goals simp

theorem dstText_count (addr : BitVec 32) (reg : BitVec 4) (ad : Bool) (count : Nat) (pfx : Option (BitVec 16))
    (me : Bool) (e : BitVec 16) : (dstText addr reg ad count pfx me e).2 = 0 ∨ (dstText addr reg ad count pfx me e).2 = 2 := by
  unfold dstText
  simp only []
  repeat' split
  all_goals simp

theorem oneOperand_len (addr : BitVec 32) (i : List Char) (op : BitVec 16) (pfx : Option (BitVec 16)) (e : BitVec 16) :
    (oneOperand addr i op pfx e).2 = 2 ∨ (oneOperand addr i op pfx e).2 = 4 := by
  unfold oneOperand
  simp only []
  generalize hs : srcText addr _ _ _ pfx _ e = st
  have h1 : st.2 = 0 ∨ st.2 = 2 := by rw [← hs]; exact srcText_count _ _ _ _ _ _ _
  rcases h1 with h | h <;> simp [h]

theorem twoOperand_len (addr : BitVec 32) (i : List Char) (op : BitVec 16) (pfx : Option (BitVec 16)) (e1 e2 : BitVec 16) :
    (twoOperand addr i op pfx e1 e2).2 = 2 ∨ (twoOperand addr i op pfx e1 e2).2 = 4 ∨ (twoOperand addr i op pfx e1 e2).2 = 6 := by
  unfold twoOperand
  simp only []
  generalize hs : srcText addr _ _ _ pfx _ e1 = st
  have h1 : st.2 = 0 ∨ st.2 = 2 := by rw [← hs]; exact srcText_count _ _ _ _ _ _ _
  generalize hd : dstText addr _ _ st.2 pfx _ _ = dt
  have h2 : dt.2 = 0 ∨ dt.2 = 2 := by rw [← hd]; exact dstText_count _ _ _ _ _ _ _
  rcases h1 with h1 | h1 <;> rcases h2 with h2 | h2 <;> simp [h1, h2]

theorem rowText_len (addr : BitVec 32) (r : Row) (ht : r.type ≤ 20) (op : BitVec 16) (pfx : Option (BitVec 16))
    (e1 e2 : BitVec 16) :
    (rowText addr r op pfx e1 e2).2.1 = 2 ∨ (rowText addr r op pfx e1 e2).2.1 = 4 ∨ (rowText addr r op pfx e1 e2).2.1 = 6 := by
  have h1 : (oneOperand addr r.instr.toList op pfx e1).2 = 2 ∨ (oneOperand addr r.instr.toList op pfx e1).2 = 4 ∨
      (oneOperand addr r.instr.toList op pfx e1).2 = 6 := by
    rcases oneOperand_len addr r.instr.toList op pfx e1 with h | h <;> simp [h]
  have h2 := twoOperand_len addr r.instr.toList op pfx e1 e2
  unfold rowText
  simp only [OP_NONE, OP_ONE_OPERAND, OP_ONE_OPERAND_W, OP_ONE_OPERAND_X, OP_JUMP, OP_TWO_OPERAND, OP_MOVA_AT_REG_REG,
    OP_MOVA_AT_REG_PLUS_REG, OP_MOVA_ABS20_REG, OP_MOVA_INDEXED_REG, OP_SHIFT20, OP_MOVA_REG_ABS, OP_MOVA_REG_INDEXED,
    OP_IMMEDIATE_REG, OP_REG_REG, OP_CALLA_SOURCE, OP_CALLA_ABS20, OP_CALLA_INDIRECT_PC, OP_CALLA_IMMEDIATE, OP_PUSH, OP_POP]
  generalize r.type = t at ht
  have : t = 0 ∨ t = 1 ∨ t = 2 ∨ t = 3 ∨ t = 4 ∨ t = 5 ∨ t = 6 ∨ t = 7 ∨ t = 8 ∨ t = 9 ∨ t = 10 ∨ t = 11 ∨ t = 12 ∨
      t = 13 ∨ t = 14 ∨ t = 15 ∨ t = 16 ∨ t = 17 ∨ t = 18 ∨ t = 19 ∨ t = 20 := by omega
  rcases this with rfl | rfl | rfl | rfl | rfl | rfl | rfl | rfl | rfl | rfl | rfl | rfl | rfl | rfl | rfl | rfl | rfl | rfl |
    rfl | rfl | rfl
  all_goals simp only [Nat.reduceEqDiff, if_true, if_false, or_self, or_true, true_or, or_false, false_or, relativeJump]
  all_goals first | exact h1 | exact h2 | ((repeat' split) <;> first | (simp; done) | decide)

/-- bytes counted from the opcode word on: 2, 4 or 6 -/
theorem decodeAt_len (addr : BitVec 32) (pfx : Option (BitVec 16)) (op e1 e2 : BitVec 16) :
    (decodeAt addr pfx op e1 e2).len = 2 ∨ (decodeAt addr pfx op e1 e2).len = 4 ∨ (decodeAt addr pfx op e1 e2).len = 6 := by
  unfold decodeAt
  cases hf : findRow op with
  | none => cases pfx <;> simp
  | some r =>
    have := rowText_len addr r (table_dis_types r (findRow_mem hf).1 (findRow_mem hf).2) op pfx e1 e2
    cases pfx <;> simpa using this

/-- **C08, length bounds.**  For every word sequence `disasm_msp430` returns 2, 4, 6 or 8: at least one 16-bit
    unit, at most the longest instruction (extension word + opcode + two index words). -/
theorem msp430_len_bounds (addr : BitVec 32) (w0 w1 w2 w3 : BitVec 16) :
    (disasm addr w0 w1 w2 w3).len = 2 ∨ (disasm addr w0 w1 w2 w3).len = 4 ∨ (disasm addr w0 w1 w2 w3).len = 6 ∨
      (disasm addr w0 w1 w2 w3).len = 8 := by
  unfold disasm
  split
  · simp
  · split
    · have h := decodeAt_len (addr + 2) (some w0) w1 w2 w3
      generalize decodeAt (addr + 2) (some w0) w1 w2 w3 = d at h ⊢
      simp only []
      omega
    · have h := decodeAt_len addr none w0 w1 w2
      generalize decodeAt addr none w0 w1 w2 = d at h ⊢
      omega

/-! ## the range loop -/

open Walk in
/-- **C08, tiling (MSP430 loop shape with the interrupt-vector lines).**  Whatever the bytes are, the address
    column of `disasm_range_msp430` lists the word addresses `start, start+2, start+4, …` — every one once, in
    increasing order, without a gap — and goes on until the end of the range is covered. -/
theorem msp430_walk_tiles (lenAt : Nat → Nat)
    (hl : ∀ a, lenAt a = 2 ∨ lenAt a = 4 ∨ lenAt a = 6 ∨ lenAt a = 8) (stop : Nat) :
    ∀ (n start : Nat), stop + 1 - start = n →
      ∃ k, (rangeLines lenAt start stop).map Prod.fst = evens start k ∧ (start ≤ stop → stop < start + 2 * k) := by
  intro n
  induction n using Nat.strongRecOn with
  | _ n ih =>
    intro start hn
    unfold rangeLines
    by_cases h : start ≤ stop
    · simp only [h, if_true]
      by_cases hv : 0xffe0 ≤ start ∧ start ≤ 0xffff
      · simp only [hv, and_self, if_true]
        obtain ⟨k, e2, e3⟩ := ih (stop + 1 - (start + 2)) (by omega) (start + 2) rfl
        refine ⟨k + 1, ?_, ?_⟩
        · simp only [List.map_cons, e2]; rfl
        · intro _
          by_cases h2 : start + 2 ≤ stop
          · have := e3 h2; omega
          · omega
      · simp only [hv, if_false]
        have hw : 1 ≤ lenAt start / 2 := by rcases hl start with e | e | e | e <;> omega
        have hmax : max 1 (lenAt start / 2) = lenAt start / 2 := by omega
        rw [hmax]
        obtain ⟨k, e2, e3⟩ := ih (stop + 1 - (start + 2 * (lenAt start / 2))) (by omega) (start + 2 * (lenAt start / 2)) rfl
        refine ⟨1 + (lenAt start / 2 - 1) + k, ?_, ?_⟩
        · simp only [List.map_cons, List.map_append, contLines_addrs, e2, List.cons_append]
          have : start + 2 * (lenAt start / 2) = start + 2 + 2 * (lenAt start / 2 - 1) := by omega
          rw [this, evens_append]
          have : 1 + (lenAt start / 2 - 1) + k = (lenAt start / 2 - 1 + k) + 1 := by omega
          rw [this]; rfl
        · intro _
          by_cases h2 : start + 2 * (lenAt start / 2) ≤ stop
          · have := e3 h2; omega
          · omega
    · simp only [h, if_false]
      refine ⟨0, by simp [evens], ?_⟩
      intro h'
      first | exact absurd h' h | exact h'.elim

/-- instantiated with the model's length function on any memory -/
theorem msp430_walk_tiles_disasm (mem : Nat → BitVec 16) (start stop : Nat) (h : start ≤ stop) :
    ∃ k, (rangeLines (fun a => Disasm.len (mem a) (mem (a + 2))) start stop).map Prod.fst = Walk.evens start k ∧
      stop < start + 2 * k := by
  obtain ⟨k, e1, e2⟩ := msp430_walk_tiles (fun a => Disasm.len (mem a) (mem (a + 2)))
    (fun a => msp430_len_bounds 0 _ _ 0 0) stop _ start rfl
  exact ⟨k, e1, e2 h⟩

/-! ## the text fits the caller's buffer -/

theorem hexFix_length (k n : Nat) : (hexFix k n).length = k := by
  induction k generalizing n with
  | zero => rfl
  | succ k ih => simp [hexFix, ih]

theorem decFix_length (k n : Nat) : (decFix k n).length = k := by
  induction k generalizing n with
  | zero => rfl
  | succ k ih => simp [decFix, ih]

theorem trimZeros_length_le (keep : Nat) (l : List Char) : (trimZeros keep l).length ≤ l.length := by
  induction l with
  | nil => simp [trimZeros]
  | cons c cs ih =>
    unfold trimZeros
    split
    · exact Nat.le_succ_of_le ih
    · exact Nat.le_refl _

theorem hex_len (m : Nat) (v : BitVec 32) : (hex m v).length ≤ 8 := by
  unfold hex
  exact Nat.le_trans (trimZeros_length_le _ _) (by rw [hexFix_length]; exact Nat.le_refl _)

theorem dec_len (v : BitVec 32) : (dec v).length ≤ 11 := by
  unfold dec
  split
  · have := trimZeros_length_le 1 (decFix 10 (2 ^ 32 - v.toNat))
    rw [decFix_length] at this
    simp only [List.length_cons]; omega
  · have := trimZeros_length_le 1 (decFix 10 v.toNat)
    rw [decFix_length] at this
    omega

theorem regName_len (r : BitVec 4) : (regName r).length ≤ 3 := by
  have : ∀ n, n < 16 → ((regNames[n]!).toList).length ≤ 3 := by decide
  exact this r.toNat r.isLt

/-- replace the length of every numeral / register name in the goal by a variable with its bound -/
syntax "bound_lens" : tactic
macro_rules
  | `(tactic| bound_lens) => `(tactic|
    (repeat (generalize hx : (hex _ _).length = nx; have : nx ≤ 8 := (by rw [← hx]; exact hex_len _ _); clear hx)
     repeat (generalize hx : (dec _).length = nx; have : nx ≤ 11 := (by rw [← hx]; exact dec_len _); clear hx)
     repeat (generalize hx : (regName _).length = nx; have : nx ≤ 3 := (by rw [← hx]; exact regName_len _); clear hx)))

theorem srcText_len (addr : BitVec 32) (reg : BitVec 4) (as : BitVec 2) (bw : Bool) (pfx : Option (BitVec 16))
    (me : Bool) (e : BitVec 16) : (srcText addr reg as bw pfx me e).1.length ≤ 16 := by
  unfold srcText
  simp only []
  repeat' split
  all_goals (simp; try bound_lens; try omega)

theorem dstText_len (addr : BitVec 32) (reg : BitVec 4) (ad : Bool) (count : Nat) (pfx : Option (BitVec 16))
    (me : Bool) (e : BitVec 16) : (dstText addr reg ad count pfx me e).1.length ≤ 16 := by
  unfold dstText
  simp only []
  repeat' split
  all_goals (simp; try bound_lens; try omega)

theorem alExt_len (p : BitVec 16) (bw odd : Bool) : (alExt p bw odd).length = 2 := by
  unfold alExt; simp only []; repeat' split
  all_goals rfl

theorem oneOperand_text_len (addr : BitVec 32) (i : List Char) (hi : i.length ≤ 5) (op : BitVec 16)
    (pfx : Option (BitVec 16)) (e : BitVec 16) : (oneOperand addr i op pfx e).1.length ≤ 25 := by
  unfold oneOperand
  simp only []
  generalize hs : srcText addr _ _ _ pfx _ e = st
  have h1 : st.1.length ≤ 16 := by rw [← hs]; exact srcText_len _ _ _ _ _ _ _
  cases pfx with
  | none => simp; repeat' split
            all_goals (simp; omega)
  | some p =>
    simp
    split
    · have := alExt_len p (!decide (op &&& 64#16 = 0#16)) (decide (op.extractLsb' 7 3 &&& 1#3 = 1#3))
      omega
    · repeat' split
      all_goals (simp; omega)

theorem relativeJump_text_len (addr : BitVec 32) (i : List Char) (hi : i.length ≤ 5) (op : BitVec 16)
    (pfx : Option (BitVec 16)) : (relativeJump addr i op pfx).1.length ≤ 40 := by
  unfold relativeJump
  cases pfx <;> (simp; bound_lens; omega)

theorem aliasComment_len (op : BitVec 16) (bw : Bool) (e : BitVec 16) (c : List Char)
    (h : aliasComment op bw e = some c) : c.length ≤ 39 := by
  unfold aliasComment at h
  simp only [] at h
  split at h
  all_goals first
    | cases h; done
    | (simp only [Option.some.injEq] at h; subst h
       cases bw <;> (simp only [List.length_append, List.length_cons, List.length_nil, if_true, if_false,
         Bool.false_eq_true]; try bound_lens; try omega))

theorem twoOperand_text_len (addr : BitVec 32) (i : List Char) (hi : i.length ≤ 5) (op : BitVec 16)
    (pfx : Option (BitVec 16)) (e1 e2 : BitVec 16) : (twoOperand addr i op pfx e1 e2).1.length ≤ 81 := by
  unfold twoOperand
  simp only []
  generalize hs : srcText addr _ _ _ pfx _ e1 = st
  have h1 : st.1.length ≤ 16 := by rw [← hs]; exact srcText_len _ _ _ _ _ _ _
  generalize hd : dstText addr _ _ st.2 pfx _ _ = dt
  have h2 : dt.1.length ≤ 16 := by rw [← hd]; exact dstText_len _ _ _ _ _ _ _
  cases pfx with
  | some p =>
    have := alExt_len p (decide (op &&& 64 ≠ 0)) false
    simp at this ⊢
    omega
  | none =>
    simp
    cases hc : aliasComment op (!decide (op &&& 64#16 = 0#16)) e1 with
    | none => simp; split <;> (simp; omega)
    | some c =>
      have := aliasComment_len _ _ _ c hc
      simp; split <;> (simp; omega)

theorem rowText_text_len (addr : BitVec 32) (r : Row) (hi : r.instr.toList.length ≤ 5) (ht : r.type ≤ 20)
    (op : BitVec 16) (pfx : Option (BitVec 16)) (e1 e2 : BitVec 16) :
    (rowText addr r op pfx e1 e2).1.length ≤ 81 ∧
      ((rowText addr r op pfx e1 e2).2.2 = false → (rowText addr r op pfx e1 e2).1.length ≤ 45) := by
  have h1 := oneOperand_text_len addr r.instr.toList hi op pfx e1
  have h2 := twoOperand_text_len addr r.instr.toList hi op pfx e1 e2
  have h3 := relativeJump_text_len addr r.instr.toList hi op pfx
  unfold rowText
  simp only [OP_NONE, OP_ONE_OPERAND, OP_ONE_OPERAND_W, OP_ONE_OPERAND_X, OP_JUMP, OP_TWO_OPERAND, OP_MOVA_AT_REG_REG,
    OP_MOVA_AT_REG_PLUS_REG, OP_MOVA_ABS20_REG, OP_MOVA_INDEXED_REG, OP_SHIFT20, OP_MOVA_REG_ABS, OP_MOVA_REG_INDEXED,
    OP_IMMEDIATE_REG, OP_REG_REG, OP_CALLA_SOURCE, OP_CALLA_ABS20, OP_CALLA_INDIRECT_PC, OP_CALLA_IMMEDIATE, OP_PUSH, OP_POP]
  generalize r.type = t at ht
  generalize hil : r.instr.toList = il at *
  have : t = 0 ∨ t = 1 ∨ t = 2 ∨ t = 3 ∨ t = 4 ∨ t = 5 ∨ t = 6 ∨ t = 7 ∨ t = 8 ∨ t = 9 ∨ t = 10 ∨ t = 11 ∨ t = 12 ∨
      t = 13 ∨ t = 14 ∨ t = 15 ∨ t = 16 ∨ t = 17 ∨ t = 18 ∨ t = 19 ∨ t = 20 := by omega
  rcases this with rfl | rfl | rfl | rfl | rfl | rfl | rfl | rfl | rfl | rfl | rfl | rfl | rfl | rfl | rfl | rfl | rfl | rfl |
    rfl | rfl | rfl
  all_goals simp only [Nat.reduceEqDiff, if_true, if_false, or_self, or_true, true_or, or_false, false_or]
  all_goals first
    | (refine ⟨by omega, fun h => ?_⟩; omega)
    | (refine ⟨by omega, fun h => by cases h⟩)
    | ((repeat' split) <;>
        (simp only [List.length_append, List.length_cons, List.length_nil, reduceCtorEq, false_imp_iff, forall_const,
          imp_self, and_true, true_imp_iff]; try bound_lens; try omega))

theorem rptText_len (p : BitVec 16) (t : List Char) : (rptText p t).length ≤ t.length + 19 := by
  unfold rptText
  simp only []
  repeat' split
  all_goals (try simp only [List.length_append, List.length_cons, List.length_nil]; try bound_lens
             first | omega | exact Nat.le_add_right _ _)

theorem decodeAt_text_len (addr : BitVec 32) (pfx : Option (BitVec 16)) (op e1 e2 : BitVec 16) :
    (decodeAt addr pfx op e1 e2).text.length ≤ 81 := by
  unfold decodeAt
  cases hf : findRow op with
  | none =>
    cases pfx with
    | none => simp
    | some p => have := rptText_len p ['?', '?', '?']; simp at this ⊢; omega
  | some r =>
    obtain ⟨hm, hv⟩ := findRow_mem hf
    obtain ⟨b1, b2⟩ := rowText_text_len addr r (table_instr_short r hm) (table_dis_types r hm hv) op pfx e1 e2
    cases pfx with
    | none => simpa using b1
    | some p =>
      simp only []
      split
      · exact b1
      · rename_i hr
        have := rptText_len p (rowText addr r op (some p) e1 e2).1
        have := b2 (by simpa using hr)
        omega

/-- **C08, the text fits.**  For every word sequence and address the text is at most 81 characters, so with its
    terminating NUL it lies inside the 128-byte buffer every caller (`disasm_range_msp430`, `list_output_msp430`,
    the simulator's `disasm`) passes; the intermediate buffers (`char instr[32]` for the mnemonic, `temp[32]` for
    one CALLA operand, `rpt[128]`) are wide enough for the same reason. -/
theorem msp430_text_fits (addr : BitVec 32) (w0 w1 w2 w3 : BitVec 16) :
    (disasm addr w0 w1 w2 w3).text.length + 1 ≤ 128 := by
  unfold disasm
  split
  · simp
  · split
    · have := decodeAt_text_len (addr + 2) (some w0) w1 w2 w3
      simp only []; omega
    · have := decodeAt_text_len addr none w0 w1 w2
      omega
