/-
  Block level of conditional assembly (property C10): the model of AsmContext::assemble
  executes exactly the statements of the selected branches of every properly nested source,
  and every malformed arrangement of conditional directives is an error.
-/
import NakenVerif.Cond.Spec
import NakenVerif.Cond.Prog

set_option linter.unusedSimpArgs false
set_option linter.unusedVariables false

namespace NakenVerif.Cond

/-- what the condition evaluator is proved to do on rendered trees -/
def RenderCorrect : Prop :=
  ∀ (env : Env) (t : C), ifDecision env (t.render ++ [.eol]) = (t.eval env).map (fun v => v != 0)

/-! ### one step of `assemble` -/

/-- the local function `branch` of `assemble` -/
def branchF {σ St : Type} (sem : Sem σ St) (fuel : Nat) (st : St) (ignore : Bool) (cnt1 : Nat)
    (rest : List (Item σ)) : ARes σ St :=
  if ignore then
    match skipItems 0 rest with
    | (.eof, _) => .err
    | (.endif, rest') => assemble sem fuel st (cnt1 - 1) rest'
    | (.else_, rest') =>
        match assemble sem fuel st cnt1 rest' with
        | .ret .endif st' cnt' rest'' => assemble sem fuel st' (cnt' - 1) rest''
        | .ret .else_ _ _ _ => .err
        | .ret .eof _ _ _ => .err
        | .err => .err
        | .fuel => .fuel
  else
    match assemble sem fuel st cnt1 rest with
    | .ret .endif st' cnt' rest' => assemble sem fuel st' (cnt' - 1) rest'
    | .ret .else_ st' cnt' rest' =>
        (match skipItems 0 rest' with
         | (.endif, rest'') => assemble sem fuel st' (cnt' - 1) rest''
         | (.else_, _) => .err
         | (.eof, _) => .err)
    | .ret .eof _ _ _ => .err
    | .err => .err
    | .fuel => .fuel

section steps
variable {σ St : Type} (sem : Sem σ St) (f : Nat) (st : St) (cnt : Nat) (rest : List (Item σ))

theorem assemble_nil : assemble sem (f + 1) st cnt [] = .ret .eof st cnt [] := by
  simp only [assemble]

theorem assemble_nil' {f : Nat} (h : 1 ≤ f) : assemble sem f st cnt [] = .ret .eof st cnt [] := by
  obtain ⟨f', rfl⟩ : ∃ f', f = f' + 1 := ⟨f - 1, by omega⟩
  exact assemble_nil sem f' st cnt

theorem assemble_stmt_some {s : σ} {st' : St} (h : sem.exec st s = some st') :
    assemble sem (f + 1) st cnt (.stmt s :: rest) = assemble sem f st' cnt rest := by
  simp only [assemble, h]

theorem assemble_stmt_none {s : σ} (h : sem.exec st s = none) :
    assemble sem (f + 1) st cnt (.stmt s :: rest) = .err := by
  simp only [assemble, h]

theorem assemble_endif (h : 1 ≤ cnt) :
    assemble sem (f + 1) st cnt (.endif :: rest) = .ret .endif st cnt rest := by
  have h' : ¬ cnt < 1 := by omega
  simp only [assemble, h', if_false]

theorem assemble_else (h : 1 ≤ cnt) :
    assemble sem (f + 1) st cnt (.else_ :: rest) = .ret .else_ st cnt rest := by
  have h' : ¬ cnt < 1 := by omega
  simp only [assemble, h', if_false]

theorem assemble_endif_zero : assemble sem (f + 1) st 0 (.endif :: rest) = .err := by
  simp [assemble]

theorem assemble_else_zero : assemble sem (f + 1) st 0 (.else_ :: rest) = .err := by
  simp [assemble]

theorem assemble_ifc_none {c : List Tok} (h : ifDecision (sem.env st) c = none) :
    assemble sem (f + 1) st cnt (.ifc c :: rest) = .err := by
  simp only [assemble, h]

theorem assemble_ifc_some {c : List Tok} {t : Bool} (h : ifDecision (sem.env st) c = some t) :
    assemble sem (f + 1) st cnt (.ifc c :: rest) = branchF sem f st (!t) (cnt + 1) rest := by
  simp only [assemble, h]
  rfl

theorem assemble_ifdef {neg : Bool} {nm : String} :
    assemble sem (f + 1) st cnt (.ifdef neg (some nm) :: rest) =
      branchF sem f st (if sem.env st nm != .undef then neg else !neg) (cnt + 1) rest := by
  simp only [assemble]
  rfl

theorem assemble_ifdef_none {neg : Bool} :
    assemble sem (f + 1) st cnt (.ifdef neg none :: rest) = .err := by
  simp only [assemble]

end steps

/-! ### the branch function -/

section branch
variable {σ St : Type} (sem : Sem σ St) (f : Nat) (st : St) (c1 : Nat) (rest : List (Item σ))

theorem branch_skip_endif {rest' : List (Item σ)} (h : skipItems 0 rest = (.endif, rest')) :
    branchF sem f st true c1 rest = assemble sem f st (c1 - 1) rest' := by
  simp only [branchF, h, if_true]

theorem branch_skip_eof (h : (skipItems 0 rest).1 = .eof) :
    branchF sem f st true c1 rest = .err := by
  cases hs : skipItems 0 rest with
  | mk a b =>
    rw [hs] at h; simp only at h; subst h
    simp only [branchF, hs, if_true]

theorem branch_skip_else_endif {rest' rest'' : List (Item σ)} {st' : St} {c' : Nat}
    (h : skipItems 0 rest = (.else_, rest'))
    (h2 : assemble sem f st c1 rest' = .ret .endif st' c' rest'') :
    branchF sem f st true c1 rest = assemble sem f st' (c' - 1) rest'' := by
  simp only [branchF, h, h2, if_true]

theorem branch_skip_else_err {rest' : List (Item σ)}
    (h : skipItems 0 rest = (.else_, rest')) (h2 : assemble sem f st c1 rest' = .err) :
    branchF sem f st true c1 rest = .err := by
  simp only [branchF, h, h2, if_true]

theorem branch_skip_else_else {rest' rest'' : List (Item σ)} {st' : St} {c' : Nat}
    (h : skipItems 0 rest = (.else_, rest'))
    (h2 : assemble sem f st c1 rest' = .ret .else_ st' c' rest'') :
    branchF sem f st true c1 rest = .err := by
  simp only [branchF, h, h2, if_true]

theorem branch_skip_else_eof {rest' rest'' : List (Item σ)} {st' : St} {c' : Nat}
    (h : skipItems 0 rest = (.else_, rest'))
    (h2 : assemble sem f st c1 rest' = .ret .eof st' c' rest'') :
    branchF sem f st true c1 rest = .err := by
  simp only [branchF, h, h2, if_true]

theorem branch_taken_endif {rest' : List (Item σ)} {st' : St} {c' : Nat}
    (h : assemble sem f st c1 rest = .ret .endif st' c' rest') :
    branchF sem f st false c1 rest = assemble sem f st' (c' - 1) rest' := by
  simp only [branchF, h, if_false, Bool.false_eq_true]

theorem branch_taken_err (h : assemble sem f st c1 rest = .err) :
    branchF sem f st false c1 rest = .err := by
  simp only [branchF, h, if_false, Bool.false_eq_true]

theorem branch_taken_eof {rest' : List (Item σ)} {st' : St} {c' : Nat}
    (h : assemble sem f st c1 rest = .ret .eof st' c' rest') :
    branchF sem f st false c1 rest = .err := by
  simp only [branchF, h, if_false, Bool.false_eq_true]

theorem branch_taken_else_endif {rest' rest'' : List (Item σ)} {st' : St} {c' : Nat}
    (h : assemble sem f st c1 rest = .ret .else_ st' c' rest')
    (h2 : skipItems 0 rest' = (.endif, rest'')) :
    branchF sem f st false c1 rest = assemble sem f st' (c' - 1) rest'' := by
  simp only [branchF, h, h2, if_false, Bool.false_eq_true]

theorem branch_taken_else_else {rest' rest'' : List (Item σ)} {st' : St} {c' : Nat}
    (h : assemble sem f st c1 rest = .ret .else_ st' c' rest')
    (h2 : skipItems 0 rest' = (.else_, rest'')) :
    branchF sem f st false c1 rest = .err := by
  simp only [branchF, h, h2, if_false, Bool.false_eq_true]

theorem branch_taken_else_eof {rest' : List (Item σ)} {st' : St} {c' : Nat}
    (h : assemble sem f st c1 rest = .ret .else_ st' c' rest')
    (h2 : (skipItems 0 rest').1 = .eof) :
    branchF sem f st false c1 rest = .err := by
  cases hs : skipItems 0 rest' with
  | mk a b =>
    rw [hs] at h2; simp only at h2; subst h2
    simp only [branchF, h, hs, if_false, Bool.false_eq_true]

end branch

/-! ### the guards -/

theorem map_ne_eq_map_bne (o : Option (BitVec 32)) :
    o.map (fun v => decide (v ≠ 0)) = o.map (fun v => v != 0) := by
  cases o with
  | none => rfl
  | some v =>
      simp only [Option.map_some, Option.some.injEq, bne]
      by_cases hz : v = 0
      · subst hz; rfl
      · have hb : (v == 0) = false := beq_eq_false_iff_ne.mpr hz
        have hd : decide (v ≠ 0) = true := decide_eq_true hz
        rw [hb, hd]; rfl

theorem ifDecision_guard (hrender : RenderCorrect) (env : Env) (c : C) :
    (Guard.cond c).value env = ifDecision env (c.render ++ [.eol]) := by
  rw [hrender env c]
  exact map_ne_eq_map_bne _

section guard
variable {σ St : Type} (sem : Sem σ St) (f : Nat) (st : St) (cnt : Nat) (rest : List (Item σ))

/-- what `assemble` does at the line that opens a conditional; `d` is the decision taken, which
    is the value of the guard when the evaluator is right -/
theorem guard_step (g : Guard) :
    ∃ d : Option Bool, (RenderCorrect → g.value (sem.env st) = d)
      ∧ (d = none → assemble sem (f + 1) st cnt (g.item :: rest) = .err)
      ∧ (∀ t, d = some t →
          assemble sem (f + 1) st cnt (g.item :: rest) = branchF sem f st (!t) (cnt + 1) rest) := by
  cases g with
  | cond c =>
      refine ⟨ifDecision (sem.env st) (c.render ++ [.eol]), fun hr => ifDecision_guard hr _ c, ?_, ?_⟩
      · intro h; exact assemble_ifc_none sem f st cnt rest h
      · intro t h; exact assemble_ifc_some sem f st cnt rest h
  | ifdef n =>
      refine ⟨some (decide (sem.env st n ≠ .undef)), fun _ => rfl, fun h => by simp at h, ?_⟩
      intro t h
      simp only [Option.some.injEq] at h
      subst h
      simp only [Guard.item]
      rw [assemble_ifdef]
      by_cases hd : sem.env st n = .undef <;> simp [hd]
  | ifndef n =>
      refine ⟨some (decide (sem.env st n = .undef)), fun _ => rfl, fun h => by simp at h, ?_⟩
      intro t h
      simp only [Option.some.injEq] at h
      subst h
      simp only [Guard.item]
      rw [assemble_ifdef]
      by_cases hd : sem.env st n = .undef <;> simp [hd]

theorem guard_cases (g : Guard) :
    assemble sem (f + 1) st cnt (g.item :: rest) = .err
    ∨ assemble sem (f + 1) st cnt (g.item :: rest) = branchF sem f st false (cnt + 1) rest
    ∨ assemble sem (f + 1) st cnt (g.item :: rest) = branchF sem f st true (cnt + 1) rest := by
  obtain ⟨d, _, h1, h2⟩ := guard_step sem f st cnt rest g
  cases d with
  | none => exact Or.inl (h1 rfl)
  | some t =>
      cases t with
      | true => exact Or.inr (Or.inl (h2 true rfl))
      | false => exact Or.inr (Or.inr (h2 false rfl))

end guard

/-! ### skipping -/

theorem skipItems_guard {σ : Type} (g : Guard) (n : Nat) (l : List (Item σ)) :
    skipItems n (g.item :: l) = skipItems (n + 1) l := by
  cases g <;> simp [Guard.item, skipItems]

theorem skipItems_endif_succ {σ : Type} (n : Nat) (l : List (Item σ)) :
    skipItems (n + 1) (.endif :: l) = skipItems n l := by
  simp [skipItems]

theorem skipItems_else_succ {σ : Type} (n : Nat) (l : List (Item σ)) :
    skipItems (n + 1) (.else_ :: l) = skipItems (n + 1) l := by
  simp [skipItems]

/-- a whole block sequence is transparent for the skip loop at every nesting count -/
theorem skipItems_flatten {σ : Type} (b : Blocks σ) :
    ∀ (n : Nat) (k : List (Item σ)), skipItems n (b.flatten ++ k) = skipItems n k := by
  induction b with
  | nil => intro n k; rfl
  | stmt s rest ih => intro n k; simp only [Blocks.flatten, List.cons_append, skipItems]; exact ih n k
  | ite g thn hasElse els rest iht ihe ihr =>
      intro n k
      simp only [Blocks.flatten, List.cons_append, List.append_assoc]
      rw [skipItems_guard, iht]
      cases hasElse
      · simp only [Bool.false_eq_true, if_false, List.nil_append, List.cons_append]
        rw [skipItems_endif_succ, ihr]
      · simp only [if_true, List.cons_append]
        rw [skipItems_else_succ, ihe, skipItems_endif_succ, ihr]

theorem skip_to_endif {σ : Type} (b : Blocks σ) (l : List (Item σ)) :
    skipItems 0 (b.flatten ++ .endif :: l) = (.endif, l) := by
  rw [skipItems_flatten]; simp [skipItems]

theorem skip_to_else {σ : Type} (b : Blocks σ) (l : List (Item σ)) :
    skipItems 0 (b.flatten ++ .else_ :: l) = (.else_, l) := by
  rw [skipItems_flatten]; simp [skipItems]

/-! ### passing a block sequence -/

theorem flatten_ite_false {σ : Type} (g : Guard) (thn els rest : Blocks σ) (k : List (Item σ)) :
    (Blocks.ite g thn false els rest).flatten ++ k
      = g.item :: (thn.flatten ++ .endif :: (rest.flatten ++ k)) := by
  simp [Blocks.flatten]

theorem flatten_ite_true {σ : Type} (g : Guard) (thn els rest : Blocks σ) (k : List (Item σ)) :
    (Blocks.ite g thn true els rest).flatten ++ k
      = g.item :: (thn.flatten ++ .else_ :: (els.flatten ++ .endif :: (rest.flatten ++ k))) := by
  simp [Blocks.flatten]

section core
variable {σ St : Type} (sem : Sem σ St)

/-- `assemble` on `b.flatten ++ k` fails, or runs `b` and goes on with `k` at the same count
    (with enough fuel left); `o` is what happened, which is `b.run` when the evaluator is right -/
def Pass (b : Blocks σ) (st : St) (cnt : Nat) (k : List (Item σ)) (f : Nat) : Prop :=
  ∃ o : Option St, (RenderCorrect → b.run sem st = o)
    ∧ (o = none → assemble sem f st cnt (b.flatten ++ k) = .err)
    ∧ (∀ st', o = some st' →
        ∃ f', k.length + 1 ≤ f' ∧ assemble sem f st cnt (b.flatten ++ k) = assemble sem f' st' cnt k)

variable {sem}

theorem Pass.of_err {b : Blocks σ} {st : St} {cnt : Nat} {k : List (Item σ)} {f : Nat}
    (hrun : RenderCorrect → b.run sem st = none)
    (h : assemble sem f st cnt (b.flatten ++ k) = .err) : Pass sem b st cnt k f :=
  ⟨none, hrun, fun _ => h, fun _ ho => by simp at ho⟩

theorem Pass.trans {b rest : Blocks σ} {st st1 : St} {cnt : Nat} {k : List (Item σ)} {f f0 : Nat}
    (hE : assemble sem f st cnt (b.flatten ++ k) = assemble sem f0 st1 cnt (rest.flatten ++ k))
    (hrun : RenderCorrect → b.run sem st = rest.run sem st1)
    (h : Pass sem rest st1 cnt k f0) : Pass sem b st cnt k f := by
  obtain ⟨o, h1, h2, h3⟩ := h
  refine ⟨o, fun hr => (hrun hr).trans (h1 hr), fun ho => hE.trans (h2 ho), ?_⟩
  intro st' ho
  obtain ⟨f', a, e⟩ := h3 st' ho
  exact ⟨f', a, hE.trans e⟩

theorem Pass.cases {b : Blocks σ} {st : St} {cnt : Nat} {k : List (Item σ)} {f : Nat}
    (h : Pass sem b st cnt k f) :
    assemble sem f st cnt (b.flatten ++ k) = .err
    ∨ ∃ st' f', k.length + 1 ≤ f' ∧ assemble sem f st cnt (b.flatten ++ k) = assemble sem f' st' cnt k := by
  obtain ⟨o, _, h2, h3⟩ := h
  cases o with
  | none => exact Or.inl (h2 rfl)
  | some st' =>
      obtain ⟨f', a, e⟩ := h3 st' rfl
      exact Or.inr ⟨st', f', a, e⟩

variable (sem)

theorem pass_all (b : Blocks σ) : ∀ (st : St) (cnt : Nat) (k : List (Item σ)) (f : Nat),
    (b.flatten ++ k).length + 1 ≤ f → Pass sem b st cnt k f := by
  induction b with
  | nil =>
      intro st cnt k f hlen
      exact ⟨some st, fun _ => rfl, fun h => by simp at h,
        fun st' h => ⟨f, hlen, by simp only [Option.some.injEq] at h; subst h; rfl⟩⟩
  | stmt s rest ih =>
      intro st cnt k f hlen
      obtain ⟨f0, rfl⟩ : ∃ f0, f = f0 + 1 := ⟨f - 1, by omega⟩
      simp only [Blocks.flatten, List.cons_append, List.length_cons] at hlen
      cases he : sem.exec st s with
      | none =>
          exact Pass.of_err (fun _ => by simp [Blocks.run, he])
            (assemble_stmt_none sem f0 st cnt _ he)
      | some st1 =>
          exact Pass.trans (assemble_stmt_some sem f0 st cnt _ he)
            (fun _ => by simp [Blocks.run, he]) (ih st1 cnt k f0 (by omega))
  | ite g thn hasElse els rest iht ihe ihr =>
      intro st cnt k f hlen
      obtain ⟨f0, rfl⟩ : ∃ f0, f = f0 + 1 := ⟨f - 1, by omega⟩
      obtain ⟨d, hd, hdn, hds⟩ := guard_step sem f0 st cnt
        (thn.flatten ++ ((if hasElse then .else_ :: els.flatten else []) ++ .endif :: rest.flatten) ++ k) g
      have hflat : (Blocks.ite g thn hasElse els rest).flatten ++ k
          = g.item :: (thn.flatten ++ ((if hasElse then .else_ :: els.flatten else []) ++ .endif :: rest.flatten) ++ k) := by
        simp [Blocks.flatten]
      cases d with
      | none =>
          refine Pass.of_err (fun hr => by simp [Blocks.run, hd hr]) ?_
          rw [hflat]; exact hdn rfl
      | some t =>
          have hstep := hds t rfl
          rw [← hflat] at hstep
          -- once the branch is done the call goes on with `rest`
          have key : ∀ st1, assemble sem (f0 + 1) st cnt ((Blocks.ite g thn hasElse els rest).flatten ++ k)
                = assemble sem f0 st1 cnt (rest.flatten ++ k) →
              (RenderCorrect → (Blocks.ite g thn hasElse els rest).run sem st = rest.run sem st1) →
              Pass sem (Blocks.ite g thn hasElse els rest) st cnt k (f0 + 1) := by
            intro st1 hE hrun
            refine Pass.trans hE hrun (ihr st1 cnt k f0 ?_)
            rw [hflat] at hlen
            simp only [List.length_cons, List.length_append] at hlen ⊢
            omega
          cases hasElse with
          | false =>
              have htail : (thn.flatten ++ ((if false = true then Item.else_ :: els.flatten else [])
                    ++ .endif :: rest.flatten) ++ k) = thn.flatten ++ .endif :: (rest.flatten ++ k) := by simp
              rw [htail] at hstep
              rw [flatten_ite_false] at hstep hlen
              simp only [List.length_cons, List.length_append] at hlen
              cases t with
              | true =>
                  obtain ⟨ot, hot, hn, hs⟩ := iht st (cnt + 1) (.endif :: (rest.flatten ++ k)) f0
                    (by simp only [List.length_cons, List.length_append]; omega)
                  cases ot with
                  | none =>
                      refine Pass.of_err (fun hr => by simp [Blocks.run, hd hr, hot hr]) ?_
                      rw [flatten_ite_false, hstep]
                      exact branch_taken_err sem f0 st (cnt + 1) _ (hn rfl)
                  | some st1 =>
                      obtain ⟨f1, hf1, e1⟩ := hs st1 rfl
                      obtain ⟨f2, rfl⟩ : ∃ f2, f1 = f2 + 1 := ⟨f1 - 1, by omega⟩
                      rw [assemble_endif sem f2 st1 (cnt + 1) _ (by omega)] at e1
                      refine key st1 ?_ (fun hr => by simp [Blocks.run, hd hr, hot hr])
                      rw [flatten_ite_false, hstep]
                      exact branch_taken_endif sem f0 st (cnt + 1) _ e1
              | false =>
                  refine key st ?_ (fun hr => by simp [Blocks.run, hd hr])
                  rw [flatten_ite_false, hstep]
                  exact branch_skip_endif sem f0 st (cnt + 1) _ (skip_to_endif thn _)
          | true =>
              have htail : (thn.flatten ++ ((if true = true then Item.else_ :: els.flatten else [])
                    ++ .endif :: rest.flatten) ++ k)
                  = thn.flatten ++ .else_ :: (els.flatten ++ .endif :: (rest.flatten ++ k)) := by simp
              rw [htail] at hstep
              rw [flatten_ite_true] at hstep hlen
              simp only [List.length_cons, List.length_append] at hlen
              cases t with
              | true =>
                  obtain ⟨ot, hot, hn, hs⟩ := iht st (cnt + 1)
                    (.else_ :: (els.flatten ++ .endif :: (rest.flatten ++ k))) f0
                    (by simp only [List.length_cons, List.length_append]; omega)
                  cases ot with
                  | none =>
                      refine Pass.of_err (fun hr => by simp [Blocks.run, hd hr, hot hr]) ?_
                      rw [flatten_ite_true, hstep]
                      exact branch_taken_err sem f0 st (cnt + 1) _ (hn rfl)
                  | some st1 =>
                      obtain ⟨f1, hf1, e1⟩ := hs st1 rfl
                      obtain ⟨f2, rfl⟩ : ∃ f2, f1 = f2 + 1 := ⟨f1 - 1, by omega⟩
                      rw [assemble_else sem f2 st1 (cnt + 1) _ (by omega)] at e1
                      refine key st1 ?_ (fun hr => by simp [Blocks.run, hd hr, hot hr])
                      rw [flatten_ite_true, hstep]
                      exact branch_taken_else_endif sem f0 st (cnt + 1) _ e1 (skip_to_endif els _)
              | false =>
                  obtain ⟨oe, hoe, hn, hs⟩ := ihe st (cnt + 1) (.endif :: (rest.flatten ++ k)) f0
                    (by simp only [List.length_cons, List.length_append]; omega)
                  cases oe with
                  | none =>
                      refine Pass.of_err (fun hr => by simp [Blocks.run, hd hr, hoe hr]) ?_
                      rw [flatten_ite_true, hstep]
                      exact branch_skip_else_err sem f0 st (cnt + 1) _ (skip_to_else thn _) (hn rfl)
                  | some st1 =>
                      obtain ⟨f1, hf1, e1⟩ := hs st1 rfl
                      obtain ⟨f2, rfl⟩ : ∃ f2, f1 = f2 + 1 := ⟨f1 - 1, by omega⟩
                      rw [assemble_endif sem f2 st1 (cnt + 1) _ (by omega)] at e1
                      refine key st1 ?_ (fun hr => by simp [Blocks.run, hd hr, hoe hr])
                      rw [flatten_ite_true, hstep]
                      exact branch_skip_else_endif sem f0 st (cnt + 1) _ (skip_to_else thn _) e1

end core

/-! ### the selected statements, and only those -/

/-- One pass over a properly nested source executes exactly the statements of the selected
    branches (every block tree, every statement semantics, every state). -/
theorem selected_only_lemma {σ St : Type} (hrender : RenderCorrect) (sem : Sem σ St) (b : Blocks σ) (st : St) :
    runPass sem st b.flatten = (match b.run sem st with | some st' => .ok st' | none => .err) := by
  obtain ⟨o, ho, hn, hs⟩ := pass_all sem b st 0 [] (b.flatten.length + 1) (by simp)
  rw [ho hrender]
  simp only [List.append_nil] at hn hs
  cases o with
  | none => simp only [runPass, hn rfl]
  | some st' =>
      obtain ⟨f', hf', e⟩ := hs st' rfl
      rw [assemble_nil' sem st' 0 (by omega)] at e
      simp only [runPass, e]

/-! ### malformed sources are errors -/

section errors
variable {σ St : Type} (sem : Sem σ St)

/-- whatever comes after a block sequence: if it is an error in every state, the pass fails
    (needs nothing about the evaluator) -/
theorem runPass_err_of_tail (st : St) (b : Blocks σ) (k : List (Item σ))
    (h : ∀ (st' : St) (f' : Nat), k.length + 1 ≤ f' → assemble sem f' st' 0 k = .err) :
    runPass sem st (b.flatten ++ k) = .err := by
  rcases (pass_all sem b st 0 k ((b.flatten ++ k).length + 1) (Nat.le_refl _)).cases with e | ⟨st', f', hf, e⟩
  · simp only [runPass, e]
  · rw [h st' f' hf] at e
    simp only [runPass, e]

/-- a conditional that is open at the end of the file: `.if` … or `.if` … `.else` … -/
inductive OpenCond (σ : Type) where
  | thn (g : Guard) (t : Blocks σ)
  | els (g : Guard) (t e : Blocks σ)

/-- the lines of an open conditional, followed by `k` (which is inside its last branch) -/
def OpenCond.items : OpenCond σ → List (Item σ) → List (Item σ)
  | .thn g t, k => g.item :: (t.flatten ++ k)
  | .els g t e, k => g.item :: (t.flatten ++ .else_ :: (e.flatten ++ k))

/-- a chain of open conditionals, each inside the last branch of the one before -/
def openItems : List (OpenCond σ) → List (Item σ)
  | [] => []
  | o :: os => o.items (openItems os)

theorem skip_open (os : List (OpenCond σ)) : ∀ n, (skipItems n (openItems os)).1 = .eof := by
  induction os with
  | nil => intro n; rfl
  | cons o os ih =>
      intro n
      cases o with
      | thn g t =>
          simp only [openItems, OpenCond.items]
          rw [skipItems_guard, skipItems_flatten]; exact ih _
      | els g t e =>
          simp only [openItems, OpenCond.items]
          rw [skipItems_guard, skipItems_flatten, skipItems_else_succ, skipItems_flatten]; exact ih _

theorem open_err (os : List (OpenCond σ)) : ∀ (st : St) (cnt f : Nat),
    (openItems os).length + 1 ≤ f → os ≠ [] → assemble sem f st cnt (openItems os) = .err := by
  induction os with
  | nil => intro _ _ _ _ h; exact absurd rfl h
  | cons o os ih =>
      intro st cnt f hlen _
      -- the tail of the chain never ends with `.endif`/`.else`
      have hT : ∀ (st' : St) (c f' : Nat), (openItems os).length + 1 ≤ f' →
          assemble sem f' st' c (openItems os) = .err
          ∨ assemble sem f' st' c (openItems os) = .ret .eof st' c [] := by
        intro st' c f' hf'
        cases os with
        | nil => exact Or.inr (assemble_nil' sem st' c (by omega))
        | cons o' os' => exact Or.inl (ih st' c f' hf' (by simp))
      obtain ⟨f0, rfl⟩ : ∃ f0, f = f0 + 1 := ⟨f - 1, by omega⟩
      cases o with
      | thn g t =>
          simp only [openItems, OpenCond.items, List.length_cons, List.length_append] at hlen ⊢
          rcases guard_cases sem f0 st cnt (t.flatten ++ openItems os) g with e | e | e
          · exact e
          · rw [e]
            rcases (pass_all sem t st (cnt + 1) (openItems os) f0
              (by simp only [List.length_append]; omega)).cases with e1 | ⟨st1, f1, hf1, e1⟩
            · exact branch_taken_err sem f0 st (cnt + 1) _ e1
            · rcases hT st1 (cnt + 1) f1 hf1 with e2 | e2
              · exact branch_taken_err sem f0 st (cnt + 1) _ (e1.trans e2)
              · exact branch_taken_eof sem f0 st (cnt + 1) _ (e1.trans e2)
          · rw [e]
            apply branch_skip_eof
            rw [skipItems_flatten]; exact skip_open os 0
      | els g t e =>
          simp only [openItems, OpenCond.items, List.length_cons, List.length_append] at hlen ⊢
          rcases guard_cases sem f0 st cnt (t.flatten ++ .else_ :: (e.flatten ++ openItems os)) g
            with e0 | e0 | e0
          · exact e0
          · rw [e0]
            rcases (pass_all sem t st (cnt + 1) (.else_ :: (e.flatten ++ openItems os)) f0
              (by simp only [List.length_append, List.length_cons]; omega)).cases
              with e1 | ⟨st1, f1, hf1, e1⟩
            · exact branch_taken_err sem f0 st (cnt + 1) _ e1
            · obtain ⟨f2, rfl⟩ : ∃ f2, f1 = f2 + 1 := ⟨f1 - 1, by omega⟩
              rw [assemble_else sem f2 st1 (cnt + 1) _ (by omega)] at e1
              apply branch_taken_else_eof sem f0 st (cnt + 1) _ e1
              rw [skipItems_flatten]; exact skip_open os 0
          · rw [e0]
            have hsk := skip_to_else t (e.flatten ++ openItems os)
            rcases (pass_all sem e st (cnt + 1) (openItems os) f0
              (by simp only [List.length_append]; omega)).cases with e1 | ⟨st1, f1, hf1, e1⟩
            · exact branch_skip_else_err sem f0 st (cnt + 1) _ hsk e1
            · rcases hT st1 (cnt + 1) f1 hf1 with e2 | e2
              · exact branch_skip_else_err sem f0 st (cnt + 1) _ hsk (e1.trans e2)
              · exact branch_skip_else_eof sem f0 st (cnt + 1) _ hsk (e1.trans e2)

/-- a source that ends inside one or more conditionals (at any nesting depth, in then- or
    else-branches) is an error -/
theorem unterminated_chain_is_error_lemma (st : St) (b : Blocks σ) (os : List (OpenCond σ)) (hos : os ≠ []) :
    runPass sem st (b.flatten ++ openItems os) = .err :=
  runPass_err_of_tail sem st b _ (fun st' f' hf => open_err sem os st' 0 f' hf hos)

end errors

section errors2
variable {σ St : Type}

theorem unterminated_is_error_lemma (hrender : RenderCorrect) (sem : Sem σ St) (st : St) (b thn : Blocks σ) (g : Guard) :
    runPass sem st (b.flatten ++ g.item :: thn.flatten) = .err := by
  have h := unterminated_chain_is_error_lemma sem st b [.thn g thn] (by simp)
  simpa [openItems, OpenCond.items] using h

theorem unterminated_else_is_error_lemma (hrender : RenderCorrect) (sem : Sem σ St) (st : St) (b thn els : Blocks σ) (g : Guard) :
    runPass sem st (b.flatten ++ g.item :: (thn.flatten ++ .else_ :: els.flatten)) = .err := by
  have h := unterminated_chain_is_error_lemma sem st b [.els g thn els] (by simp)
  simpa [openItems, OpenCond.items] using h

theorem stray_endif_is_error_lemma (hrender : RenderCorrect) (sem : Sem σ St) (st : St) (b : Blocks σ) (rest : List (Item σ)) :
    runPass sem st (b.flatten ++ .endif :: rest) = .err := by
  apply runPass_err_of_tail
  intro st' f' hf
  obtain ⟨f0, rfl⟩ : ∃ f0, f' = f0 + 1 := ⟨f' - 1, by omega⟩
  exact assemble_endif_zero sem f0 st' rest

theorem stray_else_is_error_lemma (hrender : RenderCorrect) (sem : Sem σ St) (st : St) (b : Blocks σ) (rest : List (Item σ)) :
    runPass sem st (b.flatten ++ .else_ :: rest) = .err := by
  apply runPass_err_of_tail
  intro st' f' hf
  obtain ⟨f0, rfl⟩ : ∃ f0, f' = f0 + 1 := ⟨f' - 1, by omega⟩
  exact assemble_else_zero sem f0 st' rest

theorem second_else_is_error_lemma (hrender : RenderCorrect) (sem : Sem σ St) (st : St) (b thn els : Blocks σ) (g : Guard)
    (rest : List (Item σ)) :
    runPass sem st (b.flatten ++ g.item :: (thn.flatten ++ .else_ :: (els.flatten ++ .else_ :: rest))) = .err := by
  apply runPass_err_of_tail
  intro st' f' hf
  obtain ⟨f0, rfl⟩ : ∃ f0, f' = f0 + 1 := ⟨f' - 1, by omega⟩
  simp only [List.length_cons, List.length_append] at hf
  rcases guard_cases sem f0 st' 0 (thn.flatten ++ .else_ :: (els.flatten ++ .else_ :: rest)) g with e | e | e
  · exact e
  · rw [e]
    rcases (pass_all sem thn st' 1 (.else_ :: (els.flatten ++ .else_ :: rest)) f0
      (by simp only [List.length_append, List.length_cons]; omega)).cases with e1 | ⟨st1, f1, hf1, e1⟩
    · exact branch_taken_err sem f0 st' 1 _ e1
    · obtain ⟨f2, rfl⟩ : ∃ f2, f1 = f2 + 1 := ⟨f1 - 1, by omega⟩
      rw [assemble_else sem f2 st1 1 _ (by omega)] at e1
      exact branch_taken_else_else sem f0 st' 1 _ e1 (skip_to_else els rest)
  · rw [e]
    have hsk := skip_to_else thn (els.flatten ++ .else_ :: rest)
    rcases (pass_all sem els st' 1 (.else_ :: rest) f0
      (by simp only [List.length_append, List.length_cons]; omega)).cases with e1 | ⟨st1, f1, hf1, e1⟩
    · exact branch_skip_else_err sem f0 st' 1 _ hsk e1
    · obtain ⟨f2, rfl⟩ : ∃ f2, f1 = f2 + 1 := ⟨f1 - 1, by omega⟩
      rw [assemble_else sem f2 st1 1 _ (by omega)] at e1
      exact branch_skip_else_else sem f0 st' 1 _ hsk e1

theorem ifdef_without_label_is_error_lemma (sem : Sem σ St) (st : St) (neg : Bool) (b : Blocks σ) (rest : List (Item σ)) :
    runPass sem st (b.flatten ++ .ifdef neg none :: rest) = .err := by
  apply runPass_err_of_tail
  intro st' f' hf
  obtain ⟨f0, rfl⟩ : ∃ f0, f' = f0 + 1 := ⟨f' - 1, by omega⟩
  exact assemble_ifdef_none sem f0 st' 0 rest

end errors2

/-! ### the defects of the earlier code, now fixed: concrete facts -/

section facts
open Prog

def init : Prog.PSt := { defs := [], syms := [], locked := false, out := [] }

/-- the bytes of a pass, `[999]` when the pass fails -/
def outOf : Res Prog.PSt → List Nat
  | .ok st => st.out
  | _ => [999]

def outOfOpt : Option Prog.PSt → List Nat
  | some st => st.out
  | none => [999]

theorem ifDecision_one (env : Env) : ifDecision env [.num 1, .eol] = some true := by
  simp [ifDecision, evalIfdefExpression, parseTop, fuelFor, parse, loop, applyNot, applyPending, b2i]

theorem ifDecision_zero (env : Env) : ifDecision env [.num 0, .eol] = some false := by
  simp [ifDecision, evalIfdefExpression, parseTop, fuelFor, parse, loop, applyNot, applyPending, b2i]

/-- `.if 1 / .if 0 / .db 1 / .else / .db 2 / .endif / .db 3 / .else / .db 4 / .endif / .db 5` -/
def cexItems : List (Item Prog.Stmt) :=
  [.ifc [.num 1, .eol], .ifc [.num 0, .eol], .stmt (.db 1), .else_, .stmt (.db 2), .endif,
   .stmt (.db 3), .else_, .stmt (.db 4), .endif, .stmt (.db 5)]

/-- the block structure of `cexItems` -/
def cexBlocks : Blocks Prog.Stmt :=
  .ite (.cond (.num 1))
    (.ite (.cond (.num 0)) (.stmt (.db 1) .nil) true (.stmt (.db 2) .nil) (.stmt (.db 3) .nil))
    true (.stmt (.db 4) .nil) (.stmt (.db 5) .nil)

theorem cexBlocks_flatten : cexBlocks.flatten = cexItems := by
  simp [cexBlocks, cexItems, Blocks.flatten, Guard.item, C.render]

section ev
variable {σ St : Type} (sem : Sem σ St) (f : Nat) (st : St) (cnt : Nat) (rest : List (Item σ))

theorem asm_if1 : assemble sem (f + 1) st cnt (.ifc [.num 1, .eol] :: rest)
    = branchF sem f st false (cnt + 1) rest :=
  assemble_ifc_some sem f st cnt rest (ifDecision_one _)

theorem asm_if0 : assemble sem (f + 1) st cnt (.ifc [.num 0, .eol] :: rest)
    = branchF sem f st true (cnt + 1) rest :=
  assemble_ifc_some sem f st cnt rest (ifDecision_zero _)

theorem asm_endif_succ : assemble sem (f + 1) st (cnt + 1) (.endif :: rest)
    = .ret .endif st (cnt + 1) rest := assemble_endif sem f st (cnt + 1) rest (by omega)

theorem asm_else_succ : assemble sem (f + 1) st (cnt + 1) (.else_ :: rest)
    = .ret .else_ st (cnt + 1) rest := assemble_else sem f st (cnt + 1) rest (by omega)

theorem asm_db (st : Prog.PSt) (n : Nat) (rest : List (Item Prog.Stmt)) :
    assemble Prog.sem (f + 1) st cnt (.stmt (.db n) :: rest)
      = assemble Prog.sem f { st with out := st.out ++ [n % 256] } cnt rest :=
  assemble_stmt_some Prog.sem f st cnt rest rfl
end ev

/-- A then-branch that contains an `.else` and is itself followed by an `.else` (the earlier
    code assembled 2 3 4 5): code and specification now agree on 2 3 5. -/
theorem nested_else_fixed :
    outOf (runPass Prog.sem init cexItems) = [2, 3, 5]
    ∧ outOfOpt (cexBlocks.run Prog.sem init) = [2, 3, 5]
    ∧ cexBlocks.flatten = cexItems := by
  refine ⟨?_, ?_, cexBlocks_flatten⟩
  · simp only [runPass, cexItems, List.length, asm_if1, asm_if0, asm_db, asm_endif_succ, asm_else_succ,
      assemble_endif_zero, assemble_else_zero,
      assemble_nil, branchF, skipItems, init, outOf, Nat.reduceAdd, Nat.reduceSub, Nat.reduceMod, if_true,
      if_false, Bool.false_eq_true, List.nil_append, List.cons_append]
  · simp [cexBlocks, Blocks.run, Guard.value, C.eval, Prog.sem, Prog.exec, init, outOfOpt]

/-- an unterminated taken conditional (accepted by the earlier code) is an error -/
theorem unterminated_taken_fixed :
    runPass Prog.sem init [.ifc [.num 1, .eol], .stmt (.db 1)] = .err := by
  simp only [runPass, List.length, asm_if1, asm_if0, asm_db, asm_endif_succ, asm_else_succ,
    assemble_endif_zero, assemble_else_zero,
    assemble_nil, branchF, skipItems, init, outOf, Nat.reduceAdd, Nat.reduceSub, Nat.reduceMod, if_true,
    if_false, Bool.false_eq_true, List.nil_append, List.cons_append]

/-- an extra `.endif` after a taken conditional (accepted by the earlier code) is an error -/
theorem stray_endif_fixed :
    runPass Prog.sem init
      [.ifc [.num 1, .eol], .stmt (.db 1), .endif, .stmt (.db 2), .endif] = .err := by
  simp only [runPass, List.length, asm_if1, asm_if0, asm_db, asm_endif_succ, asm_else_succ,
    assemble_endif_zero, assemble_else_zero,
    assemble_nil, branchF, skipItems, init, outOf, Nat.reduceAdd, Nat.reduceSub, Nat.reduceMod, if_true,
    if_false, Bool.false_eq_true, List.nil_append, List.cons_append]

end facts

end NakenVerif.Cond

/-! axioms used -/
