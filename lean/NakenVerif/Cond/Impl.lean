/-
  Implementation model of conditional assembly (property C10):

  * core/ifdef_expression.cpp : get_operator (regenerated table), eval_operation,
    is_num, parse_defined, parse_ifdef_expression, eval_ifdef_expression
  * core/directives_if.cpp    : ifdef_ignore, parse_ifdef_ignore, parse_ifdef, parse_if
  * core/directives.cpp       : the "if" "ifdef" "ifndef" "else" "endif" cases of parse_directives
  * core/AsmContext.cpp       : the part of assemble() that dispatches statements and maps the
                                return codes (4 -> 2, anything else non-zero -> -1)

  The model mirrors the code AS IT IS (after the fixes 4278804, 502f25e, becf3a5):
    - an operand position accepts only a number, a name, `defined(...)`, '(' or '!'; anything
      else is an error;
    - end of line inside parentheses is an error ("Unbalanced parentheses");
    - a chain of '!' yields 0/1 (`not_seen`), also when the '!' cancel;
    - eval_ifdef_expression returns the truth 0/1 of the expression, -1 only for errors;
    - `.endif` ends the assemble() call of the branch being assembled (return code 5);
      parse_ifdef_ignore checks how each branch ended ("Missing endif", "Unexpected .else").

  `tokens_push` followed by `tokens_get` is modelled by putting the token back in front of the
  stream (never more than one token is pending: every push is followed by a return or by a
  recursive call whose first action is tokens_get).
  `int` is `BitVec 32`; comparisons are signed.
-/
import NakenVerif.Generated.CondOps

namespace NakenVerif.Cond

open NakenVerif.Generated (CondOp condPrecOf condPrecOr)

/-- What parse_ifdef_expression can see of one token. -/
inductive Tok where
  | num (v : BitVec 32)      -- TOKEN_NUMBER, value after atoi
  | op (o : CondOp)          -- a token accepted by get_operator
  | bang                     -- '!'
  | lparen | rparen
  | defined                  -- TOKEN_STRING "defined" (any case)
  | name (s : String)        -- any other TOKEN_STRING
  | eol                      -- TOKEN_EOL / TOKEN_EOF
  | other (k : Nat)          -- any other token ('+', '=', '&', a quoted string, a float ...)
  deriving DecidableEq, Repr, Inhabited

/-- What a name stands for while a condition is evaluated. -/
inductive Ident where
  | undef                    -- neither a macro/define nor a symbol
  | defNum (v : BitVec 32)   -- define without parameters whose text passes is_num; v = atoi
  | defOther                 -- any other define / macro: `defined()` is true, no value
  | sym (v : BitVec 32)      -- symbol (label, .set) with its address
  deriving DecidableEq, Repr, Inhabited

abbrev Env := String → Ident

inductive Res (α : Type) where
  | ok (a : α)
  | err                      -- the C++ returned -1
  | fuel                     -- the model ran out of fuel
  deriving DecidableEq, Repr

def b2i (b : Bool) : BitVec 32 := if b then 1 else 0

/-- eval_operation -/
def evalOperation (o : CondOp) (n1 n2 : BitVec 32) : BitVec 32 :=
  match o with
  | .eq  => b2i (n1 == n2)
  | .ge  => b2i (BitVec.sle n2 n1)
  | .le  => b2i (BitVec.sle n1 n2)
  | .gt  => b2i (BitVec.slt n2 n1)
  | .lt  => b2i (BitVec.slt n1 n2)
  | .or  => b2i ((n1 ||| n2) != 0)
  | .and => b2i (n1 != 0 && n2 != 0)

/-- `if (oper.operation != OPER_NONE) n = eval_operation(oper.operation, n1, n);` -/
def applyPending (oper : Option CondOp) (n1 n : BitVec 32) : BitVec 32 :=
  match oper with
  | none => n
  | some o => evalOperation o n1 n

/-- `if (not_seen == 1) { if (is_not == 1) n = (n == 0); else n = (n != 0); }` -/
def applyNot (notSeen isNot : Bool) (n : BitVec 32) : BitVec 32 :=
  if notSeen then (if isNot then b2i (n == 0) else b2i (n != 0)) else n

/-- the `state` variable -/
inductive PState where
  | s0 | s1 | s2
  deriving DecidableEq, Repr

/-- parse_defined, after the token "defined" has been read -/
def parseDefined (env : Env) (ts : List Tok) : Option (BitVec 32 × List Tok) :=
  match ts with
  | .lparen :: x :: .rparen :: rest =>
      some (match x with
            | .name s => b2i (env s != .undef)
            | _ => 0, rest)
  | _ => none

mutual
/-- parse_ifdef_expression(asm_context, &num, paren_count, precedence, state) -/
def parse (fuel : Nat) (env : Env) (num : BitVec 32) (pc prec : Nat) (state : PState)
    (ts : List Tok) : Res (BitVec 32 × List Tok) :=
  loop fuel env pc prec (state == .s1) state num 0 none false false ts

/-- the `while (true)` loop of parse_ifdef_expression with its local variables
    (`ns` = not_seen, `nt` = is_not) -/
def loop (fuel : Nat) (env : Env) (pc prec : Nat) (isSub : Bool) (state : PState)
    (n n1 : BitVec 32) (oper : Option CondOp) (ns nt : Bool) (ts : List Tok) :
    Res (BitVec 32 × List Tok) :=
  match fuel with
  | 0 => .fuel
  | fuel + 1 =>
    match ts with
    | [] =>
        if pc ≠ 0 then .err                      -- "Unbalanced parentheses."
        else if state = .s1 then .ok (applyPending oper n1 n, []) else .err
    | .eol :: rest =>
        -- the token is pushed back
        if pc ≠ 0 then .err
        else if state = .s1 then .ok (applyPending oper n1 n, .eol :: rest) else .err
    | t :: rest =>
      if state = .s1 then
        match t with
        | .rparen =>
            if pc = 0 then .err
            else .ok (applyPending oper n1 n, if isSub then .rparen :: rest else rest)
        | .op o =>
            if condPrecOf o > prec then
              -- pushed back and read again by the call for the higher precedence
              match parse fuel env n pc (condPrecOf o) .s1 (.op o :: rest) with
              | .ok (v, rest') => loop fuel env pc prec isSub .s1 v n1 oper ns nt rest'
              | .err => .err
              | .fuel => .fuel
            else if condPrecOf o < prec then
              .ok (applyPending oper n1 n, .op o :: rest)
            else
              loop fuel env pc prec isSub .s2 (applyPending oper n1 n) n1 (some o) ns nt rest
        | _ => .err
      else
        let n1' := if state = .s2 then n else n1
        match t with
        | .bang => loop fuel env pc prec isSub state n n1' oper true (!nt) rest
        | .lparen =>
            match parse fuel env n (pc + 1) condPrecOr .s0 rest with
            | .ok (v, rest') => loop fuel env pc prec isSub .s1 (applyNot ns nt v) n1' oper false false rest'
            | .err => .err
            | .fuel => .fuel
        | .defined =>
            match parseDefined env rest with
            | some (v, rest') => loop fuel env pc prec isSub .s1 (applyNot ns nt v) n1' oper false false rest'
            | none => .err
        | .name s =>
            match env s with
            | .sym v => loop fuel env pc prec isSub .s1 (applyNot ns nt v) n1' oper false false rest
            | .defNum v => loop fuel env pc prec isSub .s1 (applyNot ns nt v) n1' oper false false rest
            | _ => .err
        | .num v => loop fuel env pc prec isSub .s1 (applyNot ns nt v) n1' oper false false rest
        | _ => .err                              -- ')' or anything that is not an operand
end

/-- fuel that is enough for every token list (theorem `parse_no_fuel`) -/
def fuelFor (ts : List Tok) : Nat := 3 * ts.length + 3

/-- parse_ifdef_expression as eval_ifdef_expression calls it -/
def parseTop (env : Env) (ts : List Tok) : Res (BitVec 32 × List Tok) :=
  parse (fuelFor ts) env 0 0 condPrecOr .s0 ts

/-- eval_ifdef_expression: the number it returns (the truth 0/1 of the expression, -1 on
    failure) and whether it printed an error.  A token other than end of line after the
    expression prints an error but the truth is returned all the same. -/
def evalIfdefExpression (env : Env) (ts : List Tok) : BitVec 32 × Bool :=
  match parseTop env ts with
  | .ok (v, []) => (b2i (v != 0), false)
  | .ok (v, .eol :: _) => (b2i (v != 0), false)
  | .ok (v, _) => (b2i (v != 0), true)
  | .err => (-1, true)
  | .fuel => (-1, true)

/-- the decision of parse_if: `none` = `return -1` -/
def ifDecision (env : Env) (ts : List Tok) : Option Bool :=
  let num := (evalIfdefExpression env ts).1
  if num = -1 then none else some (num != 0)

/-! ### is_num / atoi, used to turn the text of a define into an `Ident` -/

/-- is_num(value) -/
def isNumAux : List Char → Bool → Bool
  | [], _ => true
  | c :: cs, first =>
      if c = ' ' ∧ !first then cs.all (· = ' ')
      else if c < '0' ∨ c > '9' then false
      else isNumAux cs false

def isNum (s : String) : Bool := isNumAux s.toList true

/-- atoi on text that starts with decimal digits (glibc: (int) strtol(s, 0, 10)) -/
def atoiDigits (cs : List Char) : Nat :=
  (cs.takeWhile (fun c => '0' ≤ c ∧ c ≤ '9')).foldl (fun a c => 10 * a + (c.toNat - 48)) 0

def atoi (s : String) : BitVec 32 :=
  BitVec.ofNat 32 (min (atoiDigits (s.toList.dropWhile (· = ' '))) (2 ^ 63 - 1))

def identOfDefine (value : String) : Ident :=
  if isNum value then .defNum (atoi value) else .defOther

/-! ### ifdef_ignore -/

inductive Kw where
  | if_ | ifdef | ifndef | else_ | endif | other
  deriving DecidableEq, Repr

/-- directive-level view of a token -/
inductive DTok where
  | eol
  | dot                      -- TOKEN_POUND or '.'
  | word (k : Kw)            -- a word; `Kw.other` when it is none of the five (compared with strcasecmp)
  | other                    -- any other token
  deriving DecidableEq, Repr

/-- result of ifdef_ignore: 0 (stopped after `.endif`), 2 (after `.else`), -1 (end of file) -/
inductive SkipRet where
  | endif | else_ | eof
  deriving DecidableEq, Repr

/-- ifdef_ignore with its `nested_if` counter; returns where the token stream stands -/
def ifdefIgnore : Nat → List DTok → SkipRet × List DTok
  | _, [] => (.eof, [])
  | n, .dot :: t :: rest =>
      match t with
      | .word .endif => if n = 0 then (.endif, rest) else ifdefIgnore (n - 1) rest
      | .word .else_ => if n = 0 then (.else_, rest) else ifdefIgnore n rest
      | .word .if_ => ifdefIgnore (n + 1) rest
      | .word .ifdef => ifdefIgnore (n + 1) rest
      | .word .ifndef => ifdefIgnore (n + 1) rest
      | _ => ifdefIgnore n rest
  | n, _ :: rest => ifdefIgnore n rest

/-! ### statement level: assemble(), parse_directives, parse_if, parse_ifdef, parse_ifdef_ignore -/

/-- one source line as the dispatcher of assemble() sees it; `σ` = statements that are not
    conditional directives -/
inductive Item (σ : Type) where
  | stmt (s : σ)
  | ifc (c : List Tok)                         -- .if <condition>
  | ifdef (neg : Bool) (name : Option String)  -- .ifdef / .ifndef (neg) with or without a label
  | else_
  | endif
  deriving Repr

/-- the part of the assembler state that statements act on -/
structure Sem (σ St : Type) where
  exec : St → σ → Option St        -- none = the statement fails (assemble() returns -1)
  env  : St → Env                  -- what conditions see

/-- ifdef_ignore at line granularity (lines of statements contain no conditional directive) -/
def skipItems {σ : Type} : Nat → List (Item σ) → SkipRet × List (Item σ)
  | _, [] => (.eof, [])
  | n, .endif :: rest => if n = 0 then (.endif, rest) else skipItems (n - 1) rest
  | n, .else_ :: rest => if n = 0 then (.else_, rest) else skipItems n rest
  | n, .ifc _ :: rest => skipItems (n + 1) rest
  | n, .ifdef _ _ :: rest => skipItems (n + 1) rest
  | n, .stmt _ :: rest => skipItems n rest

/-- return value of assemble(): 0 at end of file, 2 at `.else`, 5 at `.endif` -/
inductive Code where
  | eof | else_ | endif
  deriving DecidableEq, Repr

inductive ARes (σ St : Type) where
  | ret (code : Code) (st : St) (cnt : Nat) (rest : List (Item σ))
  | err
  | fuel

/-- AsmContext::assemble() with parse_directives / parse_if / parse_ifdef / parse_ifdef_ignore /
    assemble_branch inlined.  `cnt` = ifdef_count. -/
def assemble {σ St : Type} (sem : Sem σ St) (fuel : Nat) (st : St) (cnt : Nat) (items : List (Item σ)) :
    ARes σ St :=
  match fuel with
  | 0 => .fuel
  | fuel + 1 =>
    -- parse_ifdef_ignore(asm_context, ignore) followed by `ifdef_count--` and the next iteration
    let branch (ignore : Bool) (cnt1 : Nat) (rest : List (Item σ)) : ARes σ St :=
      if ignore then
        match skipItems 0 rest with
        | (.eof, _) => .err                                      -- "Missing endif"
        | (.endif, rest') => assemble sem fuel st (cnt1 - 1) rest'
        | (.else_, rest') =>
            -- assemble_branch: the second branch has to end with .endif
            match assemble sem fuel st cnt1 rest' with
            | .ret .endif st' cnt' rest'' => assemble sem fuel st' (cnt' - 1) rest''
            | .ret .else_ _ _ _ => .err                          -- "Unexpected .else"
            | .ret .eof _ _ _ => .err                            -- "Missing endif"
            | .err => .err
            | .fuel => .fuel
      else
        match assemble sem fuel st cnt1 rest with
        | .ret .endif st' cnt' rest' => assemble sem fuel st' (cnt' - 1) rest'
        | .ret .else_ st' cnt' rest' =>
            (match skipItems 0 rest' with
             | (.endif, rest'') => assemble sem fuel st' (cnt' - 1) rest''
             | (.else_, _) => .err                               -- "Unexpected .else"
             | (.eof, _) => .err)                                -- "Missing endif"
        | .ret .eof _ _ _ => .err                                -- "Missing endif"
        | .err => .err
        | .fuel => .fuel
    match items with
    | [] => .ret .eof st cnt []
    | .stmt s :: rest =>
        match sem.exec st s with
        | some st' => assemble sem fuel st' cnt rest
        | none => .err
    | .endif :: rest => if cnt < 1 then .err else .ret .endif st cnt rest
    | .else_ :: rest => if cnt < 1 then .err else .ret .else_ st cnt rest
    | .ifc c :: rest =>
        match ifDecision (sem.env st) c with
        | none => .err
        | some taken => branch (!taken) (cnt + 1) rest
    | .ifdef neg name :: rest =>
        match name with
        | none => .err
        | some nm =>
            let isDef := sem.env st nm != .undef
            branch (if isDef then neg else !neg) (cnt + 1) rest

/-- the whole pass as main() sees it: any non-zero return of the outermost assemble() is a failure -/
def runPass {σ St : Type} (sem : Sem σ St) (st : St) (items : List (Item σ)) : Res St :=
  match assemble sem (items.length + 1) st 0 items with
  | .ret .eof st' _ _ => .ok st'
  | .ret .else_ _ _ _ => .err
  | .ret .endif _ _ _ => .err
  | .err => .err
  | .fuel => .fuel

end NakenVerif.Cond
