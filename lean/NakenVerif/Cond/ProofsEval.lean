import NakenVerif.Cond.Proofs

set_option linter.unusedSimpArgs false
set_option linter.unusedVariables false

namespace NakenVerif.Cond
open NakenVerif.Generated

/-! ### fuel monotonicity -/

abbrev PR := Res (BitVec 32 × List Tok)

/-- the `match … with | .ok (v, rest') => … | .err => .err | .fuel => .fuel` of the two recursive calls -/
def bindK (x : PR) (k : BitVec 32 → List Tok → PR) : PR :=
  match x with
  | .ok (v, rest') => k v rest'
  | .err => .err
  | .fuel => .fuel

@[simp] theorem bindK_ok (v rest') (k : BitVec 32 → List Tok → PR) : bindK (.ok (v, rest')) k = k v rest' := rfl
@[simp] theorem bindK_err (k : BitVec 32 → List Tok → PR) : bindK .err k = .err := rfl
@[simp] theorem bindK_fuel (k : BitVec 32 → List Tok → PR) : bindK .fuel k = .fuel := rfl

section
variable (f : Nat) (env : Env) (pc p : Nat) (sub : Bool) (s : PState) (n n1 : BitVec 32)
  (oper : Option CondOp) (ns nt : Bool) (rest : List Tok)

theorem loop_zero (ts : List Tok) : loop 0 env pc p sub s n n1 oper ns nt ts = .fuel := by
  simp [loop]

theorem loop_lparen (hs : s ≠ .s1) :
    loop (f + 1) env pc p sub s n n1 oper ns nt (.lparen :: rest) =
      bindK (loop f env (pc + 1) condPrecOr false .s0 n 0 none false false rest)
        (fun v rest' => loop f env pc p sub .s1 (applyNot ns nt v) (if s = .s2 then n else n1) oper false false rest') := by
  have e : (PState.s0 == PState.s1) = false := by decide
  simp only [loop, parse, hs, if_false, e]
  split <;> simp_all

theorem loop_s1_op_gt (o : CondOp) (h : condPrecOf o > p) :
    loop (f + 1) env pc p sub .s1 n n1 oper ns nt (.op o :: rest) =
      bindK (loop f env pc (condPrecOf o) true .s1 n 0 none false false (.op o :: rest))
        (fun v rest' => loop f env pc p sub .s1 v n1 oper ns nt rest') := by
  have e : (PState.s1 == PState.s1) = true := by decide
  simp only [loop, parse, h, if_true, e]
  split <;> simp_all

end

theorem bindK_mono {x x' : PR} {k k' : BitVec 32 → List Tok → PR} {r : PR} (hr : r ≠ .fuel)
    (hx : ∀ y, x = y → y ≠ .fuel → x' = y)
    (hk : ∀ v rest', k v rest' = r → k' v rest' = r)
    (h : bindK x k = r) : bindK x' k' = r := by
  cases x with
  | fuel => exact absurd h.symm hr
  | err => rw [hx .err rfl (by simp)]; exact h
  | ok a =>
    obtain ⟨v, rest'⟩ := a
    rw [hx (.ok (v, rest')) rfl (by simp)]
    exact hk _ _ h

theorem loop_mono (env : Env) : ∀ f pc p sub s n n1 oper ns nt ts r,
    loop f env pc p sub s n n1 oper ns nt ts = r → r ≠ .fuel →
    loop (f + 1) env pc p sub s n n1 oper ns nt ts = r := by
  intro f
  induction f with
  | zero => intro pc p sub s n n1 oper ns nt ts r h hr; rw [loop_zero] at h; exact absurd h.symm hr
  | succ f ih =>
    intro pc p sub s n n1 oper ns nt ts r h hr
    by_cases hs : s = .s1
    · subst hs
      cases ts with
      | nil =>
        by_cases hpc : pc = 0
        · rw [loop_s1_nil (hpc := hpc)] at h ⊢; exact h
        · rw [loop_nil_pc (hpc := hpc)] at h ⊢; exact h
      | cons t rest =>
        cases t with
        | eol =>
          by_cases hpc : pc = 0
          · rw [loop_s1_eol (hpc := hpc)] at h ⊢; exact h
          · rw [loop_eol_pc (hpc := hpc)] at h ⊢; exact h
        | rparen =>
          by_cases hpc : pc = 0
          · subst hpc; rw [loop_s1_rparen_zero] at h ⊢; exact h
          · rw [loop_s1_rparen (hpc := hpc)] at h ⊢; exact h
        | op o =>
          by_cases h1 : condPrecOf o > p
          · rw [loop_s1_op_gt (h := h1)] at h ⊢
            exact bindK_mono hr (fun y hy hy' => ih _ _ _ _ _ _ _ _ _ _ _ hy hy')
              (fun v rest' hk => ih _ _ _ _ _ _ _ _ _ _ _ hk hr) h
          · by_cases h2 : condPrecOf o < p
            · rw [loop_s1_op_lt (h := h2)] at h ⊢; exact h
            · have h3 : condPrecOf o = p := by omega
              rw [loop_s1_op_eq (h := h3)] at h ⊢
              exact ih _ _ _ _ _ _ _ _ _ _ _ h hr
        | _ => simp [loop] at h ⊢; exact h
    · generalize hg : f + 1 = g
      cases ts with
      | nil => simp [loop, hs] at h ⊢; exact h
      | cons t rest =>
        cases t with
        | lparen =>
          subst hg
          rw [loop_lparen (hs := hs)] at h ⊢
          exact bindK_mono hr (fun y hy hy' => ih _ _ _ _ _ _ _ _ _ _ _ hy hy')
              (fun v rest' hk => ih _ _ _ _ _ _ _ _ _ _ _ hk hr) h
        | name nm =>
          cases he : env nm <;> simp [loop, hs, he] at h ⊢ <;> subst hg <;>
            first | exact h | exact ih _ _ _ _ _ _ _ _ _ _ _ h hr
        | defined =>
          cases hd : parseDefined env rest <;> simp [loop, hs, hd] at h ⊢ <;> subst hg <;>
            first | exact h | exact ih _ _ _ _ _ _ _ _ _ _ _ h hr
        | _ =>
          simp [loop, hs] at h ⊢ <;> subst hg <;>
            first | exact h | exact ih _ _ _ _ _ _ _ _ _ _ _ h hr

theorem loop_mono_le (env : Env) {f f' pc p sub s n n1 oper ns nt ts r}
    (h : loop f env pc p sub s n n1 oper ns nt ts = r) (hr : r ≠ .fuel) (hf : f ≤ f') :
    loop f' env pc p sub s n n1 oper ns nt ts = r := by
  induction hf with
  | refl => exact h
  | step _ ih => exact loop_mono env _ _ _ _ _ _ _ _ _ _ _ _ ih hr

/-! ### operator position -/

/-- what may follow an operand of level `q` that was rendered without parentheses -/
def HeadOK (q : Nat) : List Tok → Prop
  | [] => True
  | .eol :: _ => True
  | .rparen :: _ => True
  | .op o :: _ => condPrecOf o ≤ q
  | _ => False

theorem HeadOK.mono {q q' : Nat} {rest : List Tok} (h : HeadOK q rest) (hq : q ≤ q') : HeadOK q' rest := by
  cases rest with
  | nil => trivial
  | cons t rest => cases t <;> simp_all [HeadOK] <;> omega

@[simp] theorem applyPending_none (a b : BitVec 32) : applyPending none a b = b := rfl

/-- the pending operator may be applied early when the next token does not bind tighter -/
theorem knorm (env : Env) (f pc p : Nat) (sub : Bool) (n n1 m1 : BitVec 32) (oper : Option CondOp)
    (rest : List Tok) (hd : HeadOK p rest) :
    loop f env pc p sub .s1 n n1 oper false false rest =
      loop f env pc p sub .s1 (applyPending oper n1 n) m1 none false false rest := by
  cases f with
  | zero => simp [loop_zero]
  | succ f =>
    cases rest with
    | nil =>
      by_cases hpc : pc = 0
      · simp [loop_s1_nil, hpc]
      · simp [loop_nil_pc, hpc]
    | cons t rest =>
      cases t with
      | eol =>
        by_cases hpc : pc = 0
        · simp [loop_s1_eol, hpc]
        · simp [loop_eol_pc, hpc]
      | rparen =>
        by_cases hpc : pc = 0
        · subst hpc; simp [loop_s1_rparen_zero]
        · simp [loop_s1_rparen, hpc]
      | op o =>
        have hd' : condPrecOf o ≤ p := hd
        by_cases h2 : condPrecOf o < p
        · simp [loop_s1_op_lt, h2]
        · have h3 : condPrecOf o = p := by omega
          rw [loop_s1_op_eq (h := h3), loop_s1_op_eq (h := h3)]
          simp only [applyPending_none]
          exact loop_s2_n1 ..
      | _ => exact absurd hd (by simp [HeadOK])

/-- leaving the call for level `q` and continuing in the caller at level `p < q` -/
theorem subret (env : Env) (b pc p q : Nat) (sub : Bool) (n n1 m1 : BitVec 32) (oper operp : Option CondOp)
    (rest : List Tok) (r : PR) (hq : p < q) (hd : HeadOK q rest) (hr : r ≠ .fuel)
    (H : loop b env pc p sub .s1 (applyPending oper n1 n) m1 operp false false rest = r) :
    ∃ X, X ≠ .fuel ∧ loop b env pc q true .s1 n n1 oper false false rest = X ∧
      ∀ f, b ≤ f → bindK X (fun v rest' => loop f env pc p sub .s1 v m1 operp false false rest') = r := by
  cases b with
  | zero => rw [loop_zero] at H; exact absurd H.symm hr
  | succ b =>
    cases rest with
    | nil =>
      by_cases hpc : pc = 0
      · refine ⟨.ok (applyPending oper n1 n, []), by simp, loop_s1_nil (hpc := hpc) .., ?_⟩
        intro f hf; simp only [bindK_ok]; exact loop_mono_le env H hr hf
      · rw [loop_nil_pc (hpc := hpc)] at H
        subst H
        exact ⟨.err, by simp, loop_nil_pc (hpc := hpc) .., fun f hf => rfl⟩
    | cons t rest =>
      cases t with
      | eol =>
        by_cases hpc : pc = 0
        · refine ⟨.ok (applyPending oper n1 n, .eol :: rest), by simp, loop_s1_eol (hpc := hpc) .., ?_⟩
          intro f hf; simp only [bindK_ok]; exact loop_mono_le env H hr hf
        · rw [loop_eol_pc (hpc := hpc)] at H
          subst H
          exact ⟨.err, by simp, loop_eol_pc (hpc := hpc) .., fun f hf => rfl⟩
      | rparen =>
        by_cases hpc : pc = 0
        · subst hpc
          rw [loop_s1_rparen_zero] at H
          subst H
          exact ⟨.err, by simp, loop_s1_rparen_zero .., fun f hf => rfl⟩
        · refine ⟨.ok (applyPending oper n1 n, .rparen :: rest), by simp, ?_, ?_⟩
          · rw [loop_s1_rparen (hpc := hpc)]; simp
          · intro f hf; simp only [bindK_ok]; exact loop_mono_le env H hr hf
      | op o =>
        have hd' : condPrecOf o ≤ q := hd
        by_cases h2 : condPrecOf o < q
        · refine ⟨.ok (applyPending oper n1 n, .op o :: rest), by simp, loop_s1_op_lt (h := h2) .., ?_⟩
          intro f hf; simp only [bindK_ok]; exact loop_mono_le env H hr hf
        · have h3 : condPrecOf o = q := by omega
          subst h3
          rw [loop_s1_op_gt (h := hq)] at H
          cases b with
          | zero => rw [loop_zero] at H; exact absurd H.symm hr
          | succ b =>
            rw [loop_s1_op_eq (h := rfl)] at H
            simp only [applyPending_none] at H
            refine ⟨loop b env pc (condPrecOf o) true .s2 (applyPending oper n1 n) 0 (some o) false false rest, ?_, ?_, ?_⟩
            · intro hX; rw [hX] at H; exact absurd H.symm hr
            · have hne : loop b env pc (condPrecOf o) true .s2 (applyPending oper n1 n) 0 (some o) false false rest ≠ .fuel := by
                intro hX; rw [hX] at H; exact absurd H.symm hr
              rw [loop_s1_op_eq (h := rfl), loop_s2_n1 (n1' := 0)]
              exact loop_mono_le env rfl hne (by omega)
            · intro f hf
              exact bindK_mono hr (fun y hy _ => hy) (fun v rest' hk => loop_mono_le env hk hr (by omega)) H
      | _ => exact absurd hd (by simp [HeadOK])

/-! ### operand position -/

/-- what happens after an operand with value `ov` (`none`: the operand has no value) -/
def After (env : Env) (ov : Option (BitVec 32)) (b pc p : Nat) (sub : Bool) (n1 : BitVec 32)
    (oper : Option CondOp) (rest : List Tok) (r : PR) : Prop :=
  match ov with
  | some v => loop b env pc p sub .s1 v n1 oper false false rest = r
  | none => r = .err

theorem After.mono {env ov b b' pc p sub n1 oper rest r} (h : After env ov b pc p sub n1 oper rest r)
    (hr : r ≠ .fuel) (hb : b ≤ b') : After env ov b' pc p sub n1 oper rest r := by
  cases ov with
  | none => exact h
  | some v => exact loop_mono_le env h hr hb

/-- the token list `L` is read in operand position (with the pending flags `ns`, `nt` of a chain
    of `!`) as an operand of level `lev` and value `ov` -/
def ReadsL (env : Env) (L : List Tok) (lev : Nat) (ov : Option (BitVec 32)) (ns nt : Bool) : Prop :=
  ∀ pc p sub s n n1 oper rest r b, s ≠ .s1 → p ≤ lev → (lev = p → oper = none) → HeadOK lev rest →
    r ≠ .fuel →
    After env (ov.map (applyNot ns nt)) b pc p sub (if s = .s2 then n else n1) oper rest r →
    loop (b + 3 * L.length) env pc p sub s n n1 oper ns nt (L ++ rest) = r

@[simp] theorem applyNot_false (nt : Bool) (v : BitVec 32) : applyNot false nt v = v := rfl

theorem map_applyNot_false (nt : Bool) (ov : Option (BitVec 32)) : ov.map (applyNot false nt) = ov := by
  cases ov <;> rfl

theorem reads_num (env : Env) (v : BitVec 32) (ns nt : Bool) : ReadsL env [.num v] 3 (some v) ns nt := by
  intro pc p sub s n n1 oper rest r b hs hp hop hd hr hA
  have hA' := hA.mono hr (show b ≤ b + 2 by omega)
  simp only [After, Option.map] at hA'
  show loop (b + 2 + 1) env pc p sub s n n1 oper ns nt (.num v :: rest) = r
  rw [loop_num (hs := hs)]
  exact hA'

theorem reads_name (env : Env) (nm : String) (ns nt : Bool) :
    ReadsL env [.name nm] 3 (C.eval env (.name nm)) ns nt := by
  intro pc p sub s n n1 oper rest r b hs hp hop hd hr hA
  have hA' := hA.mono hr (show b ≤ b + 2 by omega)
  show loop (b + 2 + 1) env pc p sub s n n1 oper ns nt (.name nm :: rest) = r
  cases he : env nm with
  | sym v =>
    simp only [After, Option.map, C.eval, he] at hA'
    rw [loop_name_sym (hs := hs) (h := he)]; exact hA'
  | defNum v =>
    simp only [After, Option.map, C.eval, he] at hA'
    rw [loop_name_def (hs := hs) (h := he)]; exact hA'
  | undef =>
    simp only [After, Option.map, C.eval, he] at hA'
    rw [loop_name_err (hs := hs) (h1 := by simp [he]) (h2 := by simp [he])]; exact hA'.symm
  | defOther =>
    simp only [After, Option.map, C.eval, he] at hA'
    rw [loop_name_err (hs := hs) (h1 := by simp [he]) (h2 := by simp [he])]; exact hA'.symm

theorem b2i_defined (env : Env) (nm : String) :
    b2i (env nm != .undef) = (if env nm = .undef then 0 else 1) := by
  by_cases h : env nm = .undef <;> simp [h, b2i]

theorem reads_defined (env : Env) (nm : String) (ns nt : Bool) :
    ReadsL env [.defined, .lparen, .name nm, .rparen] 3 (C.eval env (.defined nm)) ns nt := by
  intro pc p sub s n n1 oper rest r b hs hp hop hd hr hA
  have hA' := hA.mono hr (show b ≤ b + 11 by omega)
  simp only [After, Option.map, C.eval] at hA'
  show loop (b + 11 + 1) env pc p sub s n n1 oper ns nt (.defined :: .lparen :: .name nm :: .rparen :: rest) = r
  rw [loop_defined (hs := hs), b2i_defined]
  exact hA'

theorem reads_paren (env : Env) (L : List Tok) (lev : Nat) (ov : Option (BitVec 32)) (ns nt : Bool)
    (hL : ReadsL env L lev ov false false) : ReadsL env (.lparen :: (L ++ [.rparen])) 3 ov ns nt := by
  intro pc p sub s n n1 oper rest r b hs hp hop hd hr hA
  have e : (Tok.lparen :: (L ++ [.rparen])) ++ rest = .lparen :: (L ++ .rparen :: rest) := by simp
  have eb : b + 3 * (Tok.lparen :: (L ++ [.rparen])).length = (b + 5 + 3 * L.length) + 1 := by
    simp; omega
  rw [e, eb, loop_lparen (hs := hs)]
  cases ov with
  | none =>
    have hr' : r = .err := hA
    subst hr'
    rw [hL (pc + 1) condPrecOr false .s0 n 0 none (.rparen :: rest) .err (b + 5) (by decide)
      (by simp [condPrecOr]) (fun _ => rfl) trivial (by simp) rfl]
    rfl
  | some v =>
    have hA' : loop (b + 5 + 3 * L.length) env pc p sub .s1 (applyNot ns nt v) (if s = .s2 then n else n1) oper false false rest = r :=
      loop_mono_le env hA hr (by omega)
    rw [hL (pc + 1) condPrecOr false .s0 n 0 none (.rparen :: rest) (.ok (v, rest)) (b + 5) (by decide)
      (by simp [condPrecOr]) (fun _ => rfl) trivial (by simp)
      (by
        show loop (b + 4 + 1) env (pc + 1) condPrecOr false .s1 v _ none false false (.rparen :: rest) = _
        rw [loop_s1_rparen (hpc := by omega)]; simp)]
    exact hA'

/-- value of `! x` -/
def notVal (v : BitVec 32) : BitVec 32 := if v = 0 then 1 else 0

/-- one more `!` in front: the flags after the `!` applied to `v` = the flags before applied to `! v` -/
theorem applyNot_bang (ns nt : Bool) (h : ns = false → nt = false) (v : BitVec 32) :
    applyNot ns nt (notVal v) = applyNot true (!nt) v := by
  cases ns <;> cases nt <;> by_cases hv : v = 0 <;> simp_all [applyNot, b2i, notVal]

theorem reads_bang (env : Env) (L : List Tok) (ov : Option (BitVec 32)) (ns nt : Bool)
    (hfl : ns = false → nt = false)
    (hL : ReadsL env L 3 ov true (!nt)) : ReadsL env (.bang :: L) 3 (ov.map notVal) ns nt := by
  intro pc p sub s n n1 oper rest r b hs hp hop hd hr hA
  show loop (b + 3 * (L.length + 1)) env pc p sub s n n1 oper ns nt (.bang :: (L ++ rest)) = r
  have eb : b + 3 * (L.length + 1) = (b + 2 + 3 * L.length) + 1 := by omega
  rw [eb, loop_bang (hs := hs)]
  apply hL pc p sub s n _ oper rest r (b + 2) hs hp hop hd hr
  have e1 : (if s = .s2 then n else (if s = .s2 then n else n1)) = (if s = .s2 then n else n1) := by
    split <;> rfl
  have e2 : (ov.map notVal).map (applyNot ns nt) = ov.map (applyNot true (!nt)) := by
    cases ov <;> simp [applyNot_bang ns nt hfl]
  rw [e1, ← e2]
  exact hA.mono hr (by omega)

/-- value of `l o r` -/
def binVal (o : CondOp) (ol or_ : Option (BitVec 32)) : Option (BitVec 32) :=
  match ol, or_ with
  | some a, some b => some (specOp o a b)
  | _, _ => none

theorem reads_bin (env : Env) (o : CondOp) (L R : List Tok) (ll lr : Nat) (ol or_ : Option (BitVec 32))
    (hL : ReadsL env L ll ol false false) (hR : ReadsL env R lr or_ false false)
    (h1 : condPrecOf o ≤ ll) (h2 : condPrecOf o < lr) :
    ReadsL env (L ++ .op o :: R) (condPrecOf o) (binVal o ol or_) false false := by
  intro pc p sub s n n1 oper rest r b hs hp hop hd hr hA
  rw [map_applyNot_false] at hA
  have e : (L ++ .op o :: R) ++ rest = L ++ (.op o :: (R ++ rest)) := by simp
  have eb : b + 3 * (L ++ .op o :: R).length = (b + 3 * R.length + 3) + 3 * L.length := by
    simp; omega
  rw [e, eb]
  apply hL pc p sub s n n1 oper (.op o :: (R ++ rest)) r (b + 3 * R.length + 3) hs (by omega)
    (by intro h; apply hop; omega) (show HeadOK ll (.op o :: _) from h1) hr
  rw [map_applyNot_false]
  generalize (if s = .s2 then n else n1) = n1' at hA ⊢
  cases ol with
  | none => exact hA
  | some lv =>
    show loop (b + 3 * R.length + 2 + 1) env pc p sub .s1 lv n1' oper false false (.op o :: (R ++ rest)) = r
    by_cases hqp : condPrecOf o = p
    · have hon := hop hqp
      subst hon
      rw [loop_s1_op_eq (h := hqp), applyPending_none]
      have eb2 : b + 3 * R.length + 2 = (b + 2) + 3 * R.length := by omega
      rw [eb2]
      apply hR pc p sub .s2 lv n1' (some o) rest r (b + 2) (by decide) (by omega) (by intro h; omega)
        (hd.mono (Nat.le_of_lt h2)) hr
      rw [map_applyNot_false]
      cases or_ with
      | none => exact hA
      | some rv =>
        show loop (b + 2) env pc p sub .s1 rv lv (some o) false false rest = r
        rw [knorm env _ _ _ _ _ _ n1' _ _ (hqp ▸ hd)]
        have hA' : loop b env pc p sub .s1 (specOp o lv rv) n1' none false false rest = r := hA
        rw [← evalOperation_spec] at hA'
        exact loop_mono_le env hA' hr (by omega)
    · have hq : p < condPrecOf o := by omega
      rw [loop_s1_op_gt (h := hq)]
      have eb2 : b + 3 * R.length + 2 = (b + 1 + 3 * R.length) + 1 := by omega
      rw [eb2, loop_s1_op_eq (h := rfl), applyPending_none]
      cases or_ with
      | none =>
        have hr' : r = .err := hA
        subst hr'
        rw [hR pc (condPrecOf o) true .s2 lv 0 (some o) rest .err (b + 1) (by decide) (Nat.le_of_lt h2)
          (by intro h; omega) (hd.mono (Nat.le_of_lt h2)) (by simp) (by rw [map_applyNot_false]; rfl)]
        rfl
      | some rv =>
        have hA' : loop b env pc p sub .s1 (specOp o lv rv) n1' oper false false rest = r := hA
        rw [← evalOperation_spec] at hA'
        obtain ⟨X, hXne, hX, hK⟩ := subret env b pc p (condPrecOf o) sub rv lv n1' (some o) oper rest r hq hd hr hA'
        rw [hR pc (condPrecOf o) true .s2 lv 0 (some o) rest X (b + 1) (by decide) (Nat.le_of_lt h2)
          (by intro h; omega) (hd.mono (Nat.le_of_lt h2)) hXne
          (by rw [map_applyNot_false]; exact loop_mono_le env hX hXne (by omega))]
        exact hK _ (by omega)

/-! ### the evaluator on rendered trees -/

theorem level_of_not_bin (t : C) (h : t.isBin = false) : t.level = 3 := by
  cases t <;> simp_all [C.isBin, C.level]

theorem specLevel_le (o : CondOp) : specLevel o ≤ 3 := by cases o <;> simp [specLevel]

theorem eval_bin (env : Env) (o : CondOp) (l r : C) :
    C.eval env (.bin o l r) = binVal o (l.eval env) (r.eval env) := by
  simp only [C.eval, binVal]
  cases l.eval env <;> cases r.eval env <;> rfl

theorem eval_not (env : Env) (c : C) : C.eval env (.not c) = (c.eval env).map notVal := by
  simp only [C.eval]; rfl

/-- every rendered tree is read as an operand of its level and value; a tree that follows a `!`
    (`ns = true`) is not a bare binary operation -/
theorem reads_render (env : Env) (t : C) : ∀ ns nt, (ns = false → nt = false) →
    (ns = true → t.isBin = false) → ReadsL env t.render t.level (t.eval env) ns nt := by
  induction t with
  | num v => intro ns nt _ _; exact reads_num env v ns nt
  | name nm => intro ns nt _ _; exact reads_name env nm ns nt
  | defined nm => intro ns nt _ _; exact reads_defined env nm ns nt
  | paren c ih =>
    intro ns nt _ _
    exact reads_paren env c.render c.level (c.eval env) ns nt (ih false false (fun _ => rfl) (by simp))
  | not c ih =>
    intro ns nt hfl _
    rw [eval_not]
    show ReadsL env (.bang :: (if c.isBin then .lparen :: (c.render ++ [.rparen]) else c.render)) 3 _ ns nt
    apply reads_bang env _ _ ns nt hfl
    by_cases hb : c.isBin = true
    · rw [if_pos hb]
      exact reads_paren env _ _ _ true (!nt) (ih false false (fun _ => rfl) (by simp))
    · have hb' : c.isBin = false := by simpa using hb
      rw [if_neg hb, ← level_of_not_bin c hb']
      exact ih true (!nt) (by simp) (fun _ => hb')
  | bin o l r ihl ihr =>
    intro ns nt hfl hnb
    have hns : ns = false := by cases ns <;> simp_all [C.isBin]
    have hnt : nt = false := hfl hns
    subst hns; subst hnt
    rw [eval_bin]
    show ReadsL env ((if specLevel o ≤ l.level then l.render else .lparen :: (l.render ++ [.rparen]))
      ++ .op o :: (if specLevel o < r.level then r.render else .lparen :: (r.render ++ [.rparen])))
      (specLevel o) _ false false
    rw [← level_table]
    have HL : ∃ ll, condPrecOf o ≤ ll ∧ ReadsL env (if condPrecOf o ≤ l.level then l.render else .lparen :: (l.render ++ [.rparen])) ll (l.eval env) false false := by
      by_cases hc : condPrecOf o ≤ l.level
      · exact ⟨l.level, hc, by rw [if_pos hc]; exact ihl false false (fun _ => rfl) (by simp)⟩
      · refine ⟨3, by rw [level_table]; exact specLevel_le o, ?_⟩
        rw [if_neg hc]; exact reads_paren env _ _ _ false false (ihl false false (fun _ => rfl) (by simp))
    have HR : ∃ lr, condPrecOf o < lr ∧ ReadsL env (if condPrecOf o < r.level then r.render else .lparen :: (r.render ++ [.rparen])) lr (r.eval env) false false := by
      by_cases hc : condPrecOf o < r.level
      · exact ⟨r.level, hc, by rw [if_pos hc]; exact ihr false false (fun _ => rfl) (by simp)⟩
      · refine ⟨3, by cases o <;> simp [condPrecOf], ?_⟩
        rw [if_neg hc]; exact reads_paren env _ _ _ false false (ihr false false (fun _ => rfl) (by simp))
    obtain ⟨ll, hll, HL⟩ := HL
    obtain ⟨lr, hlr, HR⟩ := HR
    exact reads_bin env o _ _ ll lr _ _ HL HR hll hlr

/-- a rendered tree at the start of a call (state 0, no pending `!`) -/
theorem reads_start (env : Env) (t : C) (pc : Nat) (n0 : BitVec 32) (rest : List Tok) (r : PR) (b : Nat)
    (hd : HeadOK t.level rest) (hr : r ≠ .fuel)
    (hA : After env (t.eval env) b pc 0 false 0 none rest r) :
    loop (b + 3 * t.render.length) env pc 0 false .s0 n0 0 none false false (t.render ++ rest) = r := by
  have H := reads_render env t false false (fun _ => rfl) (by simp) pc 0 false .s0 n0 0 none rest r b
    (by decide) (Nat.zero_le _) (fun _ => rfl) hd hr
  rw [map_applyNot_false] at H
  exact H hA

/-- main theorem: the evaluator run on the rendering of a tree returns the tree's value (and fails
    exactly when the tree has no value), for every sufficient fuel -/
theorem parse_render (env : Env) (t : C) (n0 : BitVec 32) :
    ∀ f, 3 * (t.render.length + 1) + 3 ≤ f →
      parse f env n0 0 condPrecOr .s0 (t.render ++ [.eol]) =
        (match t.eval env with | some v => .ok (v, [.eol]) | none => .err) := by
  intro f hf
  have e : (PState.s0 == PState.s1) = false := by decide
  simp only [parse, e, condPrecOr]
  cases hv : t.eval env with
  | none =>
    exact loop_mono_le env (reads_start env t 0 n0 [.eol] .err 1 trivial (by simp) (by rw [hv]; rfl))
      (by simp) (by omega)
  | some v =>
    exact loop_mono_le env (reads_start env t 0 n0 [.eol] (.ok (v, [.eol])) 1 trivial (by simp)
      (by rw [hv]
          show loop (0 + 1) env 0 0 false .s1 v _ none false false [.eol] = _
          rw [loop_s1_eol (hpc := rfl)]; simp)) (by simp) (by omega)

theorem parseTop_render (env : Env) (t : C) :
    parseTop env (t.render ++ [.eol]) = (match t.eval env with | some v => .ok (v, [.eol]) | none => .err) := by
  unfold parseTop
  exact parse_render env t 0 _ (by simp [fuelFor])

theorem b2i_ne_minus_one (b : Bool) : b2i b ≠ -1 := by cases b <;> simp [b2i] <;> decide

/-- the decision of .if: taken iff the value is non-zero; failure iff the tree has no value -/
theorem ifDecision_render (env : Env) (t : C) :
    ifDecision env (t.render ++ [.eol]) = (t.eval env).map (fun v => v != 0) := by
  unfold ifDecision evalIfdefExpression
  rw [parseTop_render]
  cases t.eval env with
  | none => simp
  | some v =>
    by_cases hv : v = 0
    · subst hv; simp [b2i]
    · have hv' : ¬ v = 0#32 := hv
      simp [b2i, hv']

/-! ### malformed conditions are errors -/

/-- tokens that are not the beginning of an operand -/
def Tok.isJunk : Tok → Bool
  | .op _ => true
  | .other _ => true
  | .rparen => true
  | _ => false

/-- an operator, ')' or any other symbol where an operand is expected -/
theorem junk_err (f : Nat) (env : Env) (pc p : Nat) (sub : Bool) (s : PState) (n n1 : BitVec 32)
    (oper : Option CondOp) (ns nt : Bool) (j : Tok) (hj : j.isJunk) (rest : List Tok) (hs : s ≠ .s1) :
    loop (f + 1) env pc p sub s n n1 oper ns nt (j :: rest) = .err := by
  cases j <;> simp_all [Tok.isJunk, loop]

theorem parseTop_eq (env : Env) (ts : List Tok) :
    parseTop env ts = loop (3 * ts.length + 3) env 0 0 false .s0 0 0 none false false ts := by
  have e : (PState.s0 == PState.s1) = false := by decide
  simp only [parseTop, parse, fuelFor, e, condPrecOr]

theorem parseTop_err_of (env : Env) (ts : List Tok) (b : Nat)
    (h : loop b env 0 0 false .s0 0 0 none false false ts = .err) (hb : b ≤ 3 * ts.length + 3) :
    parseTop env ts = .err := by
  rw [parseTop_eq]; exact loop_mono_le env h (by simp) hb

/-- `v o X` where `X` is rejected in operand position -/
theorem op_then_err (env : Env) (b pc p : Nat) (sub : Bool) (v n1 : BitVec 32) (oper : Option CondOp)
    (o : CondOp) (X : List Tok)
    (hX : ∀ p' sub' n n1 oper, loop b env pc p' sub' .s2 n n1 oper false false X = .err)
    (hp : p ≤ condPrecOf o) :
    loop (b + 2) env pc p sub .s1 v n1 oper false false (.op o :: X) = .err := by
  show loop (b + 1 + 1) env pc p sub .s1 v n1 oper false false (.op o :: X) = .err
  by_cases heq : condPrecOf o = p
  · rw [loop_s1_op_eq (h := heq)]
    exact loop_mono_le env (hX _ _ _ _ _) (by simp) (by omega)
  · have hgt : condPrecOf o > p := by omega
    rw [loop_s1_op_gt (h := hgt), loop_s1_op_eq (h := rfl), hX]
    rfl

/-- `t o X` where `t` is a rendered tree and `X` is rejected in operand position -/
theorem render_op_err (env : Env) (t : C) (o : CondOp) (h : specLevel o ≤ t.level) (X : List Tok)
    (b pc : Nat) (n0 : BitVec 32)
    (hX : ∀ p' sub' n n1 oper, loop b env pc p' sub' .s2 n n1 oper false false X = .err) :
    loop (b + 2 + 3 * t.render.length) env pc 0 false .s0 n0 0 none false false (t.render ++ .op o :: X) = .err := by
  apply reads_start env t pc n0 (.op o :: X) .err (b + 2)
    (show condPrecOf o ≤ t.level by rw [level_table]; exact h) (by simp)
  cases t.eval env with
  | none => rfl
  | some v => exact op_then_err env b pc 0 false v 0 none o X hX (Nat.zero_le _)

theorem junk_operand_is_error_start (env : Env) (j : Tok) (hj : j.isJunk) (rest : List Tok) :
    parseTop env (j :: rest) = .err :=
  parseTop_err_of env _ 1 (junk_err 0 env _ _ _ _ _ _ _ _ _ j hj rest (by decide)) (by omega)

theorem junk_operand_is_error_after_bang (env : Env) (j : Tok) (hj : j.isJunk) (rest : List Tok) :
    parseTop env (.bang :: j :: rest) = .err := by
  apply parseTop_err_of env _ 2 _ (by omega)
  rw [loop_bang (hs := by decide)]
  exact junk_err 0 env _ _ _ _ _ _ _ _ _ j hj rest (by decide)

theorem junk_operand_is_error_after_lparen (env : Env) (j : Tok) (hj : j.isJunk) (rest : List Tok) :
    parseTop env (.lparen :: j :: rest) = .err := by
  apply parseTop_err_of env _ 2 _ (by omega)
  rw [loop_lparen (hs := by decide), junk_err 0 env _ _ _ _ _ _ _ _ _ j hj rest (by decide)]
  rfl

/-- an operator or any other symbol where the right operand is expected is an error, after `t o`
    for every tree `t` and operator `o` that can follow it -/
theorem junk_operand_is_error_lemma (env : Env) (t : C) (o : CondOp) (h : specLevel o ≤ t.level) (j : Tok)
    (hj : j.isJunk) (rest : List Tok) : parseTop env (t.render ++ .op o :: j :: rest) = .err := by
  apply parseTop_err_of env _ (1 + 2 + 3 * t.render.length)
  · exact render_op_err env t o h (j :: rest) 1 0 0
      (fun p' sub' n n1 oper => junk_err 0 env _ _ _ _ _ _ _ _ _ j hj rest (by decide))
  · simp; omega

/-- end of line inside parentheses: `( t` followed by end of line is an error wherever an operand
    may begin (any depth, any level, any state, whatever follows the end of line) -/
theorem lparen_unclosed (env : Env) (t : C) (pc p : Nat) (sub : Bool) (s : PState) (hs : s ≠ .s1)
    (n n1 : BitVec 32) (oper : Option CondOp) (ns nt : Bool) (tail : List Tok) :
    loop (3 * t.render.length + 3) env pc p sub s n n1 oper ns nt (.lparen :: (t.render ++ .eol :: tail)) = .err := by
  show loop (3 * t.render.length + 2 + 1) env pc p sub s n n1 oper ns nt _ = .err
  rw [loop_lparen (hs := hs)]
  have H := reads_start env t (pc + 1) n (.eol :: tail) .err 1 trivial (by simp)
    (by cases t.eval env with
        | none => rfl
        | some v => exact loop_eol_pc (hpc := by omega) ..)
  rw [condPrecOr, loop_mono_le env H (by simp) (by omega)]
  rfl

/-- a missing ')' : for every tree `t`, `( t` without the closing parenthesis fails -/
theorem unclosed_paren_is_error_lemma (env : Env) (t : C) :
    parseTop env (.lparen :: (t.render ++ [.eol])) = .err := by
  apply parseTop_err_of env _ (3 * t.render.length + 3)
  · exact lparen_unclosed env t 0 0 false .s0 (by decide) 0 0 none false false []
  · simp; omega

theorem unclosed_paren_is_error_tail (env : Env) (t : C) (tail : List Tok) :
    parseTop env (.lparen :: (t.render ++ .eol :: tail)) = .err := by
  apply parseTop_err_of env _ (3 * t.render.length + 3)
  · exact lparen_unclosed env t 0 0 false .s0 (by decide) 0 0 none false false tail
  · simp; omega

theorem unclosed_paren_is_error_lemma2 (env : Env) (l t : C) (o : CondOp) (h : specLevel o ≤ l.level) :
    parseTop env (l.render ++ .op o :: .lparen :: (t.render ++ [.eol])) = .err := by
  apply parseTop_err_of env _ ((3 * t.render.length + 3) + 2 + 3 * l.render.length)
  · exact render_op_err env l o h _ _ 0 0
      (fun p' sub' n n1 oper => lparen_unclosed env t 0 p' sub' .s2 (by decide) n n1 oper false false [])
  · simp; omega

/-- other malformed shapes, for every environment -/
theorem malformed_rejected_lemma (env : Env) :
    parseTop env [.eol] = .err ∧ parseTop env [.num 1, .op .eq, .eol] = .err ∧ parseTop env [.num 1, .rparen, .eol] = .err ∧
    parseTop env [.num 1, .num 2, .eol] = .err ∧ parseTop env [.lparen, .rparen, .eol] = .err ∧
    parseTop env [.defined, .name "A", .eol] = .err ∧ parseTop env [.bang, .eol] = .err ∧
    parseTop env [.lparen, .num 1, .eol] = .err ∧ parseTop env [.num 1, .op .eq, .other 0, .eol] = .err := by
  refine ⟨?_, ?_, ?_, ?_, ?_, ?_, ?_, ?_, ?_⟩ <;>
    simp [parseTop, fuelFor, parse, loop, condPrecOr, condPrecOf, parseDefined, applyNot, applyPending]

/-! ### fixed defects, as positive facts -/

theorem double_not_fixed : parseTop (fun _ => .undef) [.bang, .bang, .num 3, .eol] = .ok (1, [.eol]) := by
  simp [parseTop, fuelFor, parse, loop, condPrecOr, applyNot, applyPending, b2i]

theorem if_minus_one_fixed : ifDecision (fun _ => .undef) [.num (-1), .eol] = some true := by
  simp [ifDecision, evalIfdefExpression, parseTop, fuelFor, parse, loop, condPrecOr, applyNot, applyPending, b2i]


end NakenVerif.Cond
