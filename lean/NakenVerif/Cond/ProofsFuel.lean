import NakenVerif.Cond.ProofsEval

set_option linter.unusedSimpArgs false
set_option linter.unusedVariables false

namespace NakenVerif.Cond
open NakenVerif.Generated

/-! ### the evaluator never runs out of fuel -/

theorem bindK_ok_inv {x : PR} {k : BitVec 32 → List Tok → PR} {a : BitVec 32 × List Tok}
    (h : bindK x k = .ok a) : ∃ w r2, x = .ok (w, r2) ∧ k w r2 = .ok a := by
  cases x with
  | fuel => simp at h
  | err => simp at h
  | ok b => obtain ⟨w, r2⟩ := b; exact ⟨w, r2, rfl, h⟩

theorem bindK_ne_fuel {x : PR} {k : BitVec 32 → List Tok → PR}
    (hx : x ≠ .fuel) (hk : ∀ w r2, x = .ok (w, r2) → k w r2 ≠ .fuel) : bindK x k ≠ .fuel := by
  cases x with
  | fuel => exact absurd rfl hx
  | err => simp
  | ok b => obtain ⟨w, r2⟩ := b; exact hk w r2 rfl

theorem condPrecOf_le (o : CondOp) : condPrecOf o ≤ 2 := by cases o <;> simp [condPrecOf]

theorem parseDefined_length {env : Env} {ts : List Tok} {v : BitVec 32} {rest' : List Tok}
    (h : parseDefined env ts = some (v, rest')) : rest'.length ≤ ts.length := by
  unfold parseDefined at h
  split at h
  · simp at h; obtain ⟨_, rfl⟩ := h; simp; omega
  · simp at h

/-- what a call leaves in the stream is not longer than what it was given -/
theorem loop_suffix (env : Env) : ∀ f pc p sub s n n1 oper ns nt ts v rest',
    loop f env pc p sub s n n1 oper ns nt ts = .ok (v, rest') → rest'.length ≤ ts.length := by
  intro f
  induction f with
  | zero => intro pc p sub s n n1 oper ns nt ts v rest' h; rw [loop_zero] at h; simp at h
  | succ f ih =>
    intro pc p sub s n n1 oper ns nt ts v rest' h
    by_cases hs : s = .s1
    · subst hs
      cases ts with
      | nil =>
        by_cases hpc : pc = 0
        · rw [loop_s1_nil (hpc := hpc)] at h; simp at h; simp [h.2.symm]
        · rw [loop_nil_pc (hpc := hpc)] at h; simp at h
      | cons t rest =>
        cases t with
        | eol =>
          by_cases hpc : pc = 0
          · rw [loop_s1_eol (hpc := hpc)] at h; simp at h; simp [h.2.symm]
          · rw [loop_eol_pc (hpc := hpc)] at h; simp at h
        | rparen =>
          by_cases hpc : pc = 0
          · subst hpc; rw [loop_s1_rparen_zero] at h; simp at h
          · rw [loop_s1_rparen (hpc := hpc)] at h
            simp at h
            rw [← h.2]
            cases sub <;> simp
        | op o =>
          by_cases h1 : condPrecOf o > p
          · rw [loop_s1_op_gt (h := h1)] at h
            obtain ⟨w, r2, hx, hk⟩ := bindK_ok_inv h
            have a1 := ih _ _ _ _ _ _ _ _ _ _ _ _ hx
            have a2 := ih _ _ _ _ _ _ _ _ _ _ _ _ hk
            omega
          · by_cases h2 : condPrecOf o < p
            · rw [loop_s1_op_lt (h := h2)] at h; simp at h; simp [h.2.symm]
            · have h3 : condPrecOf o = p := by omega
              rw [loop_s1_op_eq (h := h3)] at h
              have a1 := ih _ _ _ _ _ _ _ _ _ _ _ _ h
              simp; omega
        | _ => simp [loop] at h
    · cases ts with
      | nil => simp [loop, hs] at h
      | cons t rest =>
        cases t with
        | lparen =>
          rw [loop_lparen (hs := hs)] at h
          obtain ⟨w, r2, hx, hk⟩ := bindK_ok_inv h
          have a1 := ih _ _ _ _ _ _ _ _ _ _ _ _ hx
          have a2 := ih _ _ _ _ _ _ _ _ _ _ _ _ hk
          simp; omega
        | name nm =>
          cases he : env nm <;> simp [loop, hs, he] at h <;>
            (have a1 := ih _ _ _ _ _ _ _ _ _ _ _ _ h; simp; omega)
        | defined =>
          cases hd : parseDefined env rest with
          | none => simp [loop, hs, hd] at h
          | some a =>
            obtain ⟨w, r2⟩ := a
            simp [loop, hs, hd] at h
            have a1 := ih _ _ _ _ _ _ _ _ _ _ _ _ h
            have a2 := parseDefined_length hd
            simp; omega
        | _ =>
          simp [loop, hs] at h <;>
            (have a1 := ih _ _ _ _ _ _ _ _ _ _ _ _ h; simp; omega)

/-- the call for a higher precedence consumes the operator it was entered with -/
theorem loop_suffix_sub (env : Env) (f pc : Nat) (n : BitVec 32) (o : CondOp) (rest : List Tok)
    (v : BitVec 32) (rest' : List Tok)
    (h : loop f env pc (condPrecOf o) true .s1 n 0 none false false (.op o :: rest) = .ok (v, rest')) :
    rest'.length ≤ rest.length := by
  cases f with
  | zero => rw [loop_zero] at h; simp at h
  | succ f =>
    rw [loop_s1_op_eq (h := rfl)] at h
    exact loop_suffix env _ _ _ _ _ _ _ _ _ _ _ _ _ h

/-- potential argument: `3 * length + 3 - precedence` bounds the fuel a call needs -/
theorem loop_no_fuel (env : Env) : ∀ f pc p sub s n n1 oper ns nt ts,
    p ≤ 2 → 3 * ts.length + 3 - p ≤ f → loop f env pc p sub s n n1 oper ns nt ts ≠ .fuel := by
  intro f
  induction f with
  | zero => intro pc p sub s n n1 oper ns nt ts hp hf; omega
  | succ f ih =>
    intro pc p sub s n n1 oper ns nt ts hp hf
    by_cases hs : s = .s1
    · subst hs
      cases ts with
      | nil =>
        by_cases hpc : pc = 0
        · rw [loop_s1_nil (hpc := hpc)]; simp
        · rw [loop_nil_pc (hpc := hpc)]; simp
      | cons t rest =>
        simp only [List.length_cons] at hf
        cases t with
        | eol =>
          by_cases hpc : pc = 0
          · rw [loop_s1_eol (hpc := hpc)]; simp
          · rw [loop_eol_pc (hpc := hpc)]; simp
        | rparen =>
          by_cases hpc : pc = 0
          · subst hpc; rw [loop_s1_rparen_zero]; simp
          · rw [loop_s1_rparen (hpc := hpc)]; simp
        | op o =>
          have ho := condPrecOf_le o
          by_cases h1 : condPrecOf o > p
          · rw [loop_s1_op_gt (h := h1)]
            apply bindK_ne_fuel
            · exact ih _ _ _ _ _ _ _ _ _ _ ho (by simp only [List.length_cons]; omega)
            · intro w r2 hx
              have a1 := loop_suffix_sub env _ _ _ _ _ _ _ hx
              exact ih _ _ _ _ _ _ _ _ _ _ hp (by omega)
          · by_cases h2 : condPrecOf o < p
            · rw [loop_s1_op_lt (h := h2)]; simp
            · have h3 : condPrecOf o = p := by omega
              rw [loop_s1_op_eq (h := h3)]
              exact ih _ _ _ _ _ _ _ _ _ _ hp (by omega)
        | _ => simp [loop]
    · cases ts with
      | nil => simp [loop, hs]
      | cons t rest =>
        simp only [List.length_cons] at hf
        cases t with
        | lparen =>
          rw [loop_lparen (hs := hs)]
          apply bindK_ne_fuel
          · exact ih _ _ _ _ _ _ _ _ _ _ (by simp [condPrecOr]) (by simp only [condPrecOr]; omega)
          · intro w r2 hx
            have a1 := loop_suffix env _ _ _ _ _ _ _ _ _ _ _ _ _ hx
            exact ih _ _ _ _ _ _ _ _ _ _ hp (by omega)
        | name nm =>
          cases he : env nm <;> simp [loop, hs, he] <;>
            exact ih _ _ _ _ _ _ _ _ _ _ hp (by omega)
        | defined =>
          cases hd : parseDefined env rest with
          | none => simp [loop, hs, hd]
          | some a =>
            obtain ⟨w, r2⟩ := a
            have a2 := parseDefined_length hd
            simp [loop, hs, hd]
            exact ih _ _ _ _ _ _ _ _ _ _ hp (by omega)
        | _ =>
          simp [loop, hs] <;> exact ih _ _ _ _ _ _ _ _ _ _ hp (by omega)

/-- no fault: the evaluator model never runs out of fuel, whatever the tokens -/
theorem parseTop_no_fuel (env : Env) (ts : List Tok) : parseTop env ts ≠ .fuel := by
  unfold parseTop parse
  exact loop_no_fuel env _ _ _ _ _ _ _ _ _ _ _ (by simp [condPrecOr]) (by simp [fuelFor, condPrecOr])

/-- the result of the model does not depend on the fuel above the bound -/
theorem parse_fuel_irrelevant (env : Env) (ts : List Tok) (f : Nat) (h : fuelFor ts ≤ f) :
    parse f env 0 0 condPrecOr .s0 ts = parseTop env ts := by
  have hne := parseTop_no_fuel env ts
  unfold parseTop parse at hne ⊢
  exact loop_mono_le env rfl hne h


end NakenVerif.Cond
