/-
  Specification of conditional assembly (property C10), written from the property text and
  docs/directives.md, independent of the evaluator:

  * a condition is a *tree*; `||` binds loosest, then `&&`, then the comparisons
    `== < > <= >=`, then `!`; operators of one level associate to the left;
    values are 32-bit signed integers, comparisons and logic yield 0/1, truth = non-zero;
    `defined(NAME)` is 1 when NAME is a define, a macro or a symbol; a name stands for the
    value of a numeric define or of a symbol, anything else has no value;
  * `render` writes a tree with parentheses exactly where precedence and left association need
    them (redundant parentheses are the `paren` node);
  * a program is a tree of blocks `if guard then-blocks [else else-blocks] endif`;
    `Blocks.run` executes exactly the statements of the selected branches.
-/
import NakenVerif.Cond.Impl

namespace NakenVerif.Cond

open NakenVerif.Generated (CondOp)

inductive C where
  | num (v : BitVec 32)
  | name (s : String)
  | defined (s : String)
  | not (c : C)
  | paren (c : C)
  | bin (o : CondOp) (l r : C)
  deriving Repr, DecidableEq, Inhabited

/-- precedence levels of the property text: `||` < `&&` < comparisons (< `!` and operands = 3) -/
def specLevel : CondOp → Nat
  | .or => 0
  | .and => 1
  | .eq | .ge | .le | .gt | .lt => 2

/-- 32-bit signed meaning of the operators; results are 0/1 -/
def specOp (o : CondOp) (a b : BitVec 32) : BitVec 32 :=
  match o with
  | .eq  => if a = b then 1 else 0
  | .ge  => if a.toInt ≥ b.toInt then 1 else 0
  | .le  => if a.toInt ≤ b.toInt then 1 else 0
  | .gt  => if a.toInt > b.toInt then 1 else 0
  | .lt  => if a.toInt < b.toInt then 1 else 0
  | .or  => if a ≠ 0 ∨ b ≠ 0 then 1 else 0
  | .and => if a ≠ 0 ∧ b ≠ 0 then 1 else 0

/-- value of a tree; `none` = the condition has no value (unknown name, non-numeric define) -/
def C.eval (env : Env) : C → Option (BitVec 32)
  | .num v => some v
  | .name s =>
      match env s with
      | .sym v => some v
      | .defNum v => some v
      | _ => none
  | .defined s => some (if env s = .undef then 0 else 1)
  | .not c => (c.eval env).map (fun v => if v = 0 then 1 else 0)
  | .paren c => c.eval env
  | .bin o l r =>
      match l.eval env, r.eval env with
      | some a, some b => some (specOp o a b)
      | _, _ => none

def C.level : C → Nat
  | .bin o _ _ => specLevel o
  | _ => 3

def C.isBin : C → Bool
  | .bin _ _ _ => true
  | _ => false

/-- conventional notation with minimal parentheses -/
def C.render : C → List Tok
  | .num v => [.num v]
  | .name s => [.name s]
  | .defined s => [.defined, .lparen, .name s, .rparen]
  | .not c => .bang :: (if c.isBin then .lparen :: (c.render ++ [.rparen]) else c.render)
  | .paren c => .lparen :: (c.render ++ [.rparen])
  | .bin o l r =>
      (if specLevel o ≤ l.level then l.render else .lparen :: (l.render ++ [.rparen]))
      ++ .op o ::
      (if specLevel o < r.level then r.render else .lparen :: (r.render ++ [.rparen]))

/-! ### block structure -/

inductive Guard where
  | cond (c : C)
  | ifdef (name : String)
  | ifndef (name : String)
  deriving Repr

/-- `some true` = the then-branch is selected; `none` = the condition has no value -/
def Guard.value (env : Env) : Guard → Option Bool
  | .cond c => (c.eval env).map (fun v => v ≠ 0)
  | .ifdef n => some (env n ≠ .undef)
  | .ifndef n => some (env n = .undef)

/-- a sequence of blocks: statements and conditionals (`hasElse = false`: no `.else`, `els` unused) -/
inductive Blocks (σ : Type) where
  | nil
  | stmt (s : σ) (rest : Blocks σ)
  | ite (g : Guard) (thn : Blocks σ) (hasElse : Bool) (els : Blocks σ) (rest : Blocks σ)

/-- executes exactly the statements of the selected branches, in order; `none` = a selected
    statement fails or a condition has no value -/
def Blocks.run {σ St : Type} (sem : Sem σ St) : Blocks σ → St → Option St
  | .nil, st => some st
  | .stmt s rest, st =>
      match sem.exec st s with
      | some st' => rest.run sem st'
      | none => none
  | .ite g thn hasElse els rest, st =>
      match g.value (sem.env st) with
      | none => none
      | some true =>
          (match thn.run sem st with
           | some st' => rest.run sem st'
           | none => none)
      | some false =>
          if hasElse then
            (match els.run sem st with
             | some st' => rest.run sem st'
             | none => none)
          else rest.run sem st

def Guard.item {σ : Type} : Guard → Item σ
  | .cond c => .ifc (c.render ++ [.eol])
  | .ifdef n => .ifdef false (some n)
  | .ifndef n => .ifdef true (some n)

/-- the source lines of a block sequence -/
def Blocks.flatten {σ : Type} : Blocks σ → List (Item σ)
  | .nil => []
  | .stmt s rest => .stmt s :: rest.flatten
  | .ite g thn hasElse els rest =>
      g.item :: (thn.flatten ++ ((if hasElse then .else_ :: els.flatten else []) ++ .endif :: rest.flatten))

end NakenVerif.Cond
