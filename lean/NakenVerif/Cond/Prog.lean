/-
  A concrete instance of the statement semantics used by the `blk` correspondence stream:
  programs made of `.db N`, `NAME:`, `.define NAME VALUE`, an unknown directive, and
  conditional directives, assembled in two passes as main() of naken_asm does.
-/
import NakenVerif.Cond.Impl

namespace NakenVerif.Cond.Prog
open NakenVerif.Cond

inductive Stmt where
  | db (n : Nat)                       -- .db N
  | label (s : String)                 -- NAME:
  | define (s : String) (v : String)   -- .define NAME VALUE
  | bad                                -- a statement that fails (unknown directive)
  deriving Repr, DecidableEq

structure PSt where
  defs : List (String × Ident)     -- macros/defines, oldest first
  syms : List (String × Nat)       -- symbols with their address, oldest first
  locked : Bool                    -- pass 2: the symbol table is locked
  out : List Nat                   -- bytes emitted in this pass (address = length)
  deriving Repr

def lookupDef (st : PSt) (s : String) : Option Ident := (st.defs.find? (·.1 == s)).map (·.2)
def lookupSym (st : PSt) (s : String) : Option Nat := (st.syms.find? (·.1 == s)).map (·.2)

/-- macros_lookup first, then symbols.find -/
def envOf (st : PSt) : Env := fun s =>
  match lookupDef st s with
  | some i => i
  | none =>
    match lookupSym st s with
    | some a => .sym (BitVec.ofNat 32 a)
    | none => .undef

def exec (st : PSt) : Stmt → Option PSt
  | .db n => some { st with out := st.out ++ [n % 256] }
  | .label s =>
      if (lookupDef st s).isSome then none               -- print_already_defined
      else if st.locked then some st                       -- Symbols::append when locked
      else if (lookupSym st s).isSome then none            -- "already defined"
      else some { st with syms := st.syms ++ [(s, st.out.length)] }
  | .define s v =>
      -- macros_parse ignores the result of macros_append: a redefinition prints an error and goes on
      if (lookupDef st s).isSome ∨ (lookupSym st s).isSome then some st
      else some { st with defs := st.defs ++ [(s, identOfDefine (v ++ " "))] }   -- macros_parse appends a blank
  | .bad => none

def sem : Sem Stmt PSt := { exec := exec, env := envOf }

structure Outcome where
  p1 : List Nat
  p2 : List Nat
  syms : List (String × Nat)

/-- both passes -/
def run (items : List (Item Stmt)) : Res Outcome :=
  match runPass sem { defs := [], syms := [], locked := false, out := [] } items with
  | .ok st1 =>
      match runPass sem { defs := [], syms := st1.syms, locked := true, out := [] } items with
      | .ok st2 => .ok { p1 := st1.out, p2 := st2.out ++ st1.out.drop st2.out.length, syms := st2.syms }
      | .err => .err
      | .fuel => .fuel
  | .err => .err
  | .fuel => .fuel

end NakenVerif.Cond.Prog
