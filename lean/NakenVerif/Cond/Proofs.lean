import NakenVerif.Cond.Spec
import Std.Tactic.BVDecide

set_option linter.unusedSimpArgs false
set_option linter.unusedVariables false

namespace NakenVerif.Cond
open NakenVerif.Generated

/-! ### operators -/

theorem level_table (o : CondOp) : condPrecOf o = specLevel o := by cases o <;> rfl

theorem or_zero (a b : BitVec 32) : ((a ||| b) != 0) = (decide (a ≠ 0 ∨ b ≠ 0)) := by
  have h : (a ||| b = 0) ↔ (a = 0 ∧ b = 0) := by
    constructor
    · intro h; constructor <;> bv_decide
    · rintro ⟨rfl, rfl⟩; rfl
  by_cases h1 : a ||| b = 0
  · have := h.mp h1; simp [h1, this.1, this.2]
  · have h2 : ¬ (a = 0 ∧ b = 0) := fun x => h1 (h.mpr x)
    simp only [bne_iff_ne, ne_eq, h1, not_false_eq_true]
    by_cases ha : a = 0 <;> by_cases hb : b = 0 <;> simp_all

theorem evalOperation_spec (o : CondOp) (a b : BitVec 32) : evalOperation o a b = specOp o a b := by
  cases o <;> simp only [evalOperation, specOp, b2i]
  · by_cases h : a = b <;> simp [h]
  · simp only [BitVec.sle, ge_iff_le]; by_cases h : b.toInt ≤ a.toInt <;> simp [h]
  · simp only [BitVec.sle]; by_cases h : a.toInt ≤ b.toInt <;> simp [h]
  · simp only [BitVec.slt, gt_iff_lt]; by_cases h : b.toInt < a.toInt <;> simp [h]
  · simp only [BitVec.slt]; by_cases h : a.toInt < b.toInt <;> simp [h]
  · rw [or_zero]; by_cases h : a ≠ 0 ∨ b ≠ 0 <;> simp [h]
  · by_cases ha : a = 0 <;> by_cases hb : b = 0 <;> simp [ha, hb]


/-! ### one iteration of the loop -/

section steps
variable (f : Nat) (env : Env) (pc p : Nat) (sub : Bool) (s : PState) (n n1 : BitVec 32)
  (oper : Option CondOp) (ns nt : Bool) (rest : List Tok)

theorem loop_num (hs : s ≠ .s1) (v : BitVec 32) :
    loop (f + 1) env pc p sub s n n1 oper ns nt (.num v :: rest) =
      loop f env pc p sub .s1 (applyNot ns nt v) (if s = .s2 then n else n1) oper false false rest := by
  simp [loop, hs]

theorem loop_bang (hs : s ≠ .s1) :
    loop (f + 1) env pc p sub s n n1 oper ns nt (.bang :: rest) =
      loop f env pc p sub s n (if s = .s2 then n else n1) oper true (!nt) rest := by
  simp [loop, hs]

theorem loop_name_sym (hs : s ≠ .s1) (nm : String) (v : BitVec 32) (h : env nm = .sym v) :
    loop (f + 1) env pc p sub s n n1 oper ns nt (.name nm :: rest) =
      loop f env pc p sub .s1 (applyNot ns nt v) (if s = .s2 then n else n1) oper false false rest := by
  simp [loop, hs, h]

theorem loop_name_def (hs : s ≠ .s1) (nm : String) (v : BitVec 32) (h : env nm = .defNum v) :
    loop (f + 1) env pc p sub s n n1 oper ns nt (.name nm :: rest) =
      loop f env pc p sub .s1 (applyNot ns nt v) (if s = .s2 then n else n1) oper false false rest := by
  simp [loop, hs, h]

theorem loop_name_err (hs : s ≠ .s1) (nm : String) (h1 : ∀ v, env nm ≠ .sym v) (h2 : ∀ v, env nm ≠ .defNum v) :
    loop (f + 1) env pc p sub s n n1 oper ns nt (.name nm :: rest) = .err := by
  cases h : env nm <;> simp_all [loop]

theorem loop_defined (hs : s ≠ .s1) (nm : String) :
    loop (f + 1) env pc p sub s n n1 oper ns nt (.defined :: .lparen :: .name nm :: .rparen :: rest) =
      loop f env pc p sub .s1 (applyNot ns nt (b2i (env nm != .undef))) (if s = .s2 then n else n1) oper false false rest := by
  simp [loop, hs, parseDefined]

theorem loop_lparen_ok (hs : s ≠ .s1) (v : BitVec 32) (rest' : List Tok)
    (h : parse f env n (pc + 1) condPrecOr .s0 rest = .ok (v, rest')) :
    loop (f + 1) env pc p sub s n n1 oper ns nt (.lparen :: rest) =
      loop f env pc p sub .s1 (applyNot ns nt v) (if s = .s2 then n else n1) oper false false rest' := by
  simp [loop, hs, h]

theorem loop_lparen_err (hs : s ≠ .s1)
    (h : parse f env n (pc + 1) condPrecOr .s0 rest = .err) :
    loop (f + 1) env pc p sub s n n1 oper ns nt (.lparen :: rest) = .err := by
  simp [loop, hs, h]

/-- an operator, ')' or any other symbol in operand position is an error -/
theorem loop_junk_op (hs : s ≠ .s1) (o : CondOp) :
    loop (f + 1) env pc p sub s n n1 oper ns nt (.op o :: rest) = .err := by
  simp [loop, hs]

theorem loop_junk_other (hs : s ≠ .s1) (k : Nat) :
    loop (f + 1) env pc p sub s n n1 oper ns nt (.other k :: rest) = .err := by
  simp [loop, hs]

theorem loop_junk_rparen (hs : s ≠ .s1) :
    loop (f + 1) env pc p sub s n n1 oper ns nt (.rparen :: rest) = .err := by
  simp [loop, hs]

theorem loop_s0_nil (hs : s ≠ .s1) :
    loop (f + 1) env pc p sub s n n1 oper ns nt [] = .err := by
  simp [loop, hs]

theorem loop_s0_eol (hs : s ≠ .s1) :
    loop (f + 1) env pc p sub s n n1 oper ns nt (.eol :: rest) = .err := by
  simp [loop, hs]

/-- end of input inside parentheses is an error in every state -/
theorem loop_nil_pc (hpc : pc ≠ 0) :
    loop (f + 1) env pc p sub s n n1 oper ns nt [] = .err := by
  simp [loop, hpc]

theorem loop_eol_pc (hpc : pc ≠ 0) :
    loop (f + 1) env pc p sub s n n1 oper ns nt (.eol :: rest) = .err := by
  simp [loop, hpc]

theorem loop_s1_nil (hpc : pc = 0) :
    loop (f + 1) env pc p sub .s1 n n1 oper ns nt [] = .ok (applyPending oper n1 n, []) := by
  simp [loop, hpc]

theorem loop_s1_eol (hpc : pc = 0) :
    loop (f + 1) env pc p sub .s1 n n1 oper ns nt (.eol :: rest) = .ok (applyPending oper n1 n, .eol :: rest) := by
  simp [loop, hpc]

theorem loop_s1_rparen (hpc : pc ≠ 0) :
    loop (f + 1) env pc p sub .s1 n n1 oper ns nt (.rparen :: rest) =
      .ok (applyPending oper n1 n, if sub then .rparen :: rest else rest) := by
  simp [loop, hpc]

theorem loop_s1_rparen_zero :
    loop (f + 1) env 0 p sub .s1 n n1 oper ns nt (.rparen :: rest) = .err := by
  simp [loop]

theorem loop_s1_op_lt (o : CondOp) (h : condPrecOf o < p) :
    loop (f + 1) env pc p sub .s1 n n1 oper ns nt (.op o :: rest) = .ok (applyPending oper n1 n, .op o :: rest) := by
  have : ¬ (condPrecOf o > p) := by omega
  simp [loop, h, this]

theorem loop_s1_op_eq (o : CondOp) (h : condPrecOf o = p) :
    loop (f + 1) env pc p sub .s1 n n1 oper ns nt (.op o :: rest) =
      loop f env pc p sub .s2 (applyPending oper n1 n) n1 (some o) ns nt rest := by
  subst h
  simp [loop]

theorem loop_s1_op_gt_ok (o : CondOp) (h : condPrecOf o > p) (v : BitVec 32) (rest' : List Tok)
    (hp : parse f env n pc (condPrecOf o) .s1 (.op o :: rest) = .ok (v, rest')) :
    loop (f + 1) env pc p sub .s1 n n1 oper ns nt (.op o :: rest) = loop f env pc p sub .s1 v n1 oper ns nt rest' := by
  simp [loop, h, hp]

theorem loop_s1_op_gt_err (o : CondOp) (h : condPrecOf o > p)
    (hp : parse f env n pc (condPrecOf o) .s1 (.op o :: rest) = .err) :
    loop (f + 1) env pc p sub .s1 n n1 oper ns nt (.op o :: rest) = .err := by
  simp [loop, h, hp]

/-- a number, name, `defined`, '(' or '!' in operator position is an error -/
theorem loop_s1_junk (t : Tok) (h1 : t ≠ .eol) (h2 : t ≠ .rparen) (h3 : ∀ o, t ≠ .op o) :
    loop (f + 1) env pc p sub .s1 n n1 oper ns nt (t :: rest) = .err := by
  cases t <;> simp_all [loop]

/-- in state 2 the register n1 is overwritten before it is used -/
theorem loop_s2_n1 (f : Nat) (n1' : BitVec 32) :
    loop f env pc p sub .s2 n n1 oper ns nt rest = loop f env pc p sub .s2 n n1' oper ns nt rest := by
  cases f with
  | zero => simp [loop]
  | succ f =>
    cases rest with
    | nil => simp [loop]
    | cons t rest => cases t <;> simp [loop]

end steps

end NakenVerif.Cond
