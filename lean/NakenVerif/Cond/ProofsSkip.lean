import NakenVerif.Cond.Spec

set_option linter.unusedSimpArgs false
set_option linter.unusedVariables false

namespace NakenVerif.Cond

/-- the three spellings that open a conditional -/
def Kw.opens : Kw → Bool
  | .if_ | .ifdef | .ifndef => true
  | _ => false

/-- the token after a '.'/'#' is one of the five conditional directives -/
def DTok.isCondWord : DTok → Bool
  | .word .if_ | .word .ifdef | .word .ifndef | .word .else_ | .word .endif => true
  | _ => false

/-- Token streams in which every `.if/.ifdef/.ifndef` is closed by its own `.endif` with at most
    one `.else` of its own in between (any nesting, any other tokens anywhere; a '.' or '#' is
    always followed by the word it introduces, as in every tokenised source line). -/
inductive WellNested : List DTok → Prop where
  | nil : WellNested []
  | plain (t : DTok) (rest : List DTok) (h : t ≠ .dot) : WellNested rest → WellNested (t :: rest)
  | directive (t : DTok) (rest : List DTok) (h : t.isCondWord = false) :
      WellNested rest → WellNested (.dot :: t :: rest)
  | block (k : Kw) (body rest : List DTok) (hk : k.opens = true) :
      WellNested body → WellNested rest →
      WellNested (.dot :: .word k :: (body ++ .dot :: .word .endif :: rest))
  | blockElse (k : Kw) (body body2 rest : List DTok) (hk : k.opens = true) :
      WellNested body → WellNested body2 → WellNested rest →
      WellNested (.dot :: .word k :: (body ++ .dot :: .word .else_ :: (body2 ++ .dot :: .word .endif :: rest)))

theorem ifdefIgnore_plain (n : Nat) (t : DTok) (rest : List DTok) (h : t ≠ .dot) :
    ifdefIgnore n (t :: rest) = ifdefIgnore n rest := by
  cases t <;> simp_all [ifdefIgnore]

theorem ifdefIgnore_directive (n : Nat) (t : DTok) (rest : List DTok) (h : t.isCondWord = false) :
    ifdefIgnore n (.dot :: t :: rest) = ifdefIgnore n rest := by
  cases t with
  | word k => cases k <;> simp_all [ifdefIgnore, DTok.isCondWord]
  | _ => simp [ifdefIgnore]

theorem ifdefIgnore_open (n : Nat) (k : Kw) (rest : List DTok) (hk : k.opens = true) :
    ifdefIgnore n (.dot :: .word k :: rest) = ifdefIgnore (n + 1) rest := by
  cases k <;> simp_all [ifdefIgnore, Kw.opens]

theorem ifdefIgnore_endif_succ (n : Nat) (rest : List DTok) :
    ifdefIgnore (n + 1) (.dot :: .word .endif :: rest) = ifdefIgnore n rest := by
  simp [ifdefIgnore]

theorem ifdefIgnore_else_succ (n : Nat) (rest : List DTok) :
    ifdefIgnore (n + 1) (.dot :: .word .else_ :: rest) = ifdefIgnore (n + 1) rest := by
  simp [ifdefIgnore]

/-- a well-nested stretch of tokens is transparent for the skip loop at every nesting count -/
theorem ifdefIgnore_wellNested {body : List DTok} (h : WellNested body) :
    ∀ (n : Nat) (k : List DTok), ifdefIgnore n (body ++ k) = ifdefIgnore n k := by
  induction h with
  | nil => intro n k; rfl
  | plain t rest ht _ ih => intro n k; rw [List.cons_append, ifdefIgnore_plain n t _ ht, ih]
  | directive t rest ht _ ih =>
      intro n k; rw [List.cons_append, List.cons_append, ifdefIgnore_directive n t _ ht, ih]
  | block k body rest hk _ _ ihb ihr =>
      intro n kk
      simp only [List.cons_append, List.append_assoc]
      rw [ifdefIgnore_open n k _ hk, ihb, ifdefIgnore_endif_succ, ihr]
  | blockElse k body body2 rest hk _ _ _ ihb ihb2 ihr =>
      intro n kk
      simp only [List.cons_append, List.append_assoc]
      rw [ifdefIgnore_open n k _ hk, ihb, ifdefIgnore_else_succ, ihb2, ifdefIgnore_endif_succ, ihr]

end NakenVerif.Cond

namespace NakenVerif.Cond

/-! ### the line-level skip of the statement model is the image of the token-level skip loop -/

/-- directive-level view of a condition token (none of them is '.' or '#') -/
def Tok.dtok : Tok → DTok
  | .eol => .eol
  | .name _ => .word .other
  | .defined => .word .other
  | _ => .other

/-- the directive-level tokens of one source line; `stoks s` = tokens of a statement line -/
def Item.dtoks {σ : Type} (stoks : σ → List DTok) : Item σ → List DTok
  | .stmt s => stoks s ++ [.eol]
  | .ifc c => .dot :: .word .if_ :: (c.map Tok.dtok ++ [.eol])
  | .ifdef neg name =>
      .dot :: .word (if neg then .ifndef else .ifdef) ::
        ((match name with | some _ => [.word .other] | none => []) ++ [.eol])
  | .else_ => [.dot, .word .else_, .eol]
  | .endif => [.dot, .word .endif, .eol]

def itemsToks {σ : Type} (stoks : σ → List DTok) : List (Item σ) → List DTok
  | [] => []
  | i :: rest => i.dtoks stoks ++ itemsToks stoks rest

theorem ifdefIgnore_noDot (l : List DTok) (h : ∀ t ∈ l, t ≠ .dot) (n : Nat) (k : List DTok) :
    ifdefIgnore n (l ++ k) = ifdefIgnore n k := by
  induction l with
  | nil => rfl
  | cons t l ih =>
      rw [List.cons_append, ifdefIgnore_plain n t _ (h t (by simp)), ih (fun x hx => h x (by simp [hx]))]

theorem tok_dtok_ne_dot (t : Tok) : t.dtok ≠ .dot := by cases t <;> simp [Tok.dtok]

/-- what ifdef_ignore returns on the tokens of `items`, in terms of the line-level skip -/
def liftSkip {σ : Type} (stoks : σ → List DTok) : SkipRet × List (Item σ) → SkipRet × List DTok
  | (.eof, _) => (.eof, [])
  | (r, rest) => (r, .eol :: itemsToks stoks rest)

theorem skipItems_tokens {σ : Type} (stoks : σ → List DTok) (hs : ∀ s, WellNested (stoks s))
    (items : List (Item σ)) : ∀ n, ifdefIgnore n (itemsToks stoks items) = liftSkip stoks (skipItems n items) := by
  induction items with
  | nil => intro n; simp [itemsToks, ifdefIgnore, skipItems, liftSkip]
  | cons i rest ih =>
      intro n
      cases i with
      | stmt s =>
          simp only [itemsToks, Item.dtoks, List.append_assoc, skipItems]
          rw [ifdefIgnore_wellNested (hs s), List.cons_append, List.nil_append,
            ifdefIgnore_plain n .eol _ (by decide), ih]
      | ifc c =>
          simp only [itemsToks, Item.dtoks, List.cons_append, List.append_assoc, skipItems]
          rw [ifdefIgnore_open n .if_ _ rfl,
            ifdefIgnore_noDot (c.map Tok.dtok) (by
              intro t ht; rcases List.mem_map.mp ht with ⟨x, _, rfl⟩; exact tok_dtok_ne_dot x),
            List.nil_append, ifdefIgnore_plain _ .eol _ (by decide), ih]
      | ifdef neg name =>
          simp only [itemsToks, Item.dtoks, List.cons_append, List.append_assoc, skipItems]
          rw [ifdefIgnore_open n _ _ (by cases neg <;> rfl)]
          cases name with
          | none =>
              simp only [List.nil_append, List.cons_append]
              rw [ifdefIgnore_plain _ .eol _ (by decide), ih]
          | some nm =>
              simp only [List.nil_append, List.cons_append]
              rw [ifdefIgnore_plain _ (.word .other) _ (by decide), ifdefIgnore_plain _ .eol _ (by decide), ih]
      | else_ =>
          simp only [itemsToks, Item.dtoks, List.cons_append, List.nil_append, skipItems]
          cases n with
          | zero => simp [ifdefIgnore, liftSkip]
          | succ n =>
              rw [ifdefIgnore_else_succ, ifdefIgnore_plain _ .eol _ (by decide), ih]; simp
      | endif =>
          simp only [itemsToks, Item.dtoks, List.cons_append, List.nil_append, skipItems]
          cases n with
          | zero => simp [ifdefIgnore, liftSkip]
          | succ n =>
              rw [ifdefIgnore_endif_succ, ifdefIgnore_plain _ .eol _ (by decide), ih]; simp

end NakenVerif.Cond
