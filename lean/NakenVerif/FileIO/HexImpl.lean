import NakenVerif.FileIO.Image
/-
Transcription of /repo/fileio/write_hex.cpp and read_hex.cpp.
`uint32_t` masks/shifts are written with `/` and `%` (`x & 0xffff = x % 65536`,
`x & 0xffff0000 = x / 65536 * 65536`, `x >> 16 = x / 65536` for `x < 2^32`).
-/
namespace NakenVerif.FileIO.HexImpl
open NakenVerif.FileIO

/-- `(((checksum & 0xff) ^ 0xff) + 1) & 0xff` -/
def cksum (c : Nat) : Nat := (((c &&& 0xff) ^^^ 0xff) + 1) &&& 0xff

def sumBytes (d : List Byte) : Nat := (d.map (·.toNat)).sum

/-- `write_hex_line(out, address, data, len, &segment)`: text written and the new `*segment` -/
def writeLine (segment address : Nat) (data : List Byte) : List Char × Nat :=
  let hi := address / 65536 * 65536
  let ext : List Char × Nat :=
    if hi ≠ segment then
      let c := 4 + (hi / 16777216 % 256) + (hi / 65536 % 256) + 2
      (":02000004".toList ++ fmtX 4 (hi / 65536 % 65536) ++ fmtX 2 (cksum c) ++ ['\n'], hi)
    else ([], segment)
  let a := address % 65536
  let c := data.length + a / 256 + a % 256 + sumBytes data
  (ext.1 ++ (':' :: fmtX 2 data.length ++ fmtX 4 a ++ "00".toList ++
      data.flatMap (fun b => fmtX 2 b.toNat) ++ fmtX 2 (cksum c) ++ ['\n']), ext.2)

def renderLines : Nat → List (Nat × List Byte) → List Char
  | _, [] => []
  | seg, (a, d) :: rest => (writeLine seg a d).1 ++ renderLines (writeLine seg a d).2 rest

/-- `write_hex(memory, out)`: the file -/
def write (img : Image) : List Char :=
  renderLines 0 img.chunks ++ ":00000001FF\n".toList

end NakenVerif.FileIO.HexImpl
