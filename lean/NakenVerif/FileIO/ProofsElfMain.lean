import NakenVerif.FileIO.ProofsElfDecode
/-
C03 / ELF: the main decode theorem.
-/
set_option linter.unusedSimpArgs false
namespace NakenVerif.FileIO.ElfProofs
open NakenVerif.FileIO ElfImpl ElfSpec

/-- the hypotheses: 32-bit addresses (`Image.WF`), symbol names are C strings, symbol values are `uint32_t`,
the file is smaller than 4 GiB (`struct _shdr` holds offsets and sizes in `uint32_t`) -/
structure Ok (img : Image) (syms : List ElfImpl.Sym) (cfg : Config) : Prop where
  wf : img.WF
  names : ∀ s ∈ syms, (0 : Byte) ∉ s.1
  values : ∀ s ∈ syms, s.2 < 4294967296
  small : (ElfImpl.write img syms cfg).length < 4294967296

section
variable (img : Image) (syms : List ElfImpl.Sym) (cfg : Config)

/-- the header as a gABI reader sees it -/
def hdrE : Ehdr :=
  { cls := (hdrOf cfg).cls, big := img.bigEndian, type := (hdrOf cfg).etype % 65536,
    machine := (hdrOf cfg).machine % 65536, version := 1, entry := eEntry img, phoff := phoff img cfg,
    shoff := shoff img syms cfg, flags := (hdrOf cfg).flags % 4294967296,
    ehsize := if (hdrOf cfg).cls = 1 then 52 else 64, phentsize := phentsize img cfg, phnum := phnum img,
    shentsize := if (hdrOf cfg).cls = 1 then 40 else 64, shnum := shnum cfg, shstrndx := 2 }

theorem addrMod_ge (c : Nat) : 4294967296 ≤ addrMod c := by unfold addrMod; split <;> omega

theorem shoff_lt (h : Ok img syms cfg) : shoff img syms cfg < 4294967296 := by
  have := (shoff_facts img syms cfg).2
  have := h.small
  omega

theorem parse_write (h : Ok img syms cfg) :
    parseEhdr (ElfImpl.write img syms cfg) = some (hdrE img syms cfg) := by
  obtain ⟨tail, _, hw⟩ := write_split img syms cfg
  rw [hw]
  unfold ehdrFinal
  rw [parseEhdr_ehdr _ _ (hdrOf_cls cfg)]
  have hm := addrMod_ge (hdrOf cfg).cls
  have h1 : eEntry img < 4294967296 := by
    unfold eEntry; have := h.wf.2; split <;> omega
  have h2 : phoff img cfg < 65536 := by unfold phoff; split <;> (try split) <;> omega
  have h3 : phentsize img cfg < 65536 := by unfold phentsize; split <;> (try split) <;> omega
  have h4 : phnum img < 65536 := by unfold phnum; split <;> omega
  have h5 : shnum cfg < 65536 := by rw [shnum_eq]; split <;> omega
  have h6 := shoff_lt img syms cfg h
  simp only [hdrE, Option.some.injEq, Ehdr.mk.injEq, true_and, and_true]
  refine ⟨?_, ?_, ?_, ?_, ?_, ?_⟩ <;> apply Nat.mod_eq_of_lt <;> omega

theorem f1_length_entry (he : hasEntry img = true) : (f1 img cfg).length = 4096 := by
  unfold f1
  rw [if_pos he]
  simp only [List.length_append, List.length_replicate, f0_length, phdr_length]
  cases is32 cfg <;> simp

/-- the section headers as a gABI reader sees them -/
def secsOf : List ElfSpec.Shdr :=
  [⟨0, 0, 0, 0, 0, 0, 0, 0, 0, 0⟩,
   ⟨36, 1, 6, img.low, textOff img cfg, img.cells.length, 0, 0, u32 cfg.alignment, 0⟩,
   ⟨1, 3, 0, 0, shstrOff img cfg, if isArm cfg then 59 else 43, 0, 0, 1, 0⟩,
   ⟨11, 2, 0, 0, symtabOff img syms cfg, symtabSize img syms cfg, 4, if isArm cfg then 4 else 3, 4,
     if is32 cfg then 16 else 24⟩,
   ⟨19, 3, 0, 0, strtabOff img cfg, strtabSize img syms cfg, 0, 0, 1, 0⟩,
   ⟨27, 1, 48, 0, commentOff img syms cfg, 50, 0, 0, 1, 1⟩] ++
  if isArm cfg then [⟨42, 1879048195, 0, 0, armOff img cfg, 49, 0, 0, 1, 0⟩] else []

theorem u32_of_le (n x : Nat) (hn : n < 4294967296) (hx : x ≤ n) : u32 x = x := by unfold u32; omega

theorem secs_eq (h : Ok img syms cfg) : (shdrs img syms cfg).map normShdr = secsOf img syms cfg := by
  have hs := h.small
  have hu : ∀ x, x ≤ (ElfImpl.write img syms cfg).length → u32 x = x := fun x hx => u32_of_le _ x hs hx
  obtain ⟨_, t2, t3⟩ := text_facts img syms cfg
  obtain ⟨_, s2, s3⟩ := shstr_facts img syms cfg
  obtain ⟨_, r2, _⟩ := strtab_facts img syms cfg
  obtain ⟨_, y2, _⟩ := symtab_facts img syms cfg
  obtain ⟨_, c2, c3⟩ := comment_facts img syms cfg
  have a2 := arm_facts img syms cfg
  have hlow : u32 img.low = img.low := by have := h.wf.1; unfold u32; omega
  have ht : (textBytes img).length = img.cells.length := by simp [textBytes]
  rw [shstrBytes_eq] at s3
  unfold shdrs secsOf
  cases hArm : isArm cfg <;>
    simp only [List.map_cons, List.map_nil, normShdr, shText, shShstr, shSymtab, shStrtab, shComment, shArm,
      shstrTable_eq, hArm, (shstr_names _).1, (shstr_names _).2.1, (shstr_names _).2.2.1, (shstr_names _).2.2.2.1,
      (shstr_names _).2.2.2.2.1, (shstr_names _).2.2.2.2.2, hlow, hu _ (Nat.le_of_add_right_le t2), hu _ (Nat.le_of_add_left_le t2),
      hu _ (Nat.le_of_add_right_le s2), hu _ (Nat.le_of_add_left_le s2), hu _ (Nat.le_of_add_right_le r2),
      hu _ (Nat.le_of_add_left_le r2), hu _ (Nat.le_of_add_right_le y2), hu _ (Nat.le_of_add_left_le y2),
      hu _ (Nat.le_of_add_right_le c2), hu _ (Nat.le_of_add_left_le c2), hu _ (Nat.le_of_add_right_le a2),
      t3, ht, s3, (shstr_bytes _).1, c3, comment_last.2, armSize, aeabi_length, List.append_nil, Bool.false_eq_true, if_true,
      if_false, List.cons_append, List.nil_append]
  all_goals
    have hc : img.cells.length % 4294967296 = img.cells.length := Nat.mod_eq_of_lt (by have := h.wf.1; omega)
    cases is32 cfg <;> simp [u32, hc, (shstr_names true).2.2.2.2.2]

end

end NakenVerif.FileIO.ElfProofs
