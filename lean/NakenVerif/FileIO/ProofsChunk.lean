import NakenVerif.FileIO.Image
namespace NakenVerif.FileIO

/-- all (address, byte) pairs carried by a sequence of `write_line(address, data, len)` calls -/
def flat (recs : List (Nat × List Byte)) : List (Nat × Byte) := recs.flatMap (fun r => cellsAt r.1 r.2)

@[simp] theorem flat_nil : flat [] = [] := rfl
@[simp] theorem flat_cons (r : Nat × List Byte) (rs) : flat (r :: rs) = cellsAt r.1 r.2 ++ flat rs := by
  simp [flat]
@[simp] theorem flat_append (xs ys : List (Nat × List Byte)) : flat (xs ++ ys) = flat xs ++ flat ys := by
  simp [flat]

@[simp] theorem cellsAt_nil (a : Nat) : cellsAt a [] = [] := rfl

theorem cellsAt_append (a : Nat) (xs ys : List Byte) :
    cellsAt a (xs ++ ys) = cellsAt a xs ++ cellsAt (a + xs.length) ys := by
  induction xs generalizing a with
  | nil => simp
  | cons x xs ih =>
    simp only [List.cons_append, cellsAt, ih, List.length_cons]
    rw [show a + 1 + xs.length = a + (xs.length + 1) by omega]

/-- a record the formats can carry: 1..16 bytes, inside one 64 KiB page, below `bound` -/
def Good (bound : Nat) (r : Nat × List Byte) : Prop :=
  0 < r.2.length ∧ r.2.length ≤ 16 ∧ r.1 % 65536 + r.2.length ≤ 65536 ∧ r.1 + r.2.length ≤ bound

theorem chunkLoop_flat : ∀ (cs : List (Option Byte)) (n addr : Nat) (buf : List Byte),
    (buf = [] ∨ addr + buf.length = n) →
    flat (chunkLoop 16 n cs addr buf) = cellsAt addr buf ++ cellsFrom n cs := by
  intro cs
  induction cs with
  | nil =>
    intro n addr buf _
    by_cases hb : buf = [] <;> simp [chunkLoop, cellsFrom, hb]
  | cons c cs ih =>
    intro n addr buf hinv
    cases c with
    | none =>
      have := ih (n + 1) addr [] (Or.inl rfl)
      by_cases hb : buf = [] <;> simp [chunkLoop, cellsFrom, hb, this]
    | some b =>
      simp only [chunkLoop, cellsFrom]
      by_cases hb : buf = []
      · subst hb
        simp only [ne_eq, not_true_eq_false, and_false, if_false, List.nil_append, if_true,
          List.length_singleton]
        have h1 := ih (n + 1) n [b] (Or.inr (by simp))
        have h2 := ih (n + 1) n [] (Or.inl rfl)
        simp [h1, h2, cellsAt]
      · have hn : addr + buf.length = n := by
          cases hinv with
          | inl h => exact absurd h hb
          | inr h => exact h
        by_cases hf : n % 65536 = 0
        · simp only [hf, hb, ne_eq, not_false_eq_true, and_self, if_true, List.nil_append,
            List.length_singleton]
          have h1 := ih (n + 1) n [b] (Or.inr (by simp))
          simp [h1, cellsAt]
        · simp only [hf, false_and, if_false, hb, List.nil_append]
          by_cases hl : buf.length = 15
          · have h2 := ih (n + 1) addr [] (Or.inl rfl)
            simp [hl, h2, cellsAt_append, cellsAt]
            omega
          · have h1 := ih (n + 1) addr (buf ++ [b]) (Or.inr (by simp; omega))
            simp [hl, h1, cellsAt_append, cellsAt, hn]

theorem chunks_flat (img : Image) : flat img.chunks = img.writtenCells := by
  simp [Image.chunks, Image.writtenCells, chunkLoop_flat]

theorem chunkLoop_good (bound : Nat) : ∀ (cs : List (Option Byte)) (n addr : Nat) (buf : List Byte),
    n + cs.length ≤ bound →
    (buf = [] ∨ (addr + buf.length = n ∧ buf.length < 16 ∧ addr % 65536 + buf.length ≤ 65536)) →
    ∀ r ∈ chunkLoop 16 n cs addr buf, Good bound r := by
  intro cs
  induction cs with
  | nil =>
    intro n addr buf hb hinv r hr
    by_cases hbuf : buf = []
    · simp [chunkLoop, hbuf] at hr
    · simp only [chunkLoop, ne_eq, hbuf, not_false_eq_true, if_true, List.mem_singleton] at hr
      subst hr
      cases hinv with
      | inl h => exact absurd h hbuf
      | inr h =>
        have : 0 < buf.length := List.length_pos_iff.mpr hbuf
        simp only [List.length_nil, Nat.add_zero] at hb
        show 0 < buf.length ∧ buf.length ≤ 16 ∧ addr % 65536 + buf.length ≤ 65536 ∧ addr + buf.length ≤ bound
        omega
  | cons c cs ih =>
    intro n addr buf hb hinv r hr
    simp only [List.length_cons] at hb
    have goodBuf : buf ≠ [] → Good bound (addr, buf) := by
      intro hbuf
      cases hinv with
      | inl h => exact absurd h hbuf
      | inr h =>
        have : 0 < buf.length := List.length_pos_iff.mpr hbuf
        show 0 < buf.length ∧ buf.length ≤ 16 ∧ addr % 65536 + buf.length ≤ 65536 ∧ addr + buf.length ≤ bound
        omega
    cases c with
    | none =>
      simp only [chunkLoop, List.mem_append] at hr
      cases hr with
      | inl h =>
        by_cases hbuf : buf = []
        · simp [hbuf] at h
        · simp only [ne_eq, hbuf, not_false_eq_true, if_true, List.mem_singleton] at h
          subst h; exact goodBuf hbuf
      | inr h => exact ih (n + 1) addr [] (by omega) (Or.inl rfl) r h
    | some b =>
      simp only [chunkLoop] at hr
      by_cases hbuf : buf = []
      · subst hbuf
        simp only [ne_eq, not_true_eq_false, and_false, if_false, List.nil_append, if_true,
          List.length_singleton] at hr
        have hlt : n % 65536 + 1 ≤ 65536 := by omega
        simp only [show ¬ (1 = 16) by decide, if_false] at hr
        exact ih (n + 1) n [b] (by omega) (Or.inr ⟨by simp, by simp, by simpa using hlt⟩) r hr
      · have hi : addr + buf.length = n ∧ buf.length < 16 ∧ addr % 65536 + buf.length ≤ 65536 := by
          cases hinv with
          | inl h => exact absurd h hbuf
          | inr h => exact h
        by_cases hf : n % 65536 = 0
        · simp only [hf, hbuf, ne_eq, not_false_eq_true, and_self, if_true, List.nil_append,
            List.length_singleton, show ¬ (1 = 16) by decide, if_false, List.cons_append,
            List.mem_cons] at hr
          cases hr with
          | inl h => subst h; exact goodBuf hbuf
          | inr h =>
            exact ih (n + 1) n [b] (by omega) (Or.inr ⟨by simp, by simp, by simp; omega⟩) r h
        · simp only [hf, false_and, if_false, hbuf, List.nil_append] at hr
          have hpage : addr % 65536 + buf.length < 65536 := by omega
          by_cases hl : buf.length = 15
          · simp only [List.length_append, List.length_singleton, hl, if_true, List.mem_cons] at hr
            cases hr with
            | inl h =>
              subst h
              show 0 < (buf ++ [b]).length ∧ (buf ++ [b]).length ≤ 16 ∧
                addr % 65536 + (buf ++ [b]).length ≤ 65536 ∧ addr + (buf ++ [b]).length ≤ bound
              simp only [List.length_append, List.length_singleton]
              omega
            | inr h => exact ih (n + 1) addr [] (by omega) (Or.inl rfl) r h
          · have hl' : ¬ (buf.length + 1 = 16) := by omega
            simp only [List.length_append, List.length_singleton, hl', if_false] at hr
            exact ih (n + 1) addr (buf ++ [b]) (by omega)
              (Or.inr ⟨by simp; omega, by simp; omega, by simp; omega⟩) r hr

theorem chunks_good (img : Image) (h : img.WF) : ∀ r ∈ img.chunks, Good (2 ^ 32) r := by
  apply chunkLoop_good (2 ^ 32) img.cells img.low 0 []
  · unfold Image.WF at h; omega
  · exact Or.inl rfl

end NakenVerif.FileIO
