import NakenVerif.FileIO.ElfImpl
import NakenVerif.FileIO.ElfSpec
/-
C03 / ELF: the byte-level lemmas — integers, the fixed-size structures (Ehdr, Shdr, Sym, Phdr) parse back.
-/
namespace NakenVerif.FileIO.ElfProofs
open NakenVerif.FileIO ElfImpl ElfSpec

theorem leBytes_length (n v : Nat) : (leBytes n v).length = n := by
  induction n generalizing v with
  | zero => rfl
  | succ n ih => simp [leBytes, ih]

theorem wInt_length (big : Bool) (n v : Nat) : (wInt big n v).length = n := by
  unfold wInt; split <;> simp [leBytes_length]

theorem leVal_leBytes (n v : Nat) : leVal (leBytes n v) = v % 256 ^ n := by
  induction n generalizing v with
  | zero => simp [leBytes, leVal, Nat.mod_one]
  | succ n ih =>
    have h1 : (UInt8.ofNat (v % 256)).toNat = v % 256 := by
      rw [UInt8.toNat_ofNat']; omega
    simp only [leBytes, leVal, ih, h1]
    rw [Nat.pow_succ', Nat.mod_mul]

theorem beVal_reverse (bs : List Byte) : beVal bs.reverse = leVal bs := by
  unfold beVal
  rw [List.foldl_reverse]
  induction bs with
  | nil => rfl
  | cons b bs ih => simp only [List.foldr_cons, leVal, ih]; omega

theorem val_wInt (big : Bool) (n v : Nat) : val big (wInt big n v) = v % 256 ^ n := by
  unfold val wInt
  cases big <;> simp [beVal_reverse, leVal_leBytes]

theorem field_wInt (big : Bool) (n v : Nat) (r : List Byte) :
    field big n (wInt big n v ++ r) = some (v % 256 ^ n, r) := by
  unfold field
  have h := wInt_length big n v
  simp only [List.length_append, h, Nat.le_add_right, ↓reduceIte]
  rw [List.take_left' h, List.drop_left' h, val_wInt]

theorem field_one (big : Bool) (b : Byte) (r : List Byte) : field big 1 (b :: r) = some (b.toNat, r) := by
  cases big <;> simp [field, val, beVal, leVal]

@[simp] theorem fields_nil (big : Bool) (s : List Byte) : fields big [] s = some ([], s) := rfl

theorem fields_wInt (big : Bool) (n v : Nat) (ns : List Nat) (r : List Byte) :
    fields big (n :: ns) (wInt big n v ++ r) =
      match fields big ns r with
      | none => none
      | some (vs, r') => some (v % 256 ^ n :: vs, r') := by
  simp only [fields, field_wInt]
  rcases fields big ns r with _ | ⟨vs, r'⟩ <;> rfl

theorem fields_one (big : Bool) (b : Byte) (ns : List Nat) (r : List Byte) :
    fields big (1 :: ns) (b :: r) =
      match fields big ns r with
      | none => none
      | some (vs, r') => some (b.toNat :: vs, r') := by
  simp only [fields, field_one]
  rcases fields big ns r with _ | ⟨vs, r'⟩ <;> rfl

theorem mod32_lt (v : Nat) : v % 4294967296 < 18446744073709551616 := by omega

/-- what a parsed section header of the writer's `struct _shdr` (all `uint32_t`) holds -/
def normShdr (s : ElfImpl.Shdr) : ElfSpec.Shdr :=
  { name := u32 s.name, type := u32 s.type, flags := u32 s.flags, addr := u32 s.addr, offset := u32 s.offset,
    size := u32 s.size, link := u32 s.link, info := u32 s.info, addralign := u32 s.addralign, entsize := u32 s.entsize }

def clsOf (is32 : Bool) : Nat := if is32 then 1 else 2

theorem parseShdr_render (big is32 : Bool) (s : ElfImpl.Shdr) (r : List Byte) :
    parseShdr big (clsOf is32) (renderShdr big is32 s ++ r) = some (normShdr s, r) := by
  cases is32 <;>
    simp [parseShdr, renderShdr, clsOf, List.append_assoc, fields_wInt, normShdr, u32, mod32_lt]

theorem renderShdr_length (big is32 : Bool) (s : ElfImpl.Shdr) :
    (renderShdr big is32 s).length = if is32 then 40 else 64 := by
  cases is32 <;> simp [renderShdr, wInt_length]

theorem parseShdrs_render (big is32 : Bool) (ss : List ElfImpl.Shdr) (r : List Byte) :
    parseShdrs big (clsOf is32) ss.length (ss.flatMap (renderShdr big is32) ++ r) = some (ss.map normShdr) := by
  induction ss with
  | nil => rfl
  | cons s ss ih =>
    simp only [List.flatMap_cons, List.length_cons, List.append_assoc, parseShdrs, parseShdr_render, ih, List.map_cons]

/-- a symbol entry as parsed back -/
def normSym (name value size info other shndx : Nat) : ElfSpec.Sym :=
  { name := u32 name, value := u32 value, size := u32 size, info := info % 256, other := other % 256, shndx := shndx % 65536 }

theorem parseSym_render (big is32 : Bool) (name value size info other shndx : Nat) (r : List Byte) :
    parseSym big (clsOf is32) (renderSym big is32 name value size info other shndx ++ r) =
      some (normSym name value size info other shndx, r) := by
  have hb : ∀ v, (UInt8.ofNat v).toNat = v % 256 := by intro v; rw [UInt8.toNat_ofNat']
  cases is32 <;>
    simp [parseSym, renderSym, clsOf, List.append_assoc, fields_wInt, fields_one, normSym, u32, hb, mod32_lt]

theorem renderSym_length (big is32 : Bool) (name value size info other shndx : Nat) :
    (renderSym big is32 name value size info other shndx).length = if is32 then 16 else 24 := by
  cases is32 <;> simp [renderSym, wInt_length]

theorem parsePhdr_render (big is32 : Bool) (address filesz : Nat) (r : List Byte) :
    parsePhdr big (clsOf is32) (phdr big is32 address filesz ++ r) = some ((1, u32 address, 4096, u32 filesz), r) := by
  cases is32 <;>
    simp [parsePhdr, phdr, clsOf, List.append_assoc, fields_wInt, u32, mod32_lt]

theorem phdr_length (big is32 : Bool) (address filesz : Nat) :
    (phdr big is32 address filesz).length = if is32 then 32 else 56 := by
  cases is32 <;> simp [phdr, wInt_length]

/-- width of an address-sized header field -/
def addrMod (cls : Nat) : Nat := if cls = 1 then 4294967296 else 18446744073709551616

theorem parseEhdr_ehdr (big : Bool) (h : Hdr) (hc : h.cls = 1 ∨ h.cls = 2)
    (entry phoff phentsize phnum shoff shnum shstrndx : Nat) (r : List Byte) :
    parseEhdr (ehdr big h entry phoff phentsize phnum shoff shnum shstrndx ++ r) =
      some { cls := h.cls, big := big, type := h.etype % 65536, machine := h.machine % 65536, version := 1,
             entry := entry % addrMod h.cls, phoff := phoff % addrMod h.cls, shoff := shoff % addrMod h.cls,
             flags := h.flags % 4294967296, ehsize := if h.cls = 1 then 52 else 64, phentsize := phentsize % 65536,
             phnum := phnum % 65536, shentsize := if h.cls = 1 then 40 else 64, shnum := shnum % 65536,
             shstrndx := shstrndx % 65536 } := by
  obtain ⟨cls, osabi, etype, machine, flags, extra⟩ := h
  simp only at hc
  rcases hc with rfl | rfl <;> cases big <;>
    simp [parseEhdr, ehdr, ehdrPre, ehdrMid, ident, wAddr, field_wInt, List.append_assoc, addrMod]

theorem ehdr_length (big : Bool) (h : Hdr) (hc : h.cls = 1 ∨ h.cls = 2)
    (entry phoff phentsize phnum shoff shnum shstrndx : Nat) :
    (ehdr big h entry phoff phentsize phnum shoff shnum shstrndx).length = if h.cls = 1 then 52 else 64 := by
  rcases hc with hc | hc <;> simp [ehdr, ehdrPre, ehdrMid, ident, wAddr, wInt_length, hc]

end NakenVerif.FileIO.ElfProofs
