import NakenVerif.FileIO.ElfReadImpl
/-
Transcription of /repo/fileio/read_uf2.cpp (FileIo little endian, `getc` = -1 at the end of the file).
-/
namespace NakenVerif.FileIO.Uf2ReadImpl
open NakenVerif.FileIO

structure Loaded where
  ret : Int
  /-- `memory->write8(address++, data[n])` calls in order -/
  writes : List (Nat × Byte) := []
  deriving Repr

/-- `read_block`: eight `get_int32`, `fread(data, 1, 476)`, `get_int32`.  A short `fread` leaves the rest of `data`
as it was; that is only visible when `magic_2`, read after it at the end of the file, were right: it is 0xffffffff. -/
structure Block where
  magic0 : Nat
  magic1 : Nat
  flags : Nat
  address : Nat
  byteCount : Nat
  magic2 : Nat
  data : List Byte

def readBlock (rest : List Byte) : Block × List Byte :=
  let (magic0, r1) := ElfReadImpl.getInt32 false rest
  let (magic1, r2) := ElfReadImpl.getInt32 false r1
  let (flags, r3) := ElfReadImpl.getInt32 false r2
  let (address, r4) := ElfReadImpl.getInt32 false r3
  let (byteCount, r5) := ElfReadImpl.getInt32 false r4
  let (_, r6) := ElfReadImpl.getInt32 false r5
  let (_, r7) := ElfReadImpl.getInt32 false r6
  let (_, r8) := ElfReadImpl.getInt32 false r7
  let data := r8.take 476
  let r9 := r8.drop 476
  let (magic2, r10) := ElfReadImpl.getInt32 false r9
  ({ magic0, magic1, flags, address, byteCount, magic2, data }, r10)

/-- `memory->write8(address++, data[n])` with `int address` -/
def blockWrites (address : Nat) : Nat → List Byte → List (Nat × Byte)
  | _, [] => []
  | i, b :: bs => ((address + i) % 4294967296, b) :: blockWrites address (i + 1) bs

/-- `for (ptr = 0; ptr < length; ptr += 512)`: `n` iterations -/
def loop : Nat → List Byte → List (Nat × Byte) → Loaded
  | 0, _, acc => { ret := 0, writes := acc }
  | n + 1, rest, acc =>
    let (b, rest1) := readBlock rest
    if b.magic0 ≠ 0x0a324655 ∨ b.magic1 ≠ 0x9e5d5157 ∨ b.magic2 ≠ 0x0ab16f30 then { ret := 0, writes := acc }   -- break
    else if b.flags % 2 = 1 then loop n rest1 acc          -- not main flash: continue
    else if b.byteCount > 476 then { ret := -1, writes := acc }
    else loop n rest1 (acc ++ blockWrites b.address 0 (b.data.take b.byteCount))

/-- `read_uf2(filename, memory)` -/
def read (file : List Byte) : Loaded := loop ((file.length + 511) / 512) file []

end NakenVerif.FileIO.Uf2ReadImpl
