import NakenVerif.FileIO.Image
/-
TI-TXT encoder written from the format description (TI SLAU101 / SLAU131, "TI-TXT hex format"): the file consists of
sections `@ADDR` (start address, hexadecimal) followed by the data bytes, each as two hexadecimal digits separated by
blanks, at most 16 bytes on a line; the file ends with a line `q`.
-/
namespace NakenVerif.FileIO.TiTxtSpec
open NakenVerif.FileIO

def hex2 (b : Byte) : List Char := [hexDigitU (b.toNat / 16), hexDigitU (b.toNat % 16)]

/-- data lines: `col` bytes are already on the current line -/
def dataLines : List Byte → Nat → List Char
  | [], col => if col ≠ 0 then ['\n'] else []
  | b :: bs, col => hex2 b ++ (if col + 1 = 16 then '\n' :: dataLines bs 0 else ' ' :: dataLines bs (col + 1))

/-- one section; the address is printed with `w` hexadecimal digits -/
def section_ (w : Nat) (addr : Nat) (data : List Byte) : List Char :=
  '@' :: hexN hexDigitU w addr ++ '\n' :: dataLines data 0

def encode (w : Nat) (runs : List (Nat × List Byte)) : List Char :=
  runs.flatMap (fun r => section_ w r.1 r.2) ++ ['q', '\n']

end NakenVerif.FileIO.TiTxtSpec
