import NakenVerif.FileIO.ProofsElfReadBytes
import NakenVerif.FileIO.ProofsElfTop
/-
C03 / read_elf: the two loops over the section header table, reduced to recursion over the list of headers.
-/
set_option linter.unusedSimpArgs false
namespace NakenVerif.FileIO.ElfReadProofs
open NakenVerif.FileIO ElfImpl ElfReadImpl ElfProofs

theorem seek_ok (file rest : List Byte) (off : Nat) (h : off < 9223372036854775808) :
    seek file off rest = file.drop off := by
  unfold seek
  have : off % 18446744073709551616 = off := Nat.mod_eq_of_lt (by omega)
  rw [this, if_pos h]

/-- the six fields `read_shdr_32/64` reads, as written by `write_shdr` -/
def six (h : ElfSpec.Shdr) : ShdrR := ⟨h.name, h.type, h.flags, h.addr, h.offset, h.size⟩

theorem readShdr_render (big is32 : Bool) (s : ElfImpl.Shdr) (r : List Byte) :
    (readShdr big is32 (renderShdr big is32 s ++ r)).1 = six (normShdr s) := by
  have h64 : ∀ (v : Nat) (r : List Byte), getInt64 big (wInt big 8 (v % 4294967296) ++ r) = (v % 4294967296, r) :=
    fun v r => getInt64_wInt big _ (Nat.mod_lt _ (by omega)) r
  cases is32 <;>
    simp [readShdr, renderShdr, List.append_assoc, getInt32_wInt, h64, six, normShdr, u32]

/-- the string `get_string_at_offset` finds where a C string of at most 254 characters lies -/
theorem strLoop_cstr (name t : List Byte) (cap : Nat) (h0 : (0 : Byte) ∉ name) (hl : name.length < cap) :
    strLoop cap (name ++ 0 :: t) = name := by
  induction name generalizing cap with
  | nil => cases cap with
    | zero => omega
    | succ c => simp [strLoop]
  | cons b name ih =>
    cases cap with
    | zero => simp at hl
    | succ c =>
      have hb : b ≠ 0 := fun e => h0 (by simp [e])
      have hn : (0 : Byte) ∉ name := fun e => h0 (by simp [e])
      simp only [List.cons_append, strLoop, hb, if_false]
      rw [ih c hn (by simpa using hl)]

/-- list form of the first loop -/
def findStrtabL (file : List Byte) (stroffset : Nat) : List ElfSpec.Shdr → Nat
  | [] => 0
  | h :: hs =>
    if h.type = 3 ∧ strLoop 255 (file.drop (stroffset + h.name)) = [46, 115, 116, 114, 116, 97, 98] then h.offset
    else findStrtabL file stroffset hs

/-- list form of the second loop -/
def sectionLoopL (file : List Byte) (big is32 : Bool) (stroffset strtabOff : Nat) : List ElfSpec.Shdr → St → St
  | [], st => st
  | sh :: hs, st =>
    let name := strLoop 255 (file.drop (stroffset + sh.name))
    let isText := sh.flags / 4 % 2 = 1
    if isText ∨ name.take 5 = [46, 100, 97, 116, 97] ∨ name = [46, 118, 101, 99, 116, 111, 114, 115] then
      let u64 := 18446744073709551616
      let (start, stop) :=
        if isText then
          (if st.start = 0xffffffff then sh.addr % 4294967296
           else if st.start > sh.addr then sh.addr % 4294967296 else st.start,
           if st.stop = 0xffffffff then (sh.addr + sh.size + u64 - 1) % u64 % 4294967296
           else if st.stop < (sh.addr + sh.size) % u64 then (sh.addr + sh.size + u64 - 1) % u64 % 4294967296 else st.stop)
        else (st.start, st.stop)
      let w := writesAt sh.addr 0 (loadBytes (file.drop sh.offset) sh.size)
      sectionLoopL file big is32 stroffset strtabOff hs { st with start := start, stop := stop, writes := st.writes ++ w }
    else if sh.type = 2 then
      let symSize := if is32 then 16 else 24
      let (ys, _) := symLoop file big is32 strtabOff ((sh.size + symSize - 1) / symSize) (file.drop sh.offset) []
      sectionLoopL file big is32 stroffset strtabOff hs { st with syms := st.syms ++ ys }
    else sectionLoopL file big is32 stroffset strtabOff hs st

/-- what the loops need of the file: header `n` is read as `secs[n]`, and every offset used is a valid `long` -/
structure TableOk (file : List Byte) (big is32 : Bool) (shoff : Nat) (sz : Nat) (stroffset : Nat)
    (secs : List ElfSpec.Shdr) : Prop where
  rd : ∀ (n : Nat) (h : ElfSpec.Shdr), secs[n]? = some h → ∀ rest,
    (readShdr big is32 (seek file (shoff + toU64 ((n : Int) * (sz : Int))) rest)).1 = six h
  small : ∀ h ∈ secs, stroffset + h.name < 9223372036854775808 ∧ h.offset < 9223372036854775808

theorem findStrtab_eq (file : List Byte) (big is32 : Bool) (shoff sz stroffset : Nat) (secs : List ElfSpec.Shdr)
    (ok : TableOk file big is32 shoff sz stroffset secs) :
    ∀ (l : List ElfSpec.Shdr) (k : Nat), secs.drop k = l → ∀ rest,
      (findStrtab file big is32 shoff sz stroffset l.length k rest).1 = findStrtabL file stroffset l := by
  intro l
  induction l with
  | nil => intro k _ rest; rfl
  | cons h hs ih =>
    intro k hk rest
    have hget : secs[k]? = some h := by
      have := congrArg List.head? hk
      simpa [List.head?_drop] using this
    have hmem : h ∈ secs := List.mem_of_getElem? hget
    have hdrop : secs.drop (k + 1) = hs := by
      rw [← List.drop_drop, hk]; rfl
    have hr := ok.rd k h hget rest
    obtain ⟨hs1, hs2⟩ := ok.small h hmem
    simp only [List.length_cons, findStrtab, findStrtabL]
    generalize hq : readShdr big is32 (seek file (shoff + toU64 ((k : Int) * (sz : Int))) rest) = q at hr
    obtain ⟨sh, rest2⟩ := q
    simp only at hr
    subst hr
    simp only [six, getString, seek_ok _ _ _ hs1]
    split
    · rfl
    · have := ih (k + 1) hdrop rest2
      simpa using this

theorem sectionLoop_eq (file : List Byte) (big is32 : Bool) (shoff sz stroffset strtabOff : Nat)
    (secs : List ElfSpec.Shdr) (ok : TableOk file big is32 shoff sz stroffset secs) :
    ∀ (l : List ElfSpec.Shdr) (k : Nat), secs.drop k = l → ∀ rest st,
      sectionLoop file big is32 shoff sz stroffset strtabOff l.length k rest st =
        sectionLoopL file big is32 stroffset strtabOff l st := by
  intro l
  induction l with
  | nil => intro k _ rest st; rfl
  | cons h hs ih =>
    intro k hk rest st
    have hget : secs[k]? = some h := by
      have := congrArg List.head? hk
      simpa [List.head?_drop] using this
    have hmem : h ∈ secs := List.mem_of_getElem? hget
    have hdrop : secs.drop (k + 1) = hs := by
      rw [← List.drop_drop, hk]; rfl
    have hr := ok.rd k h hget rest
    obtain ⟨hs1, hs2⟩ := ok.small h hmem
    simp only [List.length_cons, sectionLoop, sectionLoopL]
    generalize hq : readShdr big is32 (seek file (shoff + toU64 ((k : Int) * (sz : Int))) rest) = q at hr
    obtain ⟨sh, rest2⟩ := q
    simp only at hr
    subst hr
    simp only [six, getString, seek_ok _ _ _ hs1, seek_ok _ _ _ hs2]
    have e : ((k : Int) + 1) = ((k + 1 : Nat) : Int) := by simp
    split
    · rw [e, ih (k + 1) hdrop]; try rfl
    · split
      · rw [e, ih (k + 1) hdrop]; try rfl
      · rw [e, ih (k + 1) hdrop]

theorem readSym_render (big is32 : Bool) (name value size info other shndx : Nat) (r : List Byte) :
    readSym big is32 (renderSym big is32 name value size info other shndx ++ r) = ((u32 name, u32 value, info % 256), r) := by
  have h64 : ∀ (v : Nat) (r : List Byte), getInt64 big (wInt big 8 (v % 4294967296) ++ r) = (v % 4294967296, r) :=
    fun v r => getInt64_wInt big _ (Nat.mod_lt _ (by omega)) r
  cases is32 <;>
    simp [readSym, renderSym, List.append_assoc, getInt32_wInt, getInt16_wInt, h64, getc, cval, u32, ofNat_toNat]

/-- the exported symbols' entries are appended with their names and values -/
theorem symLoop_entries (file : List Byte) (big is32 : Bool) (strtabOff : Nat) (syms : List ElfImpl.Sym) :
    ∀ (off : Nat) (t t2 : List Byte) (acc : List (List Byte × Nat)),
      file.drop (strtabOff + off) = symNames syms ++ t2 →
      (∀ s ∈ syms, (0 : Byte) ∉ s.1 ∧ s.1.length ≤ 254 ∧ s.2 < 4294967296) →
      strtabOff + off + (symNames syms).length < 4294967296 →
      (symLoop file big is32 strtabOff syms.length (symEntries big is32 off syms ++ t) acc).1 = acc.reverse ++ syms := by
  induction syms with
  | nil => intro off t t2 acc _ _ _; simp [symLoop]
  | cons s syms ih =>
    intro off t t2 acc hstr hn hoff
    obtain ⟨n, a⟩ := s
    obtain ⟨h0, hl, ha⟩ := hn (n, a) (by simp)
    simp only at h0 hl ha
    have hn' : ∀ s ∈ syms, (0 : Byte) ∉ s.1 ∧ s.1.length ≤ 254 ∧ s.2 < 4294967296 := fun s hs => hn s (by simp [hs])
    simp only [symNames, List.length_append, List.length_cons] at hoff
    have hu : u32 off = off := by unfold u32; omega
    have hua : u32 a = a := by unfold u32; omega
    have hnext : file.drop (strtabOff + (off + n.length + 1)) = symNames syms ++ t2 := by
      have : strtabOff + (off + n.length + 1) = (strtabOff + off) + (n.length + 1) := by omega
      rw [this, ← List.drop_drop, hstr]
      simp only [symNames]
      rw [show n ++ 0 :: symNames syms ++ t2 = (n ++ [0]) ++ (symNames syms ++ t2) by simp]
      exact List.drop_left' (by simp)
    have hname : strLoop 255 (file.drop (strtabOff + off)) = n := by
      rw [hstr]; simp only [symNames, List.append_assoc, List.cons_append]
      exact strLoop_cstr n _ 255 h0 (by omega)
    have hlen : ¬ (renderSym big is32 off a 0 18 0 1 ++ (symEntries big is32 (off + n.length + 1) syms ++ t)).length <
        (if is32 then 16 else 24) := by
      rw [List.length_append, renderSym_length]; omega
    simp only [symEntries, List.length_cons, List.append_assoc, symLoop, hlen, if_false, readSym_render, hu, hua, getString]
    rw [seek_ok _ _ _ (by omega), hname]
    have h18 : (18 % 256 ≠ 0 ∧ 18 % 256 ≠ 3 ∧ 18 % 256 ≠ 4) := by decide
    rw [if_pos h18]
    have : a % 4294967296 = a := Nat.mod_eq_of_lt ha
    rw [ih (off + n.length + 1) t t2 _ hnext hn' (by omega), this]
    simp

end NakenVerif.FileIO.ElfReadProofs
