import NakenVerif.FileIO.Image
/-
UF2 decoder written from the format description (github.com/microsoft/uf2, "File format"): the
file is a sequence of 512-byte blocks; each block: magicStart0 0x0A324655, magicStart1 0x9E5D5157,
flags, targetAddr, payloadSize (≤ 476), blockNo, numBlocks (blockNo < numBlocks), fileSize/familyID,
476 data bytes of which the first payloadSize are the payload, magicEnd 0x0AB16F30; all words
little endian.  A block with flag 0x00000001 ("not main flash") is skipped by a loader.
Anything else (length not a multiple of 512, bad magic, oversized payload) is rejected.
-/
namespace NakenVerif.FileIO.Uf2Spec
open NakenVerif.FileIO

def le32? : List Byte → Option Nat
  | [b0, b1, b2, b3] => some (b0.toNat + 256 * b1.toNat + 65536 * b2.toNat + 16777216 * b3.toNat)
  | _ => none

/-- the 32-bit word at byte offset `off` of a block -/
def word (blk : List Byte) (off : Nat) : Option Nat := le32? ((blk.drop off).take 4)

def cellsMod (addr : Nat) : Nat → List Byte → List (Nat × Byte)
  | _, [] => []
  | i, b :: bs => ((addr + i) % 2 ^ 32, b) :: cellsMod addr (i + 1) bs

def decodeBlock (blk : List Byte) : Option (List (Nat × Byte)) :=
  match word blk 0, word blk 4, word blk 8, word blk 12, word blk 16, word blk 20, word blk 24, word blk 508 with
  | some m0, some m1, some flags, some addr, some size, some blockNo, some numBlocks, some mEnd =>
    if m0 = 0x0A324655 ∧ m1 = 0x9E5D5157 ∧ mEnd = 0x0AB16F30 ∧ size ≤ 476 ∧ blockNo < numBlocks then
      if flags % 2 = 1 then some [] else some (cellsMod addr 0 ((blk.drop 32).take size))
    else none
  | _, _, _, _, _, _, _, _ => none

/-- `fuel` ≥ number of blocks -/
def decodeBlocks : Nat → List Byte → Option (List (Nat × Byte))
  | _, [] => some []
  | 0, _ :: _ => none
  | fuel + 1, file =>
    if file.length < 512 then none
    else
      match decodeBlock (file.take 512), decodeBlocks fuel (file.drop 512) with
      | some cs, some rest => some (cs ++ rest)
      | _, _ => none

def decode (file : List Byte) : Option (List (Nat × Byte)) := decodeBlocks file.length file

end NakenVerif.FileIO.Uf2Spec
