import NakenVerif.FileIO.Image
/-
Transcription of /repo/fileio/read_hex.cpp and read_srec.cpp (the loaders of naken_util).
C `int` values are `Int`; the places where the C code can overflow 32 bits (`n << 4` in get_hex,
`ch << 16`, `address += segment`) wrap to signed 32 bits as the compiled code does.
`x & 0xff` on a (possibly negative) int is `x % 256`, `x >> k` is the arithmetic shift.
A load result is: return value, the `write8(address, byte)` calls in order, low_address, high_address
(the last two as the `uint32_t` the `int` is stored into).
-/
namespace NakenVerif.FileIO.ReadImpl
open NakenVerif.FileIO

def wrapS (x : Int) : Int := (x + 2147483648) % 4294967296 - 2147483648
def toU32 (x : Int) : Nat := (x % 4294967296).toNat

def digit? (c : Char) : Option Int :=
  if '0' ≤ c ∧ c ≤ '9' then some (c.toNat - 48 : Nat)
  else if 'A' ≤ c ∧ c ≤ 'F' then some (c.toNat - 55 : Nat)
  else if 'a' ≤ c ∧ c ≤ 'f' then some (c.toNat - 87 : Nat)
  else none

/-- `get_hex(in, len)`: value (or -1 at EOF, -2 at a non-hex character, which is consumed) and the rest -/
def getHex : Nat → Int → List Char → Int × List Char
  | 0, n, s => (n, s)
  | _ + 1, _, [] => (-1, [])
  | len + 1, n, c :: s =>
    match digit? c with
    | some v => getHex len (wrapS (n * 16 + v)) s
    | none => (-2, s)

def getHexI (len : Int) (s : List Char) : Int × List Char := getHex len.toNat 0 s

/-- `while (1) { ch = getc(in); if (ch == '\n' || ch == EOF) break; }` -/
def skipLine : List Char → List Char
  | [] => []
  | c :: s => if c = '\n' then s else skipLine s

structure Loaded where
  ret : Int
  writes : List (Nat × Byte)
  low : Nat
  high : Nat
  deriving Repr

/-- the `for (n = 0; n < byte_count; n++) { ch = get_hex(in, 2); ...; checksum_calc += ch; }` loops;
`store` = whether `memory->write8(address++, ch)` is done (data records) -/
def dataLoop (store : Bool) : Nat → Int → Int → List Char → List (Nat × Byte) →
    Int × Int × List Char × List (Nat × Byte)
  | 0, address, ck, s, acc => (address, ck, s, acc)
  | n + 1, address, ck, s, acc =>
    let (ch, s1) := getHex 2 0 s
    let acc1 := if store then (toU32 address, UInt8.ofNat (ch % 256).toNat) :: acc else acc
    dataLoop store n (if store then wrapS (address + 1) else address) (ck + ch) s1 acc1

structure HexState where
  segment : Int := 0
  start : Int := -1
  stop : Int := -1
  startAddress : Int := 0
  acc : List (Nat × Byte) := []

def finish (st : HexState) : Loaded :=
  { ret := st.startAddress, writes := st.acc.reverse, low := toU32 st.start, high := toU32 st.stop }

/-- `read_hex` main loop; `fuel` ≥ number of characters + 1 (every iteration consumes at least one) -/
def readHexLoop : Nat → List Char → HexState → Loaded
  | 0, _, st => finish st
  | _ + 1, [], st => finish st
  | fuel + 1, c :: s, st =>
    if c ≠ ':' then
      readHexLoop fuel (if c = '\n' then s else skipLine s) st
    else
      let (byteCount, s1) := getHex 2 0 s
      let (address, s2) := getHex 4 0 s1
      let (recordType, s3) := getHex 2 0 s2
      let ck0 := byteCount + address % 256 + (address >>> 8) + recordType
      let (st1, ck1, s4) : HexState × Int × List Char :=
        if recordType = 0 then
          let a := wrapS (address + st.segment)
          -- `const int64_t a = (uint32_t)address;`  start / end are int64_t
          let ua : Int := toU32 a
          let (start, stop) :=
            if st.start = -1 then (ua, ua + byteCount - 1)
            else ((if ua < st.start then ua else st.start),
                  (if ua + byteCount > st.stop then ua + byteCount - 1 else st.stop))
          let (_, ck, s', acc) := dataLoop true byteCount.toNat a ck0 s3 st.acc
          ({ st with start := start, stop := stop, acc := acc }, ck, s')
        else if recordType = 1 then
          let (v, s') := getHexI (byteCount * 2) s3
          ({ st with startAddress := v }, ck0, s')
        else if recordType = 2 then
          let (ch, s') := getHex 4 0 s3
          ({ st with segment := wrapS (ch * 16) }, ck0 + ch % 256 + (ch >>> 8), s')
        else if recordType = 4 then
          let (ch, s') := getHex 4 0 s3
          ({ st with segment := wrapS (ch * 65536) }, ck0 + ch % 256 + (ch >>> 8), s')
        else
          let (_, ck, s', _) := dataLoop false byteCount.toNat 0 ck0 s3 []
          (st, ck, s')
      let (checksum, s5) := getHex 2 0 s4
      let want : Int := ((255 - ck1 % 256) + 1) % 256
      if checksum ≠ want then finish { st1 with startAddress := -4 }
      else readHexLoop fuel (skipLine s5) st1

def readHex (file : List Char) : Loaded := readHexLoop (file.length + 1) file {}

/-- `read_srec` main loop -/
def readSrecLoop : Nat → List Char → HexState → Loaded
  | 0, _, st => finish st
  | _ + 1, [], st => finish st
  | fuel + 1, c :: s, st =>
    if c ≠ 'S' then
      -- `ignore_line(in)` does not look at `ch` itself: after an empty line the next line is skipped too
      readSrecLoop fuel (skipLine s) st
    else
      match s with
      | [] => finish st        -- record_type = EOF → 10 → ignore_line → next getc is EOF
      | t :: s0 =>
        let recordType : Nat := if '0' ≤ t ∧ t ≤ '9' then t.toNat - 48 else 10
        if recordType = 0 ∨ recordType > 3 then
          readSrecLoop fuel (skipLine s0) st
        else
          let (byteCount, s1) := getHex 2 0 s0
          let (address, ck0, s2, dataBytes) : Int × Int × List Char × Int :=
            if recordType = 1 then
              let (a, s') := getHex 4 0 s1
              (a, byteCount + (a >>> 8) + a % 256, s', byteCount - 3)
            else if recordType = 2 then
              let (a, s') := getHex 6 0 s1
              (a, byteCount + (a >>> 16) + (a >>> 8) % 256 + a % 256, s', byteCount - 4)
            else
              let (a, s') := getHex 8 0 s1
              (a, byteCount + (a >>> 24) + (a >>> 16) % 256 + (a >>> 8) % 256 + a % 256, s', byteCount - 5)
          let ua : Int := toU32 address
          let (start, stop) :=
            if st.start = -1 then (ua, ua + dataBytes - 1)
            else ((if ua < st.start then ua else st.start),
                  (if ua + dataBytes > st.stop then ua + dataBytes - 1 else st.stop))
          let (_, ck1, s3, acc) := dataLoop true dataBytes.toNat address ck0 s2 st.acc
          let st1 : HexState := { st with start := start, stop := stop, acc := acc }
          let (checksum, s4) := getHex 2 0 s3
          let want : Int := 255 - ck1 % 256
          if checksum ≠ want then finish { st1 with startAddress := -4 }
          else readSrecLoop fuel (skipLine s4) st1

def readSrec (file : List Char) : Loaded := readSrecLoop (file.length + 1) file {}

end NakenVerif.FileIO.ReadImpl
