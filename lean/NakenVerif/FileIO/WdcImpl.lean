import NakenVerif.FileIO.Image
/-
Transcription of /repo/fileio/write_wdc.cpp and read_wdc.cpp (WDC "Z" binary load format).
-/
namespace NakenVerif.FileIO.WdcImpl
open NakenVerif.FileIO

/-- `write_int24(out, value)`: three bytes, least significant first (`value & 0xff`, `>> 8`, `>> 16`) -/
def int24 (v : Nat) : List Byte := [UInt8.ofNat (v % 256), UInt8.ofNat (v / 256 % 256), UInt8.ofNat (v / 65536 % 256)]

/-- The block loop of `write_wdc`:
```
for (n = low; n <= high; n++) {
  const bool is_empty = read_debug(n) == DL_EMPTY;
  if (is_empty || length == 65536) { if (length != 0) { flush block; length = 0; address = -1; } }
  if (!is_empty) { if (address == -1) { address = n; } buffer[length++] = read8(n); }
}
if (length != 0) { flush block }
```
`address == -1` exactly when `length == 0`, so the state is `(address, buffer)` with `buffer = []` for -1.
Result: the blocks `(address, data)` in file order. -/
def blockLoop (cap : Nat) : Nat → List (Option Byte) → Nat → List Byte → List (Nat × List Byte)
  | _, [], addr, buf => if buf ≠ [] then [(addr, buf)] else []
  | n, none :: cs, addr, buf =>
      (if buf ≠ [] then [(addr, buf)] else []) ++ blockLoop cap (n + 1) cs addr []
  | n, some b :: cs, addr, buf =>
      let flush := buf.length = cap ∧ buf ≠ []
      let pre := if flush then [(addr, buf)] else []
      let buf1 := if flush then [] else buf
      let addr1 := if buf1 = [] then n else addr
      pre ++ blockLoop cap (n + 1) cs addr1 (buf1 ++ [b])

def blocks (img : Image) : List (Nat × List Byte) := blockLoop 65536 img.low img.cells 0 []

def renderBlock (r : Nat × List Byte) : List Byte := int24 r.1 ++ int24 r.2.length ++ r.2

/-- `write_wdc(memory, out)` -/
def write (img : Image) : List Byte := 0x5a :: (blocks img).flatMap renderBlock

/-! ### read_wdc -/

/-- `read_int24(in)`: 0 at EOF; `getc` = -1 inside the value when the file ends there -/
def readInt24 : List Byte → Int × List Byte
  | [] => (0, [])
  | [b0] => ((b0.toNat : Int) - 256, [])
  | [b0, b1] => ((b0.toNat : Int) + 256 * b1.toNat - 65536, [])
  | b0 :: b1 :: b2 :: rest => ((b0.toNat : Int) + 256 * b1.toNat + 65536 * b2.toNat, rest)

structure Loaded where
  ret : Int
  writes : List (Nat × Byte)
  low : Nat
  high : Nat
  deriving Repr

/-- the `for (n = 0; n < length; n++) { ch = getc(in); if (ch == EOF) break; ... write8(address++, ch); }` loop -/
def dataLoop : Nat → Nat → List Byte → Nat → List (Nat × Byte) → Nat × List Byte × Nat × List (Nat × Byte)
  | 0, address, s, high, acc => (address, s, high, acc)
  | _ + 1, address, [], high, acc => (address, [], high, acc)
  | n + 1, address, b :: s, high, acc =>
      dataLoop n ((address + 1) % 4294967296) s (if address > high then address else high) ((address, b) :: acc)

def readLoop : Nat → List Byte → Nat → Nat → List (Nat × Byte) → Nat × Nat × List (Nat × Byte)
  | 0, _, low, high, acc => (low, high, acc)
  | fuel + 1, s, low, high, acc =>
      let (a, s1) := readInt24 s
      let (len, s2) := readInt24 s1
      if len = 0 then (low, high, acc)
      else
        let address : Nat := (a % 4294967296).toNat
        let low1 := if address < low then address else low
        let (_, s3, high1, acc1) := dataLoop len.toNat address s2 high acc
        readLoop fuel s3 low1 high1 acc1

/-- `read_wdc(filename, memory)` on a fresh Memory (`high_address` = 0); returns `memory->low_address` as int -/
def read (file : List Byte) : Loaded :=
  match file with
  | 0x5a :: rest =>
      let (low, high, acc) := readLoop (file.length + 1) rest 0xffffffff 0 []
      { ret := if low < 2147483648 then (low : Int) else (low : Int) - 4294967296, writes := acc.reverse, low := low, high := high }
  | _ => { ret := -1, writes := [], low := 0xffffffff, high := 0 }

end NakenVerif.FileIO.WdcImpl
