import NakenVerif.FileIO.SpecText
/-
Motorola S-record decoder written from the format description (M68000 Family Programmer's
Reference Manual, appendix C; srec(5)): a record is `S`, a type digit, a byte count (two hex
digits) counting address + data + checksum bytes, the address (2 bytes for S0 S1 S5 S9, 3 bytes
for S2 S6 S8, 4 bytes for S3 S7), data, and a checksum byte = ones' complement of the low byte of
the sum of count, address and data bytes.  S0 header, S1/S2/S3 data, S5/S6 record count (must
equal the number of data records so far), S7/S8/S9 termination carrying the entry point (last
record).  S4, a wrong count, a wrong checksum, a non-hex character or an empty line is rejected.
The termination record is optional here (the format description demands one per block; files
without an entry point written by naken_asm have none — recorded in notes/C03.md).
Result: the (address, byte) pairs in file order and the entry point of the termination record.
-/
namespace NakenVerif.FileIO.SrecSpec
open NakenVerif.FileIO NakenVerif.FileIO.SpecText

def addrLen : Nat → Option Nat
  | 0 => some 2 | 1 => some 2 | 2 => some 3 | 3 => some 4
  | 5 => some 2 | 6 => some 3 | 7 => some 4 | 8 => some 3 | 9 => some 2
  | _ => none

def digitVal (c : Char) : Option Nat :=
  if 48 ≤ c.toNat ∧ c.toNat ≤ 57 then some (c.toNat - 48) else none

/-- big-endian value of a byte string -/
def beVal (bs : List Nat) : Nat := bs.foldl (fun acc b => acc * 256 + b) 0

structure Rec where
  typ : Nat
  addr : Nat
  data : List Nat
  deriving Repr, DecidableEq

def parseRecord (line : List Char) : Option Rec :=
  match line with
  | 'S' :: t :: rest =>
    match digitVal t, parseBytes rest with
    | some typ, some (count :: tail) =>
      match addrLen typ with
      | some alen =>
        if tail.length = count ∧ alen + 1 ≤ count ∧ (count + tail.sum) % 256 = 255 then
          some { typ := typ, addr := beVal (tail.take alen), data := (tail.drop alen).dropLast }
        else none
      | none => none
    | _, _ => none
  | _ => none

def dataCells (addr : Nat) : Nat → List Nat → List (Nat × Byte)
  | _, [] => []
  | i, b :: bs => ((addr + i) % 2 ^ 32, UInt8.ofNat b) :: dataCells addr (i + 1) bs

/-- `n` = number of data records seen so far -/
def decodeLines : List (List Char) → Nat → Option (List (Nat × Byte) × Option Nat)
  | [], _ => some ([], none)
  | l :: ls, n =>
    match parseRecord l with
    | none => none
    | some r =>
      if r.typ = 0 then decodeLines ls n
      else if r.typ = 1 ∨ r.typ = 2 ∨ r.typ = 3 then
        match decodeLines ls (n + 1) with
        | some (cs, e) => some (dataCells r.addr 0 r.data ++ cs, e)
        | none => none
      else if r.typ = 5 ∨ r.typ = 6 then
        (if r.data = [] ∧ r.addr = n then decodeLines ls n else none)
      else
        (if r.data = [] ∧ ls = [] then some ([], some r.addr) else none)

def decode (file : List Char) : Option (List (Nat × Byte) × Option Nat) := decodeLines (lines file) 0

end NakenVerif.FileIO.SrecSpec
