import NakenVerif.FileIO.Image
/-
Transcription of /repo/fileio/write_srec.cpp (`write_srec_line`, `write_srec_header`, `write_srec`).
-/
namespace NakenVerif.FileIO.SrecImpl
open NakenVerif.FileIO

/-- `((checksum & 0xff) ^ 0xff)` -/
def cksum (c : Nat) : Nat := (c &&& 0xff) ^^^ 0xff

def sumBytes (d : List Byte) : Nat := (d.map (·.toNat)).sum

def dataText (d : List Byte) : List Char := d.flatMap (fun b => fmtX 2 b.toNat)

/-- the record type `write_srec_line` ends up with: `type == -1` (here `none`) selects by address -/
def lineType (type : Option Nat) (address : Nat) : Nat :=
  let t := match type with
    | none => if address ≤ 0xffff then 1 else if address ≤ 0xffffff then 2 else 3
    | some t => t
  -- `if (type == 2 && address > 0xffffff) { type = 3; }`  (an S2 record only carries 24 bits)
  if t = 2 ∧ address > 0xffffff then 3 else t

/-- `write_srec_line(out, type, address, data, len)` -/
def writeLine (type : Option Nat) (address : Nat) (data : List Byte) : List Char :=
  let t := lineType type address
  let len := data.length
  if t ≤ 1 then
    let a := address % 65536
    let c := (len + 3) + a / 256 + a % 256 + sumBytes data
    'S' :: Char.ofNat (48 + t) :: fmtX 2 (len + 3) ++ fmtX 4 a ++ dataText data ++ fmtX 2 (cksum c) ++ ['\n']
  else if t = 2 then
    let a := address % 16777216
    let c := (len + 4) + a / 65536 + a / 256 % 256 + a % 256 + sumBytes data
    'S' :: Char.ofNat (48 + t) :: fmtX 2 (len + 4) ++ fmtX 6 a ++ dataText data ++ fmtX 2 (cksum c) ++ ['\n']
  else if t = 3 then
    let a := address
    let c := (len + 5) + a / 16777216 + a / 65536 % 256 + a / 256 % 256 + a % 256 + sumBytes data
    'S' :: Char.ofNat (48 + t) :: fmtX 2 (len + 5) ++ fmtX 8 a ++ dataText data ++ fmtX 2 (cksum c) ++ ['\n']
  else
    dataText data ++ fmtX 2 (cksum (sumBytes data)) ++ ['\n']

/-- `srec_size` of cpu_list → the `type` variable of `write_srec` (SREC_24 = 1 → 2, SREC_32 = 2 → 3, else -1) -/
def typeOfSrecSize (srecSize : Nat) : Option Nat :=
  if srecSize = 1 then some 2 else if srecSize = 2 then some 3 else none

/-- `write_srec_header`: S0 record whose 7 data bytes are the BCD time stamp (a parameter here) -/
def header (stamp : List Byte) : List Char := writeLine (some 0) 0 stamp

/-- the termination record: S9 (16-bit), S8 (24-bit) or S7 (32-bit start address), lower-case `%x` -/
def entryRecord (entry : Nat) : List Char :=
  if entry ≠ 0xffffffff then
    let c := (entry / 16777216 % 256) + (entry / 65536 % 256) + (entry / 256 % 256) + entry % 256
    if entry ≤ 0xffff then
      "S903".toList ++ fmtx 4 entry ++ fmtx 2 (((c + 3) &&& 0xff) ^^^ 0xff) ++ ['\n']
    else if entry ≤ 0xffffff then
      "S804".toList ++ fmtx 6 entry ++ fmtx 2 (((c + 4) &&& 0xff) ^^^ 0xff) ++ ['\n']
    else
      "S705".toList ++ fmtx 8 entry ++ fmtx 2 (((c + 5) &&& 0xff) ^^^ 0xff) ++ ['\n']
  else []

def body (type : Option Nat) : List (Nat × List Byte) → List Char
  | [] => []
  | (a, d) :: rest => writeLine type a d ++ body type rest

/-- `write_srec(memory, out, srec_size)` -/
def write (img : Image) (srecSize : Nat) (stamp : List Byte) : List Char :=
  header stamp ++ body (typeOfSrecSize srecSize) img.chunks ++ entryRecord img.entry

end NakenVerif.FileIO.SrecImpl
