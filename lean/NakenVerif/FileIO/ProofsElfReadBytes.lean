import NakenVerif.FileIO.ProofsElfBytes
import NakenVerif.FileIO.ElfReadImpl
/-
C03 / read_elf: `FileIo::get_int16/32/64` read back what `write_int16/32/64` wrote (no EOF inside the field).
-/
namespace NakenVerif.FileIO.ElfReadProofs
open NakenVerif.FileIO ElfImpl ElfReadImpl

theorem or_hi_lo (hi lo s : Nat) (h : lo < 2 ^ s) : (hi * 2 ^ s) ||| lo = hi * 2 ^ s + lo := by
  rw [← Nat.shiftLeft_eq, Nat.shiftLeft_add_eq_or_of_lt h]

/-- one little-endian step: the bytes so far are below 2^s, the next byte is shifted by s -/
theorem le_step (acc c s : Nat) (h : acc < 2 ^ s) : acc ||| (c * 2 ^ s) = acc + c * 2 ^ s := by
  rw [Nat.or_comm, or_hi_lo _ _ _ h, Nat.add_comm]

/-- one big-endian step: the accumulated high part times 2^(s+8), then a byte at shift s -/
theorem be_step (a c s : Nat) (hc : c < 256) : (a * 2 ^ (s + 8)) ||| (c * 2 ^ s) = (a * 256 + c) * 2 ^ s := by
  have : c * 2 ^ s < 2 ^ (s + 8) := by
    rw [Nat.pow_add]; have := Nat.two_pow_pos s
    calc c * 2 ^ s < 256 * 2 ^ s := Nat.mul_lt_mul_of_pos_right hc this
      _ = 2 ^ s * 2 ^ 8 := by rw [Nat.mul_comm]
  rw [or_hi_lo _ _ _ this, Nat.pow_add, Nat.add_mul]
  have : a * (2 ^ s * 2 ^ 8) = a * 256 * 2 ^ s := by
    rw [Nat.mul_comm (2 ^ s), ← Nat.mul_assoc]
  rw [this]

theorem be2 (x0 x1 : Nat) (h0 : x0 < 256) (h1 : x1 < 256) :
    (0 ||| x0 * 2 ^ 8 % 4294967296 ||| x1 * 2 ^ 0 % 4294967296) = x1 + 256 * x0 := by
  rw [Nat.mod_eq_of_lt (a := x0 * 2 ^ 8) (by omega), Nat.mod_eq_of_lt (a := x1 * 2 ^ 0) (by omega), Nat.zero_or]
  rw [show x0 * 2 ^ 8 = x0 * 2 ^ (0 + 8) from rfl, be_step _ _ 0 h1]
  omega

theorem le2 (x0 x1 : Nat) (h0 : x0 < 256) (h1 : x1 < 256) :
    (0 ||| x0 * 2 ^ 0 % 4294967296 ||| x1 * 2 ^ 8 % 4294967296) = x0 + 256 * x1 := by
  rw [Nat.mod_eq_of_lt (a := x0 * 2 ^ 0) (by omega), Nat.mod_eq_of_lt (a := x1 * 2 ^ 8) (by omega), Nat.zero_or]
  rw [le_step _ _ 8 (by omega)]
  omega

theorem be4 (x0 x1 x2 x3 : Nat) (h0 : x0 < 256) (h1 : x1 < 256) (h2 : x2 < 256) (h3 : x3 < 256) :
    (0 ||| x0 * 2 ^ 24 % 4294967296 ||| x1 * 2 ^ 16 % 4294967296 ||| x2 * 2 ^ 8 % 4294967296 ||| x3 * 2 ^ 0 % 4294967296) =
      x3 + 256 * x2 + 65536 * x1 + 16777216 * x0 := by
  rw [Nat.mod_eq_of_lt (a := x0 * 2 ^ 24) (by omega), Nat.mod_eq_of_lt (a := x1 * 2 ^ 16) (by omega),
    Nat.mod_eq_of_lt (a := x2 * 2 ^ 8) (by omega), Nat.mod_eq_of_lt (a := x3 * 2 ^ 0) (by omega), Nat.zero_or]
  rw [show x0 * 2 ^ 24 = x0 * 2 ^ (16 + 8) from rfl, be_step _ _ 16 h1,
    show (x0 * 256 + x1) * 2 ^ 16 = (x0 * 256 + x1) * 2 ^ (8 + 8) from rfl, be_step _ _ 8 h2,
    show ((x0 * 256 + x1) * 256 + x2) * 2 ^ 8 = ((x0 * 256 + x1) * 256 + x2) * 2 ^ (0 + 8) from rfl, be_step _ _ 0 h3]
  omega

theorem le4 (x0 x1 x2 x3 : Nat) (h0 : x0 < 256) (h1 : x1 < 256) (h2 : x2 < 256) (h3 : x3 < 256) :
    (0 ||| x0 * 2 ^ 0 % 4294967296 ||| x1 * 2 ^ 8 % 4294967296 ||| x2 * 2 ^ 16 % 4294967296 ||| x3 * 2 ^ 24 % 4294967296) =
      x0 + 256 * x1 + 65536 * x2 + 16777216 * x3 := by
  rw [Nat.mod_eq_of_lt (a := x0 * 2 ^ 0) (by omega), Nat.mod_eq_of_lt (a := x1 * 2 ^ 8) (by omega),
    Nat.mod_eq_of_lt (a := x2 * 2 ^ 16) (by omega), Nat.mod_eq_of_lt (a := x3 * 2 ^ 24) (by omega), Nat.zero_or]
  rw [le_step _ _ 8 (by omega), le_step _ _ 16 (by omega), le_step _ _ 24 (by omega)]
  omega

theorem le8 (x0 x1 x2 x3 x4 x5 x6 x7 : Nat) (h0 : x0 < 256) (h1 : x1 < 256) (h2 : x2 < 256) (h3 : x3 < 256)
    (h4 : x4 < 256) (h5 : x5 < 256) (h6 : x6 < 256) (h7 : x7 < 256) :
    (0 ||| x0 * 2 ^ 0 % 18446744073709551616 ||| x1 * 2 ^ 8 % 18446744073709551616 ||| x2 * 2 ^ 16 % 18446744073709551616 |||
      x3 * 2 ^ 24 % 18446744073709551616 ||| x4 * 2 ^ 32 % 18446744073709551616 ||| x5 * 2 ^ 40 % 18446744073709551616 |||
      x6 * 2 ^ 48 % 18446744073709551616 ||| x7 * 2 ^ 56 % 18446744073709551616) =
      x0 + 256 * x1 + 65536 * x2 + 16777216 * x3 + 4294967296 * x4 + 1099511627776 * x5 + 281474976710656 * x6 +
        72057594037927936 * x7 := by
  rw [Nat.mod_eq_of_lt (a := x0 * 2 ^ 0) (by omega), Nat.mod_eq_of_lt (a := x1 * 2 ^ 8) (by omega),
    Nat.mod_eq_of_lt (a := x2 * 2 ^ 16) (by omega), Nat.mod_eq_of_lt (a := x3 * 2 ^ 24) (by omega),
    Nat.mod_eq_of_lt (a := x4 * 2 ^ 32) (by omega), Nat.mod_eq_of_lt (a := x5 * 2 ^ 40) (by omega),
    Nat.mod_eq_of_lt (a := x6 * 2 ^ 48) (by omega), Nat.mod_eq_of_lt (a := x7 * 2 ^ 56) (by omega), Nat.zero_or]
  rw [le_step _ _ 8 (by omega), le_step _ _ 16 (by omega), le_step _ _ 24 (by omega), le_step _ _ 32 (by omega),
    le_step _ _ 40 (by omega), le_step _ _ 48 (by omega), le_step _ _ 56 (by omega)]
  omega

theorem be8 (x0 x1 x2 x3 x4 x5 x6 x7 : Nat) (h0 : x0 < 256) (h1 : x1 < 256) (h2 : x2 < 256) (h3 : x3 < 256)
    (h4 : x4 < 256) (h5 : x5 < 256) (h6 : x6 < 256) (h7 : x7 < 256) :
    (0 ||| x0 * 2 ^ 56 % 18446744073709551616 ||| x1 * 2 ^ 48 % 18446744073709551616 ||| x2 * 2 ^ 40 % 18446744073709551616 |||
      x3 * 2 ^ 32 % 18446744073709551616 ||| x4 * 2 ^ 24 % 18446744073709551616 ||| x5 * 2 ^ 16 % 18446744073709551616 |||
      x6 * 2 ^ 8 % 18446744073709551616 ||| x7 * 2 ^ 0 % 18446744073709551616) =
      x7 + 256 * x6 + 65536 * x5 + 16777216 * x4 + 4294967296 * x3 + 1099511627776 * x2 + 281474976710656 * x1 +
        72057594037927936 * x0 := by
  rw [Nat.mod_eq_of_lt (a := x0 * 2 ^ 56) (by omega), Nat.mod_eq_of_lt (a := x1 * 2 ^ 48) (by omega),
    Nat.mod_eq_of_lt (a := x2 * 2 ^ 40) (by omega), Nat.mod_eq_of_lt (a := x3 * 2 ^ 32) (by omega),
    Nat.mod_eq_of_lt (a := x4 * 2 ^ 24) (by omega), Nat.mod_eq_of_lt (a := x5 * 2 ^ 16) (by omega),
    Nat.mod_eq_of_lt (a := x6 * 2 ^ 8) (by omega), Nat.mod_eq_of_lt (a := x7 * 2 ^ 0) (by omega), Nat.zero_or]
  rw [show x0 * 2 ^ 56 = x0 * 2 ^ (48 + 8) from rfl, be_step _ _ 48 h1,
    show (x0 * 256 + x1) * 2 ^ 48 = (x0 * 256 + x1) * 2 ^ (40 + 8) from rfl, be_step _ _ 40 h2,
    show ((x0 * 256 + x1) * 256 + x2) * 2 ^ 40 = ((x0 * 256 + x1) * 256 + x2) * 2 ^ (32 + 8) from rfl, be_step _ _ 32 h3,
    show (((x0 * 256 + x1) * 256 + x2) * 256 + x3) * 2 ^ 32 = (((x0 * 256 + x1) * 256 + x2) * 256 + x3) * 2 ^ (24 + 8) from rfl,
    be_step _ _ 24 h4,
    show ((((x0 * 256 + x1) * 256 + x2) * 256 + x3) * 256 + x4) * 2 ^ 24 =
      ((((x0 * 256 + x1) * 256 + x2) * 256 + x3) * 256 + x4) * 2 ^ (16 + 8) from rfl, be_step _ _ 16 h5,
    show (((((x0 * 256 + x1) * 256 + x2) * 256 + x3) * 256 + x4) * 256 + x5) * 2 ^ 16 =
      (((((x0 * 256 + x1) * 256 + x2) * 256 + x3) * 256 + x4) * 256 + x5) * 2 ^ (8 + 8) from rfl, be_step _ _ 8 h6,
    show ((((((x0 * 256 + x1) * 256 + x2) * 256 + x3) * 256 + x4) * 256 + x5) * 256 + x6) * 2 ^ 8 =
      ((((((x0 * 256 + x1) * 256 + x2) * 256 + x3) * 256 + x4) * 256 + x5) * 256 + x6) * 2 ^ (0 + 8) from rfl,
    be_step _ _ 0 h7]
  omega

theorem ofNat_toNat (v : Nat) : (UInt8.ofNat v).toNat = v % 256 := by rw [UInt8.toNat_ofNat']

theorem getInt16_wInt (big : Bool) (v : Nat) (r : List Byte) :
    getInt16 big (wInt big 2 v ++ r) = (v % 65536, r) := by
  have m0 : v % 256 % 256 < 256 := by omega
  have m1 : v / 256 % 256 % 256 < 256 := by omega
  cases big <;>
    simp only [getInt16, wInt, leBytes, orBytes, getc, cval, List.reverse_cons, List.reverse_nil, List.nil_append,
      List.cons_append, if_true, if_false, Bool.false_eq_true, ofNat_toNat]
  · rw [le2 _ _ m0 m1]; congr 1; omega
  · rw [be2 _ _ m1 m0]; congr 1; omega

theorem getInt32_wInt (big : Bool) (v : Nat) (r : List Byte) :
    getInt32 big (wInt big 4 v ++ r) = (v % 4294967296, r) := by
  have m0 : v % 256 % 256 < 256 := by omega
  have m1 : v / 256 % 256 % 256 < 256 := by omega
  have m2 : v / 256 / 256 % 256 % 256 < 256 := by omega
  have m3 : v / 256 / 256 / 256 % 256 % 256 < 256 := by omega
  cases big <;>
    simp only [getInt32, wInt, leBytes, orBytes, getc, cval, List.reverse_cons, List.reverse_nil, List.nil_append,
      List.cons_append, if_true, if_false, Bool.false_eq_true, ofNat_toNat]
  · rw [le4 _ _ _ _ m0 m1 m2 m3]; congr 1; omega
  · rw [be4 _ _ _ _ m3 m2 m1 m0]; congr 1; omega

/-- 64-bit fields of the writer hold `uint32_t` values: both byte orders read them back (big endian through the
`uint32_t` accumulator of `get_int64_be`) -/
theorem getInt64_wInt (big : Bool) (v : Nat) (hv : v < 4294967296) (r : List Byte) :
    getInt64 big (wInt big 8 v ++ r) = (v, r) := by
  have m0 : v % 256 % 256 < 256 := by omega
  have m1 : v / 256 % 256 % 256 < 256 := by omega
  have m2 : v / 256 / 256 % 256 % 256 < 256 := by omega
  have m3 : v / 256 / 256 / 256 % 256 % 256 < 256 := by omega
  have m4 : v / 256 / 256 / 256 / 256 % 256 % 256 < 256 := by omega
  have m5 : v / 256 / 256 / 256 / 256 / 256 % 256 % 256 < 256 := by omega
  have m6 : v / 256 / 256 / 256 / 256 / 256 / 256 % 256 % 256 < 256 := by omega
  have m7 : v / 256 / 256 / 256 / 256 / 256 / 256 / 256 % 256 % 256 < 256 := by omega
  cases big <;>
    simp only [getInt64, wInt, leBytes, orBytes, getc, cval, List.reverse_cons, List.reverse_nil, List.nil_append,
      List.cons_append, if_true, if_false, Bool.false_eq_true, ofNat_toNat]
  · rw [le8 _ _ _ _ _ _ _ _ m0 m1 m2 m3 m4 m5 m6 m7]; congr 1; omega
  · rw [be8 _ _ _ _ _ _ _ _ m7 m6 m5 m4 m3 m2 m1 m0]; congr 1; omega

end NakenVerif.FileIO.ElfReadProofs
