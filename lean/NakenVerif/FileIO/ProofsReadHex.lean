import NakenVerif.FileIO.ReadImpl
import NakenVerif.FileIO.ProofsHex
/-
C03 — the model of naken_asm's Intel-HEX *reader* (`ReadImpl.readHex`, read_hex.cpp) applied to the
output of the model of its Intel-HEX *writer* (`HexImpl.write`, write_hex.cpp) reproduces the image:
same `write8` calls, `low_address`, `high_address`, return value 0.
-/
namespace NakenVerif.FileIO
namespace ReadHexProofs
open ReadImpl HexImpl HexSpec

/-! ### (a) `get_hex`, the data loop, `skipLine` -/

theorem digit_hexDigitU_fin : ∀ d : Fin 16, digit? (hexDigitU d.val) = some ((d.val : Nat) : Int) := by
  decide

theorem digit_hexDigitU {d : Nat} (h : d < 16) : digit? (hexDigitU d) = some (d : Int) :=
  digit_hexDigitU_fin ⟨d, h⟩

theorem wrapS_of_range {x : Int} (h0 : 0 ≤ x) (h1 : x < 2147483648) : wrapS x = x := by
  unfold wrapS; omega

theorem toU32_wrapS (x : Int) : toU32 (wrapS x) = toU32 x := by
  unfold toU32 wrapS; omega

theorem toU32_ofNat {n : Nat} (h : n < 4294967296) : toU32 (n : Int) = n := by
  unfold toU32; omega

theorem getHex_step (k : Nat) (n : Int) {d : Nat} (h : d < 16) (s : List Char) :
    getHex (k + 1) n (hexDigitU d :: s) = getHex k (wrapS (n * 16 + d)) s := by
  simp only [getHex, digit_hexDigitU h]

/-- two digits -/
theorem getHex2 (n : Int) (v : Nat) (rest : List Char) (h0 : 0 ≤ n) (h1 : n < 8388608) (hv : v < 256) :
    getHex 2 n (hexN hexDigitU 2 v ++ rest) = (n * 256 + v, rest) := by
  rw [hexN2]
  simp only [List.cons_append, List.nil_append]
  rw [getHex_step 1 n (show v / 16 % 16 < 16 by omega), getHex_step 0 _ (show v % 16 < 16 by omega)]
  rw [wrapS_of_range (x := n * 16 + ((v / 16 % 16 : Nat) : Int)) (by omega) (by omega)]
  rw [wrapS_of_range (by omega) (by omega)]
  simp only [getHex]
  congr 1
  omega

theorem getHex2_zero (v : Nat) (rest : List Char) (hv : v < 256) :
    getHex 2 0 (hexN hexDigitU 2 v ++ rest) = ((v : Int), rest) := by
  rw [getHex2 0 v rest (by omega) (by omega) hv]
  simp

/-- four digits = two bytes -/
theorem getHex4_zero (hi lo : Nat) (rest : List Char) (hh : hi < 256) (hl : lo < 256) :
    getHex 4 0 (hexN hexDigitU 2 hi ++ (hexN hexDigitU 2 lo ++ rest)) = (((hi * 256 + lo : Nat) : Int), rest) := by
  rw [hexN2 hexDigitU hi]
  simp only [List.cons_append, List.nil_append]
  rw [getHex_step 3 0 (show hi / 16 % 16 < 16 by omega), getHex_step 2 _ (show hi % 16 < 16 by omega)]
  rw [wrapS_of_range (x := 0 * 16 + ((hi / 16 % 16 : Nat) : Int)) (by omega) (by omega)]
  rw [wrapS_of_range (by omega) (by omega)]
  rw [getHex2 _ lo rest (by omega) (by omega) hl]
  simp only [Prod.mk.injEq, and_true]
  omega

theorem skipLine_nl (rest : List Char) : skipLine ('\n' :: rest) = rest := by
  simp [skipLine]

/-- the data bytes of a record: every byte is stored at the next address, summed into the checksum -/
theorem dataLoop_store (d : List Byte) : ∀ (ai : Int) (A : Nat) (ck : Int) (rest : List Char)
    (acc : List (Nat × Byte)), toU32 ai = A % 4294967296 → A + d.length ≤ 4294967296 →
    ∃ ai', dataLoop true d.length ai ck (hexBytesU (d.map (·.toNat)) ++ rest) acc =
      (ai', ck + (((d.map (·.toNat)).sum : Nat) : Int), rest, (cellsAt A d).reverse ++ acc) := by
  induction d with
  | nil =>
    intro ai A ck rest acc _ _
    exact ⟨ai, by simp [dataLoop, hexBytesU]⟩
  | cons b bs ih =>
    intro ai A ck rest acc hA hlen
    simp only [List.length_cons] at hlen
    have hb : b.toNat < 256 := UInt8.toNat_lt b
    have hA' : toU32 ai = A := by rw [hA]; omega
    have hnext : toU32 (wrapS (ai + 1)) = (A + 1) % 4294967296 := by
      rw [toU32_wrapS]; unfold toU32 at hA' ⊢; omega
    obtain ⟨ai', hih⟩ := ih (wrapS (ai + 1)) (A + 1) (ck + (b.toNat : Int)) rest
      ((A, b) :: acc) hnext (by omega)
    refine ⟨ai', ?_⟩
    simp only [List.map_cons, hexBytesU_cons, List.append_assoc, List.length_cons, dataLoop,
      getHex2_zero b.toNat _ hb, if_true]
    have hbyte : UInt8.ofNat (((b.toNat : Int) % 256).toNat) = b := by
      have : ((b.toNat : Int) % 256).toNat = b.toNat := by omega
      rw [this, UInt8.ofNat_toNat]
    rw [hbyte, hA', hih]
    simp only [List.sum_cons, cellsAt, List.reverse_cons, List.append_assoc, List.singleton_append,
      Prod.mk.injEq, and_true, true_and]
    omega

/-! ### (b) one record of the reader's main loop -/

/-- a data record (type 00), in terms of what the `get_hex` calls return -/
theorem loop_data_generic (fuel : Nat) (s : List Char) (st : HexState)
    (bc addr ck cks x : Int) (s1 s2 s3 s4 s5 : List Char) (acc' : List (Nat × Byte))
    (h1 : getHex 2 0 s = (bc, s1)) (h2 : getHex 4 0 s1 = (addr, s2)) (h3 : getHex 2 0 s2 = (0, s3))
    (h4 : dataLoop true bc.toNat (wrapS (addr + st.segment)) (bc + addr % 256 + (addr >>> 8) + 0) s3 st.acc =
      (x, ck, s4, acc'))
    (h5 : getHex 2 0 s4 = (cks, s5)) (h6 : cks = ((255 - ck % 256) + 1) % 256) :
    readHexLoop (fuel + 1) (':' :: s) st =
      readHexLoop fuel (skipLine s5)
        { st with
          start := if st.start = -1 then (toU32 (wrapS (addr + st.segment)) : Int)
                   else if (toU32 (wrapS (addr + st.segment)) : Int) < st.start then
                     (toU32 (wrapS (addr + st.segment)) : Int) else st.start
          stop := if st.start = -1 then (toU32 (wrapS (addr + st.segment)) : Int) + bc - 1
                  else if (toU32 (wrapS (addr + st.segment)) : Int) + bc > st.stop then
                     (toU32 (wrapS (addr + st.segment)) : Int) + bc - 1 else st.stop
          acc := acc' } := by
  simp only [readHexLoop, ne_eq, not_true_eq_false, if_false, h1, h2, h3, if_true, h4, h5, h6]
  by_cases hs : st.start = -1
  · simp only [hs, if_true]
  · simp only [hs, if_false]

/-- an extended linear address record (type 04), in terms of what the `get_hex` calls return -/
theorem loop_ext_generic (fuel : Nat) (s : List Char) (st : HexState)
    (bc addr ch cks : Int) (s1 s2 s3 s4 s5 : List Char)
    (h1 : getHex 2 0 s = (bc, s1)) (h2 : getHex 4 0 s1 = (addr, s2)) (h3 : getHex 2 0 s2 = (4, s3))
    (h4 : getHex 4 0 s3 = (ch, s4))
    (h5 : getHex 2 0 s4 = (cks, s5))
    (h6 : cks = ((255 - (bc + addr % 256 + (addr >>> 8) + (4 : Int) + ch % 256 + (ch >>> 8)) % 256) + 1) % 256) :
    readHexLoop (fuel + 1) (':' :: s) st =
      readHexLoop fuel (skipLine s5) { st with segment := wrapS (ch * 65536) } := by
  simp only [readHexLoop, ne_eq, not_true_eq_false, if_false, h1, h2, h3, h4, h5, h6,
    show ¬ ((4 : Int) = 0) by decide, show ¬ ((4 : Int) = 1) by decide,
    show ¬ ((4 : Int) = 2) by decide, if_true]
  simp only [Int.cast_ofNat_Int, not_true_eq_false, if_false]

/-- the end-of-file record -/
theorem loop_eof (fuel : Nat) (st : HexState) :
    readHexLoop (fuel + 2) ":00000001FF\n".toList st = finish { st with startAddress := 0 } := by
  have e : ":00000001FF\n".toList = [':', '0', '0', '0', '0', '0', '0', '0', '1', 'F', 'F', '\n'] := by decide
  have d0 : digit? '0' = some 0 := by decide
  have d1 : digit? '1' = some 1 := by decide
  have dF : digit? 'F' = some 15 := by decide
  rw [e]
  simp [readHexLoop, getHex, d0, d1, dF, wrapS, getHexI, skipLine]

theorem hexBytesU_nil : hexBytesU [] = [] := rfl

theorem bytes_lt (d : List Byte) : ∀ x ∈ d.map (·.toNat), x < 256 := by
  intro x hx
  simp only [List.mem_map] at hx
  obtain ⟨b, _, rfl⟩ := hx
  exact UInt8.toNat_lt b

/-- the reader's checksum test accepts the writer's checksum byte -/
theorem want_eq (c : Nat) (ck : Int) (h : ck = (c : Int)) :
    ((cksum c : Nat) : Int) = ((255 - ck % 256) + 1) % 256 := by
  have h1 := cksum_sum c
  have h2 := cksum_lt c
  subst h
  omega

/-- **one data record** written by `write_hex_line`, read back by `read_hex` -/
theorem loop_data (fuel : Nat) (a : Nat) (d : List Byte) (X : List Char) (st : HexState)
    (hg : Good (2 ^ 32) (a, d)) (hseg : toU32 st.segment = a / 65536 * 65536) :
    readHexLoop (fuel + 1) (recLine 0 (a % 65536) (d.map (·.toNat)) ++ '\n' :: X) st =
      readHexLoop fuel X
        { st with
          start := if st.start = -1 then (a : Int)
                   else if (a : Int) < st.start then (a : Int) else st.start
          stop := if st.start = -1 then (a : Int) + (d.length : Int) - 1
                  else if (a : Int) + (d.length : Int) > st.stop then (a : Int) + (d.length : Int) - 1
                  else st.stop
          acc := (cellsAt a d).reverse ++ st.acc } := by
  obtain ⟨h0, h16, hpage, hbound⟩ := hg
  simp only at h0 h16 hpage hbound
  have hoff : a % 65536 < 65536 := Nat.mod_lt _ (by decide)
  generalize hck : cksum ((d.map (·.toNat)).length + a % 65536 / 256 + a % 65536 % 256 + 0 +
    (d.map (·.toNat)).sum) = ckN
  have hckN : ckN < 256 := by rw [← hck]; exact cksum_lt _
  have htext : recLine 0 (a % 65536) (d.map (·.toNat)) ++ '\n' :: X =
      ':' :: (hexN hexDigitU 2 d.length ++ (hexN hexDigitU 2 (a % 65536 / 256) ++
        (hexN hexDigitU 2 (a % 65536 % 256) ++ (hexN hexDigitU 2 0 ++
        (hexBytesU (d.map (·.toNat)) ++ (hexN hexDigitU 2 ckN ++ '\n' :: X)))))) := by
    unfold recLine
    rw [hck]
    simp only [hexBytesU_cons, hexBytesU_append, hexBytesU_nil, List.length_map, List.cons_append,
      List.append_assoc, List.append_nil]
  rw [htext]
  have h1 := getHex2_zero d.length (hexN hexDigitU 2 (a % 65536 / 256) ++
        (hexN hexDigitU 2 (a % 65536 % 256) ++ (hexN hexDigitU 2 0 ++
        (hexBytesU (d.map (·.toNat)) ++ (hexN hexDigitU 2 ckN ++ '\n' :: X))))) (by omega)
  have h2 := getHex4_zero (a % 65536 / 256) (a % 65536 % 256) (hexN hexDigitU 2 0 ++
        (hexBytesU (d.map (·.toNat)) ++ (hexN hexDigitU 2 ckN ++ '\n' :: X))) (by omega) (by omega)
  rw [show a % 65536 / 256 * 256 + a % 65536 % 256 = a % 65536 by omega] at h2
  have h3 : getHex 2 0 (hexN hexDigitU 2 0 ++
        (hexBytesU (d.map (·.toNat)) ++ (hexN hexDigitU 2 ckN ++ '\n' :: X))) = ((0 : Int), _) :=
    getHex2_zero 0 _ (by omega)
  have hua : toU32 (wrapS (((a % 65536 : Nat) : Int) + st.segment)) = a := by
    rw [toU32_wrapS]; unfold toU32 at hseg ⊢; omega
  obtain ⟨x, h4⟩ := dataLoop_store d (wrapS (((a % 65536 : Nat) : Int) + st.segment)) a
    ((d.length : Int) + ((a % 65536 : Nat) : Int) % 256 + (((a % 65536 : Nat) : Int) >>> 8) + 0)
    (hexN hexDigitU 2 ckN ++ '\n' :: X) st.acc (by rw [hua]; omega) (by omega)
  have h5 := getHex2_zero ckN ('\n' :: X) hckN
  have h6 : (ckN : Int) = ((255 - ((d.length : Int) + ((a % 65536 : Nat) : Int) % 256 +
      (((a % 65536 : Nat) : Int) >>> 8) + 0 + (((d.map (·.toNat)).sum : Nat) : Int)) % 256) + 1) % 256 := by
    rw [← hck]
    apply want_eq
    rw [Int.shiftRight_eq_div_pow]
    simp only [List.length_map]
    omega
  rw [loop_data_generic fuel _ st _ _ _ _ _ _ _ _ _ _ _ h1 h2 h3 h4 h5 h6, skipLine_nl, hua]

/-- **one extended linear address record** written by `write_hex_line`, read back by `read_hex` -/
theorem loop_ext (fuel : Nat) (b1 b2 : Nat) (X : List Char) (st : HexState)
    (hb1 : b1 < 256) (hb2 : b2 < 256) :
    readHexLoop (fuel + 1) (recLine 4 0 [b1, b2] ++ '\n' :: X) st =
      readHexLoop fuel X { st with segment := wrapS (((b1 * 256 + b2 : Nat) : Int) * 65536) } := by
  generalize hck : cksum ([b1, b2].length + 0 / 256 + 0 % 256 + 4 + [b1, b2].sum) = ckN
  have hckN : ckN < 256 := by rw [← hck]; exact cksum_lt _
  have htext : recLine 4 0 [b1, b2] ++ '\n' :: X =
      ':' :: (hexN hexDigitU 2 2 ++ (hexN hexDigitU 2 0 ++
        (hexN hexDigitU 2 0 ++ (hexN hexDigitU 2 4 ++
        (hexN hexDigitU 2 b1 ++ (hexN hexDigitU 2 b2 ++ (hexN hexDigitU 2 ckN ++ '\n' :: X))))))) := by
    unfold recLine
    rw [hck]
    simp only [hexBytesU_cons, hexBytesU_nil, List.length_cons, List.length_nil, List.cons_append,
      List.append_assoc, List.append_nil, List.nil_append, Nat.zero_div, Nat.zero_mod]
  rw [htext]
  have h1 : getHex 2 0 _ = ((2 : Int), _) := getHex2_zero 2 (hexN hexDigitU 2 0 ++
        (hexN hexDigitU 2 0 ++ (hexN hexDigitU 2 4 ++
        (hexN hexDigitU 2 b1 ++ (hexN hexDigitU 2 b2 ++ (hexN hexDigitU 2 ckN ++ '\n' :: X)))))) (by omega)
  have h2 : getHex 4 0 _ = ((0 : Int), _) := getHex4_zero 0 0 (hexN hexDigitU 2 4 ++
        (hexN hexDigitU 2 b1 ++ (hexN hexDigitU 2 b2 ++ (hexN hexDigitU 2 ckN ++ '\n' :: X))))
        (by omega) (by omega)
  have h3 : getHex 2 0 _ = ((4 : Int), _) := getHex2_zero 4
        (hexN hexDigitU 2 b1 ++ (hexN hexDigitU 2 b2 ++ (hexN hexDigitU 2 ckN ++ '\n' :: X))) (by omega)
  have h4 := getHex4_zero b1 b2 (hexN hexDigitU 2 ckN ++ '\n' :: X) hb1 hb2
  have h5 := getHex2_zero ckN ('\n' :: X) hckN
  have h6 : (ckN : Int) = ((255 - ((2 : Int) + (0 : Int) % 256 + ((0 : Int) >>> 8) + (4 : Int) +
      ((b1 * 256 + b2 : Nat) : Int) % 256 + (((b1 * 256 + b2 : Nat) : Int) >>> 8)) % 256) + 1) % 256 := by
    rw [← hck]
    apply want_eq
    rw [Int.shiftRight_eq_div_pow, Int.shiftRight_eq_div_pow]
    simp only [List.length_cons, List.length_nil, List.sum_cons, List.sum_nil]
    omega
  rw [loop_ext_generic fuel _ st _ _ _ _ _ _ _ _ _ h1 h2 h3 h4 h5 h6, skipLine_nl]

/-! ### (c) the whole file -/

/-- the reader's `start` / `end` bookkeeping over a sequence of data records -/
def track : Int → Int → List (Nat × List Byte) → Int × Int
  | s, e, [] => (s, e)
  | s, e, (a, d) :: rest =>
    track (if s = -1 then (a : Int) else if (a : Int) < s then (a : Int) else s)
      (if s = -1 then (a : Int) + (d.length : Int) - 1
       else if (a : Int) + (d.length : Int) > e then (a : Int) + (d.length : Int) - 1 else e) rest

theorem renderLines_length (recs : List (Nat × List Byte)) : ∀ seg : Nat,
    2 * recs.length ≤ (renderLines seg recs).length := by
  induction recs with
  | nil => intro seg; simp [renderLines]
  | cons r rest ih =>
    intro seg
    obtain ⟨a, d⟩ := r
    have := ih (writeLine seg a d).2
    simp only [renderLines, List.length_append, List.length_cons]
    have h2 : 2 ≤ (writeLine seg a d).1.length := by
      unfold writeLine
      simp only [List.length_append, List.length_cons, List.length_nil]
      omega
    omega

/-- the writer's record sequence followed by the EOF record, read by `read_hex` from every state
whose `segment` is the writer's -/
theorem loop_render : ∀ (recs : List (Nat × List Byte)), (∀ r ∈ recs, Good (2 ^ 32) r) →
    ∀ (seg fuel : Nat) (st : HexState), 2 * recs.length + 2 ≤ fuel → toU32 st.segment = seg →
    readHexLoop fuel (renderLines seg recs ++ ":00000001FF\n".toList) st =
      { ret := 0, writes := st.acc.reverse ++ flat recs,
        low := toU32 (track st.start st.stop recs).1, high := toU32 (track st.start st.stop recs).2 } := by
  intro recs
  induction recs with
  | nil =>
    intro _ seg fuel st hf _
    obtain ⟨f, rfl⟩ : ∃ f, fuel = f + 2 := ⟨fuel - 2, by simp at hf; omega⟩
    simp only [renderLines, List.nil_append, loop_eof, finish, flat_nil, List.append_nil, track]
  | cons r rest ih =>
    intro hg seg fuel st hf hseg
    obtain ⟨a, d⟩ := r
    have hgr : Good (2 ^ 32) (a, d) := hg (a, d) (by simp)
    have hgrest : ∀ r ∈ rest, Good (2 ^ 32) r := fun r hr => hg r (by simp [hr])
    have hb : a < 2 ^ 32 := by
      obtain ⟨h0, _, _, hbound⟩ := hgr
      simp only at h0 hbound; omega
    simp only [List.length_cons] at hf
    simp only [renderLines, flat_cons, track]
    by_cases hs : a / 65536 * 65536 = seg
    · have hw : writeLine seg a d = ((recLine 0 (a % 65536) (d.map (·.toNat)) ++ ['\n']), seg) := by
        unfold writeLine
        simp only [hs, ne_eq, not_true_eq_false, if_false, List.nil_append]
        rw [dataLine_eq (a % 65536) d (by omega) (by obtain ⟨_, h16, _, _⟩ := hgr; simp only at h16; omega)]
      obtain ⟨f, rfl⟩ : ∃ f, fuel = f + 1 := ⟨fuel - 1, by omega⟩
      rw [hw]
      simp only [List.append_assoc, List.cons_append, List.nil_append]
      rw [loop_data f a d _ st hgr (by rw [hseg, hs]), ih hgrest seg f]
      · simp only [List.reverse_append, List.reverse_reverse, List.append_assoc]
      · omega
      · exact hseg
    · have hw : writeLine seg a d =
          ((recLine 4 0 [a / 65536 * 65536 / 16777216 % 256, a / 65536 * 65536 / 65536 % 256] ++ ['\n']) ++
           (recLine 0 (a % 65536) (d.map (·.toNat)) ++ ['\n']), a / 65536 * 65536) := by
        unfold writeLine
        simp only [hs, ne_eq, not_false_eq_true, if_true]
        rw [dataLine_eq (a % 65536) d (by omega) (by obtain ⟨_, h16, _, _⟩ := hgr; simp only at h16; omega),
          extLine_eq (a / 65536 * 65536) (by omega)]
      obtain ⟨f, rfl⟩ : ∃ f, fuel = f + 2 := ⟨fuel - 2, by omega⟩
      rw [hw]
      simp only [List.append_assoc, List.cons_append, List.nil_append]
      have hseg' : toU32 (wrapS (((a / 65536 * 65536 / 16777216 % 256 * 256 +
          a / 65536 * 65536 / 65536 % 256 : Nat) : Int) * 65536)) = a / 65536 * 65536 := by
        rw [toU32_wrapS]; unfold toU32; omega
      rw [loop_ext (f + 1) _ _ _ st (by omega) (by omega)]
      rw [loop_data f a d _ _ hgr]
      · rw [ih hgrest (a / 65536 * 65536) f]
        · simp only [List.reverse_append, List.reverse_reverse, List.append_assoc]
        · omega
        · exact hseg'
      · exact hseg'

/-- `hex_read_write` without the `low` / `high` part made explicit -/
theorem hex_read_write_partial (img : Image) (h : img.WF) :
    readHex (HexImpl.write img) =
      { ret := 0, writes := img.writtenCells,
        low := toU32 (track (-1) (-1) img.chunks).1, high := toU32 (track (-1) (-1) img.chunks).2 } := by
  unfold readHex HexImpl.write
  have hl := renderLines_length img.chunks 0
  have he : ":00000001FF\n".toList.length = 12 := by decide
  rw [loop_render img.chunks (chunks_good img h) 0 _ {} (by simp only [List.length_append]; omega) (by decide)]
  simp only [List.reverse_nil, List.nil_append, chunks_flat]

/-! ### (d) `low_address` / `high_address` -/

theorem cellsFrom_ge : ∀ (cs : List (Option Byte)) (n : Nat), ∀ x ∈ cellsFrom n cs, n ≤ x.1 := by
  intro cs
  induction cs with
  | nil => intro n x hx; simp [cellsFrom] at hx
  | cons c cs ih =>
    intro n x hx
    cases c with
    | none =>
      simp only [cellsFrom] at hx
      have := ih (n + 1) x hx; omega
    | some b =>
      simp only [cellsFrom, List.mem_cons] at hx
      cases hx with
      | inl h => subst h; exact Nat.le_refl _
      | inr h => have := ih (n + 1) x h; omega

theorem cellsFrom_last : ∀ (cs : List (Option Byte)) (n : Nat) (b : Byte), cs.getLast? = some (some b) →
    (n + cs.length - 1, b) ∈ cellsFrom n cs := by
  intro cs
  induction cs with
  | nil => intro n b h; simp at h
  | cons c cs ih =>
    intro n b h
    cases cs with
    | nil =>
      simp only [List.getLast?_singleton, Option.some.injEq] at h
      subst h
      simp [cellsFrom]
    | cons c' cs' =>
      rw [List.getLast?_cons_cons] at h
      have := ih (n + 1) b h
      simp only [List.length_cons] at this ⊢
      rw [show n + (cs'.length + 1 + 1) - 1 = n + 1 + (cs'.length + 1) - 1 by omega]
      cases c with
      | none => simpa only [cellsFrom] using this
      | some b0 => simp only [cellsFrom, List.mem_cons]; exact Or.inr this

theorem cellsAt_mem : ∀ (d : List Byte) (a : Nat), ∀ x ∈ cellsAt a d, a ≤ x.1 ∧ x.1 < a + d.length := by
  intro d
  induction d with
  | nil => intro a x hx; simp at hx
  | cons b bs ih =>
    intro a x hx
    simp only [cellsAt, List.mem_cons] at hx
    simp only [List.length_cons]
    cases hx with
    | inl h => subst h; simp only; omega
    | inr h => have := ih (a + 1) x h; omega

theorem track_bounds (L H : Nat) : ∀ (recs : List (Nat × List Byte)) (s e : Int),
    (∀ r ∈ recs, L ≤ r.1 ∧ 0 < r.2.length ∧ r.1 + r.2.length ≤ H + 1) → s = (L : Int) → e ≤ (H : Int) →
    (track s e recs).1 = (L : Int) ∧ e ≤ (track s e recs).2 ∧ (track s e recs).2 ≤ (H : Int) ∧
      ∀ r ∈ recs, ((r.1 + r.2.length : Nat) : Int) - 1 ≤ (track s e recs).2 := by
  intro recs
  induction recs with
  | nil => intro s e _ hs he; simp [track, hs, he]
  | cons r rest ih =>
    intro s e hr hs he
    obtain ⟨a, d⟩ := r
    obtain ⟨h1, h2, h3⟩ := hr (a, d) (by simp)
    simp only at h1 h2 h3
    have hne : ¬ (s = -1) := by omega
    have hs' : (if s = -1 then (a : Int) else if (a : Int) < s then (a : Int) else s) = (L : Int) := by
      rw [if_neg hne]; split <;> omega
    have he' : (if s = -1 then (a : Int) + (d.length : Int) - 1
       else if (a : Int) + (d.length : Int) > e then (a : Int) + (d.length : Int) - 1 else e) ≤ (H : Int) := by
      rw [if_neg hne]; split <;> omega
    have hge : e ≤ (if s = -1 then (a : Int) + (d.length : Int) - 1
       else if (a : Int) + (d.length : Int) > e then (a : Int) + (d.length : Int) - 1 else e) ∧
       (a : Int) + (d.length : Int) - 1 ≤ (if s = -1 then (a : Int) + (d.length : Int) - 1
       else if (a : Int) + (d.length : Int) > e then (a : Int) + (d.length : Int) - 1 else e) := by
      rw [if_neg hne]; split <;> omega
    obtain ⟨i1, i2, i3, i4⟩ := ih _ _ (fun r hr' => hr r (by simp [hr'])) hs' he'
    simp only [track]
    refine ⟨i1, by omega, i3, ?_⟩
    intro r hr'
    simp only [List.mem_cons] at hr'
    cases hr' with
    | inl h => subst h; simp only; omega
    | inr h => exact i4 r h

/-- with a tight image the reader's bookkeeping ends at exactly `low` / `high` -/
theorem track_chunks (img : Image) (ht : img.Tight) :
    track (-1) (-1) img.chunks = ((img.low : Int), (img.high : Int)) := by
  obtain ⟨⟨b0, cs0, hc0⟩, ⟨bl, hlast⟩⟩ := ht
  have hflat := chunks_flat img
  unfold Image.writtenCells at hflat
  have hlen : 0 < img.cells.length := by rw [hc0]; simp
  -- every record lies inside [low, high]
  have hgood := chunkLoop_good (img.low + img.cells.length) img.cells img.low 0 []
    (Nat.le_refl _) (Or.inl rfl)
  have hin : ∀ r ∈ img.chunks, img.low ≤ r.1 ∧ 0 < r.2.length ∧ r.1 + r.2.length ≤ img.high + 1 := by
    intro r hr
    obtain ⟨g0, _, _, gb⟩ := hgood r hr
    refine ⟨?_, g0, by unfold Image.high; omega⟩
    obtain ⟨a, d⟩ := r
    cases d with
    | nil => simp at g0
    | cons x xs =>
      have hm : (a, x) ∈ flat img.chunks := by
        unfold flat
        rw [List.mem_flatMap]
        exact ⟨(a, x :: xs), hr, by simp [cellsAt]⟩
      rw [hflat] at hm
      exact cellsFrom_ge _ _ _ hm
  -- some record ends at high
  have hex : ∃ r ∈ img.chunks, img.high < r.1 + r.2.length := by
    have hm := cellsFrom_last img.cells img.low bl hlast
    rw [← hflat] at hm
    unfold flat at hm
    rw [List.mem_flatMap] at hm
    obtain ⟨r, hr, hx⟩ := hm
    exact ⟨r, hr, (cellsAt_mem _ _ _ hx).2⟩
  -- the first record starts at low
  cases hch : img.chunks with
  | nil =>
    rw [hch, hc0] at hflat
    simp [cellsFrom] at hflat
  | cons r rest =>
    obtain ⟨a, d⟩ := r
    rw [hch] at hin hex hflat
    obtain ⟨i1, i2, i3⟩ := hin (a, d) (by simp)
    simp only at i1 i2 i3
    have ha : a = img.low := by
      cases d with
      | nil => simp at i2
      | cons x xs =>
        rw [hc0] at hflat
        simp only [flat_cons, cellsAt, cellsFrom, List.cons_append, List.cons.injEq, Prod.mk.injEq] at hflat
        exact hflat.1.1
    subst ha
    have hb := track_bounds img.low img.high rest (img.low : Int) ((img.low : Int) + (d.length : Int) - 1)
      (fun r hr => hin r (by simp [hr])) rfl (by omega)
    obtain ⟨t1, t2, t3, t4⟩ := hb
    have hhigh : (img.high : Int) ≤ (track (img.low : Int) ((img.low : Int) + (d.length : Int) - 1) rest).2 := by
      obtain ⟨r, hr, hlt⟩ := hex
      simp only [List.mem_cons] at hr
      cases hr with
      | inl h => subst h; simp only at hlt; omega
      | inr h => have := t4 r h; omega
    simp only [track, if_true]
    apply Prod.ext
    · exact t1
    · simp only; omega

/-- **C03, Intel HEX**: `read_hex` applied to what `write_hex` wrote reproduces the image -/
theorem hex_read_write' (img : Image) (h : img.WF) (ht : img.Tight) :
    readHex (HexImpl.write img) =
      { ret := 0, writes := img.writtenCells, low := img.low, high := img.high } := by
  rw [hex_read_write_partial img h, track_chunks img ht]
  have hlen : 0 < img.cells.length := by
    obtain ⟨⟨b0, cs0, hc0⟩, _⟩ := ht
    rw [hc0]; simp
  have hw := h.1
  rw [toU32_ofNat (by omega), toU32_ofNat (by unfold Image.high; omega)]

end ReadHexProofs

theorem hex_read_write (img : Image) (h : img.WF) (ht : img.Tight) :
    ReadImpl.readHex (HexImpl.write img) =
      { ret := 0, writes := img.writtenCells, low := img.low, high := img.high } :=
  ReadHexProofs.hex_read_write' img h ht

end NakenVerif.FileIO
