import NakenVerif.FileIO.Image
/-
Transcription of /repo/fileio/read_ti_txt.cpp (the TI-TXT loader of naken_util), a character state machine.
`value` and `address` are `uint32_t`.
-/
namespace NakenVerif.FileIO.TiTxtImpl
open NakenVerif.FileIO

inductive Ty where
  | address | value | error | eof
  deriving DecidableEq, Repr

def digit? (c : Char) : Option Nat :=
  if '0' ≤ c ∧ c ≤ '9' then some (c.toNat - 48)
  else if 'A' ≤ c ∧ c ≤ 'F' then some (c.toNat - 55)
  else if 'a' ≤ c ∧ c ≤ 'f' then some (c.toNat - 87)
  else none

/-- the inner `while(1)`: one token.  Result: type, value, the rest of the input. -/
def token : List Char → Ty → Nat → Nat → Ty × Nat × List Char
  | [], ty, value, len => (if len = 0 then Ty.eof else ty, value, [])     -- EOF (the next getc is EOF again)
  | c :: s, ty, value, len =>
    if c = '\r' then token s ty value len
    else if c = '\n' ∨ c = ' ' then (if len = 0 then token s ty value len else (ty, value, s))
    else if c = '@' then token s Ty.address value len
    else if c = 'q' then (Ty.eof, value, s)
    else match digit? c with
      | some d => token s ty ((value * 16 + d) % 4294967296) (len + 1)
      | none => (Ty.error, value, s)

structure Loaded where
  ret : Int
  writes : List (Nat × Byte)
  low : Nat
  high : Nat
  deriving Repr, DecidableEq

/-- the outer `while(1)`; `fuel` ≥ number of tokens + 1 -/
def loop : Nat → List Char → Nat → Nat → Nat → List (Nat × Byte) → Loaded
  | 0, _, _, start, stop, acc => { ret := 0, writes := acc.reverse, low := start, high := stop }
  | fuel + 1, s, address, start, stop, acc =>
    match token s Ty.value 0 0 with
    | (Ty.address, value, s1) => loop fuel s1 value start stop acc
    | (Ty.value, value, s1) =>
      loop fuel s1 ((address + 1) % 4294967296) (if address < start then address else start)
        (if address > stop then address else stop) ((address, UInt8.ofNat (value % 256)) :: acc)
    | (_, _, _) => { ret := 0, writes := acc.reverse, low := start, high := stop }

/-- `read_ti_txt(filename, memory)` -/
def read (file : List Char) : Loaded := loop (file.length + 2) file 0 0xffffffff 0 []

end NakenVerif.FileIO.TiTxtImpl
