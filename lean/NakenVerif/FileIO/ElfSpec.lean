import NakenVerif.FileIO.Image
/-
ELF decoder written from the System V gABI (chapter 4 "Object Files": ELF header, sections, string
tables, symbol table; chapter 5: program header), NOT from /repo/fileio.

* `e_ident`: magic 0x7f 'E' 'L' 'F', EI_CLASS 1 (ELFCLASS32) / 2 (ELFCLASS64), EI_DATA 1 (LSB) / 2 (MSB),
  EI_VERSION 1.  All multi-byte fields use the byte order of EI_DATA.
* `Elf32_Ehdr` / `Elf64_Ehdr`: e_type, e_machine (Half), e_version (Word), e_entry, e_phoff, e_shoff
  (Addr/Off: 4 or 8 bytes), e_flags (Word), e_ehsize, e_phentsize, e_phnum, e_shentsize, e_shnum,
  e_shstrndx (Half).  e_ehsize is the header's size (52 / 64), e_shentsize one section header's (40 / 64),
  e_phentsize one program header's (32 / 56).
* section header table: e_shnum entries of e_shentsize bytes at e_shoff; entry 0 is the null entry
  (SHT_NULL); `Elf32_Shdr` = 10 Words; `Elf64_Shdr` = name, type (Word), flags, addr, offset, size (Xword),
  link, info (Word), addralign, entsize (Xword).  A section other than SHT_NULL / SHT_NOBITS occupies
  `[sh_offset, sh_offset + sh_size)` of the file.  A section with SHF_ALLOC occupies memory at sh_addr.
* string tables (SHT_STRTAB): first and last byte are NUL; a name is the NUL-terminated string at an index.
  A section with SHF_STRINGS consists of NUL-terminated strings.
* symbol table (SHT_SYMTAB): sh_entsize = 16 / 24, sh_link = its string table, entry 0 is the null symbol,
  sh_info = one greater than the index of the last STB_LOCAL symbol (all locals precede all globals);
  st_shndx is a section index or a reserved one (≥ 0xff00).
  `Elf32_Sym` = name, value, size (Word), info, other (char), shndx (Half);
  `Elf64_Sym` = name (Word), info, other, shndx, value, size (Xword).
* program header: `Elf32_Phdr` = type, offset, vaddr, paddr, filesz, memsz, flags, align (Words);
  `Elf64_Phdr` = type, flags (Word), offset, vaddr, paddr, filesz, memsz, align (Xword); a PT_LOAD (1) segment
  maps `[p_offset, p_offset + p_filesz)` of the file to p_vaddr.
Anything that violates one of these is rejected (`none`).
-/
namespace NakenVerif.FileIO.ElfSpec
open NakenVerif.FileIO

def leVal : List Byte → Nat
  | [] => 0
  | b :: bs => b.toNat + 256 * leVal bs

def beVal (bs : List Byte) : Nat := bs.foldl (fun a b => a * 256 + b.toNat) 0

def val (big : Bool) (bs : List Byte) : Nat := if big then beVal bs else leVal bs

/-- take an `n`-byte unsigned integer off the front -/
def field (big : Bool) (n : Nat) (s : List Byte) : Option (Nat × List Byte) :=
  if n ≤ s.length then some (val big (s.take n), s.drop n) else none

/-- `n` bytes of the file at offset `off` -/
def slice (f : List Byte) (off n : Nat) : List Byte := (f.drop off).take n

structure Ehdr where
  cls : Nat
  big : Bool
  type : Nat
  machine : Nat
  version : Nat
  entry : Nat
  phoff : Nat
  shoff : Nat
  flags : Nat
  ehsize : Nat
  phentsize : Nat
  phnum : Nat
  shentsize : Nat
  shnum : Nat
  shstrndx : Nat
  deriving Repr, DecidableEq

def parseEhdr (f : List Byte) : Option Ehdr :=
  match f with
  | m0 :: m1 :: m2 :: m3 :: cls :: dat :: ver :: _ :: _ :: _ :: _ :: _ :: _ :: _ :: _ :: _ :: r0 =>
    if m0 = 0x7f ∧ m1 = 0x45 ∧ m2 = 0x4c ∧ m3 = 0x46 ∧ (cls = 1 ∨ cls = 2) ∧ (dat = 1 ∨ dat = 2) ∧ ver = 1 then
      let big : Bool := dat = 2
      let w := if cls = 1 then 4 else 8
      match field big 2 r0 with
      | none => none
      | some (type, r1) =>
      match field big 2 r1 with
      | none => none
      | some (machine, r2) =>
      match field big 4 r2 with
      | none => none
      | some (version, r3) =>
      match field big w r3 with
      | none => none
      | some (entry, r4) =>
      match field big w r4 with
      | none => none
      | some (phoff, r5) =>
      match field big w r5 with
      | none => none
      | some (shoff, r6) =>
      match field big 4 r6 with
      | none => none
      | some (flags, r7) =>
      match field big 2 r7 with
      | none => none
      | some (ehsize, r8) =>
      match field big 2 r8 with
      | none => none
      | some (phentsize, r9) =>
      match field big 2 r9 with
      | none => none
      | some (phnum, r10) =>
      match field big 2 r10 with
      | none => none
      | some (shentsize, r11) =>
      match field big 2 r11 with
      | none => none
      | some (shnum, r12) =>
      match field big 2 r12 with
      | none => none
      | some (shstrndx, _) =>
        some { cls := cls.toNat, big := big, type := type, machine := machine, version := version, entry := entry,
               phoff := phoff, shoff := shoff, flags := flags, ehsize := ehsize, phentsize := phentsize, phnum := phnum,
               shentsize := shentsize, shnum := shnum, shstrndx := shstrndx }
    else none
  | _ => none

structure Shdr where
  name : Nat
  type : Nat
  flags : Nat
  addr : Nat
  offset : Nat
  size : Nat
  link : Nat
  info : Nat
  addralign : Nat
  entsize : Nat
  deriving Repr, DecidableEq

/-- a sequence of fields of the given widths -/
def fields (big : Bool) : List Nat → List Byte → Option (List Nat × List Byte)
  | [], s => some ([], s)
  | n :: ns, s =>
    match field big n s with
    | none => none
    | some (v, r) =>
      match fields big ns r with
      | none => none
      | some (vs, r') => some (v :: vs, r')

def parseShdr (big : Bool) (cls : Nat) (s : List Byte) : Option (Shdr × List Byte) :=
  match fields big (if cls = 1 then [4, 4, 4, 4, 4, 4, 4, 4, 4, 4] else [4, 4, 8, 8, 8, 8, 4, 4, 8, 8]) s with
  | some ([name, type, flags, addr, offset, size, link, info, addralign, entsize], r) =>
    some ({ name, type, flags, addr, offset, size, link, info, addralign, entsize }, r)
  | _ => none

def parseShdrs (big : Bool) (cls : Nat) : Nat → List Byte → Option (List Shdr)
  | 0, _ => some []
  | n + 1, s =>
    match parseShdr big cls s with
    | none => none
    | some (h, r) =>
      match parseShdrs big cls n r with
      | none => none
      | some hs => some (h :: hs)

structure Sym where
  name : Nat
  value : Nat
  size : Nat
  info : Nat
  other : Nat
  shndx : Nat
  deriving Repr, DecidableEq

def parseSym (big : Bool) (cls : Nat) (s : List Byte) : Option (Sym × List Byte) :=
  if cls = 1 then
    match fields big [4, 4, 4, 1, 1, 2] s with
    | some ([name, value, size, info, other, shndx], r) => some ({ name, value, size, info, other, shndx }, r)
    | _ => none
  else
    match fields big [4, 1, 1, 2, 8, 8] s with
    | some ([name, info, other, shndx, value, size], r) => some ({ name, value, size, info, other, shndx }, r)
    | _ => none

def parseSyms (big : Bool) (cls : Nat) : Nat → List Byte → Option (List Sym)
  | 0, _ => some []
  | n + 1, s =>
    match parseSym big cls s with
    | none => none
    | some (y, r) =>
      match parseSyms big cls n r with
      | none => none
      | some ys => some (y :: ys)

/-- PT_LOAD segments: (p_vaddr, p_offset, p_filesz) -/
def parsePhdr (big : Bool) (cls : Nat) (s : List Byte) : Option ((Nat × Nat × Nat × Nat) × List Byte) :=
  if cls = 1 then
    match fields big [4, 4, 4, 4, 4, 4, 4, 4] s with
    | some ([type, offset, vaddr, _, filesz, _, _, _], r) => some ((type, vaddr, offset, filesz), r)
    | _ => none
  else
    match fields big [4, 4, 8, 8, 8, 8, 8, 8] s with
    | some ([type, _, offset, vaddr, _, filesz, _, _], r) => some ((type, vaddr, offset, filesz), r)
    | _ => none

def parsePhdrs (big : Bool) (cls : Nat) : Nat → List Byte → Option (List (Nat × Nat × Nat × Nat))
  | 0, _ => some []
  | n + 1, s =>
    match parsePhdr big cls s with
    | none => none
    | some (h, r) =>
      match parsePhdrs big cls n r with
      | none => none
      | some hs => some (h :: hs)

/-- a string table: empty, or first and last byte NUL -/
def validStrtab (tab : List Byte) : Bool := tab = [] ∨ (tab.head? = some 0 ∧ tab.getLast? = some 0)

/-- the NUL-terminated string at index `off` of a (valid) string table -/
def cstr (tab : List Byte) (off : Nat) : Option (List Byte) :=
  if off < tab.length then some ((tab.drop off).takeWhile (· ≠ 0)) else none

/-- the file range of a section lies inside the file -/
def sectionInFile (flen : Nat) (s : Shdr) : Bool := s.type = 0 ∨ s.type = 8 ∨ s.offset + s.size ≤ flen

/-- SHF_STRINGS (0x20): the content ends with a NUL -/
def stringsOk (f : List Byte) (s : Shdr) : Bool :=
  s.flags / 32 % 2 = 0 ∨ s.type = 8 ∨ s.size = 0 ∨ (slice f s.offset s.size).getLast? = some 0

/-- SHT_PROGBITS (1) with SHF_ALLOC (2): the bytes occupy memory from sh_addr on -/
def progCells (f : List Byte) (s : Shdr) : List (Nat × Byte) :=
  if s.type = 1 ∧ s.flags / 2 % 2 = 1 then cellsAt s.addr (slice f s.offset s.size) else []

/-- names of the symbols at index ≥ sh_info (the non-local ones) -/
def globalSyms (tab : List Byte) : List Sym → Option (List (List Byte × Nat))
  | [] => some []
  | y :: ys =>
    match cstr tab y.name, globalSyms tab ys with
    | some n, some rest => some ((n, y.value) :: rest)
    | _, _ => none

/-- the symbols of one section header (nothing unless SHT_SYMTAB): the global symbols with their values -/
def symtabSyms (f : List Byte) (e : Ehdr) (secs : List Shdr) (s : Shdr) : Option (List (List Byte × Nat)) :=
  if s.type ≠ 2 then some [] else
  let esz := if e.cls = 1 then 16 else 24
  if s.entsize = esz ∧ s.size % esz = 0 then
    match secs[s.link]? with
    | none => none
    | some st =>
      let tab := slice f st.offset st.size
      if st.type = 3 ∧ validStrtab tab then
        match parseSyms e.big e.cls (s.size / esz) (slice f s.offset s.size) with
        | none => none
        | some syms =>
          if s.info ≤ syms.length ∧
             (syms.head?.all (fun y => y = ⟨0, 0, 0, 0, 0, 0⟩)) ∧
             (syms.take s.info).all (fun y => y.info / 16 = 0) ∧
             (syms.drop s.info).all (fun y => y.info / 16 ≠ 0) ∧
             syms.all (fun y => (y.shndx < e.shnum ∨ 0xff00 ≤ y.shndx) ∧ y.name < tab.length) then
            globalSyms tab (syms.drop s.info)
          else none
      else none
  else none

def allSyms (f : List Byte) (e : Ehdr) (secs : List Shdr) : List Shdr → Option (List (List Byte × Nat))
  | [] => some []
  | s :: ss =>
    match symtabSyms f e secs s, allSyms f e secs ss with
    | some a, some b => some (a ++ b)
    | _, _ => none

structure Decoded where
  /-- 1 = ELFCLASS32, 2 = ELFCLASS64 -/
  cls : Nat
  big : Bool
  machine : Nat
  entry : Nat
  /-- the bytes that occupy memory (allocated PROGBITS sections in section order) -/
  cells : List (Nat × Byte)
  /-- the global symbols: name, st_value -/
  symbols : List (List Byte × Nat)
  deriving Repr, DecidableEq

def headerOk (flen : Nat) (e : Ehdr) : Bool :=
  e.version = 1 ∧ e.ehsize = (if e.cls = 1 then 52 else 64) ∧
  (e.shnum = 0 ∨ (e.shentsize = (if e.cls = 1 then 40 else 64) ∧ e.ehsize ≤ e.shoff ∧
                   e.shoff + e.shnum * e.shentsize ≤ flen ∧ e.shstrndx < e.shnum)) ∧
  (e.phnum = 0 ∨ (e.phentsize = (if e.cls = 1 then 32 else 56) ∧ e.ehsize ≤ e.phoff ∧
                   e.phoff + e.phnum * e.phentsize ≤ flen))

def decode (f : List Byte) : Option Decoded :=
  match parseEhdr f with
  | none => none
  | some e =>
    if headerOk f.length e then
      match parseShdrs e.big e.cls e.shnum (f.drop e.shoff) with
      | some secs =>
        let shstr := match secs[e.shstrndx]? with
          | some st => if st.type = 3 then slice f st.offset st.size else []
          | none => []
        if secs.all (sectionInFile f.length) ∧ secs.all (stringsOk f) ∧ (secs.head?.all (fun s => s.type = 0)) ∧
           (e.shnum = 0 ∨ (shstr ≠ [] ∧ validStrtab shstr ∧ secs.all (fun s => s.name < shstr.length))) then
          match allSyms f e secs secs with
          | none => none
          | some syms =>
            some { cls := e.cls, big := e.big, machine := e.machine, entry := e.entry,
                   cells := secs.flatMap (progCells f), symbols := syms }
        else none
      | none => none
    else none

/-- the execution view: the PT_LOAD segments as (p_vaddr, file bytes); every one must lie inside the file -/
def decodeLoads (f : List Byte) : Option (List (Nat × List Byte)) :=
  match parseEhdr f with
  | none => none
  | some e =>
    if headerOk f.length e then
      match parsePhdrs e.big e.cls e.phnum (f.drop e.phoff) with
      | none => none
      | some phs =>
        if phs.all (fun p => p.1 ≠ 1 ∨ p.2.2.1 + p.2.2.2 ≤ f.length) then
          some ((phs.filter (fun p => p.1 = 1)).map (fun p => (p.2.1, slice f p.2.2.1 p.2.2.2)))
        else none
    else none

end NakenVerif.FileIO.ElfSpec
