import NakenVerif.FileIO.ElfImpl
/-
Transcription of /repo/fileio/write_amiga.cpp (Amiga hunk load file; `write_uint32` is big endian).
-/
namespace NakenVerif.FileIO.AmigaImpl
open NakenVerif.FileIO

def be32 (v : Nat) : List Byte := ElfImpl.wInt true 4 v

/-- `uint32_t length = (memory->high_address + 1) - memory->low_address;` -/
def length32 (img : Image) : Nat := (ElfImpl.highAddr img + 1 + 4294967296 - img.low % 4294967296) % 4294967296

/-- `uint32_t longs = (length + 3) / 4;` -/
def longs (img : Image) : Nat := (length32 img + 3) % 4294967296 / 4

/-- `write_amiga(memory, out)`: header (no resident library, one hunk, its size), HUNK_CODE, size, the bytes of
`[low, high]`, `for (n = length; n < longs * 4; n++) putc(0)`, HUNK_END -/
def write (img : Image) : List Byte :=
  be32 0x3f3 ++ be32 0 ++ be32 1 ++ be32 0 ++ be32 0 ++ be32 (longs img) ++
  be32 0x3e9 ++ be32 (longs img) ++
  img.cells.map (fun c => c.getD 0) ++ List.replicate (longs img * 4 - length32 img) 0 ++
  be32 0x3f2

end NakenVerif.FileIO.AmigaImpl
