import NakenVerif.FileIO.ProofsElfFinal
/-
C03 / ELF: `ElfSpec.decode (ElfImpl.write img syms cfg)`.
-/
set_option linter.unusedSimpArgs false
namespace NakenVerif.FileIO.ElfProofs
open NakenVerif.FileIO ElfImpl ElfSpec

section
variable (img : Image) (syms : List ElfImpl.Sym) (cfg : Config)

theorem allSyms_write (h : Ok img syms cfg) :
    allSyms (ElfImpl.write img syms cfg) (hdrE img syms cfg) (secsOf img syms cfg) (secsOf img syms cfg) = some syms := by
  have key := symtabSyms_write img syms cfg h
  conv => lhs; arg 4; unfold secsOf
  cases hArm : isArm cfg <;> simp only [hArm, Bool.false_eq_true, if_false, if_true] at key ⊢ <;>
    simp only [allSyms, List.cons_append, List.nil_append, key] <;> simp [symtabSyms]

theorem conds_write :
    (secsOf img syms cfg).all (sectionInFile (ElfImpl.write img syms cfg).length) = true ∧
    (secsOf img syms cfg).all (stringsOk (ElfImpl.write img syms cfg)) = true ∧
    (secsOf img syms cfg).head?.all (fun s => decide (s.type = 0)) = true ∧
    (secsOf img syms cfg)[2]? = some ⟨1, 3, 0, 0, shstrOff img cfg, if isArm cfg then 59 else 43, 0, 0, 1, 0⟩ ∧
    slice (ElfImpl.write img syms cfg) (shstrOff img cfg) (if isArm cfg then 59 else 43) = shstrBytesOf (isArm cfg) ∧
    (secsOf img syms cfg).all (fun s => decide (s.name < (shstrBytesOf (isArm cfg)).length)) = true ∧
    (secsOf img syms cfg).flatMap (progCells (ElfImpl.write img syms cfg)) = cellsAt img.low (textBytes img) := by
  obtain ⟨t1, t2, t3⟩ := text_facts img syms cfg
  obtain ⟨s1, s2, s3⟩ := shstr_facts img syms cfg
  obtain ⟨_, r2, _⟩ := strtab_facts img syms cfg
  obtain ⟨_, y2, _⟩ := symtab_facts img syms cfg
  obtain ⟨c1, c2, c3⟩ := comment_facts img syms cfg
  have a2 := arm_facts img syms cfg
  have ht : (textBytes img).length = img.cells.length := by simp [textBytes]
  rw [shstrBytes_eq] at s1 s3
  rw [(shstr_bytes _).1] at s3
  rw [comment_last.2] at c3
  rw [t3, ht] at t1 t2
  rw [s3] at s1 s2
  rw [c3] at c1 c2
  have hl := (shstr_bytes (isArm cfg)).1
  unfold secsOf
  cases hArm : isArm cfg <;> simp only [hArm, Bool.false_eq_true, if_false, if_true, armSize, aeabi_length] at s1 s2 a2 hl ⊢ <;>
    simp [sectionInFile, stringsOk, progCells, t1, t2, s1, s2, r2, y2, c1, c2, a2, hl, comment_last.1]

/-- Decoding the written file per the gABI: class, byte order, machine, entry point, the bytes of `[low, high]`
(unwritten cells as 0) at their addresses, the exported symbols with their values. -/
theorem decode_write (h : Ok img syms cfg) :
    decode (ElfImpl.write img syms cfg) =
      some { cls := (hdrOf cfg).cls, big := img.bigEndian, machine := (hdrOf cfg).machine % 65536, entry := eEntry img,
             cells := cellsAt img.low (textBytes img), symbols := syms } := by
  obtain ⟨k1, k2, k3, k4, k5, k6, k7⟩ := conds_write img syms cfg
  have hs := allSyms_write img syms cfg h
  have hp := parseShdrs_write img syms cfg h
  have hv := (shstr_bytes (isArm cfg)).2
  have hl := (shstr_bytes (isArm cfg)).1
  have hne : shstrBytesOf (isArm cfg) ≠ [] := by
    intro e; rw [e] at hl; revert hl; cases isArm cfg <;> simp
  unfold decode
  rw [parse_write img syms cfg h]
  simp only [headerOk_write, if_true]
  rw [hp]
  simp only [k1, k2, k3, hs, k7]
  have e2 : (hdrE img syms cfg).shstrndx = 2 := rfl
  simp only [e2, k4, k5, k6, hv, hne, ne_eq, not_false_eq_true, and_self, or_true, if_true, decide_true, hdrE]

end

end NakenVerif.FileIO.ElfProofs
