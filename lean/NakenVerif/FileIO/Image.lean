/-
C03 — what the file writers of /repo/fileio see of an assembled program.

Every writer walks `for (n = memory->low_address; n <= memory->high_address; n++)` and looks at
`memory->read_debug(n)` (is the cell written?) and `memory->read8(n)` (its byte).  So the writers'
input is exactly: `low`, the list of cells of `[low, high]`, the entry point and the endianness.
A cell that was never written reads as byte 0 (pages are zero-filled; see ASSUMPTIONS in
tools/props/C03.py for the one assembler path that stores data without a debug marker).
-/
namespace NakenVerif.FileIO

abbrev Byte := UInt8

structure Image where
  /-- `memory->low_address` (a byte address) -/
  low : Nat
  /-- cell `i` is address `low + i`; `none` = `read_debug == DL_EMPTY`; `high = low + cells.length - 1` -/
  cells : List (Option Byte)
  /-- `memory->entry_point`; `0xffffffff` = not set -/
  entry : Nat := 0xffffffff
  bigEndian : Bool := false
  deriving Repr

namespace Image

def high (img : Image) : Nat := img.low + img.cells.length - 1

/-- The only bound: addresses are `uint32_t`, and the loops `n <= high_address; n++` only end when
`high_address < 0xffffffff` (with `high = 0xffffffff` every writer spins forever: known finding);
the entry point is a `uint32_t`. -/
def WF (img : Image) : Prop := img.low + img.cells.length < 2 ^ 32 ∧ img.entry < 2 ^ 32

instance (img : Image) : Decidable img.WF := by unfold WF; infer_instance

/-- `Memory::write` moves `low_address` / `high_address` to written cells only, so in the image the
assembler leaves the first and the last cell of `[low, high]` are written.  (Needed where low/high
are recomputed from the file: the loaders.) -/
def Tight (img : Image) : Prop :=
  (∃ b cs, img.cells = some b :: cs) ∧ (∃ b, img.cells.getLast? = some (some b))

end Image

/-- the written cells of `[n, n + cs.length)` in ascending address order -/
def cellsFrom : Nat → List (Option Byte) → List (Nat × Byte)
  | _, [] => []
  | n, none :: cs => cellsFrom (n + 1) cs
  | n, some b :: cs => (n, b) :: cellsFrom (n + 1) cs

/-- exactly the assembled bytes at exactly their addresses -/
def Image.writtenCells (img : Image) : List (Nat × Byte) := cellsFrom img.low img.cells

/-- consecutive bytes starting at an address -/
def cellsAt : Nat → List Byte → List (Nat × Byte)
  | _, [] => []
  | a, b :: bs => (a, b) :: cellsAt (a + 1) bs

/-! ### `fprintf` of hexadecimal numbers -/

/-- one digit of `%X` -/
def hexDigitU (d : Nat) : Char := if d < 10 then Char.ofNat (48 + d) else Char.ofNat (55 + d)
/-- one digit of `%x` -/
def hexDigitL (d : Nat) : Char := if d < 10 then Char.ofNat (48 + d) else Char.ofNat (87 + d)

/-- the `k` low hexadecimal digits of `v`, most significant first (`%0kX` of a value `< 16^k`) -/
def hexN (digit : Nat → Char) : Nat → Nat → List Char
  | 0, _ => []
  | k + 1, v => hexN digit k (v / 16) ++ [digit (v % 16)]

/-- number of hex digits `printf("%x")` needs for a 32-bit value, at least `w` -/
def hexWidth (w v : Nat) : Nat :=
  if v < 16 ^ w then w else if v < 16 ^ 5 ∧ w ≤ 5 then 5 else if v < 16 ^ 6 ∧ w ≤ 6 then 6
  else if v < 16 ^ 7 ∧ w ≤ 7 then 7 else 8

/-- `%0wX` -/
def fmtX (w v : Nat) : List Char := hexN hexDigitU (hexWidth w v) v
/-- `%0wx` -/
def fmtx (w v : Nat) : List Char := hexN hexDigitL (hexWidth w v) v

/-! ### The record loop shared (textually) by `write_hex` and `write_srec`

```
len = -1;
for (n = low; n <= high; n++) {
  if (read_debug(n) == DL_EMPTY) { if (len > 0) { write_line(address, data, len); len = -1; } continue; }
  if ((n & 0xffff) == 0 && len > 0) { write_line(address, data, len); len = -1; }
  if (len == -1) { address = n; len = 0; }
  data[len++] = read8(n);
  if (len == 16) { write_line(address, data, len); len = -1; }
}
if (len > 0) { write_line(address, data, len); }
```
`len` is `-1` or `1..15` between iterations, so the state is `(address, buf)` with `buf = []` for
`len == -1`.  The result is the sequence of `write_line(address, data, len)` calls. -/
def chunkLoop (lineLen : Nat) : Nat → List (Option Byte) → Nat → List Byte → List (Nat × List Byte)
  | _, [], addr, buf => if buf ≠ [] then [(addr, buf)] else []
  | n, none :: cs, addr, buf =>
      (if buf ≠ [] then [(addr, buf)] else []) ++ chunkLoop lineLen (n + 1) cs addr []
  | n, some b :: cs, addr, buf =>
      let flush := n % 65536 = 0 ∧ buf ≠ []
      let pre := if flush then [(addr, buf)] else []
      let buf1 := if flush then [] else buf
      let addr1 := if buf1 = [] then n else addr
      let buf2 := buf1 ++ [b]
      if buf2.length = lineLen then pre ++ (addr1, buf2) :: chunkLoop lineLen (n + 1) cs addr1 []
      else pre ++ chunkLoop lineLen (n + 1) cs addr1 buf2

/-- the `write_line` calls of one writer run (`address = 0`, `len = -1` initially) -/
def Image.chunks (img : Image) : List (Nat × List Byte) := chunkLoop 16 img.low img.cells 0 []

end NakenVerif.FileIO
