import NakenVerif.FileIO.Image
/- Transcription of /repo/fileio/write_bin.cpp and read_bin.cpp. -/
namespace NakenVerif.FileIO.BinImpl
open NakenVerif.FileIO

/-- `for (n = low; n <= high; n++) putc(memory->read8(n), out);` — an unwritten cell reads as 0 -/
def write (img : Image) : List Byte := img.cells.map (fun c => c.getD 0)

/-- `read_bin(filename, memory, start_address)`: `write8(address++, ch)` for every byte;
the function now returns 0;
here: (the writes in order, low_address, high_address as `uint32_t`) -/
def read (file : List Byte) (start : Nat) : List (Nat × Byte) × Nat × Nat :=
  (cellsAt start file |>.map (fun (a, b) => (a % 2 ^ 32, b)), start, (start + file.length + (2 ^ 32 - 1)) % 2 ^ 32)

end NakenVerif.FileIO.BinImpl
