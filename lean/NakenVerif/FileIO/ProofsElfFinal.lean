import NakenVerif.FileIO.ProofsElfMain
/-
C03 / ELF: assembling the decode theorem.
-/
set_option linter.unusedSimpArgs false
namespace NakenVerif.FileIO.ElfProofs
open NakenVerif.FileIO ElfImpl ElfSpec

section
variable (img : Image) (syms : List ElfImpl.Sym) (cfg : Config)

theorem shdrs_length : (shdrs img syms cfg).length = shnum cfg := by
  rw [shnum_eq]; unfold shdrs; cases isArm cfg <;> simp

theorem shtab_length : (shtab img syms cfg).length = shnum cfg * (if is32 cfg then 40 else 64) := by
  rw [shnum_eq]; unfold shtab shdrs
  cases isArm cfg <;> simp [renderShdr_length] <;> cases is32 cfg <;> simp

theorem f0_le_shoff : (f0 img cfg).length ≤ shoff img syms cfg := by
  have := f0_le_f1 img cfg; have := f1_le_f2 img cfg; have := f2_le_f3 img cfg; have := f3_le_f4 img cfg
  have := f4_le_f5 img cfg; have := f5_le_f6 img cfg; have := f6_le_f7 img syms cfg; have := f7_le_f8 img syms cfg
  have := f8_le_f9 img syms cfg; have := f9_le_f10 img syms cfg; have := f10_le_f11 img syms cfg
  unfold shoff; omega

theorem headerOk_write : headerOk (ElfImpl.write img syms cfg).length (hdrE img syms cfg) = true := by
  obtain ⟨_, hl⟩ := shoff_facts img syms cfg
  have h0 := f0_le_shoff img syms cfg
  have hf0 := f0_length img cfg
  have hsn := shnum_eq cfg
  have hst := shtab_length img syms cfg
  have h1 := f1_prefix_body img syms cfg |>.length_le
  rw [← write_length] at h1
  have hcls := is32_iff cfg
  unfold headerOk hdrE
  simp only [decide_eq_true_eq, Bool.and_eq_true, Bool.or_eq_true, Bool.decide_and, Bool.decide_or, true_and]
  refine ⟨?_, ?_⟩
  · right
    cases h32 : is32 cfg <;> cases hArm : isArm cfg <;> simp [h32, hArm] at hf0 hsn hst hcls <;>
      simp [hcls, hsn] <;> omega
  · by_cases he : hasEntry img = true
    · right
      have h4096 := f1_length_entry img cfg he
      cases h32 : is32 cfg <;> simp [h32] at hf0 hcls <;> simp [phnum, phoff, phentsize, he, h32, hcls] <;> omega
    · left; simp [phnum, he]

theorem parseShdrs_write (h : Ok img syms cfg) :
    parseShdrs (hdrE img syms cfg).big (hdrE img syms cfg).cls (hdrE img syms cfg).shnum
      ((ElfImpl.write img syms cfg).drop (hdrE img syms cfg).shoff) = some (secsOf img syms cfg) := by
  have := parseShdrs_render img.bigEndian (is32 cfg) (shdrs img syms cfg) []
  rw [clsOf_is32, shdrs_length, List.append_nil, secs_eq img syms cfg h] at this
  simp only [hdrE, (shoff_facts img syms cfg).1]
  exact this

/-- the local entries: null, FILE, SECTION .text (, SECTION .ARM.attributes) -/
def fixedSyms (arm : Bool) : List ElfSpec.Sym :=
  [⟨0, 0, 0, 0, 0, 0⟩, ⟨1, 0, 0, 4, 0, 65521⟩, ⟨0, 0, 0, 3, 0, 1⟩] ++ if arm then [⟨0, 0, 0, 3, 0, 6⟩] else []

theorem fixedSyms_length (arm : Bool) : (fixedSyms arm).length = if arm then 4 else 3 := by cases arm <;> rfl

theorem symtab_parse :
    parseSyms img.bigEndian (clsOf (is32 cfg)) ((if isArm cfg then 4 else 3) + syms.length) (symtabBytes img syms cfg) =
      some (fixedSyms (isArm cfg) ++ parsedSyms (cfg.filename.length + 2) syms) := by
  have hp := parseSyms_entries img.bigEndian (is32 cfg) (cfg.filename.length + 2) syms []
  rw [List.append_nil] at hp
  have hsn := shnum_eq cfg
  unfold symtabBytes fixedSyms
  cases hArm : isArm cfg <;> simp only [hArm, if_true, if_false, Bool.false_eq_true] at hsn ⊢
  · rw [show 3 + syms.length = syms.length + 3 by omega]
    simp only [List.append_assoc, List.nil_append, parseSyms, parseSym_render, hp, normSym, u32, List.cons_append]
  · rw [show 4 + syms.length = syms.length + 4 by omega]
    simp only [List.append_assoc, List.nil_append, parseSyms, parseSym_render, hp, normSym, u32, List.cons_append, hsn]

theorem symtabBytes_length :
    (symtabBytes img syms cfg).length = (if is32 cfg then 16 else 24) * ((if isArm cfg then 4 else 3) + syms.length) := by
  unfold symtabBytes
  cases isArm cfg <;> cases is32 cfg <;> simp [renderSym_length, symEntries_length] <;> omega

theorem strtabBytes_valid : validStrtab (strtabBytes syms cfg) = true ∧ 2 ≤ (strtabBytes syms cfg).length := by
  unfold strtabBytes validStrtab
  have := symNames_getLast syms ([0] ++ cfg.filename)
  constructor
  · simp only [decide_eq_true_eq, Bool.or_eq_true, Bool.and_eq_true]
    right
    exact ⟨by simp, this⟩
  · simp; omega

theorem secsOf_get4 : (secsOf img syms cfg)[4]? =
    some ⟨19, 3, 0, 0, strtabOff img cfg, strtabSize img syms cfg, 0, 0, 1, 0⟩ := by
  unfold secsOf; simp

theorem symtabSyms_write (h : Ok img syms cfg) :
    symtabSyms (ElfImpl.write img syms cfg) (hdrE img syms cfg) (secsOf img syms cfg)
      ⟨11, 2, 0, 0, symtabOff img syms cfg, symtabSize img syms cfg, 4, if isArm cfg then 4 else 3, 4,
        if is32 cfg then 16 else 24⟩ = some syms := by
  obtain ⟨r1, r2, r3⟩ := strtab_facts img syms cfg
  obtain ⟨y1, y2, y3⟩ := symtab_facts img syms cfg
  obtain ⟨v1, v2⟩ := strtabBytes_valid syms cfg
  have hsn := shnum_eq cfg
  have hpar := symtab_parse img syms cfg
  rw [clsOf_is32] at hpar
  have hylen := symtabBytes_length img syms cfg
  have hesz : (if (hdrOf cfg).cls = 1 then 16 else 24) = (if is32 cfg then 16 else 24) := by
    rcases hdrOf_cls cfg with hc | hc <;> simp [is32, hc]
  have hpos : 0 < (if is32 cfg then 16 else 24) := by split <;> omega
  have hmod : symtabSize img syms cfg % (if is32 cfg then 16 else 24) = 0 := by
    rw [y3, hylen]; exact Nat.mul_mod_right _ _
  have hdiv : symtabSize img syms cfg / (if is32 cfg then 16 else 24) = (if isArm cfg then 4 else 3) + syms.length := by
    rw [y3, hylen]; exact Nat.mul_div_cancel_left _ hpos
  -- the exported symbols' names
  have hpre : ([0] ++ cfg.filename ++ [0] : List Byte).length = cfg.filename.length + 2 := by simp
  have htab : strtabBytes syms cfg = ([0] ++ cfg.filename ++ [0]) ++ symNames syms := rfl
  have hlt : (([0] ++ cfg.filename ++ [0]) ++ symNames syms).length < 4294967296 := by
    rw [← htab, ← r3]; have := h.small; omega
  obtain ⟨g1, g2⟩ := globalSyms_names ([0] ++ cfg.filename ++ [0]) syms h.names h.values hlt
  rw [hpre, ← htab] at g1 g2
  have hfl := fixedSyms_length (isArm cfg)
  have htake : (fixedSyms (isArm cfg) ++ parsedSyms (cfg.filename.length + 2) syms).take (if isArm cfg then 4 else 3) =
      fixedSyms (isArm cfg) := List.take_left' hfl
  have hdrop : (fixedSyms (isArm cfg) ++ parsedSyms (cfg.filename.length + 2) syms).drop (if isArm cfg then 4 else 3) =
      parsedSyms (cfg.filename.length + 2) syms := List.drop_left' hfl
  have hall : (parsedSyms (cfg.filename.length + 2) syms).all (fun y => decide (y.info / 16 ≠ 0)) = true := by
    rw [List.all_eq_true] at g2 ⊢
    intro y hy; have := g2 y hy; simp only [decide_eq_true_eq] at this ⊢; exact this.2.1
  have hall2 : (parsedSyms (cfg.filename.length + 2) syms).all
      (fun y => decide ((y.shndx < shnum cfg ∨ 65280 ≤ y.shndx) ∧ y.name < (strtabBytes syms cfg).length)) = true := by
    rw [List.all_eq_true] at g2 ⊢
    intro y hy; have := g2 y hy; simp only [decide_eq_true_eq] at this ⊢
    refine ⟨Or.inl ?_, this.1⟩
    rw [this.2.2, hsn]; split <;> omega
  have hne : strtabBytes syms cfg ≠ [] := by intro e; rw [e] at v2; simp at v2
  unfold symtabSyms
  simp only [hdrE]
  rcases hdrOf_cls cfg with hc | hc
  · have h32 : is32 cfg = true := by simp [is32, hc]
    simp only [h32, if_true] at hmod hdiv
    simp only [hc] at hpar
    simp only [hc, h32, hmod, hdiv, secsOf_get4, r1, y1, v1, hpar, htake, hdrop, g1, hall, hall2, ne_eq, not_true_eq_false,
      if_false, and_self, if_true, decide_true, Bool.and_true, List.all_append, List.length_append, hfl, List.head?_append,
      Bool.false_eq_true]
    cases hArm : isArm cfg <;> simp [fixedSyms, hArm, hsn] <;> exact ⟨by omega, by omega, hne⟩
  · have h32 : is32 cfg = false := by simp [is32, hc]
    simp only [h32, Bool.false_eq_true, ↓reduceIte] at hmod hdiv
    simp only [hc] at hpar
    have h21 : ((2 : Nat) = 1) = False := by decide
    simp only [hc, h21, h32, hmod, hdiv, secsOf_get4, r1, y1, v1, hpar, htake, hdrop, g1, hall, hall2, ne_eq, not_true_eq_false,
      if_false, and_self, if_true, decide_true, Bool.and_true, List.all_append, List.length_append, hfl, List.head?_append,
      Bool.false_eq_true]
    cases hArm : isArm cfg <;> simp [fixedSyms, hArm, hsn] <;> exact ⟨by omega, by omega, hne⟩

end

end NakenVerif.FileIO.ElfProofs
