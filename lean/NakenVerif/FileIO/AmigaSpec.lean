import NakenVerif.FileIO.ElfSpec
/-
Amiga hunk load file decoder written from the AmigaDOS Technical Reference Manual ("Binary file structure", load
files): all values are big-endian longwords.
  hunk_header (0x3F3); resident library names: <length in longs> <name> ... terminated by a zero longword;
  table size; first hunk F; last hunk L; L - F + 1 hunk sizes (in longwords; the two top bits are memory flags);
  then the hunks, each: hunk_code (0x3E9) or hunk_data (0x3EA), N, N longwords of data (N ≤ the size in the table),
  or hunk_bss (0x3EB), N;  terminated by hunk_end (0x3F2).  Nothing may follow the last hunk.
Relocation / symbol / debug blocks are not written by naken_asm and are rejected here.
-/
namespace NakenVerif.FileIO.AmigaSpec
open NakenVerif.FileIO

def long (s : List Byte) : Option (Nat × List Byte) := ElfSpec.field true 4 s

/-- resident library names; `fuel` ≥ number of names -/
def skipNames : Nat → List Byte → Option (List Byte)
  | 0, _ => none
  | fuel + 1, s =>
    match long s with
    | none => none
    | some (n, r) => if n = 0 then some r else if n * 4 ≤ r.length then skipNames fuel (r.drop (n * 4)) else none

def sizes : Nat → List Byte → Option (List Nat × List Byte)
  | 0, s => some ([], s)
  | k + 1, s =>
    match long s with
    | none => none
    | some (n, r) =>
      match sizes k r with
      | none => none
      | some (ns, r') => some (n % 1073741824 :: ns, r')

/-- the hunks: for each table entry one code / data / bss hunk ended by hunk_end; the bytes each brings -/
def hunks : List Nat → List Byte → Option (List (List Byte))
  | [], s => if s = [] then some [] else none
  | sz :: szs, s =>
    match long s with
    | none => none
    | some (ty, r) =>
      match long r with
      | none => none
      | some (n, r1) =>
        if ty = 0x3e9 ∨ ty = 0x3ea then
          if n ≤ sz ∧ n * 4 ≤ r1.length then
            match long (r1.drop (n * 4)) with
            | some (e, r2) =>
              if e = 0x3f2 then
                match hunks szs r2 with
                | some hs => some (r1.take (n * 4) :: hs)
                | none => none
              else none
            | none => none
          else none
        else if ty = 0x3eb then
          match long r1 with
          | some (e, r2) =>
            if e = 0x3f2 then
              match hunks szs r2 with
              | some hs => some ([] :: hs)
              | none => none
            else none
          | none => none
        else none

/-- the contents of the hunks of a load file -/
def decode (f : List Byte) : Option (List (List Byte)) :=
  match long f with
  | none => none
  | some (magic, r0) =>
    if magic ≠ 0x3f3 then none else
    match skipNames (f.length + 1) r0 with
    | none => none
    | some r1 =>
      match long r1 with
      | none => none
      | some (table, r2) =>
        match long r2 with
        | none => none
        | some (first, r3) =>
          match long r3 with
          | none => none
          | some (last, r4) =>
            if first ≤ last ∧ last - first + 1 ≤ table then
              match sizes (last - first + 1) r4 with
              | none => none
              | some (szs, r5) => hunks szs r5
            else none

end NakenVerif.FileIO.AmigaSpec
