import NakenVerif.FileIO.ProofsElfRead
/-
C03 / read_elf on the written file: what lies at the offsets the reader seeks to.
-/
set_option linter.unusedSimpArgs false
namespace NakenVerif.FileIO.ElfReadProofs
open NakenVerif.FileIO ElfImpl ElfReadImpl ElfProofs

theorem flatMap_drop_const {α : Type} (f : α → List Byte) (c : Nat) :
    ∀ (l : List α) (n : Nat), (∀ x ∈ l, (f x).length = c) → (l.flatMap f).drop (n * c) = (l.drop n).flatMap f := by
  intro l
  induction l with
  | nil => intro n _; simp
  | cons x xs ih =>
    intro n h
    cases n with
    | zero => simp
    | succ n =>
      have hx : (f x).length = c := h x (by simp)
      have : (n + 1) * c = (f x).length + n * c := by rw [hx, Nat.add_mul]; omega
      rw [List.flatMap_cons, this, ← List.drop_drop, List.drop_left, List.drop_succ_cons]
      exact ih n (fun y hy => h y (by simp [hy]))

/-- `get_string_at_offset` inside a table that holds a NUL: the string up to it -/
theorem strLoop_prefix (l t : List Byte) (cap : Nat) (h0 : (0 : Byte) ∈ l) (hl : (l.takeWhile (· ≠ 0)).length < cap) :
    strLoop cap (l ++ t) = l.takeWhile (· ≠ 0) := by
  induction l generalizing cap with
  | nil => simp at h0
  | cons b l ih =>
    cases cap with
    | zero => omega
    | succ c =>
      by_cases hb : b = 0
      · subst hb; simp [strLoop]
      · have h0' : (0 : Byte) ∈ l := by
          rcases List.mem_cons.1 h0 with e | e
          · exact absurd e.symm hb
          · exact e
        have htw : (b :: l).takeWhile (· ≠ 0) = b :: l.takeWhile (· ≠ 0) := by
          simp [List.takeWhile_cons, hb]
        rw [htw] at hl ⊢
        have hl' : (l.takeWhile (· ≠ 0)).length < c := by
          simp only [List.length_cons] at hl; omega
        simp only [List.cons_append, strLoop, hb, if_false]
        rw [ih c h0' hl']

section
variable (img : Image) (syms : List ElfImpl.Sym) (cfg : Config)

/-- the bytes written right after stage `a` start at offset `a.length` of the file -/
theorem drop_sect (a p : List Byte) (hp : (a ++ p) <+: body img syms cfg) (ha : (f0 img cfg).length ≤ a.length) :
    ∃ t, (ElfImpl.write img syms cfg).drop a.length = p ++ t := by
  obtain ⟨t, ht⟩ := hp
  refine ⟨t, ?_⟩
  rw [drop_write img syms cfg _ ha, ← ht, List.append_assoc, List.drop_left]

theorem le_f4 : (f0 img cfg).length ≤ (f4 img cfg).length := by
  have := f0_le_f1 img cfg; have := f1_le_f2 img cfg; have := f2_le_f3 img cfg; have := f3_le_f4 img cfg; omega
theorem le_f6 : (f0 img cfg).length ≤ (f6 img cfg).length := by
  have := le_f4 img cfg; have := f4_le_f5 img cfg; have := f5_le_f6 img cfg; omega
theorem le_f8 : (f0 img cfg).length ≤ (f8 img syms cfg).length := by
  have := le_f6 img cfg; have := f6_le_f7 img syms cfg; have := f7_le_f8 img syms cfg; omega

theorem text_drop : ∃ t, (ElfImpl.write img syms cfg).drop (textOff img cfg) = textBytes img ++ t :=
  drop_sect img syms cfg (f1 img cfg) (textBytes img) (f2_prefix_body img syms cfg) (f0_le_f1 img cfg)
theorem shstr_drop : ∃ t, (ElfImpl.write img syms cfg).drop (shstrOff img cfg) = shstrBytes cfg ++ t :=
  drop_sect img syms cfg (f4 img cfg) (shstrBytes cfg) (f5_prefix_body img syms cfg) (le_f4 img cfg)
theorem strtab_drop : ∃ t, (ElfImpl.write img syms cfg).drop (strtabOff img cfg) = strtabBytes syms cfg ++ t :=
  drop_sect img syms cfg (f6 img cfg) (strtabBytes syms cfg) (f7_prefix_body img syms cfg) (le_f6 img cfg)
theorem symtab_drop : ∃ t, (ElfImpl.write img syms cfg).drop (symtabOff img syms cfg) = symtabBytes img syms cfg ++ t :=
  drop_sect img syms cfg (f8 img syms cfg) (symtabBytes img syms cfg) (f9_prefix_body img syms cfg) (le_f8 img syms cfg)

/-- section header `n` of the table, as the reader finds it after `file.set(e_shoff + n * e_shentsize)` -/
theorem shdr_drop (n : Nat) (s : ElfImpl.Shdr) (hs : (shdrs img syms cfg)[n]? = some s) :
    ∃ t, (ElfImpl.write img syms cfg).drop (shoff img syms cfg + n * (if is32 cfg then 40 else 64)) =
      renderShdr img.bigEndian (is32 cfg) s ++ t := by
  have h1 := (shoff_facts img syms cfg).1
  rw [← List.drop_drop, h1]
  unfold shtab
  rw [flatMap_drop_const _ _ _ n (fun x _ => renderShdr_length _ _ x)]
  have : (shdrs img syms cfg).drop n = s :: (shdrs img syms cfg).drop (n + 1) := by
    rw [List.drop_eq_getElem?_toList_append, hs]; rfl
  rw [this, List.flatMap_cons]
  exact ⟨_, rfl⟩

end

end NakenVerif.FileIO.ElfReadProofs
