import NakenVerif.FileIO.SrecImpl
import NakenVerif.FileIO.SrecSpec
import NakenVerif.FileIO.ProofsCommon
import NakenVerif.FileIO.ProofsChunk
namespace NakenVerif.FileIO
open SpecText

namespace SrecImpl

theorem cksum_fin : ∀ x : Fin 256, (x.val + (x.val ^^^ 255)) % 256 = 255 ∧ (x.val ^^^ 255) < 256 := by
  decide +kernel

theorem cksum_eq (c : Nat) : cksum c = (c % 256) ^^^ 255 := by
  unfold cksum
  have := Nat.and_two_pow_sub_one_eq_mod c 8
  simp only [show (2:Nat) ^ 8 - 1 = 0xff from rfl, show (2:Nat)^8 = 256 from rfl] at this
  rw [this]

/-- ones' complement checksum: count + address + data + checksum ≡ 0xff (mod 256) -/
theorem cksum_sum (c : Nat) : (c + cksum c) % 256 = 255 := by
  have h := (cksum_fin ⟨c % 256, Nat.mod_lt _ (by decide)⟩).1
  rw [cksum_eq]
  simp only at h
  omega

theorem cksum_lt (c : Nat) : cksum c < 256 := by
  have h := (cksum_fin ⟨c % 256, Nat.mod_lt _ (by decide)⟩).2
  rw [cksum_eq]
  exact h

end SrecImpl

namespace SrecSpec
open SrecImpl

theorem digitVal_fin : ∀ t : Fin 10, digitVal (Char.ofNat (48 + t.val)) = some t.val := by decide
theorem digit_ne_nl_fin : ∀ t : Fin 10, Char.ofNat (48 + t.val) ≠ '\n' := by decide

/-- a record as the description gives it, with `ab` the address bytes; `hexb` prints the byte list -/
def recLine (hexb : List Nat → List Char) (t : Nat) (ab data : List Nat) : List Char :=
  'S' :: Char.ofNat (48 + t) ::
    hexb ((data.length + ab.length + 1) :: (ab ++ (data ++
      [cksum ((data.length + ab.length + 1) + ab.sum + data.sum)])))

/-- **per-record round trip** for every type, address and data (`hexb` = upper- or lower-case) -/
theorem parseRecord_recLine (hexb : List Nat → List Char)
    (hparse : ∀ bs, (∀ b ∈ bs, b < 256) → parseBytes (hexb bs) = some bs)
    (t alen : Nat) (ab data : List Nat) (ht : t ≤ 9) (hal : addrLen t = some alen) (hab : ab.length = alen)
    (habs : ∀ x ∈ ab, x < 256) (hlen : data.length + ab.length + 1 < 256) (hd : ∀ x ∈ data, x < 256) :
    parseRecord (recLine hexb t ab data) = some ⟨t, beVal ab, data⟩ := by
  have hck := cksum_lt ((data.length + ab.length + 1) + ab.sum + data.sum)
  have hsum := cksum_sum ((data.length + ab.length + 1) + ab.sum + data.sum)
  have hall : ∀ b ∈ (data.length + ab.length + 1) :: (ab ++ (data ++
      [cksum ((data.length + ab.length + 1) + ab.sum + data.sum)])), b < 256 := by
    intro b hb
    simp only [List.mem_cons, List.mem_append, List.mem_singleton, List.not_mem_nil, or_false] at hb
    rcases hb with h | h | h | h
    · omega
    · exact habs b h
    · exact hd b h
    · omega
  have hp := hparse _ hall
  unfold parseRecord recLine
  simp only [digitVal_fin ⟨t, by omega⟩, hp, hal]
  have hl : (ab ++ (data ++ [cksum ((data.length + ab.length + 1) + ab.sum + data.sum)])).length =
      data.length + ab.length + 1 := by
    simp only [List.length_append, List.length_singleton]; omega
  have hs : ((data.length + ab.length + 1) +
      (ab ++ (data ++ [cksum ((data.length + ab.length + 1) + ab.sum + data.sum)])).sum) % 256 = 255 := by
    rw [List.sum_append, List.sum_append]
    simp only [List.sum_cons, List.sum_nil, Nat.add_zero]
    omega
  have hle : alen + 1 ≤ data.length + ab.length + 1 := by omega
  simp only [hl, hs, hle, and_self, if_true, List.take_left' hab, List.drop_left' hab, List.dropLast_concat]

theorem nl_not_mem_recLine (hexb : List Nat → List Char) (hnl : ∀ bs, '\n' ∉ hexb bs)
    (t : Nat) (ht : t ≤ 9) (ab data : List Nat) : '\n' ∉ recLine hexb t ab data := by
  unfold recLine
  simp only [List.mem_cons, not_or]
  exact ⟨by decide, fun h => digit_ne_nl_fin ⟨t, by omega⟩ h.symm, hnl _⟩

theorem parseU (bs : List Nat) (h : ∀ b ∈ bs, b < 256) : parseBytes (hexBytesU bs) = some bs := by
  have := parseBytes_hexU bs h [] [] rfl
  simpa using this

theorem parseL (bs : List Nat) (h : ∀ b ∈ bs, b < 256) : parseBytes (hexBytesL bs) = some bs := by
  have := parseBytes_hexL bs h [] [] rfl
  simpa using this

end SrecSpec
end NakenVerif.FileIO

namespace NakenVerif.FileIO
open SpecText

namespace SrecImpl
open SrecSpec

theorem dataText_eq (d : List Byte) : dataText d = hexBytesU (d.map (·.toNat)) := by
  unfold dataText hexBytesU
  rw [List.flatMap_map]
  congr 1
  funext b
  exact fmtX_of_lt (by have := UInt8.toNat_lt b; omega)

theorem hexBytesU_cons (b : Nat) (bs : List Nat) : hexBytesU (b :: bs) = hexN hexDigitU 2 b ++ hexBytesU bs := by
  simp [hexBytesU]
theorem hexBytesU_append (xs ys : List Nat) : hexBytesU (xs ++ ys) = hexBytesU xs ++ hexBytesU ys := by
  simp [hexBytesU]
theorem hexBytesU_nil : hexBytesU [] = [] := rfl

/-- S0 / S1 form (16-bit address) -/
theorem writeLine_16 (ty : Option Nat) (t a : Nat) (d : List Byte) (ht : lineType ty a = t) (ht1 : t ≤ 1)
    (hl : d.length + 3 < 256) :
    writeLine ty a d = recLine hexBytesU t [a % 65536 / 256, a % 65536 % 256] (d.map (·.toNat)) ++ ['\n'] := by
  have hck := cksum_lt ((d.length + 3) + a % 65536 / 256 + a % 65536 % 256 + sumBytes d)
  unfold writeLine
  simp only [ht, ht1, if_true]
  rw [fmtX_of_lt (show d.length + 3 < 16 ^ 2 by omega), fmtX_of_lt (show a % 65536 < 16 ^ 4 by omega),
    fmtX_of_lt (show cksum ((d.length + 3) + a % 65536 / 256 + a % 65536 % 256 + sumBytes d) < 16 ^ 2 by omega),
    dataText_eq, hexN4]
  unfold recLine
  simp only [hexBytesU_cons, hexBytesU_append, hexBytesU_nil, List.length_map, List.length_cons, List.length_nil,
    hexN2_mod, sumBytes, List.sum_cons, List.sum_nil, List.cons_append, List.nil_append, List.append_assoc,
    List.append_nil, Nat.add_zero]
  have e : d.length + (0 + 1 + 1) + 1 = d.length + 3 := by omega
  have e2 : d.length + (0 + 1 + 1) + 1 + (a % 65536 / 256 + a % 65536 % 256) =
      d.length + 3 + a % 65536 / 256 + a % 65536 % 256 := by omega
  rw [e, e2]

/-- S2 form (24-bit address) -/
theorem writeLine_24 (ty : Option Nat) (a : Nat) (d : List Byte) (ht : lineType ty a = 2)
    (hl : d.length + 4 < 256) :
    writeLine ty a d = recLine hexBytesU 2
      [a % 16777216 / 65536, a % 16777216 / 256 % 256, a % 16777216 % 256] (d.map (·.toNat)) ++ ['\n'] := by
  have hck := cksum_lt ((d.length + 4) + a % 16777216 / 65536 + a % 16777216 / 256 % 256 + a % 16777216 % 256 + sumBytes d)
  unfold writeLine
  simp only [ht, show ¬ ((2 : Nat) ≤ 1) by decide, if_false, if_true]
  rw [fmtX_of_lt (show d.length + 4 < 16 ^ 2 by omega), fmtX_of_lt (show a % 16777216 < 16 ^ 6 by omega),
    fmtX_of_lt (show cksum ((d.length + 4) + a % 16777216 / 65536 + a % 16777216 / 256 % 256 + a % 16777216 % 256 + sumBytes d) < 16 ^ 2 by omega),
    dataText_eq, hexN6]
  unfold recLine
  simp only [hexBytesU_cons, hexBytesU_append, hexBytesU_nil, List.length_map, List.length_cons, List.length_nil,
    hexN2_mod, sumBytes, List.sum_cons, List.sum_nil, List.cons_append, List.nil_append, List.append_assoc,
    List.append_nil, Nat.add_zero]
  have e : d.length + (0 + 1 + 1 + 1) + 1 = d.length + 4 := by omega
  have e2 : d.length + (0 + 1 + 1 + 1) + 1 + (a % 16777216 / 65536 + (a % 16777216 / 256 % 256 + a % 16777216 % 256)) =
      d.length + 4 + a % 16777216 / 65536 + a % 16777216 / 256 % 256 + a % 16777216 % 256 := by omega
  have e3 : hexN hexDigitU 2 (a % 16777216 / 256) = hexN hexDigitU 2 (a % 16777216 / 256 % 256) := by
    rw [hexN2_mod]
  rw [e, e2, e3]

/-- S3 form (32-bit address) -/
theorem writeLine_32 (ty : Option Nat) (a : Nat) (d : List Byte) (ht : lineType ty a = 3) (ha : a < 2 ^ 32)
    (hl : d.length + 5 < 256) :
    writeLine ty a d = recLine hexBytesU 3
      [a / 16777216, a / 65536 % 256, a / 256 % 256, a % 256] (d.map (·.toNat)) ++ ['\n'] := by
  have hck := cksum_lt ((d.length + 5) + a / 16777216 + a / 65536 % 256 + a / 256 % 256 + a % 256 + sumBytes d)
  unfold writeLine
  simp only [ht, show ¬ ((3 : Nat) ≤ 1) by decide, show ¬ ((3 : Nat) = 2) by decide, if_false, if_true]
  rw [fmtX_of_lt (show d.length + 5 < 16 ^ 2 by omega), fmtX_of_lt (show a < 16 ^ 8 by omega),
    fmtX_of_lt (show cksum ((d.length + 5) + a / 16777216 + a / 65536 % 256 + a / 256 % 256 + a % 256 + sumBytes d) < 16 ^ 2 by omega),
    dataText_eq, hexN8]
  unfold recLine
  simp only [hexBytesU_cons, hexBytesU_append, hexBytesU_nil, List.length_map, List.length_cons, List.length_nil,
    hexN2_mod, sumBytes, List.sum_cons, List.sum_nil, List.cons_append, List.nil_append, List.append_assoc,
    List.append_nil, Nat.add_zero]
  have e : d.length + (0 + 1 + 1 + 1 + 1) + 1 = d.length + 5 := by omega
  have e2 : d.length + (0 + 1 + 1 + 1 + 1) + 1 + (a / 16777216 + (a / 65536 % 256 + (a / 256 % 256 + a % 256))) =
      d.length + 5 + a / 16777216 + a / 65536 % 256 + a / 256 % 256 + a % 256 := by omega
  have e3 : hexN hexDigitU 2 (a / 65536) = hexN hexDigitU 2 (a / 65536 % 256) := by rw [hexN2_mod]
  have e4 : hexN hexDigitU 2 (a / 256) = hexN hexDigitU 2 (a / 256 % 256) := by rw [hexN2_mod]
  rw [e, e2, e3, e4]

end SrecImpl
end NakenVerif.FileIO

namespace NakenVerif.FileIO
open SpecText

namespace SrecSpec
open SrecImpl

theorem dataCells_eq (a : Nat) (d : List Byte) (i : Nat) (h : a + i + d.length ≤ 2 ^ 32) :
    dataCells a i (d.map (·.toNat)) = cellsAt (a + i) d := by
  induction d generalizing i with
  | nil => simp [dataCells]
  | cons b bs ih =>
    simp only [List.length_cons] at h
    simp only [List.map_cons, dataCells, cellsAt, UInt8.ofNat_toNat]
    rw [Nat.mod_eq_of_lt (by omega), ih (i + 1) (by omega), show a + (i + 1) = a + i + 1 by omega]

theorem bytes_lt (d : List Byte) : ∀ x ∈ d.map (·.toNat), x < 256 := by
  intro x hx
  simp only [List.mem_map] at hx
  obtain ⟨b, _, rfl⟩ := hx
  have := UInt8.toNat_lt b; omega

/-- what one data record contributes, in front of the rest of the file, for each of the three
`type` settings `write_srec` can have (-1 = by address, 2, 3) -/
theorem decode_data_step (ty : Option Nat) (a : Nat) (d : List Byte) (X : List Char) (n : Nat)
    (hg : Good (2 ^ 32) (a, d))
    (hty : ty = none ∨ ty = some 2 ∨ ty = some 3) :
    decodeLines (lines (writeLine ty a d ++ X)) n =
      match decodeLines (lines X) (n + 1) with
      | some (cs, e) => some (cellsAt a d ++ cs, e)
      | none => none := by
  obtain ⟨h0, h16, hpage, hbound⟩ := hg
  simp only at h0 h16 hpage hbound
  have hbl := bytes_lt d
  have hcells := dataCells_eq a d 0 (by omega)
  simp only [Nat.add_zero] at hcells
  -- which record type is written
  have hcase : (lineType ty a = 1 ∧ a < 65536) ∨ (lineType ty a = 2 ∧ a < 2 ^ 24) ∨ lineType ty a = 3 := by
    unfold lineType
    rcases hty with h | h | h <;> subst h
    · by_cases h1 : a ≤ 0xffff
      · left; simp [h1]; omega
      · by_cases h2 : a ≤ 0xffffff
        · right; left; simp [h1, h2]; omega
        · right; right; simp [h1, h2]
    · by_cases h2 : a > 0xffffff
      · right; right; simp [h2]
      · right; left; simp [h2]; omega
    · right; right; simp
  rcases hcase with ⟨ht, ha⟩ | ⟨ht, ha⟩ | ht
  · rw [writeLine_16 ty 1 a d ht (by omega) (by omega)]
    simp only [List.append_assoc, List.singleton_append]
    rw [lines_append_line _ _ (nl_not_mem_recLine _ nl_not_mem_hexBytesU 1 (by omega) _ _)]
    have hp := parseRecord_recLine hexBytesU parseU 1 2 [a % 65536 / 256, a % 65536 % 256] (d.map (·.toNat))
      (by omega) rfl rfl (by intro x hx; simp only [List.mem_cons, List.not_mem_nil, or_false] at hx; rcases hx with h | h <;> omega)
      (by simp; omega) hbl
    rw [decodeLines, hp]
    have hv : beVal [a % 65536 / 256, a % 65536 % 256] = a := by simp [beVal]; omega
    simp only [hv, hcells, show ¬ ((1 : Nat) = 0) by decide, if_false, true_or, if_true]
    rfl
  · rw [writeLine_24 ty a d ht (by omega)]
    simp only [List.append_assoc, List.singleton_append]
    rw [lines_append_line _ _ (nl_not_mem_recLine _ nl_not_mem_hexBytesU 2 (by omega) _ _)]
    have hp := parseRecord_recLine hexBytesU parseU 2 3
      [a % 16777216 / 65536, a % 16777216 / 256 % 256, a % 16777216 % 256] (d.map (·.toNat))
      (by omega) rfl rfl (by intro x hx; simp only [List.mem_cons, List.not_mem_nil, or_false] at hx; rcases hx with h | h | h <;> omega)
      (by simp; omega) hbl
    rw [decodeLines, hp]
    have hv : beVal [a % 16777216 / 65536, a % 16777216 / 256 % 256, a % 16777216 % 256] = a := by
      simp [beVal]; omega
    simp only [hv, hcells, show ¬ ((2 : Nat) = 0) by decide, show ¬ ((2 : Nat) = 1) by decide, if_false,
      true_or, or_true, if_true]
    rfl
  · rw [writeLine_32 ty a d ht (by omega) (by omega)]
    simp only [List.append_assoc, List.singleton_append]
    rw [lines_append_line _ _ (nl_not_mem_recLine _ nl_not_mem_hexBytesU 3 (by omega) _ _)]
    have hp := parseRecord_recLine hexBytesU parseU 3 4
      [a / 16777216, a / 65536 % 256, a / 256 % 256, a % 256] (d.map (·.toNat))
      (by omega) rfl rfl (by intro x hx; simp only [List.mem_cons, List.not_mem_nil, or_false] at hx; rcases hx with h | h | h | h <;> omega)
      (by simp; omega) hbl
    rw [decodeLines, hp]
    have hv : beVal [a / 16777216, a / 65536 % 256, a / 256 % 256, a % 256] = a := by
      simp [beVal]; omega
    simp only [hv, hcells, show ¬ ((3 : Nat) = 0) by decide, show ¬ ((3 : Nat) = 1) by decide,
      show ¬ ((3 : Nat) = 2) by decide, if_false, or_true, if_true]
    rfl

theorem decode_body (ty : Option Nat) : ∀ (recs : List (Nat × List Byte)),
    (∀ r ∈ recs, Good (2 ^ 32) r) →
    (ty = none ∨ ty = some 2 ∨ ty = some 3) →
    ∀ (X : List Char) (n : Nat),
    decodeLines (lines (body ty recs ++ X)) n =
      match decodeLines (lines X) (n + recs.length) with
      | some (cs, e) => some (flat recs ++ cs, e)
      | none => none := by
  intro recs
  induction recs with
  | nil =>
    intro _ _ X n
    simp only [body, List.nil_append, List.length_nil, Nat.add_zero, flat_nil]
    cases decodeLines (lines X) n with
    | none => rfl
    | some p => rfl
  | cons r rest ih =>
    intro hg hty X n
    obtain ⟨a, d⟩ := r
    have hgr : Good (2 ^ 32) (a, d) := hg (a, d) (by simp)
    have hgrest : ∀ r ∈ rest, Good (2 ^ 32) r := fun r hr => hg r (by simp [hr])
    simp only [body, List.append_assoc, flat_cons, List.length_cons]
    rw [decode_data_step ty a d _ n hgr hty, ih hgrest hty X (n + 1),
      show n + 1 + rest.length = n + (rest.length + 1) by omega]
    cases decodeLines (lines X) (n + (rest.length + 1)) with
    | none => rfl
    | some p => simp

end SrecSpec
end NakenVerif.FileIO

namespace NakenVerif.FileIO
open SpecText

namespace SrecSpec
open SrecImpl

/-- the S0 header record in front of the rest of the file is skipped (after its count and checksum
were checked) -/
theorem decode_header (stamp : List Byte) (hst : stamp.length ≤ 250) (X : List Char) (n : Nat) :
    decodeLines (lines (header stamp ++ X)) n = decodeLines (lines X) n := by
  unfold header
  rw [writeLine_16 (some 0) 0 0 stamp rfl (by omega) (by omega)]
  simp only [List.append_assoc, List.singleton_append]
  rw [lines_append_line _ _ (nl_not_mem_recLine _ nl_not_mem_hexBytesU 0 (by omega) _ _)]
  have hp := parseRecord_recLine hexBytesU parseU 0 2 [0 % 65536 / 256, 0 % 65536 % 256] (stamp.map (·.toNat))
    (by omega) rfl rfl (by intro x hx; simp only [List.mem_cons, List.not_mem_nil, or_false] at hx; rcases hx with h | h <;> omega)
    (by simp; omega) (bytes_lt stamp)
  rw [decodeLines, hp]
  simp only [if_true]

theorem entryRecord_eq (e : Nat) (he : e < 2 ^ 32) (hne : e ≠ 0xffffffff) :
    entryRecord e =
      (if e ≤ 0xffff then recLine hexBytesL 9 [e / 256 % 256, e % 256] []
       else if e ≤ 0xffffff then recLine hexBytesL 8 [e / 65536 % 256, e / 256 % 256, e % 256] []
       else recLine hexBytesL 7 [e / 16777216 % 256, e / 65536 % 256, e / 256 % 256, e % 256] []) ++ ['\n'] := by
  unfold entryRecord
  simp only [hne, ne_eq, not_false_eq_true, if_true]
  have hcdef : ∀ c, (c &&& 0xff) ^^^ 0xff = cksum c := fun _ => rfl
  simp only [hcdef]
  have h9 : "S903".toList = 'S' :: Char.ofNat (48 + 9) :: hexN hexDigitL 2 3 := by decide
  have h8 : "S804".toList = 'S' :: Char.ofNat (48 + 8) :: hexN hexDigitL 2 4 := by decide
  have h7 : "S705".toList = 'S' :: Char.ofNat (48 + 7) :: hexN hexDigitL 2 5 := by decide
  by_cases h1 : e ≤ 0xffff
  · have hck := cksum_lt (e / 16777216 % 256 + e / 65536 % 256 + e / 256 % 256 + e % 256 + 3)
    simp only [h1, if_true]
    rw [fmtx_of_lt (show e < 16 ^ 4 by omega), fmtx_of_lt (show cksum _ < 16 ^ 2 by omega), hexN4, h9]
    unfold recLine hexBytesL
    have z1 : e / 16777216 % 256 = 0 := by omega
    have z2 : e / 65536 % 256 = 0 := by omega
    have e1 : hexN hexDigitL 2 (e / 256) = hexN hexDigitL 2 (e / 256 % 256) := by rw [hexN2_mod]
    have e2 : hexN hexDigitL 2 e = hexN hexDigitL 2 (e % 256) := by rw [hexN2_mod]
    rw [e1, e2]
    simp only [List.flatMap_cons, List.flatMap_nil, List.length_nil, List.length_cons, List.sum_cons, List.sum_nil,
      List.nil_append, List.cons_append, List.append_assoc, List.append_nil, z1, z2, Nat.add_zero, Nat.zero_add]
    have e3 : e / 256 % 256 + e % 256 + 3 = 1 + 1 + 1 + (e / 256 % 256 + e % 256) := by omega
    rw [e3]
  · simp only [h1, if_false]
    by_cases h2 : e ≤ 0xffffff
    · have hck := cksum_lt (e / 16777216 % 256 + e / 65536 % 256 + e / 256 % 256 + e % 256 + 4)
      simp only [h2, if_true]
      rw [fmtx_of_lt (show e < 16 ^ 6 by omega), fmtx_of_lt (show cksum _ < 16 ^ 2 by omega), hexN6, h8]
      unfold recLine hexBytesL
      have z1 : e / 16777216 % 256 = 0 := by omega
      have e0 : hexN hexDigitL 2 (e / 65536) = hexN hexDigitL 2 (e / 65536 % 256) := by rw [hexN2_mod]
      have e1 : hexN hexDigitL 2 (e / 256) = hexN hexDigitL 2 (e / 256 % 256) := by rw [hexN2_mod]
      have e2 : hexN hexDigitL 2 e = hexN hexDigitL 2 (e % 256) := by rw [hexN2_mod]
      rw [e0, e1, e2]
      simp only [List.flatMap_cons, List.flatMap_nil, List.length_nil, List.length_cons, List.sum_cons, List.sum_nil,
        List.nil_append, List.cons_append, List.append_assoc, List.append_nil, z1, Nat.add_zero, Nat.zero_add]
      have e3 : e / 65536 % 256 + e / 256 % 256 + e % 256 + 4 =
          1 + 1 + 1 + 1 + (e / 65536 % 256 + (e / 256 % 256 + e % 256)) := by omega
      simp only [e3]
    · have hck := cksum_lt (e / 16777216 % 256 + e / 65536 % 256 + e / 256 % 256 + e % 256 + 5)
      simp only [h2, if_false]
      rw [fmtx_of_lt (show e < 16 ^ 8 by omega), fmtx_of_lt (show cksum _ < 16 ^ 2 by omega), hexN8, h7]
      unfold recLine hexBytesL
      have e00 : hexN hexDigitL 2 (e / 16777216) = hexN hexDigitL 2 (e / 16777216 % 256) := by rw [hexN2_mod]
      have e0 : hexN hexDigitL 2 (e / 65536) = hexN hexDigitL 2 (e / 65536 % 256) := by rw [hexN2_mod]
      have e1 : hexN hexDigitL 2 (e / 256) = hexN hexDigitL 2 (e / 256 % 256) := by rw [hexN2_mod]
      have e2 : hexN hexDigitL 2 e = hexN hexDigitL 2 (e % 256) := by rw [hexN2_mod]
      rw [e00, e0, e1, e2]
      simp only [List.flatMap_cons, List.flatMap_nil, List.length_nil, List.length_cons, List.sum_cons, List.sum_nil,
        List.nil_append, List.cons_append, List.append_assoc, List.append_nil, Nat.add_zero, Nat.zero_add]
      have e3 : e / 16777216 % 256 + e / 65536 % 256 + e / 256 % 256 + e % 256 + 5 =
          1 + 1 + 1 + 1 + 1 + (e / 16777216 % 256 + (e / 65536 % 256 + (e / 256 % 256 + e % 256))) := by omega
      simp only [e3]

/-- any entry point round-trips through the S9 / S8 / S7 termination record -/
theorem decode_entry (e : Nat) (he : e < 2 ^ 32) (n : Nat) :
    decodeLines (lines (entryRecord e)) n = some ([], if e = 0xffffffff then none else some e) := by
  by_cases hne : e = 0xffffffff
  · subst hne
    simp [entryRecord, lines, decodeLines]
  · rw [entryRecord_eq e he hne]
    have hb : ∀ x, x % 256 < 256 := fun x => Nat.mod_lt _ (by decide)
    by_cases h1 : e ≤ 0xffff
    · simp only [h1, if_true]
      rw [lines_append_line _ _ (nl_not_mem_recLine _ nl_not_mem_hexBytesL 9 (by omega) _ _)]
      have hp := parseRecord_recLine hexBytesL parseL 9 2 [e / 256 % 256, e % 256] []
        (by omega) rfl rfl (by intro x hx; simp only [List.mem_cons, List.not_mem_nil, or_false] at hx; rcases hx with h | h <;> omega)
        (by simp) (by simp)
      have hv : beVal [e / 256 % 256, e % 256] = e := by simp [beVal]; omega
      simp [decodeLines, hp, lines, hv, hne]
    · simp only [h1, if_false]
      by_cases h2 : e ≤ 0xffffff
      · simp only [h2, if_true]
        rw [lines_append_line _ _ (nl_not_mem_recLine _ nl_not_mem_hexBytesL 8 (by omega) _ _)]
        have hp := parseRecord_recLine hexBytesL parseL 8 3 [e / 65536 % 256, e / 256 % 256, e % 256] []
          (by omega) rfl rfl (by intro x hx; simp only [List.mem_cons, List.not_mem_nil, or_false] at hx; rcases hx with h | h | h <;> omega)
          (by simp) (by simp)
        have hv : beVal [e / 65536 % 256, e / 256 % 256, e % 256] = e := by simp [beVal]; omega
        simp [decodeLines, hp, lines, hv, hne]
      · simp only [h2, if_false]
        rw [lines_append_line _ _ (nl_not_mem_recLine _ nl_not_mem_hexBytesL 7 (by omega) _ _)]
        have hp := parseRecord_recLine hexBytesL parseL 7 4 [e / 16777216 % 256, e / 65536 % 256, e / 256 % 256, e % 256] []
          (by omega) rfl rfl (by intro x hx; simp only [List.mem_cons, List.not_mem_nil, or_false] at hx; rcases hx with h | h | h | h <;> omega)
          (by simp) (by simp)
        have hv : beVal [e / 16777216 % 256, e / 65536 % 256, e / 256 % 256, e % 256] = e := by simp [beVal]; omega
        simp [decodeLines, hp, lines, hv, hne]

theorem chunks_below (img : Image) (bound : Nat) (h : img.low + img.cells.length ≤ bound) :
    ∀ r ∈ img.chunks, r.1 < bound := by
  intro r hr
  have hg := chunkLoop_good bound img.cells img.low 0 [] h (Or.inl rfl) r hr
  obtain ⟨h0, _, _, hb⟩ := hg
  omega

theorem decode_write (img : Image) (h : img.WF) (srecSize : Nat) (stamp : List Byte) (hst : stamp.length ≤ 250) :
    decode (SrecImpl.write img srecSize stamp) =
      some (img.writtenCells, if img.entry = 0xffffffff then none else some img.entry) := by
  unfold decode SrecImpl.write
  rw [List.append_assoc, decode_header stamp hst]
  have hty : typeOfSrecSize srecSize = none ∨ typeOfSrecSize srecSize = some 2 ∨ typeOfSrecSize srecSize = some 3 := by
    unfold typeOfSrecSize
    by_cases h1 : srecSize = 1
    · right; left; simp [h1]
    · by_cases h2 : srecSize = 2
      · right; right; simp [h2]
      · left; simp [h1, h2]
  rw [decode_body _ img.chunks (chunks_good img h) hty, decode_entry img.entry h.2, chunks_flat]
  simp

end SrecSpec
end NakenVerif.FileIO
