import NakenVerif.FileIO.ProofsElfReadTop
/-
C03 / read_elf: `read (write img syms cfg)`.
-/
set_option linter.unusedSimpArgs false
namespace NakenVerif.FileIO.ElfReadProofs
open NakenVerif.FileIO ElfImpl ElfReadImpl ElfProofs

section
variable (img : Image) (syms : List ElfImpl.Sym) (cfg : Config)

/-- the header fields after `e_ident` -/
def hdrRest : List Byte :=
  let big := img.bigEndian
  let h := hdrOf cfg
  wInt big 2 h.etype ++ wInt big 2 h.machine ++ wInt big 4 1 ++ wAddr big (h.cls == 1) (eEntry img) ++
    wAddr big (h.cls == 1) (phoff img cfg) ++ wAddr big (h.cls == 1) (shoff img syms cfg) ++ ehdrMid big h (phentsize img cfg) (phnum img) ++
    wInt big 2 (shnum cfg) ++ wInt big 2 2

theorem ehdrFinal_split : ehdrFinal img syms cfg = ident img.bigEndian (hdrOf cfg) ++ hdrRest img syms cfg := by
  simp only [ehdrFinal, ehdr, ehdrPre, hdrRest, List.append_assoc]

/-- `sh_offset` of section header `e_shstrndx` = 2, read at `e_shoff + 2 * e_shentsize + 16` (ELF32) / `+ 24` (ELF64) -/
theorem stroffset_drop (h : Ok img syms cfg) :
    ∃ t, (ElfImpl.write img syms cfg).drop (shoff img syms cfg + 2 * (if is32 cfg then 40 else 64) + (if is32 cfg then 16 else 24)) =
      wAddr img.bigEndian (is32 cfg) (shstrOff img cfg) ++ t := by
  have hs : (shdrs img syms cfg)[2]? = some (shShstr img cfg) := by unfold shdrs; simp
  obtain ⟨t, ht⟩ := shdr_drop img syms cfg 2 _ hs
  obtain ⟨_, s2, _⟩ := shstr_facts img syms cfg
  have hu : u32 (shstrOff img cfg) = shstrOff img cfg := u32_of_le _ _ h.small (by omega)
  rw [← List.drop_drop, ht]
  cases h32 : is32 cfg <;> simp only [h32, if_true, if_false, Bool.false_eq_true, renderShdr, wAddr, List.append_assoc, shShstr, hu]
  · rw [← List.append_assoc, ← List.append_assoc, ← List.append_assoc, List.drop_left' (by simp [wInt_length])]
    exact ⟨_, rfl⟩
  · rw [← List.append_assoc, ← List.append_assoc, ← List.append_assoc, List.drop_left' (by simp [wInt_length])]
    exact ⟨_, rfl⟩

end

end NakenVerif.FileIO.ElfReadProofs
