import NakenVerif.FileIO.ProofsElfReadTop
/-
C03 / read_elf: `read (write img syms cfg)`.
-/
set_option linter.unusedSimpArgs false
namespace NakenVerif.FileIO.ElfReadProofs
open NakenVerif.FileIO ElfImpl ElfReadImpl ElfProofs

section
variable (img : Image) (syms : List ElfImpl.Sym) (cfg : Config)

/-- the header fields after `e_ident` -/
def hdrRest : List Byte :=
  let big := img.bigEndian
  let h := hdrOf cfg
  wInt big 2 h.etype ++ wInt big 2 h.machine ++ wInt big 4 1 ++ wAddr big (h.cls == 1) (eEntry img) ++
    wAddr big (h.cls == 1) (phoff img cfg) ++ wAddr big (h.cls == 1) (shoff img syms cfg) ++ ehdrMid big h (phentsize img cfg) (phnum img) ++
    wInt big 2 (shnum cfg) ++ wInt big 2 2

theorem ehdrFinal_split : ehdrFinal img syms cfg = ident img.bigEndian (hdrOf cfg) ++ hdrRest img syms cfg := by
  simp only [ehdrFinal, ehdr, ehdrPre, hdrRest, List.append_assoc]

/-- `sh_offset` of section header `e_shstrndx` = 2, read at `e_shoff + 2 * e_shentsize + 16` (ELF32) / `+ 24` (ELF64) -/
theorem stroffset_drop (h : Ok img syms cfg) :
    ∃ t, (ElfImpl.write img syms cfg).drop (shoff img syms cfg + 2 * (if is32 cfg then 40 else 64) + (if is32 cfg then 16 else 24)) =
      wAddr img.bigEndian (is32 cfg) (shstrOff img cfg) ++ t := by
  have hs : (shdrs img syms cfg)[2]? = some (shShstr img cfg) := by unfold shdrs; simp
  obtain ⟨t, ht⟩ := shdr_drop img syms cfg 2 _ hs
  obtain ⟨_, s2, _⟩ := shstr_facts img syms cfg
  have hu : u32 (shstrOff img cfg) = shstrOff img cfg := u32_of_le _ _ h.small (by omega)
  rw [← List.drop_drop, ht]
  cases h32 : is32 cfg <;> simp only [h32, if_true, if_false, Bool.false_eq_true, renderShdr, wAddr, List.append_assoc, shShstr, hu]
  · rw [← List.append_assoc, ← List.append_assoc, ← List.append_assoc, List.drop_left' (by simp [wInt_length])]
    exact ⟨_, rfl⟩
  · rw [← List.append_assoc, ← List.append_assoc, ← List.append_assoc, List.drop_left' (by simp [wInt_length])]
    exact ⟨_, rfl⟩

theorem toInt32_small (v : Nat) (h : v < 2147483648) : toInt32 v = (v : Int) := by
  unfold toInt32
  have : v % 4294967296 = v := Nat.mod_eq_of_lt (by omega)
  rw [this, if_pos h]

/-- the header the reader keeps -/
def hdrR (tail : List Byte) : HdrR :=
  { is32 := is32 cfg, big := img.bigEndian, cpu := (machineCpu ((hdrOf cfg).machine % 65536)).getD 0,
    shoff := shoff img syms cfg, shentsize := ((if is32 cfg then 40 else 64 : Nat) : Int), shnum := ((shnum cfg : Nat) : Int),
    shstrndx := 2, rest := tail }

theorem readHeader_write (h : Ok img syms cfg) :
    ∃ tail, readHeader (ElfImpl.write img syms cfg) = .ok (hdrR img syms cfg tail) := by
  obtain ⟨tail, _, hw⟩ := write_split img syms cfg
  refine ⟨tail, ?_⟩
  have hW : ElfImpl.write img syms cfg = ident img.bigEndian (hdrOf cfg) ++ (hdrRest img syms cfg ++ tail) := by
    rw [hw, ehdrFinal_split, List.append_assoc]
  have hil : (ident img.bigEndian (hdrOf cfg)).length = 16 := by simp [ident]
  have htake : (ElfImpl.write img syms cfg).take 16 = ident img.bigEndian (hdrOf cfg) := by
    rw [hW]; exact List.take_left' hil
  have hdrop : (ElfImpl.write img syms cfg).drop 16 = hdrRest img syms cfg ++ tail := by
    rw [hW]; exact List.drop_left' hil
  have hso := shoff_lt img syms cfg h
  have he : eEntry img < 4294967296 := by unfold eEntry; have := h.wf.2; split <;> omega
  have hp : phoff img cfg < 4294967296 := by unfold phoff; split <;> (try split) <;> omega
  have hsn := shnum_eq cfg
  have hsn' : shnum cfg % 65536 = shnum cfg := by rw [hsn]; split <;> rfl
  have hsn2 : shnum cfg < 2147483648 := by rw [hsn]; split <;> omega
  unfold readHeader
  rw [htake, hdrop, hil]
  rcases hdrOf_cls cfg with hc | hc <;> cases hbig : img.bigEndian <;>
    simp [ident, hdrRest, ehdrMid, wAddr, hc, hbig, List.append_assoc, getInt16_wInt, getInt32_wInt,
      getInt64_wInt _ _ he, getInt64_wInt _ _ hp, getInt64_wInt _ _ hso, hdrR, is32, hsn', toInt32_small _ hsn2,
      toInt32_small 40 (by omega), toInt32_small 64 (by omega), toInt32_small 2 (by omega)] <;>
    first | exact hso | exact Nat.mod_eq_of_lt hso

theorem readBody_write (h : Ok img syms cfg) (hn : NamesFit syms) (tail : List Byte) :
    readBody (ElfImpl.write img syms cfg) (hdrR img syms cfg tail) =
      { ret := 0, writes := writesAt img.low 0 (textBytes img), low := img.low, high := stopOf img, big := img.bigEndian,
        cpuType := (machineCpu ((hdrOf cfg).machine % 65536)).getD 0, syms := syms } := by
  have tok := tableOk_write img syms cfg h
  have hlen : (secsOf img syms cfg).length = shnum cfg := by rw [secsOf_length, shnum_eq]
  have hfs := findStrtab_eq _ _ _ _ _ _ _ tok (secsOf img syms cfg) 0 rfl
  have hsl := sectionLoop_eq _ _ _ _ _ _ (strtabOff img cfg) _ tok (secsOf img syms cfg) 0 rfl
  rw [hlen] at hfs hsl
  obtain ⟨ts, hts⟩ := stroffset_drop img syms cfg h
  obtain ⟨_, s2, _⟩ := shstr_facts img syms cfg
  have hsmall := h.small
  have hso := shoff_lt img syms cfg h
  have hsz : (if is32 cfg then 40 else 64) ≤ 64 := by split <;> omega
  have hsz2 : (if is32 cfg then 16 else 24) ≤ 24 := by split <;> omega
  have e2 : toU64 ((2 : Int) * (((if is32 cfg then 40 else 64 : Nat)) : Int)) = 2 * (if is32 cfg then 40 else 64) := by
    have := toU64_mul 2 (if is32 cfg then 40 else 64) (by omega)
    simpa using this
  have hstr : (if is32 cfg then getInt32 img.bigEndian (wAddr img.bigEndian (is32 cfg) (shstrOff img cfg) ++ ts)
      else getInt64 img.bigEndian (wAddr img.bigEndian (is32 cfg) (shstrOff img cfg) ++ ts)) = (shstrOff img cfg, ts) := by
    have hlt : shstrOff img cfg < 4294967296 := by omega
    cases h32 : is32 cfg <;> simp [wAddr, getInt32_wInt, getInt64_wInt _ _ hlt, Nat.mod_eq_of_lt hlt]
  unfold readBody hdrR
  simp only [e2, Int.toNat_natCast]
  rw [seek_ok _ _ _ (by omega), hts, hstr]
  simp only
  have z : (0 : Int) = ((0 : Nat) : Int) := rfl
  rw [z, hfs, findStrtabL_write, hsl, sectionLoopL_write img syms cfg h hn]

/-- `read_elf` on the file `write_elf` wrote: return value 0, exactly the bytes of `[low, high]` written to their
addresses, low/high, the byte order, the CPU of e_machine, the exported symbols with their values -/
theorem read_write (h : Ok img syms cfg) (hn : NamesFit syms) :
    ElfReadImpl.read (ElfImpl.write img syms cfg) =
      { ret := 0, writes := writesAt img.low 0 (textBytes img), low := img.low, high := stopOf img, big := img.bigEndian,
        cpuType := (machineCpu ((hdrOf cfg).machine % 65536)).getD 0, syms := syms } := by
  obtain ⟨tail, ht⟩ := readHeader_write img syms cfg h
  unfold ElfReadImpl.read
  rw [ht]
  exact readBody_write img syms cfg h hn tail

end

end NakenVerif.FileIO.ElfReadProofs
