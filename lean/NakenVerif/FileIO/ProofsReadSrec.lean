import NakenVerif.FileIO.ReadImpl
import NakenVerif.FileIO.ProofsSrec
/-
The S-record loader of naken_util (`ReadImpl.readSrec`) applied to what `write_srec` prints
(`SrecImpl.write`) reproduces the image: the `write8` calls are exactly the written cells, in order,
`low_address` / `high_address` are those of the image and the return value is 0.
-/
namespace NakenVerif.FileIO
namespace ReadSrecProofs
open ReadImpl SrecImpl SrecSpec

/-! ### `get_hex` -/

theorem digit_hexDigitU_fin : ∀ d : Fin 16, digit? (hexDigitU d.val) = some ((d.val : Nat) : Int) := by decide
theorem digit_hexDigitU {d : Nat} (h : d < 16) : digit? (hexDigitU d) = some (d : Int) :=
  digit_hexDigitU_fin ⟨d, h⟩

theorem wrapS_small {x : Int} (h1 : -2147483648 ≤ x) (h2 : x < 2147483648) : wrapS x = x := by
  unfold wrapS; omega

theorem toU32_wrapS (x : Int) : toU32 (wrapS x) = toU32 x := by
  unfold toU32 wrapS; omega

theorem toU32_ofNat {A : Nat} (h : A < 4294967296) : toU32 (A : Int) = A := by
  unfold toU32; omega

/-- one printed byte read by two rounds of `get_hex` -/
theorem getHex_byte (k : Nat) (n : Int) (v : Nat) (rest : List Char) (hv : v < 256)
    (h0 : 0 ≤ n) (h1 : n < 16777216) :
    getHex (k + 2) n (hexN hexDigitU 2 v ++ rest) = getHex k (wrapS (n * 256 + v)) rest := by
  rw [hexN2]
  simp only [List.cons_append, List.nil_append, getHex, digit_hexDigitU (show v / 16 % 16 < 16 by omega),
    digit_hexDigitU (show v % 16 < 16 by omega)]
  rw [wrapS_small (x := n * 16 + ((v / 16 % 16 : Nat) : Int)) (by omega) (by omega)]
  congr 2
  omega

theorem getHex2 (v : Nat) (rest : List Char) (hv : v < 256) :
    getHex 2 0 (hexN hexDigitU 2 v ++ rest) = ((v : Int), rest) := by
  rw [getHex_byte 0 0 v rest hv (by omega) (by omega), wrapS_small (by omega) (by omega)]
  simp [getHex]

theorem getHex4 (b1 b2 : Nat) (rest : List Char) (h1 : b1 < 256) (h2 : b2 < 256) :
    getHex 4 0 (hexN hexDigitU 2 b1 ++ (hexN hexDigitU 2 b2 ++ rest)) = (((b1 * 256 + b2 : Nat) : Int), rest) := by
  rw [getHex_byte 2 0 b1 _ h1 (by omega) (by omega), wrapS_small (by omega) (by omega),
    getHex_byte 0 _ b2 _ h2 (by omega) (by omega), wrapS_small (by omega) (by omega)]
  simp only [getHex, Prod.mk.injEq, and_true]
  omega

theorem getHex6 (b1 b2 b3 : Nat) (rest : List Char) (h1 : b1 < 256) (h2 : b2 < 256) (h3 : b3 < 256) :
    getHex 6 0 (hexN hexDigitU 2 b1 ++ (hexN hexDigitU 2 b2 ++ (hexN hexDigitU 2 b3 ++ rest))) =
      (((b1 * 65536 + b2 * 256 + b3 : Nat) : Int), rest) := by
  rw [getHex_byte 4 0 b1 _ h1 (by omega) (by omega), wrapS_small (by omega) (by omega),
    getHex_byte 2 _ b2 _ h2 (by omega) (by omega), wrapS_small (by omega) (by omega),
    getHex_byte 0 _ b3 _ h3 (by omega) (by omega), wrapS_small (by omega) (by omega)]
  simp only [getHex, Prod.mk.injEq, and_true]
  omega

/-- eight digits: the `int` goes negative for addresses from 0x80000000 -/
theorem getHex8 (b1 b2 b3 b4 : Nat) (rest : List Char) (h1 : b1 < 256) (h2 : b2 < 256) (h3 : b3 < 256)
    (h4 : b4 < 256) :
    getHex 8 0 (hexN hexDigitU 2 b1 ++ (hexN hexDigitU 2 b2 ++ (hexN hexDigitU 2 b3 ++
      (hexN hexDigitU 2 b4 ++ rest)))) =
      (wrapS ((b1 * 16777216 + b2 * 65536 + b3 * 256 + b4 : Nat) : Int), rest) := by
  rw [getHex_byte 6 0 b1 _ h1 (by omega) (by omega), wrapS_small (by omega) (by omega),
    getHex_byte 4 _ b2 _ h2 (by omega) (by omega), wrapS_small (by omega) (by omega),
    getHex_byte 2 _ b3 _ h3 (by omega) (by omega), wrapS_small (by omega) (by omega),
    getHex_byte 0 _ b4 _ h4 (by omega) (by omega)]
  simp only [getHex]
  refine Prod.ext ?_ rfl
  exact congrArg wrapS (by omega)

/-! ### the address bytes in the checksum (`>>` is the arithmetic shift of a possibly negative `int`) -/

theorem shr8 (a : Int) : a >>> 8 = a / 256 := by
  rw [Int.shiftRight_eq_div_pow]; rfl
theorem shr16 (a : Int) : a >>> 16 = a / 65536 := by
  rw [Int.shiftRight_eq_div_pow]; rfl
theorem shr24 (a : Int) : a >>> 24 = a / 16777216 := by
  rw [Int.shiftRight_eq_div_pow]; rfl

theorem ck16 (b1 b2 : Nat) (h2 : b2 < 256) (a : Int) (ha : a = ((b1 * 256 + b2 : Nat) : Int)) :
    (a >>> 8) + a % 256 = ((b1 + b2 : Nat) : Int) := by
  rw [shr8]; omega

theorem ck24 (b1 b2 b3 : Nat) (h2 : b2 < 256) (h3 : b3 < 256) (a : Int)
    (ha : a = ((b1 * 65536 + b2 * 256 + b3 : Nat) : Int)) :
    (a >>> 16) + (a >>> 8) % 256 + a % 256 = ((b1 + b2 + b3 : Nat) : Int) := by
  rw [shr8, shr16]; omega

theorem ck32 (b1 b2 b3 b4 : Nat) (_h1 : b1 < 256) (h2 : b2 < 256) (h3 : b3 < 256) (h4 : b4 < 256) (a : Int)
    (ha : a = wrapS ((b1 * 16777216 + b2 * 65536 + b3 * 256 + b4 : Nat) : Int)) :
    ((a >>> 24) + (a >>> 16) % 256 + (a >>> 8) % 256 + a % 256) % 256 = ((b1 + b2 + b3 + b4 : Nat) : Int) % 256 := by
  rw [shr8, shr16, shr24]
  obtain ⟨k, hk⟩ : ∃ k : Int, a = ((b1 * 16777216 + b2 * 65536 + b3 * 256 + b4 : Nat) : Int) - 4294967296 * k :=
    ⟨(((b1 * 16777216 + b2 * 65536 + b3 * 256 + b4 : Nat) : Int) + 2147483648) / 4294967296, by
      unfold wrapS at ha; omega⟩
  have e24 : a / 16777216 = (b1 : Int) - 256 * k := by omega
  have e16 : a / 65536 = (b1 : Int) * 256 + b2 - 65536 * k := by omega
  have e8 : a / 256 = (b1 : Int) * 65536 + b2 * 256 + b3 - 16777216 * k := by omega
  rw [e24, e16, e8]
  omega

/-! ### `ignore_line` -/

theorem skipLine_line (l rest : List Char) (h : '\n' ∉ l) : skipLine (l ++ '\n' :: rest) = rest := by
  induction l with
  | nil => simp [skipLine]
  | cons c l ih =>
    have hc : c ≠ '\n' := fun e => h (by simp [e])
    have hl : '\n' ∉ l := fun e => h (by simp [e])
    simp only [List.cons_append, skipLine, hc, if_false, ih hl]

/-! ### the data bytes -/

/-- `address` after `n` rounds of `address++` -/
def advance : Nat → Int → Int
  | 0, a => a
  | n + 1, a => advance n (wrapS (a + 1))

theorem dataLoop_bytes (d : List Byte) : ∀ (A : Nat) (a ck : Int) (rest : List Char) (acc : List (Nat × Byte)),
    toU32 a = A % 4294967296 → A + d.length ≤ 4294967296 →
    dataLoop true d.length a ck (hexBytesU (d.map (·.toNat)) ++ rest) acc =
      (advance d.length a, ck + ((sumBytes d : Nat) : Int), rest, (cellsAt A d).reverse ++ acc) := by
  induction d with
  | nil =>
    intro A a ck rest acc _ _
    simp [dataLoop, advance, sumBytes, hexBytesU]
  | cons b bs ih =>
    intro A a ck rest acc hA hb
    simp only [List.length_cons] at hb
    have hbl : b.toNat < 256 := UInt8.toNat_lt b
    simp only [List.map_cons, hexBytesU_cons, List.append_assoc, List.length_cons, dataLoop,
      getHex2 _ _ hbl, if_true, advance]
    have hb' : ((↑b.toNat : Int) % 256).toNat = b.toNat := by omega
    have hA' : toU32 a = A := by omega
    rw [hb', UInt8.ofNat_toNat, hA', ih (A + 1) _ _ rest _ (by rw [toU32_wrapS]; unfold toU32 at *; omega) (by omega)]
    simp only [sumBytes, List.map_cons, List.sum_cons, cellsAt, List.reverse_cons, List.append_assoc,
      List.singleton_append, Prod.mk.injEq, and_true, true_and]
    omega

/-! ### one record -/

theorem readSrecLoop_nil (fuel : Nat) (st : HexState) : readSrecLoop fuel [] st = finish st := by
  cases fuel <;> rfl

/-- the record type the reader sees -/
def recType (t : Char) : Nat := if '0' ≤ t ∧ t ≤ '9' then t.toNat - 48 else 10

/-- S0 header, S7/S8/S9 termination (and anything else that is not S1/S2/S3): the line is ignored -/
theorem step_skip (fuel : Nat) (t : Char) (l X : List Char) (st : HexState)
    (ht : recType t = 0 ∨ recType t > 3) (hl : '\n' ∉ l) :
    readSrecLoop (fuel + 1) ('S' :: t :: (l ++ '\n' :: X)) st = readSrecLoop fuel X st := by
  unfold recType at ht
  simp only [readSrecLoop, ne_eq, not_true_eq_false, if_false, ht, if_true, skipLine_line l X hl]

/-- what a data record does to `start` / `end` / the memory -/
def stepState (st : HexState) (ua len : Int) (acc : List (Nat × Byte)) : HexState :=
  let (start, stop) :=
    if st.start = -1 then (ua, ua + len - 1)
    else ((if ua < st.start then ua else st.start),
          (if ua + len > st.stop then ua + len - 1 else st.stop))
  { st with start := start, stop := stop, acc := acc }

theorem step_data1 (fuel : Nat) (t : Char) (s0 s1 s2 s3 s4 : List Char) (st : HexState)
    (cnt a a' ck1 c : Int) (acc : List (Nat × Byte))
    (ht : recType t = 1)
    (h1 : getHex 2 0 s0 = (cnt, s1)) (h2 : getHex 4 0 s1 = (a, s2))
    (h3 : dataLoop true (cnt - 3).toNat a (cnt + (a >>> 8) + a % 256) s2 st.acc = (a', ck1, s3, acc))
    (h4 : getHex 2 0 s3 = (c, s4)) (h5 : c = 255 - ck1 % 256) :
    readSrecLoop (fuel + 1) ('S' :: t :: s0) st =
      readSrecLoop fuel (skipLine s4) (stepState st (toU32 a) (cnt - 3) acc) := by
  unfold recType at ht
  simp only [readSrecLoop, ne_eq, not_true_eq_false, if_false, ht, h1, h2, h3, h4, h5, if_true, stepState]
  simp

theorem step_data2 (fuel : Nat) (t : Char) (s0 s1 s2 s3 s4 : List Char) (st : HexState)
    (cnt a a' ck1 c : Int) (acc : List (Nat × Byte))
    (ht : recType t = 2)
    (h1 : getHex 2 0 s0 = (cnt, s1)) (h2 : getHex 6 0 s1 = (a, s2))
    (h3 : dataLoop true (cnt - 4).toNat a (cnt + (a >>> 16) + (a >>> 8) % 256 + a % 256) s2 st.acc =
      (a', ck1, s3, acc))
    (h4 : getHex 2 0 s3 = (c, s4)) (h5 : c = 255 - ck1 % 256) :
    readSrecLoop (fuel + 1) ('S' :: t :: s0) st =
      readSrecLoop fuel (skipLine s4) (stepState st (toU32 a) (cnt - 4) acc) := by
  unfold recType at ht
  simp only [readSrecLoop, ne_eq, not_true_eq_false, if_false, ht, h1, show ¬ ((2 : Nat) = 1) by decide,
    h2, h3, h4, h5, if_true, stepState]
  simp

theorem step_data3 (fuel : Nat) (t : Char) (s0 s1 s2 s3 s4 : List Char) (st : HexState)
    (cnt a a' ck1 c : Int) (acc : List (Nat × Byte))
    (ht : recType t = 3)
    (h1 : getHex 2 0 s0 = (cnt, s1)) (h2 : getHex 8 0 s1 = (a, s2))
    (h3 : dataLoop true (cnt - 5).toNat a
      (cnt + (a >>> 24) + (a >>> 16) % 256 + (a >>> 8) % 256 + a % 256) s2 st.acc = (a', ck1, s3, acc))
    (h4 : getHex 2 0 s3 = (c, s4)) (h5 : c = 255 - ck1 % 256) :
    readSrecLoop (fuel + 1) ('S' :: t :: s0) st =
      readSrecLoop fuel (skipLine s4) (stepState st (toU32 a) (cnt - 5) acc) := by
  unfold recType at ht
  simp only [readSrecLoop, ne_eq, not_true_eq_false, if_false, ht, h1,
    show ¬ ((3 : Nat) = 1) by decide, show ¬ ((3 : Nat) = 2) by decide, h2, h3, h4, h5, stepState]
  simp

/-! ### a printed data record -/

theorem recLine_text (t : Nat) (ab data : List Nat) (X : List Char) :
    recLine hexBytesU t ab data ++ ['\n'] ++ X =
      'S' :: Char.ofNat (48 + t) :: (hexN hexDigitU 2 (data.length + ab.length + 1) ++ (hexBytesU ab ++
        (hexBytesU data ++ (hexN hexDigitU 2 (cksum ((data.length + ab.length + 1) + ab.sum + data.sum)) ++
          '\n' :: X)))) := by
  unfold recLine
  simp only [hexBytesU_cons, hexBytesU_append, hexBytesU_nil, List.cons_append, List.nil_append,
    List.append_assoc, List.append_nil]

theorem cksum_int (C : Nat) (ck1 : Int) (h : ck1 % 256 = (C : Int) % 256) :
    ((cksum C : Nat) : Int) = 255 - ck1 % 256 := by
  have h1 := cksum_sum C
  have h2 := cksum_lt C
  omega

theorem recType_fin : ∀ t : Fin 10, recType (Char.ofNat (48 + t.val)) = t.val := by decide

theorem step_rec16 (fuel : Nat) (b1 b2 : Nat) (d : List Byte) (X : List Char) (st : HexState) (A : Nat)
    (hA : A = b1 * 256 + b2) (h1 : b1 < 256) (h2 : b2 < 256) (hd : d.length ≤ 16) :
    readSrecLoop (fuel + 1) (recLine hexBytesU 1 [b1, b2] (d.map (·.toNat)) ++ ['\n'] ++ X) st =
      readSrecLoop fuel X (stepState st (A : Int) (d.length : Int) ((cellsAt A d).reverse ++ st.acc)) := by
  rw [recLine_text]
  simp only [hexBytesU_cons, hexBytesU_nil, List.append_nil, List.append_assoc, List.length_map,
    List.length_cons, List.length_nil, List.sum_cons, List.sum_nil]
  have hcnt : d.length + (0 + 1 + 1) + 1 < 256 := by omega
  have hdl : (((d.length + (0 + 1 + 1) + 1 : Nat) : Int) - 3).toNat = d.length := by omega
  have hAlt : A < 4294967296 := by omega
  have hck := cksum_lt (d.length + (0 + 1 + 1) + 1 + (b1 + (b2 + 0)) + (d.map (·.toNat)).sum)
  have hdata := dataLoop_bytes d A ((b1 * 256 + b2 : Nat) : Int)
    (((d.length + (0 + 1 + 1) + 1 : Nat) : Int) + (((b1 * 256 + b2 : Nat) : Int) >>> 8) +
      ((b1 * 256 + b2 : Nat) : Int) % 256)
    (hexN hexDigitU 2 (cksum (d.length + (0 + 1 + 1) + 1 + (b1 + (b2 + 0)) + (d.map (·.toNat)).sum)) ++ '\n' :: X)
    st.acc (by rw [← hA, toU32_ofNat hAlt]; omega) (by omega)
  have h := step_data1 fuel (Char.ofNat (48 + 1)) _ _ _ _ _ st _ _ _ _ _ _ (recType_fin ⟨1, by omega⟩)
    (getHex2 _ _ hcnt) (getHex4 b1 b2 _ h1 h2) (by rw [hdl]; exact hdata) (getHex2 _ _ (by omega))
    (cksum_int _ _ (by
      have := ck16 b1 b2 h2 _ rfl
      simp only [sumBytes]
      omega))
  rw [h, ← hA, toU32_ofNat hAlt]
  simp only [skipLine, if_true]
  congr 2
  omega

theorem step_rec24 (fuel : Nat) (b1 b2 b3 : Nat) (d : List Byte) (X : List Char) (st : HexState) (A : Nat)
    (hA : A = b1 * 65536 + b2 * 256 + b3) (h1 : b1 < 256) (h2 : b2 < 256) (h3 : b3 < 256) (hd : d.length ≤ 16) :
    readSrecLoop (fuel + 1) (recLine hexBytesU 2 [b1, b2, b3] (d.map (·.toNat)) ++ ['\n'] ++ X) st =
      readSrecLoop fuel X (stepState st (A : Int) (d.length : Int) ((cellsAt A d).reverse ++ st.acc)) := by
  rw [recLine_text]
  simp only [hexBytesU_cons, hexBytesU_nil, List.append_nil, List.append_assoc, List.length_map,
    List.length_cons, List.length_nil, List.sum_cons, List.sum_nil]
  have hcnt : d.length + (0 + 1 + 1 + 1) + 1 < 256 := by omega
  have hdl : (((d.length + (0 + 1 + 1 + 1) + 1 : Nat) : Int) - 4).toNat = d.length := by omega
  have hAlt : A < 4294967296 := by omega
  have hck := cksum_lt (d.length + (0 + 1 + 1 + 1) + 1 + (b1 + (b2 + (b3 + 0))) + (d.map (·.toNat)).sum)
  have hdata := dataLoop_bytes d A ((b1 * 65536 + b2 * 256 + b3 : Nat) : Int)
    (((d.length + (0 + 1 + 1 + 1) + 1 : Nat) : Int) + (((b1 * 65536 + b2 * 256 + b3 : Nat) : Int) >>> 16) +
      (((b1 * 65536 + b2 * 256 + b3 : Nat) : Int) >>> 8) % 256 + ((b1 * 65536 + b2 * 256 + b3 : Nat) : Int) % 256)
    (hexN hexDigitU 2 (cksum (d.length + (0 + 1 + 1 + 1) + 1 + (b1 + (b2 + (b3 + 0))) + (d.map (·.toNat)).sum)) ++
      '\n' :: X)
    st.acc (by rw [← hA, toU32_ofNat hAlt]; omega) (by omega)
  have h := step_data2 fuel (Char.ofNat (48 + 2)) _ _ _ _ _ st _ _ _ _ _ _ (recType_fin ⟨2, by omega⟩)
    (getHex2 _ _ hcnt) (getHex6 b1 b2 b3 _ h1 h2 h3) (by rw [hdl]; exact hdata) (getHex2 _ _ (by omega))
    (cksum_int _ _ (by
      have := ck24 b1 b2 b3 h2 h3 _ rfl
      simp only [sumBytes]
      omega))
  rw [h, ← hA, toU32_ofNat hAlt]
  simp only [skipLine, if_true]
  congr 2
  omega

theorem step_rec32 (fuel : Nat) (b1 b2 b3 b4 : Nat) (d : List Byte) (X : List Char) (st : HexState) (A : Nat)
    (hA : A = b1 * 16777216 + b2 * 65536 + b3 * 256 + b4) (h1 : b1 < 256) (h2 : b2 < 256) (h3 : b3 < 256)
    (h4 : b4 < 256) (hd : d.length ≤ 16) (hb : A + d.length ≤ 4294967296) :
    readSrecLoop (fuel + 1) (recLine hexBytesU 3 [b1, b2, b3, b4] (d.map (·.toNat)) ++ ['\n'] ++ X) st =
      readSrecLoop fuel X (stepState st (A : Int) (d.length : Int) ((cellsAt A d).reverse ++ st.acc)) := by
  rw [recLine_text]
  simp only [hexBytesU_cons, hexBytesU_nil, List.append_nil, List.append_assoc, List.length_map,
    List.length_cons, List.length_nil, List.sum_cons, List.sum_nil]
  have hcnt : d.length + (0 + 1 + 1 + 1 + 1) + 1 < 256 := by omega
  have hdl : (((d.length + (0 + 1 + 1 + 1 + 1) + 1 : Nat) : Int) - 5).toNat = d.length := by omega
  have hdl' : ((d.length + (0 + 1 + 1 + 1 + 1) + 1 : Nat) : Int) - 5 = (d.length : Int) := by omega
  have hAlt : A < 4294967296 := by omega
  have hck := cksum_lt (d.length + (0 + 1 + 1 + 1 + 1) + 1 + (b1 + (b2 + (b3 + (b4 + 0)))) + (d.map (·.toNat)).sum)
  obtain ⟨a, ha⟩ : ∃ a : Int, a = wrapS ((b1 * 16777216 + b2 * 65536 + b3 * 256 + b4 : Nat) : Int) := ⟨_, rfl⟩
  have hU : toU32 a = A := by
    rw [ha, toU32_wrapS, ← hA, toU32_ofNat hAlt]
  have hg8 := getHex8 b1 b2 b3 b4 (hexBytesU (d.map (·.toNat)) ++
    (hexN hexDigitU 2 (cksum (d.length + (0 + 1 + 1 + 1 + 1) + 1 + (b1 + (b2 + (b3 + (b4 + 0)))) +
      (d.map (·.toNat)).sum)) ++ '\n' :: X)) h1 h2 h3 h4
  rw [← ha] at hg8
  have hdata := dataLoop_bytes d A a
    (((d.length + (0 + 1 + 1 + 1 + 1) + 1 : Nat) : Int) + (a >>> 24) + (a >>> 16) % 256 + (a >>> 8) % 256 + a % 256)
    (hexN hexDigitU 2 (cksum (d.length + (0 + 1 + 1 + 1 + 1) + 1 + (b1 + (b2 + (b3 + (b4 + 0)))) +
      (d.map (·.toNat)).sum)) ++ '\n' :: X)
    st.acc (by rw [hU]; omega) hb
  have hc32 := ck32 b1 b2 b3 b4 h1 h2 h3 h4 a ha
  have h := step_data3 fuel (Char.ofNat (48 + 3)) _ _ _ _ _ st _ _ _ _ _ _ (recType_fin ⟨3, by omega⟩)
    (getHex2 _ _ hcnt) hg8 (by rw [hdl]; exact hdata) (getHex2 _ _ (by omega))
    (cksum_int _ _ (by
      simp only [sumBytes]
      omega))
  rw [h, hU, hdl']
  simp only [skipLine, if_true]

/-- **one data record** of `write_srec`, for each of the three `type` settings (-1 = by address, 2, 3) -/
theorem step_writeLine (fuel : Nat) (ty : Option Nat) (a : Nat) (d : List Byte) (X : List Char) (st : HexState)
    (hg : Good (2 ^ 32) (a, d)) (hty : ty = none ∨ ty = some 2 ∨ ty = some 3) :
    readSrecLoop (fuel + 1) (writeLine ty a d ++ X) st =
      readSrecLoop fuel X (stepState st (a : Int) (d.length : Int) ((cellsAt a d).reverse ++ st.acc)) := by
  obtain ⟨h0, h16, hpage, hbound⟩ := hg
  simp only at h0 h16 hpage hbound
  have hcase : (lineType ty a = 1 ∧ a < 65536) ∨ (lineType ty a = 2 ∧ a < 2 ^ 24) ∨ lineType ty a = 3 := by
    unfold lineType
    rcases hty with h | h | h <;> subst h
    · by_cases h1 : a ≤ 0xffff
      · left; simp [h1]; omega
      · by_cases h2 : a ≤ 0xffffff
        · right; left; simp [h1, h2]; omega
        · right; right; simp [h1, h2]
    · by_cases h2 : a > 0xffffff
      · right; right; simp [h2]
      · right; left; simp [h2]; omega
    · right; right; simp
  rcases hcase with ⟨ht, ha⟩ | ⟨ht, ha⟩ | ht
  · rw [writeLine_16 ty 1 a d ht (by omega) (by omega)]
    exact step_rec16 fuel _ _ d X st a (by omega) (by omega) (by omega) h16
  · rw [writeLine_24 ty a d ht (by omega)]
    exact step_rec24 fuel _ _ _ d X st a (by omega) (by omega) (by omega) (by omega) h16
  · rw [writeLine_32 ty a d ht (by omega) (by omega)]
    exact step_rec32 fuel _ _ _ _ d X st a (by omega) (by omega) (by omega) (by omega) (by omega) h16 (by omega)

/-! ### records the loader ignores -/

theorem step_recLine_skip (fuel : Nat) (hexb : List Nat → List Char) (hnl : ∀ bs, '\n' ∉ hexb bs) (t : Nat)
    (ht : t = 0 ∨ (3 < t ∧ t ≤ 9)) (ab data : List Nat) (X : List Char) (st : HexState) :
    readSrecLoop (fuel + 1) (recLine hexb t ab data ++ ['\n'] ++ X) st = readSrecLoop fuel X st := by
  unfold recLine
  simp only [List.cons_append, List.append_assoc, List.nil_append]
  apply step_skip _ _ _ _ _ _ (hnl _)
  have h := recType_fin ⟨t, by omega⟩
  simp only at h
  rw [h]
  omega

theorem step_header (fuel : Nat) (stamp : List Byte) (hst : stamp.length ≤ 250) (X : List Char) (st : HexState) :
    readSrecLoop (fuel + 1) (header stamp ++ X) st = readSrecLoop fuel X st := by
  unfold header
  rw [writeLine_16 (some 0) 0 0 stamp rfl (by omega) (by omega)]
  exact step_recLine_skip fuel hexBytesU nl_not_mem_hexBytesU 0 (Or.inl rfl) _ _ X st

theorem step_entry (fuel : Nat) (e : Nat) (he : e < 2 ^ 32) (hne : e ≠ 0xffffffff) (st : HexState) :
    readSrecLoop (fuel + 1) (entryRecord e) st = finish st := by
  rw [entryRecord_eq e he hne, ← List.append_nil (_ ++ ['\n'])]
  by_cases h1 : e ≤ 0xffff
  · simp only [h1, if_true]
    rw [step_recLine_skip fuel hexBytesL nl_not_mem_hexBytesL 9 (by omega), readSrecLoop_nil]
  · by_cases h2 : e ≤ 0xffffff
    · simp only [h1, h2, if_true, if_false]
      rw [step_recLine_skip fuel hexBytesL nl_not_mem_hexBytesL 8 (by omega), readSrecLoop_nil]
    · simp only [h1, h2, if_false]
      rw [step_recLine_skip fuel hexBytesL nl_not_mem_hexBytesL 7 (by omega), readSrecLoop_nil]

/-! ### all data records -/

/-- the loader state after the data records `recs` -/
def runRecs (st : HexState) : List (Nat × List Byte) → HexState
  | [] => st
  | r :: rest => runRecs (stepState st (r.1 : Int) (r.2.length : Int) ((cellsAt r.1 r.2).reverse ++ st.acc)) rest

theorem writeLine_length (ty : Option Nat) (a : Nat) (d : List Byte) : 1 ≤ (writeLine ty a d).length := by
  unfold writeLine
  simp only
  split
  · simp
  · split
    · simp
    · split
      · simp
      · simp only [List.length_append, List.length_cons, List.length_nil]
        omega

theorem body_length (ty : Option Nat) (recs : List (Nat × List Byte)) : recs.length ≤ (body ty recs).length := by
  induction recs with
  | nil => simp
  | cons r rest ih =>
    obtain ⟨a, d⟩ := r
    have := writeLine_length ty a d
    simp only [body, List.length_cons, List.length_append]
    omega

theorem read_body (ty : Option Nat) (hty : ty = none ∨ ty = some 2 ∨ ty = some 3) :
    ∀ (recs : List (Nat × List Byte)), (∀ r ∈ recs, Good (2 ^ 32) r) →
    ∀ (fuel : Nat) (X : List Char) (st : HexState), recs.length ≤ fuel →
    readSrecLoop fuel (body ty recs ++ X) st = readSrecLoop (fuel - recs.length) X (runRecs st recs) := by
  intro recs
  induction recs with
  | nil =>
    intro _ fuel X st _
    simp [body, runRecs]
  | cons r rest ih =>
    intro hg fuel X st hf
    obtain ⟨a, d⟩ := r
    simp only [List.length_cons] at hf
    obtain ⟨f, rfl⟩ : ∃ f, fuel = f + 1 := ⟨fuel - 1, by omega⟩
    simp only [body, List.append_assoc, runRecs, List.length_cons]
    rw [step_writeLine f ty a d _ st (hg (a, d) (by simp)) hty,
      ih (fun r hr => hg r (by simp [hr])) f X _ (by omega),
      show f + 1 - (rest.length + 1) = f - rest.length by omega]

@[simp] theorem stepState_acc (st : HexState) (ua len : Int) (acc : List (Nat × Byte)) :
    (stepState st ua len acc).acc = acc := by
  unfold stepState; split <;> rfl
@[simp] theorem stepState_startAddress (st : HexState) (ua len : Int) (acc : List (Nat × Byte)) :
    (stepState st ua len acc).startAddress = st.startAddress := by
  unfold stepState; split <;> rfl
theorem stepState_start (st : HexState) (ua len : Int) (acc : List (Nat × Byte)) :
    (stepState st ua len acc).start =
      if st.start = -1 then ua else if ua < st.start then ua else st.start := by
  unfold stepState; by_cases h : st.start = -1 <;> simp [h]
theorem stepState_stop (st : HexState) (ua len : Int) (acc : List (Nat × Byte)) :
    (stepState st ua len acc).stop =
      if st.start = -1 then ua + len - 1 else if ua + len > st.stop then ua + len - 1 else st.stop := by
  unfold stepState; by_cases h : st.start = -1 <;> simp [h]

theorem runRecs_acc : ∀ (recs : List (Nat × List Byte)) (st : HexState),
    (runRecs st recs).acc = (flat recs).reverse ++ st.acc := by
  intro recs
  induction recs with
  | nil => intro st; simp [runRecs]
  | cons r rest ih =>
    intro st
    simp only [runRecs, ih, stepState_acc, flat_cons, List.reverse_append, List.append_assoc]

theorem runRecs_startAddress : ∀ (recs : List (Nat × List Byte)) (st : HexState),
    (runRecs st recs).startAddress = st.startAddress := by
  intro recs
  induction recs with
  | nil => intro st; simp [runRecs]
  | cons r rest ih =>
    intro st
    simp only [runRecs, ih, stepState_startAddress]

/-! ### `start` / `end`: every record lies in `[lo, hi]`, the last one ends at `hi` -/

theorem runRecs_bounds (lo hi : Int) : ∀ (recs : List (Nat × List Byte)) (st : HexState),
    st.start = lo → lo ≠ -1 → st.stop ≤ hi →
    (∀ r ∈ recs, lo ≤ (r.1 : Int) ∧ (r.1 : Int) + (r.2.length : Int) - 1 ≤ hi) →
    (runRecs st recs).start = lo ∧ (runRecs st recs).stop ≤ hi ∧
      (∀ r, recs.getLast? = some r → (r.1 : Int) + (r.2.length : Int) - 1 = hi → (runRecs st recs).stop = hi) := by
  intro recs
  induction recs with
  | nil =>
    intro st h1 _ h3 _
    simp [runRecs, h1, h3]
  | cons r rest ih =>
    intro st h1 h2 h3 hall
    have hr := hall r (by simp)
    have hs : (stepState st (r.1 : Int) (r.2.length : Int) ((cellsAt r.1 r.2).reverse ++ st.acc)).start = lo := by
      rw [stepState_start, h1]; simp only [h2, if_false]; split <;> omega
    have hp : (stepState st (r.1 : Int) (r.2.length : Int) ((cellsAt r.1 r.2).reverse ++ st.acc)).stop ≤ hi := by
      rw [stepState_stop, h1]; simp only [h2, if_false]; split <;> omega
    have := ih _ hs h2 hp (fun x hx => hall x (by simp [hx]))
    refine ⟨this.1, this.2.1, ?_⟩
    intro x hx hxe
    cases rest with
    | nil =>
      simp only [List.getLast?_singleton, Option.some.injEq] at hx
      subst hx
      simp only [runRecs]
      rw [stepState_stop, h1]; simp only [h2, if_false]; split <;> omega
    | cons y ys =>
      rw [List.getLast?_cons_cons] at hx
      exact this.2.2 x hx hxe

/-! ### where the records of `write_srec` lie -/

theorem cellsFrom_ge : ∀ (cs : List (Option Byte)) (n x : Nat) (b : Byte), (x, b) ∈ cellsFrom n cs → n ≤ x := by
  intro cs
  induction cs with
  | nil => intro n x b h; simp [cellsFrom] at h
  | cons c cs ih =>
    intro n x b h
    cases c with
    | none => have := ih (n + 1) x b (by simpa [cellsFrom] using h); omega
    | some v =>
      simp only [cellsFrom, List.mem_cons, Prod.mk.injEq] at h
      rcases h with ⟨h, _⟩ | h
      · omega
      · have := ih (n + 1) x b h; omega

theorem cellsFrom_concat : ∀ (cs : List (Option Byte)) (n : Nat) (b : Byte),
    cellsFrom n (cs ++ [some b]) = cellsFrom n cs ++ [(n + cs.length, b)] := by
  intro cs
  induction cs with
  | nil => intro n b; simp [cellsFrom]
  | cons c cs ih =>
    intro n b
    cases c with
    | none =>
      simp only [List.cons_append, cellsFrom, ih, List.length_cons]
      rw [show n + 1 + cs.length = n + (cs.length + 1) by omega]
    | some v =>
      simp only [List.cons_append, cellsFrom, ih, List.length_cons]
      rw [show n + 1 + cs.length = n + (cs.length + 1) by omega]

/-- with `flat recs` = the written cells of a tight image: the first record starts at `low`, every
record starts at or after `low`, the last record ends at `high` -/
theorem recs_first (recs : List (Nat × List Byte)) (low : Nat) (b : Byte) (cs : List (Option Byte))
    (hne : ∀ r ∈ recs, 0 < r.2.length) (hF : flat recs = cellsFrom low (some b :: cs)) :
    ∃ r rest, recs = r :: rest ∧ r.1 = low := by
  cases recs with
  | nil => simp [cellsFrom] at hF
  | cons r rest =>
    refine ⟨r, rest, rfl, ?_⟩
    have h0 := hne r (by simp)
    obtain ⟨a, d⟩ := r
    cases d with
    | nil => simp at h0
    | cons x xs =>
      simp only [flat_cons, cellsAt, cellsFrom, List.cons_append, List.cons.injEq, Prod.mk.injEq] at hF
      exact hF.1.1

theorem recs_ge (recs : List (Nat × List Byte)) (low : Nat) (cells : List (Option Byte))
    (hne : ∀ r ∈ recs, 0 < r.2.length) (hF : flat recs = cellsFrom low cells) :
    ∀ r ∈ recs, low ≤ r.1 := by
  intro r hr
  have h0 := hne r hr
  obtain ⟨a, d⟩ := r
  cases d with
  | nil => simp at h0
  | cons x xs =>
    have hm : (a, x) ∈ flat recs := by
      unfold flat
      rw [List.mem_flatMap]
      exact ⟨(a, x :: xs), hr, by simp [cellsAt]⟩
    rw [hF] at hm
    exact cellsFrom_ge _ _ _ _ hm

theorem recs_last (recs : List (Nat × List Byte)) (low : Nat) (cells : List (Option Byte)) (b : Byte)
    (hne : ∀ r ∈ recs, 0 < r.2.length) (hF : flat recs = cellsFrom low cells)
    (hl : cells.getLast? = some (some b)) :
    ∀ r, recs.getLast? = some r → r.1 + r.2.length = low + cells.length := by
  intro r hr
  obtain ⟨cs, rfl⟩ := List.getLast?_eq_some_iff.mp hl
  obtain ⟨rs, rfl⟩ := List.getLast?_eq_some_iff.mp hr
  have h0 := hne r (by simp)
  obtain ⟨a, d⟩ := r
  have hd : d ≠ [] := by intro h; subst h; simp at h0
  rw [← List.dropLast_concat_getLast hd] at hF ⊢
  rw [flat_append, flat_cons, flat_nil, List.append_nil, cellsAt_append, cellsFrom_concat] at hF
  simp only [cellsAt, ← List.append_assoc] at hF
  have := (List.append_inj' hF rfl).2
  simp only [List.cons.injEq, Prod.mk.injEq, and_true] at this
  simp only [List.length_append, List.length_cons, List.length_nil]
  omega

theorem runRecs_lowhigh (recs : List (Nat × List Byte)) (low n : Nat)
    (hfirst : ∃ r rest, recs = r :: rest ∧ r.1 = low)
    (hne : ∀ r ∈ recs, 0 < r.2.length)
    (hge : ∀ r ∈ recs, low ≤ r.1)
    (hup : ∀ r ∈ recs, r.1 + r.2.length ≤ low + n)
    (hlast : ∀ r, recs.getLast? = some r → r.1 + r.2.length = low + n) :
    (runRecs {} recs).start = (low : Int) ∧ (runRecs {} recs).stop = ((low + n - 1 : Nat) : Int) := by
  obtain ⟨r0, rest, rfl, hr0⟩ := hfirst
  have h0 := hne r0 (by simp)
  have hu0 := hup r0 (by simp)
  have hs : (stepState {} (r0.1 : Int) (r0.2.length : Int) ((cellsAt r0.1 r0.2).reverse ++ [])).start = (low : Int) := by
    rw [stepState_start, hr0]; rfl
  have hp : (stepState {} (r0.1 : Int) (r0.2.length : Int) ((cellsAt r0.1 r0.2).reverse ++ [])).stop =
      (low : Int) + (r0.2.length : Int) - 1 := by
    rw [stepState_stop, hr0]; rfl
  have hb := runRecs_bounds (low : Int) ((low + n - 1 : Nat) : Int) rest _ hs (by omega) (by rw [hp]; omega)
    (fun r hr => by
      have := hge r (by simp [hr]); have := hup r (by simp [hr]); have := hne r (by simp [hr]); omega)
  show (runRecs (stepState {} (r0.1 : Int) (r0.2.length : Int) ((cellsAt r0.1 r0.2).reverse ++ [])) rest).start = _ ∧
    (runRecs (stepState {} (r0.1 : Int) (r0.2.length : Int) ((cellsAt r0.1 r0.2).reverse ++ [])) rest).stop = _
  refine ⟨hb.1, ?_⟩
  cases rest with
  | nil =>
    have := hlast r0 (by simp)
    simp only [runRecs]
    rw [hp]; omega
  | cons y ys =>
    obtain ⟨x, hx⟩ : ∃ x, (y :: ys).getLast? = some x := ⟨(y :: ys).getLast (by simp), List.getLast?_eq_some_getLast _⟩
    have hxm : x ∈ y :: ys := List.mem_of_getLast? hx
    have := hlast x (by rw [List.getLast?_cons_cons]; exact hx)
    have := hne x (by simp only [List.mem_cons] at hxm ⊢; exact Or.inr hxm)
    exact hb.2.2 x hx (by omega)

end ReadSrecProofs

open ReadImpl ReadSrecProofs SrecImpl SrecSpec in
/-- **`read_srec ∘ write_srec`**: loading the S-record file written for a tight image (`low` and
`high` are written cells, as `Memory::write` leaves them) performs exactly the image's `write8`
calls in ascending address order, ends with `low_address` / `high_address` of the image and
returns 0 (= the `start_address` the caller ignores; not -4 = checksum error). -/
theorem srec_read_write (img : Image) (h : img.WF) (ht : img.Tight) (srecSize : Nat) (stamp : List Byte)
    (hst : stamp.length = 7) :
    ReadImpl.readSrec (SrecImpl.write img srecSize stamp) =
      { ret := 0, writes := img.writtenCells, low := img.low, high := img.high } := by
  obtain ⟨⟨b0, cs0, hcells⟩, ⟨bl, hlastc⟩⟩ := ht
  have hty : typeOfSrecSize srecSize = none ∨ typeOfSrecSize srecSize = some 2 ∨ typeOfSrecSize srecSize = some 3 := by
    unfold typeOfSrecSize
    by_cases h1 : srecSize = 1
    · right; left; simp [h1]
    · by_cases h2 : srecSize = 2
      · right; right; simp [h2]
      · left; simp [h1, h2]
  have hgood := chunks_good img h
  have hne : ∀ r ∈ img.chunks, 0 < r.2.length := fun r hr => (hgood r hr).1
  have hF : flat img.chunks = cellsFrom img.low img.cells := chunks_flat img
  have hfirst := recs_first img.chunks img.low b0 cs0 hne (by rw [hF, hcells])
  have hge := recs_ge img.chunks img.low img.cells hne hF
  have hlast := recs_last img.chunks img.low img.cells bl hne hF hlastc
  have hup : ∀ r ∈ img.chunks, r.1 + r.2.length ≤ img.low + img.cells.length := fun r hr =>
    (chunkLoop_good (img.low + img.cells.length) img.cells img.low 0 [] (Nat.le_refl _) (Or.inl rfl) r hr).2.2.2
  have hlh := runRecs_lowhigh img.chunks img.low img.cells.length hfirst hne hge hup hlast
  have hcl : 0 < img.cells.length := by rw [hcells]; simp
  have hwf : img.low + img.cells.length < 4294967296 := h.1
  have hfin : finish (runRecs {} img.chunks) =
      { ret := 0, writes := img.writtenCells, low := img.low, high := img.high } := by
    unfold finish
    rw [runRecs_startAddress, runRecs_acc, hlh.1, hlh.2, toU32_ofNat (by omega), toU32_ofNat (by omega),
      List.append_nil, List.reverse_reverse, chunks_flat]
    rfl
  unfold ReadImpl.readSrec SrecImpl.write
  rw [List.append_assoc, step_header _ stamp (by omega)]
  have hbl := body_length (typeOfSrecSize srecSize) img.chunks
  have hhl := writeLine_length (some 0) 0 stamp
  have hlen : (header stamp ++ (body (typeOfSrecSize srecSize) img.chunks ++ entryRecord img.entry)).length =
      (header stamp).length + ((body (typeOfSrecSize srecSize) img.chunks).length + (entryRecord img.entry).length) := by
    simp only [List.length_append]
  unfold header at hlen
  rw [read_body _ hty img.chunks hgood _ _ _ (by unfold header; omega)]
  by_cases he : img.entry = 0xffffffff
  · have hnil : entryRecord img.entry = [] := by simp [entryRecord, he]
    rw [hnil, readSrecLoop_nil, hfin]
  · have hel : 1 ≤ (entryRecord img.entry).length := by
      rw [entryRecord_eq img.entry h.2 he]; simp
    obtain ⟨f, hf⟩ : ∃ f, (header stamp ++ (body (typeOfSrecSize srecSize) img.chunks ++
        entryRecord img.entry)).length - img.chunks.length = f + 1 :=
      ⟨(header stamp ++ (body (typeOfSrecSize srecSize) img.chunks ++
        entryRecord img.entry)).length - img.chunks.length - 1, by unfold header; omega⟩
    rw [hf, step_entry f _ h.2 he, hfin]

end NakenVerif.FileIO
