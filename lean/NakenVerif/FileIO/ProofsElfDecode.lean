import NakenVerif.FileIO.ProofsElfSyms
/-
C03 / ELF: decoding the written file per the gABI gives back the image, the exported symbols and the entry point.
-/
namespace NakenVerif.FileIO.ElfProofs
open NakenVerif.FileIO ElfImpl ElfSpec

/-! ### the section name string table: two constants (ARM / not ARM) -/

def shstrTableOf (arm : Bool) : List Byte :=
  let t1 := stringTableAppend stringTableDefault (str ".text")
  if arm then stringTableAppend t1 (str ".ARM.attributes") else t1

def shstrBytesOf (arm : Bool) : List Byte :=
  let t := shstrTableOf arm
  (t ++ List.replicate (stringTableLen t - t.length) 0).take (stringTableLen t) ++ [0]

theorem shstr_names : ∀ b : Bool, findSection (shstrTableOf b) ".text" = 36 ∧ findSection (shstrTableOf b) ".shstrtab" = 1 ∧
    findSection (shstrTableOf b) ".symtab" = 11 ∧ findSection (shstrTableOf b) ".strtab" = 19 ∧
    findSection (shstrTableOf b) ".comment" = 27 ∧ findSection (shstrTableOf true) ".ARM.attributes" = 42 := by
  decide +kernel

theorem shstr_bytes : ∀ b : Bool, (shstrBytesOf b).length = (if b then 59 else 43) ∧ validStrtab (shstrBytesOf b) = true := by
  decide +kernel

theorem comment_last : (comment ++ [0]).getLast? = some 0 ∧ (comment ++ [0]).length = 50 := by decide +kernel

theorem aeabi_length : aeabi.length = 49 := by decide

section
variable (img : Image) (syms : List ElfImpl.Sym) (cfg : Config)

theorem shstrTable_eq : shstrTable cfg = shstrTableOf (isArm cfg) := by
  unfold shstrTable shstrTableOf; cases isArm cfg <;> rfl

theorem shstrBytes_eq : shstrBytes cfg = shstrBytesOf (isArm cfg) := by
  unfold shstrBytes shstrBytesOf; rw [shstrTable_eq]

theorem ite_extra (c : Prop) [Decidable c] (a b : Hdr) (ha : a.shnumExtra = 0) (hb : b.shnumExtra = 0) :
    (if c then a else b).shnumExtra = 0 := by
  split <;> assumption

theorem shnumExtra_eq (c a : Nat) :
    (cpuHdr c a).shnumExtra = if c = Generated.CpuType.arm then 1 else 0 := by
  by_cases h : c = Generated.CpuType.arm
  · subst h; simp [cpuHdr, Generated.CpuType.arm, Generated.CpuType.arm64, Generated.CpuType.msp430,
      Generated.CpuType.msp430x, Generated.CpuType.m68000, Generated.CpuType.m68hc08, Generated.CpuType.i8051]
  · simp only [cpuHdr, h, if_false]
    repeat' apply ite_extra
    all_goals rfl

theorem shnum_eq : shnum cfg = if isArm cfg then 7 else 6 := by
  unfold shnum shnum0 hdrOf isArm
  rw [shnumExtra_eq]
  by_cases h : cfg.cpuType = Generated.CpuType.arm <;> simp [h]

/-- the written file: final header, then everything after the header of the body -/
theorem write_split : ∃ tail, body img syms cfg = f0 img cfg ++ tail ∧
    ElfImpl.write img syms cfg = ehdrFinal img syms cfg ++ tail := by
  obtain ⟨tail, ht⟩ := f0_prefix_body img syms cfg
  exact ⟨tail, ht.symm, write_eq img syms cfg tail ht.symm⟩

theorem ehdrFinal_length : (ehdrFinal img syms cfg).length = (f0 img cfg).length := by
  unfold ehdrFinal f0
  rw [ehdr_length _ _ (hdrOf_cls cfg), ehdr_length _ _ (hdrOf_cls cfg)]

theorem write_length : (ElfImpl.write img syms cfg).length = (body img syms cfg).length := by
  obtain ⟨tail, hb, hw⟩ := write_split img syms cfg
  rw [hb, hw, List.length_append, List.length_append, ehdrFinal_length]

/-- a piece `p` written right after the stage `a` (not inside the header) is found at `a.length` -/
theorem sect (a p : List Byte) (hp : (a ++ p) <+: body img syms cfg) (ha : (f0 img cfg).length ≤ a.length) :
    slice (ElfImpl.write img syms cfg) a.length ((a ++ p).length - a.length) = p ∧
    a.length + ((a ++ p).length - a.length) ≤ (ElfImpl.write img syms cfg).length ∧
    (a ++ p).length - a.length = p.length := by
  have hl : (a ++ p).length - a.length = p.length := by simp
  obtain ⟨tail, hb, hw⟩ := write_split img syms cfg
  refine ⟨?_, ?_, hl⟩
  · rw [hl, hw, slice_append_right _ _ _ _ (by rw [ehdrFinal_length]; exact ha), ehdrFinal_length,
      ← slice_append_right _ _ _ _ ha, ← hb]
    exact slice_prefix a p _ hp
  · rw [write_length]
    have := hp.length_le
    simp only [List.length_append] at this ⊢
    omega

theorem drop_write (off : Nat) (h : (f0 img cfg).length ≤ off) :
    (ElfImpl.write img syms cfg).drop off = (body img syms cfg).drop off := by
  obtain ⟨tail, hb, hw⟩ := write_split img syms cfg
  rw [hb, hw, List.drop_append, List.drop_append, List.drop_eq_nil_of_le (by rw [ehdrFinal_length]; exact h),
    List.drop_eq_nil_of_le h, ehdrFinal_length]

theorem f0_le_f1 : (f0 img cfg).length ≤ (f1 img cfg).length := (f0_prefix_f1 img cfg).length_le
theorem f1_le_f2 : (f1 img cfg).length ≤ (f2 img cfg).length := (f1_prefix_f2 img cfg).length_le
theorem f2_le_f3 : (f2 img cfg).length ≤ (f3 img cfg).length := (f2_prefix_f3 img cfg).length_le
theorem f3_le_f4 : (f3 img cfg).length ≤ (f4 img cfg).length := (f3_prefix_f4 img cfg).length_le
theorem f4_le_f5 : (f4 img cfg).length ≤ (f5 img cfg).length := (f4_prefix_f5 img cfg).length_le
theorem f5_le_f6 : (f5 img cfg).length ≤ (f6 img cfg).length := (f5_prefix_f6 img cfg).length_le
theorem f6_le_f7 : (f6 img cfg).length ≤ (f7 img syms cfg).length := (f6_prefix_f7 img syms cfg).length_le
theorem f7_le_f8 : (f7 img syms cfg).length ≤ (f8 img syms cfg).length := (f7_prefix_f8 img syms cfg).length_le
theorem f8_le_f9 : (f8 img syms cfg).length ≤ (f9 img syms cfg).length := (f8_prefix_f9 img syms cfg).length_le
theorem f9_le_f10 : (f9 img syms cfg).length ≤ (f10 img syms cfg).length := (f9_prefix_f10 img syms cfg).length_le
theorem f10_le_f11 : (f10 img syms cfg).length ≤ (f11 img syms cfg).length := (f10_prefix_f11 img syms cfg).length_le
theorem f11_le_body : (f11 img syms cfg).length ≤ (body img syms cfg).length := (f11_prefix_body img syms cfg).length_le

theorem text_facts :
    slice (ElfImpl.write img syms cfg) (textOff img cfg) (textSize img cfg) = textBytes img ∧
    textOff img cfg + textSize img cfg ≤ (ElfImpl.write img syms cfg).length ∧
    textSize img cfg = (textBytes img).length :=
  sect img syms cfg (f1 img cfg) (textBytes img) (f2_prefix_body img syms cfg) (f0_le_f1 img cfg)

theorem shstr_facts :
    slice (ElfImpl.write img syms cfg) (shstrOff img cfg) (shstrSize img cfg) = shstrBytes cfg ∧
    shstrOff img cfg + shstrSize img cfg ≤ (ElfImpl.write img syms cfg).length ∧
    shstrSize img cfg = (shstrBytes cfg).length :=
  sect img syms cfg (f4 img cfg) (shstrBytes cfg) (f5_prefix_body img syms cfg) (by
    have := f0_le_f1 img cfg; have := f1_le_f2 img cfg; have := f2_le_f3 img cfg; have := f3_le_f4 img cfg; omega)

theorem strtab_facts :
    slice (ElfImpl.write img syms cfg) (strtabOff img cfg) (strtabSize img syms cfg) = strtabBytes syms cfg ∧
    strtabOff img cfg + strtabSize img syms cfg ≤ (ElfImpl.write img syms cfg).length ∧
    strtabSize img syms cfg = (strtabBytes syms cfg).length :=
  sect img syms cfg (f6 img cfg) (strtabBytes syms cfg) (f7_prefix_body img syms cfg) (by
    have := f0_le_f1 img cfg; have := f1_le_f2 img cfg; have := f2_le_f3 img cfg; have := f3_le_f4 img cfg
    have := f4_le_f5 img cfg; have := f5_le_f6 img cfg; omega)

theorem symtab_facts :
    slice (ElfImpl.write img syms cfg) (symtabOff img syms cfg) (symtabSize img syms cfg) = symtabBytes img syms cfg ∧
    symtabOff img syms cfg + symtabSize img syms cfg ≤ (ElfImpl.write img syms cfg).length ∧
    symtabSize img syms cfg = (symtabBytes img syms cfg).length :=
  sect img syms cfg (f8 img syms cfg) (symtabBytes img syms cfg) (f9_prefix_body img syms cfg) (by
    have := f0_le_f1 img cfg; have := f1_le_f2 img cfg; have := f2_le_f3 img cfg; have := f3_le_f4 img cfg
    have := f4_le_f5 img cfg; have := f5_le_f6 img cfg; have := f6_le_f7 img syms cfg; have := f7_le_f8 img syms cfg
    omega)

theorem comment_facts :
    slice (ElfImpl.write img syms cfg) (commentOff img syms cfg) (commentSize img syms cfg) = comment ++ [0] ∧
    commentOff img syms cfg + commentSize img syms cfg ≤ (ElfImpl.write img syms cfg).length ∧
    commentSize img syms cfg = (comment ++ [0]).length :=
  sect img syms cfg (f9 img syms cfg) (comment ++ [0]) (f10_prefix_body img syms cfg) (by
    have := f0_le_f1 img cfg; have := f1_le_f2 img cfg; have := f2_le_f3 img cfg; have := f3_le_f4 img cfg
    have := f4_le_f5 img cfg; have := f5_le_f6 img cfg; have := f6_le_f7 img syms cfg; have := f7_le_f8 img syms cfg
    have := f8_le_f9 img syms cfg; omega)

theorem arm_facts : armOff img cfg + armSize cfg ≤ (ElfImpl.write img syms cfg).length := by
  rw [write_length]
  have h4 := (f4_prefix_body img syms cfg).length_le
  unfold armOff armSize
  unfold f4 at h4
  split at h4
  · simp only [List.length_append] at h4; simp [*] at *; omega
  · simp [*] at *

theorem shoff_facts : (ElfImpl.write img syms cfg).drop (shoff img syms cfg) = shtab img syms cfg ∧
    shoff img syms cfg + (shtab img syms cfg).length = (ElfImpl.write img syms cfg).length := by
  constructor
  · rw [drop_write]
    · unfold body shoff; rw [List.drop_left]
    · have := f0_le_f1 img cfg; have := f1_le_f2 img cfg; have := f2_le_f3 img cfg; have := f3_le_f4 img cfg
      have := f4_le_f5 img cfg; have := f5_le_f6 img cfg; have := f6_le_f7 img syms cfg; have := f7_le_f8 img syms cfg
      have := f8_le_f9 img syms cfg; have := f9_le_f10 img syms cfg; have := f10_le_f11 img syms cfg
      unfold shoff; omega
  · rw [write_length]; unfold body shoff; simp

end

end NakenVerif.FileIO.ElfProofs
