import NakenVerif.FileIO.ProofsElfReadFacts
/-
C03 / read_elf: loading the written file gives back the image, the exported symbols, the byte order and the CPU.
-/
set_option linter.unusedSimpArgs false
namespace NakenVerif.FileIO.ElfReadProofs
open NakenVerif.FileIO ElfImpl ElfReadImpl ElfProofs

section
variable (img : Image) (syms : List ElfImpl.Sym) (cfg : Config)

theorem secsOf_length : (secsOf img syms cfg).length = if isArm cfg then 7 else 6 := by
  unfold secsOf; cases isArm cfg <;> simp

theorem toU64_mul (n sz : Nat) (h : n * sz < 18446744073709551616) : toU64 ((n : Int) * (sz : Int)) = n * sz := by
  unfold toU64
  rw [← Int.natCast_mul]
  have : ((n * sz : Nat) : Int) % 18446744073709551616 = ((n * sz : Nat) : Int) := by
    apply Int.emod_eq_of_lt <;> omega
  rw [this, Int.toNat_natCast]

theorem tableOk_write (h : Ok img syms cfg) :
    TableOk (ElfImpl.write img syms cfg) img.bigEndian (is32 cfg) (shoff img syms cfg) (if is32 cfg then 40 else 64)
      (shstrOff img cfg) (secsOf img syms cfg) := by
  have hsmall := h.small
  have hsl := shoff_lt img syms cfg h
  constructor
  · intro n hh hget rest
    rw [← secs_eq img syms cfg h, List.getElem?_map] at hget
    cases hs : (shdrs img syms cfg)[n]? with
    | none => rw [hs] at hget; simp at hget
    | some s =>
      rw [hs] at hget; simp only [Option.map_some, Option.some.injEq] at hget
      have hn : n < 7 := by
        have := (List.getElem?_eq_some_iff.1 hs).1
        rw [shdrs_length, shnum_eq] at this; split at this <;> omega
      have hsz : (if is32 cfg then 40 else 64) ≤ 64 := by split <;> omega
      have hmul : n * (if is32 cfg then 40 else 64) ≤ 6 * 64 := Nat.mul_le_mul (by omega) hsz
      rw [toU64_mul _ _ (by omega), seek_ok _ _ _ (by omega)]
      obtain ⟨t, ht⟩ := shdr_drop img syms cfg n s hs
      rw [ht, readShdr_render, hget]
  · intro hh hmem
    obtain ⟨_, t2, _⟩ := text_facts img syms cfg
    obtain ⟨_, s2, _⟩ := shstr_facts img syms cfg
    obtain ⟨_, r2, _⟩ := strtab_facts img syms cfg
    obtain ⟨_, y2, _⟩ := symtab_facts img syms cfg
    obtain ⟨_, c2, _⟩ := comment_facts img syms cfg
    have a2 := arm_facts img syms cfg
    unfold secsOf at hmem
    cases hArm : isArm cfg <;> simp only [hArm, Bool.false_eq_true, if_false, if_true, List.append_nil, List.cons_append,
      List.nil_append, List.mem_cons, List.not_mem_nil, or_false] at hmem <;>
      rcases hmem with rfl | rfl | rfl | rfl | rfl | rfl | rfl <;> simp only <;> omega

/-- the section names in the written `.shstrtab`, as `get_string_at_offset` finds them -/
theorem shstr_consts : ∀ b : Bool,
    (∀ k ∈ [0, 1, 11, 19, 27, 36], (0 : Byte) ∈ (shstrBytesOf b).drop k ∧
        (((shstrBytesOf b).drop k).takeWhile (· ≠ 0)).length < 255 ∧ k ≤ (shstrBytesOf b).length) ∧
    ((shstrBytesOf b).drop 0).takeWhile (· ≠ 0) = [] ∧
    ((shstrBytesOf b).drop 1).takeWhile (· ≠ 0) = str ".shstrtab" ∧
    ((shstrBytesOf b).drop 11).takeWhile (· ≠ 0) = str ".symtab" ∧
    ((shstrBytesOf b).drop 19).takeWhile (· ≠ 0) = str ".strtab" ∧
    ((shstrBytesOf b).drop 27).takeWhile (· ≠ 0) = str ".comment" ∧
    ((shstrBytesOf b).drop 36).takeWhile (· ≠ 0) = str ".text" := by
  decide +kernel

theorem shstr_arm : (0 : Byte) ∈ (shstrBytesOf true).drop 42 ∧
    (((shstrBytesOf true).drop 42).takeWhile (· ≠ 0)).length < 255 ∧ 42 ≤ (shstrBytesOf true).length ∧
    ((shstrBytesOf true).drop 42).takeWhile (· ≠ 0) = str ".ARM.attributes" := by
  decide +kernel

theorem name_at (k : Nat) (hk : k ≤ (shstrBytesOf (isArm cfg)).length)
    (h0 : (0 : Byte) ∈ (shstrBytesOf (isArm cfg)).drop k)
    (hl : (((shstrBytesOf (isArm cfg)).drop k).takeWhile (· ≠ 0)).length < 255) :
    strLoop 255 ((ElfImpl.write img syms cfg).drop (shstrOff img cfg + k)) =
      ((shstrBytesOf (isArm cfg)).drop k).takeWhile (· ≠ 0) := by
  obtain ⟨t, ht⟩ := shstr_drop img syms cfg
  rw [shstrBytes_eq] at ht
  rw [← List.drop_drop, ht, List.drop_append_of_le_length hk]
  exact strLoop_prefix _ _ _ h0 hl

theorem names_write :
    strLoop 255 ((ElfImpl.write img syms cfg).drop (shstrOff img cfg + 0)) = [] ∧
    strLoop 255 ((ElfImpl.write img syms cfg).drop (shstrOff img cfg + 1)) = str ".shstrtab" ∧
    strLoop 255 ((ElfImpl.write img syms cfg).drop (shstrOff img cfg + 11)) = str ".symtab" ∧
    strLoop 255 ((ElfImpl.write img syms cfg).drop (shstrOff img cfg + 19)) = str ".strtab" ∧
    strLoop 255 ((ElfImpl.write img syms cfg).drop (shstrOff img cfg + 27)) = str ".comment" ∧
    strLoop 255 ((ElfImpl.write img syms cfg).drop (shstrOff img cfg + 36)) = str ".text" ∧
    (isArm cfg = true → strLoop 255 ((ElfImpl.write img syms cfg).drop (shstrOff img cfg + 42)) = str ".ARM.attributes") := by
  obtain ⟨hall, e0, e1, e11, e19, e27, e36⟩ := shstr_consts (isArm cfg)
  have g := fun k hk => name_at img syms cfg k (hall k hk).2.2 (hall k hk).1 (hall k hk).2.1
  refine ⟨?_, ?_, ?_, ?_, ?_, ?_, ?_⟩
  · rw [g 0 (by simp), e0]
  · rw [g 1 (by simp), e1]
  · rw [g 11 (by simp), e11]
  · rw [g 19 (by simp), e19]
  · rw [g 27 (by simp), e27]
  · rw [g 36 (by simp), e36]
  · intro ha
    have := name_at img syms cfg 42
    rw [ha] at this
    rw [this shstr_arm.2.2.1 shstr_arm.1 shstr_arm.2.1, shstr_arm.2.2.2]

theorem findStrtabL_write :
    findStrtabL (ElfImpl.write img syms cfg) (shstrOff img cfg) (secsOf img syms cfg) = strtabOff img cfg := by
  obtain ⟨n0, n1, n11, n19, n27, n36, narm⟩ := names_write img syms cfg
  unfold secsOf
  cases hArm : isArm cfg <;>
    simp [findStrtabL, n0, n1, n11, n19, n27, n36, str]

end

end NakenVerif.FileIO.ElfReadProofs
