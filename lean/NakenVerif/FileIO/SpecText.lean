import NakenVerif.FileIO.Image
/- Text layer common to the Intel HEX and S-record specifications: hexadecimal digit pairs
(both letter cases are accepted, as every published reader does) and line splitting. -/
namespace NakenVerif.FileIO.SpecText
open NakenVerif.FileIO

def hexVal (c : Char) : Option Nat :=
  if 48 ≤ c.toNat ∧ c.toNat ≤ 57 then some (c.toNat - 48)
  else if 65 ≤ c.toNat ∧ c.toNat ≤ 70 then some (c.toNat - 55)
  else if 97 ≤ c.toNat ∧ c.toNat ≤ 102 then some (c.toNat - 87)
  else none

/-- pairs of hex digits → bytes -/
def parseBytes : List Char → Option (List Nat)
  | [] => some []
  | [_] => none
  | h :: l :: rest =>
    match hexVal h, hexVal l, parseBytes rest with
    | some hv, some lv, some bs => some ((16 * hv + lv) :: bs)
    | _, _, _ => none

/-- split at line feeds; a final line feed does not start another line -/
def lines : List Char → List (List Char)
  | [] => []
  | c :: cs =>
    if c = '\n' then [] :: lines cs
    else match lines cs with
      | [] => [[c]]
      | l :: ls => (c :: l) :: ls

end NakenVerif.FileIO.SpecText
