import NakenVerif.FileIO.SpecText
namespace NakenVerif.FileIO
open SpecText

/-! ### hex digits -/

theorem hexVal_hexDigitU_fin : ∀ d : Fin 16, hexVal (hexDigitU d.val) = some d.val := by decide
theorem hexVal_hexDigitL_fin : ∀ d : Fin 16, hexVal (hexDigitL d.val) = some d.val := by decide
theorem hexDigitU_ne_nl_fin : ∀ d : Fin 16, hexDigitU d.val ≠ '\n' := by decide
theorem hexDigitL_ne_nl_fin : ∀ d : Fin 16, hexDigitL d.val ≠ '\n' := by decide

theorem hexVal_hexDigitU {d : Nat} (h : d < 16) : hexVal (hexDigitU d) = some d := hexVal_hexDigitU_fin ⟨d, h⟩
theorem hexVal_hexDigitL {d : Nat} (h : d < 16) : hexVal (hexDigitL d) = some d := hexVal_hexDigitL_fin ⟨d, h⟩
theorem hexDigitU_ne_nl {d : Nat} (h : d < 16) : hexDigitU d ≠ '\n' := hexDigitU_ne_nl_fin ⟨d, h⟩
theorem hexDigitL_ne_nl {d : Nat} (h : d < 16) : hexDigitL d ≠ '\n' := hexDigitL_ne_nl_fin ⟨d, h⟩

/-- two upper-case digits per byte -/
def hexBytesU (bs : List Nat) : List Char := bs.flatMap (fun b => hexN hexDigitU 2 b)
def hexBytesL (bs : List Nat) : List Char := bs.flatMap (fun b => hexN hexDigitL 2 b)

theorem hexN2 (dg : Nat → Char) (v : Nat) : hexN dg 2 v = [dg (v / 16 % 16), dg (v % 16)] := by
  simp [hexN]

theorem hexN_add_two (dg : Nat → Char) (k v : Nat) :
    hexN dg (k + 2) v = hexN dg k (v / 256) ++ hexN dg 2 v := by
  simp only [hexN, List.nil_append, List.append_assoc, List.cons_append]
  rw [Nat.div_div_eq_div_mul]

theorem hexN2_mod (dg : Nat → Char) (v : Nat) : hexN dg 2 (v % 256) = hexN dg 2 v := by
  rw [hexN2, hexN2]
  have h1 : v % 256 / 16 % 16 = v / 16 % 16 := by omega
  have h2 : v % 256 % 16 = v % 16 := by omega
  rw [h1, h2]

theorem hexN4 (dg : Nat → Char) (v : Nat) : hexN dg 4 v = hexN dg 2 (v / 256) ++ hexN dg 2 v := by
  rw [show (4 : Nat) = 2 + 2 from rfl, hexN_add_two, show (2 : Nat) = 0 + 2 from rfl, hexN_add_two]

theorem hexN6 (dg : Nat → Char) (v : Nat) :
    hexN dg 6 v = hexN dg 2 (v / 65536) ++ hexN dg 2 (v / 256) ++ hexN dg 2 v := by
  rw [show (6 : Nat) = 4 + 2 from rfl, hexN_add_two, hexN4, Nat.div_div_eq_div_mul]

theorem hexN8 (dg : Nat → Char) (v : Nat) :
    hexN dg 8 v = hexN dg 2 (v / 16777216) ++ hexN dg 2 (v / 65536) ++ hexN dg 2 (v / 256) ++ hexN dg 2 v := by
  rw [show (8 : Nat) = 6 + 2 from rfl, hexN_add_two, hexN6, Nat.div_div_eq_div_mul, Nat.div_div_eq_div_mul]

theorem fmtX_of_lt {w v : Nat} (h : v < 16 ^ w) : fmtX w v = hexN hexDigitU w v := by
  simp [fmtX, hexWidth, h]
theorem fmtx_of_lt {w v : Nat} (h : v < 16 ^ w) : fmtx w v = hexN hexDigitL w v := by
  simp [fmtx, hexWidth, h]

/-! ### parsing what was printed -/

theorem parseBytes_hexU (bs : List Nat) (h : ∀ b ∈ bs, b < 256) (rest : List Char) (rs : List Nat)
    (hr : parseBytes rest = some rs) : parseBytes (hexBytesU bs ++ rest) = some (bs ++ rs) := by
  induction bs with
  | nil => simpa [hexBytesU] using hr
  | cons b bs ih =>
    have hb : b < 256 := h b (by simp)
    have ih' := ih (fun x hx => h x (by simp [hx]))
    simp only [hexBytesU, List.flatMap_cons, hexN2, List.cons_append, List.nil_append] at ih' ⊢
    rw [parseBytes, hexVal_hexDigitU (by omega), hexVal_hexDigitU (by omega), ih']
    have e : 16 * (b / 16 % 16) + b % 16 = b := by omega
    simp [e]

theorem parseBytes_hexL (bs : List Nat) (h : ∀ b ∈ bs, b < 256) (rest : List Char) (rs : List Nat)
    (hr : parseBytes rest = some rs) : parseBytes (hexBytesL bs ++ rest) = some (bs ++ rs) := by
  induction bs with
  | nil => simpa [hexBytesL] using hr
  | cons b bs ih =>
    have hb : b < 256 := h b (by simp)
    have ih' := ih (fun x hx => h x (by simp [hx]))
    simp only [hexBytesL, List.flatMap_cons, hexN2, List.cons_append, List.nil_append] at ih' ⊢
    rw [parseBytes, hexVal_hexDigitL (by omega), hexVal_hexDigitL (by omega), ih']
    have e : 16 * (b / 16 % 16) + b % 16 = b := by omega
    simp [e]

theorem nl_not_mem_hexN (dg : Nat → Char) (hd : ∀ d, d < 16 → dg d ≠ '\n') (k v : Nat) :
    '\n' ∉ hexN dg k v := by
  induction k generalizing v with
  | zero => simp [hexN]
  | succ k ih =>
    simp only [hexN, List.mem_append, List.mem_singleton, not_or]
    exact ⟨ih _, fun h => hd (v % 16) (by omega) h.symm⟩

theorem nl_not_mem_hexBytesU (bs : List Nat) : '\n' ∉ hexBytesU bs := by
  simp only [hexBytesU, List.mem_flatMap, not_exists, not_and]
  intro b _
  exact nl_not_mem_hexN _ (fun d h => hexDigitU_ne_nl h) 2 b

theorem nl_not_mem_hexBytesL (bs : List Nat) : '\n' ∉ hexBytesL bs := by
  simp only [hexBytesL, List.mem_flatMap, not_exists, not_and]
  intro b _
  exact nl_not_mem_hexN _ (fun d h => hexDigitL_ne_nl h) 2 b

/-! ### lines -/

theorem lines_append_line (l rest : List Char) (h : '\n' ∉ l) :
    lines (l ++ '\n' :: rest) = l :: lines rest := by
  induction l with
  | nil => simp [lines]
  | cons c l ih =>
    have hc : c ≠ '\n' := fun e => h (by simp [e])
    have hl : '\n' ∉ l := fun e => h (by simp [e])
    simp only [List.cons_append, lines, hc, if_false, ih hl]

end NakenVerif.FileIO
