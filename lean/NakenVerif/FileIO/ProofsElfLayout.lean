import NakenVerif.FileIO.ProofsElfBytes
/-
C03 / ELF: where the pieces of the written file lie — prefix chain of the stages `f0 … f11`, slices, the header patch.
-/
namespace NakenVerif.FileIO.ElfProofs
open NakenVerif.FileIO ElfImpl ElfSpec

/-! ### generic list facts -/

theorem slice_prefix (a p file : List Byte) (h : (a ++ p) <+: file) : slice file a.length p.length = p := by
  obtain ⟨t, rfl⟩ := h
  unfold slice
  rw [List.append_assoc, List.drop_left, List.take_left]

theorem slice_append_right (a t : List Byte) (off n : Nat) (h : a.length ≤ off) :
    slice (a ++ t) off n = slice t (off - a.length) n := by
  unfold slice
  rw [List.drop_append, List.drop_eq_nil_of_le h, List.nil_append]

theorem overwrite_mid (a old c new : List Byte) (h : old.length = new.length) :
    overwrite (a ++ old ++ c) a.length new = a ++ new ++ c := by
  unfold overwrite
  have h1 : List.take a.length (a ++ old ++ c) = a := by rw [List.append_assoc, List.take_left]
  have h2 : List.drop (a.length + new.length) (a ++ old ++ c) = c := by
    have : a.length + new.length = (a ++ old).length := by simp [h]
    rw [this, List.drop_left]
  rw [h1, h2]

theorem alignTo_prefix (n : Nat) (f : List Byte) : f <+: alignTo n f := List.prefix_append _ _

/-! ### the stages -/

theorem ite_cls (c : Prop) [Decidable c] (a b : Hdr) (ha : a.cls = 1 ∨ a.cls = 2) (hb : b.cls = 1 ∨ b.cls = 2) :
    (if c then a else b).cls = 1 ∨ (if c then a else b).cls = 2 := by
  split <;> assumption

theorem cpuHdr_cls (c a : Nat) : (cpuHdr c a).cls = 1 ∨ (cpuHdr c a).cls = 2 := by
  unfold cpuHdr
  repeat' apply ite_cls
  all_goals first | exact Or.inl rfl | exact Or.inr rfl | (by_cases h : a = 8 <;> simp [h])

section
variable (img : Image) (syms : List ElfImpl.Sym) (cfg : Config)

theorem hdrOf_cls : (hdrOf cfg).cls = 1 ∨ (hdrOf cfg).cls = 2 := cpuHdr_cls _ _

theorem clsOf_is32 : clsOf (is32 cfg) = (hdrOf cfg).cls := by
  unfold clsOf is32
  rcases hdrOf_cls cfg with h | h <;> simp [h]

theorem is32_iff : is32 cfg = true ↔ (hdrOf cfg).cls = 1 := by simp [is32]

theorem f0_length : (f0 img cfg).length = if is32 cfg then 52 else 64 := by
  unfold f0
  rw [ehdr_length _ _ (hdrOf_cls cfg)]
  simp [is32]

theorem f0_prefix_f1 : f0 img cfg <+: f1 img cfg := by
  unfold f1
  split
  · simp only [List.append_assoc]; exact List.prefix_append _ _
  · exact List.prefix_rfl

theorem f1_prefix_f2 : f1 img cfg <+: f2 img cfg := List.prefix_append _ _

theorem f2_prefix_f3 : f2 img cfg <+: f3 img cfg := by
  unfold f3; split
  · exact List.prefix_append _ _
  · exact List.prefix_rfl

theorem f3_prefix_f4 : f3 img cfg <+: f4 img cfg := by
  unfold f4; split
  · simp only [List.append_assoc]; exact List.prefix_append _ _
  · exact List.prefix_rfl

theorem f4_prefix_f5 : f4 img cfg <+: f5 img cfg := List.prefix_append _ _
theorem f5_prefix_f6 : f5 img cfg <+: f6 img cfg := alignTo_prefix _ _
theorem f6_prefix_f7 : f6 img cfg <+: f7 img syms cfg := List.prefix_append _ _
theorem f7_prefix_f8 : f7 img syms cfg <+: f8 img syms cfg := alignTo_prefix _ _
theorem f8_prefix_f9 : f8 img syms cfg <+: f9 img syms cfg := List.prefix_append _ _
theorem f9_prefix_f10 : f9 img syms cfg <+: f10 img syms cfg := List.prefix_append _ _
theorem f10_prefix_f11 : f10 img syms cfg <+: f11 img syms cfg := alignTo_prefix _ _
theorem f11_prefix_body : f11 img syms cfg <+: body img syms cfg := List.prefix_append _ _

theorem f10_prefix_body : f10 img syms cfg <+: body img syms cfg :=
  (f10_prefix_f11 img syms cfg).trans (f11_prefix_body img syms cfg)
theorem f9_prefix_body : f9 img syms cfg <+: body img syms cfg :=
  (f9_prefix_f10 img syms cfg).trans (f10_prefix_body img syms cfg)
theorem f7_prefix_body : f7 img syms cfg <+: body img syms cfg :=
  ((f7_prefix_f8 img syms cfg).trans (f8_prefix_f9 img syms cfg)).trans (f9_prefix_body img syms cfg)
theorem f5_prefix_body : f5 img cfg <+: body img syms cfg :=
  ((f5_prefix_f6 img cfg).trans (f6_prefix_f7 img syms cfg)).trans (f7_prefix_body img syms cfg)
theorem f4_prefix_body : f4 img cfg <+: body img syms cfg :=
  (f4_prefix_f5 img cfg).trans (f5_prefix_body img syms cfg)
theorem f2_prefix_body : f2 img cfg <+: body img syms cfg :=
  ((f2_prefix_f3 img cfg).trans (f3_prefix_f4 img cfg)).trans (f4_prefix_body img syms cfg)
theorem f1_prefix_body : f1 img cfg <+: body img syms cfg :=
  (f1_prefix_f2 img cfg).trans (f2_prefix_body img syms cfg)
theorem f0_prefix_body : f0 img cfg <+: body img syms cfg :=
  (f0_prefix_f1 img cfg).trans (f1_prefix_body img syms cfg)

/-- the final header: e_shoff, e_shnum, e_shstrndx as patched -/
def ehdrFinal : List Byte :=
  ehdr img.bigEndian (hdrOf cfg) (eEntry img) (phoff img cfg) (phentsize img cfg) (phnum img)
    (shoff img syms cfg) (shnum cfg) 2

/-- the patch turns the preliminary header into the final one and touches nothing else -/
theorem write_eq (tail : List Byte) (hb : body img syms cfg = f0 img cfg ++ tail) :
    ElfImpl.write img syms cfg = ehdrFinal img syms cfg ++ tail := by
  unfold ElfImpl.write
  simp only [hb, shoffOffset, shnumOffset]
  unfold f0 ehdr ehdrFinal ehdr
  generalize ehdrPre img.bigEndian (hdrOf cfg) (eEntry img) (phoff img cfg) = P
  generalize ehdrMid img.bigEndian (hdrOf cfg) (phentsize img cfg) (phnum img) = M
  have hz : (wAddr img.bigEndian ((hdrOf cfg).cls == 1) 0).length =
      (wAddr img.bigEndian (is32 cfg) (shoff img syms cfg)).length := by
    by_cases h : (hdrOf cfg).cls = 1 <;> simp [wAddr, is32, wInt_length, h]
  have e1 : P ++ wAddr img.bigEndian ((hdrOf cfg).cls == 1) 0 ++ M ++ wInt img.bigEndian 2 (shnum0 cfg) ++
        wInt img.bigEndian 2 2 ++ tail =
      P ++ wAddr img.bigEndian ((hdrOf cfg).cls == 1) 0 ++ (M ++ wInt img.bigEndian 2 (shnum0 cfg) ++
        wInt img.bigEndian 2 2 ++ tail) := by simp only [List.append_assoc]
  rw [e1, overwrite_mid _ _ _ _ hz]
  have e2 : P ++ wAddr img.bigEndian (is32 cfg) (shoff img syms cfg) ++ (M ++ wInt img.bigEndian 2 (shnum0 cfg) ++
        wInt img.bigEndian 2 2 ++ tail) =
      (P ++ wAddr img.bigEndian (is32 cfg) (shoff img syms cfg) ++ M) ++ (wInt img.bigEndian 2 (shnum0 cfg) ++
        wInt img.bigEndian 2 2) ++ tail := by simp only [List.append_assoc]
  have e3 : (P ++ wAddr img.bigEndian (is32 cfg) 0 ++ M).length =
      (P ++ wAddr img.bigEndian (is32 cfg) (shoff img syms cfg) ++ M).length := by
    by_cases h : is32 cfg = true <;> simp [wAddr, wInt_length, h]
  rw [e2, e3, overwrite_mid _ _ _ _ (by simp [wInt_length])]
  simp only [List.append_assoc, is32]

end

end NakenVerif.FileIO.ElfProofs
