import NakenVerif.FileIO.HexImpl
import NakenVerif.FileIO.HexSpec
import NakenVerif.FileIO.ProofsCommon
import NakenVerif.FileIO.ProofsChunk
namespace NakenVerif.FileIO
open SpecText

namespace HexImpl

theorem cksum_fin : ∀ x : Fin 256, (x.val + (((x.val ^^^ 255) + 1) &&& 255)) % 256 = 0 ∧
    (((x.val ^^^ 255) + 1) &&& 255) < 256 := by decide +kernel

theorem cksum_eq (c : Nat) : cksum c = (((c % 256) ^^^ 255) + 1) &&& 255 := by
  unfold cksum
  have := Nat.and_two_pow_sub_one_eq_mod c 8
  simp only [show (2:Nat) ^ 8 - 1 = 0xff from rfl, show (2:Nat)^8 = 256 from rfl] at this
  rw [this]

/-- the record checksum makes the byte sum 0 modulo 256 (two's complement checksum) -/
theorem cksum_sum (c : Nat) : (c + cksum c) % 256 = 0 := by
  have h := (cksum_fin ⟨c % 256, Nat.mod_lt _ (by decide)⟩).1
  rw [cksum_eq]
  simp only at h
  omega

theorem cksum_lt (c : Nat) : cksum c < 256 := by
  have h := (cksum_fin ⟨c % 256, Nat.mod_lt _ (by decide)⟩).2
  rw [cksum_eq]
  exact h

end HexImpl

namespace HexSpec
open HexImpl

/-- a record as the specification describes it: `:LLAAAATT<data>CC` -/
def recLine (ty off : Nat) (data : List Nat) : List Char :=
  ':' :: hexBytesU (data.length :: off / 256 :: off % 256 :: ty ::
      (data ++ [cksum (data.length + off / 256 + off % 256 + ty + data.sum)]))

/-- **per-record round trip** (`write_hex_line` then the specification's record parser), for
every type, offset, length < 256 and data: the record parses, its checksum and length are valid -/
theorem parseRecord_recLine (ty off : Nat) (data : List Nat) (hty : ty < 256) (hoff : off < 65536)
    (hlen : data.length < 256) (hd : ∀ x ∈ data, x < 256) :
    parseRecord (recLine ty off data) = some ⟨data.length, off, ty, data⟩ := by
  have hck := cksum_lt (data.length + off / 256 + off % 256 + ty + data.sum)
  have hsum := cksum_sum (data.length + off / 256 + off % 256 + ty + data.sum)
  have hall : ∀ b ∈ data.length :: off / 256 :: off % 256 :: ty ::
      (data ++ [cksum (data.length + off / 256 + off % 256 + ty + data.sum)]), b < 256 := by
    intro b hb
    simp only [List.mem_cons, List.mem_append, List.mem_singleton, List.not_mem_nil, or_false] at hb
    rcases hb with h | h | h | h | h | h
    · omega
    · omega
    · omega
    · omega
    · exact hd b h
    · omega
  have hp := parseBytes_hexU _ hall [] [] rfl
  simp only [List.append_nil] at hp
  unfold parseRecord recLine
  simp only [hp]
  have hl : (data ++ [cksum (data.length + off / 256 + off % 256 + ty + data.sum)]).length = data.length + 1 := by
    simp
  have hs : (data.length + off / 256 + off % 256 + ty +
      (data ++ [cksum (data.length + off / 256 + off % 256 + ty + data.sum)]).sum) % 256 = 0 := by
    rw [List.sum_append]
    simp only [List.sum_cons, List.sum_nil, Nat.add_zero]
    omega
  simp only [hl, hs, and_self, if_true, List.dropLast_concat]
  congr 2
  omega

theorem nl_not_mem_recLine (ty off : Nat) (data : List Nat) : '\n' ∉ recLine ty off data := by
  unfold recLine
  simp only [List.mem_cons, not_or]
  exact ⟨by decide, nl_not_mem_hexBytesU _⟩

end HexSpec

namespace HexImpl
open HexSpec

theorem dataText_eq (d : List Byte) :
    d.flatMap (fun b => fmtX 2 b.toNat) = hexBytesU (d.map (·.toNat)) := by
  unfold hexBytesU
  rw [List.flatMap_map]
  congr 1
  funext b
  exact fmtX_of_lt (by have := UInt8.toNat_lt b; omega)

theorem hexBytesU_cons (b : Nat) (bs : List Nat) : hexBytesU (b :: bs) = hexN hexDigitU 2 b ++ hexBytesU bs := by
  simp [hexBytesU]

theorem hexBytesU_append (xs ys : List Nat) : hexBytesU (xs ++ ys) = hexBytesU xs ++ hexBytesU ys := by
  simp [hexBytesU]

/-- the data record written by `write_hex_line` is the specification's record of type 00 -/
theorem dataLine_eq (a : Nat) (d : List Byte) (ha : a < 65536) (hl : d.length < 256) :
    (':' :: fmtX 2 d.length ++ fmtX 4 a ++ "00".toList ++ d.flatMap (fun b => fmtX 2 b.toNat) ++
      fmtX 2 (cksum (d.length + a / 256 + a % 256 + sumBytes d)) ++ ['\n'])
    = recLine 0 a (d.map (·.toNat)) ++ ['\n'] := by
  have hck := cksum_lt (d.length + a / 256 + a % 256 + sumBytes d)
  rw [fmtX_of_lt (show d.length < 16 ^ 2 by omega), fmtX_of_lt (show a < 16 ^ 4 by omega),
    fmtX_of_lt (show cksum (d.length + a / 256 + a % 256 + sumBytes d) < 16 ^ 2 by omega), dataText_eq, hexN4]
  unfold recLine
  simp only [hexBytesU_cons, hexBytesU_append, List.length_map, hexN2_mod, sumBytes, Nat.add_zero]
  have h00 : "00".toList = hexN hexDigitU 2 0 := by decide
  rw [h00]
  simp [hexBytesU]

/-- the extended linear address record written by `write_hex_line` is the specification's record of type 04 -/
theorem extLine_eq (hi : Nat) (hh : hi < 2 ^ 32) :
    (":02000004".toList ++ fmtX 4 (hi / 65536 % 65536) ++
      fmtX 2 (cksum (4 + (hi / 16777216 % 256) + (hi / 65536 % 256) + 2)) ++ ['\n'])
    = recLine 4 0 [hi / 16777216 % 256, hi / 65536 % 256] ++ ['\n'] := by
  have hck := cksum_lt (4 + (hi / 16777216 % 256) + (hi / 65536 % 256) + 2)
  rw [fmtX_of_lt (show hi / 65536 % 65536 < 16 ^ 4 by omega),
    fmtX_of_lt (show cksum (4 + (hi / 16777216 % 256) + (hi / 65536 % 256) + 2) < 16 ^ 2 by omega), hexN4]
  unfold recLine
  have hpre : ":02000004".toList = ':' :: hexBytesU [2, 0, 0, 4] := by decide
  have e1 : hi / 65536 % 65536 / 256 = hi / 16777216 % 256 := by omega
  have e2 : hexN hexDigitU 2 (hi / 65536 % 65536) = hexN hexDigitU 2 (hi / 65536 % 256) := by
    rw [← hexN2_mod, ← hexN2_mod hexDigitU (hi / 65536 % 256)]
    congr 1
    omega
  rw [hpre, e1, e2]
  have e3 : 4 + hi / 16777216 % 256 + hi / 65536 % 256 + 2 =
      [hi / 16777216 % 256, hi / 65536 % 256].length + 0 / 256 + 0 % 256 + 4 +
        [hi / 16777216 % 256, hi / 65536 % 256].sum := by
    simp only [List.length_cons, List.length_nil, List.sum_cons, List.sum_nil]
    omega
  rw [e3]
  simp [hexBytesU]

end HexImpl
end NakenVerif.FileIO

namespace NakenVerif.FileIO
open SpecText

namespace HexSpec
open HexImpl

theorem dataCells_eq (base off : Nat) (lin : Bool) (d : List Byte) (i : Nat)
    (h1 : off + i + d.length ≤ 65536) (h2 : base + off + i + d.length ≤ 2 ^ 32) :
    dataCells base lin off i (d.map (·.toNat)) = cellsAt (base + off + i) d := by
  induction d generalizing i with
  | nil => simp [dataCells]
  | cons b bs ih =>
    simp only [List.length_cons] at h1 h2
    simp only [List.map_cons, dataCells, cellsAt, UInt8.ofNat_toNat]
    have e1 : (base + off + i) % 2 ^ 32 = base + off + i := Nat.mod_eq_of_lt (by omega)
    have e2 : base + (off + i) % 65536 = base + off + i := by
      rw [Nat.mod_eq_of_lt (by omega)]; omega
    have ih' := ih (i + 1) (by omega) (by omega)
    rw [ih', show base + off + (i + 1) = base + off + i + 1 by omega]
    cases lin <;> simp [e1, e2]

/-- one data record in front of the rest of the file -/
theorem decode_data_step (a : Nat) (d : List Byte) (X : List Char) (seg : Nat) (lin : Bool)
    (hg : Good (2 ^ 32) (a, d)) (hseg : seg = a / 65536 * 65536) :
    decodeLines (lines (recLine 0 (a % 65536) (d.map (·.toNat)) ++ '\n' :: X)) seg lin =
      match decodeLines (lines X) seg lin with
      | some cs => some (cellsAt a d ++ cs)
      | none => none := by
  obtain ⟨h0, h16, hpage, hbound⟩ := hg
  simp only at h0 h16 hpage hbound
  rw [lines_append_line _ _ (nl_not_mem_recLine _ _ _)]
  have hp := parseRecord_recLine 0 (a % 65536) (d.map (·.toNat)) (by omega) (by omega)
    (by simp; omega) (by
      intro x hx
      simp only [List.mem_map] at hx
      obtain ⟨b, _, rfl⟩ := hx
      have := UInt8.toNat_lt b; omega)
  rw [decodeLines, hp]
  simp only [if_true]
  have hc := dataCells_eq seg (a % 65536) lin d 0 (by omega) (by omega)
  rw [hc, show seg + a % 65536 + 0 = a by omega]
  rfl

theorem eof_line : ":00000001FF\n".toList = recLine 1 0 [] ++ ['\n'] := by decide

theorem decode_eof (seg : Nat) (lin : Bool) :
    decodeLines (lines ":00000001FF\n".toList) seg lin = some [] := by
  rw [eof_line, lines_append_line _ _ (nl_not_mem_recLine _ _ _)]
  have hp := parseRecord_recLine 1 0 [] (by omega) (by omega) (by simp) (by simp)
  simp [decodeLines, hp, lines]

/-- the writer's record sequence followed by the EOF record decodes to exactly the carried cells,
from every writer state `segment` (a multiple of 64 Ki) matched by the decoder's base address -/
theorem decode_render : ∀ (recs : List (Nat × List Byte)), (∀ r ∈ recs, Good (2 ^ 32) r) →
    ∀ (seg : Nat) (lin : Bool),
    decodeLines (lines (renderLines seg recs ++ ":00000001FF\n".toList)) seg lin = some (flat recs) := by
  intro recs
  induction recs with
  | nil =>
    intro _ seg lin
    simp only [renderLines, List.nil_append, flat_nil]
    exact decode_eof seg lin
  | cons r rest ih =>
    intro hg seg lin
    obtain ⟨a, d⟩ := r
    have hgr : Good (2 ^ 32) (a, d) := hg (a, d) (by simp)
    have hgrest : ∀ r ∈ rest, Good (2 ^ 32) r := fun r hr => hg r (by simp [hr])
    have hb : a < 2 ^ 32 := by
      obtain ⟨h0, _, _, hbound⟩ := hgr
      simp only at h0 hbound; omega
    simp only [renderLines, flat_cons]
    by_cases hs : a / 65536 * 65536 = seg
    · -- no extended linear address record
      have hw : writeLine seg a d = ((recLine 0 (a % 65536) (d.map (·.toNat)) ++ ['\n']), seg) := by
        unfold writeLine
        simp only [hs, ne_eq, not_true_eq_false, if_false, List.nil_append]
        rw [dataLine_eq (a % 65536) d (by omega) (by obtain ⟨_, h16, _, _⟩ := hgr; simp only at h16; omega)]
      rw [hw]
      simp only [List.append_assoc, List.singleton_append, List.cons_append, List.nil_append]
      rw [decode_data_step a d _ seg lin hgr hs.symm, ih hgrest seg lin]
    · have hw : writeLine seg a d =
          ((recLine 4 0 [a / 65536 * 65536 / 16777216 % 256, a / 65536 * 65536 / 65536 % 256] ++ ['\n']) ++
           (recLine 0 (a % 65536) (d.map (·.toNat)) ++ ['\n']), a / 65536 * 65536) := by
        unfold writeLine
        simp only [hs, ne_eq, not_false_eq_true, if_true]
        rw [dataLine_eq (a % 65536) d (by omega) (by obtain ⟨_, h16, _, _⟩ := hgr; simp only at h16; omega),
          extLine_eq (a / 65536 * 65536) (by omega)]
      rw [hw]
      simp only [List.append_assoc, List.singleton_append, List.cons_append, List.nil_append]
      rw [lines_append_line _ _ (nl_not_mem_recLine _ _ _)]
      have hp := parseRecord_recLine 4 0 [a / 65536 * 65536 / 16777216 % 256, a / 65536 * 65536 / 65536 % 256]
        (by omega) (by omega) (by simp) (by
          intro x hx
          simp only [List.mem_cons, List.not_mem_nil, or_false] at hx
          rcases hx with h | h <;> omega)
      rw [decodeLines, hp]
      simp only [show ¬ ((4 : Nat) = 0) by decide, show ¬ ((4 : Nat) = 1) by decide,
        show ¬ ((4 : Nat) = 2) by decide, if_false, if_true, List.length_cons, List.length_nil, be16, and_self]
      have hbase : 65536 * (a / 65536 * 65536 / 16777216 % 256 * 256 + a / 65536 * 65536 / 65536 % 256) =
          a / 65536 * 65536 := by omega
      rw [hbase, decode_data_step a d _ (a / 65536 * 65536) true hgr rfl, ih hgrest _ true]

end HexSpec
end NakenVerif.FileIO
