import NakenVerif.FileIO.ProofsChunk
/- Facts shared by the loader round-trip proofs: how low/high recomputed from the cells of a file
relate to the image's low/high. -/

namespace NakenVerif.FileIO

/-! ### running minimum / maximum of the addresses of a cell list (how the loaders find low / high) -/

def minf (m : Nat) (p : Nat × Byte) : Nat := if p.1 < m then p.1 else m
def maxf (m : Nat) (p : Nat × Byte) : Nat := if p.1 > m then p.1 else m

theorem foldl_minf_spec (l : List (Nat × Byte)) (m : Nat) :
    l.foldl minf m ≤ m ∧ (∀ p ∈ l, l.foldl minf m ≤ p.1) ∧
    (l.foldl minf m = m ∨ ∃ p ∈ l, l.foldl minf m = p.1) := by
  induction l generalizing m with
  | nil => simp
  | cons q l ih =>
    obtain ⟨h1, h2, h3⟩ := ih (minf m q)
    simp only [List.foldl_cons]
    have hq : minf m q ≤ m ∧ minf m q ≤ q.1 ∧ (minf m q = m ∨ minf m q = q.1) := by
      unfold minf; split <;> omega
    refine ⟨by omega, ?_, ?_⟩
    · intro p hp
      simp only [List.mem_cons] at hp
      rcases hp with rfl | hp
      · omega
      · exact h2 p hp
    · rcases h3 with h3 | ⟨p, hp, h3⟩
      · rcases hq.2.2 with e | e
        · left; omega
        · right; exact ⟨q, by simp, by omega⟩
      · right; exact ⟨p, by simp [hp], h3⟩

theorem foldl_maxf_spec (l : List (Nat × Byte)) (m : Nat) :
    m ≤ l.foldl maxf m ∧ (∀ p ∈ l, p.1 ≤ l.foldl maxf m) ∧
    (l.foldl maxf m = m ∨ ∃ p ∈ l, l.foldl maxf m = p.1) := by
  induction l generalizing m with
  | nil => simp
  | cons q l ih =>
    obtain ⟨h1, h2, h3⟩ := ih (maxf m q)
    simp only [List.foldl_cons]
    have hq : m ≤ maxf m q ∧ q.1 ≤ maxf m q ∧ (maxf m q = m ∨ maxf m q = q.1) := by
      unfold maxf; split <;> omega
    refine ⟨by omega, ?_, ?_⟩
    · intro p hp
      simp only [List.mem_cons] at hp
      rcases hp with rfl | hp
      · omega
      · exact h2 p hp
    · rcases h3 with h3 | ⟨p, hp, h3⟩
      · rcases hq.2.2 with e | e
        · left; omega
        · right; exact ⟨q, by simp, by omega⟩
      · right; exact ⟨p, by simp [hp], h3⟩

theorem cellsFrom_bounds (n : Nat) (cs : List (Option Byte)) :
    ∀ p ∈ cellsFrom n cs, n ≤ p.1 ∧ p.1 < n + cs.length := by
  induction cs generalizing n with
  | nil => simp [cellsFrom]
  | cons c cs ih =>
    intro p hp
    cases c with
    | none =>
      simp only [cellsFrom] at hp
      have := ih (n + 1) p hp
      simp only [List.length_cons]; omega
    | some b =>
      simp only [cellsFrom, List.mem_cons] at hp
      rcases hp with rfl | hp
      · simp
      · have := ih (n + 1) p hp
        simp only [List.length_cons]; omega

theorem cellsFrom_last (n : Nat) (cs : List (Option Byte)) (b : Byte) (h : cs.getLast? = some (some b)) :
    (n + cs.length - 1, b) ∈ cellsFrom n cs := by
  induction cs generalizing n with
  | nil => simp at h
  | cons c cs ih =>
    cases cs with
    | nil =>
      simp only [List.getLast?_singleton, Option.some.injEq] at h
      subst h
      simp [cellsFrom]
    | cons c2 cs2 =>
      have h' : (c2 :: cs2).getLast? = some (some b) := by simpa [List.getLast?_cons_cons] using h
      have := ih (n + 1) h'
      have e : n + 1 + (c2 :: cs2).length - 1 = n + (c :: c2 :: cs2).length - 1 := by
        simp only [List.length_cons]; omega
      rw [e] at this
      have e2 : n + (c :: c2 :: cs2).length - 1 = n + (cs2.length + 1) := by
        simp only [List.length_cons]; omega
      rw [e2] at this
      cases c
      · simp only [cellsFrom, List.length_cons]; rw [show n + (cs2.length + 1 + 1) - 1 = n + (cs2.length + 1) by omega]; exact this
      · simp only [cellsFrom, List.length_cons, List.mem_cons]; rw [show n + (cs2.length + 1 + 1) - 1 = n + (cs2.length + 1) by omega]; exact Or.inr this

/-- low / high as a loader recomputes them from the cells of a tight image -/
theorem tight_min_max (img : Image) (ht : img.Tight) (m : Nat) (hm : img.low < m) (M : Nat) (hM : M ≤ img.high) :
    img.writtenCells.foldl minf m = img.low ∧ img.writtenCells.foldl maxf M = img.high := by
  obtain ⟨⟨b, cs, hcs⟩, ⟨b', hlast⟩⟩ := ht
  have hb := cellsFrom_bounds img.low img.cells
  have hfirst : (img.low, b) ∈ img.writtenCells := by
    unfold Image.writtenCells; rw [hcs]; simp [cellsFrom]
  have hl : (img.high, b') ∈ img.writtenCells := by
    unfold Image.writtenCells Image.high; exact cellsFrom_last _ _ _ hlast
  have hpos : 0 < img.cells.length := by rw [hcs]; simp
  constructor
  · obtain ⟨h1, h2, h3⟩ := foldl_minf_spec img.writtenCells m
    have := h2 _ hfirst
    rcases h3 with h3 | ⟨p, hp, h3⟩
    · simp only at this; omega
    · have := (hb p hp).1
      simp only at *; omega
  · obtain ⟨h1, h2, h3⟩ := foldl_maxf_spec img.writtenCells M
    have := h2 _ hl
    rcases h3 with h3 | ⟨p, hp, h3⟩
    · simp only at this; omega
    · have := (hb p hp).2
      unfold Image.high at *
      simp only at *; omega

end NakenVerif.FileIO
