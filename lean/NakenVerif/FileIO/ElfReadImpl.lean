import NakenVerif.FileIO.Image
import NakenVerif.Generated.CpuTypes
/-
Transcription of /repo/fileio/read_elf.cpp (with FileIo::get_int*, set, get_string_at_offset).

The FILE position is modelled by the bytes that remain from it (`rest`): `file.set(off)` makes it `file.drop off`
(an offset that is negative as a `long` makes fseek fail and leaves the position alone), `getc` pops one byte or
yields EOF (-1) at the end.  `file.tell()` / `file.set(marker)` pairs are not modelled: every loop iteration starts
with an absolute `file.set`.
-/
namespace NakenVerif.FileIO.ElfReadImpl
open NakenVerif.FileIO NakenVerif.Generated

/-- `getc` as a W-bit two's complement pattern: EOF (-1) is all ones -/
def cval (mod : Nat) : Option Byte → Nat
  | some b => b.toNat
  | none => mod - 1

def getc (rest : List Byte) : Option Byte × List Byte :=
  match rest with
  | [] => (none, [])
  | b :: r => (some b, r)

/-- `i = c0 << s0; i |= c1 << s1; ...` in W-bit arithmetic (`mod` = 2^W), bytes in file order with their shifts -/
def orBytes (mod : Nat) : List Nat → Nat → List Byte → Nat × List Byte
  | [], acc, rest => (acc, rest)
  | s :: ss, acc, rest =>
    let (c, r) := getc rest
    orBytes mod ss (acc ||| (cval mod c * 2 ^ s % mod)) r

/-- `get_int16()` / `get_int32()`: the result type is `uint32_t` (so `get_int16` at EOF is 0xffffffff) -/
def getInt16 (big : Bool) (rest : List Byte) : Nat × List Byte :=
  orBytes 4294967296 (if big then [8, 0] else [0, 8]) 0 rest
def getInt32 (big : Bool) (rest : List Byte) : Nat × List Byte :=
  orBytes 4294967296 (if big then [24, 16, 8, 0] else [0, 8, 16, 24]) 0 rest
/-- `get_int64()`: `get_int64_be` accumulates in a `uint32_t i` (the upper half is lost), `get_int64_le` in 64 bits -/
def getInt64 (big : Bool) (rest : List Byte) : Nat × List Byte :=
  let (v, r) := orBytes 18446744073709551616 (if big then [56, 48, 40, 32, 24, 16, 8, 0] else [0, 8, 16, 24, 32, 40, 48, 56]) 0 rest
  (if big then v % 4294967296 else v, r)

/-- `uint32_t` → `int` -/
def toInt32 (v : Nat) : Int := if v % 4294967296 < 2147483648 then (v % 4294967296 : Nat) else (v % 4294967296 : Nat) - 4294967296
/-- `int` / `long` → `uint64_t` -/
def toU64 (x : Int) : Nat := (x % 18446744073709551616).toNat

/-- `file.set(offset)`: `fseek(fp, (long)offset, SEEK_SET)`; fails for a negative offset -/
def seek (file : List Byte) (off : Nat) (rest : List Byte) : List Byte :=
  if off % 18446744073709551616 < 9223372036854775808 then file.drop (off % 18446744073709551616) else rest

/-- the characters `get_string_at_offset` stores: up to `cap - 1`, stopping at a NUL; EOF is stored as 0xff -/
def strLoop : Nat → List Byte → List Byte
  | 0, _ => []
  | n + 1, [] => 0xff :: strLoop n []
  | n + 1, b :: r => if b = 0 then [] else b :: strLoop n r

/-- `file.get_string_at_offset(name, sizeof(name), offset)` with `char name[256]` -/
def getString (file : List Byte) (off : Nat) (rest : List Byte) : List Byte := strLoop 255 (seek file off rest)

structure ShdrR where
  name : Nat
  type : Nat
  flags : Nat
  addr : Nat
  offset : Nat
  size : Nat
  deriving Repr

/-- `read_shdr_32` / `read_shdr_64` -/
def readShdr (big is32 : Bool) (rest : List Byte) : ShdrR × List Byte :=
  let (name, r1) := getInt32 big rest
  let (type, r2) := getInt32 big r1
  if is32 then
    let (flags, r3) := getInt32 big r2
    let (addr, r4) := getInt32 big r3
    let (offset, r5) := getInt32 big r4
    let (size, r6) := getInt32 big r5
    ({ name, type, flags, addr, offset, size }, r6)
  else
    let (flags, r3) := getInt64 big r2
    let (addr, r4) := getInt64 big r3
    let (offset, r5) := getInt64 big r4
    let (size, r6) := getInt64 big r5
    ({ name, type, flags, addr, offset, size }, r6)

/-- `switch (e_machine)` of read_elf: the CPU type, or none for `default:` -/
def machineCpu (m : Nat) : Option Nat :=
  if m = 4 then some CpuType.m68000 else if m = 8 ∨ m = 10 then some CpuType.mips32
  else if m = 20 then some CpuType.powerpc else if m = 23 then some CpuType.cell
  else if m = 40 then some CpuType.arm else if m = 71 then some CpuType.m68hc08
  else if m = 83 then some CpuType.avr8 else if m = 94 then some CpuType.xtensa
  else if m = 105 then some CpuType.msp430 else if m = 118 then some CpuType.dspic
  else if m = 165 then some CpuType.i8051 else if m = 186 then some CpuType.stm8
  else if m = 220 then some CpuType.z80 else if m = 243 then some CpuType.riscv
  else if m = 247 then some CpuType.ebpf else if m = 0x1223 then some CpuType.epiphany
  else none

structure Loaded where
  ret : Int
  /-- `memory->write8(address, byte)` calls in order -/
  writes : List (Nat × Byte) := []
  low : Nat := 0xffffffff
  high : Nat := 0
  /-- `memory->endian` as read_elf leaves it -/
  big : Bool := false
  cpuType : Nat := 0
  /-- `symbols->append(name, value)` calls in order -/
  syms : List (List Byte × Nat) := []
  deriving Repr

/-- the bytes `for (i = 0; i < sh_size; i++) { ch = file.get_int8(); if (ch == EOF) break; memory->write8(sh_addr + i, ch); }`
stores: the file's bytes from the offset on, at most `sh_size`, ending where the file ends (fix eaf99e9) -/
def loadBytes (src : List Byte) (size : Nat) : List Byte := src.take size

def writesAt (addr : Nat) : Nat → List Byte → List (Nat × Byte)
  | _, [] => []
  | i, b :: bs => ((addr + i) % 4294967296, b) :: writesAt addr (i + 1) bs

/-- the first loop: the file offset of the section called ".strtab" (0 if there is none) -/
def findStrtab (file : List Byte) (big is32 : Bool) (shoff : Nat) (shentsize : Int) (stroffset : Nat) :
    Nat → Int → List Byte → Nat × List Byte
  | 0, _, rest => (0, rest)
  | fuel + 1, n, rest =>
    let rest1 := seek file (shoff + toU64 (n * shentsize)) rest
    let (sh, rest2) := readShdr big is32 rest1
    if sh.type = 3 ∧ getString file (stroffset + sh.name) rest2 = [46, 115, 116, 114, 116, 97, 98] then (sh.offset, rest2)
    else findStrtab file big is32 shoff shentsize stroffset fuel (n + 1) rest2

/-- one `.symtab` entry -/
def readSym (big is32 : Bool) (rest : List Byte) : (Nat × Nat × Nat) × List Byte :=
  if is32 then
    let (name, r1) := getInt32 big rest
    let (value, r2) := getInt32 big r1
    let (_, r3) := getInt32 big r2
    let (info, r4) := getc r3
    let (_, r5) := getc r4
    let (_, r6) := getInt16 big r5
    ((name, value, cval 256 info), r6)
  else
    let (name, r1) := getInt32 big rest
    let (info, r2) := getc r1
    let (_, r3) := getc r2
    let (_, r4) := getInt16 big r3
    let (value, r5) := getInt64 big r4
    let (_, r6) := getInt64 big r5
    ((name, value, cval 256 info), r6)

/-- `for (i = 0; i < sh_size; i += sym_size) { if ((uint64_t)file.tell() + sym_size > file_length) break; ... }`:
at most `count` = ⌈sh_size / sym_size⌉ iterations (a `uint32_t i` that wraps, or a 64-bit sh_size, only matters after more
iterations than a file below 2 GiB has symbols), ending at the last complete entry of the file.  The position is
`file_length - rest.length`, so the test is `rest.length < sym_size`. -/
def symLoop (file : List Byte) (big is32 : Bool) (strtabOff : Nat) :
    Nat → List Byte → List (List Byte × Nat) → List (List Byte × Nat) × List Byte
  | 0, rest, acc => (acc.reverse, rest)
  | count + 1, rest, acc =>
    if rest.length < (if is32 then 16 else 24) then (acc.reverse, rest) else
    let ((name, value, info), rest1) := readSym big is32 rest
    let s := getString file (strtabOff + name) rest1
    -- STT_NOTYPE, STT_SECTION, STT_FILE are skipped (the whole st_info byte is compared)
    let acc1 := if info ≠ 0 ∧ info ≠ 3 ∧ info ≠ 4 then (s, value % 4294967296) :: acc else acc
    symLoop file big is32 strtabOff count rest1 acc1

structure St where
  start : Nat := 0xffffffff
  stop : Nat := 0xffffffff
  writes : List (Nat × Byte) := []
  syms : List (List Byte × Nat) := []

/-- the second loop over the section headers -/
def sectionLoop (file : List Byte) (big is32 : Bool) (shoff : Nat) (shentsize : Int) (stroffset strtabOff : Nat) :
    Nat → Int → List Byte → St → St
  | 0, _, _, st => st
  | fuel + 1, n, rest, st =>
    let rest1 := seek file (shoff + toU64 (n * shentsize)) rest
    let (sh, rest2) := readShdr big is32 rest1
    let name := getString file (stroffset + sh.name) rest2
    let isText := sh.flags / 4 % 2 = 1
    if isText ∨ name.take 5 = [46, 100, 97, 116, 97] ∨ name = [46, 118, 101, 99, 116, 111, 114, 115] then
      let u64 := 18446744073709551616
      let (start, stop) :=
        if isText then
          (if st.start = 0xffffffff then sh.addr % 4294967296
           else if st.start > sh.addr then sh.addr % 4294967296 else st.start,
           if st.stop = 0xffffffff then (sh.addr + sh.size + u64 - 1) % u64 % 4294967296
           else if st.stop < (sh.addr + sh.size) % u64 then (sh.addr + sh.size + u64 - 1) % u64 % 4294967296 else st.stop)
        else (st.start, st.stop)
      let src := seek file sh.offset rest2
      let w := writesAt sh.addr 0 (loadBytes src sh.size)
      sectionLoop file big is32 shoff shentsize stroffset strtabOff fuel (n + 1) rest2
        { st with start := start, stop := stop, writes := st.writes ++ w }
    else if sh.type = 2 then
      let symSize := if is32 then 16 else 24
      let src := seek file sh.offset rest2
      let (ys, _) := symLoop file big is32 strtabOff ((sh.size + symSize - 1) / symSize) src []
      sectionLoop file big is32 shoff shentsize stroffset strtabOff fuel (n + 1) rest2 { st with syms := st.syms ++ ys }
    else sectionLoop file big is32 shoff shentsize stroffset strtabOff fuel (n + 1) rest2 st

/-- what `read_elf` has read when it reaches the section header string table: the ELF header fields it keeps -/
structure HdrR where
  is32 : Bool
  big : Bool
  cpu : Nat
  shoff : Nat
  shentsize : Int
  shnum : Int
  shstrndx : Int
  /-- the FILE position after e_shstrndx -/
  rest : List Byte

/-- the first part of `read_elf`: e_ident and the header fields; `Except.error` = the early `return` value -/
def readHeader (file : List Byte) : Except Int HdrR :=
  -- file.get_bytes(e_ident, 16): a short file leaves zeros
  let ident := file.take 16 ++ List.replicate (16 - (file.take 16).length) 0
  let rest0 := file.drop 16
  if ident.take 4 ≠ [0x7f, 69, 76, 70] then .error (-2)
  else
    let is32 : Bool := ident.getD 4 0 ≠ 2
    let dat := ident.getD 5 0
    if dat ≠ 1 ∧ dat ≠ 2 then .error (-1)
    else
      let big : Bool := dat = 2
      let (_, r1) := getInt16 big rest0
      let (machine, r2) := getInt16 big r1
      let cpu := (machineCpu machine).getD 0
      let (_, r3) := getInt32 big r2
      let (shoff, r6) : Nat × List Byte :=
        if is32 then
          let (_, r4) := getInt32 big r3
          let (_, r5) := getInt32 big r4
          getInt32 big r5
        else
          let (_, r4) := getInt64 big r3
          let (_, r5) := getInt64 big r4
          getInt64 big r5
      let (_, r7) := getInt32 big r6
      let (_, r8) := getInt16 big r7
      let (_, r9) := getInt16 big r8
      let (_, r10) := getInt16 big r9
      let (shentsizeU, r11) := getInt16 big r10
      let (shnumU, r12) := getInt16 big r11
      let (shstrndxU, r13) := getInt16 big r12
      .ok { is32, big, cpu, shoff, shentsize := toInt32 shentsizeU, shnum := toInt32 shnumU, shstrndx := toInt32 shstrndxU,
            rest := r13 }

/-- the rest of `read_elf`: `.shstrtab`'s offset, the `.strtab` search, the section loop -/
def readBody (file : List Byte) (h : HdrR) : Loaded :=
  let rest14 := seek file (h.shoff + toU64 (h.shstrndx * h.shentsize) + (if h.is32 then 16 else 24)) h.rest
  let (stroffset, r15) := if h.is32 then getInt32 h.big rest14 else getInt64 h.big rest14
  let (strtabOff, r16) := findStrtab file h.big h.is32 h.shoff h.shentsize stroffset h.shnum.toNat 0 r15
  let st := sectionLoop file h.big h.is32 h.shoff h.shentsize stroffset strtabOff h.shnum.toNat 0 r16 {}
  { ret := 0, writes := st.writes, low := st.start, high := st.stop, big := h.big, cpuType := h.cpu, syms := st.syms }

/-- `read_elf(filename, memory, &cpu_type, symbols)` with `*cpu_type` = 0 on entry (what `file_read` passes unless
`allow_unknown_cpu`) -/
def read (file : List Byte) : Loaded :=
  match readHeader file with
  | .error e => { ret := e }
  | .ok h => readBody file h

end NakenVerif.FileIO.ElfReadImpl
