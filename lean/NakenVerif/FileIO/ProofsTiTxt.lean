import NakenVerif.FileIO.TiTxtImpl
import NakenVerif.FileIO.TiTxtSpec
/-
C03 / read_ti_txt: a file written per the TI-TXT description is loaded exactly.
-/
set_option linter.unusedSimpArgs false
namespace NakenVerif.FileIO.TiTxtProofs
open NakenVerif.FileIO TiTxtImpl TiTxtSpec

theorem digit_facts : ∀ d : Fin 16, digit? (hexDigitU d.val) = some d.val ∧ hexDigitU d.val ≠ '\r' ∧ hexDigitU d.val ≠ '\n' ∧
    hexDigitU d.val ≠ ' ' ∧ hexDigitU d.val ≠ '@' ∧ hexDigitU d.val ≠ 'q' := by decide

/-- one hexadecimal digit in the middle of a token -/
theorem token_digit (d : Nat) (hd : d < 16) (s : List Char) (ty : Ty) (value len : Nat) :
    token (hexDigitU d :: s) ty value len = token s ty ((value * 16 + d) % 4294967296) (len + 1) := by
  obtain ⟨h1, h2, h3, h4, h5, h6⟩ := digit_facts ⟨d, hd⟩
  simp only at h1 h2 h3 h4 h5 h6
  simp only [token, h1, h2, h3, h4, h5, h6, or_self, if_false]

/-- `k` hexadecimal digits of `v` -/
theorem token_hexN (k : Nat) : ∀ (v : Nat) (s : List Char) (ty : Ty) (value len : Nat),
    v < 16 ^ k → value * 16 ^ k + v < 4294967296 →
    token (hexN hexDigitU k v ++ s) ty value len = token s ty (value * 16 ^ k + v) (len + k) := by
  induction k with
  | zero => intro v s ty value len hv _; simp at hv; subst hv; simp [hexN]
  | succ k ih =>
    intro v s ty value len hv hb
    have h16 : 16 ^ (k + 1) = 16 ^ k * 16 := Nat.pow_succ 16 k
    have hv' : v / 16 < 16 ^ k := by rw [h16] at hv; omega
    have hmul : value * 16 ^ (k + 1) = value * 16 ^ k * 16 := by rw [h16, Nat.mul_assoc]
    have hb' : value * 16 ^ k + v / 16 < 4294967296 := by rw [hmul] at hb; omega
    simp only [hexN, List.append_assoc, List.singleton_append]
    rw [ih (v / 16) _ ty value len hv' hb', token_digit _ (Nat.mod_lt _ (by omega))]
    have e : ((value * 16 ^ k + v / 16) * 16 + v % 16) % 4294967296 = value * 16 ^ (k + 1) + v := by
      rw [hmul]; rw [hmul] at hb; omega
    rw [e, Nat.add_assoc]

theorem hex2_eq (b : Byte) : hex2 b = hexN hexDigitU 2 b.toNat := by
  have := b.toNat_lt
  simp only [hex2, hexN, List.nil_append, List.cons_append]
  congr 2
  omega

/-- a data byte followed by a blank or a line end -/
theorem token_byte (b : Byte) (sep : Char) (hsep : sep = ' ' ∨ sep = '\n') (s : List Char) :
    token (hex2 b ++ sep :: s) Ty.value 0 0 = (Ty.value, b.toNat, s) := by
  have hb := b.toNat_lt
  rw [hex2_eq, token_hexN 2 b.toNat _ _ 0 0 (by omega) (by omega)]
  rcases hsep with rfl | rfl <;> simp [token]

/-- the line end that may follow the last data byte of a section is skipped -/
theorem token_ws (c : Nat) (s : List Char) (ty : Ty) : token (dataLines [] c ++ s) ty 0 0 = token s ty 0 0 := by
  unfold dataLines
  split <;> simp [token]

/-- `@ADDR` followed by a line end -/
theorem token_addr (w addr : Nat) (hw : addr < 16 ^ w) (ha : addr < 4294967296) (hw0 : 0 < w) (s : List Char) :
    token ('@' :: (hexN hexDigitU w addr ++ '\n' :: s)) Ty.value 0 0 = (Ty.address, addr, s) := by
  have h1 : token ('@' :: (hexN hexDigitU w addr ++ '\n' :: s)) Ty.value 0 0 =
      token (hexN hexDigitU w addr ++ '\n' :: s) Ty.address 0 0 := by simp [token]
  rw [h1, token_hexN w addr _ _ 0 0 hw (by omega)]
  have hw0' : w ≠ 0 := by omega
  simp [token, hw0']

/-- `start` after `n` bytes were stored from `a` on -/
def updLo (st : Nat) : Nat → Nat → Nat
  | _, 0 => st
  | a, n + 1 => updLo (if a < st then a else st) (a + 1) n

/-- `end` after `n` bytes were stored from `a` on -/
def updHi (sp : Nat) : Nat → Nat → Nat
  | _, 0 => sp
  | a, n + 1 => updHi (if a > sp then a else sp) (a + 1) n

theorem loop_data : ∀ (data : List Byte) (col fuel a st sp : Nat) (acc : List (Nat × Byte)) (tl : List Char),
    a + data.length < 4294967296 →
    ∃ col', loop (fuel + data.length) (dataLines data col ++ tl) a st sp acc =
      loop fuel (dataLines [] col' ++ tl) (a + data.length) (updLo st a data.length) (updHi sp a data.length)
        ((cellsAt a data).reverse ++ acc) := by
  intro data
  induction data with
  | nil => intro col fuel a st sp acc tl _; exact ⟨col, by simp [updLo, updHi, cellsAt]⟩
  | cons b bs ih =>
    intro col fuel a st sp acc tl ha
    simp only [List.length_cons] at ha
    have hbyte : UInt8.ofNat (b.toNat % 256) = b := by
      have := b.toNat_lt
      rw [Nat.mod_eq_of_lt (by omega)]; exact UInt8.ofNat_toNat
    have hnext : (a + 1) % 4294967296 = a + 1 := Nat.mod_eq_of_lt (by omega)
    by_cases hc : col + 1 = 16
    · obtain ⟨col', h'⟩ := ih 0 fuel (a + 1) (if a < st then a else st) (if a > sp then a else sp) ((a, b) :: acc) tl (by omega)
      refine ⟨col', ?_⟩
      have e : fuel + (b :: bs).length = (fuel + bs.length) + 1 := by simp; omega
      rw [e]
      simp only [dataLines, hc, if_true, List.append_assoc, List.cons_append, loop]
      rw [token_byte b '\n' (Or.inr rfl)]
      simp only [hbyte, hnext]
      rw [h', show a + 1 + bs.length = a + (bs.length + 1) by omega]
      simp only [List.length_cons, updLo, updHi, cellsAt, List.reverse_cons, List.append_assoc, List.cons_append,
        List.nil_append]
      rfl
    · obtain ⟨col', h'⟩ := ih (col + 1) fuel (a + 1) (if a < st then a else st) (if a > sp then a else sp) ((a, b) :: acc) tl (by omega)
      refine ⟨col', ?_⟩
      have e : fuel + (b :: bs).length = (fuel + bs.length) + 1 := by simp; omega
      rw [e]
      simp only [dataLines, hc, if_false, List.append_assoc, List.cons_append, loop]
      rw [token_byte b ' ' (Or.inl rfl)]
      simp only [hbyte, hnext]
      rw [h', show a + 1 + bs.length = a + (bs.length + 1) by omega]
      simp only [List.length_cons, updLo, updHi, cellsAt, List.reverse_cons, List.append_assoc, List.cons_append,
        List.nil_append]
      rfl

/-- number of tokens of the sections -/
def tokensOf : List (Nat × List Byte) → Nat
  | [] => 0
  | r :: rs => 1 + r.2.length + tokensOf rs

def cellsOf : List (Nat × List Byte) → List (Nat × Byte)
  | [] => []
  | r :: rs => cellsAt r.1 r.2 ++ cellsOf rs

def loOf (st : Nat) : List (Nat × List Byte) → Nat
  | [] => st
  | r :: rs => loOf (updLo st r.1 r.2.length) rs

def hiOf (sp : Nat) : List (Nat × List Byte) → Nat
  | [] => sp
  | r :: rs => hiOf (updHi sp r.1 r.2.length) rs

theorem loop_runs (w : Nat) (hw : 0 < w) : ∀ (runs : List (Nat × List Byte)) (c fuel a st sp : Nat) (acc : List (Nat × Byte)),
    (∀ r ∈ runs, r.1 < 16 ^ w ∧ r.1 + r.2.length < 4294967296) →
    loop (fuel + tokensOf runs + 1) (dataLines [] c ++ (runs.flatMap (fun r => section_ w r.1 r.2) ++ ['q', '\n'])) a st sp acc =
      { ret := 0, writes := acc.reverse ++ cellsOf runs, low := loOf st runs, high := hiOf sp runs } := by
  intro runs
  induction runs with
  | nil =>
    intro c fuel a st sp acc _
    simp only [tokensOf, List.flatMap_nil, List.nil_append, Nat.add_zero, loop, token_ws]
    simp [token, cellsOf, loOf, hiOf]
  | cons r rs ih =>
    intro c fuel a st sp acc h
    obtain ⟨addr, data⟩ := r
    obtain ⟨h1, h2⟩ := h (addr, data) (by simp)
    simp only at h1 h2
    have h' : ∀ r ∈ rs, r.1 < 16 ^ w ∧ r.1 + r.2.length < 4294967296 := fun r hr => h r (by simp [hr])
    have e : fuel + tokensOf ((addr, data) :: rs) + 1 = ((fuel + tokensOf rs + 1) + data.length) + 1 := by
      simp only [tokensOf]; omega
    have hs : section_ w addr data = '@' :: (hexN hexDigitU w addr ++ '\n' :: dataLines data 0) := by
      simp [section_]
    rw [e, List.flatMap_cons, hs]
    simp only [List.append_assoc, List.cons_append, loop, token_ws]
    rw [token_addr w addr h1 (by omega) hw]
    simp only
    obtain ⟨col', hd⟩ := loop_data data 0 (fuel + tokensOf rs + 1) addr st sp acc
      (rs.flatMap (fun r => section_ w r.1 r.2) ++ ['q', '\n']) h2
    rw [hd, ih col' fuel _ _ _ _ h']
    simp [cellsOf, loOf, hiOf, List.reverse_append]

theorem dataLines_length (data : List Byte) (col : Nat) : data.length ≤ (dataLines data col).length := by
  induction data generalizing col with
  | nil => simp
  | cons b bs ih =>
    simp only [dataLines, List.length_append, List.length_cons, hex2, List.length_nil]
    split
    · have := ih 0; simp only [List.length_cons]; omega
    · have := ih (col + 1); simp only [List.length_cons]; omega

theorem section_length (w addr : Nat) (data : List Byte) : 1 + data.length ≤ (section_ w addr data).length := by
  have := dataLines_length data 0
  simp only [section_, List.length_append, List.length_cons]
  omega

theorem tokens_le (w : Nat) (runs : List (Nat × List Byte)) :
    tokensOf runs ≤ (runs.flatMap (fun r => section_ w r.1 r.2)).length := by
  induction runs with
  | nil => simp [tokensOf]
  | cons r rs ih =>
    have := section_length w r.1 r.2
    simp only [tokensOf, List.flatMap_cons, List.length_append]
    omega

/-- **read_ti_txt loads a TI-TXT file exactly.**  For every list of sections (address printed with any number `w` of
hexadecimal digits that holds it, data of any length, addresses below 2^32): return value 0, the `write8` calls are
exactly the sections' bytes at consecutive addresses, in file order, `low_address` / `high_address` are the smallest /
largest address stored. -/
theorem read_encode (w : Nat) (hw : 0 < w) (runs : List (Nat × List Byte))
    (h : ∀ r ∈ runs, r.1 < 16 ^ w ∧ r.1 + r.2.length < 4294967296) :
    TiTxtImpl.read (encode w runs) =
      { ret := 0, writes := cellsOf runs, low := loOf 0xffffffff runs, high := hiOf 0 runs } := by
  unfold TiTxtImpl.read encode
  have hl := tokens_le w runs
  have e : (runs.flatMap (fun r => section_ w r.1 r.2) ++ ['q', '\n']).length + 2 =
      ((runs.flatMap (fun r => section_ w r.1 r.2)).length + 3 - tokensOf runs) + tokensOf runs + 1 := by
    simp only [List.length_append, List.length_cons, List.length_nil]; omega
  rw [e]
  have := loop_runs w hw runs 0 ((runs.flatMap (fun r => section_ w r.1 r.2)).length + 3 - tokensOf runs) 0 0xffffffff 0 [] h
  simpa [dataLines] using this

end NakenVerif.FileIO.TiTxtProofs
