import NakenVerif.FileIO.Image
import NakenVerif.Generated.CpuTypes
/-
Transcription of /repo/fileio/write_elf.cpp (with fileio/FileIo.{h,cpp}).

`write_elf(memory, out, symbols, filename, cpu_type, alignment)` writes, in this order:
the ELF header (e_shoff = 0, e_shnum / e_shstrndx preliminary), for images with an entry point one PT_LOAD
program header and zero padding up to file offset 4096, ONE section `.text` = the bytes of
`[low_address, high_address]` (`read8`: unwritten cells read 0), zero padding of the byte count to the CPU's
alignment (not part of the section since fix 33dc1d5), for ARM the `.ARM.attributes` blob + 3 zero bytes,
`.shstrtab`, `align(4)`, `.strtab` (NUL, file name, the exported symbols' names), `align(4)`, `.symtab`
(null, FILE, SECTION(.text) [, SECTION(.ARM.attributes)], one GLOBAL FUNC entry per exported symbol; sh_info =
number of these local entries), `.comment` (NUL-terminated), `align(4)`, the section header table; finally it seeks back and patches e_shoff, e_shnum and
e_shstrndx.  The file position (`file.tell()`) is the length of the bytes written so far.

The `.data` branch of the section header code is dead (`sections_offset.data` is never set) and is left out.
-/
namespace NakenVerif.FileIO.ElfImpl
open NakenVerif.FileIO NakenVerif.Generated

/-- the `n` low bytes of `v`, least significant first -/
def leBytes : Nat → Nat → List Byte
  | 0, _ => []
  | n + 1, v => UInt8.ofNat (v % 256) :: leBytes n (v / 256)

/-- `file.write_int16 / write_int32 / write_int64 (v)` after `file.set_endian(...)`: `n` = 2, 4, 8 bytes
(the value is truncated to `n` bytes exactly as the `uint32_t` / `uint64_t` parameter and the `& 0xff` do) -/
def wInt (big : Bool) (n v : Nat) : List Byte := if big then (leBytes n v).reverse else leBytes n v

def str (s : String) : List Byte := s.toList.map (fun c => UInt8.ofNat c.toNat)

/-- `fseek(fp, off, SEEK_SET)` followed by writes of `bs` inside the existing file -/
def overwrite (f : List Byte) (off : Nat) (bs : List Byte) : List Byte :=
  f.take off ++ bs ++ f.drop (off + bs.length)

/-- `file.align(amount)`: `while ((marker % amount) != 0) { write_int8(0); marker++; }` -/
def alignTo (amount : Nat) (f : List Byte) : List Byte :=
  f ++ List.replicate ((amount - f.length % amount) % amount) 0

/-! ### `Elf::string_table` (char[32768], zero-initialised): modelled by its prefix, zeros beyond -/

def tget (t : List Byte) (i : Nat) : Byte := t.getD i 0

/-- `string_table_default` (the final NUL of the literal is part of the zero tail) -/
def stringTableDefault : List Byte :=
  0 :: str ".shstrtab" ++ 0 :: str ".symtab" ++ 0 :: str ".strtab" ++ 0 :: str ".comment" ++ [0]

/-- `get_string_table_len`: `n = 0; while (t[n] != 0 || t[n + 1] != 0) { n++; } return n + 1;` -/
def stringTableLenLoop (t : List Byte) : Nat → Nat → Nat
  | 0, n => n + 1
  | fuel + 1, n => if tget t n ≠ 0 ∨ tget t (n + 1) ≠ 0 then stringTableLenLoop t fuel (n + 1) else n + 1

def stringTableLen (t : List Byte) : Nat := stringTableLenLoop t (t.length + 1) 0

/-- `string_table_append(elf, name)`: `strcpy` at the end of the table, then one more NUL -/
def stringTableAppend (t : List Byte) (name : List Byte) : List Byte :=
  let len := stringTableLen t
  (t ++ List.replicate (len - t.length) 0).take len ++ name ++ [0, 0] ++ t.drop (len + name.length + 2)

/-- the C string starting at index `n` -/
def cstrAt (t : List Byte) (n : Nat) : List Byte := (t.drop n).takeWhile (· ≠ 0)

/-- `find_section(sections, name, sizeof(string_table))`; -1 becomes 0xffffffff in `uint32_t sh_name` -/
def findSectionLoop (t name : List Byte) : Nat → Nat → Nat
  | 0, _ => 0xffffffff
  | fuel + 1, n =>
    if n ≥ t.length then 0xffffffff      -- only zeros from here to the end of the array
    else if tget t n = 46 then
      if cstrAt t n = name then n else findSectionLoop t name fuel (n + (cstrAt t n).length + 1)
    else findSectionLoop t name fuel (n + 1)

def findSection (t : List Byte) (name : String) : Nat := findSectionLoop t (str name) (t.length + 1) 0

/-! ### header -/

/-- what `write_elf_header`'s `switch (elf->cpu_type)` decides -/
structure Hdr where
  cls : Nat := 1        -- e_ident[EI_CLASS]
  osabi : Nat := 255    -- e_ident[EI_OSABI]
  etype : Nat := 1
  machine : Nat := 0
  flags : Nat := 0
  /-- `elf->e_shnum++` (ARM: the `.ARM.attributes` section) -/
  shnumExtra : Nat := 0
  deriving Repr, DecidableEq

def cpuHdr (cpu alignment : Nat) : Hdr :=
  if cpu = CpuType.arm64 then { machine := 183, cls := 2 }
  else if cpu = CpuType.msp430 ∨ cpu = CpuType.msp430x then { machine := 105, flags := 11 }
  else if cpu = CpuType.m68000 then { machine := 4 }
  else if cpu = CpuType.m68hc08 then { machine := 71 }
  else if cpu = CpuType.i8051 then { machine := 165 }
  else if cpu = CpuType.arm then { machine := 40, flags := 0x05000000, shnumExtra := 1 }
  else if cpu = CpuType.avr8 then { machine := 0x53, flags := 0x85 }
  else if cpu = CpuType.cell then { machine := 23, osabi := 0, etype := 2 }
  else if cpu = CpuType.dspic then { machine := 118, flags := 1 }
  else if cpu = CpuType.ebpf then { machine := 247, osabi := 0, cls := 2, etype := 1 }
  else if cpu = CpuType.emotionEngine then { machine := 8, osabi := 0, flags := 0x20924001, etype := 2 }
  else if cpu = CpuType.epiphany then { machine := 0x1223, osabi := 0, etype := 1 }
  else if cpu = CpuType.mips32 then { machine := 8 }
  else if cpu = CpuType.powerpc then { machine := 20, osabi := 0 }
  else if cpu = CpuType.riscv then { machine := 243, osabi := 0, cls := if alignment = 8 then 2 else 1, flags := 5 }
  else if cpu = CpuType.stm8 then { machine := 186 }
  else if cpu = CpuType.xtensa then { machine := 94 }
  else if cpu = CpuType.z80 then { machine := 220 }
  else { machine := 0 }

/-- `e_ident`: `magic_number` with EI_DATA, EI_OSABI, EI_CLASS set -/
def ident (big : Bool) (h : Hdr) : List Byte :=
  [0x7f, 69, 76, 70, UInt8.ofNat h.cls, if big then 2 else 1, 1, UInt8.ofNat h.osabi, 0, 0, 0, 0, 0, 0, 0, 0]

/-- address-sized field: `write_int32` in ELF32, `write_int64` in ELF64 -/
def wAddr (big is32 : Bool) (v : Nat) : List Byte := if is32 then wInt big 4 v else wInt big 8 v

/-- Ehdr bytes up to (excluding) e_shoff; `elf->shoff_offset = file.tell()` is its length -/
def ehdrPre (big : Bool) (h : Hdr) (entry phoff : Nat) : List Byte :=
  ident big h ++ wInt big 2 h.etype ++ wInt big 2 h.machine ++ wInt big 4 1 ++
    wAddr big (h.cls == 1) entry ++ wAddr big (h.cls == 1) phoff

/-- e_flags, e_ehsize, e_phentsize, e_phnum, e_shentsize; after it `elf->shnum_offset = file.tell()` -/
def ehdrMid (big : Bool) (h : Hdr) (phentsize phnum : Nat) : List Byte :=
  wInt big 4 h.flags ++ wInt big 2 (if h.cls = 1 then 0x34 else 0x40) ++ wInt big 2 phentsize ++
    wInt big 2 phnum ++ wInt big 2 (if h.cls = 1 then 40 else 64)

def ehdr (big : Bool) (h : Hdr) (entry phoff phentsize phnum shoff shnum shstrndx : Nat) : List Byte :=
  ehdrPre big h entry phoff ++ wAddr big (h.cls == 1) shoff ++ ehdrMid big h phentsize phnum ++
    wInt big 2 shnum ++ wInt big 2 shstrndx

/-- `write_phdr(file, elf, address, filesz)` -/
def phdr (big is32 : Bool) (address filesz : Nat) : List Byte :=
  if is32 then
    wInt big 4 1 ++ wInt big 4 0x1000 ++ wInt big 4 address ++ wInt big 4 address ++ wInt big 4 filesz ++
      wInt big 4 filesz ++ wInt big 4 7 ++ wInt big 4 4096
  else
    wInt big 4 1 ++ wInt big 4 7 ++ wInt big 8 0x1000 ++ wInt big 8 (address % 4294967296) ++
      wInt big 8 (address % 4294967296) ++ wInt big 8 (filesz % 4294967296) ++ wInt big 8 (filesz % 4294967296) ++
      wInt big 8 4096

/-- `struct _shdr`: every field is a `uint32_t` -/
structure Shdr where
  name : Nat := 0
  type : Nat := 0
  flags : Nat := 0
  addr : Nat := 0
  offset : Nat := 0
  size : Nat := 0
  link : Nat := 0
  info : Nat := 0
  addralign : Nat := 0
  entsize : Nat := 0
  deriving Repr, DecidableEq

def u32 (v : Nat) : Nat := v % 4294967296

/-- `write_shdr` -/
def renderShdr (big is32 : Bool) (s : Shdr) : List Byte :=
  if is32 then
    wInt big 4 s.name ++ wInt big 4 s.type ++ wInt big 4 s.flags ++ wInt big 4 s.addr ++ wInt big 4 s.offset ++
      wInt big 4 s.size ++ wInt big 4 s.link ++ wInt big 4 s.info ++ wInt big 4 s.addralign ++ wInt big 4 s.entsize
  else
    wInt big 4 s.name ++ wInt big 4 s.type ++ wInt big 8 (u32 s.flags) ++ wInt big 8 (u32 s.addr) ++
      wInt big 8 (u32 s.offset) ++ wInt big 8 (u32 s.size) ++ wInt big 4 s.link ++ wInt big 4 s.info ++
      wInt big 8 (u32 s.addralign) ++ wInt big 8 (u32 s.entsize)

/-- `write_symtab`: `st_name`, `st_value`, `st_size` are `uint32_t`, `st_info`/`st_other` chars, `st_shndx` 16 bit -/
def renderSym (big is32 : Bool) (name value size info other shndx : Nat) : List Byte :=
  if is32 then
    wInt big 4 name ++ wInt big 4 value ++ wInt big 4 size ++ [UInt8.ofNat info, UInt8.ofNat other] ++ wInt big 2 shndx
  else
    wInt big 4 name ++ [UInt8.ofNat info, UInt8.ofNat other] ++ wInt big 2 shndx ++ wInt big 8 (u32 value) ++
      wInt big 8 (u32 size)

/-- `aeabi[]` of `write_arm_attribute` -/
def aeabi : List Byte :=
  [0x41, 0x30, 0x00, 0x00, 0x00, 0x61, 0x65, 0x61, 0x62, 0x69, 0x00, 0x01, 0x26, 0x00, 0x00, 0x00,
   0x05, 0x36, 0x00, 0x06, 0x06, 0x08, 0x01, 0x09, 0x01, 0x0a, 0x02, 0x12, 0x04, 0x14, 0x01, 0x15,
   0x01, 0x17, 0x03, 0x18, 0x01, 0x19, 0x01, 0x1a, 0x02, 0x1b, 0x03, 0x1c, 0x01, 0x1e, 0x06, 0x2c, 0x01]

def comment : List Byte := str "Created with naken_asm. https://www.mikekohn.net/"

/-- the alignment loop of `write_elf_text_and_data`:
`while ((count & mask) != 0) { file.write_int8(0); count++; }` — the number of zero bytes written -/
def padLoop (mask : Nat) : Nat → Nat → Nat
  | 0, _ => 0
  | fuel + 1, count => if count &&& mask = 0 then 0 else 1 + padLoop mask fuel (count + 1)

/-- `memory->high_address`: 0 in a Memory nothing was written to -/
def highAddr (img : Image) : Nat := if img.cells = [] then 0 else img.low + img.cells.length - 1

/-- `high_address - low_address + 1` in `uint32_t` (the cell count; 2 for the empty Memory: 0 - 0xffffffff + 1) -/
def count32 (img : Image) : Nat := (highAddr img + 4294967296 - img.low % 4294967296 + 1) % 4294967296

/-- an exported symbol as `Symbols::iterate` yields it: name (no NUL inside), address (`uint32_t`) -/
abbrev Sym := List Byte × Nat

structure Config where
  /-- `asm_context->cpu_type` -/
  cpuType : Nat
  /-- `cpu_list[asm_context->cpu_list_index].alignment` -/
  alignment : Nat
  /-- `asm_context->tokens.filename` -/
  filename : List Byte
  deriving Repr

/-- `.strtab` content after the leading NUL and the file name: the names, each NUL-terminated -/
def symNames : List Sym → List Byte
  | [] => []
  | (n, _) :: rest => n ++ 0 :: symNames rest

/-- the exported symbols' `.symtab` entries; `off` = `symbol_address[n]` = offset of the name in `.strtab` -/
def symEntries (big is32 : Bool) : Nat → List Sym → List Byte
  | _, [] => []
  | off, (n, a) :: rest => renderSym big is32 off a 0 18 0 1 ++ symEntries big is32 (off + n.length + 1) rest

/-! ### `write_elf`, statement by statement: `fK` is the file after step K, `file.tell()` = its length -/

section
variable (img : Image) (syms : List Sym) (cfg : Config)

def hdrOf : Hdr := cpuHdr cfg.cpuType cfg.alignment
def is32 : Bool := (hdrOf cfg).cls == 1
def isArm : Bool := cfg.cpuType == CpuType.arm
def hasEntry : Bool := img.entry != 0xffffffff
def eEntry : Nat := if hasEntry img then img.entry else 0
def phnum : Nat := if hasEntry img then 1 else 0
def phoff : Nat := if hasEntry img then (if is32 cfg then 0x34 else 0x40) else 0
def phentsize : Nat := if hasEntry img then (if is32 cfg then 32 else 56) else 0
/-- `e_shnum` as `write_elf_header` leaves it: 4, ARM's extra one, the null section -/
def shnum0 : Nat := 4 + (hdrOf cfg).shnumExtra + 1
/-- after `write_elf_text_and_data` -/
def shnum : Nat := shnum0 cfg + 1

/-- write_elf_header: e_shoff = 0, preliminary e_shnum, e_shstrndx = 2 -/
def f0 : List Byte :=
  ehdr img.bigEndian (hdrOf cfg) (eEntry img) (phoff img cfg) (phentsize img cfg) (phnum img) 0 (shnum0 cfg) 2

/-- `if (elf.e_phnum > 0) { write_phdr(low, high - low + 1); while (marker < 4096) { write_int8(0); marker++; } }` -/
def f1 : List Byte :=
  if hasEntry img then
    let p := f0 img cfg ++ phdr img.bigEndian (is32 cfg) img.low (count32 img)
    p ++ List.replicate (4096 - p.length) 0
  else f0 img cfg

/-- `elf->sections_offset.text = file.tell()` -/
def textOff : Nat := (f1 img cfg).length
def textBytes : List Byte := img.cells.map (fun c => c.getD 0)
def f2 : List Byte := f1 img cfg ++ textBytes img
def textSize : Nat := (f2 img cfg).length - textOff img cfg
def f3 : List Byte :=
  if cfg.alignment > 1 then
    f2 img cfg ++ List.replicate (padLoop (cfg.alignment - 1) (2 * cfg.alignment) (count32 img)) 0
  else f2 img cfg

/-- `elf.string_table` after `.text` (and, for ARM, `.ARM.attributes`) was appended -/
def shstrTable : List Byte :=
  let t1 := stringTableAppend stringTableDefault (str ".text")
  if isArm cfg then stringTableAppend t1 (str ".ARM.attributes") else t1

def armOff : Nat := (f3 img cfg).length
def f4 : List Byte := if isArm cfg then f3 img cfg ++ aeabi ++ [0, 0, 0] else f3 img cfg
def armSize : Nat := if isArm cfg then aeabi.length else 0

/-- `file.write_chars(elf.string_table, get_string_table_len(elf.string_table)); file.write_int8(0);` -/
def shstrBytes : List Byte :=
  let t := shstrTable cfg
  (t ++ List.replicate (stringTableLen t - t.length) 0).take (stringTableLen t) ++ [0]
def shstrOff : Nat := (f4 img cfg).length
def f5 : List Byte := f4 img cfg ++ shstrBytes cfg
def shstrSize : Nat := (f5 img cfg).length - shstrOff img cfg

def f6 : List Byte := alignTo 4 (f5 img cfg)
def strtabOff : Nat := (f6 img cfg).length
def strtabBytes : List Byte := [0] ++ cfg.filename ++ [0] ++ symNames syms
def f7 : List Byte := f6 img cfg ++ strtabBytes syms cfg
def strtabSize : Nat := (f7 img syms cfg).length - strtabOff img cfg

def f8 : List Byte := alignTo 4 (f7 img syms cfg)
def symtabOff : Nat := (f8 img syms cfg).length
def symtabBytes : List Byte :=
  let big := img.bigEndian
  let w := is32 cfg
  renderSym big w 0 0 0 0 0 0 ++ renderSym big w 1 0 0 4 0 65521 ++ renderSym big w 0 0 0 3 0 1 ++
    (if isArm cfg then renderSym big w 0 0 0 3 0 (shnum cfg - 1) else []) ++
    symEntries big w (cfg.filename.length + 2) syms
def f9 : List Byte := f8 img syms cfg ++ symtabBytes img syms cfg
def symtabSize : Nat := (f9 img syms cfg).length - symtabOff img syms cfg

def commentOff : Nat := (f9 img syms cfg).length
/-- `write_string(..., null_terminate = true)` since the SHF_STRINGS fix -/
def f10 : List Byte := f9 img syms cfg ++ (comment ++ [0])
def commentSize : Nat := (f10 img syms cfg).length - commentOff img syms cfg
def f11 : List Byte := alignTo 4 (f10 img syms cfg)
/-- `marker` = where the section header table starts -/
def shoff : Nat := (f11 img syms cfg).length

def shText : Shdr :=
  { name := findSection (shstrTable cfg) ".text", type := 1, flags := 6, addr := u32 img.low, offset := textOff img cfg,
    size := textSize img cfg, addralign := cfg.alignment }
def shShstr : Shdr :=
  { name := findSection (shstrTable cfg) ".shstrtab", type := 3, offset := shstrOff img cfg, size := shstrSize img cfg,
    addralign := 1 }
/-- `sh_info` = 2 + 1 (+ 1 for ARM): the local entries null, FILE, SECTION .text (, SECTION .ARM.attributes) -/
def shSymtab : Shdr :=
  { name := findSection (shstrTable cfg) ".symtab", type := 2, offset := symtabOff img syms cfg,
    size := symtabSize img syms cfg, link := 4, info := 2 + 1 + (if isArm cfg then 1 else 0), addralign := 4,
    entsize := if is32 cfg then 16 else 24 }
def shStrtab : Shdr :=
  { name := findSection (shstrTable cfg) ".strtab", type := 3, offset := strtabOff img cfg,
    size := strtabSize img syms cfg, addralign := 1 }
def shComment : Shdr :=
  { name := findSection (shstrTable cfg) ".comment", type := 1, flags := 0x30, offset := commentOff img syms cfg,
    size := commentSize img syms cfg, addralign := 1, entsize := 1 }
def shArm : Shdr :=
  { name := findSection (shstrTable cfg) ".ARM.attributes", type := 1879048195, offset := armOff img cfg,
    size := armSize cfg, addralign := 1 }

/-- the section headers in the order written -/
def shdrs : List Shdr :=
  [{}, shText img cfg, shShstr img cfg, shSymtab img syms cfg, shStrtab img syms cfg, shComment img syms cfg] ++
    (if isArm cfg then [shArm img cfg] else [])

def shtab : List Byte := (shdrs img syms cfg).flatMap (renderShdr img.bigEndian (is32 cfg))

/-- the file before seeking back -/
def body : List Byte := f11 img syms cfg ++ shtab img syms cfg

/-- `elf->shoff_offset` -/
def shoffOffset : Nat := (ehdrPre img.bigEndian (hdrOf cfg) (eEntry img) (phoff img cfg)).length
/-- `elf->shnum_offset` -/
def shnumOffset : Nat :=
  (ehdrPre img.bigEndian (hdrOf cfg) (eEntry img) (phoff img cfg) ++ wAddr img.bigEndian (is32 cfg) 0 ++
    ehdrMid img.bigEndian (hdrOf cfg) (phentsize img cfg) (phnum img)).length

/-- `write_elf`: the body, then `file.set(shoff_offset); write e_shoff; file.set(shnum_offset);
write_int16(e_shnum); write_int16(e_shstrndx);` (e_shstrndx = 1 + 1 for `.text`) -/
def write : List Byte :=
  let f := overwrite (body img syms cfg) (shoffOffset img cfg) (wAddr img.bigEndian (is32 cfg) (shoff img syms cfg))
  overwrite f (shnumOffset img cfg) (wInt img.bigEndian 2 (shnum cfg) ++ wInt img.bigEndian 2 2)

end

end NakenVerif.FileIO.ElfImpl
