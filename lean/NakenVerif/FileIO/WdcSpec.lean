import NakenVerif.FileIO.Image
/-
WDC binary ("Z") load format as documented for the WDCTools linker output: the signature byte 'Z',
then blocks `<address: 3 bytes little endian> <length: 3 bytes little endian> <length data bytes>`;
the file ends after the last block or at a block of length 0.  A missing signature, a truncated
block header or a block longer than the rest of the file is rejected.
-/
namespace NakenVerif.FileIO.WdcSpec
open NakenVerif.FileIO

def le24 (b0 b1 b2 : Byte) : Nat := b0.toNat + 256 * b1.toNat + 65536 * b2.toNat

/-- `fuel` ≥ number of blocks -/
def decodeBlocks : Nat → List Byte → Option (List (Nat × Byte))
  | _, [] => some []
  | 0, _ :: _ => none
  | fuel + 1, a0 :: a1 :: a2 :: l0 :: l1 :: l2 :: rest =>
      let addr := le24 a0 a1 a2
      let len := le24 l0 l1 l2
      if len = 0 then (if rest = [] then some [] else none)
      else if rest.length < len then none
      else
        match decodeBlocks fuel (rest.drop len) with
        | some cs => some (cellsAt addr (rest.take len) ++ cs)
        | none => none
  | _ + 1, _ => none

def decode (file : List Byte) : Option (List (Nat × Byte)) :=
  match file with
  | 0x5a :: rest => decodeBlocks file.length rest
  | _ => none

end NakenVerif.FileIO.WdcSpec
