import NakenVerif.FileIO.ProofsElfTop
/-
C03 / ELF: the execution view — the PT_LOAD program header written for images with an entry point.
-/
set_option linter.unusedSimpArgs false
namespace NakenVerif.FileIO.ElfProofs
open NakenVerif.FileIO ElfImpl ElfSpec

section
variable (img : Image) (syms : List ElfImpl.Sym) (cfg : Config)

theorem count32_nonempty (h : img.WF) (hne : img.cells ≠ []) : count32 img = img.cells.length := by
  unfold count32 highAddr
  have hpos : 0 < img.cells.length := List.length_pos_iff.mpr hne
  have := h.1
  rw [if_neg hne]
  omega

/-- after the ELF header: the program header -/
theorem phdr_drop (he : hasEntry img = true) :
    ∃ t, (ElfImpl.write img syms cfg).drop (f0 img cfg).length =
      phdr img.bigEndian (is32 cfg) img.low (count32 img) ++ t := by
  obtain ⟨tail, hb, hw⟩ := write_split img syms cfg
  have h1 : (f0 img cfg ++ phdr img.bigEndian (is32 cfg) img.low (count32 img)) <+: body img syms cfg := by
    have : (f0 img cfg ++ phdr img.bigEndian (is32 cfg) img.low (count32 img)) <+: f1 img cfg := by
      unfold f1; rw [if_pos he]; exact List.prefix_append _ _
    exact this.trans (f1_prefix_body img syms cfg)
  obtain ⟨t, ht⟩ := h1
  refine ⟨t, ?_⟩
  rw [drop_write img syms cfg _ (Nat.le_refl _), ← ht, List.append_assoc, List.drop_left]

/-- The PT_LOAD segment of an image with an entry point maps exactly the bytes of `[low, high]` to `low`;
without an entry point there is no program header. -/
theorem decodeLoads_write (h : Ok img syms cfg) (hne : img.cells ≠ []) :
    decodeLoads (ElfImpl.write img syms cfg) =
      some (if img.entry = 0xffffffff then [] else [(img.low, textBytes img)]) := by
  have hk := headerOk_write img syms cfg
  have hc := count32_nonempty img h.wf hne
  obtain ⟨t1, t2, t3⟩ := text_facts img syms cfg
  have ht : (textBytes img).length = img.cells.length := by simp [textBytes]
  have hlow : u32 img.low = img.low := by have := h.wf.1; unfold u32; omega
  have hcl : u32 img.cells.length = img.cells.length := by have := h.wf.1; unfold u32; omega
  unfold decodeLoads
  rw [parse_write img syms cfg h]
  simp only [hk, if_true]
  by_cases he : hasEntry img = true
  · have hne' : img.entry ≠ 0xffffffff := by simpa [hasEntry] using he
    obtain ⟨t, ht2⟩ := phdr_drop img syms cfg he
    have h4096 := f1_length_entry img cfg he
    have hoff : (hdrE img syms cfg).phoff = (f0 img cfg).length := by
      simp only [hdrE, phoff, he, if_true, f0_length]
    have hnum : (hdrE img syms cfg).phnum = 1 := by simp [hdrE, phnum, he]
    have hcls : (hdrE img syms cfg).cls = clsOf (is32 cfg) := by rw [clsOf_is32]; rfl
    have hbig : (hdrE img syms cfg).big = img.bigEndian := rfl
    rw [hoff, hnum, hcls, hbig, ht2]
    simp only [parsePhdrs, parsePhdr_render, hlow, hc, hcl]
    have hin : 4096 + img.cells.length ≤ (ElfImpl.write img syms cfg).length := by
      rw [t3, ht] at t2; unfold textOff at t2; omega
    have hsl : slice (ElfImpl.write img syms cfg) 4096 img.cells.length = textBytes img := by
      rw [t3, ht] at t1; unfold textOff at t1; rw [h4096] at t1; exact t1
    simp [hin, hsl, hne']
  · have he' : hasEntry img = false := by simpa using he
    have hent : img.entry = 0xffffffff := by simpa [hasEntry] using he'
    have hnum : (hdrE img syms cfg).phnum = 0 := by simp [hdrE, phnum, he']
    rw [hnum]
    simp [parsePhdrs, hent]

end

end NakenVerif.FileIO.ElfProofs
