import NakenVerif.FileIO.AmigaImpl
import NakenVerif.FileIO.AmigaSpec
import NakenVerif.FileIO.ProofsElfBytes
/-
C03 / Amiga hunk: the written load file decodes to one hunk = the bytes of [low, high] padded to a longword.
-/
set_option linter.unusedSimpArgs false
namespace NakenVerif.FileIO.AmigaProofs
open NakenVerif.FileIO AmigaImpl AmigaSpec ElfProofs

theorem long_be32 (v : Nat) (r : List Byte) : long (be32 v ++ r) = some (v % 4294967296, r) := by
  unfold long be32
  rw [field_wInt]

theorem length32_eq (img : Image) (h : img.WF) (hne : img.cells ≠ []) : length32 img = img.cells.length := by
  unfold length32 ElfImpl.highAddr
  have hpos : 0 < img.cells.length := List.length_pos_iff.mpr hne
  have := h.1
  rw [if_neg hne]
  omega

/-- Decoding the written file per the hunk format: exactly one hunk whose content is the bytes of `[low, high]` (gaps as
zero) followed by the zero padding to a whole longword (hunk sizes are counted in longwords); the size in the header
table equals the hunk's size and nothing follows hunk_end. -/
theorem decode_write (img : Image) (h : img.WF) (hne : img.cells ≠ []) (h3 : img.cells.length + 3 < 4294967296) :
    decode (AmigaImpl.write img) =
      some [img.cells.map (fun c => c.getD 0) ++ List.replicate ((4 - img.cells.length % 4) % 4) 0] := by
  have hl := length32_eq img h hne
  have hlongs : longs img = (img.cells.length + 3) / 4 := by
    unfold longs; rw [hl, Nat.mod_eq_of_lt h3]
  have hpad : longs img * 4 - length32 img = (4 - img.cells.length % 4) % 4 := by rw [hlongs, hl]; omega
  have hlm : longs img % 4294967296 = longs img := Nat.mod_eq_of_lt (by rw [hlongs]; omega)
  have hlm2 : longs img % 1073741824 = longs img := Nat.mod_eq_of_lt (by rw [hlongs]; omega)
  have hdata : (img.cells.map (fun c => c.getD 0) ++ List.replicate ((4 - img.cells.length % 4) % 4) (0 : Byte)).length =
      longs img * 4 := by
    simp only [List.length_append, List.length_map, List.length_replicate]; rw [hlongs]; omega
  unfold AmigaImpl.write decode
  rw [hpad]
  have e1 : (1011 : Nat) % 4294967296 = 1011 := by omega
  have e2 : (1001 : Nat) % 4294967296 = 1001 := by omega
  have e3 : (1010 : Nat) % 4294967296 = 1010 := by omega
  have hle : longs img * 4 ≤ (List.map (fun c => c.getD 0) img.cells ++
      (List.replicate ((4 - img.cells.length % 4) % 4) (0 : Byte) ++ be32 1010)).length := by
    rw [← List.append_assoc, List.length_append, hdata]; omega
  have htake : (List.map (fun c => c.getD 0) img.cells ++
      (List.replicate ((4 - img.cells.length % 4) % 4) (0 : Byte) ++ be32 1010)).take (longs img * 4) =
      List.map (fun c => c.getD 0) img.cells ++ List.replicate ((4 - img.cells.length % 4) % 4) 0 := by
    rw [← List.append_assoc]; exact List.take_left' hdata
  have hdrop : (List.map (fun c => c.getD 0) img.cells ++
      (List.replicate ((4 - img.cells.length % 4) % 4) (0 : Byte) ++ be32 1010)).drop (longs img * 4) = be32 1010 ++ [] := by
    rw [← List.append_assoc, List.append_nil]; exact List.drop_left' hdata
  simp only [List.append_assoc]
  rw [long_be32]
  simp only [e1, ne_eq, not_true_eq_false, if_false]
  simp only [skipNames, long_be32, Nat.zero_mod, if_true]
  simp only [Nat.one_mod_eq_one, Nat.le_refl, Nat.sub_self, Nat.zero_add, and_self, if_true]
  simp only [sizes, long_be32, hlm, hlm2]
  unfold hunks
  rw [long_be32]
  simp only []
  rw [long_be32]
  simp only [e2, hlm, true_or, if_true]
  rw [if_pos ⟨Nat.le_refl _, hle⟩, hdrop, htake, long_be32]
  simp only [e3, if_true]
  unfold hunks
  simp only [if_true]

end NakenVerif.FileIO.AmigaProofs
