import NakenVerif.FileIO.ProofsElfReadMain
/-
C03 / read_elf: the section loop on the written file, and `read (write img) = img`.
-/
set_option linter.unusedSimpArgs false
namespace NakenVerif.FileIO.ElfReadProofs
open NakenVerif.FileIO ElfImpl ElfReadImpl ElfProofs

/-- symbol names fit the reader's `char name[256]` (what `Symbols::append` admits: at most 254 characters) -/
def NamesFit (syms : List ElfImpl.Sym) : Prop := ∀ s ∈ syms, s.1.length ≤ 254

section
variable (img : Image) (syms : List ElfImpl.Sym) (cfg : Config)

theorem symLoop_write (h : Ok img syms cfg) (hn : NamesFit syms) (t : List Byte) :
    (symLoop (ElfImpl.write img syms cfg) img.bigEndian (is32 cfg) (strtabOff img cfg)
      ((if isArm cfg then 4 else 3) + syms.length) (symtabBytes img syms cfg ++ t) []).1 = syms := by
  obtain ⟨ts, hts⟩ := strtab_drop img syms cfg
  obtain ⟨_, r2, r3⟩ := strtab_facts img syms cfg
  have hsmall := h.small
  have hnames : ∀ s ∈ syms, (0 : Byte) ∉ s.1 ∧ s.1.length ≤ 254 ∧ s.2 < 4294967296 :=
    fun s hs => ⟨h.names s hs, hn s hs, h.values s hs⟩
  have hstr : (ElfImpl.write img syms cfg).drop (strtabOff img cfg + (cfg.filename.length + 2)) = symNames syms ++ ts := by
    rw [← List.drop_drop, hts]
    have : strtabBytes syms cfg ++ ts = ([0] ++ cfg.filename ++ [0]) ++ (symNames syms ++ ts) := by
      simp [strtabBytes, List.append_assoc]
    rw [this]
    exact List.drop_left' (by simp)
  have hoff : strtabOff img cfg + (cfg.filename.length + 2) + (symNames syms).length < 4294967296 := by
    have : (strtabBytes syms cfg).length = cfg.filename.length + 2 + (symNames syms).length := by
      simp [strtabBytes]; omega
    omega
  have key := symLoop_entries (ElfImpl.write img syms cfg) img.bigEndian (is32 cfg) (strtabOff img cfg) syms
    (cfg.filename.length + 2) t ts
  have z0 : (0 % 256 ≠ 0 ∧ 0 % 256 ≠ 3 ∧ 0 % 256 ≠ 4) = False := by decide
  have z3 : (3 % 256 ≠ 0 ∧ 3 % 256 ≠ 3 ∧ 3 % 256 ≠ 4) = False := by decide
  have z4 : (4 % 256 ≠ 0 ∧ 4 % 256 ≠ 3 ∧ 4 % 256 ≠ 4) = False := by decide
  have hl : ∀ (a b c d e f : Nat) (r : List Byte),
      ((renderSym img.bigEndian (is32 cfg) a b c d e f ++ r).length < (if is32 cfg then 16 else 24)) = False := by
    intro a b c d e f r
    rw [List.length_append, renderSym_length]; simp
  unfold symtabBytes
  cases hArm : isArm cfg <;> simp only [hArm, Bool.false_eq_true, if_false, if_true]
  · rw [show 3 + syms.length = syms.length + 3 by omega]
    simp only [List.append_assoc, List.nil_append, symLoop, hl, readSym_render, z0, z3, z4, if_false]
    rw [key [] hstr hnames hoff]; rfl
  · rw [show 4 + syms.length = syms.length + 4 by omega]
    simp only [List.append_assoc, List.nil_append, symLoop, hl, readSym_render, z0, z3, z4, if_false]
    rw [key [] hstr hnames hoff]; rfl

theorem loadBytes_exact (p t : List Byte) : loadBytes (p ++ t) p.length = p := by
  unfold loadBytes; exact List.take_left

/-- `high_address` as read_elf computes it: `sh_addr + sh_size - 1` in 64 bits, stored in a `uint32_t` -/
def stopOf : Nat := (img.low + img.cells.length + 18446744073709551616 - 1) % 18446744073709551616 % 4294967296

/-- a section that is neither loaded nor a symbol table -/
theorem skip_step {file : List Byte} {big is32 : Bool} {stroffset strtabOff : Nat}
    {nm ty fl ad off sz lk inf al es : Nat} {hs : List ElfSpec.Shdr} {st : St} {name : List Byte}
    (hname : strLoop 255 (file.drop (stroffset + nm)) = name)
    (h1 : fl / 4 % 2 = 0) (h2 : name.take 5 ≠ [46, 100, 97, 116, 97]) (h3 : name ≠ [46, 118, 101, 99, 116, 111, 114, 115])
    (h4 : ty ≠ 2) :
    sectionLoopL file big is32 stroffset strtabOff (⟨nm, ty, fl, ad, off, sz, lk, inf, al, es⟩ :: hs) st =
      sectionLoopL file big is32 stroffset strtabOff hs st := by
  have h1' : ¬ (fl / 4 % 2 = 1) := by omega
  simp only [sectionLoopL, hname, h1', h2, h3, h4, false_or, if_false]

/-- an executable section -/
theorem text_step {file : List Byte} {big is32 : Bool} {stroffset strtabOff : Nat}
    {nm ty fl ad off sz lk inf al es : Nat} {hs : List ElfSpec.Shdr} {st : St}
    (h1 : fl / 4 % 2 = 1) (hst : st.start = 0xffffffff) (hsp : st.stop = 0xffffffff) :
    sectionLoopL file big is32 stroffset strtabOff (⟨nm, ty, fl, ad, off, sz, lk, inf, al, es⟩ :: hs) st =
      sectionLoopL file big is32 stroffset strtabOff hs
        { st with start := ad % 4294967296,
                  stop := (ad + sz + 18446744073709551616 - 1) % 18446744073709551616 % 4294967296,
                  writes := st.writes ++ writesAt ad 0 (loadBytes (file.drop off) sz) } := by
  simp only [sectionLoopL, h1, true_or, if_true, hst, hsp]

/-- a symbol table (not executable, not called .data* / .vectors) -/
theorem symtab_step {file : List Byte} {big is32 : Bool} {stroffset strtabOff : Nat}
    {nm fl ad off sz lk inf al es : Nat} {hs : List ElfSpec.Shdr} {st : St} {name : List Byte}
    (hname : strLoop 255 (file.drop (stroffset + nm)) = name)
    (h1 : fl / 4 % 2 = 0) (h2 : name.take 5 ≠ [46, 100, 97, 116, 97]) (h3 : name ≠ [46, 118, 101, 99, 116, 111, 114, 115])
    :
    sectionLoopL file big is32 stroffset strtabOff (⟨nm, 2, fl, ad, off, sz, lk, inf, al, es⟩ :: hs) st =
      sectionLoopL file big is32 stroffset strtabOff hs
        { st with syms := st.syms ++ (symLoop file big is32 strtabOff
            ((sz + (if is32 then 16 else 24) - 1) / (if is32 then 16 else 24)) (file.drop off) []).1 } := by
  have h1' : ¬ (fl / 4 % 2 = 1) := by omega
  simp only [sectionLoopL, hname, h1', h2, h3, false_or, if_false, if_true]

theorem name_consts :
    (str ".shstrtab").take 5 ≠ [46, 100, 97, 116, 97] ∧ str ".shstrtab" ≠ [46, 118, 101, 99, 116, 111, 114, 115] ∧
    (str ".symtab").take 5 ≠ [46, 100, 97, 116, 97] ∧ str ".symtab" ≠ [46, 118, 101, 99, 116, 111, 114, 115] ∧
    (str ".strtab").take 5 ≠ [46, 100, 97, 116, 97] ∧ str ".strtab" ≠ [46, 118, 101, 99, 116, 111, 114, 115] ∧
    (str ".comment").take 5 ≠ [46, 100, 97, 116, 97] ∧ str ".comment" ≠ [46, 118, 101, 99, 116, 111, 114, 115] ∧
    (str ".ARM.attributes").take 5 ≠ [46, 100, 97, 116, 97] ∧ str ".ARM.attributes" ≠ [46, 118, 101, 99, 116, 111, 114, 115] ∧
    ([] : List Byte).take 5 ≠ [46, 100, 97, 116, 97] ∧ ([] : List Byte) ≠ [46, 118, 101, 99, 116, 111, 114, 115] := by
  decide +kernel

theorem sectionLoopL_write (h : Ok img syms cfg) (hn : NamesFit syms) :
    sectionLoopL (ElfImpl.write img syms cfg) img.bigEndian (is32 cfg) (shstrOff img cfg) (strtabOff img cfg)
        (secsOf img syms cfg) {} =
      { start := img.low, stop := stopOf img, writes := writesAt img.low 0 (textBytes img), syms := syms } := by
  obtain ⟨n0, n1, n11, n19, n27, n36, narm⟩ := names_write img syms cfg
  obtain ⟨c1, c2, c3, c4, c5, c6, c7, c8, c9, c10, c11, c12⟩ := name_consts
  obtain ⟨tt, htt⟩ := text_drop img syms cfg
  obtain ⟨ty, hty⟩ := symtab_drop img syms cfg
  obtain ⟨_, t2, t3⟩ := text_facts img syms cfg
  obtain ⟨_, y2, y3⟩ := symtab_facts img syms cfg
  have hylen := symtabBytes_length img syms cfg
  have ht : (textBytes img).length = img.cells.length := by simp [textBytes]
  have hlow : img.low % 4294967296 = img.low := Nat.mod_eq_of_lt (by have := h.wf.1; omega)
  have hload : loadBytes ((ElfImpl.write img syms cfg).drop (textOff img cfg)) img.cells.length = textBytes img := by
    rw [htt, ← ht]; exact loadBytes_exact _ _
  have hcount : (symtabSize img syms cfg + (if is32 cfg then 16 else 24) - 1) / (if is32 cfg then 16 else 24) =
      (if isArm cfg then 4 else 3) + syms.length := by
    rw [y3, hylen]
    cases is32 cfg <;> simp <;> omega
  have hsym := symLoop_write img syms cfg h hn ty
  rw [← hty, ← hcount] at hsym
  unfold secsOf stopOf
  simp only [List.cons_append, List.nil_append]
  have d0 : 0 / 4 % 2 = 0 := by decide
  have d6 : 6 / 4 % 2 = 1 := by decide
  have d48 : 48 / 4 % 2 = 0 := by decide
  rw [skip_step (fl := 0) (ty := 0) n0 d0 c11 c12 (by decide), text_step (fl := 6) d6 rfl rfl,
    skip_step (fl := 0) (ty := 3) n1 d0 c1 c2 (by decide), symtab_step (fl := 0) n11 d0 c3 c4,
    skip_step (fl := 0) (ty := 3) n19 d0 c5 c6 (by decide), skip_step (fl := 48) (ty := 1) n27 d48 c7 c8 (by decide)]
  simp only [hsym, hload, hlow, List.nil_append]
  cases hArm : isArm cfg
  · simp only [Bool.false_eq_true, if_false, sectionLoopL]
  · simp only [if_true]
    rw [skip_step (fl := 0) (ty := 1879048195) (narm hArm) d0 c9 c10 (by decide)]
    simp only [sectionLoopL]

end

end NakenVerif.FileIO.ElfReadProofs
