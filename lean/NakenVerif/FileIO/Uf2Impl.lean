import NakenVerif.FileIO.Image
/-
Transcription of /repo/fileio/write_uf2.cpp (FileIo little endian) and read_uf2.cpp.
-/
namespace NakenVerif.FileIO.Uf2Impl
open NakenVerif.FileIO

/-- `file.write_int32(v)` little endian -/
def le32 (v : Nat) : List Byte :=
  [UInt8.ofNat (v % 256), UInt8.ofNat (v / 256 % 256), UInt8.ofNat (v / 65536 % 256), UInt8.ofNat (v / 16777216 % 256)]

/-- `uf2_write_block_header(file, address, block_number, total_blocks, board_family)` -/
def header (address blockNo total family : Nat) : List Byte :=
  le32 0x0a324655 ++ le32 0x9e5d5157 ++ le32 0x00002000 ++ le32 address ++ le32 256 ++
  le32 blockNo ++ le32 total ++ le32 family

def footer : List Byte := le32 0x0ab16f30

/-- `uf2_add_pico_ef`: the RP2350-E10 workaround block the Pico SDK also emits -/
def efBlock : List Byte :=
  header 0x10ffff00 0 2 0xe48bff57 ++ List.replicate 256 0xef ++ List.replicate 220 0 ++ footer

/-- the code loop: `i` = address, `ptr` = bytes in the current block, `block` = block number -/
def blockLoop (total : Nat) : Nat → List Byte → Nat → Nat → List Byte
  | _, [], ptr, _ => if ptr ≠ 0 then List.replicate (476 - ptr) 0 ++ footer else []
  | i, b :: bs, ptr, block =>
      (if ptr = 0 then header i block total 0xe48bff59 else []) ++ b ::
      (if ptr + 1 = 256 then List.replicate 220 0 ++ footer ++ blockLoop total (i + 1) bs 0 (block + 1)
       else blockLoop total (i + 1) bs (ptr + 1) block)

/-- `write_uf2(memory, out)`; `length = high - low + 1` is an `int` in the code: spans below 2^31 only -/
def write (img : Image) : List Byte :=
  let data := img.cells.map (fun c => c.getD 0)
  let total := (data.length + 255) / 256
  efBlock ++ blockLoop total img.low data 0 0

end NakenVerif.FileIO.Uf2Impl
