import NakenVerif.FileIO.WdcImpl
import NakenVerif.FileIO.WdcSpec
import NakenVerif.FileIO.ProofsChunk
import NakenVerif.FileIO.ProofsLoad
namespace NakenVerif.FileIO
namespace WdcImpl

theorem blockLoop_flat (cap : Nat) : ∀ (cs : List (Option Byte)) (n addr : Nat) (buf : List Byte),
    (buf = [] ∨ addr + buf.length = n) →
    flat (blockLoop cap n cs addr buf) = cellsAt addr buf ++ cellsFrom n cs := by
  intro cs
  induction cs with
  | nil =>
    intro n addr buf _
    by_cases hb : buf = [] <;> simp [blockLoop, cellsFrom, hb]
  | cons c cs ih =>
    intro n addr buf hinv
    cases c with
    | none =>
      have := ih (n + 1) addr [] (Or.inl rfl)
      by_cases hb : buf = [] <;> simp [blockLoop, cellsFrom, hb, this]
    | some b =>
      simp only [blockLoop, cellsFrom]
      by_cases hb : buf = []
      · subst hb
        have h1 := ih (n + 1) n [b] (Or.inr (by simp))
        simp [h1, cellsAt]
      · have hn : addr + buf.length = n := by
          cases hinv with
          | inl h => exact absurd h hb
          | inr h => exact h
        by_cases hf : buf.length = cap
        · have h1 := ih (n + 1) n [b] (Or.inr (by simp))
          simp [hf, hb, h1, cellsAt]
        · have h1 := ih (n + 1) addr (buf ++ [b]) (Or.inr (by simp; omega))
          simp [hf, hb, h1, cellsAt_append, cellsAt, hn]

theorem blocks_flat (img : Image) : flat (blocks img) = img.writtenCells := by
  simp [blocks, Image.writtenCells, blockLoop_flat]

/-- a block the format can carry: 1..65536 bytes below `bound` -/
def GoodB (bound : Nat) (r : Nat × List Byte) : Prop :=
  0 < r.2.length ∧ r.2.length ≤ 65536 ∧ r.1 + r.2.length ≤ bound

theorem blockLoop_good (bound : Nat) : ∀ (cs : List (Option Byte)) (n addr : Nat) (buf : List Byte),
    n + cs.length ≤ bound →
    (buf = [] ∨ (addr + buf.length = n ∧ buf.length ≤ 65536)) →
    ∀ r ∈ blockLoop 65536 n cs addr buf, GoodB bound r := by
  intro cs
  induction cs with
  | nil =>
    intro n addr buf hb hinv r hr
    by_cases hbuf : buf = []
    · simp [blockLoop, hbuf] at hr
    · simp only [blockLoop, ne_eq, hbuf, not_false_eq_true, if_true, List.mem_singleton] at hr
      subst hr
      cases hinv with
      | inl h => exact absurd h hbuf
      | inr h =>
        have : 0 < buf.length := List.length_pos_iff.mpr hbuf
        simp only [List.length_nil, Nat.add_zero] at hb
        show 0 < buf.length ∧ buf.length ≤ 65536 ∧ addr + buf.length ≤ bound
        omega
  | cons c cs ih =>
    intro n addr buf hb hinv r hr
    simp only [List.length_cons] at hb
    have goodBuf : buf ≠ [] → GoodB bound (addr, buf) := by
      intro hbuf
      cases hinv with
      | inl h => exact absurd h hbuf
      | inr h =>
        have : 0 < buf.length := List.length_pos_iff.mpr hbuf
        show 0 < buf.length ∧ buf.length ≤ 65536 ∧ addr + buf.length ≤ bound
        omega
    cases c with
    | none =>
      simp only [blockLoop, List.mem_append] at hr
      cases hr with
      | inl h =>
        by_cases hbuf : buf = []
        · simp [hbuf] at h
        · simp only [ne_eq, hbuf, not_false_eq_true, if_true, List.mem_singleton] at h
          subst h; exact goodBuf hbuf
      | inr h => exact ih (n + 1) addr [] (by omega) (Or.inl rfl) r h
    | some b =>
      simp only [blockLoop] at hr
      by_cases hbuf : buf = []
      · subst hbuf
        simp only [ne_eq, not_true_eq_false, and_false, if_false, List.nil_append, if_true] at hr
        exact ih (n + 1) n [b] (by omega) (Or.inr ⟨by simp, by simp⟩) r hr
      · have hi : addr + buf.length = n ∧ buf.length ≤ 65536 := by
          cases hinv with
          | inl h => exact absurd h hbuf
          | inr h => exact h
        by_cases hf : buf.length = 65536
        · simp only [hf, hbuf, ne_eq, not_false_eq_true, and_self, if_true, List.nil_append,
            List.cons_append, List.mem_cons] at hr
          cases hr with
          | inl h => subst h; exact goodBuf hbuf
          | inr h => exact ih (n + 1) n [b] (by omega) (Or.inr ⟨by simp, by simp⟩) r h
        · simp only [hf, false_and, if_false, hbuf, List.nil_append] at hr
          exact ih (n + 1) addr (buf ++ [b]) (by omega) (Or.inr ⟨by simp; omega, by simp; omega⟩) r hr

theorem blocks_good (img : Image) (bound : Nat) (h : img.low + img.cells.length ≤ bound) :
    ∀ r ∈ blocks img, GoodB bound r :=
  blockLoop_good bound img.cells img.low 0 [] h (Or.inl rfl)

end WdcImpl
end NakenVerif.FileIO

namespace NakenVerif.FileIO
namespace WdcSpec
open WdcImpl

theorem le24_int24 (v : Nat) (h : v < 2 ^ 24) :
    le24 (UInt8.ofNat (v % 256)) (UInt8.ofNat (v / 256 % 256)) (UInt8.ofNat (v / 65536 % 256)) = v := by
  unfold le24
  simp only [UInt8.toNat_ofNat']
  omega

theorem decode_block_step (fuel : Nat) (r : Nat × List Byte) (rest : List Byte)
    (hg : GoodB (2 ^ 24) r) :
    decodeBlocks (fuel + 1) (renderBlock r ++ rest) =
      match decodeBlocks fuel rest with
      | some cs => some (cellsAt r.1 r.2 ++ cs)
      | none => none := by
  obtain ⟨a, d⟩ := r
  obtain ⟨h0, h1, h2⟩ := hg
  simp only at h0 h1 h2
  simp only [renderBlock, int24, List.cons_append, List.nil_append, List.append_assoc, decodeBlocks]
  rw [le24_int24 a (by omega), le24_int24 d.length (by omega)]
  have hne : d.length ≠ 0 := by omega
  have hlen : ¬ (d ++ rest).length < d.length := by simp
  simp only [hne, if_false, hlen, List.take_left' rfl, List.drop_left' rfl]
  rfl

theorem decode_render : ∀ (bs : List (Nat × List Byte)), (∀ r ∈ bs, GoodB (2 ^ 24) r) →
    ∀ fuel, bs.length ≤ fuel → decodeBlocks fuel (bs.flatMap renderBlock) = some (flat bs) := by
  intro bs
  induction bs with
  | nil => intro _ fuel _; simp [decodeBlocks]
  | cons r rest ih =>
    intro hg fuel hf
    cases fuel with
    | zero => simp at hf
    | succ fuel =>
      simp only [List.flatMap_cons, flat_cons]
      rw [decode_block_step fuel r _ (hg r (by simp)),
        ih (fun x hx => hg x (by simp [hx])) fuel (by simpa using hf)]

theorem render_length (bs : List (Nat × List Byte)) : bs.length ≤ (bs.flatMap renderBlock).length := by
  induction bs with
  | nil => simp
  | cons r rest ih =>
    simp only [List.flatMap_cons, List.length_append, List.length_cons, renderBlock, int24]
    omega

/-- Decoding the written file per the format description gives exactly the written cells, for
every image the format's 24-bit addresses can carry. -/
theorem decode_write (img : Image) (h24 : img.low + img.cells.length ≤ 2 ^ 24) :
    decode (WdcImpl.write img) = some img.writtenCells := by
  unfold decode WdcImpl.write
  simp only []
  rw [decode_render _ (blocks_good img _ h24) _ (by
    have := render_length (blocks img); simp only [List.length_cons]; omega), blocks_flat]

end WdcSpec
end NakenVerif.FileIO

namespace NakenVerif.FileIO
namespace WdcImpl

theorem readInt24_int24 (v : Nat) (h : v < 2 ^ 24) (rest : List Byte) :
    readInt24 (int24 v ++ rest) = ((v : Int), rest) := by
  simp only [int24, List.cons_append, List.nil_append, readInt24, UInt8.toNat_ofNat', Prod.mk.injEq, and_true]
  omega

theorem dataLoop_block : ∀ (d : List Byte) (a : Nat) (rest : List Byte) (high : Nat) (acc : List (Nat × Byte)),
    a + d.length < 2 ^ 32 →
    dataLoop d.length a (d ++ rest) high acc =
      (a + d.length, rest, (cellsAt a d).foldl maxf high, (cellsAt a d).reverse ++ acc) := by
  intro d
  induction d with
  | nil => intro a rest high acc _; simp [dataLoop]
  | cons b d ih =>
    intro a rest high acc hb
    simp only [List.length_cons] at hb
    simp only [List.length_cons, List.cons_append, dataLoop, cellsAt, List.foldl_cons, List.reverse_cons,
      List.append_assoc, List.singleton_append]
    rw [Nat.mod_eq_of_lt (by omega), ih (a + 1) rest _ _ (by omega)]
    simp only [maxf, show a + 1 + d.length = a + (d.length + 1) by omega, List.nil_append]

theorem foldl_minf_ge (l : List (Nat × Byte)) (m : Nat) (h : ∀ p ∈ l, m ≤ p.1) : l.foldl minf m = m := by
  induction l generalizing m with
  | nil => rfl
  | cons q l ih =>
    have hq := h q (by simp)
    have e : minf m q = m := by unfold minf; split <;> omega
    simp only [List.foldl_cons, e]
    exact ih m (fun p hp => h p (by simp [hp]))

theorem cellsAt_ge (a : Nat) (d : List Byte) : ∀ p ∈ cellsAt a d, a ≤ p.1 := by
  induction d generalizing a with
  | nil => simp
  | cons b d ih =>
    intro p hp
    simp only [cellsAt, List.mem_cons] at hp
    rcases hp with rfl | hp
    · simp
    · have := ih (a + 1) p hp; omega

theorem foldl_minf_block (a : Nat) (d : List Byte) (hd : d ≠ []) (low : Nat) :
    (cellsAt a d).foldl minf low = if a < low then a else low := by
  cases d with
  | nil => exact absurd rfl hd
  | cons b d =>
    simp only [cellsAt, List.foldl_cons]
    rw [foldl_minf_ge]
    · rfl
    · intro p hp
      have := cellsAt_ge (a + 1) d p hp
      unfold minf; simp only; split <;> omega

theorem readLoop_blocks : ∀ (bs : List (Nat × List Byte)), (∀ r ∈ bs, GoodB (2 ^ 24) r) →
    ∀ (fuel : Nat), bs.length + 1 ≤ fuel → ∀ (low high : Nat) (acc : List (Nat × Byte)),
    readLoop fuel (bs.flatMap renderBlock) low high acc =
      ((flat bs).foldl minf low, (flat bs).foldl maxf high, (flat bs).reverse ++ acc) := by
  intro bs
  induction bs with
  | nil =>
    intro _ fuel hf low high acc
    cases fuel with
    | zero => simp at hf
    | succ fuel => simp [readLoop, readInt24]
  | cons r rest ih =>
    intro hg fuel hf low high acc
    cases fuel with
    | zero => simp at hf
    | succ fuel =>
      obtain ⟨a, d⟩ := r
      obtain ⟨h0, h1, h2⟩ := hg (a, d) (by simp)
      simp only at h0 h1 h2
      have hd : d ≠ [] := by intro e; subst e; simp at h0
      simp only [List.flatMap_cons, renderBlock, List.append_assoc, readLoop]
      rw [readInt24_int24 a (by omega), readInt24_int24 d.length (by omega)]
      have hne : ((d.length : Nat) : Int) ≠ 0 := by omega
      simp only [hne, if_false, Int.toNat_natCast]
      have ha : ((a : Int) % 4294967296).toNat = a := by omega
      rw [ha, dataLoop_block d a _ high acc (by omega)]
      simp only []
      rw [ih (fun x hx => hg x (by simp [hx])) fuel (by simp only [List.length_cons] at hf; omega)]
      simp only [flat_cons, List.foldl_append, List.reverse_append, List.append_assoc,
        foldl_minf_block a d hd low]

/-- naken_util's loader (`read_wdc`) applied to the file `write_wdc` wrote reproduces the image:
the `write8` calls are exactly the written cells, low/high are the image's, the return value is
`low_address` (non-negative, so `file_read` reports success). -/
theorem read_write (img : Image) (ht : img.Tight) (h24 : img.low + img.cells.length ≤ 2 ^ 24) :
    read (write img) =
      { ret := (img.low : Int), writes := img.writtenCells, low := img.low, high := img.high } := by
  have hpos : 0 < img.cells.length := by
    obtain ⟨⟨b, cs, hcs⟩, _⟩ := ht; rw [hcs]; simp
  have hmm := tight_min_max img ht 0xffffffff (by omega) 0 (by omega)
  unfold read write
  simp only []
  rw [readLoop_blocks _ (blocks_good img _ h24) _ (by
    have := WdcSpec.render_length (blocks img); simp only [List.length_cons]; omega)]
  simp only [blocks_flat, hmm.1, hmm.2, List.append_nil, List.reverse_reverse]
  have : img.low < 2147483648 := by omega
  simp [this]

end WdcImpl
end NakenVerif.FileIO
