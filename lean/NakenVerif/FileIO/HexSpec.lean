import NakenVerif.FileIO.SpecText
/-
Intel HEX decoder written from Intel's "Hexadecimal Object File Format Specification" (rev. A):
a record is `:LLAAAATT<LL data bytes>CC`, every field two hex digits per byte; the sum of all
bytes of a record including CC is 0 modulo 256.  Types: 00 data, 01 end of file (LL = 0, last
record), 02 extended segment address (LL = 2, AAAA = 0; base = USBA * 16, data addresses are
base + ((offset + i) mod 64K)), 04 extended linear address (LL = 2, AAAA = 0; base = ULBA * 2^16,
addresses (base + offset + i) mod 4G), 03 / 05 start addresses (LL = 4).  Anything else, a wrong
length, a wrong checksum, a character that is not a hex digit, an empty line or a missing EOF
record is rejected.  Result: the (address, byte) pairs in file order.
-/
namespace NakenVerif.FileIO.HexSpec
open NakenVerif.FileIO NakenVerif.FileIO.SpecText

structure Rec where
  len : Nat
  off : Nat
  typ : Nat
  data : List Nat
  deriving Repr, DecidableEq

def parseRecord (line : List Char) : Option Rec :=
  match line with
  | ':' :: rest =>
    match parseBytes rest with
    | some (ll :: hi :: lo :: ty :: tail) =>
      if tail.length = ll + 1 ∧ (ll + hi + lo + ty + tail.sum) % 256 = 0 then
        some { len := ll, off := hi * 256 + lo, typ := ty, data := tail.dropLast }
      else none
    | _ => none
  | _ => none

/-- addresses of the data bytes of a type-00 record -/
def dataCells (base : Nat) (linear : Bool) (off : Nat) : Nat → List Nat → List (Nat × Byte)
  | _, [] => []
  | i, b :: bs =>
    ((if linear then (base + off + i) % 2 ^ 32 else base + (off + i) % 65536), UInt8.ofNat b)
      :: dataCells base linear off (i + 1) bs

def be16 : List Nat → Nat
  | [a, b] => a * 256 + b
  | _ => 0

def decodeLines : List (List Char) → Nat → Bool → Option (List (Nat × Byte))
  | [], _, _ => none
  | l :: ls, base, linear =>
    match parseRecord l with
    | none => none
    | some r =>
      if r.typ = 0 then
        match decodeLines ls base linear with
        | some cs => some (dataCells base linear r.off 0 r.data ++ cs)
        | none => none
      else if r.typ = 1 then (if r.len = 0 ∧ ls = [] then some [] else none)
      else if r.typ = 2 then
        (if r.len = 2 ∧ r.off = 0 then decodeLines ls (16 * be16 r.data) false else none)
      else if r.typ = 4 then
        (if r.len = 2 ∧ r.off = 0 then decodeLines ls (65536 * be16 r.data) true else none)
      else if r.typ = 3 ∨ r.typ = 5 then
        (if r.len = 4 ∧ r.off = 0 then decodeLines ls base linear else none)
      else none

/-- decode a whole file (initially base 0, 16-bit addressing) -/
def decode (file : List Char) : Option (List (Nat × Byte)) := decodeLines (lines file) 0 false

end NakenVerif.FileIO.HexSpec
