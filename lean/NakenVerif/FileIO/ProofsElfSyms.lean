import NakenVerif.FileIO.ProofsElfLayout
/-
C03 / ELF: string tables and the symbol table of the written file.
-/
namespace NakenVerif.FileIO.ElfProofs
open NakenVerif.FileIO ElfImpl ElfSpec

theorem takeWhile_cstr (n rest : List Byte) (h : (0 : Byte) ∉ n) :
    (n ++ 0 :: rest).takeWhile (· ≠ 0) = n := by
  induction n with
  | nil => simp
  | cons b n ih =>
    have hb : b ≠ 0 := fun e => h (by simp [e])
    have hn : (0 : Byte) ∉ n := fun e => h (by simp [e])
    have := ih hn
    simp only [List.cons_append, List.takeWhile_cons, ne_eq, hb, not_false_eq_true, decide_true, ↓reduceIte]
    rw [this]

theorem cstr_at (pre n rest : List Byte) (h : (0 : Byte) ∉ n) :
    cstr (pre ++ (n ++ 0 :: rest)) pre.length = some n := by
  unfold cstr
  have : pre.length < (pre ++ (n ++ 0 :: rest)).length := by simp; omega
  rw [if_pos this, List.drop_left, takeWhile_cstr n rest h]

/-- the exported symbols' entries as parsed -/
def parsedSyms : Nat → List ElfImpl.Sym → List ElfSpec.Sym
  | _, [] => []
  | off, (n, a) :: rest => normSym off a 0 18 0 1 :: parsedSyms (off + n.length + 1) rest

theorem parseSyms_entries (big is32 : Bool) (off : Nat) (syms : List ElfImpl.Sym) (r : List Byte) :
    parseSyms big (clsOf is32) syms.length (symEntries big is32 off syms ++ r) = some (parsedSyms off syms) := by
  induction syms generalizing off with
  | nil => rfl
  | cons s syms ih =>
    obtain ⟨n, a⟩ := s
    simp only [symEntries, List.length_cons, List.append_assoc, parseSyms, parseSym_render, ih, parsedSyms]

theorem symEntries_length (big is32 : Bool) (off : Nat) (syms : List ElfImpl.Sym) :
    (symEntries big is32 off syms).length = (if is32 then 16 else 24) * syms.length := by
  induction syms generalizing off with
  | nil => simp [symEntries]
  | cons s syms ih =>
    obtain ⟨n, a⟩ := s
    simp only [symEntries, List.length_append, renderSym_length, ih, List.length_cons]
    cases is32 <;> simp <;> omega

/-- names and values of the exported symbols come back, and every name index lies inside the table -/
theorem globalSyms_names (pre : List Byte) (syms : List ElfImpl.Sym)
    (hn : ∀ s ∈ syms, (0 : Byte) ∉ s.1) (hv : ∀ s ∈ syms, s.2 < 4294967296)
    (hlen : (pre ++ symNames syms).length < 4294967296) :
    globalSyms (pre ++ symNames syms) (parsedSyms pre.length syms) = some syms ∧
    (parsedSyms pre.length syms).all (fun y => y.name < (pre ++ symNames syms).length ∧ y.info / 16 ≠ 0 ∧ y.shndx = 1) = true := by
  induction syms generalizing pre with
  | nil => simp [parsedSyms, globalSyms]
  | cons s syms ih =>
    obtain ⟨n, a⟩ := s
    have hn0 : (0 : Byte) ∉ n := hn (n, a) (by simp)
    have ha : a < 4294967296 := hv (n, a) (by simp)
    have hn' : ∀ s ∈ syms, (0 : Byte) ∉ s.1 := fun s hs => hn s (by simp [hs])
    have hv' : ∀ s ∈ syms, s.2 < 4294967296 := fun s hs => hv s (by simp [hs])
    have e : pre ++ symNames ((n, a) :: syms) = (pre ++ n ++ [0]) ++ symNames syms := by
      simp [symNames, List.append_assoc]
    have hlen' : ((pre ++ n ++ [0]) ++ symNames syms).length < 4294967296 := by rw [← e]; exact hlen
    obtain ⟨ih1, ih2⟩ := ih (pre ++ n ++ [0]) hn' hv' hlen'
    have hl : (pre ++ n ++ [0]).length = pre.length + n.length + 1 := by simp; omega
    rw [hl] at ih1 ih2
    have hpl : pre.length < 4294967296 := by simp at hlen; omega
    have hc : cstr (pre ++ symNames ((n, a) :: syms)) (u32 pre.length) = some n := by
      have : u32 pre.length = pre.length := by unfold u32; omega
      rw [this]
      simp only [symNames]
      exact cstr_at pre n _ hn0
    constructor
    · simp only [parsedSyms, globalSyms, normSym, hc]
      rw [e, ih1]
      have : u32 a = a := by unfold u32; omega
      simp [this]
    · simp only [parsedSyms, List.all_cons, Bool.and_eq_true]
      constructor
      · simp only [normSym]
        have : u32 pre.length = pre.length := by unfold u32; omega
        rw [this]
        simp [symNames]; omega
      · rw [e]; exact ih2

theorem symNames_getLast (syms : List ElfImpl.Sym) (pre : List Byte) :
    (pre ++ [0] ++ symNames syms).getLast? = some 0 := by
  induction syms generalizing pre with
  | nil => simp [symNames]
  | cons s syms ih =>
    obtain ⟨n, a⟩ := s
    have : pre ++ [0] ++ symNames ((n, a) :: syms) = (pre ++ [0] ++ n) ++ [0] ++ symNames syms := by
      simp [symNames, List.append_assoc]
    rw [this]; exact ih _

end NakenVerif.FileIO.ElfProofs
