import NakenVerif.FileIO.ProofsUf2
import NakenVerif.FileIO.Uf2ReadImpl
import NakenVerif.FileIO.ProofsElfReadBytes
/-
C03 / read_uf2: on every file the UF2 description accepts, the loader stores exactly the cells the description says.
-/
set_option linter.unusedSimpArgs false
namespace NakenVerif.FileIO.Uf2ReadProofs
open NakenVerif.FileIO Uf2Spec Uf2ReadImpl ElfReadImpl ElfReadProofs

/-- `get_int32` (little endian) on at least four remaining bytes is the format's word -/
theorem getInt32_take (l : List Byte) (h : 4 ≤ l.length) :
    ∃ v, le32? (l.take 4) = some v ∧ getInt32 false l = (v, l.drop 4) := by
  match l, h with
  | b0 :: b1 :: b2 :: b3 :: r, _ =>
    refine ⟨b0.toNat + 256 * b1.toNat + 65536 * b2.toNat + 16777216 * b3.toNat, by simp [le32?], ?_⟩
    have h0 := b0.toNat_lt; have h1 := b1.toNat_lt; have h2 := b2.toNat_lt; have h3 := b3.toNat_lt
    simp only [getInt32, orBytes, getc, cval, Bool.false_eq_true, if_false, List.drop_succ_cons, List.drop_zero]
    rw [le4 _ _ _ _ (by omega) (by omega) (by omega) (by omega)]

theorem word_take (file : List Byte) (off : Nat) (h : off + 4 ≤ 512) :
    word (file.take 512) off = le32? ((file.drop off).take 4) := by
  unfold word
  rw [List.drop_take, List.take_take]
  congr 2
  omega

theorem blockWrites_eq (a : Nat) (bs : List Byte) (i : Nat) : blockWrites a i bs = cellsMod a i bs := by
  induction bs generalizing i with
  | nil => rfl
  | cons b bs ih => simp [blockWrites, cellsMod, ih]

/-- one accepted block: what `read_block` delivers -/
theorem readBlock_of_decode (file : List Byte) (hl : 512 ≤ file.length) (cs : List (Nat × Byte))
    (hd : decodeBlock (file.take 512) = some cs) :
    ∃ b, readBlock file = (b, file.drop 512) ∧ b.magic0 = 0x0a324655 ∧ b.magic1 = 0x9e5d5157 ∧ b.magic2 = 0x0ab16f30 ∧
      b.byteCount ≤ 476 ∧
      cs = (if b.flags % 2 = 1 then [] else cellsMod b.address 0 (b.data.take b.byteCount)) := by
  have hlen : ∀ k, k + 4 ≤ 512 → 4 ≤ (file.drop k).length := by intro k hk; simp; omega
  obtain ⟨w0, e0, g0⟩ := getInt32_take file (by omega)
  obtain ⟨w1, e1, g1⟩ := getInt32_take (file.drop 4) (hlen 4 (by omega))
  obtain ⟨w2, e2, g2⟩ := getInt32_take (file.drop 8) (hlen 8 (by omega))
  obtain ⟨w3, e3, g3⟩ := getInt32_take (file.drop 12) (hlen 12 (by omega))
  obtain ⟨w4, e4, g4⟩ := getInt32_take (file.drop 16) (hlen 16 (by omega))
  obtain ⟨w5, e5, g5⟩ := getInt32_take (file.drop 20) (hlen 20 (by omega))
  obtain ⟨w6, e6, g6⟩ := getInt32_take (file.drop 24) (hlen 24 (by omega))
  obtain ⟨w7, _, g7⟩ := getInt32_take (file.drop 28) (hlen 28 (by omega))
  obtain ⟨w8, e8, g8⟩ := getInt32_take (file.drop 508) (hlen 508 (by omega))
  simp only [List.drop_drop] at g1 g2 g3 g4 g5 g6 g7 g8
  have hw : ∀ off, off + 4 ≤ 512 → word (file.take 512) off = le32? ((file.drop off).take 4) := word_take file
  have hw0 := hw 0 (by omega); rw [List.drop_zero, e0] at hw0
  have hw4 := hw 4 (by omega); rw [e1] at hw4
  have hw8 := hw 8 (by omega); rw [e2] at hw8
  have hw12 := hw 12 (by omega); rw [e3] at hw12
  have hw16 := hw 16 (by omega); rw [e4] at hw16
  have hw20 := hw 20 (by omega); rw [e5] at hw20
  have hw24 := hw 24 (by omega); rw [e6] at hw24
  have hw508 := hw 508 (by omega); rw [e8] at hw508
  have hdata : ((file.take 512).drop 32).take w4 = ((file.drop 32).take 476).take w4 ∨ 476 < w4 := by
    by_cases hh : w4 ≤ 476
    · left
      rw [List.drop_take, List.take_take, List.take_take]
      congr 1; omega
    · right; omega
  refine ⟨{ magic0 := w0, magic1 := w1, flags := w2, address := w3, byteCount := w4, magic2 := w8,
            data := (file.drop 32).take 476 }, ?_, ?_⟩
  · simp only [readBlock, g0, g1, g2, g3, g4, g5, g6, g7, List.drop_drop, g8]
  · simp only [decodeBlock, hw0, hw4, hw8, hw12, hw16, hw20, hw24, hw508] at hd
    split at hd
    · rename_i hc
      obtain ⟨c0, c1, c2, c3, _⟩ := hc
      refine ⟨c0, c1, c2, c3, ?_⟩
      rcases hdata with hdata | hdata
      · rw [hdata] at hd
        split at hd <;> simp_all
      · omega
    · simp at hd

theorem loop_of_decode : ∀ (fuel : Nat) (file : List Byte) (cells acc : List (Nat × Byte)),
    decodeBlocks fuel file = some cells →
    loop ((file.length + 511) / 512) file acc = { ret := 0, writes := acc ++ cells } := by
  intro fuel
  induction fuel with
  | zero =>
    intro file cells acc h
    cases file with
    | nil => simp [decodeBlocks] at h; subst h; simp [loop]
    | cons b bs => simp [decodeBlocks] at h
  | succ fuel ih =>
    intro file cells acc h
    cases file with
    | nil => simp [decodeBlocks] at h; subst h; simp [loop]
    | cons b0 bs =>
      simp only [decodeBlocks] at h
      split at h
      · simp at h
      · rename_i hlt
        have hl : 512 ≤ (b0 :: bs).length := by omega
        cases hd : decodeBlock ((b0 :: bs).take 512) with
        | none => rw [hd] at h; simp at h
        | some cs =>
          cases hr : decodeBlocks fuel ((b0 :: bs).drop 512) with
          | none => rw [hd, hr] at h; simp at h
          | some rest =>
            rw [hd, hr] at h
            simp only [Option.some.injEq] at h
            subst h
            obtain ⟨b, hb, m0, m1, m2, hbc, hcs⟩ := readBlock_of_decode (b0 :: bs) hl cs hd
            have hn : ((b0 :: bs).length + 511) / 512 = (((b0 :: bs).drop 512).length + 511) / 512 + 1 := by
              simp only [List.length_drop]; omega
            rw [hn]
            simp only [loop, hb, m0, m1, m2, ne_eq, not_true_eq_false, or_self, if_false]
            by_cases hfl : b.flags % 2 = 1
            · simp only [hfl, if_true] at hcs ⊢
              rw [ih _ rest acc hr, hcs]; simp
            · simp only [hfl, if_false] at hcs ⊢
              have : ¬ b.byteCount > 476 := by omega
              simp only [this, if_false]
              rw [ih _ rest _ hr, hcs, blockWrites_eq, List.append_assoc]

/-- **read_uf2 refines the UF2 description**: whenever the format description accepts a file, `read_uf2` returns 0
and stores exactly the described cells, in order -/
theorem read_of_decode (file : List Byte) (cells : List (Nat × Byte)) (h : decode file = some cells) :
    Uf2ReadImpl.read file = { ret := 0, writes := cells } := by
  unfold Uf2ReadImpl.read
  rw [loop_of_decode file.length file cells [] h]
  simp

end NakenVerif.FileIO.Uf2ReadProofs
