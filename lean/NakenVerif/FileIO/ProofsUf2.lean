import NakenVerif.FileIO.Uf2Impl
import NakenVerif.FileIO.Uf2Spec
import NakenVerif.FileIO.ProofsChunk
namespace NakenVerif.FileIO
namespace Uf2Spec
open Uf2Impl

theorem le32?_le32 (v : Nat) (h : v < 2 ^ 32) : le32? (le32 v) = some v := by
  simp only [le32, le32?, UInt8.toNat_ofNat', Option.some.injEq]
  omega

/-- a complete 512-byte block as the format description lays it out -/
def blk (addr no total fam : Nat) (payload : List Byte) : List Byte :=
  header addr no total fam ++ (payload ++ (List.replicate (476 - payload.length) 0 ++ footer))

theorem header_length (a n t f : Nat) : (header a n t f).length = 32 := by simp [header, le32]

theorem blk_length (a n t f : Nat) (p : List Byte) (hp : p.length ≤ 476) : (blk a n t f p).length = 512 := by
  simp only [blk, List.length_append, header_length, List.length_replicate, footer, le32, List.length_cons,
    List.length_nil]
  omega

theorem word_header (a n t f : Nat) (rest : List Byte) (ha : a < 2 ^ 32) (hn : n < 2 ^ 32) (ht : t < 2 ^ 32) :
    word (header a n t f ++ rest) 0 = some 0x0A324655 ∧ word (header a n t f ++ rest) 4 = some 0x9E5D5157 ∧
    word (header a n t f ++ rest) 8 = some 0x2000 ∧ word (header a n t f ++ rest) 12 = some a ∧
    word (header a n t f ++ rest) 16 = some 256 ∧ word (header a n t f ++ rest) 20 = some n ∧
    word (header a n t f ++ rest) 24 = some t := by
  have ea := le32?_le32 a ha
  have en := le32?_le32 n hn
  have et := le32?_le32 t ht
  simp only [le32] at ea en et
  refine ⟨?_, ?_, ?_, ?_, ?_, ?_, ?_⟩ <;>
    simp only [word, header, le32, List.cons_append, List.nil_append, List.drop_succ_cons, List.drop_zero,
      List.take_succ_cons, List.take_zero]
  · decide
  · decide
  · decide
  · exact ea
  · decide
  · exact en
  · exact et

theorem footer_length : footer.length = 4 := rfl

theorem le32?_footer : le32? footer = some 0x0AB16F30 := by decide

theorem word_footer (a n t f : Nat) (p : List Byte) (hp : p.length ≤ 476) :
    word (blk a n t f p) 508 = some 0x0AB16F30 := by
  have e : blk a n t f p = (header a n t f ++ p ++ List.replicate (476 - p.length) 0) ++ footer := by
    simp only [blk, List.append_assoc]
  have hl : (header a n t f ++ p ++ List.replicate (476 - p.length) 0).length = 508 := by
    simp only [List.length_append, header_length, List.length_replicate]
    omega
  rw [word, e, List.drop_left' hl, List.take_of_length_le (by simp [footer_length])]
  exact le32?_footer

theorem payload_blk (a n t f : Nat) (p : List Byte) (hp : p.length ≤ 256) :
    ((blk a n t f p).drop 32).take 256 = p ++ List.replicate (256 - p.length) 0 := by
  rw [blk, List.drop_left' (header_length a n t f), List.take_append, List.take_of_length_le hp,
    List.take_append, List.take_replicate, List.length_replicate]
  have h1 : min (256 - p.length) (476 - p.length) = 256 - p.length := by omega
  have h2 : 256 - p.length - (476 - p.length) = 0 := by omega
  rw [h1, h2, List.take_zero, List.append_nil]

theorem decodeBlock_blk (a n t f : Nat) (p : List Byte) (hp : p.length ≤ 256) (ha : a < 2 ^ 32)
    (hn : n < t) (ht : t < 2 ^ 32) :
    decodeBlock (blk a n t f p) = some (cellsMod a 0 (p ++ List.replicate (256 - p.length) 0)) := by
  have hw := word_header a n t f (p ++ (List.replicate (476 - p.length) 0 ++ footer)) ha (by omega) ht
  have hf := word_footer a n t f p (by omega)
  have hpay := payload_blk a n t f p hp
  obtain ⟨w0, w4, w8, w12, w16, w20, w24⟩ := hw
  unfold decodeBlock
  rw [show header a n t f ++ (p ++ (List.replicate (476 - p.length) 0 ++ footer)) = blk a n t f p from rfl]
    at w0 w4 w8 w12 w16 w20 w24
  rw [w0, w4, w8, w12, w16, w20, w24, hf]
  simp only [hpay, hn, and_true, true_and]
  rw [if_pos (by decide), if_neg (by decide)]

/-! ### the writer in block form -/

theorem blockLoop_nil_zero (total i block : Nat) : blockLoop total i [] 0 block = [] := by
  simp [blockLoop]

/-- bytes appended inside a block already begun -/
theorem blockLoop_mid (total : Nat) (rest : List Byte) : ∀ (xs : List Byte) (i ptr block : Nat),
    0 < ptr → ptr + xs.length < 256 →
    blockLoop total i (xs ++ rest) ptr block =
      xs ++ blockLoop total (i + xs.length) rest (ptr + xs.length) block := by
  intro xs
  induction xs with
  | nil => intro i ptr block _ _; simp
  | cons x xs ih =>
    intro i ptr block h0 hlt
    simp only [List.length_cons] at hlt
    have h1 : ¬ ptr = 0 := by omega
    have h2 : ¬ ptr + 1 = 256 := by omega
    simp only [List.cons_append, blockLoop, if_neg h1, if_neg h2, List.nil_append, List.length_cons]
    rw [ih (i + 1) (ptr + 1) block (by omega) (by omega)]
    rw [show i + 1 + xs.length = i + (xs.length + 1) by omega,
      show ptr + 1 + xs.length = ptr + (xs.length + 1) by omega]

/-- bytes that complete a block already begun -/
theorem blockLoop_close (total : Nat) (rest : List Byte) : ∀ (xs : List Byte) (i ptr block : Nat),
    0 < ptr → xs ≠ [] → ptr + xs.length = 256 →
    blockLoop total i (xs ++ rest) ptr block =
      xs ++ (List.replicate 220 0 ++ footer ++ blockLoop total (i + xs.length) rest 0 (block + 1)) := by
  intro xs
  induction xs with
  | nil => intro i ptr block _ h; exact absurd rfl h
  | cons x xs ih =>
    intro i ptr block h0 _ hlen
    simp only [List.length_cons] at hlen
    have h1 : ¬ ptr = 0 := by omega
    by_cases hxs : xs = []
    · subst hxs
      simp only [List.length_nil] at hlen
      simp only [List.cons_append, List.nil_append, blockLoop, if_neg h1, if_pos hlen, List.length_cons,
        List.length_nil]
    · have hl : 0 < xs.length := List.length_pos_iff.mpr hxs
      have h2 : ¬ ptr + 1 = 256 := by omega
      simp only [List.cons_append, blockLoop, if_neg h1, if_neg h2, List.nil_append, List.length_cons]
      rw [ih (i + 1) (ptr + 1) block (by omega) hxs (by omega)]
      rw [show i + 1 + xs.length = i + (xs.length + 1) by omega]

/-- a full 256-byte chunk at a block boundary is written as one complete block -/
theorem blockLoop_full (total i block : Nat) (chunk rest : List Byte) (hc : chunk.length = 256) :
    blockLoop total i (chunk ++ rest) 0 block =
      blk i block total 0xe48bff59 chunk ++ blockLoop total (i + 256) rest 0 (block + 1) := by
  cases chunk with
  | nil => simp at hc
  | cons c cs =>
    simp only [List.length_cons] at hc
    have hcs : cs ≠ [] := by intro h; subst h; simp at hc
    simp only [List.cons_append, blockLoop, if_true, show ¬ (0 + 1 = 256) by decide, if_false]
    rw [blockLoop_close total rest cs (i + 1) (0 + 1) block (by omega) hcs (by omega)]
    simp only [blk, List.length_cons, List.append_assoc, List.cons_append]
    rw [show 476 - (cs.length + 1) = 220 by omega, show i + 1 + cs.length = i + 256 by omega]

/-- a last, shorter chunk is zero-padded to a complete block -/
theorem blockLoop_last (total i block : Nat) (chunk : List Byte) (h0 : chunk ≠ []) (hc : chunk.length < 256) :
    blockLoop total i chunk 0 block = blk i block total 0xe48bff59 chunk := by
  cases chunk with
  | nil => exact absurd rfl h0
  | cons c cs =>
    simp only [List.length_cons] at hc
    simp only [blockLoop, if_true, show ¬ (0 + 1 = 256) by decide, if_false]
    have := blockLoop_mid total [] cs (i + 1) (0 + 1) block (by omega) (by omega)
    rw [List.append_nil] at this
    rw [this]
    have h1 : 0 + 1 + cs.length ≠ 0 := by omega
    simp only [blockLoop, if_pos h1, blk, List.length_cons, List.cons_append]
    rw [show 476 - (0 + 1 + cs.length) = 476 - (cs.length + 1) by omega]

theorem blockLoop_length_ge (total : Nat) : ∀ (xs : List Byte) (i ptr block : Nat),
    xs.length ≤ (blockLoop total i xs ptr block).length := by
  intro xs
  induction xs with
  | nil => intros; simp
  | cons x xs ih =>
    intro i ptr block
    simp only [blockLoop, List.length_append, List.length_cons]
    by_cases h : ptr + 1 = 256
    · have := ih (i + 1) 0 (block + 1)
      simp only [if_pos h, List.length_append]
      omega
    · have := ih (i + 1) (ptr + 1) block
      simp only [if_neg h]
      omega

/-! ### decoding a sequence of blocks -/

theorem decodeBlocks_cons (fuel : Nat) (b rest : List Byte) (cs rs : List (Nat × Byte))
    (hl : b.length = 512) (hb : decodeBlock b = some cs) (hr : decodeBlocks fuel rest = some rs) :
    decodeBlocks (fuel + 1) (b ++ rest) = some (cs ++ rs) := by
  cases b with
  | nil => simp at hl
  | cons x xs =>
    rw [List.cons_append, decodeBlocks]
    · rw [← List.cons_append, List.take_left' hl, List.drop_left' hl, hb, hr]
      have : ¬ ((x :: xs) ++ rest).length < 512 := by
        rw [List.length_append, hl]; omega
      simp only [if_neg this]
    · intro h; cases h

/-! ### `cellsMod` -/

theorem cellsMod_append (a : Nat) : ∀ (xs ys : List Byte) (j : Nat),
    cellsMod a j (xs ++ ys) = cellsMod a j xs ++ cellsMod a (j + xs.length) ys := by
  intro xs
  induction xs with
  | nil => intro ys j; simp [cellsMod]
  | cons x xs ih =>
    intro ys j
    simp only [List.cons_append, cellsMod, ih, List.length_cons]
    rw [show j + 1 + xs.length = j + (xs.length + 1) by omega]

theorem cellsMod_shift (a k : Nat) : ∀ (xs : List Byte) (j : Nat),
    cellsMod a (k + j) xs = cellsMod (a + k) j xs := by
  intro xs
  induction xs with
  | nil => intro j; simp [cellsMod]
  | cons x xs ih =>
    intro j
    simp only [cellsMod]
    rw [show k + j + 1 = k + (j + 1) by omega, ih (j + 1), show a + (k + j) = a + k + j by omega]

theorem cellsMod_eq_cellsAt_aux (a : Nat) : ∀ (xs : List Byte) (j : Nat), a + j + xs.length ≤ 2 ^ 32 →
    cellsMod a j xs = cellsAt (a + j) xs := by
  intro xs
  induction xs with
  | nil => intro j _; simp [cellsMod]
  | cons x xs ih =>
    intro j h
    simp only [List.length_cons] at h
    simp only [cellsMod, cellsAt]
    rw [ih (j + 1) (by omega), Nat.mod_eq_of_lt (by omega), show a + (j + 1) = a + j + 1 by omega]

/-- below 2^32 the addresses of a block do not wrap -/
theorem cellsMod_eq_cellsAt (a : Nat) (xs : List Byte) (h : a + xs.length ≤ 2 ^ 32) :
    cellsMod a 0 xs = cellsAt a xs :=
  cellsMod_eq_cellsAt_aux a xs 0 (by omega)

theorem mem_cellsMod (a : Nat) : ∀ (xs : List Byte) (j i : Nat) (hi : i < xs.length),
    ((a + j + i) % 2 ^ 32, xs[i]) ∈ cellsMod a j xs := by
  intro xs
  induction xs with
  | nil => intro j i hi; simp at hi
  | cons x xs ih =>
    intro j i hi
    cases i with
    | zero => simp [cellsMod]
    | succ i =>
      simp only [List.length_cons] at hi
      simp only [cellsMod, List.getElem_cons_succ, List.mem_cons]
      right
      have := ih (j + 1) i (by omega)
      rw [show a + (j + 1) + i = a + j + (i + 1) by omega] at this
      exact this

/-! ### the whole file -/

/-- what the image bytes look like after padding the last block to 256 -/
def uf2Padded (data : List Byte) : List Byte := data ++ List.replicate ((256 - data.length % 256) % 256) 0

theorem uf2Padded_nil : uf2Padded [] = [] := by decide

theorem uf2Padded_short (data : List Byte) (h0 : data ≠ []) (h : data.length < 256) :
    uf2Padded data = data ++ List.replicate (256 - data.length) 0 := by
  have : 0 < data.length := List.length_pos_iff.mpr h0
  rw [uf2Padded, Nat.mod_eq_of_lt h, Nat.mod_eq_of_lt (by omega)]

theorem uf2Padded_long (data : List Byte) (h : 256 ≤ data.length) :
    uf2Padded data = data.take 256 ++ uf2Padded (data.drop 256) := by
  have e : (256 - (data.length - 256) % 256) % 256 = (256 - data.length % 256) % 256 := by omega
  rw [uf2Padded, uf2Padded, List.length_drop, e, ← List.append_assoc, List.take_append_drop]

/-- the code loop started at a block boundary, decoded: `data` and the padding of the last block at
consecutive addresses from `i` -/
theorem decodeBlocks_blockLoop (total : Nat) (ht : total < 2 ^ 32) : ∀ (k : Nat) (data : List Byte)
    (i block fuel : Nat), data.length ≤ 256 * k → i + data.length ≤ 2 ^ 32 →
    block + (data.length + 255) / 256 = total → (data.length + 255) / 256 ≤ fuel →
    decodeBlocks fuel (blockLoop total i data 0 block) = some (cellsMod i 0 (uf2Padded data)) := by
  intro k
  induction k with
  | zero =>
    intro data i block fuel hk _ _ _
    have : data = [] := List.eq_nil_of_length_eq_zero (by omega)
    subst this
    rw [blockLoop_nil_zero, uf2Padded_nil]
    cases fuel <;> rfl
  | succ k ih =>
    intro data i block fuel hk hi hb hf
    by_cases h0 : data = []
    · subst h0
      rw [blockLoop_nil_zero, uf2Padded_nil]
      cases fuel <;> rfl
    · have hpos : 0 < data.length := List.length_pos_iff.mpr h0
      cases fuel with
      | zero => omega
      | succ fuel =>
        by_cases hlt : data.length < 256
        · rw [blockLoop_last total i block data h0 hlt, uf2Padded_short data h0 hlt]
          have hd := decodeBlock_blk i block total 0xe48bff59 data (by omega) (by omega) (by omega) ht
          have := decodeBlocks_cons fuel _ [] _ [] (blk_length i block total 0xe48bff59 data (by omega)) hd
            (by cases fuel <;> rfl)
          rw [List.append_nil, List.append_nil] at this
          exact this
        · have hge : 256 ≤ data.length := by omega
          have htl : (data.take 256).length = 256 := by rw [List.length_take]; omega
          have hdl : (data.drop 256).length = data.length - 256 := List.length_drop
          have hsplit : blockLoop total i data 0 block =
              blk i block total 0xe48bff59 (data.take 256) ++
                blockLoop total (i + 256) (data.drop 256) 0 (block + 1) := by
            rw [← blockLoop_full total i block (data.take 256) (data.drop 256) htl, List.take_append_drop]
          have hd := decodeBlock_blk i block total 0xe48bff59 (data.take 256) (by omega) (by omega)
            (by omega) ht
          rw [htl, Nat.sub_self, List.replicate_zero, List.append_nil] at hd
          have hr := ih (data.drop 256) (i + 256) (block + 1) fuel (by omega) (by omega) (by omega) (by omega)
          rw [hsplit, decodeBlocks_cons fuel _ _ _ _
            (blk_length i block total 0xe48bff59 (data.take 256) (by omega)) hd hr,
            uf2Padded_long data hge, cellsMod_append, htl, Nat.zero_add]
          have hs := cellsMod_shift i 256 (uf2Padded (data.drop 256)) 0
          rw [Nat.add_zero] at hs
          rw [hs]

theorem efBlock_eq : efBlock = blk 0x10ffff00 0 2 0xe48bff57 (List.replicate 256 0xef) := by
  simp only [efBlock, blk, List.length_replicate, List.append_assoc]

theorem decodeBlock_efBlock : decodeBlock efBlock = some (cellsAt 0x10ffff00 (List.replicate 256 0xef)) := by
  rw [efBlock_eq, decodeBlock_blk _ _ _ _ _ (by rw [List.length_replicate]; omega) (by decide) (by decide)
      (by decide),
    List.length_replicate, Nat.sub_self, List.replicate_zero, List.append_nil,
    cellsMod_eq_cellsAt _ _ (by rw [List.length_replicate]; omega)]

/-- Exact content of the written file per the UF2 description: the extra 0xEF block, then the bytes
of [low, high] (gaps zero) and the zero padding of the last block, at consecutive addresses from low
(modulo 2^32: the padding of the last block can run past 0xffffffff). -/
theorem uf2_decode_write (img : Image) (h : img.WF) :
    Uf2Spec.decode (Uf2Impl.write img) =
      some (cellsAt 0x10ffff00 (List.replicate 256 0xef) ++
            Uf2Spec.cellsMod img.low 0 (uf2Padded (img.cells.map (fun c => c.getD 0)))) := by
  unfold Image.WF at h
  have hdl : (img.cells.map (fun c => c.getD 0)).length = img.cells.length := List.length_map _
  have hel : efBlock.length = 512 := by rw [efBlock_eq]; exact blk_length _ _ _ _ _ (by rw [List.length_replicate]; omega)
  have hge := blockLoop_length_ge ((img.cells.length + 255) / 256) (img.cells.map (fun c => c.getD 0)) img.low 0 0
  rw [hdl] at hge
  simp only [decode, write, hdl]
  rw [List.length_append, hel,
    show 512 + (blockLoop ((img.cells.length + 255) / 256) img.low (img.cells.map (fun c => c.getD 0)) 0 0).length =
      (511 + (blockLoop ((img.cells.length + 255) / 256) img.low (img.cells.map (fun c => c.getD 0)) 0 0).length) + 1
      by omega]
  apply decodeBlocks_cons _ _ _ _ _ hel decodeBlock_efBlock
  apply decodeBlocks_blockLoop _ (by omega) img.cells.length
  · rw [hdl]; omega
  · rw [hdl]; omega
  · rw [hdl]; omega
  · rw [hdl]; omega

/-- filler reading: every address of [low, high] is carried with its assembled byte (or 0 for a gap) -/
theorem uf2_carries_image (img : Image) (h : img.WF) (i : Nat) (hi : i < img.cells.length) :
    ∃ cs, Uf2Spec.decode (Uf2Impl.write img) = some cs ∧ (img.low + i, (img.cells[i]'hi).getD 0) ∈ cs := by
  refine ⟨_, uf2_decode_write img h, ?_⟩
  apply List.mem_append_right
  unfold Image.WF at h
  have hdl : (img.cells.map (fun c => c.getD 0)).length = img.cells.length := List.length_map _
  have hi' : i < (uf2Padded (img.cells.map (fun c => c.getD 0))).length := by
    rw [uf2Padded, List.length_append, hdl]; omega
  have hm := mem_cellsMod img.low (uf2Padded (img.cells.map (fun c => c.getD 0))) 0 i hi'
  rw [Nat.add_zero, Nat.mod_eq_of_lt (by omega)] at hm
  have he : (uf2Padded (img.cells.map (fun c => c.getD 0)))[i] = (img.cells[i]'hi).getD 0 := by
    simp only [uf2Padded]
    rw [List.getElem_append_left (by rw [hdl]; exact hi), List.getElem_map]
  rw [he] at hm
  exact hm

/-- the extra block is "other program bytes": (0x10ffff00, 0xEF) is in every written file -/
theorem uf2_ef_block_present (img : Image) (h : img.WF) :
    ∃ cs, Uf2Spec.decode (Uf2Impl.write img) = some cs ∧ (0x10ffff00, (0xef : Byte)) ∈ cs := by
  refine ⟨_, uf2_decode_write img h, ?_⟩
  apply List.mem_append_left
  rw [show (256 : Nat) = 255 + 1 from rfl, List.replicate_succ, cellsAt]
  exact List.mem_cons_self

end Uf2Spec
end NakenVerif.FileIO
