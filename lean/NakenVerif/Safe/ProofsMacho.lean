import NakenVerif.Safe.Macho
import NakenVerif.Safe.ProofsCFile
/-
C17 — read_macho (as fixed) on every byte string: no loop outlives its fuel `f.size + 2` (every round starts
below the end of the file and reads at least one byte; the stream never moves backwards across rounds),
`name[]` is never indexed outside its capacity.
-/
namespace NakenVerif.Safe.Macho
open NakenVerif.Safe

theorem textLoop_ok (f : Bytes) (addr size : BitVec 64) : ∀ (fuel : Nat) (t : BitVec 32) (p : FPos) (m : Mem),
    f.size - p.pos < fuel → ∃ m', textLoop f addr size fuel t p m = .ok m' := by
  intro fuel
  induction fuel with
  | zero => intro t p m h; omega
  | succ fuel ih =>
    intro t p m h
    unfold textLoop
    split
    · generalize hg : getc f p = cp
      obtain ⟨c, p1⟩ := cp
      simp only
      cases c with
      | none => exact ⟨m, rfl⟩
      | some b =>
        have hs := getc_some (f := f) (p := p) (b := b) (by rw [hg])
        rw [hg] at hs
        simp only at hs
        exact ih _ _ _ (by omega)
    · exact ⟨m, rfl⟩

theorem readSection_reads (be bits64 : Bool) (f : Bytes) (p : FPos) :
    Reads f p (readSection be bits64 f p).2 ∧
    (∀ s, (readSection be bits64 f p).1 = some s → p.pos < (readSection be bits64 f p).2.pos) := by
  unfold readSection
  simp only []
  have h1 := fread_reads f p 16
  by_cases c1 : (fread f p 16).1.length ≠ 16
  · rw [if_pos c1]; exact ⟨h1, by intro s hs; simp at hs⟩
  · rw [if_neg c1]
    have hfull := fread_full (f := f) (p := p) (n := 16) (by omega) (by omega)
    generalize fread f p 16 = r1 at h1 hfull
    obtain ⟨sn, p1⟩ := r1
    simp only [] at h1 hfull ⊢
    have h2 := fread_reads f p1 16
    by_cases c2 : (fread f p1 16).1.length ≠ 16
    · rw [if_pos c2]; exact ⟨h1.trans h2, by intro s hs; simp at hs⟩
    · rw [if_neg c2]
      generalize fread f p1 16 = r2 at h2
      obtain ⟨gn, p2⟩ := r2
      simp only [] at h2 ⊢
      have hr : ∀ q, Reads f p2 q → Reads f p q ∧ p.pos < q.pos := by
        intro q hq
        have := h1.trans (h2.trans hq)
        exact ⟨this, by have := h2.1; have := hq.1; omega⟩
      cases bits64
      · simp only [Bool.false_eq_true, ↓reduceIte]
        have := hr _ ((((((((((getInt32_readsSome be f p2).reads.trans (getInt32_readsSome be f _).reads).trans
          (getInt32_readsSome be f _).reads).trans (getInt32_readsSome be f _).reads).trans (getInt32_readsSome be f _).reads).trans
          (getInt32_readsSome be f _).reads).trans (getInt32_readsSome be f _).reads).trans (getInt32_readsSome be f _).reads).trans
          (getInt32_readsSome be f _).reads).trans (getInt32_readsSome be f _).reads)
        exact ⟨this.1, fun _ _ => this.2⟩
      · simp only [↓reduceIte]
        have := hr _ ((((((((((getInt64_readsSome be f p2).reads.trans (getInt64_readsSome be f _).reads).trans
          (getInt32_readsSome be f _).reads).trans (getInt32_readsSome be f _).reads).trans (getInt32_readsSome be f _).reads).trans
          (getInt32_readsSome be f _).reads).trans (getInt32_readsSome be f _).reads).trans (getInt32_readsSome be f _).reads).trans
          (getInt32_readsSome be f _).reads).trans (getInt32_readsSome be f _).reads)
        exact ⟨this.1, fun _ _ => this.2⟩

theorem readSegmentLoad_reads (be bits64 : Bool) (f : Bytes) (p : FPos) :
    Reads f p (readSegmentLoad be bits64 f p).2 := by
  unfold readSegmentLoad
  simp only []
  have h1 := fread_reads f p 16
  by_cases c1 : (fread f p 16).1.length ≠ 16
  · rw [if_pos c1]; exact h1
  · rw [if_neg c1]
    generalize fread f p 16 = r1 at h1
    obtain ⟨sn, p1⟩ := r1
    simp only [] at h1 ⊢
    cases bits64
    · simp only [Bool.false_eq_true, ↓reduceIte]
      exact h1.trans ((((((((getInt32_readsSome be f p1).reads.trans (getInt32_readsSome be f _).reads).trans
        (getInt32_readsSome be f _).reads).trans (getInt32_readsSome be f _).reads).trans (getInt32_readsSome be f _).reads).trans
        (getInt32_readsSome be f _).reads).trans (getInt32_readsSome be f _).reads).trans (getInt32_readsSome be f _).reads)
    · simp only [↓reduceIte]
      exact h1.trans ((((((((getInt64_readsSome be f p1).reads.trans (getInt64_readsSome be f _).reads).trans
        (getInt64_readsSome be f _).reads).trans (getInt64_readsSome be f _).reads).trans (getInt32_readsSome be f _).reads).trans
        (getInt32_readsSome be f _).reads).trans (getInt32_readsSome be f _).reads).trans (getInt32_readsSome be f _).reads)

theorem readSymbol_readsSome (be bits64 : Bool) (f : Bytes) (p : FPos) :
    ReadsSome f p (readSymbol be bits64 f p).2 := by
  unfold readSymbol
  cases bits64
  · simp only [Bool.false_eq_true, ↓reduceIte]
    exact ((((getInt32_readsSome be f p).trans (getc_readsSome f _).reads).trans (getc_readsSome f _).reads).trans
      (getInt16_readsSome be f _).reads).trans (getInt32_readsSome be f _).reads
  · simp only [↓reduceIte]
    exact ((((getInt32_readsSome be f p).trans (getc_readsSome f _).reads).trans (getc_readsSome f _).reads).trans
      (getInt16_readsSome be f _).reads).trans (getInt64_readsSome be f _).reads

theorem sectionLoop_ok (maxOff : Nat) (f : Bytes) (be bits64 : Bool) :
    ∀ (fuel left : Nat) (p : FPos) (st : St), f.size - p.pos < fuel →
      ∃ q st', sectionLoop maxOff f be bits64 fuel left p st = .ok (q, st') ∧ p.pos ≤ q.pos := by
  intro fuel
  induction fuel with
  | zero => intro left p st h; omega
  | succ fuel ih =>
    intro left p st h
    unfold sectionLoop
    by_cases c0 : left = 0
    · rw [if_pos c0]; exact ⟨_, _, rfl, Nat.le_refl _⟩
    · rw [if_neg c0]
      by_cases c1 : p.pos ≥ f.size
      · rw [if_pos c1]; exact ⟨_, _, rfl, Nat.le_refl _⟩
      · rw [if_neg c1]
        have hs := readSection_reads be bits64 f p
        generalize readSection be bits64 f p = r at hs
        obtain ⟨os, p1⟩ := r
        simp only [] at hs ⊢
        cases os with
        | none => exact ⟨_, _, rfl, hs.1.1⟩
        | some s =>
          have hlt := hs.2 s rfl
          simp only []
          split
          · obtain ⟨m, hm⟩ := textLoop_ok f s.address s.size (f.size + 2) 0#32 (seekSet maxOff p1 (u64 s.offset)) st.mem (by omega)
            rw [hm]
            simp only []
            obtain ⟨q, st', hq, hle⟩ := ih (left - 1) (restore p1 p1.pos) _ (by simp only [restore]; omega)
            exact ⟨q, st', hq, by simp only [restore] at hle; omega⟩
          · obtain ⟨q, st', hq, hle⟩ := ih (left - 1) p1 st (by omega)
            exact ⟨q, st', hq, by omega⟩

theorem symbolLoop_ok (maxOff : Nat) (f : Bytes) (cap : Nat) (hcap : 2 ≤ cap) (be bits64 : Bool) (strtab : BitVec 32) :
    ∀ (fuel left : Nat) (p : FPos) (syms : List (List UInt8 × Nat)), f.size - p.pos < fuel →
      ∃ s, symbolLoop maxOff f cap be bits64 strtab fuel left p syms = .ok s := by
  intro fuel
  induction fuel with
  | zero => intro left p syms h; omega
  | succ fuel ih =>
    intro left p syms h
    unfold symbolLoop
    by_cases c0 : left = 0
    · rw [if_pos c0]; exact ⟨_, rfl⟩
    · rw [if_neg c0]
      by_cases c1 : p.pos ≥ f.size
      · rw [if_pos c1]; exact ⟨_, rfl⟩
      · rw [if_neg c1]
        have hr := readSymbol_readsSome be bits64 f p
        generalize readSymbol be bits64 f p = r at hr
        obtain ⟨s, p1⟩ := r
        simp only [] at hr ⊢
        have := hr.2 (by omega)
        split
        · obtain ⟨name, hn, _⟩ := getStringAtOffset_ok maxOff f cap hcap p1 (u64 (strtab + s.stringIndex))
          rw [hn]
          exact ih _ _ _ (by omega)
        · exact ih _ _ _ (by omega)

theorem commandLoop_ok (maxOff : Nat) (f : Bytes) (cap : Nat) (hcap : 2 ≤ cap) (be bits64 : Bool) :
    ∀ (fuel left : Nat) (p : FPos) (st : St), f.size - p.pos < fuel →
      ∃ st', commandLoop maxOff f cap be bits64 fuel left p st = .ok st' := by
  intro fuel
  induction fuel with
  | zero => intro left p st h; omega
  | succ fuel ih =>
    intro left p st h
    unfold commandLoop
    by_cases c0 : left = 0
    · rw [if_pos c0]; exact ⟨_, rfl⟩
    · rw [if_neg c0]
      by_cases c1 : p.pos ≥ f.size
      · rw [if_pos c1]; exact ⟨_, rfl⟩
      · rw [if_neg c1]
        simp only []
        have ha := getInt32_readsSome be f p
        generalize getInt32 be f p = r1 at ha
        obtain ⟨type, p1⟩ := r1
        have hb := getInt32_readsSome be f p1
        generalize getInt32 be f p1 = r2 at hb
        obtain ⟨size, p2⟩ := r2
        simp only [] at ha hb ⊢
        have hp1 := ha.2 (by omega)
        have hp2 := hb.1.1
        split
        · have hs := readSegmentLoad_reads be bits64 f p2
          generalize readSegmentLoad be bits64 f p2 = r3 at hs
          obtain ⟨oc, p3⟩ := r3
          simp only [] at hs ⊢
          cases oc with
          | none => exact ih _ _ _ (by have := hs.1; omega)
          | some count =>
            simp only []
            obtain ⟨q, st1, hq, hle⟩ := sectionLoop_ok maxOff f be bits64 (f.size + 2) count.toNat p3 st (by omega)
            rw [hq]
            exact ih _ _ _ (by have := hs.1; omega)
        · split
          · have h3 := getInt32_readsSome be f p2
            generalize getInt32 be f p2 = r3 at h3
            obtain ⟨symoff, p3⟩ := r3
            have h4 := getInt32_readsSome be f p3
            generalize getInt32 be f p3 = r4 at h4
            obtain ⟨nsyms, p4⟩ := r4
            have h5 := getInt32_readsSome be f p4
            generalize getInt32 be f p4 = r5 at h5
            obtain ⟨stroff, p5⟩ := r5
            have h6 := getInt32_readsSome be f p5
            generalize getInt32 be f p5 = r6 at h6
            obtain ⟨_, p6⟩ := r6
            simp only [] at h3 h4 h5 h6 ⊢
            obtain ⟨syms, hsy⟩ := symbolLoop_ok maxOff f cap hcap be bits64 stroff (f.size + 2) nsyms.toNat
              (seekSet maxOff p6 (u64 symoff)) st.syms (by omega)
            rw [hsy]
            exact ih _ _ _ (by simp only [restore]; have := h3.1.1; have := h4.1.1; have := h5.1.1; have := h6.1.1; omega)
          · exact ih _ _ _ (by simp only []; omega)

theorem runCommands_ok (maxOff : Nat) (f : Bytes) (cap : Nat) (hcap : 2 ≤ cap) (be bits64 : Bool) (n : Nat) (p : FPos) :
    ∃ r, runCommands maxOff f cap be bits64 n p = .ok r := by
  unfold runCommands
  obtain ⟨st, hst⟩ := commandLoop_ok maxOff f cap hcap be bits64 (f.size + 2) n p {} (by omega)
  rw [hst]
  exact ⟨_, rfl⟩

/-- `read_macho` loads or rejects every byte string (any `name[]` capacity of at least 2; the code has 128) -/
theorem read_total (maxOff : Nat) (f : Bytes) (cap : Nat) (hcap : 2 ≤ cap) : ∃ r, read maxOff f cap = .ok r := by
  unfold read
  simp only []
  split <;> (split <;> first | exact ⟨_, rfl⟩ | exact runCommands_ok maxOff f cap hcap _ _ _ _)

end NakenVerif.Safe.Macho
