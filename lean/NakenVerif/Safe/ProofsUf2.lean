import NakenVerif.Safe.Uf2
import NakenVerif.Safe.ProofsCFile
/- C17 — read_uf2 never indexes `uf2_block.data` outside its capacity (with the byte count check of the fix). -/
namespace NakenVerif.Safe.Uf2
open NakenVerif.Safe

theorem copyLoop_ok (cap : Nat) (data : List UInt8) :
    ∀ (k n a : Nat) (m : Mem), n + k ≤ cap → ∃ m', copyLoop cap data k n a m = .ok m' := by
  intro k
  induction k with
  | zero => intro n a m _; exact ⟨m, rfl⟩
  | succ k ih =>
    intro n a m h
    unfold copyLoop dataAt
    rw [if_pos (by omega)]
    exact ih _ _ _ (by omega)

/-- without the check the copy loop faults exactly when the count passes the capacity -/
theorem copyLoop_fault (cap : Nat) (data : List UInt8) :
    ∀ (k n a : Nat) (m : Mem), n ≤ cap → cap < n + k → copyLoop cap data k n a m = .error .index := by
  intro k
  induction k with
  | zero => intro n a m h1 h2; omega
  | succ k ih =>
    intro n a m h1 h2
    unfold copyLoop dataAt
    by_cases hn : n < cap
    · rw [if_pos hn]; exact ih _ _ _ (by omega) (by omega)
    · rw [if_neg hn]

theorem blockLoop_ok (f : Bytes) (cap : Nat) :
    ∀ (k : Nat) (p : FPos) (old : List UInt8) (m : Mem), ∃ r, blockLoop true f cap k p old m = .ok r := by
  intro k
  induction k with
  | zero => intro p old m; exact ⟨_, rfl⟩
  | succ k ih =>
    intro p old m
    unfold blockLoop
    generalize readBlock f cap old p = bp
    obtain ⟨b, p1⟩ := bp
    simp only
    split
    · exact ⟨_, rfl⟩
    · split
      · exact ih _ _ _
      · split
        · exact ⟨_, rfl⟩
        · rename_i hc
          have hle : b.byteCount.toNat ≤ cap := by
            simp only [true_and, Nat.not_lt] at hc
            omega
          obtain ⟨m1, hm1⟩ := copyLoop_ok cap b.data b.byteCount.toNat 0 b.address.toNat m (by omega)
          rw [hm1]
          exact ih _ _ _

/-- `read_uf2` loads or rejects every byte string: no index outside `uf2_block.data`, one round per 512 bytes -/
theorem read_total (f : Bytes) (cap : Nat) : ∃ r, read f cap = .ok r := blockLoop_ok f cap _ _ _ _

end NakenVerif.Safe.Uf2
