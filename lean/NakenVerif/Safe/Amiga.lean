import NakenVerif.Safe.CFile
/-
C17 — transcription of /repo/fileio/read_amiga.cpp (as fixed: end of file ends the hunk loop and the header's
table loop, a hunk length <= 0 is rejected) over an arbitrary byte string.

`read_int32` is `(getc << 24) | (getc << 16) | (getc << 8) | getc` (evaluated left to right by the compiled
code).  The only state besides the stream is `table_offset` and `length`; `count` is never incremented, so
the length of every hunk is looked up in entry 0 of the header's table.  There is no array in this reader;
what can go wrong is the loops: each one is given fuel `f.size + 2` and the theorem is that it never runs out.
-/
namespace NakenVerif.Safe.Amiga
open NakenVerif.Safe

def readInt32 (f : Bytes) (p : FPos) : BitVec 32 × FPos := getInt32 true f p

/-- `for (n = 0; n < name_length * 4; n++) { ch = getc(in); if (ch == 0) continue; if (ch == EOF) break; }`:
`left` = rounds the `for` still allows -/
def nameLoop (f : Bytes) : Nat → Nat → FPos → Except Fault FPos
  | 0, _, _ => .error .outOfFuel
  | fuel + 1, left, p =>
    if left = 0 then .ok p
    else
      let (c, p1) := getc f p
      match c with
      | none => .ok p1
      | some _ => nameLoop f fuel (left - 1) p1

/-- `for (n = 0; n < table_length; n++) { if (feof(in)) break; read_int32(in); }` -/
def tableLoop (f : Bytes) : Nat → Nat → FPos → Except Fault FPos
  | 0, _, _ => .error .outOfFuel
  | fuel + 1, left, p =>
    if left = 0 then .ok p
    else if p.eof then .ok p
    else tableLoop f fuel (left - 1) (readInt32 f p).2

/-- `read_hunk_header`: the stream afterwards and `table_offset` -/
def readHunkHeader (f : Bytes) (p : FPos) : Except Fault (Nat × FPos) :=
  let (nameLength, p) := readInt32 f p
  match nameLoop f (f.size + 2) ((nameLength * 4#32).toNat) p with
  | .error e => .error e
  | .ok p =>
    let (tableLength, p) := readInt32 f p
    let (_, p) := readInt32 f p
    let (_, p) := readInt32 f p
    let tableOffset := p.pos
    match tableLoop f (f.size + 2) tableLength.toNat p with
    | .error e => .error e
    | .ok p => .ok (tableOffset, p)

/-- `read_code`: `for (n = 0; n < length; n++) { ch = getc(in); if (ch == EOF) break; memory->write8(n, ch); }` -/
def codeLoop (f : Bytes) : Nat → Nat → Nat → FPos → Mem → Except Fault Mem
  | 0, _, _, _, _ => .error .outOfFuel
  | fuel + 1, n, length, p, m =>
    if n < length then
      let (c, p1) := getc f p
      match c with
      | none => .ok m
      | some b => codeLoop f fuel (n + 1) length p1 (m.write8 n b)
    else .ok m

def hunkHeader : BitVec 32 := 0x3f3#32
def hunkCode : BitVec 32 := 0x3e9#32

/-- the `while (running == 1)` loop; `length` is the C `int` (as its 32 bit pattern) -/
def hunkLoop (f : Bytes) : Nat → FPos → Nat → BitVec 32 → Mem → Except Fault Loaded
  | 0, _, _, _, _ => .error .outOfFuel
  | fuel + 1, p, tableOffset, length, m =>
    let (hunkType, p) := readInt32 f p
    if p.eof then .ok { ret := -1, mem := m }
    else
      let marker := p.pos
      -- `if (table_offset != 0) { fseek(table_offset + count * 4); length = read_int32(in); fseek(marker); }`
      let length := if tableOffset ≠ 0 then (readInt32 f (restore p tableOffset)).1 else length
      let p := if tableOffset ≠ 0 then restore p marker else p
      if hunkType = hunkHeader then
        match readHunkHeader f p with
        | .error e => .error e
        | .ok (t, p1) => hunkLoop f fuel p1 t length m
      else if hunkType = hunkCode then
        let (len, p1) := readInt32 f p
        match codeLoop f (f.size + 2) 0 ((len * 4#32).toNat) p1 m with
        | .error e => .error e
        | .ok m1 => .ok { ret := 0, mem := m1 }
      else if length.toInt ≤ 0 then .ok { ret := -1, mem := m }
      else hunkLoop f fuel { pos := p.pos + length.toNat, eof := false } tableOffset length m

/-- `read_amiga` -/
def read (f : Bytes) : Except Fault Loaded :=
  let (magic, _) := readInt32 f {}
  if magic ≠ hunkHeader then .ok { ret := -1, mem := {} }
  else hunkLoop f (f.size + 2) {} 0 0#32 {}

end NakenVerif.Safe.Amiga
