import NakenVerif.Safe.Elf
import NakenVerif.Safe.ProofsCFile
/-
C17 — read_elf (as fixed) on every byte string: `name[]` is never indexed outside its capacity, the copy loop
and the symbol loop never outlive their fuel `f.size + 2`, the two section walks are bounded by `e_shnum`.
-/
namespace NakenVerif.Safe.Elf
open NakenVerif.Safe

theorem readSym_readsSome (is32 be : Bool) (f : Bytes) (p : FPos) : ReadsSome f p (readSym is32 be f p).2 := by
  unfold readSym
  cases is32
  · simp only [Bool.false_eq_true, ↓reduceIte]
    exact ((((((getInt32_readsSome be f p).trans (getc_readsSome f _).reads).trans (getc_readsSome f _).reads).trans
      (getInt16_readsSome be f _).reads).trans (getInt64_readsSome be f _).reads).trans (getInt64_readsSome be f _).reads)
  · simp only [↓reduceIte]
    exact ((((((getInt32_readsSome be f p).trans (getInt32_readsSome be f _).reads).trans (getInt32_readsSome be f _).reads).trans
      (getc_readsSome f _).reads).trans (getc_readsSome f _).reads).trans (getInt16_readsSome be f _).reads)

theorem copyLoop_ok (f : Bytes) (addr size : BitVec 64) : ∀ (fuel : Nat) (i : BitVec 32) (p : FPos) (m : Mem),
    f.size - p.pos < fuel → ∃ m', copyLoop f addr size fuel i p m = .ok m' := by
  intro fuel
  induction fuel with
  | zero => intro i p m h; omega
  | succ fuel ih =>
    intro i p m h
    unfold copyLoop
    split
    · generalize hg : getc f p = cp
      obtain ⟨c, p1⟩ := cp
      simp only
      cases c with
      | none => exact ⟨m, rfl⟩
      | some b =>
        have hs := getc_some (f := f) (p := p) (b := b) (by rw [hg])
        rw [hg] at hs
        simp only at hs
        exact ih _ _ _ (by omega)
    · exact ⟨m, rfl⟩

theorem symLoop_ok (maxOff : Nat) (f : Bytes) (cap : Nat) (hcap : 2 ≤ cap) (is32 be : Bool) (strtab size : BitVec 64) :
    ∀ (fuel : Nat) (i : BitVec 32) (p : FPos) (syms : List (List UInt8 × Nat)), f.size - p.pos < fuel →
      ∃ s, symLoop maxOff f cap is32 be strtab size fuel i p syms = .ok s := by
  intro fuel
  induction fuel with
  | zero => intro i p syms h; omega
  | succ fuel ih =>
    intro i p syms h
    unfold symLoop
    simp only []
    by_cases hsz : u64 i < size
    · rw [if_pos hsz]
      by_cases hfit : p.pos + (if is32 = true then 16 else 24) > f.size
      · rw [if_pos hfit]; exact ⟨_, rfl⟩
      · rw [if_neg hfit]
        have hr := readSym_readsSome is32 be f p
        generalize readSym is32 be f p = sp at hr
        obtain ⟨s, p1⟩ := sp
        simp only [] at hr ⊢
        obtain ⟨name, hn, _⟩ := getStringAtOffset_ok maxOff f cap hcap p1 (strtab + u64 s.name)
        rw [hn]
        simp only []
        have hlt : p.pos < f.size := by split at hfit <;> omega
        have := hr.2 hlt
        exact ih _ _ _ (by omega)
    · rw [if_neg hsz]; exact ⟨_, rfl⟩

theorem findStrtab_ok (maxOff : Nat) (f : Bytes) (cap : Nat) (hcap : 2 ≤ cap) (h : Hdr) (stroffset : BitVec 64) :
    ∀ (k n : Nat) (p : FPos), ∃ r, findStrtab maxOff f cap h stroffset k n p = .ok r := by
  intro k
  induction k with
  | zero => intro n p; exact ⟨_, rfl⟩
  | succ k ih =>
    intro n p
    unfold findStrtab
    simp only []
    generalize readShdr h.is32 h.be f (seekSet maxOff p (secOffset h n)) = sp
    obtain ⟨sh, p1⟩ := sp
    simp only []
    split
    · obtain ⟨name, hn, _⟩ := getStringAtOffset_ok maxOff f cap hcap p1 (stroffset + u64 sh.name)
      rw [hn]
      simp only
      split
      · exact ⟨_, rfl⟩
      · exact ih _ _
    · exact ih _ _

theorem sectionLoop_ok (maxOff : Nat) (f : Bytes) (cap : Nat) (hcap : 2 ≤ cap) (h : Hdr) (stroffset strtab : BitVec 64) :
    ∀ (k n : Nat) (p : FPos) (st : St), ∃ r, sectionLoop maxOff f cap h stroffset strtab k n p st = .ok r := by
  intro k
  induction k with
  | zero => intro n p st; exact ⟨_, rfl⟩
  | succ k ih =>
    intro n p st
    unfold sectionLoop
    simp only []
    generalize readShdr h.is32 h.be f (seekSet maxOff p (secOffset h n)) = sp
    obtain ⟨sh, p1⟩ := sp
    simp only []
    obtain ⟨name, hn, _⟩ := getStringAtOffset_ok maxOff f cap hcap p1 (stroffset + u64 sh.name)
    rw [hn]
    simp only
    split
    · generalize (if sh.flags &&& 4#64 ≠ 0#64 then _ else st : St) = st1
      obtain ⟨m, hm⟩ := copyLoop_ok f sh.addr sh.size (f.size + 2) 0#32 (seekSet maxOff p1 sh.offset) st1.mem (by omega)
      rw [hm]
      exact ih _ _ _
    · split
      · obtain ⟨s, hs⟩ := symLoop_ok maxOff f cap hcap h.is32 h.be strtab sh.size (f.size + 2) 0#32
          (seekSet maxOff p1 sh.offset) st.syms (by omega)
        rw [hs]
        exact ih _ _ _
      · exact ih _ _ _

/-- `read_elf` loads or rejects every byte string (any `name[]` capacity of at least 2; the code has 256 since C03-14) -/
theorem read_total (maxOff : Nat) (f : Bytes) (cap : Nat) (hcap : 2 ≤ cap) : ∃ r, read maxOff f cap = .ok r := by
  unfold read
  simp only []
  split
  · exact ⟨_, rfl⟩
  · split
    · exact ⟨_, rfl⟩
    · generalize ({ is32 := _, be := _, shoff := _, shentsize := _, shnum := _, shstrndx := _ } : Hdr) = h
      generalize (if (fread f {} 16).1.getD 4 0 ≠ 2 then _ else _ : BitVec 64 × FPos) = sp
      obtain ⟨stroffset, p1⟩ := sp
      simp only []
      generalize roundsOf _ = k
      obtain ⟨⟨strtab, p2⟩, h1⟩ := findStrtab_ok maxOff f cap hcap h stroffset k 0 p1
      rw [h1]
      simp only []
      obtain ⟨st, h2⟩ := sectionLoop_ok maxOff f cap hcap h stroffset strtab k 0 p2 {}
      rw [h2]
      exact ⟨_, rfl⟩

end NakenVerif.Safe.Elf
