import NakenVerif.Safe.CFile
/-
C17 — `get_file_type()` of /repo/fileio/file.cpp: the extension (text after the last '.', compared without
case) decides for hex / wdc / srec / txt / uf2, otherwise the first four bytes (`check_magic` reads exactly
four: a shorter file matches nothing) or the first byte (`:`), otherwise raw binary.
-/
namespace NakenVerif.Safe.Sniff
open NakenVerif.Safe

inductive FileType where
  | hex | bin | elf | srec | wdc | amiga | tiTxt | macho | uf2
  deriving DecidableEq, Repr

def FileType.name : FileType → String
  | .hex => "hex" | .bin => "bin" | .elf => "elf" | .srec => "srec" | .wdc => "wdc" | .amiga => "amiga"
  | .tiTxt => "ti_txt" | .macho => "macho" | .uf2 => "uf2"

def checkMagic (f : Bytes) (m : List UInt8) : Bool := f.size ≥ 4 && (f.extract 0 4).toList == m

def getFileType (ext : String) (f : Bytes) : FileType :=
  let e := ext.toLower
  if e == "hex" then .hex
  else if e == "wdc" then .wdc
  else if e == "srec" then .srec
  else if e == "txt" then .tiTxt
  else if e == "uf2" then .uf2
  else if checkMagic f [0x7f, 69, 76, 70] then .elf
  else if checkMagic f [0xce, 0xfa, 0xed, 0xfe] || checkMagic f [0xcf, 0xfa, 0xed, 0xfe] ||
          checkMagic f [0xfe, 0xed, 0xfa, 0xce] || checkMagic f [0xfe, 0xed, 0xfa, 0xcf] then .macho
  else if checkMagic f [0, 0, 3, 0xf3] then .amiga
  else if f.size ≥ 1 && f[0]! == 58 then .hex
  else if checkMagic f [85, 70, 50, 10] then .uf2
  else .bin

end NakenVerif.Safe.Sniff
